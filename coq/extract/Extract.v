(* Extraction of the executable models to OCaml.  Directives used: exactly those of
   ExtrOcamlBasic and ExtrOCamlFloats (standard library), nothing else. *)
From Coq Require Import Extraction ExtrOcamlBasic ExtrOCamlFloats.
From PV Require Import Num model.Optimiser model.Parse.
Extraction Language OCaml.
Extraction "extract/model.ml" NumF build optimise run run_states init advance accept
  from_operations_l.
