(* Extraction of the executable models to OCaml.  Directives used: exactly those of
   ExtrOcamlBasic and ExtrOCamlFloats (standard library), nothing else. *)
From Coq Require Import Extraction ExtrOcamlBasic ExtrOCamlFloats.
From PV Require Import Num model.Optimiser model.Parse model.Geom model.Pipeline.
Extraction Language OCaml.
Extraction "extract/model.ml" NumF build optimise run run_states init advance accept
  from_operations_l
  positions to_cartesian_isometry periodic_images cell_area packed_score check_intersection
  shape_transform shape_intersects lj_score lj_energy ljshape_energy poly_area mol_area shape_radius
  score_cmp score_eq max_keeps_first
  from_radial polygon mol_trimer mol_circle lj_trimer lj_circle.
