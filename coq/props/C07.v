(* props/C07.v - C07: moves are accepted by the Metropolis rule. *)
From Coq Require Import ZArith NArith List Bool Reals Floats.
From PV Require Import Num NumR model.Optimiser model.OptSpec proofs.OptStruct proofs.OptLoop proofs.FloatFacts proofs.FloatZero proofs.HillClimb proofs.RealFacts.
From PV Require Import gen.GenFns model.Iter model.Pipeline proofs.ListLemmas proofs.CorOpt proofs.SrcOpt.

Theorem C07_undefined_never_accepted :
  forall (NN : Num) (fexp : carrier NN -> carrier NN) (thr old k : carrier NN), accept NN fexp
    thr None old k = false.
Proof. exact OptStruct.C07_undefined_never_accepted. Qed.
Print Assumptions C07_undefined_never_accepted.

Theorem C07_undefined_step_not_accepted :
  forall (NN : Num) (fexp : carrier NN -> carrier NN) (score : N -> list (carrier NN) -> option
    (carrier NN)) (c : cfg NN) (st : ost NN) (d : draw NN) (ps' : list (carrier NN)), proposal
    NN c st d = Some ps' -> score (calls NN st) ps' = None -> step_accepted NN fexp score c st d
    = None.
Proof. exact OptStruct.C07_undefined_step_not_accepted. Qed.
Print Assumptions C07_undefined_step_not_accepted.

Theorem C07_better_always_accepted_binary64 :
  forall (fexp : F -> F) (thr old new kT : F), fltb old new = true -> accept NumF fexp thr (Some
    new) old kT = true.
Proof. exact F_accept_better. Qed.
Print Assumptions C07_better_always_accepted_binary64.

Theorem C07_nan_never_accepted_binary64 :
  forall (fexp : F -> F) (thr old new kT : F), fnan new = true -> accept NumF fexp thr (Some
    new) old kT = false.
Proof. exact F_accept_nan. Qed.
Print Assumptions C07_nan_never_accepted_binary64.

Theorem C07_worse_never_accepted_at_zero_binary64 :
  forall fexp : F -> F, fexp neg_infinity = 0%float -> forall thr old new : F, fltb new old =
    true -> fleb 0 thr = true -> accept NumF fexp thr (Some new) old 0%float = false.
Proof. exact F_accept_zero_worse. Qed.
Print Assumptions C07_worse_never_accepted_at_zero_binary64.

Theorem C07_better_always_accepted_real :
  forall thr old new kT : R, (old < new)%R -> accept NumR exp thr (Some new) old kT = true.
Proof. exact R_accept_better. Qed.
Print Assumptions C07_better_always_accepted_real.

Theorem C07_equal_accepted_real :
  forall thr old kT : R, (0 < kT)%R -> (thr < 1)%R -> accept NumR exp thr (Some old) old kT =
    true.
Proof. exact R_accept_equal. Qed.
Print Assumptions C07_equal_accepted_real.

Theorem C07_worse_accepted_iff_threshold_below_exp :
  forall thr old d kT : R, (0 < d)%R -> (0 < kT)%R -> accept NumR exp thr (Some (old - d)%R) old
    kT = true <-> (thr < exp (- d / kT))%R.
Proof. exact R_accept_interval. Qed.
Print Assumptions C07_worse_accepted_iff_threshold_below_exp.



Theorem C07_energy_surface_is_source :
  forall (NN : Num) (fexp : carrier NN -> carrier NN) (new old kt : carrier NN),
    gen_energy_surface NN fexp new old kt = energy_surface NN fexp new old kt.
Proof. exact energy_surface_is_source. Qed.
Print Assumptions C07_energy_surface_is_source.

Theorem C07_test_acceptance_is_source :
  forall (NN : Num) (fexp : carrier NN -> carrier NN) (thr new old kt : carrier NN),
    gen_test_acceptance NN fexp thr new old kt = (thr <? energy_surface NN fexp new old kt)%num.
Proof. exact test_acceptance_is_source. Qed.
Print Assumptions C07_test_acceptance_is_source.

Theorem C07_accept_score_is_source :
  forall (NN : Num) (fexp : carrier NN -> carrier NN) (thr : carrier NN) (new : option (carrier
    NN)) (old kt : carrier NN), gen_accept_score NN fexp thr new old kt = (if accept NN fexp thr
    new old kt then new else None).
Proof. exact accept_score_is_source. Qed.
Print Assumptions C07_accept_score_is_source.


Theorem C07_source_undefined_never_accepted :
  forall (NN : Num) (fexp : carrier NN -> carrier NN) (thr old kt : carrier NN),
    gen_accept_score NN fexp thr None old kt = None.
Proof. exact source_undefined_never_accepted. Qed.
Print Assumptions C07_source_undefined_never_accepted.

Theorem C07_source_better_always_accepted :
  forall thr old new kT : R, (old < new)%R -> gen_accept_score NumR exp thr (Some new) old kT =
    Some new.
Proof. exact source_better_always_accepted. Qed.
Print Assumptions C07_source_better_always_accepted.

Theorem C07_source_equal_accepted :
  forall thr old kT : R, (0 < kT)%R -> (thr < 1)%R -> gen_accept_score NumR exp thr (Some old)
    old kT = Some old.
Proof. exact source_equal_accepted. Qed.
Print Assumptions C07_source_equal_accepted.

Theorem C07_source_worse_accepted_iff :
  forall thr old d kT : R, (0 < d)%R -> (0 < kT)%R -> gen_accept_score NumR exp thr (Some (old -
    d)%R) old kT = Some (old - d)%R <-> (thr < exp (- d / kT))%R.
Proof. exact source_worse_accepted_iff. Qed.
Print Assumptions C07_source_worse_accepted_iff.


Theorem S_mc_step_is_source :
  forall (NN : Num) (fexp : carrier NN -> carrier NN) (score : N -> list (carrier NN) -> option
    (carrier NN)) (c : cfg NN) (st : ost NN) (d : draw NN), mc_step NN fexp score c st d = match
    gen_mc_step NN fexp score c {| w_params := params NN st; w_handles := handles NN st; w_calls
    := calls NN st |} (score_cur NN st) (kt NN st) (ratio NN st) (loop_rej NN st) d with | Some
    (w, sc, rej) => {| params := w_params NN w; handles := w_handles NN w; score_cur := sc; kt
    := kt NN st; ratio := ratio NN st; conv_count := conv_count NN st; loop_rej := rej;
    score_start := score_start NN st; loops_done := loops_done NN st; j := N.succ (j NN st);
    calls := w_calls NN w; fin := false; converged := false; bad_index := false |} | None => {|
    params := params NN st; handles := handles NN st; score_cur := score_cur NN st; kt := kt NN
    st; ratio := ratio NN st; conv_count := conv_count NN st; loop_rej := loop_rej NN st;
    score_start := score_start NN st; loops_done := loops_done NN st; j := j NN st; calls :=
    calls NN st; fin := true; converged := false; bad_index := true |} end.
Proof. exact mc_step_is_source. Qed.
Print Assumptions S_mc_step_is_source.


Theorem C07_optimiser_source_translated :
  translated_gen_energy_surface = true /\ translated_gen_test_acceptance = true /\
    translated_gen_accept_score = true /\ translated_gen_cooling_factor = true /\
    translated_gen_build = true /\ translated_gen_inner_steps = true /\ translated_gen_loops =
    true /\ translated_gen_converged = true /\ translated_gen_ratio_update = true /\
    translated_gen_init = true /\ translated_gen_init_count = true /\ translated_gen_loop_head =
    true /\ translated_gen_inner_count = true /\ translated_gen_final_ok = true /\
    translated_gen_mc_step = true /\ translated_gen_end_loop = true /\ translated_gen_clamp =
    true /\ translated_gen_sample = true /\ translated_gen_reset_value = true /\
    translated_gen_set_sampled = true.
Proof. exact optimiser_source_translated. Qed.
Print Assumptions C07_optimiser_source_translated.

