(* props/C05.v - C05: zero-temperature optimisation never lowers the score.
   Statements only; every proof is [exact <lemma>]. *)
From Coq Require Import ZArith NArith List Bool Reals Floats. Import ListNotations.
From PV Require Import Num NumR model.Optimiser model.OptSpec proofs.OptStruct proofs.OptLoop proofs.FloatFacts proofs.FloatZero proofs.HillClimb proofs.RealFacts.
From PV Require Import model.Cli gen.GenCli proofs.CliFacts.
From PV Require Import gen.GenFns model.Iter model.Pipeline proofs.ListLemmas proofs.SrcOpt.
From PV Require Import proofs.SourceHeadlinesOpt.

Theorem C05_zero_temperature_is_hill_climb :
  forall (fexp : F -> F) (fpow : F -> F -> F) (score : N -> list F -> option F), fexp
    neg_infinity = 0%float -> forall (b : builder NumF) (ps : list (carrier NumF)) (hs : list
    (handle NumF)) (s0 : F) (draws1 draws2 : list (draw NumF)), zero_start b -> fnan s0 = false
    -> Forall thr_ok (draws1 ++ draws2) -> let c := build NumF fpow b in let mid := run NumF
    fexp score c (init NumF c ps hs s0) draws1 in let fin := run NumF fexp score c (init NumF c
    ps hs s0) (draws1 ++ draws2) in fleb s0 (score_cur NumF mid) = true /\ fleb (score_cur NumF
    mid) (score_cur NumF fin) = true.
Proof. exact HillClimb.C05_zero_temperature_is_hill_climb. Qed.
Print Assumptions C05_zero_temperature_is_hill_climb.

Theorem C05_zero_temperature_stays_zero :
  forall (fexp : F -> F) (fpow : F -> F -> F) (score : N -> list F -> option F) (b : builder
    NumF) (ps : list (carrier NumF)) (hs : list (handle NumF)) (s0 : F) (draws : list (draw
    NumF)), zero_start b -> let c := build NumF fpow b in kt NumF (run NumF fexp score c (init
    NumF c ps hs s0) draws) = 0%float.
Proof. exact HillClimb.C05_zero_temperature_stays_zero. Qed.
Print Assumptions C05_zero_temperature_stays_zero.

Theorem C05_worse_never_accepted_at_zero :
  forall fexp : F -> F, fexp neg_infinity = 0%float -> forall thr old new : F, fltb new old =
    true -> fleb 0 thr = true -> accept NumF fexp thr (Some new) old 0%float = false.
Proof. exact F_accept_zero_worse. Qed.
Print Assumptions C05_worse_never_accepted_at_zero.

Theorem C05_accepted_at_zero_is_not_worse :
  forall fexp : F -> F, fexp neg_infinity = 0%float -> forall thr old new : F, fnan old = false
    -> fleb 0 thr = true -> accept NumF fexp thr (Some new) old 0%float = true -> fnan new =
    false /\ fleb old new = true.
Proof. exact F_accept_zero_not_worse. Qed.
Print Assumptions C05_accepted_at_zero_is_not_worse.

Theorem C05_worse_over_zero_is_neg_infinity :
  forall x y : F, fltb x y = true -> fdiv (fsub x y) 0 = neg_infinity.
Proof. exact F_sub_div_zero. Qed.
Print Assumptions C05_worse_over_zero_is_neg_infinity.

Theorem C05_zero_times_any_cooling_factor :
  forall r : F, fmul 0 (nmin (NN:=NumF) (nmax (NN:=NumF) 0%float (fsub 1 r)) (fmax_ NumF)) = 0%float.
Proof. exact F_zero_mul_any_factor. Qed.
Print Assumptions C05_zero_times_any_cooling_factor.

Theorem C05_cooling_factor_always_finite :
  forall r : F, let f := nmin (NN:=NumF) (nmax (NN:=NumF) 0%float (fsub 1 r)) (fmax_ NumF) in ffinite f = true /\
    BinarySingleNaN.Bsign (PrimFloat.Prim2B f) = false.
Proof. exact F_factor_always_finite. Qed.
Print Assumptions C05_cooling_factor_always_finite.

Theorem C05_negative_zero_start_is_zero :
  forall (fpow : F -> F -> F) (b : builder NumF), zero_start b -> kt_start NumF (build NumF fpow
    b) = 0%float.
Proof. exact HillClimb.build_zero_start. Qed.
Print Assumptions C05_negative_zero_start_is_zero.

Theorem C05_hill_climb_any_num :
  forall (NN : Num) (fexp : carrier NN -> carrier NN) (score : N -> list (carrier NN) -> option
    (carrier NN)) (kt0 : carrier NN) (good_thr : carrier NN -> Prop) (c : cfg NN), (forall thr
    new old : carrier NN, good_thr thr -> @nis_nan NN old = false -> accept NN fexp thr (@Some
    (carrier NN) new) old kt0 = true -> @nis_nan NN new = false /\ (old <=? new)%num = true) ->
    (kt0 * factor NN c)%num = kt0 -> (forall x : carrier NN, @nis_nan NN x = false -> (x <=?
    x)%num = true) -> (forall x y z : carrier NN, (x <=? y)%num = true -> (y <=? z)%num = true
    -> (x <=? z)%num = true) -> forall (ps : list (carrier NN)) (hs : list (handle NN)) (s0 :
    carrier NN) (draws1 draws2 : list (draw NN)), kt_start NN c = kt0 -> @nis_nan NN s0 = false
    -> @Forall (draw NN) (fun d : draw NN => good_thr (d_thr NN d)) (draws1 ++ draws2) -> (s0
    <=? score_cur NN (run NN fexp score c (init NN c ps hs s0) draws1))%num = true /\ (score_cur
    NN (run NN fexp score c (init NN c ps hs s0) draws1) <=? score_cur NN (run NN fexp score c
    (init NN c ps hs s0) (draws1 ++ draws2)))%num = true.
Proof. exact OptLoop.C05_hill_climb. Qed.
Print Assumptions C05_hill_climb_any_num.

(* non-vacuity: the premises of C05_zero_temperature_is_hill_climb are met by a concrete
   configuration (kt_start = -0.0, kt_finish = 0.001, kt_ratio = -infinity) and concrete draws *)
Example C05_premises_satisfiable :
  let b := @mkBuilder NumF 3000%N (-0)%float (Some 0.001%float) (Some neg_infinity) 0.1%float 1000%N None in
  zero_start b /\ fnan 0.5%float = false
  /\ Forall thr_ok [@mkDraw NumF 0%nat 0.25%float 0%float; @mkDraw NumF 1%nat (-0.5)%float 0.75%float].
Proof.
  cbv zeta. split; [reflexivity|]. split; [reflexivity|].
  repeat constructor.
Qed.

Theorem C05_cli_driver_translated :
  gen_cli_problem = String.EmptyString.
Proof. exact cli_translated. Qed.
Print Assumptions C05_cli_driver_translated.

Theorem C05_cli_stage1_settings :
  forall (NN : Num) (i : N) (u : sbuilder NN), sb NN (stage_settings NN (gen_stages NN) 0 i u) =
    {| b_steps := 1000; b_kt_start := n0; b_kt_finish := b_kt_finish NN (sb NN u); b_kt_ratio :=
    b_kt_ratio NN (sb NN u); b_max_step := b_max_step NN (sb NN u); b_inner := b_inner NN (sb NN
    u); b_conv := None |} /\ sb_seed NN (stage_settings NN (gen_stages NN) 0 i u) = Some i.
Proof. exact cli_stage1_settings. Qed.
Print Assumptions C05_cli_stage1_settings.

Theorem C05_cli_stage3_settings :
  forall (NN : Num) (i : N) (u : sbuilder NN), sb NN (stage_settings NN (gen_stages NN) 2 i u) =
    {| b_steps := b_steps NN (sb NN u); b_kt_start := n0; b_kt_finish := b_kt_finish NN (sb NN
    u); b_kt_ratio := b_kt_ratio NN (sb NN u); b_max_step := b_max_step NN (sb NN u); b_inner :=
    b_inner NN (sb NN u); b_conv := b_conv NN (sb NN u) |} /\ sb_seed NN (stage_settings NN
    (gen_stages NN) 2 i u) = Some i.
Proof. exact cli_stage3_settings. Qed.
Print Assumptions C05_cli_stage3_settings.

Theorem C05_cli_first_and_last_stage_zero_start :
  forall (i : N) (u : sbuilder NumF), zero_start (sb NumF (stage_settings NumF (gen_stages NumF)
    0 i u)) /\ zero_start (sb NumF (stage_settings NumF (gen_stages NumF) 2 i u)).
Proof. exact cli_first_and_last_stage_zero_start. Qed.
Print Assumptions C05_cli_first_and_last_stage_zero_start.

Theorem C05_cli_first_and_last_stage_hill_climb :
  forall (fexp : F -> F) (fpow : F -> F -> F) (score : N -> list F -> option F), fexp
    neg_infinity = 0%float -> forall (k : nat) (i : N) (u : sbuilder NumF) (ps : list (carrier
    NumF)) (hs : list (handle NumF)) (s0 : F) (draws1 draws2 : list (draw NumF)), k = 0 \/ k = 2
    -> fnan s0 = false -> Forall thr_ok (draws1 ++ draws2) -> let c := build NumF fpow (sb NumF
    (stage_settings NumF (gen_stages NumF) k i u)) in let mid := run NumF fexp score c (init
    NumF c ps hs s0) draws1 in let fin := run NumF fexp score c (init NumF c ps hs s0) (draws1
    ++ draws2) in fleb s0 (score_cur NumF mid) = true /\ fleb (score_cur NumF mid) (score_cur
    NumF fin) = true.
Proof. exact cli_first_and_last_stage_hill_climb. Qed.
Print Assumptions C05_cli_first_and_last_stage_hill_climb.


Theorem C05_accept_score_is_source :
  forall (NN : Num) (fexp : carrier NN -> carrier NN) (thr : carrier NN) (new : option (carrier
    NN)) (old kt : carrier NN), gen_accept_score NN fexp thr new old kt = (if accept NN fexp thr
    new old kt then new else None).
Proof. exact accept_score_is_source. Qed.
Print Assumptions C05_accept_score_is_source.

Theorem C05_cooling_factor_is_source :
  forall (NN : Num) (fpow : carrier NN -> carrier NN -> carrier NN) (b : builder NN),
    gen_cooling_factor NN fpow b (N.min (b_inner NN b) (b_steps NN b)) = factor NN (build NN
    fpow b).
Proof. exact cooling_factor_is_source. Qed.
Print Assumptions C05_cooling_factor_is_source.


Theorem S_mc_step_is_source :
  forall (NN : Num) (fexp : carrier NN -> carrier NN) (score : N -> list (carrier NN) -> option
    (carrier NN)) (c : cfg NN) (st : ost NN) (d : draw NN), mc_step NN fexp score c st d = match
    gen_mc_step NN fexp score c {| w_params := params NN st; w_handles := handles NN st; w_calls
    := calls NN st |} (score_cur NN st) (kt NN st) (ratio NN st) (loop_rej NN st) d with | Some
    (w, sc, rej) => {| params := w_params NN w; handles := w_handles NN w; score_cur := sc; kt
    := kt NN st; ratio := ratio NN st; conv_count := conv_count NN st; loop_rej := rej;
    score_start := score_start NN st; loops_done := loops_done NN st; j := N.succ (j NN st);
    calls := w_calls NN w; fin := false; converged := false; bad_index := false |} | None => {|
    params := params NN st; handles := handles NN st; score_cur := score_cur NN st; kt := kt NN
    st; ratio := ratio NN st; conv_count := conv_count NN st; loop_rej := loop_rej NN st;
    score_start := score_start NN st; loops_done := loops_done NN st; j := j NN st; calls :=
    calls NN st; fin := true; converged := false; bad_index := true |} end.
Proof. exact mc_step_is_source. Qed.
Print Assumptions S_mc_step_is_source.

Theorem S_init_is_source :
  forall (NN : Num) (c : cfg NN) (ps : list (carrier NN)) (hs : list (handle NN)) (s0 : carrier
    NN), init NN c ps hs s0 = {| params := ps; handles := hs; score_cur := s0; kt := fst
    (gen_init NN c); ratio := snd (gen_init NN c); conv_count := gen_init_count; loop_rej := 0;
    score_start := s0; loops_done := 0; j := 0; calls := 1; fin := (gen_loops NN c =? 0)%N;
    converged := false; bad_index := false |}.
Proof. exact init_is_source. Qed.
Print Assumptions S_init_is_source.


Theorem S_world_operations_are_source :
  forall (NN : Num) (w : world NN) (idx : nat) (h : handle NN) (step g : carrier NN), nth_error
    (w_handles NN w) idx = Some h -> w_set_sampled NN w idx step g = (let '(old', v') :=
    gen_set_sampled NN (h_min NN h) (h_max NN h) (h_old NN h) (get_cell NN (w_params NN w)
    (h_cell NN h)) step g in Some {| w_params := set_nth (w_params NN w) (h_cell NN h) v';
    w_handles := set_nth (w_handles NN w) idx (with_old NN h old'); w_calls := w_calls NN w |})
    /\ w_reset NN w idx = (let '(_, v') := gen_reset_value NN (h_old NN h) (get_cell NN
    (w_params NN w) (h_cell NN h)) in Some {| w_params := set_nth (w_params NN w) (h_cell NN h)
    v'; w_handles := w_handles NN w; w_calls := w_calls NN w |}).
Proof. exact world_operations_are_source. Qed.
Print Assumptions S_world_operations_are_source.

Theorem S_build_is_source :
  forall (NN : Num) (fpow : carrier NN -> carrier NN -> carrier NN) (b : builder NN), gen_build
    NN fpow b = build NN fpow b.
Proof. exact build_is_source. Qed.
Print Assumptions S_build_is_source.


Theorem C05_optimiser_source_translated :
  translated_gen_energy_surface = true /\ translated_gen_test_acceptance = true /\
    translated_gen_accept_score = true /\ translated_gen_cooling_factor = true /\
    translated_gen_build = true /\ translated_gen_inner_steps = true /\ translated_gen_loops =
    true /\ translated_gen_converged = true /\ translated_gen_ratio_update = true /\
    translated_gen_init = true /\ translated_gen_init_count = true /\ translated_gen_loop_head =
    true /\ translated_gen_inner_count = true /\ translated_gen_final_ok = true /\
    translated_gen_mc_step = true /\ translated_gen_end_loop = true /\ translated_gen_clamp =
    true /\ translated_gen_sample = true /\ translated_gen_reset_value = true /\
    translated_gen_set_sampled = true.
Proof. exact optimiser_source_translated. Qed.
Print Assumptions C05_optimiser_source_translated.


Theorem C05_source_zero_temperature_is_hill_climb :
  forall (fexp : F -> F) (fpow : F -> F -> F) (score : N -> list F -> option F), fexp
    neg_infinity = 0%float -> forall (b : builder NumF) (ps : list (carrier NumF)) (hs : list
    (handle NumF)) (s0 : F) (draws1 draws2 : list (draw NumF)), zero_start b -> fnan s0 = false
    -> Forall thr_ok (draws1 ++ draws2) -> let c := gen_build NumF fpow b in let mid :=
    fold_left (src_advance NumF fexp score c) draws1 (src_init NumF c ps hs s0) in let fin :=
    fold_left (src_advance NumF fexp score c) (draws1 ++ draws2) (src_init NumF c ps hs s0) in
    fleb s0 (score_cur NumF mid) = true /\ fleb (score_cur NumF mid) (score_cur NumF fin) = true.
Proof. exact source_zero_temperature_is_hill_climb. Qed.
Print Assumptions C05_source_zero_temperature_is_hill_climb.

Theorem S_optimise_state_is_the_source_pieces :
  forall (NN : Num) (fexp : carrier NN -> carrier NN) (score : N -> list (carrier NN) -> option
    (carrier NN)) (c : cfg NN) (ps : list (carrier NN)) (hs : list (handle NN)) (draws : list
    (draw NN)), optimise NN fexp score c ps hs draws = src_optimise NN fexp score c ps hs draws.
Proof. exact optimise_state_is_the_source_pieces. Qed.
Print Assumptions S_optimise_state_is_the_source_pieces.

