(* props/C03.v - C03: the Lennard-Jones score is minus the crystal's lattice energy per molecule (reals).
   Proved: -N * score = (every unordered pair of distinct copies in the cell once) + 1/2 (every ordered
   pair of a copy with an image of a copy within 3 shells); for an order-independent pair energy this is
   one half of the sum over all ordered pairs of distinct molecule images, i.e. every pair once.
   NOT proved (partial): invariance under re-description of the crystal and the equality with the
   infinite sum for a cut potential (both are monitored on every run; the latter fails in very flat
   cells - known finding D14). *)
From Coq Require Import ZArith List Bool Reals. Import ListNotations.
From PV Require Import Num NumR model.Geom proofs.LatticeFacts proofs.SiteFacts proofs.OverlapFacts proofs.PackingFacts proofs.LJFacts proofs.RedescribeFacts proofs.LatticeSumFacts proofs.OriginShift.
From PV Require Import gen.GenFns model.Iter model.Pipeline proofs.ListLemmas proofs.SrcShapes proofs.SrcState.
From PV Require Import proofs.SourceHeadlines.

Theorem C03_lj_sum_formula :
  forall st : ljstateR, lj_sum NumR rpowi st = (incell_sum st + / 2 * image_sum st)%R.
Proof. exact lj_sum_formula. Qed.
Print Assumptions C03_lj_sum_formula.

Theorem C03_lj_score_formula :
  forall st : ljstateR, lj_score NumR rpowi st = Some (- (incell_sum st + / 2 * image_sum st) /
    INR (lj_copies st))%R.
Proof. exact lj_score_formula. Qed.
Print Assumptions C03_lj_score_formula.

Theorem C03_lj_score_counts_each_pair_once :
  forall st : ljstateR, (forall x y : list ljR, In x (map (fun p : tfR => map (lj_transform NumR
    p) (l_shape NumR st)) (lj_cartesian NumR st)) -> In y (map (fun p : tfR => map (lj_transform
    NumR p) (l_shape NumR st)) (lj_cartesian NumR st)) -> ljshape_energy NumR rpowi x y =
    ljshape_energy NumR rpowi y x) -> (incell_sum st + / 2 * image_sum st)%R = (/ 2 * (rsum (map
    (fun x : list ljR => rsum (map (fun y : list ljR => ljshape_energy NumR rpowi x y) (map (fun
    p : tfR => map (lj_transform NumR p) (l_shape NumR st)) (lj_cartesian NumR st)))) (map (fun
    p : tfR => map (lj_transform NumR p) (l_shape NumR st)) (lj_cartesian NumR st))) - rsum (map
    (fun x : list ljR => ljshape_energy NumR rpowi x x) (map (fun p : tfR => map (lj_transform
    NumR p) (l_shape NumR st)) (lj_cartesian NumR st))) + image_sum st))%R.
Proof. exact lj_score_counts_each_pair_once. Qed.
Print Assumptions C03_lj_score_counts_each_pair_once.

Theorem C03_images_are_lattice_translates :
  forall (c : cellR) (t : tfR) (k : Z) (zero : bool), affine_row t -> periodic_images NumR c t k
    zero = map (fun nm : Z * Z => tf_translate (to_cartesian_isometry NumR c t) (lattice_vec c
    (fst nm) (snd nm))) (shell_indices k zero).
Proof. exact periodic_images_exact. Qed.
Print Assumptions C03_images_are_lattice_translates.

Theorem C03_shell_indices_spec :
  forall (k : Z) (zero : bool), (0 <= k)%Z -> (forall n m : Z, In (n, m) (shell_indices k zero)
    <-> (- k <= n <= k)%Z /\ (- k <= m <= k)%Z /\ (zero = true \/ (n, m) <> (0%Z, 0%Z))) /\
    NoDup (shell_indices k zero) /\ Sorted.StronglySorted lex_lt (shell_indices k zero).
Proof. exact shell_indices_spec. Qed.
Print Assumptions C03_shell_indices_spec.

Theorem C03_lj_score_site_shift :
  forall (st : ljstateR) (ss' : list siteR), Forall int_sym (l_syms NumR st) -> shifted (l_sites
    NumR st) ss' -> lj_score NumR rpowi {| l_syms := l_syms NumR st; l_sites := ss'; l_cell :=
    l_cell NumR st; l_shape := l_shape NumR st |} = lj_score NumR rpowi st.
Proof. exact lj_score_site_shift. Qed.
Print Assumptions C03_lj_score_site_shift.

Theorem C03_image_sum_window_independent :
  forall (st : ljstateR) (X rho : R), lj_wf st X rho -> forall k : Z, (3 <= k)%Z -> image_sum_k
    st k = image_sum_k st 3.
Proof. exact image_sum_window_independent. Qed.
Print Assumptions C03_image_sum_window_independent.

Theorem C03_lj_score_is_infinite_lattice_sum :
  forall (st : ljstateR) (X rho : R), lj_wf st X rho -> forall k : Z, (3 <= k)%Z -> lj_score
    NumR rpowi st = Some (- (incell_sum st + / 2 * image_sum_k st k) / INR (lj_copies st))%R.
Proof. exact lj_score_is_infinite_lattice_sum. Qed.
Print Assumptions C03_lj_score_is_infinite_lattice_sum.

Theorem C03_window_hypotheses_satisfiable :
  lj_wf example_lj_state (7 / 2) 0.
Proof. exact example_lj_state_wf. Qed.
Print Assumptions C03_window_hypotheses_satisfiable.

Theorem C03_outside_three_no_energy :
  forall (st : ljstateR) (X rho : R), lj_wf st X rho -> forall (p1 p2 : tfR) (n m : Z), In p1
    (lj_relative NumR st) -> In p2 (lj_relative NumR st) -> (3 < Z.abs n)%Z \/ (3 < Z.abs m)%Z
    -> ljshape_energy NumR rpowi (map (lj_transform NumR (to_cartesian_isometry NumR (l_cell
    NumR st) p1)) (l_shape NumR st)) (map (lj_transform NumR (to_cartesian_translate NumR
    (l_cell NumR st) p2 n m)) (l_shape NumR st)) = 0%R.
Proof. exact outside_three_no_energy. Qed.
Print Assumptions C03_outside_three_no_energy.

Theorem C03_lj_score_origin_shift :
  forall (st st' : ljstateR) (h : R * R) (X rho : R), l_cell NumR st' = l_cell NumR st ->
    l_shape NumR st' = l_shape NumR st -> like (l_shape NumR st) -> lj_wf st X rho -> lj_wf st'
    X rho -> Forall2 (fun p p' : tfR => exists dx dy : Z, moved h p p' dx dy) (lj_relative NumR
    st) (lj_relative NumR st') -> lj_score NumR rpowi st' = lj_score NumR rpowi st.
Proof. exact lj_score_origin_shift. Qed.
Print Assumptions C03_lj_score_origin_shift.

Theorem C03_lj_score_moved_origin :
  forall (st : ljstateR) (h : R * R) (X rho : R), let st' := {| l_syms := l_syms NumR st;
    l_sites := map (move_site h) (l_sites NumR st); l_cell := l_cell NumR st; l_shape := l_shape
    NumR st |} in like (l_shape NumR st) -> lj_wf st X rho -> lj_wf st' X rho -> (forall sym :
    tfR, In sym (l_syms NumR st) -> fixes_mod_lattice sym h) -> lj_score NumR rpowi st' =
    lj_score NumR rpowi st.
Proof. exact lj_score_moved_origin. Qed.
Print Assumptions C03_lj_score_moved_origin.

Theorem C03_half_vectors_are_fixed :
  forall (sym : tfR) (u v : Z), a00 NumR sym = 1%R \/ a00 NumR sym = (-1)%R -> a11 NumR sym =
    1%R \/ a11 NumR sym = (-1)%R -> a01 NumR sym = 0%R -> a10 NumR sym = 0%R ->
    fixes_mod_lattice sym ((IZR u / 2)%R, (IZR v / 2)%R).
Proof. exact half_vectors_are_fixed. Qed.
Print Assumptions C03_half_vectors_are_fixed.

Theorem C03_score_through_total :
  forall (st : ljstateR) (X rho : R), lj_wf st X rho -> like (l_shape NumR st) -> forall k : Z,
    (3 <= k)%Z -> lj_score NumR rpowi st = Some (- (/ 2 * Tot (l_cell NumR st) (l_shape NumR st)
    (lj_relative NumR st) k) / INR (lj_copies st))%R.
Proof. exact score_through_total. Qed.
Print Assumptions C03_score_through_total.


Theorem C03_lj_relative_length :
  forall st : ljstateR, length (lj_relative NumR st) = lj_copies st.
Proof. exact lj_relative_length. Qed.
Print Assumptions C03_lj_relative_length.


Theorem C03_lj_energy_is_source :
  forall (NN : Num) (powi : carrier NN -> Z -> carrier NN) (a b : lj NN), gen_lj_energy NN powi
    a b = lj_energy NN powi a b.
Proof. exact lj_energy_is_source. Qed.
Print Assumptions C03_lj_energy_is_source.

Theorem C03_lj_final_is_source :
  forall (NN : Num) (powi : carrier NN -> Z -> carrier NN) (st : ljstate NN), gen_lj_final NN st
    (lj_sum NN powi st) = lj_score NN powi st.
Proof. exact lj_final_is_source. Qed.
Print Assumptions C03_lj_final_is_source.


Theorem C03_lj_score_is_source :
  forall (NN : Num) (powi : carrier NN -> Z -> carrier NN) (st : ljstate NN), gen_lj_score NN
    powi st = lj_score NN powi st.
Proof. exact lj_score_is_source. Qed.
Print Assumptions C03_lj_score_is_source.


Theorem S_ljshape_energy_is_source :
  forall (NN : Num) (powi : carrier NN -> Z -> carrier NN) (a b : list (lj NN)),
    gen_ljshape_energy NN powi a b = ljshape_energy NN powi a b.
Proof. exact ljshape_energy_is_source. Qed.
Print Assumptions S_ljshape_energy_is_source.

Theorem S_lj_state_pipelines_are_source :
  forall (NN : Num) (st : ljstate NN), gen_lj_total_shapes NN st = N.of_nat (length (l_sites NN
    st) * length (l_syms NN st)) /\ gen_lj_relative_positions NN st = lj_relative NN st /\
    gen_lj_cartesian_positions NN st = lj_cartesian NN st.
Proof. exact lj_state_pipelines_are_source. Qed.
Print Assumptions S_lj_state_pipelines_are_source.

Theorem S_lj_trimer_is_source :
  forall (NN : Num) (fsin fcos : carrier NN -> carrier NN) (pi_ radius angle distance : carrier
    NN), gen_lj_trimer NN fsin fcos pi_ radius angle distance = lj_trimer NN pi_ fsin fcos (nofZ
    7 / nofZ 2)%num radius angle distance.
Proof. exact lj_trimer_is_source. Qed.
Print Assumptions S_lj_trimer_is_source.


Theorem C03_shapes_source_translated :
  translated_gen_mol_trimer = true /\ translated_gen_lj_trimer = true /\
    translated_gen_lj_energy = true /\ translated_gen_ljshape_energy = true /\
    translated_gen_disc_intersects = true /\ translated_gen_seg_intersects = true /\
    translated_gen_poly_intersects = true /\ translated_gen_mol_intersects = true /\
    translated_gen_radial_dtheta = true /\ translated_gen_radial_edge = true /\
    translated_gen_angle_term = true /\ translated_gen_poly_term = true /\
    translated_gen_poly_radius_term = true /\ translated_gen_mol_radius_term = true /\
    translated_gen_poly_radius = true /\ translated_gen_mol_radius = true /\
    translated_gen_poly_area = true /\ translated_gen_overlap_area = true /\
    translated_gen_circle_overlap = true /\ translated_gen_mol_area = true.
Proof. exact shapes_source_translated. Qed.
Print Assumptions C03_shapes_source_translated.

Theorem C03_state_source_translated :
  translated_gen_positions = true /\ translated_gen_total_shapes = true /\
    translated_gen_relative_positions = true /\ translated_gen_cartesian_positions = true /\
    translated_gen_lj_total_shapes = true /\ translated_gen_lj_relative_positions = true /\
    translated_gen_lj_cartesian_positions = true /\ translated_gen_density_precheck = true /\
    translated_gen_shells = true /\ translated_gen_radius_sq = true /\
    translated_gen_check_intersection = true /\ translated_gen_packed_score = true /\
    translated_gen_lj_score = true /\ translated_gen_lj_final = true.
Proof. exact state_source_translated. Qed.
Print Assumptions C03_state_source_translated.


Theorem C03_source_lj_score_formula :
  forall st : ljstateR, gen_lj_score NumR rpowi st = Some (- (incell_sum st + / 2 * image_sum
    st) / INR (lj_copies st))%R.
Proof. exact source_lj_score_formula. Qed.
Print Assumptions C03_source_lj_score_formula.

Theorem C03_source_lj_score_is_infinite_lattice_sum :
  forall (st : ljstateR) (X rho : R), lj_wf st X rho -> forall k : Z, (3 <= k)%Z -> gen_lj_score
    NumR rpowi st = Some (- (incell_sum st + / 2 * image_sum_k st k) / INR (lj_copies st))%R.
Proof. exact source_lj_score_is_infinite_lattice_sum. Qed.
Print Assumptions C03_source_lj_score_is_infinite_lattice_sum.

