(* props/C08.v - C08: optimisation keeps parameters in range and the cell in its crystal family.
   - which handles exist and their ranges: decided by vm_compute over coq/gen/GenBounds.v, REGENERATED from
     generate_basis() of the running code for all 7 groups x 5 state kinds (a rectangular group has no
     handle on the cell angle: the cell cannot leave its family);
   - the run keeps every handled parameter within its handle's range and every other parameter untouched
     (binary64, as long as no sampled value is NaN; reals unconditionally), by induction over the run;
   - the held state always has the defined score score_cur (C08_held_score_defined);
   - chained stages re-derive sub-ranges. *)
From Coq Require Import ZArith NArith List Bool Reals Floats String. Import ListNotations.
From PV Require Import Num NumR model.Tables model.Spec model.Optimiser model.OptSpec gen.GenTables gen.GenBounds proofs.OptStruct proofs.OptLoop proofs.FloatFacts proofs.RealFacts proofs.RangeInst proofs.BoundsFacts.

Theorem C08_handles_are_declared_ranges :
  forallb (state_ok gen_groups) gen_bounds = true.
Proof. exact handles_are_declared_ranges. Qed.
Print Assumptions C08_handles_are_declared_ranges.

Theorem C08_all_states_probed :
  Datatypes.length gen_bounds = 161.
Proof. exact all_states_probed. Qed.
Print Assumptions C08_all_states_probed.

Theorem C08_ranges_invariant_binary64 :
  forall (fexpF : F -> F) (scoreF : N -> list F -> option F) (c : cfg NumF) (hs0 : list (handle
    NumF)) (draws : list (draw NumF)) (st : ost NumF), same_ranges NumF hs0 (handles NumF st) ->
    compatible NumF hs0 -> (forall h : handle NumF, In h hs0 -> h_cell NumF h < Datatypes.length
    (params NumF st) /\ inrF (h_min NumF h) (h_max NumF h) (h_min NumF h)) -> in_ranges NumF
    inrF hs0 (params NumF st) -> all_samples_good NumF fexpF scoreF (fun x : carrier NumF =>
    fnan x = false) c st draws -> let st' := run NumF fexpF scoreF c st draws in in_ranges NumF
    inrF hs0 (params NumF st') /\ untouched NumF hs0 (params NumF st) (params NumF st').
Proof. exact C08_ranges_invariant_binary64. Qed.
Print Assumptions C08_ranges_invariant_binary64.

Theorem C08_ranges_invariant_real :
  forall (scoreR : N -> list R -> option R) (c : cfg NumR) (hs0 : list (handle NumR)) (draws :
    list (draw NumR)) (st : ost NumR), same_ranges NumR hs0 (handles NumR st) -> compatible NumR
    hs0 -> (forall h : handle NumR, In h hs0 -> h_cell NumR h < Datatypes.length (params NumR
    st) /\ inrR (h_min NumR h) (h_max NumR h) (h_min NumR h)) -> in_ranges NumR inrR hs0 (params
    NumR st) -> let st' := run NumR exp scoreR c st draws in in_ranges NumR inrR hs0 (params
    NumR st') /\ untouched NumR hs0 (params NumR st) (params NumR st').
Proof. exact C08_ranges_invariant_real. Qed.
Print Assumptions C08_ranges_invariant_real.

Theorem C08_ranges_invariant_any_num :
  forall (NN : Num) (fexp : carrier NN -> carrier NN) (score : N -> list (carrier NN) -> option
    (carrier NN)) (good : carrier NN -> Prop) (inr : carrier NN -> carrier NN -> carrier NN ->
    Prop), (forall lo hi x : carrier NN, good x -> inr lo hi lo -> inr lo hi (nclamp lo hi x))
    -> forall (c : cfg NN) (hs0 : list (handle NN)) (draws : list (draw NN)) (st : ost NN),
    same_ranges NN hs0 (handles NN st) -> compatible NN hs0 -> (forall h : handle NN, In h hs0
    -> h_cell NN h < Datatypes.length (params NN st) /\ inr (h_min NN h) (h_max NN h) (h_min NN
    h)) -> in_ranges NN inr hs0 (params NN st) -> all_samples_good NN fexp score good c st draws
    -> let st' := run NN fexp score c st draws in in_ranges NN inr hs0 (params NN st') /\
    untouched NN hs0 (params NN st) (params NN st').
Proof. exact OptLoop.C08_ranges_invariant. Qed.
Print Assumptions C08_ranges_invariant_any_num.

Theorem C08_clamp_in_range_binary64 :
  forall lo hi x : F, fleb lo hi = true -> fnan x = false -> fleb lo (@nclamp NumF lo hi x) =
    true /\ fleb (@nclamp NumF lo hi x) hi = true.
Proof. exact F_clamp_in_range. Qed.
Print Assumptions C08_clamp_in_range_binary64.

Theorem C08_clamp_nan_binary64 :
  forall lo hi x : F, fnan x = true -> fnan (@nclamp NumF lo hi x) = true.
Proof. exact F_clamp_nan. Qed.
Print Assumptions C08_clamp_nan_binary64.

Theorem C08_held_score_defined :
  forall (NN : Num) (fexp : carrier NN -> carrier NN) (score : N -> list (carrier NN) -> option
    (carrier NN)), (forall (k k' : N) (ps : list (carrier NN)), score k ps = score k' ps) ->
    forall (c : cfg NN) (ps : list (carrier NN)) (hs : list (handle NN)) (s0 : carrier NN)
    (draws : list (draw NN)), score 0%N ps = Some s0 -> held_inv NN score (run NN fexp score c
    (init NN c ps hs s0) draws).
Proof. exact OptLoop.C08_held_score_defined. Qed.
Print Assumptions C08_held_score_defined.

Theorem C08_chain_ranges_nested :
  forall lo hi v x : R, inrR lo hi v -> inrR lo v x -> inrR lo hi x.
Proof. exact C08_chain_ranges_nested. Qed.
Print Assumptions C08_chain_ranges_nested.

(* ---- binary64 (Flocq): a proposal is finite, hence not NaN, when the magnitudes are moderate - the premise
   all_samples_good of C08_ranges_invariant_binary64, one step at a time ---- *)
From Flocq Require Import Core BinarySingleNaN PrimFloat.
From PV Require Import proofs.FloatFacts proofs.SampleFloat.
From PV Require Import gen.GenFns model.Iter model.Pipeline proofs.ListLemmas proofs.SrcOpt.
From PV Require Import proofs.SampleFloat proofs.RangeInst proofs.RatioFloat.
From PV Require Import model.Basis proofs.BasisFacts.
From PV Require Import proofs.BasisRun.

Theorem C08_F_sample_finite :
  forall (h : handle NumF) (v step g : F), ffin v -> ffin step -> ffin g -> ffin (h_min NumF h)
    -> ffin (h_max NumF h) -> fmag v 300 -> fmag step 300 -> fmag g 0 -> fmag (h_min NumF h) 300
    -> fmag (h_max NumF h) 300 -> ffin (sample NumF h v step g) /\ fnan (sample NumF h v step g)
    = false.
Proof. exact F_sample_finite. Qed.
Print Assumptions C08_F_sample_finite.


Theorem C08_clamp_is_source :
  forall (NN : Num) (lo hi x : carrier NN), gen_clamp NN lo hi x = nclamp lo hi x.
Proof. exact clamp_is_source. Qed.
Print Assumptions C08_clamp_is_source.

Theorem C08_sample_is_source :
  forall (NN : Num) (h : handle NN) (v step g : carrier NN), gen_sample NN (h_min NN h) (h_max
    NN h) v step g = sample NN h v step g.
Proof. exact sample_is_source. Qed.
Print Assumptions C08_sample_is_source.



Theorem C08_ranges_binary64_unconditional :
  forall (fexp : F -> F) (score : N -> list F -> option F) (c : cfg NumF) (hs0 : list (handle
    NumF)) (ps : list (carrier NumF)) (hs : list (handle NumF)) (s0 : carrier NumF) (draws :
    list (draw NumF)), let st0 := init NumF c ps hs s0 in same_ranges NumF hs0 hs -> compatible
    NumF hs0 -> (forall h : handle NumF, In h hs0 -> h_cell NumF h < Datatypes.length ps /\ inrF
    (h_min NumF h) (h_max NumF h) (h_min NumF h)) -> in_ranges NumF inrF hs0 ps -> moderate hs0
    -> ffin (max_step NumF c) -> fmag (max_step NumF c) 300 -> Forall draw_ok draws -> let st'
    := run NumF fexp score c st0 draws in in_ranges NumF inrF hs0 (params NumF st') /\ untouched
    NumF hs0 ps (params NumF st').
Proof. exact C08_ranges_binary64_unconditional. Qed.
Print Assumptions C08_ranges_binary64_unconditional.

Theorem C08_no_sample_is_nan :
  forall (fexp : F -> F) (score : N -> list F -> option F) (c : cfg NumF) (hs0 : list (handle
    NumF)) (draws : list (draw NumF)) (st : ost NumF), same_ranges NumF hs0 (handles NumF st) ->
    compatible NumF hs0 -> (forall h : handle NumF, In h hs0 -> h_cell NumF h < Datatypes.length
    (params NumF st) /\ inrF (h_min NumF h) (h_max NumF h) (h_min NumF h)) -> in_ranges NumF
    inrF hs0 (params NumF st) -> moderate hs0 -> ffin (max_step NumF c) -> fmag (max_step NumF
    c) 300 -> fposn (ratio NumF st) -> fleb (ratio NumF st) 1 = true -> Forall draw_ok draws ->
    all_samples_good NumF fexp score (fun x : carrier NumF => fnan x = false) c st draws.
Proof. exact F_all_samples_good. Qed.
Print Assumptions C08_no_sample_is_nan.

Theorem C08_ratio_in_unit_interval_binary64 :
  forall (fexp : F -> F) (score : N -> list F -> option F) (c : cfg NumF) (ps : list (carrier
    NumF)) (hs : list (handle NumF)) (s0 : carrier NumF) (draws : list (draw NumF)), let r :=
    ratio NumF (run NumF fexp score c (init NumF c ps hs s0) draws) in fposn r /\ fleb r 1 =
    true.
Proof. exact F_ratio_in_unit_interval. Qed.
Print Assumptions C08_ratio_in_unit_interval_binary64.


Theorem S_cell_dof_is_source :
  forall (NN : Num) (pi_ : carrier NN) (f : family) (len ratio : carrier NN), gen_cell_dof NN
    pi_ f len ratio = cell_dof NN pi_ f len ratio.
Proof. exact cell_dof_is_source. Qed.
Print Assumptions S_cell_dof_is_source.

Theorem S_site_basis_is_source :
  forall (NN : Num) (pi_ : carrier NN) (dof : list bool) (rot : N), gen_site_basis NN pi_ dof
    rot = site_basis NN pi_ dof rot.
Proof. exact site_basis_is_source. Qed.
Print Assumptions S_site_basis_is_source.

Theorem S_wyckoff_dof_is_source :
  gen_wyckoff_dof = wyckoff_dof.
Proof. exact wyckoff_dof_is_source. Qed.
Print Assumptions S_wyckoff_dof_is_source.

Theorem S_generate_basis_is_source :
  forall (NN : Num) (pi_ : carrier NN) (f : family) (len ratio : carrier NN) (sites : list (list
    bool)), gen_generate_basis_packed NN pi_ f len ratio sites = generate_basis NN pi_ f len
    ratio sites /\ gen_generate_basis_potential NN pi_ f len ratio sites = generate_basis NN pi_
    f len ratio sites.
Proof. exact generate_basis_is_source. Qed.
Print Assumptions S_generate_basis_is_source.

Theorem S_source_declares_the_ranges :
  forall (NN : Num) (pi_ : carrier NN) (f : family) (len ratio : carrier NN) (sites : list (list
    bool)) (d : decl NN), In d (gen_generate_basis_packed NN pi_ f len ratio sites) \/ In d
    (gen_generate_basis_potential NN pi_ f len ratio sites) -> declared NN pi_ f len ratio d.
Proof. exact source_declares_the_ranges. Qed.
Print Assumptions S_source_declares_the_ranges.

Theorem S_source_angle_handle_only_oblique :
  forall (NN : Num) (pi_ : carrier NN) (f : family) (len ratio : carrier NN) (sites : list (list
    bool)) (d : decl NN), In d (gen_generate_basis_packed NN pi_ f len ratio sites) -> d_var NN
    d = VAngle -> f = Monoclinic.
Proof. exact source_angle_handle_only_oblique. Qed.
Print Assumptions S_source_angle_handle_only_oblique.

Theorem S_source_ratio_handle_only_oblique_or_rectangular :
  forall (NN : Num) (pi_ : carrier NN) (f : family) (len ratio : carrier NN) (sites : list (list
    bool)) (d : decl NN), In d (gen_generate_basis_packed NN pi_ f len ratio sites) -> d_var NN
    d = VRatio -> f = Monoclinic \/ f = Orthorhombic.
Proof. exact source_ratio_handle_only_oblique_or_rectangular. Qed.
Print Assumptions S_source_ratio_handle_only_oblique_or_rectangular.

Theorem S_source_number_of_handles :
  forall (NN : Num) (pi_ : carrier NN) (f : family) (len ratio : carrier NN) (sites : list (list
    bool)), Forall (fun dof : list bool => dof = wyckoff_dof) sites -> Datatypes.length
    (gen_generate_basis_packed NN pi_ f len ratio sites) = match f with | Monoclinic => 3 |
    Orthorhombic => 2 | _ => 1 end + 3 * Datatypes.length sites.
Proof. exact source_number_of_handles. Qed.
Print Assumptions S_source_number_of_handles.

Theorem S_probes_are_the_source_basis :
  forallb (state_matches_source gen_groups) gen_bounds = true.
Proof. exact probes_are_the_source_basis. Qed.
Print Assumptions S_probes_are_the_source_basis.


Theorem S_initial_state_is_source :
  forall (NN : Num) (pi_ radius : carrier NN) (n : N) (f : family) (m : N), gen_initial_length
    NN radius n = initial_length_packed NN radius n /\ gen_initial_length_potential NN radius n
    = initial_length_potential NN radius n /\ gen_initial_angle NN pi_ f = initial_angle NN pi_
    f /\ gen_initial_ratio NN = initial_ratio NN /\ gen_initial_site NN m = initial_site NN m.
Proof. exact initial_state_is_source. Qed.
Print Assumptions S_initial_state_is_source.

Theorem C08_source_ranges_hold_after_any_run :
  forall (score : N -> list R -> option R) (c : cfg NumR) (f : family) (len ratio : R) (sites :
    list (list bool)) (vs : list R) (s0 : R) (draws : list (draw NumR)), let ds :=
    gen_generate_basis_packed NumR PI f len ratio sites in (1 / 100 <= len)%R -> (1 / 10 <=
    ratio)%R -> (forall (k : nat) (d : decl NumR), nth_error ds k = Some d -> k <
    Datatypes.length vs -> (d_min NumR d <= nth k vs 0 <= d_max NumR d)%R) -> let st' := run
    NumR exp score c (init NumR c vs (handles_from NumR 0 ds vs) s0) draws in forall (k : nat)
    (d : decl NumR), nth_error ds k = Some d -> k < Datatypes.length vs -> declared NumR PI f
    len ratio d /\ (d_min NumR d <= nth k (params NumR st') 0 <= d_max NumR d)%R.
Proof. exact C08_source_ranges_hold_after_any_run. Qed.
Print Assumptions C08_source_ranges_hold_after_any_run.

Theorem C08_source_ranges_hold_after_any_run_binary64 :
  forall (fexp : F -> F) (score : N -> list F -> option F) (c : cfg NumF) (f : family) (len
    ratio : F) (sites : list (list bool)) (vs : list F) (s0 : F) (draws : list (draw NumF)), let
    ds := gen_generate_basis_packed NumF pi_f f len ratio sites in ffin len -> fmag len 300 ->
    fleb (nofZ (n:=NumF) 1 / nofZ 100)%num len = true -> ffin ratio -> fmag ratio 300 -> fleb (nofZ (n:=NumF) 1 /
    nofZ 10)%num ratio = true -> (forall (k : nat) (d : decl NumF), nth_error ds k = Some d -> k
    < Datatypes.length vs -> inrF (d_min NumF d) (d_max NumF d) (nth k vs 0%float)) -> ffin
    (max_step NumF c) -> fmag (max_step NumF c) 300 -> Forall draw_ok draws -> let st' := run
    NumF fexp score c (init NumF c vs (handles_from NumF 0 ds vs) s0) draws in forall (k : nat)
    (d : decl NumF), nth_error ds k = Some d -> k < Datatypes.length vs -> declared NumF pi_f f
    len ratio d /\ inrF (d_min NumF d) (d_max NumF d) (nth k (params NumF st') 0%float).
Proof. exact C08_source_ranges_hold_after_any_run_binary64. Qed.
Print Assumptions C08_source_ranges_hold_after_any_run_binary64.

Theorem C08_initial_state_in_declared_ranges :
  forall (f : family) (len : R) (mults : list N), (1 / 100 <= len)%R -> Forall (fun m : N => (1
    <= m)%N) mults -> Forall2 in_decl (generate_basis NumR PI f len (initial_ratio NumR) (map
    (fun _ : N => wyckoff_dof) mults)) (initial_values NumR PI f len mults).
Proof. exact initial_state_in_declared_ranges. Qed.
Print Assumptions C08_initial_state_in_declared_ranges.

Theorem C08_from_the_initial_state_through_any_run :
  forall (score : N -> list R -> option R) (c : cfg NumR) (f : family) (radius : R) (mults :
    list N) (s0 : R) (draws : list (draw NumR)), let n := fold_left N.add mults 0%N in let len
    := gen_initial_length NumR radius n in let sites := map (fun _ : N => gen_wyckoff_dof) mults
    in let ds := gen_generate_basis_packed NumR PI f len (gen_initial_ratio NumR) sites in let
    vs := initial_values NumR PI f len mults in (1 / 100 <= len)%R -> Forall (fun m : N => (1 <=
    m)%N) mults -> let st' := run NumR exp score c (init NumR c vs (handles_from NumR 0 ds vs)
    s0) draws in forall (k : nat) (d : decl NumR), nth_error ds k = Some d -> k <
    Datatypes.length vs -> declared NumR PI f len (gen_initial_ratio NumR) d /\ (d_min NumR d <=
    nth k (params NumR st') 0 <= d_max NumR d)%R.
Proof. exact C08_from_the_initial_state_through_any_run. Qed.
Print Assumptions C08_from_the_initial_state_through_any_run.

Theorem S_potential_basis_is_packed_basis :
  forall (NN : Num) (pi_ : carrier NN) (f : family) (len ratio : carrier NN) (sites : list (list
    bool)), gen_generate_basis_potential NN pi_ f len ratio sites = gen_generate_basis_packed NN
    pi_ f len ratio sites.
Proof. exact potential_basis_is_packed_basis. Qed.
Print Assumptions S_potential_basis_is_packed_basis.


Theorem C08_probes_start_at_the_source_initial_state :
  forallb (starts_at_source gen_groups) gen_bounds = true.
Proof. exact probes_start_at_the_source_initial_state. Qed.
Print Assumptions C08_probes_start_at_the_source_initial_state.

Theorem S_world_operations_are_source :
  forall (NN : Num) (w : world NN) (idx : nat) (h : handle NN) (step g : carrier NN), nth_error
    (w_handles NN w) idx = Some h -> w_set_sampled NN w idx step g = (let '(old', v') :=
    gen_set_sampled NN (h_min NN h) (h_max NN h) (h_old NN h) (get_cell NN (w_params NN w)
    (h_cell NN h)) step g in Some {| w_params := set_nth (w_params NN w) (h_cell NN h) v';
    w_handles := set_nth (w_handles NN w) idx (with_old NN h old'); w_calls := w_calls NN w |})
    /\ w_reset NN w idx = (let '(_, v') := gen_reset_value NN (h_old NN h) (get_cell NN
    (w_params NN w) (h_cell NN h)) in Some {| w_params := set_nth (w_params NN w) (h_cell NN h)
    v'; w_handles := w_handles NN w; w_calls := w_calls NN w |}).
Proof. exact world_operations_are_source. Qed.
Print Assumptions S_world_operations_are_source.


Theorem C08_optimiser_source_translated :
  translated_gen_energy_surface = true /\ translated_gen_test_acceptance = true /\
    translated_gen_accept_score = true /\ translated_gen_cooling_factor = true /\
    translated_gen_build = true /\ translated_gen_inner_steps = true /\ translated_gen_loops =
    true /\ translated_gen_converged = true /\ translated_gen_ratio_update = true /\
    translated_gen_init = true /\ translated_gen_init_count = true /\ translated_gen_loop_head =
    true /\ translated_gen_inner_count = true /\ translated_gen_final_ok = true /\
    translated_gen_mc_step = true /\ translated_gen_end_loop = true /\ translated_gen_clamp =
    true /\ translated_gen_sample = true /\ translated_gen_reset_value = true /\
    translated_gen_set_sampled = true.
Proof. exact optimiser_source_translated. Qed.
Print Assumptions C08_optimiser_source_translated.

Theorem C08_basis_source_translated :
  translated_gen_cell_dof = true /\ translated_gen_wyckoff_dof = true /\
    translated_gen_site_basis = true /\ translated_gen_generate_basis_packed = true /\
    translated_gen_generate_basis_potential = true /\ translated_gen_initial_length = true /\
    translated_gen_initial_length_potential = true /\ translated_gen_initial_angle = true /\
    translated_gen_initial_ratio = true /\ translated_gen_initial_site = true.
Proof. exact basis_source_translated. Qed.
Print Assumptions C08_basis_source_translated.

