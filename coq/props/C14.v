(* props/C14.v - C14: one lattice: Cartesian map, periodic images and cell area agree (reals). *)
From Coq Require Import ZArith List Bool Reals Sorted. Import ListNotations.
From PV Require Import Num NumR model.Geom proofs.LatticeFacts proofs.SiteFacts.
From PV Require Import gen.GenFns model.Iter model.Pipeline proofs.ListLemmas proofs.SrcCell.
From PV Require Import proofs.SourceHeadlinesCell.

Theorem C14_to_cartesian_linear :
  forall c : cellR, to_cartesian NumR c (1%R, 0%R) = vecA c /\ to_cartesian NumR c (0%R, 1%R) =
    vecB c /\ (forall x y x' y' : R, to_cartesian NumR c ((x + x')%R, (y + y')%R) = ((fst
    (to_cartesian NumR c (x, y)) + fst (to_cartesian NumR c (x', y')))%R, (snd (to_cartesian
    NumR c (x, y)) + snd (to_cartesian NumR c (x', y')))%R)) /\ (forall k x y : R, to_cartesian
    NumR c ((k * x)%R, (k * y)%R) = ((k * fst (to_cartesian NumR c (x, y)))%R, (k * snd
    (to_cartesian NumR c (x, y)))%R)).
Proof. exact to_cartesian_linear. Qed.
Print Assumptions C14_to_cartesian_linear.

Theorem C14_cell_area_is_cross :
  forall c : cellR, cell_area NumR c = (fst (vecA c) * snd (vecB c) - snd (vecA c) * fst (vecB
    c))%R /\ ((0 <= c_sin NumR c)%R -> (0 <= c_len NumR c)%R -> (0 <= c_ratio NumR c)%R ->
    cell_area NumR c = Rabs (fst (vecA c) * snd (vecB c) - snd (vecA c) * fst (vecB c))).
Proof. exact cell_area_is_cross. Qed.
Print Assumptions C14_cell_area_is_cross.

Theorem C14_shell_indices_spec :
  forall (k : Z) (zero : bool), (0 <= k)%Z -> (forall n m : Z, In (n, m) (shell_indices k zero)
    <-> (- k <= n <= k)%Z /\ (- k <= m <= k)%Z /\ (zero = true \/ (n, m) <> (0%Z, 0%Z))) /\
    NoDup (shell_indices k zero) /\ StronglySorted lex_lt (shell_indices k zero).
Proof. exact shell_indices_spec. Qed.
Print Assumptions C14_shell_indices_spec.

Theorem C14_shell_indices_length :
  forall (k : Z) (zero : bool), (0 <= k)%Z -> length (shell_indices k zero) + (if zero then 0
    else 1) = Z.to_nat (2 * k + 1) * Z.to_nat (2 * k + 1).
Proof. exact shell_indices_length. Qed.
Print Assumptions C14_shell_indices_length.

Theorem C14_image_is_translate :
  forall (c : cellR) (t : tfR) (n m : Z), affine_row t -> to_cartesian_translate NumR c t n m =
    tf_translate (to_cartesian_isometry NumR c t) (lattice_vec c n m).
Proof. exact image_is_translate. Qed.
Print Assumptions C14_image_is_translate.

Theorem C14_periodic_images_exact :
  forall (c : cellR) (t : tfR) (k : Z) (zero : bool), affine_row t -> periodic_images NumR c t k
    zero = map (fun nm : Z * Z => tf_translate (to_cartesian_isometry NumR c t) (lattice_vec c
    (fst nm) (snd nm))) (shell_indices k zero).
Proof. exact periodic_images_exact. Qed.
Print Assumptions C14_periodic_images_exact.

Theorem C14_image_keeps_linear_part :
  forall (t : tfR) (d : R * R), a00 NumR (tf_translate t d) = a00 NumR t /\ a01 NumR
    (tf_translate t d) = a01 NumR t /\ a10 NumR (tf_translate t d) = a10 NumR t /\ a11 NumR
    (tf_translate t d) = a11 NumR t.
Proof. exact image_keeps_linear_part. Qed.
Print Assumptions C14_image_keeps_linear_part.

Theorem C14_centre :
  forall c : cellR, to_cartesian NumR c ((/ 2)%R, (/ 2)%R) = (((fst (vecA c) + fst (vecB c)) /
    2)%R, ((snd (vecA c) + snd (vecB c)) / 2)%R).
Proof. exact corners_and_centre. Qed.
Print Assumptions C14_centre.

(* non-vacuity: a placement produced by the site code has an affine bottom row (see
   C15_placement_spec: sym_row), so the hypothesis of C14_periodic_images_exact is met *)
Example C14_affine_row_satisfiable : affine_row (@mkTf NumR 1 0 (1/4) 0 1 (-1/4) 0 0 0)%R.
Proof. unfold affine_row. cbn. repeat split; auto. Qed.

Theorem C14_cell_area_is_source :
  forall (NN : Num) (c : cell NN), gen_cell_area NN c = cell_area NN c.
Proof. exact cell_area_is_source. Qed.
Print Assumptions C14_cell_area_is_source.

Theorem C14_to_cartesian_is_source :
  forall (NN : Num) (c : cell NN) (x y : carrier NN), gen_to_cartesian NN c x y = to_cartesian
    NN c (x, y).
Proof. exact to_cartesian_is_source. Qed.
Print Assumptions C14_to_cartesian_is_source.



Theorem C14_periodic_images_is_source :
  forall (NN : Num) (c : cell NN) (t : tf NN) (k : Z) (zero : bool), gen_periodic_images NN c t
    k zero = periodic_images NN c t k zero.
Proof. exact periodic_images_is_source. Qed.
Print Assumptions C14_periodic_images_is_source.


Theorem S_cell_sides_are_source :
  forall (NN : Num) (c : cell NN), gen_cell_a NN c = cell_a NN c /\ gen_cell_b NN c = cell_b NN
    c.
Proof. exact cell_sides_are_source. Qed.
Print Assumptions S_cell_sides_are_source.


Theorem C14_cell_source_translated :
  translated_gen_wrap = true /\ translated_gen_periodic_images = true /\
    translated_gen_positions = true /\ translated_gen_cell_a = true /\ translated_gen_cell_b =
    true /\ translated_gen_cell_area = true /\ translated_gen_to_cartesian = true.
Proof. exact cell_source_translated. Qed.
Print Assumptions C14_cell_source_translated.


Theorem C14_source_cell_area_is_cross :
  forall c : cellR, let A := gen_to_cartesian NumR c 1%R 0%R in let B := gen_to_cartesian NumR c
    0%R 1%R in gen_cell_area NumR c = (fst A * snd B - snd A * fst B)%R.
Proof. exact source_cell_area_is_cross. Qed.
Print Assumptions C14_source_cell_area_is_cross.

Theorem C14_source_periodic_images_exact :
  forall (c : cellR) (t : tfR) (k : Z) (zero : bool), affine_row t -> gen_periodic_images NumR c
    t k zero = map (fun nm : Z * Z => tf_translate (to_cartesian_isometry NumR c t) (lattice_vec
    c (fst nm) (snd nm))) (shell_indices k zero).
Proof. exact source_periodic_images_exact. Qed.
Print Assumptions C14_source_periodic_images_exact.

