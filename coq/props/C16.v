(* props/C16.v - C16: the built-in tables are the seven named wallpaper groups.
   The tables (gen/GenTables.v) are REGENERATED from the running code on every check; the
   specification (model/Spec.v, `ita`) is typed in independently from International Tables A.
   The domain is finite (7 groups, <= 4 operations, all pairs): vm_compute decides it completely. *)
From Coq Require Import ZArith QArith String List Bool.
From PV Require Import model.Tables model.Spec gen.GenTables proofs.TablesFacts.

Theorem C16_tables_are_spec :
  tables_match_spec gen_groups = true.
Proof. exact tables_are_spec. Qed.
Print Assumptions C16_tables_are_spec.

Theorem C16_spec_is_group :
  forallb (fun s : spec_group => is_group_mod (sg_order s) (map qop_of_sop (sg_ops s)) &&
    content_eqb (content_of (map qop_of_sop (sg_ops s))) (sg_content s) && family_shape_ok s)
    ita = true.
Proof. exact spec_is_group. Qed.
Print Assumptions C16_spec_is_group.

Theorem C16_tables_are_groups :
  forallb (fun g : gen_group => match group_qops g with | Some ops => match find (fun s :
    spec_group => (sg_name s =? gg_cli g)%string) ita with | Some s => is_group_mod (sg_order s)
    ops && content_eqb (content_of ops) (sg_content s) | None => false end | None => false end)
    gen_groups = true.
Proof. exact tables_are_groups. Qed.
Print Assumptions C16_tables_are_groups.

Theorem C16_family_invariance :
  forall s : spec_group, In s ita -> forall o : sop, In o (sg_ops s) -> forall A B C : Z, match
    sg_family s with | Monoclinic => preserves_metric o A B C = true | Orthorhombic =>
    preserves_metric o A B 0 = true | _ => False end.
Proof. exact family_invariance. Qed.
Print Assumptions C16_family_invariance.

Theorem C16_family_needed :
  forallb (fun s : spec_group => match sg_family s with | Orthorhombic => existsb (fun o : sop
    => negb (preserves_metric o 2 2 1)) (sg_ops s) | _ => true end) ita = true.
Proof. exact family_needed. Qed.
Print Assumptions C16_family_needed.


Theorem C16_names_resolve_case_insensitively :
  Datatypes.length gen_name_lookups = 28%nat /\ forallb (fun '(_, want, got) => (want =?
    got)%string) gen_name_lookups = true.
Proof. exact names_resolve_case_insensitively. Qed.
Print Assumptions C16_names_resolve_case_insensitively.

