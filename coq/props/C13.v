(* props/C13.v - C13: the pair potential is the shifted, truncated 12-6 Lennard-Jones law (reals). *)
From Coq Require Import ZArith List Bool Reals. Import ListNotations.
From PV Require Import Num NumR model.Geom proofs.LatticeFacts proofs.SiteFacts proofs.OverlapFacts proofs.PackingFacts proofs.LJFacts.
From PV Require Import gen.GenFns model.Iter model.Pipeline proofs.ListLemmas proofs.CorLJ proofs.SrcShapes proofs.SrcState.

Theorem C13_lj_is_12_6 :
  forall (a b : ljR) (r : R), lcut NumR a = None -> (0 < r)%R -> (r * r)%R = r2_of a b -> energy
    a b = (4 * leps NumR a * ((lsigma NumR a / r) ^ 12 - (lsigma NumR a / r) ^ 6))%R.
Proof. exact lj_is_12_6. Qed.
Print Assumptions C13_lj_is_12_6.

Theorem C13_lj_shift :
  forall (a b : ljR) (x r : R), lcut NumR a = Some x -> (0 < r)%R -> (0 < x)%R -> (r * r)%R =
    r2_of a b -> (r < x)%R -> energy a b = (4 * leps NumR a * ((lsigma NumR a / r) ^ 12 -
    (lsigma NumR a / r) ^ 6) - 4 * leps NumR a * ((lsigma NumR a / x) ^ 12 - (lsigma NumR a / x)
    ^ 6))%R.
Proof. exact lj_shift. Qed.
Print Assumptions C13_lj_shift.

Theorem C13_lj_zero_beyond :
  forall (a b : ljR) (x : R), lcut NumR a = Some x -> (x * x <= r2_of a b)%R -> energy a b = 0%R.
Proof. exact lj_zero_beyond. Qed.
Print Assumptions C13_lj_zero_beyond.

Theorem C13_lj_continuous_at_cutoff :
  forall sigma eps x : R, (0 < x)%R -> (lj126 sigma eps (x * x) - 4 * eps * ((sigma / x) ^ 12 -
    (sigma / x) ^ 6))%R = 0%R.
Proof. exact lj_continuous_at_cutoff. Qed.
Print Assumptions C13_lj_continuous_at_cutoff.

Theorem C13_lj_minimum :
  forall a b : ljR, lcut NumR a = None -> (0 <= leps NumR a)%R -> (- leps NumR a <= energy a
    b)%R /\ ((0 < leps NumR a)%R -> energy a b = (- leps NumR a)%R <-> ((lsigma NumR a * lsigma
    NumR a / r2_of a b) ^ 3)%R = (1 / 2)%R).
Proof. exact lj_minimum. Qed.
Print Assumptions C13_lj_minimum.

Theorem C13_lj_distance_only :
  forall a b a' b' : ljR, lsigma NumR a = lsigma NumR a' -> leps NumR a = leps NumR a' -> lcut
    NumR a = lcut NumR a' -> r2_of a b = r2_of a' b' -> energy a b = energy a' b'.
Proof. exact lj_distance_only. Qed.
Print Assumptions C13_lj_distance_only.

Theorem C13_lj_rigid_invariant :
  forall (t : tfR) (a b : ljR), affine_row t -> rigid t -> energy (lj_transform NumR t a)
    (lj_transform NumR t b) = energy a b /\ lsigma NumR (lj_transform NumR t a) = lsigma NumR a
    /\ leps NumR (lj_transform NumR t a) = leps NumR a /\ lcut NumR (lj_transform NumR t a) =
    lcut NumR a.
Proof. exact lj_rigid_invariant. Qed.
Print Assumptions C13_lj_rigid_invariant.

Theorem C13_lj_symmetric_like :
  forall a b : ljR, lsigma NumR a = lsigma NumR b -> leps NumR a = leps NumR b -> lcut NumR a =
    lcut NumR b -> energy a b = energy b a.
Proof. exact lj_symmetric_like. Qed.
Print Assumptions C13_lj_symmetric_like.

Theorem C13_lj_asymmetric_unlike_KNOWN_FINDING_D9 :
  exists a b : ljR, energy a b <> energy b a.
Proof. exact lj_asymmetric_unlike. Qed.
Print Assumptions C13_lj_asymmetric_unlike_KNOWN_FINDING_D9.

Theorem C13_molecule_energy_is_pair_sum :
  forall a b : list ljR, ljshape_energy NumR rpowi a b = rsum (map (fun s : ljR => rsum (map
    (fun o : ljR => energy s o) b)) a).
Proof. exact molecule_energy_is_pair_sum. Qed.
Print Assumptions C13_molecule_energy_is_pair_sum.

Theorem C13_molecule_energy_symmetric_like :
  forall a b : list ljR, (forall s o : ljR, In s a -> In o b -> energy s o = energy o s) ->
    ljshape_energy NumR rpowi a b = ljshape_energy NumR rpowi b a.
Proof. exact molecule_energy_symmetric_like. Qed.
Print Assumptions C13_molecule_energy_symmetric_like.


Theorem C13_lj_energy_is_source :
  forall (NN : Num) (powi : carrier NN -> Z -> carrier NN) (a b : lj NN), gen_lj_energy NN powi
    a b = lj_energy NN powi a b.
Proof. exact lj_energy_is_source. Qed.
Print Assumptions C13_lj_energy_is_source.



Theorem C13_source_lj_is_12_6 :
  forall (a b : ljR) (r : R), lcut NumR a = None -> (0 < r)%R -> (r * r)%R = r2_of a b ->
    gen_lj_energy NumR rpowi a b = (4 * leps NumR a * ((lsigma NumR a / r) ^ 12 - (lsigma NumR a
    / r) ^ 6))%R.
Proof. exact source_lj_is_12_6. Qed.
Print Assumptions C13_source_lj_is_12_6.

Theorem C13_source_lj_zero_beyond :
  forall (a b : ljR) (x : R), lcut NumR a = Some x -> (x * x <= r2_of a b)%R -> gen_lj_energy
    NumR rpowi a b = 0%R.
Proof. exact source_lj_zero_beyond. Qed.
Print Assumptions C13_source_lj_zero_beyond.

Theorem C13_source_lj_symmetric_like :
  forall a b : ljR, lsigma NumR a = lsigma NumR b -> leps NumR a = leps NumR b -> lcut NumR a =
    lcut NumR b -> gen_lj_energy NumR rpowi a b = gen_lj_energy NumR rpowi b a.
Proof. exact source_lj_symmetric_like. Qed.
Print Assumptions C13_source_lj_symmetric_like.


Theorem C13_lj_score_is_source :
  forall (NN : Num) (powi : carrier NN -> Z -> carrier NN) (st : ljstate NN), gen_lj_score NN
    powi st = lj_score NN powi st.
Proof. exact lj_score_is_source. Qed.
Print Assumptions C13_lj_score_is_source.


Theorem S_ljshape_energy_is_source :
  forall (NN : Num) (powi : carrier NN -> Z -> carrier NN) (a b : list (lj NN)),
    gen_ljshape_energy NN powi a b = ljshape_energy NN powi a b.
Proof. exact ljshape_energy_is_source. Qed.
Print Assumptions S_ljshape_energy_is_source.

Theorem S_lj_trimer_is_source :
  forall (NN : Num) (fsin fcos : carrier NN -> carrier NN) (pi_ radius angle distance : carrier
    NN), gen_lj_trimer NN fsin fcos pi_ radius angle distance = lj_trimer NN pi_ fsin fcos (nofZ
    7 / nofZ 2)%num radius angle distance.
Proof. exact lj_trimer_is_source. Qed.
Print Assumptions S_lj_trimer_is_source.


Theorem C13_shapes_source_translated :
  translated_gen_mol_trimer = true /\ translated_gen_lj_trimer = true /\
    translated_gen_lj_energy = true /\ translated_gen_ljshape_energy = true /\
    translated_gen_disc_intersects = true /\ translated_gen_seg_intersects = true /\
    translated_gen_poly_intersects = true /\ translated_gen_mol_intersects = true /\
    translated_gen_radial_dtheta = true /\ translated_gen_radial_edge = true /\
    translated_gen_angle_term = true /\ translated_gen_poly_term = true /\
    translated_gen_poly_radius_term = true /\ translated_gen_mol_radius_term = true /\
    translated_gen_poly_radius = true /\ translated_gen_mol_radius = true /\
    translated_gen_poly_area = true /\ translated_gen_overlap_area = true /\
    translated_gen_circle_overlap = true /\ translated_gen_mol_area = true.
Proof. exact shapes_source_translated. Qed.
Print Assumptions C13_shapes_source_translated.

Theorem C13_state_source_translated :
  translated_gen_positions = true /\ translated_gen_total_shapes = true /\
    translated_gen_relative_positions = true /\ translated_gen_cartesian_positions = true /\
    translated_gen_lj_total_shapes = true /\ translated_gen_lj_relative_positions = true /\
    translated_gen_lj_cartesian_positions = true /\ translated_gen_density_precheck = true /\
    translated_gen_shells = true /\ translated_gen_radius_sq = true /\
    translated_gen_check_intersection = true /\ translated_gen_packed_score = true /\
    translated_gen_lj_score = true /\ translated_gen_lj_final = true.
Proof. exact state_source_translated. Qed.
Print Assumptions C13_state_source_translated.

