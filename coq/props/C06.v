(* props/C06.v - C06: a rejected move leaves no trace; the result is the last accepted state.
   Statements only; every proof is [exact <lemma>] (lemmas in proofs/OptStruct.v). *)
From Coq Require Import ZArith NArith List Bool Reals Floats.
From PV Require Import Num NumR model.Optimiser model.OptSpec proofs.OptStruct proofs.OptLoop proofs.FloatFacts proofs.RealFacts.
From PV Require Import gen.GenFns model.Iter model.Pipeline proofs.ListLemmas proofs.SrcOpt.
From PV Require Import proofs.SourceHeadlinesOpt.

Theorem C06_fin_frozen :
  forall (NN : Num) (fexp : carrier NN -> carrier NN) (score : N -> list (carrier NN) -> option
    (carrier NN)) (c : cfg NN) (st : ost NN) (d : draw NN), fin NN st = true -> advance NN fexp
    score c st d = st.
Proof. exact OptStruct.C06_fin_frozen. Qed.
Print Assumptions C06_fin_frozen.

Theorem C06_step_accept_or_restore :
  forall (NN : Num) (fexp : carrier NN -> carrier NN) (score : N -> list (carrier NN) -> option
    (carrier NN)) (c : cfg NN) (st : ost NN) (d : draw NN), fin NN st = false -> match proposal
    NN c st d with | Some ps' => (exists s : carrier NN, step_accepted NN fexp score c st d =
    Some (ps', s) /\ params NN (advance NN fexp score c st d) = ps' /\ score_cur NN (advance NN
    fexp score c st d) = s) \/ step_accepted NN fexp score c st d = None /\ params NN (advance
    NN fexp score c st d) = params NN st /\ score_cur NN (advance NN fexp score c st d) =
    score_cur NN st | None => bad_index NN (advance NN fexp score c st d) = true /\ params NN
    (advance NN fexp score c st d) = params NN st /\ score_cur NN (advance NN fexp score c st d)
    = score_cur NN st end.
Proof. exact OptStruct.C06_step_accept_or_restore. Qed.
Print Assumptions C06_step_accept_or_restore.

Theorem C06_proposal_differs_in_one :
  forall (NN : Num) (c : cfg NN) (st : ost NN) (d : draw NN) (ps' : list (carrier NN)), proposal
    NN c st d = Some ps' -> length ps' = length (params NN st) /\ (exists i : nat, forall (k :
    nat) (dflt : carrier NN), k <> i -> nth k ps' dflt = nth k (params NN st) dflt).
Proof. exact OptStruct.C06_proposal_differs_in_one. Qed.
Print Assumptions C06_proposal_differs_in_one.

Theorem C06_result_is_last_accepted :
  forall (NN : Num) (fexp : carrier NN -> carrier NN) (score : N -> list (carrier NN) -> option
    (carrier NN)) (c : cfg NN) (draws : list (draw NN)) (st : ost NN), params NN (run NN fexp
    score c st draws) = last (map fst (accepts NN fexp score c st draws)) (params NN st) /\
    score_cur NN (run NN fexp score c st draws) = last (map snd (accepts NN fexp score c st
    draws)) (score_cur NN st).
Proof. exact OptStruct.C06_result_is_last_accepted. Qed.
Print Assumptions C06_result_is_last_accepted.


Theorem S_mc_step_is_source :
  forall (NN : Num) (fexp : carrier NN -> carrier NN) (score : N -> list (carrier NN) -> option
    (carrier NN)) (c : cfg NN) (st : ost NN) (d : draw NN), mc_step NN fexp score c st d = match
    gen_mc_step NN fexp score c {| w_params := params NN st; w_handles := handles NN st; w_calls
    := calls NN st |} (score_cur NN st) (kt NN st) (ratio NN st) (loop_rej NN st) d with | Some
    (w, sc, rej) => {| params := w_params NN w; handles := w_handles NN w; score_cur := sc; kt
    := kt NN st; ratio := ratio NN st; conv_count := conv_count NN st; loop_rej := rej;
    score_start := score_start NN st; loops_done := loops_done NN st; j := N.succ (j NN st);
    calls := w_calls NN w; fin := false; converged := false; bad_index := false |} | None => {|
    params := params NN st; handles := handles NN st; score_cur := score_cur NN st; kt := kt NN
    st; ratio := ratio NN st; conv_count := conv_count NN st; loop_rej := loop_rej NN st;
    score_start := score_start NN st; loops_done := loops_done NN st; j := j NN st; calls :=
    calls NN st; fin := true; converged := false; bad_index := true |} end.
Proof. exact mc_step_is_source. Qed.
Print Assumptions S_mc_step_is_source.

Theorem S_final_assert_is_source :
  forall (NN : Num) (fexp : carrier NN -> carrier NN) (score : N -> list (carrier NN) -> option
    (carrier NN)) (c : cfg NN) (ps : list (carrier NN)) (hs : list (handle NN)) (draws : list
    (draw NN)) (s0 : carrier NN), score 0%N ps = Some s0 -> let st := run NN fexp score c (init
    NN c ps hs s0) draws in bad_index NN st = false -> fin NN st = true -> converged NN st =
    false -> optimise NN fexp score c ps hs draws = (if gen_final_ok NN (score (calls NN st)
    (params NN st)) then Returned NN st else PanicFinalInvalid NN).
Proof. exact final_assert_is_source. Qed.
Print Assumptions S_final_assert_is_source.


Theorem S_world_operations_are_source :
  forall (NN : Num) (w : world NN) (idx : nat) (h : handle NN) (step g : carrier NN), nth_error
    (w_handles NN w) idx = Some h -> w_set_sampled NN w idx step g = (let '(old', v') :=
    gen_set_sampled NN (h_min NN h) (h_max NN h) (h_old NN h) (get_cell NN (w_params NN w)
    (h_cell NN h)) step g in Some {| w_params := set_nth (w_params NN w) (h_cell NN h) v';
    w_handles := set_nth (w_handles NN w) idx (with_old NN h old'); w_calls := w_calls NN w |})
    /\ w_reset NN w idx = (let '(_, v') := gen_reset_value NN (h_old NN h) (get_cell NN
    (w_params NN w) (h_cell NN h)) in Some {| w_params := set_nth (w_params NN w) (h_cell NN h)
    v'; w_handles := w_handles NN w; w_calls := w_calls NN w |}).
Proof. exact world_operations_are_source. Qed.
Print Assumptions S_world_operations_are_source.


Theorem C06_optimiser_source_translated :
  translated_gen_energy_surface = true /\ translated_gen_test_acceptance = true /\
    translated_gen_accept_score = true /\ translated_gen_cooling_factor = true /\
    translated_gen_build = true /\ translated_gen_inner_steps = true /\ translated_gen_loops =
    true /\ translated_gen_converged = true /\ translated_gen_ratio_update = true /\
    translated_gen_init = true /\ translated_gen_init_count = true /\ translated_gen_loop_head =
    true /\ translated_gen_inner_count = true /\ translated_gen_final_ok = true /\
    translated_gen_mc_step = true /\ translated_gen_end_loop = true /\ translated_gen_clamp =
    true /\ translated_gen_sample = true /\ translated_gen_reset_value = true /\
    translated_gen_set_sampled = true.
Proof. exact optimiser_source_translated. Qed.
Print Assumptions C06_optimiser_source_translated.


Theorem C06_source_result_is_last_accepted :
  forall (NN : Num) (fexp : carrier NN -> carrier NN) (score : N -> list (carrier NN) -> option
    (carrier NN)) (c : cfg NN) (draws : list (draw NN)) (st : ost NN), let st' := fold_left
    (src_advance NN fexp score c) draws st in params NN st' = last (map fst (accepts NN fexp
    score c st draws)) (params NN st) /\ score_cur NN st' = last (map snd (accepts NN fexp score
    c st draws)) (score_cur NN st).
Proof. exact source_result_is_last_accepted. Qed.
Print Assumptions C06_source_result_is_last_accepted.

Theorem S_optimise_state_is_the_source_pieces :
  forall (NN : Num) (fexp : carrier NN -> carrier NN) (score : N -> list (carrier NN) -> option
    (carrier NN)) (c : cfg NN) (ps : list (carrier NN)) (hs : list (handle NN)) (draws : list
    (draw NN)), optimise NN fexp score c ps hs draws = src_optimise NN fexp score c ps hs draws.
Proof. exact optimise_state_is_the_source_pieces. Qed.
Print Assumptions S_optimise_state_is_the_source_pieces.

