(* props/C06.v - C06: a rejected move leaves no trace; the result is the last accepted state.
   Statements only; every proof is [exact <lemma>] (lemmas in proofs/OptStruct.v). *)
From Coq Require Import ZArith NArith List Bool Reals Floats.
From PV Require Import Num NumR model.Optimiser model.OptSpec proofs.OptStruct proofs.OptLoop proofs.FloatFacts proofs.RealFacts.

Theorem C06_fin_frozen :
  forall (NN : Num) (fexp : carrier NN -> carrier NN) (score : N -> list (carrier NN) -> option
    (carrier NN)) (c : cfg NN) (st : ost NN) (d : draw NN), fin NN st = true -> advance NN fexp
    score c st d = st.
Proof. exact OptStruct.C06_fin_frozen. Qed.
Print Assumptions C06_fin_frozen.

Theorem C06_step_accept_or_restore :
  forall (NN : Num) (fexp : carrier NN -> carrier NN) (score : N -> list (carrier NN) -> option
    (carrier NN)) (c : cfg NN) (st : ost NN) (d : draw NN), fin NN st = false -> match proposal
    NN c st d with | Some ps' => (exists s : carrier NN, step_accepted NN fexp score c st d =
    Some (ps', s) /\ params NN (advance NN fexp score c st d) = ps' /\ score_cur NN (advance NN
    fexp score c st d) = s) \/ step_accepted NN fexp score c st d = None /\ params NN (advance
    NN fexp score c st d) = params NN st /\ score_cur NN (advance NN fexp score c st d) =
    score_cur NN st | None => bad_index NN (advance NN fexp score c st d) = true /\ params NN
    (advance NN fexp score c st d) = params NN st /\ score_cur NN (advance NN fexp score c st d)
    = score_cur NN st end.
Proof. exact OptStruct.C06_step_accept_or_restore. Qed.
Print Assumptions C06_step_accept_or_restore.

Theorem C06_proposal_differs_in_one :
  forall (NN : Num) (c : cfg NN) (st : ost NN) (d : draw NN) (ps' : list (carrier NN)), proposal
    NN c st d = Some ps' -> length ps' = length (params NN st) /\ (exists i : nat, forall (k :
    nat) (dflt : carrier NN), k <> i -> nth k ps' dflt = nth k (params NN st) dflt).
Proof. exact OptStruct.C06_proposal_differs_in_one. Qed.
Print Assumptions C06_proposal_differs_in_one.

Theorem C06_result_is_last_accepted :
  forall (NN : Num) (fexp : carrier NN -> carrier NN) (score : N -> list (carrier NN) -> option
    (carrier NN)) (c : cfg NN) (draws : list (draw NN)) (st : ost NN), params NN (run NN fexp
    score c st draws) = last (map fst (accepts NN fexp score c st draws)) (params NN st) /\
    score_cur NN (run NN fexp score c st draws) = last (map snd (accepts NN fexp score c st
    draws)) (score_cur NN st).
Proof. exact OptStruct.C06_result_is_last_accepted. Qed.
Print Assumptions C06_result_is_last_accepted.

