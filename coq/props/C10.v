(* props/C10.v - C10: the CLI writes the best replica, labelled with what was asked for. *)
From Coq Require Import ZArith NArith List Bool Reals Floats String. Import ListNotations.
From PV Require Import Num NumR model.Tables model.Spec model.Geom model.Optimiser model.OptSpec model.Pipeline model.Svg model.Json gen.GenTables gen.GenSchema proofs.OptStruct proofs.OptLoop proofs.LatticeFacts proofs.TablesFacts proofs.PipelineFacts proofs.OutputFacts proofs.FloatFacts proofs.OrderFacts.
From PV Require Import model.Cli gen.GenCli proofs.CliFacts.
From PV Require Import gen.GenFns proofs.SrcOrder.

Theorem C10_analyse_best_replica :
  forall (A : Type) (leb : A -> A -> bool), (forall a b : A, leb a b = true \/ leb b a = true)
    -> (forall a b c : A, leb a b = true -> leb b c = true -> leb a c = true) -> forall (St :
    Type) (stage1 stage2 stage3 : nat -> St -> St) (result : St -> A) (k : nat) (s0 : St) (b :
    A), analyse A leb St stage1 stage2 stage3 result k s0 = Some b -> (exists i : nat, i < k /\
    b = replica A St stage1 stage2 stage3 result i s0) /\ (forall i : nat, i < k -> leb (replica
    A St stage1 stage2 stage3 result i s0) b = true).
Proof. exact analyse_best_replica. Qed.
Print Assumptions C10_analyse_best_replica.

Theorem C10_analyse_prefix_monotone :
  forall (A : Type) (leb : A -> A -> bool), (forall a b : A, leb a b = true \/ leb b a = true)
    -> (forall a b c : A, leb a b = true -> leb b c = true -> leb a c = true) -> forall (St :
    Type) (stage1 stage2 stage3 : nat -> St -> St) (result : St -> A) (k : nat) (s0 : St) (b b'
    : A), analyse A leb St stage1 stage2 stage3 result k s0 = Some b -> analyse A leb St stage1
    stage2 stage3 result (S k) s0 = Some b' -> leb b b' = true.
Proof. exact analyse_prefix_monotone. Qed.
Print Assumptions C10_analyse_prefix_monotone.

Theorem C10_analyse_error_iff_no_replicas :
  forall (A : Type) (leb : A -> A -> bool) (St : Type) (stage1 stage2 stage3 : nat -> St -> St)
    (result : St -> A) (k : nat) (s0 : St), analyse A leb St stage1 stage2 stage3 result k s0 =
    None <-> k = 0.
Proof. exact analyse_error_iff_no_replicas. Qed.
Print Assumptions C10_analyse_error_iff_no_replicas.

Theorem C10_best_is_max :
  forall (A : Type) (leb : A -> A -> bool), (forall a b : A, leb a b = true \/ leb b a = true)
    -> (forall a b c : A, leb a b = true -> leb b c = true -> leb a c = true) -> forall (l :
    list A) (b : A), best A leb l = Some b -> In b l /\ (forall x : A, In x l -> leb x b = true).
Proof. exact best_is_max. Qed.
Print Assumptions C10_best_is_max.

Theorem C10_labels_are_requested_names :
  labels_ok gen_groups = true.
Proof. exact labels_are_requested_names. Qed.
Print Assumptions C10_labels_are_requested_names.

Theorem C10_tables_are_spec :
  tables_match_spec gen_groups = true.
Proof. exact tables_are_spec. Qed.
Print Assumptions C10_tables_are_spec.

Theorem C10_float_best_is_max :
  forall (X : Type) (l : list (scored X)) (b : scored X), best (scored X) sleb l = Some b -> In b l /\
    (forall x : scored X, In x l -> fleb (sc_score x) (sc_score b) = true).
Proof. exact (@float_best_is_max). Qed.
Print Assumptions C10_float_best_is_max.


Theorem C10_cli_stage_chain :
  forall NN : Num, map (st_input NN) (gen_stages NN) = [FromStart; FromPrevious; FromPrevious]
    /\ gen_replica_range = "0..start_configs"%string /\ gen_reduce = "max"%string.
Proof. exact cli_stage_chain. Qed.
Print Assumptions C10_cli_stage_chain.

Theorem C10_cli_stage_seeds :
  forall (NN : Num) (i : N) (u : sbuilder NN) (k : nat), k < 3 -> sb_seed NN (stage_settings NN
    (gen_stages NN) k i u) = Some i.
Proof. exact cli_stage_seeds. Qed.
Print Assumptions C10_cli_stage_seeds.


Theorem C10_names_resolve_case_insensitively :
  Datatypes.length gen_name_lookups = 28 /\ forallb (fun '(_, want, got) => (want =?
    got)%string) gen_name_lookups = true.
Proof. exact names_resolve_case_insensitively. Qed.
Print Assumptions C10_names_resolve_case_insensitively.


Theorem S_state_order_is_source :
  forall (NN : Num) (a b : option (carrier NN)), gen_state_eq NN a b = score_eq NN a b /\
    gen_state_partial_cmp NN a b = score_cmp NN a b /\ gen_state_cmp NN a b = cmp_unwrap NN a b
    /\ gen_lj_state_eq NN a b = score_eq NN a b /\ gen_lj_state_partial_cmp NN a b = score_cmp
    NN a b /\ gen_lj_state_cmp NN a b = cmp_unwrap NN a b.
Proof. exact state_order_is_source. Qed.
Print Assumptions S_state_order_is_source.



Theorem C10_order_source_translated :
  translated_gen_state_eq = true /\ translated_gen_state_partial_cmp = true /\
    translated_gen_state_cmp = true /\ translated_gen_lj_state_eq = true /\
    translated_gen_lj_state_partial_cmp = true /\ translated_gen_lj_state_cmp = true.
Proof. exact order_source_translated. Qed.
Print Assumptions C10_order_source_translated.

