(* props/C04.v - C04: every crystal produced has the symmetry of the requested wallpaper group (reals).
   The operations are those of the independent specification model/Spec.v, which C16_tables_are_spec
   (re-checked here against the regenerated tables) proves equal to the code's tables. *)
From Coq Require Import ZArith QArith List Bool Reals. Import ListNotations.
From PV Require Import Num NumR model.Tables model.Spec model.Geom proofs.LatticeFacts proofs.SiteFacts proofs.SymmetryFacts proofs.TablesFacts gen.GenTables.

Theorem C04_placements_closed_under_group :
  forall g : spec_group, In g ita -> forall hs : list hop, hops g = Some hs -> forall a : hop,
    In a hs -> forall b : hop, In b hs -> exists c : hop, In c hs /\ (forall (cl : cellR) (s :
    siteR), cell_of_family (sg_family g) cl -> exists n m : Z, aff_comp (cart_op cl a)
    (to_cartesian_isometry NumR cl (placement (tf_of_hop b) s)) = tf_translate
    (to_cartesian_isometry NumR cl (placement (tf_of_hop c) s)) (lattice_vec cl n m)).
Proof. exact placements_closed_under_group. Qed.
Print Assumptions C04_placements_closed_under_group.

Theorem C04_op_maps_placement :
  forall (f : family) (a b c : hop) (cl : cellR) (s : siteR), hclosed a b c = true -> lin_ok f a
    = true -> cell_of_family f cl -> exists n m : Z, aff_comp (cart_op cl a)
    (to_cartesian_isometry NumR cl (placement (tf_of_hop b) s)) = tf_translate
    (to_cartesian_isometry NumR cl (placement (tf_of_hop c) s)) (lattice_vec cl n m).
Proof. exact op_maps_placement. Qed.
Print Assumptions C04_op_maps_placement.

Theorem C04_cart_op_is_isometry :
  forall (f : family) (a : hop) (c : cellR), lin_ok f a = true -> let G := cart_op c a in (a00
    NumR G * a00 NumR G + a10 NumR G * a10 NumR G)%R = 1%R /\ (a00 NumR G * a01 NumR G + a10
    NumR G * a11 NumR G)%R = 0%R /\ (a01 NumR G * a01 NumR G + a11 NumR G * a11 NumR G)%R = 1%R.
Proof. exact cart_op_is_isometry. Qed.
Print Assumptions C04_cart_op_is_isometry.

Theorem C04_composition_is_composition :
  forall (G P : tfR) (v : carrier NumR * carrier NumR), affine_row G -> affine_row P -> tf_apply
    NumR G (tf_apply NumR P v) = tf_apply NumR (aff_comp G P) v.
Proof. exact aff_comp_apply. Qed.
Print Assumptions C04_composition_is_composition.

Theorem C04_all_groups_act :
  forallb group_acts ita = true.
Proof. exact all_groups_act. Qed.
Print Assumptions C04_all_groups_act.

Theorem C04_hops_defined :
  forallb (fun g : spec_group => match hops g with | Some hs => length hs =? sg_order g | None
    => false end) ita = true.
Proof. exact hops_defined. Qed.
Print Assumptions C04_hops_defined.

Theorem C04_mirror_defect_formula :
  forall (cl : cellR) (y : R), let p := to_cartesian NumR cl (0%R, y) in (fst (to_cartesian NumR
    cl (- 0, y)) - - fst p)%R = (2 * (c_len NumR cl * c_ratio NumR cl * c_cos NumR cl) * y)%R.
Proof. exact mirror_defect_formula. Qed.
Print Assumptions C04_mirror_defect_formula.

Theorem C04_tables_are_spec :
  tables_match_spec gen_groups = true.
Proof. exact tables_are_spec. Qed.
Print Assumptions C04_tables_are_spec.

(* non-vacuity: p2gg is in the specification, its operations have the half-translation form, and a
   rectangular cell exists *)
Example C04_premises_satisfiable :
  exists g hs, In g ita /\ sg_number g = 8%nat /\ hops g = Some hs /\ length hs = 4%nat
  /\ cell_of_family (sg_family g) (@mkCell NumR 3 (1/2) 0 1)%R.
Proof.
  eexists. eexists. split; [do 6 right; left; reflexivity|].
  split; [reflexivity|]. split; [vm_compute; reflexivity|]. split; reflexivity.
Qed.
