(* props/C09.v - C09: same seed, same answer; results do not depend on threads or other replicas (PARTIAL).
   What a Gallina model can carry: (i) the optimiser model is a FUNCTION of (configuration with explicit
   seed = random stream, state): determinism is definitional, and its bit-exact agreement with the code -
   sequentially, in rayon pools of 1..16 threads, replicas in any order, across processes - is the
   correspondence run; (ii) a run writes only the parameter cells its own handles point to, so optimising
   a copy (fresh cells) never changes the original nor any other replica; (iii) the reduction with max
   returns the same element for every way of splitting the index range.
   Not expressible: machine-level data races, the hand-written unsafe impl Sync, rayon's scheduler. *)
From Coq Require Import ZArith NArith List Bool Reals Floats String. Import ListNotations.
From PV Require Import Num NumR model.Tables model.Spec model.Geom model.Optimiser model.OptSpec model.Pipeline model.Svg model.Json gen.GenTables gen.GenSchema proofs.OptStruct proofs.OptLoop proofs.LatticeFacts proofs.TablesFacts proofs.PipelineFacts proofs.OutputFacts proofs.FloatFacts proofs.OrderFacts proofs.Interleave.
From PV Require Import model.Cli gen.GenCli proofs.CliFacts.
From PV Require Import gen.GenFns proofs.SrcOrder.

Theorem C09_run_writes_only_own_cells :
  forall (NN : Num) (fexp : carrier NN -> carrier NN) (score : N -> list (carrier NN) -> option
    (carrier NN)) (c : cfg NN) (draws : list (draw NN)) (st : ost NN) (k : nat), ~ In k
    (cells_of NN (handles NN st)) -> nth k (params NN (run NN fexp score c st draws)) n0 = nth k
    (params NN st) n0.
Proof. exact OptLoop.C09_run_writes_only_own_cells. Qed.
Print Assumptions C09_run_writes_only_own_cells.

Theorem C09_optimising_a_clone_leaves_the_original :
  forall (NN : Num) (fexp : carrier NN -> carrier NN) (score : N -> list (carrier NN) -> option
    (carrier NN)) (c : cfg NN) (draws : list (draw NN)) (st : ost NN) (n : nat), Forall (fun h :
    handle NN => n <= h_cell NN h) (handles NN st) -> forall k : nat, k < n -> nth k (params NN
    (run NN fexp score c st draws)) n0 = nth k (params NN st) n0.
Proof. exact OptLoop.C09_optimising_a_clone_leaves_the_original. Qed.
Print Assumptions C09_optimising_a_clone_leaves_the_original.

Theorem C09_reduction_tree_independent :
  forall (A : Type) (leb : A -> A -> bool), (forall a b : A, leb a b = true \/ leb b a = true)
    -> (forall a b c : A, leb a b = true -> leb b c = true -> leb a c = true) -> forall t : tree
    A, best A leb (flatten A t) = Some (reduce A leb t).
Proof. exact reduction_tree_independent. Qed.
Print Assumptions C09_reduction_tree_independent.

Theorem C09_max_is_associative :
  forall (A : Type) (leb : A -> A -> bool), (forall a b : A, leb a b = true \/ leb b a = true)
    -> (forall a b c : A, leb a b = true -> leb b c = true -> leb a c = true) -> forall a b c :
    A, max2 A leb (max2 A leb a b) c = max2 A leb a (max2 A leb b c).
Proof. exact max2_assoc. Qed.
Print Assumptions C09_max_is_associative.

Theorem C09_fin_frozen :
  forall (NN : Num) (fexp : carrier NN -> carrier NN) (score : N -> list (carrier NN) -> option
    (carrier NN)) (c : cfg NN) (st : ost NN) (d : draw NN), fin NN st = true -> advance NN fexp
    score c st d = st.
Proof. exact OptStruct.C06_fin_frozen. Qed.
Print Assumptions C09_fin_frozen.

Theorem C09_float_reduction_tree_independent :
  forall (X : Type) (t : tree (scored X)), best (scored X) sleb (flatten (scored X) t) = Some (reduce
    (scored X) sleb t).
Proof. exact (@float_reduction_tree_independent). Qed.
Print Assumptions C09_float_reduction_tree_independent.

Theorem C09_max_is_max2 :
  forall (X : Type) (a b : scored X), max_keeps_first NumF (Some (sc_score a)) (Some (sc_score b)) = negb
    (sleb a b).
Proof. exact (@max_is_max2). Qed.
Print Assumptions C09_max_is_max2.

Theorem C09_cmp_defined :
  forall (X : Type) (a b : scored X), score_cmp NumF (Some (sc_score a)) (Some (sc_score b)) <> None.
Proof. exact (@cmp_defined). Qed.
Print Assumptions C09_cmp_defined.

Theorem C09_interleaving_does_not_matter :
  forall (NN : Num) (fexp : carrier NN -> carrier NN) (scoreA scoreB : N -> list (carrier NN) ->
    option (carrier NN)) (ownA ownB : list nat) (cA cB : cfg NN), (forall (k : N) (ps qs : list
    (carrier NN)), agree NN ownA ps qs -> scoreA k ps = scoreA k qs) -> (forall (k : N) (ps qs :
    list (carrier NN)), agree NN ownB ps qs -> scoreB k ps = scoreB k qs) -> (forall k : nat,
    @In nat k ownA -> @In nat k ownB -> False) -> forall (sched : list (bool * draw NN)) (heap :
    list (carrier NN)) (a b : ost NN), owns NN ownA a -> owns NN ownB b -> let '(heap', a', b')
    := sys_run NN fexp scoreA scoreB cA cB (heap, a, b) sched in let ra := run NN fexp scoreA cA
    (with_params NN a heap) (draws_of NN true sched) in let rb := run NN fexp scoreB cB
    (with_params NN b heap) (draws_of NN false sched) in with_params NN a' heap' = with_params
    NN ra heap' /\ agree NN ownA (params NN ra) heap' /\ with_params NN b' heap' = with_params
    NN rb heap' /\ agree NN ownB (params NN rb) heap'.
Proof. exact interleaving_does_not_matter. Qed.
Print Assumptions C09_interleaving_does_not_matter.

Theorem C09_run_local :
  forall (NN : Num) (fexp : carrier NN -> carrier NN) (score : N -> list (carrier NN) -> option
    (carrier NN)) (own : list nat), (forall (k : N) (ps qs : list (carrier NN)), agree NN own ps
    qs -> score k ps = score k qs) -> forall (c : cfg NN) (draws : list (draw NN)) (st : ost NN)
    (ps : list (carrier NN)), owns NN own st -> agree NN own (params NN st) ps -> run NN fexp
    score c (with_params NN st ps) draws = with_params NN (run NN fexp score c st draws) (params
    NN (run NN fexp score c (with_params NN st ps) draws)) /\ agree NN own (params NN (run NN
    fexp score c st draws)) (params NN (run NN fexp score c (with_params NN st ps) draws)).
Proof. exact run_local. Qed.
Print Assumptions C09_run_local.


Theorem C09_cli_stage_seeds :
  forall (NN : Num) (i : N) (u : sbuilder NN) (k : nat), k < 3 -> sb_seed NN (stage_settings NN
    (gen_stages NN) k i u) = Some i.
Proof. exact cli_stage_seeds. Qed.
Print Assumptions C09_cli_stage_seeds.

Theorem C09_cli_driver_translated :
  gen_cli_problem = ""%string.
Proof. exact cli_translated. Qed.
Print Assumptions C09_cli_driver_translated.


Theorem S_state_order_is_source :
  forall (NN : Num) (a b : option (carrier NN)), gen_state_eq NN a b = score_eq NN a b /\
    gen_state_partial_cmp NN a b = score_cmp NN a b /\ gen_state_cmp NN a b = cmp_unwrap NN a b
    /\ gen_lj_state_eq NN a b = score_eq NN a b /\ gen_lj_state_partial_cmp NN a b = score_cmp
    NN a b /\ gen_lj_state_cmp NN a b = cmp_unwrap NN a b.
Proof. exact state_order_is_source. Qed.
Print Assumptions S_state_order_is_source.



Theorem C09_order_source_translated :
  translated_gen_state_eq = true /\ translated_gen_state_partial_cmp = true /\
    translated_gen_state_cmp = true /\ translated_gen_lj_state_eq = true /\
    translated_gen_lj_state_partial_cmp = true /\ translated_gen_lj_state_cmp = true.
Proof. exact order_source_translated. Qed.
Print Assumptions C09_order_source_translated.

