(* props/C20.v - C20: the optimiser terminates normally and does the work requested. *)
From Coq Require Import ZArith NArith List Bool Reals Floats.
From PV Require Import Num NumR model.Optimiser model.OptSpec proofs.OptStruct proofs.OptLoop proofs.FloatFacts proofs.RealFacts.

Theorem C20_work_bounds :
  forall (NN : Num) (c : cfg NN), (work NN c <= steps NN c)%N /\ (inner NN c <> 0%N -> (steps NN
    c < work NN c + inner NN c)%N).
Proof. exact OptLoop.C20_work_bounds. Qed.
Print Assumptions C20_work_bounds.

Theorem C20_build_inner :
  forall (NN : Num) (fpow : carrier NN -> carrier NN -> carrier NN) (b : builder NN), inner NN
    (build NN fpow b) = N.min (b_inner NN b) (b_steps NN b) /\ steps NN (build NN fpow b) =
    b_steps NN b.
Proof. exact OptLoop.C20_build_inner. Qed.
Print Assumptions C20_build_inner.

Theorem C20_work_done :
  forall (NN : Num) (fexp : carrier NN -> carrier NN) (score : N -> list (carrier NN) -> option
    (carrier NN)) (c : cfg NN) (ps : list (carrier NN)) (hs : list (handle NN)) (s0 : carrier
    NN) (draws : list (draw NN)), draws_in_range NN (length hs) draws -> (work NN c <= N.of_nat
    (length draws))%N -> let st := run NN fexp score c (init NN c ps hs s0) draws in fin NN st =
    true /\ bad_index NN st = false /\ calls NN st = (1 + loops_done NN st * inner NN c)%N /\
    (loops_done NN st <= L NN c)%N /\ (converged NN st = false -> calls NN st = (1 + work NN
    c)%N).
Proof. exact OptLoop.C20_work_done. Qed.
Print Assumptions C20_work_done.

Theorem C20_optimise_returns :
  forall (NN : Num) (fexp : carrier NN -> carrier NN) (score : N -> list (carrier NN) -> option
    (carrier NN)), (forall (k k' : N) (ps : list (carrier NN)), score k ps = score k' ps) ->
    forall (c : cfg NN) (ps : list (carrier NN)) (hs : list (handle NN)) (s0 : carrier NN)
    (draws : list (draw NN)), score 0%N ps = Some s0 -> draws_in_range NN (length hs) draws ->
    (work NN c <= N.of_nat (length draws))%N -> exists st : ost NN, optimise NN fexp score c ps
    hs draws = Returned NN st /\ st = run NN fexp score c (init NN c ps hs s0) draws /\ score
    0%N (params NN st) = Some (score_cur NN st).
Proof. exact OptLoop.C20_optimise_returns. Qed.
Print Assumptions C20_optimise_returns.

Theorem C08_held_score_defined :
  forall (NN : Num) (fexp : carrier NN -> carrier NN) (score : N -> list (carrier NN) -> option
    (carrier NN)), (forall (k k' : N) (ps : list (carrier NN)), score k ps = score k' ps) ->
    forall (c : cfg NN) (ps : list (carrier NN)) (hs : list (handle NN)) (s0 : carrier NN)
    (draws : list (draw NN)), score 0%N ps = Some s0 -> held_inv NN score (run NN fexp score c
    (init NN c ps hs s0) draws).
Proof. exact OptLoop.C08_held_score_defined. Qed.
Print Assumptions C08_held_score_defined.

