(* props/C20.v - C20: the optimiser terminates normally and does the work requested. *)
From Coq Require Import ZArith NArith List Bool Reals Floats.
From PV Require Import Num NumR model.Optimiser model.OptSpec proofs.OptStruct proofs.OptLoop proofs.OptConv proofs.FloatFacts proofs.RealFacts.
From PV Require Import model.Cli gen.GenCli proofs.CliFacts.
From PV Require Import gen.GenFns model.Iter model.Pipeline proofs.ListLemmas proofs.SrcOpt.
From PV Require Import proofs.SourceHeadlinesOpt.

Theorem C20_work_bounds :
  forall (NN : Num) (c : cfg NN), (work NN c <= steps NN c)%N /\ (inner NN c <> 0%N -> (steps NN
    c < work NN c + inner NN c)%N).
Proof. exact OptLoop.C20_work_bounds. Qed.
Print Assumptions C20_work_bounds.

Theorem C20_build_inner :
  forall (NN : Num) (fpow : carrier NN -> carrier NN -> carrier NN) (b : builder NN), inner NN
    (build NN fpow b) = N.min (b_inner NN b) (b_steps NN b) /\ steps NN (build NN fpow b) =
    b_steps NN b.
Proof. exact OptLoop.C20_build_inner. Qed.
Print Assumptions C20_build_inner.

Theorem C20_work_done :
  forall (NN : Num) (fexp : carrier NN -> carrier NN) (score : N -> list (carrier NN) -> option
    (carrier NN)) (c : cfg NN) (ps : list (carrier NN)) (hs : list (handle NN)) (s0 : carrier
    NN) (draws : list (draw NN)), draws_in_range NN (length hs) draws -> (work NN c <= N.of_nat
    (length draws))%N -> let st := run NN fexp score c (init NN c ps hs s0) draws in fin NN st =
    true /\ bad_index NN st = false /\ calls NN st = (1 + loops_done NN st * inner NN c)%N /\
    (loops_done NN st <= L NN c)%N /\ (converged NN st = false -> calls NN st = (1 + work NN
    c)%N).
Proof. exact OptLoop.C20_work_done. Qed.
Print Assumptions C20_work_done.

Theorem C20_optimise_returns :
  forall (NN : Num) (fexp : carrier NN -> carrier NN) (score : N -> list (carrier NN) -> option
    (carrier NN)), (forall (k k' : N) (ps : list (carrier NN)), score k ps = score k' ps) ->
    forall (c : cfg NN) (ps : list (carrier NN)) (hs : list (handle NN)) (s0 : carrier NN)
    (draws : list (draw NN)), score 0%N ps = Some s0 -> draws_in_range NN (length hs) draws ->
    (work NN c <= N.of_nat (length draws))%N -> exists st : ost NN, optimise NN fexp score c ps
    hs draws = Returned NN st /\ st = run NN fexp score c (init NN c ps hs s0) draws /\ score
    0%N (params NN st) = Some (score_cur NN st).
Proof. exact OptLoop.C20_optimise_returns. Qed.
Print Assumptions C20_optimise_returns.

Theorem C08_held_score_defined :
  forall (NN : Num) (fexp : carrier NN -> carrier NN) (score : N -> list (carrier NN) -> option
    (carrier NN)), (forall (k k' : N) (ps : list (carrier NN)), score k ps = score k' ps) ->
    forall (c : cfg NN) (ps : list (carrier NN)) (hs : list (handle NN)) (s0 : carrier NN)
    (draws : list (draw NN)), score 0%N ps = Some s0 -> held_inv NN score (run NN fexp score c
    (init NN c ps hs s0) draws).
Proof. exact OptLoop.C08_held_score_defined. Qed.
Print Assumptions C08_held_score_defined.

Theorem C20_convergence_prefix :
  forall (NN : Num) (fexp : carrier NN -> carrier NN) (score : N -> list (carrier NN) -> option
    (carrier NN)) (c : cfg NN) (eps : carrier NN) (draws : list (draw NN)), conv NN c = Some eps
    -> forall a b : ost NN, agree NN a b -> conv_fin NN a -> converged NN (run NN fexp score c a
    draws) = false -> agree NN (run NN fexp score c a draws) (run NN fexp score (no_conv NN c) b
    draws).
Proof. exact OptConv.C20_convergence_prefix. Qed.
Print Assumptions C20_convergence_prefix.

Theorem C20_convergence_point :
  forall (NN : Num) (fexp : carrier NN -> carrier NN) (score : N -> list (carrier NN) -> option
    (carrier NN)) (c : cfg NN) (eps : carrier NN) (draws : list (draw NN)) (d : draw NN), conv
    NN c = Some eps -> forall a : ost NN, conv_fin NN a -> converged NN (run NN fexp score c a
    draws) = false -> converged NN (run NN fexp score c a (draws ++ d :: nil)) = true -> (5 <
    conv_count NN (run NN fexp score c a (draws ++ d :: nil)))%N /\ j NN (run NN fexp score c a
    (draws ++ d :: nil)) = 0%N /\ params NN (run NN fexp score c a (draws ++ d :: nil)) = params
    NN (run NN fexp score (no_conv NN c) a (draws ++ d :: nil)) /\ score_cur NN (run NN fexp
    score c a (draws ++ d :: nil)) = score_cur NN (run NN fexp score (no_conv NN c) a (draws ++
    d :: nil)).
Proof. exact OptConv.C20_convergence_point. Qed.
Print Assumptions C20_convergence_point.

Theorem C20_counter_is_consecutive :
  forall (NN : Num) (c : cfg NN) (eps : carrier NN) (st : ost NN), conv NN c = Some eps ->
    conv_count NN (end_loop NN c st) = (if loop_converged NN eps st then N.succ (conv_count NN
    st) else 0%N).
Proof. exact OptConv.C20_counter_is_consecutive. Qed.
Print Assumptions C20_counter_is_consecutive.

Theorem C20_converged_is_finished :
  forall (NN : Num) (fexp : carrier NN -> carrier NN) (score : N -> list (carrier NN) -> option
    (carrier NN)) (c : cfg NN) (st : ost NN) (d : draw NN), conv_fin NN st -> conv_fin NN
    (advance NN fexp score c st d).
Proof. exact OptConv.advance_conv_fin. Qed.
Print Assumptions C20_converged_is_finished.


Theorem C20_cli_stage1_built :
  forall (NN : Num) (fpow : carrier NN -> carrier NN -> carrier NN) (i : N) (u : sbuilder NN),
    let c := build NN fpow (sb NN (stage_settings NN (gen_stages NN) 0 i u)) in steps NN c =
    1000%N /\ inner NN c = N.min (b_inner NN (sb NN u)) 1000 /\ conv NN c = None.
Proof. exact cli_stage1_built. Qed.
Print Assumptions C20_cli_stage1_built.


Theorem C20_inner_steps_is_source :
  forall (NN : Num) (fpow : carrier NN -> carrier NN -> carrier NN) (b : builder NN),
    gen_inner_steps NN b = inner NN (build NN fpow b).
Proof. exact inner_steps_is_source. Qed.
Print Assumptions C20_inner_steps_is_source.

Theorem C20_loops_is_source :
  forall (NN : Num) (c : cfg NN), gen_loops NN c = loops_of (steps NN c) (inner NN c).
Proof. exact loops_is_source. Qed.
Print Assumptions C20_loops_is_source.

Theorem C20_converged_is_source :
  forall (NN : Num) (cur start eps : carrier NN), gen_converged NN cur start eps = (cur - start
    <? eps)%num.
Proof. exact converged_is_source. Qed.
Print Assumptions C20_converged_is_source.



Theorem S_end_loop_is_source :
  forall (NN : Num) (c : cfg NN) (st : ost NN), let r := gen_end_loop NN c (score_cur NN st)
    (score_start NN st) (kt NN st) (conv_count NN st) (ratio NN st) (loop_rej NN st) in end_loop
    NN c st = {| params := params NN st; handles := handles NN st; score_cur := score_cur NN st;
    kt := fst (fst (snd r)); ratio := snd (snd r); conv_count := snd (fst (snd r)); loop_rej :=
    0; score_start := score_cur NN st; loops_done := N.succ (loops_done NN st); j := 0; calls :=
    calls NN st; fin := fst r || (loops_of (steps NN c) (inner NN c) <=? N.succ (loops_done NN
    st))%N; converged := fst r; bad_index := false |}.
Proof. exact end_loop_is_source. Qed.
Print Assumptions S_end_loop_is_source.


Theorem S_mc_step_is_source :
  forall (NN : Num) (fexp : carrier NN -> carrier NN) (score : N -> list (carrier NN) -> option
    (carrier NN)) (c : cfg NN) (st : ost NN) (d : draw NN), mc_step NN fexp score c st d = match
    gen_mc_step NN fexp score c {| w_params := params NN st; w_handles := handles NN st; w_calls
    := calls NN st |} (score_cur NN st) (kt NN st) (ratio NN st) (loop_rej NN st) d with | Some
    (w, sc, rej) => {| params := w_params NN w; handles := w_handles NN w; score_cur := sc; kt
    := kt NN st; ratio := ratio NN st; conv_count := conv_count NN st; loop_rej := rej;
    score_start := score_start NN st; loops_done := loops_done NN st; j := N.succ (j NN st);
    calls := w_calls NN w; fin := false; converged := false; bad_index := false |} | None => {|
    params := params NN st; handles := handles NN st; score_cur := score_cur NN st; kt := kt NN
    st; ratio := ratio NN st; conv_count := conv_count NN st; loop_rej := loop_rej NN st;
    score_start := score_start NN st; loops_done := loops_done NN st; j := j NN st; calls :=
    calls NN st; fin := true; converged := false; bad_index := true |} end.
Proof. exact mc_step_is_source. Qed.
Print Assumptions S_mc_step_is_source.

Theorem S_inner_count_is_source :
  forall (NN : Num) (fexp : carrier NN -> carrier NN) (score : N -> list (carrier NN) -> option
    (carrier NN)) (c : cfg NN) (st : ost NN) (d : draw NN), advance NN fexp score c st d = (if
    fin NN st then st else let st1 := mc_step NN fexp score c st d in if bad_index NN st1 then
    st1 else if (j NN st1 =? gen_inner_count NN c)%N then end_loop NN c st1 else st1).
Proof. exact inner_count_is_source. Qed.
Print Assumptions S_inner_count_is_source.

Theorem S_final_assert_is_source :
  forall (NN : Num) (fexp : carrier NN -> carrier NN) (score : N -> list (carrier NN) -> option
    (carrier NN)) (c : cfg NN) (ps : list (carrier NN)) (hs : list (handle NN)) (draws : list
    (draw NN)) (s0 : carrier NN), score 0%N ps = Some s0 -> let st := run NN fexp score c (init
    NN c ps hs s0) draws in bad_index NN st = false -> fin NN st = true -> converged NN st =
    false -> optimise NN fexp score c ps hs draws = (if gen_final_ok NN (score (calls NN st)
    (params NN st)) then Returned NN st else PanicFinalInvalid NN).
Proof. exact final_assert_is_source. Qed.
Print Assumptions S_final_assert_is_source.

Theorem S_init_is_source :
  forall (NN : Num) (c : cfg NN) (ps : list (carrier NN)) (hs : list (handle NN)) (s0 : carrier
    NN), init NN c ps hs s0 = {| params := ps; handles := hs; score_cur := s0; kt := fst
    (gen_init NN c); ratio := snd (gen_init NN c); conv_count := gen_init_count; loop_rej := 0;
    score_start := s0; loops_done := 0; j := 0; calls := 1; fin := (gen_loops NN c =? 0)%N;
    converged := false; bad_index := false |}.
Proof. exact init_is_source. Qed.
Print Assumptions S_init_is_source.


Theorem S_build_is_source :
  forall (NN : Num) (fpow : carrier NN -> carrier NN -> carrier NN) (b : builder NN), gen_build
    NN fpow b = build NN fpow b.
Proof. exact build_is_source. Qed.
Print Assumptions S_build_is_source.


Theorem C20_optimiser_source_translated :
  translated_gen_energy_surface = true /\ translated_gen_test_acceptance = true /\
    translated_gen_accept_score = true /\ translated_gen_cooling_factor = true /\
    translated_gen_build = true /\ translated_gen_inner_steps = true /\ translated_gen_loops =
    true /\ translated_gen_converged = true /\ translated_gen_ratio_update = true /\
    translated_gen_init = true /\ translated_gen_init_count = true /\ translated_gen_loop_head =
    true /\ translated_gen_inner_count = true /\ translated_gen_final_ok = true /\
    translated_gen_mc_step = true /\ translated_gen_end_loop = true /\ translated_gen_clamp =
    true /\ translated_gen_sample = true /\ translated_gen_reset_value = true /\
    translated_gen_set_sampled = true.
Proof. exact optimiser_source_translated. Qed.
Print Assumptions C20_optimiser_source_translated.


Theorem C20_source_optimise_returns :
  forall (NN : Num) (fexp : carrier NN -> carrier NN) (score : N -> list (carrier NN) -> option
    (carrier NN)), (forall (k k' : N) (ps : list (carrier NN)), score k ps = score k' ps) ->
    forall (c : cfg NN) (ps : list (carrier NN)) (hs : list (handle NN)) (s0 : carrier NN)
    (draws : list (draw NN)), score 0%N ps = Some s0 -> draws_in_range NN (length hs) draws ->
    (work NN c <= N.of_nat (length draws))%N -> exists st : ost NN, src_optimise NN fexp score c
    ps hs draws = Returned NN st /\ score 0%N (params NN st) = Some (score_cur NN st).
Proof. exact source_optimise_returns. Qed.
Print Assumptions C20_source_optimise_returns.

Theorem S_optimise_state_is_the_source_pieces :
  forall (NN : Num) (fexp : carrier NN -> carrier NN) (score : N -> list (carrier NN) -> option
    (carrier NN)) (c : cfg NN) (ps : list (carrier NN)) (hs : list (handle NN)) (draws : list
    (draw NN)), optimise NN fexp score c ps hs draws = src_optimise NN fexp score c ps hs draws.
Proof. exact optimise_state_is_the_source_pieces. Qed.
Print Assumptions S_optimise_state_is_the_source_pieces.


Theorem C20_source_convergence_prefix :
  forall (NN : Num) (fexp : carrier NN -> carrier NN) (score : N -> list (carrier NN) -> option
    (carrier NN)) (c : cfg NN) (eps : carrier NN) (draws : list (draw NN)), conv NN c = Some eps
    -> forall a b : ost NN, agree NN a b -> conv_fin NN a -> converged NN (fold_left
    (src_advance NN fexp score c) draws a) = false -> agree NN (fold_left (src_advance NN fexp
    score c) draws a) (fold_left (src_advance NN fexp score (no_conv NN c)) draws b).
Proof. exact source_convergence_prefix. Qed.
Print Assumptions C20_source_convergence_prefix.

