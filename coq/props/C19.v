(* props/C19.v - C19: no Monte-Carlo move is larger than the configured maximum step. *)
From Coq Require Import ZArith NArith List Bool Reals Floats.
From PV Require Import Num NumR model.Optimiser model.OptSpec proofs.OptStruct proofs.OptLoop proofs.FloatFacts proofs.RealFacts.
From PV Require Import model.Cli gen.GenCli proofs.CliFacts.
From PV Require Import gen.GenFns model.Iter model.Pipeline proofs.ListLemmas proofs.SrcOpt.
From PV Require Import proofs.StepFacts.
From PV Require Import proofs.SampleFloat proofs.RangeInst proofs.RatioFloat.

Theorem C19_ratio_le_one :
  forall (NN : Num) (fexp : carrier NN -> carrier NN) (score : N -> list (carrier NN) -> option
    (carrier NN)), (forall x : carrier NN, (@nmin NN x (@n1 NN) <=? @n1 NN)%num = true) -> (@n1
    NN <=? @n1 NN)%num = true -> forall (c : cfg NN) (ps : list (carrier NN)) (hs : list (handle
    NN)) (s0 : carrier NN) (draws : list (draw NN)), (ratio NN (run NN fexp score c (init NN c
    ps hs s0) draws) <=? @n1 NN)%num = true.
Proof. exact OptLoop.C19_ratio_le_one. Qed.
Print Assumptions C19_ratio_le_one.

Theorem C19_ratio_le_one_binary64_premise :
  forall x : carrier NumF, (@nmin NumF x (@n1 NumF) <=? @n1 NumF)%num = true.
Proof. exact F_Hmin. Qed.
Print Assumptions C19_ratio_le_one_binary64_premise.

Theorem C19_ratio_le_one_real_premise :
  forall x : carrier NumR, (@nmin NumR x (@n1 NumR) <=? @n1 NumR)%num = true.
Proof. exact R_Hmin. Qed.
Print Assumptions C19_ratio_le_one_real_premise.

Theorem C19_proposal_shape :
  forall (NN : Num) (c : cfg NN) (st : ost NN) (d : draw NN) (h : handle NN), nth_error (handles
    NN st) (d_idx NN d) = Some h -> proposal NN c st d = Some (set_nth (params NN st) (h_cell NN
    h) (nclamp (h_min NN h) (h_max NN h) (sample NN h (get_cell NN (params NN st) (h_cell NN h))
    (max_step NN c * ratio NN st)%num (d_g NN d)))).
Proof. exact OptLoop.C19_proposal_shape. Qed.
Print Assumptions C19_proposal_shape.

Theorem C19_move_le_max_real :
  forall (h : handle NumR) (v st g ms rho : R), (h_min NumR h <= v <= h_max NumR h)%R -> (0 <=
    st)%R -> (Rabs g <= 1 / 2)%R -> (0 <= ms)%R -> (0 <= rho <= 1)%R -> st = (ms * rho)%R ->
    (Rabs (nclamp (h_min NumR h) (h_max NumR h) (sample NumR h v st g) - v) <= ms * (h_max NumR
    h - h_min NumR h) / 2)%R.
Proof. exact R_C19_move_le_max. Qed.
Print Assumptions C19_move_le_max_real.

Theorem C19_proposal_differs_in_one :
  forall (NN : Num) (c : cfg NN) (st : ost NN) (d : draw NN) (ps' : list (carrier NN)), proposal
    NN c st d = Some ps' -> length ps' = length (params NN st) /\ (exists i : nat, forall (k :
    nat) (dflt : carrier NN), k <> i -> nth k ps' dflt = nth k (params NN st) dflt).
Proof. exact OptStruct.C06_proposal_differs_in_one. Qed.
Print Assumptions C19_proposal_differs_in_one.


Theorem C19_cli_stage_max_step :
  forall (NN : Num) (fpow : carrier NN -> carrier NN -> carrier NN) (i : N) (u : sbuilder NN) (k
    : nat), k < 3 -> max_step NN (build NN fpow (sb NN (stage_settings NN (gen_stages NN) k i
    u))) = b_max_step NN (sb NN u).
Proof. exact cli_stage_max_step. Qed.
Print Assumptions C19_cli_stage_max_step.

Theorem C19_cli_driver_translated :
  gen_cli_problem = String.EmptyString.
Proof. exact cli_translated. Qed.
Print Assumptions C19_cli_driver_translated.


Theorem C19_ratio_update_is_source :
  forall (NN : Num) (r : carrier NN) (inner_ rej : N), gen_ratio_update NN r inner_ rej = (if
    (thresh NN <? r)%num then nmin (r * (ofN NN inner_ / (ofN NN rej + n1)))%num n1 else r).
Proof. exact ratio_update_is_source. Qed.
Print Assumptions C19_ratio_update_is_source.

Theorem C19_sample_is_source :
  forall (NN : Num) (h : handle NN) (v step g : carrier NN), gen_sample NN (h_min NN h) (h_max
    NN h) v step g = sample NN h v step g.
Proof. exact sample_is_source. Qed.
Print Assumptions C19_sample_is_source.

Theorem C19_clamp_is_source :
  forall (NN : Num) (lo hi x : carrier NN), gen_clamp NN lo hi x = nclamp lo hi x.
Proof. exact clamp_is_source. Qed.
Print Assumptions C19_clamp_is_source.


Theorem C19_ratio_nonneg :
  forall (NN : Num) (fexp : carrier NN -> carrier NN) (score : N -> list (carrier NN) -> option
    (carrier NN)), (forall (x : carrier NN) (i r : N), (@n0 NN <=? x)%num = true -> (@n0 NN <=?
    @nmin NN (x * (ofN NN i / (ofN NN r + @n1 NN))) (@n1 NN))%num = true) -> (@n0 NN <=? @n1
    NN)%num = true -> forall (c : cfg NN) (ps : list (carrier NN)) (hs : list (handle NN)) (s0 :
    carrier NN) (draws : list (draw NN)), (@n0 NN <=? ratio NN (run NN fexp score c (init NN c
    ps hs s0) draws))%num = true.
Proof. exact OptLoop.C19_ratio_nonneg. Qed.
Print Assumptions C19_ratio_nonneg.

Theorem C19_ratio_nonneg_real_premise :
  forall (x : carrier NumR) (i r : N), (@n0 NumR <=? x)%num = true -> (@n0 NumR <=? @nmin NumR
    (x * (ofN NumR i / (ofN NumR r + @n1 NumR))) (@n1 NumR))%num = true.
Proof. exact R_Hnn. Qed.
Print Assumptions C19_ratio_nonneg_real_premise.

Theorem C19_ratio_in_unit_interval_real :
  forall (fexp : R -> R) (score : N -> list R -> option R) (c : cfg NumR) (ps : list (carrier
    NumR)) (hs : list (handle NumR)) (s0 : carrier NumR) (draws : list (draw NumR)), (0 <= ratio
    NumR (run NumR fexp score c (init NumR c ps hs s0) draws) <= 1)%R.
Proof. exact R_ratio_in_unit_interval. Qed.
Print Assumptions C19_ratio_in_unit_interval_real.

Theorem C19_every_move_bounded_real :
  forall (fexp : R -> R) (score : N -> list R -> option R) (c : cfg NumR) (ps : list (carrier
    NumR)) (hs : list (handle NumR)) (s0 : carrier NumR) (draws : list (draw NumR)) (h : handle
    NumR) (v g : R), let st := run NumR fexp score c (init NumR c ps hs s0) draws in (h_min NumR
    h <= v <= h_max NumR h)%R -> (Rabs g <= 1 / 2)%R -> (0 <= max_step NumR c)%R -> (Rabs
    (nclamp (h_min NumR h) (h_max NumR h) (sample NumR h v (max_step NumR c * ratio NumR st)%num
    g) - v) <= max_step NumR c * (h_max NumR h - h_min NumR h) / 2)%R.
Proof. exact R_C19_every_move_bounded. Qed.
Print Assumptions C19_every_move_bounded_real.


Theorem C19_ratio_in_unit_interval_binary64 :
  forall (fexp : F -> F) (score : N -> list F -> option F) (c : cfg NumF) (ps : list (carrier
    NumF)) (hs : list (handle NumF)) (s0 : carrier NumF) (draws : list (draw NumF)), let r :=
    ratio NumF (run NumF fexp score c (init NumF c ps hs s0) draws) in fposn r /\ fleb r 1 =
    true.
Proof. exact F_ratio_in_unit_interval. Qed.
Print Assumptions C19_ratio_in_unit_interval_binary64.

Theorem C19_ratio_update_keeps_positive_numbers :
  forall (x : F) (i r : N), fposn x ->
    fposn (nmin (NN:=NumF) (nmul (n:=NumF) x (ndiv (n:=NumF) (ofN NumF i) (nadd (n:=NumF) (ofN NumF r) n1))) n1).
Proof. exact F_ratio_step. Qed.
Print Assumptions C19_ratio_update_keeps_positive_numbers.

Theorem C19_ratio_pred :
  forall (NN : Num) (fexp : carrier NN -> carrier NN) (score : N -> list (carrier NN) -> option
    (carrier NN)) (P : carrier NN -> Prop), P (@n1 NN) -> (forall (x : carrier NN) (i r : N), P
    x -> P (@nmin NN (x * (ofN NN i / (ofN NN r + @n1 NN)))%num (@n1 NN))) -> forall (c : cfg
    NN) (ps : list (carrier NN)) (hs : list (handle NN)) (s0 : carrier NN) (draws : list (draw
    NN)), P (ratio NN (run NN fexp score c (init NN c ps hs s0) draws)).
Proof. exact OptLoop.C19_ratio_pred. Qed.
Print Assumptions C19_ratio_pred.


Theorem C19_step_le_max_binary64 :
  forall (fexp : F -> F) (score : N -> list F -> option F) (c : cfg NumF) (ps : list (carrier
    NumF)) (hs : list (handle NumF)) (s0 : carrier NumF) (draws : list (draw NumF)), ffin
    (max_step NumF c) -> fleb 0 (max_step NumF c) = true -> let st := run NumF fexp score c
    (init NumF c ps hs s0) draws in fleb (max_step NumF c * ratio NumF st)%num (max_step NumF c)
    = true.
Proof. exact F_C19_step_le_max. Qed.
Print Assumptions C19_step_le_max_binary64.


Theorem S_end_loop_is_source :
  forall (NN : Num) (c : cfg NN) (st : ost NN), let r := gen_end_loop NN c (score_cur NN st)
    (score_start NN st) (kt NN st) (conv_count NN st) (ratio NN st) (loop_rej NN st) in end_loop
    NN c st = {| params := params NN st; handles := handles NN st; score_cur := score_cur NN st;
    kt := fst (fst (snd r)); ratio := snd (snd r); conv_count := snd (fst (snd r)); loop_rej :=
    0; score_start := score_cur NN st; loops_done := N.succ (loops_done NN st); j := 0; calls :=
    calls NN st; fin := fst r || (loops_of (steps NN c) (inner NN c) <=? N.succ (loops_done NN
    st))%N; converged := fst r; bad_index := false |}.
Proof. exact end_loop_is_source. Qed.
Print Assumptions S_end_loop_is_source.


Theorem S_mc_step_is_source :
  forall (NN : Num) (fexp : carrier NN -> carrier NN) (score : N -> list (carrier NN) -> option
    (carrier NN)) (c : cfg NN) (st : ost NN) (d : draw NN), mc_step NN fexp score c st d = match
    gen_mc_step NN fexp score c {| w_params := params NN st; w_handles := handles NN st; w_calls
    := calls NN st |} (score_cur NN st) (kt NN st) (ratio NN st) (loop_rej NN st) d with | Some
    (w, sc, rej) => {| params := w_params NN w; handles := w_handles NN w; score_cur := sc; kt
    := kt NN st; ratio := ratio NN st; conv_count := conv_count NN st; loop_rej := rej;
    score_start := score_start NN st; loops_done := loops_done NN st; j := N.succ (j NN st);
    calls := w_calls NN w; fin := false; converged := false; bad_index := false |} | None => {|
    params := params NN st; handles := handles NN st; score_cur := score_cur NN st; kt := kt NN
    st; ratio := ratio NN st; conv_count := conv_count NN st; loop_rej := loop_rej NN st;
    score_start := score_start NN st; loops_done := loops_done NN st; j := j NN st; calls :=
    calls NN st; fin := true; converged := false; bad_index := true |} end.
Proof. exact mc_step_is_source. Qed.
Print Assumptions S_mc_step_is_source.

Theorem S_init_is_source :
  forall (NN : Num) (c : cfg NN) (ps : list (carrier NN)) (hs : list (handle NN)) (s0 : carrier
    NN), init NN c ps hs s0 = {| params := ps; handles := hs; score_cur := s0; kt := fst
    (gen_init NN c); ratio := snd (gen_init NN c); conv_count := gen_init_count; loop_rej := 0;
    score_start := s0; loops_done := 0; j := 0; calls := 1; fin := (gen_loops NN c =? 0)%N;
    converged := false; bad_index := false |}.
Proof. exact init_is_source. Qed.
Print Assumptions S_init_is_source.


Theorem R_C19_source_proposal_bounded :
  forall (fexp : R -> R) (score : N -> list R -> option R) (c : cfg NumR) (ps : list (carrier
    NumR)) (hs : list (handle NumR)) (s0 : carrier NumR) (draws : list (draw NumR)) (d : draw
    NumR) (h : handle NumR) (w' : world NumR), let st := run NumR fexp score c (init NumR c ps
    hs s0) draws in let w := {| w_params := params NumR st; w_handles := handles NumR st;
    w_calls := calls NumR st |} in nth_error (handles NumR st) (d_idx NumR d) = Some h -> h_cell
    NumR h < length (params NumR st) -> (h_min NumR h <= nth (h_cell NumR h) (params NumR st) 0
    <= h_max NumR h)%R -> (Rabs (d_g NumR d) <= 1 / 2)%R -> (0 <= max_step NumR c)%R ->
    w_set_sampled NumR w (d_idx NumR d) (max_step NumR c * ratio NumR st)%num (d_g NumR d) =
    Some w' -> (Rabs (nth (h_cell NumR h) (w_params NumR w') 0 - nth (h_cell NumR h) (params
    NumR st) 0) <= max_step NumR c * (h_max NumR h - h_min NumR h) / 2)%R /\ (forall k : nat, k
    <> h_cell NumR h -> nth k (w_params NumR w') 0%R = nth k (params NumR st) 0%R).
Proof. exact R_C19_source_proposal_bounded. Qed.
Print Assumptions R_C19_source_proposal_bounded.

Theorem S_world_operations_are_source :
  forall (NN : Num) (w : world NN) (idx : nat) (h : handle NN) (step g : carrier NN), nth_error
    (w_handles NN w) idx = Some h -> w_set_sampled NN w idx step g = (let '(old', v') :=
    gen_set_sampled NN (h_min NN h) (h_max NN h) (h_old NN h) (get_cell NN (w_params NN w)
    (h_cell NN h)) step g in Some {| w_params := set_nth (w_params NN w) (h_cell NN h) v';
    w_handles := set_nth (w_handles NN w) idx (with_old NN h old'); w_calls := w_calls NN w |})
    /\ w_reset NN w idx = (let '(_, v') := gen_reset_value NN (h_old NN h) (get_cell NN
    (w_params NN w) (h_cell NN h)) in Some {| w_params := set_nth (w_params NN w) (h_cell NN h)
    v'; w_handles := w_handles NN w; w_calls := w_calls NN w |}).
Proof. exact world_operations_are_source. Qed.
Print Assumptions S_world_operations_are_source.


Theorem C19_optimiser_source_translated :
  translated_gen_energy_surface = true /\ translated_gen_test_acceptance = true /\
    translated_gen_accept_score = true /\ translated_gen_cooling_factor = true /\
    translated_gen_build = true /\ translated_gen_inner_steps = true /\ translated_gen_loops =
    true /\ translated_gen_converged = true /\ translated_gen_ratio_update = true /\
    translated_gen_init = true /\ translated_gen_init_count = true /\ translated_gen_loop_head =
    true /\ translated_gen_inner_count = true /\ translated_gen_final_ok = true /\
    translated_gen_mc_step = true /\ translated_gen_end_loop = true /\ translated_gen_clamp =
    true /\ translated_gen_sample = true /\ translated_gen_reset_value = true /\
    translated_gen_set_sampled = true.
Proof. exact optimiser_source_translated. Qed.
Print Assumptions C19_optimiser_source_translated.

