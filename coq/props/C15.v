(* props/C15.v - C15: each site yields the group's copies, once each, inside one canonical cell (reals). *)
From Coq Require Import ZArith List Bool Reals Sorted. Import ListNotations.
From PV Require Import Num NumR model.Geom proofs.LatticeFacts proofs.SiteFacts proofs.SymmetryFacts proofs.LJFacts proofs.RedescribeFacts.

Theorem C15_wrap_spec :
  forall x : R, (-1 / 2 <= wrapR x < 1 / 2)%R /\ (exists n : Z, (wrapR x - x)%R = IZR n).
Proof. exact wrap_spec. Qed.
Print Assumptions C15_wrap_spec.

Theorem C15_wrap_unique :
  forall x y : R, (-1 / 2 <= y < 1 / 2)%R -> (exists n : Z, (y - x)%R = IZR n) -> y = wrapR x.
Proof. exact wrap_unique. Qed.
Print Assumptions C15_wrap_unique.

Theorem C15_wrap_periodic :
  forall (x : R) (n : Z), wrapR (x + IZR n) = wrapR x.
Proof. exact wrap_periodic. Qed.
Print Assumptions C15_wrap_periodic.

Theorem C15_positions_length :
  forall (syms : list tfR) (s : siteR), length (positions NumR syms s) = length syms.
Proof. exact positions_length. Qed.
Print Assumptions C15_positions_length.

Theorem C15_positions_nth :
  forall (syms : list tfR) (s : siteR) (k : nat) (d : tfR), k < length syms -> nth k (positions
    NumR syms s) d = placement (nth k syms d) s.
Proof. exact positions_nth. Qed.
Print Assumptions C15_positions_nth.

Theorem C15_placement_spec :
  forall (sym : tfR) (s : siteR), sym_row sym -> let p := placement sym s in a00 NumR p = (a00
    NumR sym * s_cos NumR s + a01 NumR sym * s_sin NumR s)%R /\ a01 NumR p = (a00 NumR sym * -
    s_sin NumR s + a01 NumR sym * s_cos NumR s)%R /\ a10 NumR p = (a10 NumR sym * s_cos NumR s +
    a11 NumR sym * s_sin NumR s)%R /\ a11 NumR p = (a10 NumR sym * - s_sin NumR s + a11 NumR sym
    * s_cos NumR s)%R /\ a02 NumR p = wrapR (a00 NumR sym * s_x NumR s + a01 NumR sym * s_y NumR
    s + a02 NumR sym) /\ a12 NumR p = wrapR (a10 NumR sym * s_x NumR s + a11 NumR sym * s_y NumR
    s + a12 NumR sym) /\ sym_row p.
Proof. exact placement_spec. Qed.
Print Assumptions C15_placement_spec.

Theorem C15_placement_site_periodic :
  forall (sym : tfR) (s : siteR) (n m i00 i01 i10 i11 : Z), sym_row sym -> a00 NumR sym = IZR
    i00 -> a01 NumR sym = IZR i01 -> a10 NumR sym = IZR i10 -> a11 NumR sym = IZR i11 ->
    placement sym (@mkSite NumR (s_x NumR s + IZR n)%R (s_y NumR s + IZR m)%R (s_cos NumR s)
    (s_sin NumR s)) = placement sym s.
Proof. exact placement_site_periodic. Qed.
Print Assumptions C15_placement_site_periodic.

Theorem C15_site_orientation_period :
  forall x y theta : R, site_tf NumR (@mkSite NumR x y (cos (theta + 2 * PI)) (sin (theta + 2 *
    PI))) = site_tf NumR (@mkSite NumR x y (cos theta) (sin theta)).
Proof. exact site_orientation_period. Qed.
Print Assumptions C15_site_orientation_period.

Theorem C15_positions_site_shift :
  forall (syms : list tfR) (s : siteR) (n m : Z), Forall int_sym syms -> positions NumR syms
    (shift_site s n m) = positions NumR syms s.
Proof. exact positions_site_shift. Qed.
Print Assumptions C15_positions_site_shift.

Theorem C15_group_operations_are_int_sym :
  forall hs : list hop, Forall int_sym (map tf_of_hop hs).
Proof. exact group_operations_are_int_sym. Qed.
Print Assumptions C15_group_operations_are_int_sym.

(* ---- binary64 (Flocq): the half-open cell bound holds with rounding, for every finite coordinate up to 2^51 ---- *)
From Coq Require Import Floats.
From Flocq Require Import Core BinarySingleNaN PrimFloat.
From PV Require Import proofs.FloatFacts proofs.WrapFloat.
From PV Require Import proofs.PackingFacts.
From PV Require Import gen.GenFns model.Iter model.Pipeline proofs.ListLemmas proofs.SrcCell proofs.SrcState.
From PV Require Import proofs.SourceHeadlinesCell.

Theorem C15_F_wrap_range :
  forall x : F, is_finite (Prim2B x) = true -> (Rabs (B2R (Prim2B x)) <= 2251799813685248)%R ->
    let w := wrap1 NumF x in is_finite (Prim2B w) = true /\ (- / 2 <= B2R (Prim2B w) <= / 2 -
    bpow radix2 (-53))%R.
Proof. exact F_wrap_range. Qed.
Print Assumptions C15_F_wrap_range.

Theorem C15_F_wrap_in_cell :
  forall x : F, is_finite (Prim2B x) = true -> (Rabs (B2R (Prim2B x)) <= 2251799813685248)%R ->
    fleb (-0.5) (wrap1 NumF x) = true /\ fltb (wrap1 NumF x) 0.5 = true.
Proof. exact F_wrap_in_cell. Qed.
Print Assumptions C15_F_wrap_in_cell.

Theorem C15_ffmod1_range :
  forall x : F, is_finite (Prim2B x) = true -> is_finite (Prim2B (ffmod1 x)) = true /\ (-1 < B2R
    (Prim2B (ffmod1 x)) < 1)%R /\ ((0 <= B2R (Prim2B x))%R -> (0 <= B2R (Prim2B (ffmod1 x)))%R).
Proof. exact ffmod1_range. Qed.
Print Assumptions C15_ffmod1_range.


Theorem C15_copies_count :
  forall st : pstateR, copies st = length (p_sites NumR st) * length (p_syms NumR st).
Proof. exact copies_count. Qed.
Print Assumptions C15_copies_count.

Theorem C15_every_copy_is_a_placement :
  forall (st : pstateR) (p : tfR), In p (relative_positions NumR st) -> exists (sym : tfR) (s :
    siteR), In sym (p_syms NumR st) /\ In s (p_sites NumR st) /\ p = placement sym s.
Proof. exact rel_members. Qed.
Print Assumptions C15_every_copy_is_a_placement.


Theorem C15_wrap_is_source :
  forall (NN : Num) (x : carrier NN), gen_wrap NN x = wrap1 NN x.
Proof. exact wrap_is_source. Qed.
Print Assumptions C15_wrap_is_source.



Theorem C15_positions_is_source :
  forall (NN : Num) (syms : list (tf NN)) (s : site NN), gen_positions NN syms s = positions NN
    syms s.
Proof. exact positions_is_source. Qed.
Print Assumptions C15_positions_is_source.


Theorem S_state_positions_are_source :
  forall (NN : Num) (st : pstate NN), gen_relative_positions NN st = relative_positions NN st /\
    gen_cartesian_positions NN st = cartesian_positions NN st.
Proof. exact state_positions_are_source. Qed.
Print Assumptions S_state_positions_are_source.


Theorem C15_cell_source_translated :
  translated_gen_wrap = true /\ translated_gen_periodic_images = true /\
    translated_gen_positions = true /\ translated_gen_cell_a = true /\ translated_gen_cell_b =
    true /\ translated_gen_cell_area = true /\ translated_gen_to_cartesian = true.
Proof. exact cell_source_translated. Qed.
Print Assumptions C15_cell_source_translated.

Theorem C15_state_source_translated :
  translated_gen_positions = true /\ translated_gen_total_shapes = true /\
    translated_gen_relative_positions = true /\ translated_gen_cartesian_positions = true /\
    translated_gen_lj_total_shapes = true /\ translated_gen_lj_relative_positions = true /\
    translated_gen_lj_cartesian_positions = true /\ translated_gen_density_precheck = true /\
    translated_gen_shells = true /\ translated_gen_radius_sq = true /\
    translated_gen_check_intersection = true /\ translated_gen_packed_score = true /\
    translated_gen_lj_score = true /\ translated_gen_lj_final = true.
Proof. exact state_source_translated. Qed.
Print Assumptions C15_state_source_translated.


Theorem C15_source_wrap_spec :
  forall x : R, (-1 / 2 <= gen_wrap NumR x < 1 / 2)%R /\ (exists n : Z, (gen_wrap NumR x - x)%R
    = IZR n).
Proof. exact source_wrap_spec. Qed.
Print Assumptions C15_source_wrap_spec.

Theorem C15_source_positions_one_per_operation :
  forall (syms : list tfR) (s : siteR), length (gen_positions NumR syms s) = length syms /\
    (forall (k : nat) (d : tfR), k < length syms -> nth k (gen_positions NumR syms s) d =
    placement (nth k syms d) s).
Proof. exact source_positions_one_per_operation. Qed.
Print Assumptions C15_source_positions_one_per_operation.

