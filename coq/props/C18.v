(* props/C18.v - C18: the temperature follows the requested annealing schedule. *)
From Coq Require Import ZArith NArith List Bool Reals Floats.
From PV Require Import Num NumR model.Optimiser model.OptSpec proofs.OptStruct proofs.OptLoop proofs.FloatFacts proofs.FloatZero proofs.HillClimb proofs.RealFacts.
From PV Require Import model.Cli gen.GenCli proofs.CliFacts.
From PV Require Import gen.GenFns model.Iter model.Pipeline proofs.ListLemmas proofs.SrcOpt.
From PV Require Import proofs.SourceHeadlinesOpt.

Theorem C18_kt_schedule :
  forall (NN : Num) (fexp : carrier NN -> carrier NN) (score : N -> list (carrier NN) -> option
    (carrier NN)) (c : cfg NN) (ps : list (carrier NN)) (hs : list (handle NN)) (s0 : carrier
    NN) (draws : list (draw NN)), kt_inv NN c (run NN fexp score c (init NN c ps hs s0) draws).
Proof. exact OptLoop.C18_kt_schedule. Qed.
Print Assumptions C18_kt_schedule.

Theorem C18_kt_constant_in_loop :
  forall (NN : Num) (fexp : carrier NN -> carrier NN) (score : N -> list (carrier NN) -> option
    (carrier NN)) (c : cfg NN) (st : ost NN) (d : draw NN), kt NN (mc_step NN fexp score c st d)
    = kt NN st.
Proof. exact OptLoop.C18_kt_constant_in_loop. Qed.
Print Assumptions C18_kt_constant_in_loop.

Theorem C18_factor_from_ratio :
  forall (NN : Num) (fpow : carrier NN -> carrier NN -> carrier NN) (b : builder NN) (r :
    carrier NN), b_kt_ratio NN b = Some r -> factor NN (build NN fpow b) = nmin (nmax n0 (n1 -
    r)%num) (fmax_ NN).
Proof. exact OptLoop.C18_factor_from_ratio. Qed.
Print Assumptions C18_factor_from_ratio.

Theorem C18_factor_default :
  forall (NN : Num) (fpow : carrier NN -> carrier NN -> carrier NN) (b : builder NN), b_kt_ratio
    NN b = None -> b_kt_finish NN b = None -> factor NN (build NN fpow b) = tenth NN.
Proof. exact OptLoop.C18_factor_default. Qed.
Print Assumptions C18_factor_default.

Theorem C18_factor_from_finish :
  forall (NN : Num) (fpow : carrier NN -> carrier NN -> carrier NN) (b : builder NN) (f :
    carrier NN), b_kt_ratio NN b = None -> b_kt_finish NN b = Some f -> (n0 <? b_kt_start NN
    b)%num = true -> N.min (b_inner NN b) (b_steps NN b) <> 0%N -> factor NN (build NN fpow b) =
    fpow (f / b_kt_start NN b)%num (n1 / ofN NN (loops_of (b_steps NN b) (N.min (b_inner NN b)
    (b_steps NN b))))%num.
Proof. exact OptLoop.C18_factor_from_finish. Qed.
Print Assumptions C18_factor_from_finish.

Theorem C18_factor_at_zero_start :
  forall (NN : Num) (fpow : carrier NN -> carrier NN -> carrier NN) (b : builder NN), (n0 <?
    b_kt_start NN b)%num = false -> factor NN (build NN fpow b) = match b_kt_ratio NN b with |
    Some r => nmin (nmax n0 (n1 - r)%num) (fmax_ NN) | None => tenth NN end.
Proof. exact OptLoop.C18_factor_at_zero_start. Qed.
Print Assumptions C18_factor_at_zero_start.

Theorem C18_start_normalised :
  forall (NN : Num) (fpow : carrier NN -> carrier NN -> carrier NN) (b : builder NN), kt_start
    NN (build NN fpow b) = (if (b_kt_start NN b =? n0)%num then n0 else b_kt_start NN b).
Proof. exact OptLoop.C18_start_normalised. Qed.
Print Assumptions C18_start_normalised.

Theorem C18_start_exact :
  forall (fpow : carrier NumR -> carrier NumR -> carrier NumR) (b : builder NumR), kt_start NumR
    (build NumR fpow b) = b_kt_start NumR b.
Proof. exact R_build_kt_start. Qed.
Print Assumptions C18_start_exact.

Theorem C18_factor_ratio_exact :
  forall (fpow : carrier NumR -> carrier NumR -> carrier NumR) (b : builder NumR) (r : R),
    b_kt_ratio NumR b = Some r -> (1 - r <= IZR (2 ^ 1024 - 2 ^ 971))%R -> factor NumR (build
    NumR fpow b) = Rmax 0 (1 - r).
Proof. exact R_build_factor_ratio. Qed.
Print Assumptions C18_factor_ratio_exact.

Theorem C18_cooled_is_power :
  forall (kt0 f : R) (k : nat), cooled NumR kt0 f k = (kt0 * f ^ k)%R.
Proof. exact R_cooled_pow. Qed.
Print Assumptions C18_cooled_is_power.

Theorem C18_factor_reaches_finish :
  forall (kt_start kt_finish : R) (L : nat), (0 < kt_start)%R -> (0 < kt_finish)%R -> 0 < L ->
    let f := Rpower (kt_finish / kt_start) (1 / INR L) in cooled NumR kt_start f L = kt_finish
    /\ (cooled NumR kt_start f (L - 1) * f)%R = kt_finish.
Proof. exact R_factor_reaches_finish. Qed.
Print Assumptions C18_factor_reaches_finish.

Theorem C18_build_cooled_finish :
  forall (b : builder NumR) (fin : R), b_kt_ratio NumR b = None -> b_kt_finish NumR b = Some fin
    -> (0 < b_kt_start NumR b)%R -> (0 < fin)%R -> (0 < N.min (b_inner NumR b) (b_steps NumR
    b))%N -> let c := build NumR Rpower b in cooled NumR (kt_start NumR c) (factor NumR c)
    (N.to_nat (loops_of (steps NumR c) (inner NumR c))) = fin.
Proof. exact R_build_cooled_finish. Qed.
Print Assumptions C18_build_cooled_finish.

Theorem C18_zero_stays_zero_real :
  forall (f : R) (k : nat), cooled NumR 0%R f k = 0%R.
Proof. exact R_cooled_zero. Qed.
Print Assumptions C18_zero_stays_zero_real.

Theorem C18_zero_stays_zero_binary64 :
  forall (fexp : F -> F) (fpow : F -> F -> F) (score : N -> list F -> option F) (b : builder
    NumF) (ps : list (carrier NumF)) (hs : list (handle NumF)) (s0 : F) (draws : list (draw
    NumF)), zero_start b -> let c := build NumF fpow b in kt NumF
    (run NumF fexp score c (init NumF c ps hs s0) draws) = 0%float.
Proof. exact HillClimb.C05_zero_temperature_stays_zero. Qed.
Print Assumptions C18_zero_stays_zero_binary64.


Theorem C18_cli_stage2_is_the_users_schedule :
  forall (NN : Num) (i : N) (u : sbuilder NN), sb NN (stage_settings NN (gen_stages NN) 1 i u) =
    sb NN u /\ sb_seed NN (stage_settings NN (gen_stages NN) 1 i u) = Some i.
Proof. exact cli_stage2_settings. Qed.
Print Assumptions C18_cli_stage2_is_the_users_schedule.

Theorem C18_cli_bare_command_line :
  forall (NN : Num) (fpow : carrier NN -> carrier NN -> carrier NN), let c := build NN fpow (sb
    NN (gen_builder_cli NN)) in steps NN c = 100%N /\ inner NN c = 100%N /\ factor NN c = tenth
    NN /\ conv NN c = None /\ loops_of (steps NN c) (inner NN c) = 1%N.
Proof. exact cli_bare_command_line. Qed.
Print Assumptions C18_cli_bare_command_line.

Theorem C18_setters_are_model_setters :
  length (gen_setter_probes NumF) = 10 /\ forallb (fun p : setter NumF * sbuilder NumF =>
    sbuilder_eqb NumF (apply_setter NumF 0 (gen_builder_default NumF) (fst p)) (snd p))
    (gen_setter_probes NumF) = true /\ map (fun p : setter NumF * sbuilder NumF => match fst p
    with | SetSteps _ _ => 1 | SetInner _ _ => 2 | SetKtStart _ _ => 3 | SetKtFinish _ _ => 4 |
    SetKtRatio _ (Some _) => 6 | SetKtRatio _ None => 5 | SetMaxStep _ _ => 7 | SetConv _ (Some
    _) => 9 | SetConv _ None => 8 | SetSeed _ _ => 10 end) (gen_setter_probes NumF) = 8 :: 9 ::
    2 :: 4 :: 5 :: 6 :: 3 :: 7 :: 10 :: 1 :: nil.
Proof. exact cli_setters_are_model_setters. Qed.
Print Assumptions C18_setters_are_model_setters.

Theorem C18_library_default_reaches_finish :
  let b := sb NumR (gen_builder_default NumR) in let c := build NumR Rpower b in cooled NumR
    (kt_start NumR c) (factor NumR c) (N.to_nat (loops_of (steps NumR c) (inner NumR c))) = (1 /
    1000)%R.
Proof. exact lib_default_reaches_finish. Qed.
Print Assumptions C18_library_default_reaches_finish.


Theorem C18_cooling_factor_is_source :
  forall (NN : Num) (fpow : carrier NN -> carrier NN -> carrier NN) (b : builder NN),
    gen_cooling_factor NN fpow b (N.min (b_inner NN b) (b_steps NN b)) = factor NN (build NN
    fpow b).
Proof. exact cooling_factor_is_source. Qed.
Print Assumptions C18_cooling_factor_is_source.



Theorem C18_loops_is_source :
  forall (NN : Num) (c : cfg NN), gen_loops NN c = loops_of (steps NN c) (inner NN c).
Proof. exact loops_is_source. Qed.
Print Assumptions C18_loops_is_source.


Theorem S_end_loop_is_source :
  forall (NN : Num) (c : cfg NN) (st : ost NN), let r := gen_end_loop NN c (score_cur NN st)
    (score_start NN st) (kt NN st) (conv_count NN st) (ratio NN st) (loop_rej NN st) in end_loop
    NN c st = {| params := params NN st; handles := handles NN st; score_cur := score_cur NN st;
    kt := fst (fst (snd r)); ratio := snd (snd r); conv_count := snd (fst (snd r)); loop_rej :=
    0; score_start := score_cur NN st; loops_done := N.succ (loops_done NN st); j := 0; calls :=
    calls NN st; fin := fst r || (loops_of (steps NN c) (inner NN c) <=? N.succ (loops_done NN
    st))%N; converged := fst r; bad_index := false |}.
Proof. exact end_loop_is_source. Qed.
Print Assumptions S_end_loop_is_source.


Theorem S_init_is_source :
  forall (NN : Num) (c : cfg NN) (ps : list (carrier NN)) (hs : list (handle NN)) (s0 : carrier
    NN), init NN c ps hs s0 = {| params := ps; handles := hs; score_cur := s0; kt := fst
    (gen_init NN c); ratio := snd (gen_init NN c); conv_count := gen_init_count; loop_rej := 0;
    score_start := s0; loops_done := 0; j := 0; calls := 1; fin := (gen_loops NN c =? 0)%N;
    converged := false; bad_index := false |}.
Proof. exact init_is_source. Qed.
Print Assumptions S_init_is_source.

Theorem S_inner_count_is_source :
  forall (NN : Num) (fexp : carrier NN -> carrier NN) (score : N -> list (carrier NN) -> option
    (carrier NN)) (c : cfg NN) (st : ost NN) (d : draw NN), advance NN fexp score c st d = (if
    fin NN st then st else let st1 := mc_step NN fexp score c st d in if bad_index NN st1 then
    st1 else if (j NN st1 =? gen_inner_count NN c)%N then end_loop NN c st1 else st1).
Proof. exact inner_count_is_source. Qed.
Print Assumptions S_inner_count_is_source.

Theorem S_loop_head_is_source :
  forall (NN : Num) (c : cfg NN) (st : ost NN), (score_start NN (end_loop NN c st), loop_rej NN
    (end_loop NN c st)) = gen_loop_head NN (score_cur NN (end_loop NN c st)) /\ gen_loop_head NN
    (score_cur NN (init NN c (params NN st) (handles NN st) (score_cur NN st))) = (score_start
    NN (init NN c (params NN st) (handles NN st) (score_cur NN st)), loop_rej NN (init NN c
    (params NN st) (handles NN st) (score_cur NN st))).
Proof. exact loop_head_is_source. Qed.
Print Assumptions S_loop_head_is_source.


Theorem S_build_is_source :
  forall (NN : Num) (fpow : carrier NN -> carrier NN -> carrier NN) (b : builder NN), gen_build
    NN fpow b = build NN fpow b.
Proof. exact build_is_source. Qed.
Print Assumptions S_build_is_source.


Theorem C18_optimiser_source_translated :
  translated_gen_energy_surface = true /\ translated_gen_test_acceptance = true /\
    translated_gen_accept_score = true /\ translated_gen_cooling_factor = true /\
    translated_gen_build = true /\ translated_gen_inner_steps = true /\ translated_gen_loops =
    true /\ translated_gen_converged = true /\ translated_gen_ratio_update = true /\
    translated_gen_init = true /\ translated_gen_init_count = true /\ translated_gen_loop_head =
    true /\ translated_gen_inner_count = true /\ translated_gen_final_ok = true /\
    translated_gen_mc_step = true /\ translated_gen_end_loop = true /\ translated_gen_clamp =
    true /\ translated_gen_sample = true /\ translated_gen_reset_value = true /\
    translated_gen_set_sampled = true.
Proof. exact optimiser_source_translated. Qed.
Print Assumptions C18_optimiser_source_translated.


Theorem C18_source_kt_schedule :
  forall (NN : Num) (fexp : carrier NN -> carrier NN) (score : N -> list (carrier NN) -> option
    (carrier NN)) (c : cfg NN) (ps : list (carrier NN)) (hs : list (handle NN)) (s0 : carrier
    NN) (draws : list (draw NN)), kt_inv NN c (fold_left (src_advance NN fexp score c) draws
    (src_init NN c ps hs s0)).
Proof. exact source_kt_schedule. Qed.
Print Assumptions C18_source_kt_schedule.

