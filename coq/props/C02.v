(* props/C02.v - C02: the hard-packing score is the true packing fraction, never above 1 (reals; PARTIAL).
   Proved: score = copies x area / cell area, cell area = |A x B|, the polygon formula = shoelace area of the
   radial polygon, the molecule formula = disc areas minus pairwise lens terms, and (end of the file) the lens term
   = the area of the two-disc intersection as the integral of the chord length over the two segments cut by the
   common chord.  Not proved: score <= 1.  Known finding D7: three discs with a common point, or a
   disc inside another, make the molecule area wrong (or NaN). *)
From Coq Require Import ZArith List Bool Reals. Import ListNotations.
From PV Require Import Num NumR model.Geom proofs.LatticeFacts proofs.OverlapFacts proofs.PackingFacts proofs.LJFacts proofs.AreaFacts proofs.RedescribeFacts.

Theorem C02_score_is_fraction :
  forall (st : pstateR) (s : R), packed_score NumR st = Some s -> s = (p_area NumR st * INR
    (length (p_sites NumR st) * length (p_syms NumR st)) / cell_area NumR (p_cell NumR st))%R /\
    check_intersection NumR st = false.
Proof. exact score_is_fraction. Qed.
Print Assumptions C02_score_is_fraction.

Theorem C02_score_positive :
  forall (st : pstateR) (s : R), packed_score NumR st = Some s -> (0 < p_area NumR st)%R -> 0 <
    length (p_sites NumR st) -> 0 < length (p_syms NumR st) -> (0 < cell_area NumR (p_cell NumR
    st))%R -> (0 < s)%R.
Proof. exact score_positive. Qed.
Print Assumptions C02_score_positive.

Theorem C02_cell_area_is_cross :
  forall c : cellR, cell_area NumR c = (fst (vecA c) * snd (vecB c) - snd (vecA c) * fst (vecB
    c))%R /\ ((0 <= c_sin NumR c)%R -> (0 <= c_len NumR c)%R -> (0 <= c_ratio NumR c)%R ->
    cell_area NumR c = Rabs (fst (vecA c) * snd (vecB c) - snd (vecA c) * fst (vecB c))).
Proof. exact cell_area_is_cross. Qed.
Print Assumptions C02_cell_area_is_cross.

Theorem C02_poly_area_is_shoelace :
  forall (d : R) (l : list segR), Forall (radial_edge d) l -> poly_area NumR (sin d) l = rsum
    (map tri_area l).
Proof. exact poly_area_is_shoelace. Qed.
Print Assumptions C02_poly_area_is_shoelace.

Theorem C02_edge_term_is_triangle :
  forall (d : R) (p : segR), radial_edge d p -> (1 / 2 * sin d * dist_o NumR (sx1 NumR p) (sy1
    NumR p) * dist_o NumR (sx2 NumR p) (sy2 NumR p))%R = tri_area p.
Proof. exact edge_term_is_triangle. Qed.
Print Assumptions C02_edge_term_is_triangle.

Theorem C02_mol_area_one :
  forall (facos : R -> R) (a : discR), mol_area NumR facos PI [a] = (PI * (dr NumR a * dr NumR
    a))%R.
Proof. exact mol_area_one. Qed.
Print Assumptions C02_mol_area_one.

Theorem C02_mol_area_two :
  forall (facos : R -> R) (a b : discR), mol_area NumR facos PI [a; b] = (PI * (dr NumR a * dr
    NumR a) + PI * (dr NumR b * dr NumR b) - circle_overlap NumR facos a b)%R.
Proof. exact mol_area_two. Qed.
Print Assumptions C02_mol_area_two.

Theorem C02_mol_area_three :
  forall (facos : R -> R) (a b c : discR), mol_area NumR facos PI [a; b; c] = (PI * (dr NumR a *
    dr NumR a) + PI * (dr NumR b * dr NumR b) + PI * (dr NumR c * dr NumR c) - (circle_overlap
    NumR facos a b + circle_overlap NumR facos a c + circle_overlap NumR facos b c))%R.
Proof. exact mol_area_three. Qed.
Print Assumptions C02_mol_area_three.

Theorem C02_circle_overlap_disjoint :
  forall (facos : R -> R) (a b : discR), (dr NumR a + dr NumR b <= sqrt (dist2 (dx_ NumR a) (dy_
    NumR a) (dx_ NumR b) (dy_ NumR b)))%R -> circle_overlap NumR facos a b = 0%R.
Proof. exact circle_overlap_disjoint. Qed.
Print Assumptions C02_circle_overlap_disjoint.

Theorem C02_packed_score_site_shift :
  forall (st : pstateR) (ss' : list (site NumR)), Forall int_sym (p_syms NumR st) -> shifted
    (p_sites NumR st) ss' -> packed_score NumR {| p_syms := p_syms NumR st; p_sites := ss';
    p_cell := p_cell NumR st; p_shape := p_shape NumR st; p_radius := p_radius NumR st; p_area
    := p_area NumR st |} = packed_score NumR st.
Proof. exact packed_score_site_shift. Qed.
Print Assumptions C02_packed_score_site_shift.

(* ---- the lens term as an integral (Coquelicot): overlap_area(r, d) = G r d is the antiderivative of minus the
   chord length that vanishes at the rim; circle_overlap is the sum of the two segments cut by the common chord ---- *)
From Coquelicot Require Import Coquelicot.
From PV Require Import proofs.LensFacts proofs.LensModel.
From PV Require Import gen.GenFns model.Iter model.Pipeline proofs.ListLemmas proofs.SrcCell proofs.SrcShapes proofs.SrcState.
From PV Require Import proofs.SourceHeadlines.
Local Open Scope R_scope.

Theorem C02_segment_integral :
  forall r : R, 0 < r -> forall d b : R, - r < d -> d <= b -> b < r -> is_RInt (fun x : R => 2 *
    sqrt (r * r - x * x)) d b (G r d - G r b).
Proof. exact segment_integral. Qed.
Print Assumptions C02_segment_integral.

Theorem C02_G_derive :
  forall r : R, 0 < r -> forall x : R, - r < x < r -> is_derive (G r) x (- (2 * sqrt (r * r - x
    * x))).
Proof. exact G_derive. Qed.
Print Assumptions C02_G_derive.

Theorem C02_G_rim :
  forall r : R, 0 < r -> G r r = 0.
Proof. exact G_rim. Qed.
Print Assumptions C02_G_rim.

Theorem C02_G_whole :
  forall r : R, 0 < r -> G r (- r) = PI * (r * r).
Proof. exact G_whole. Qed.
Print Assumptions C02_G_whole.

Theorem C02_overlap_area_is_G :
  forall r d : R, 0 < r -> - r <= d <= r -> overlap_area NumR acos r d = G r d.
Proof. exact overlap_area_is_G. Qed.
Print Assumptions C02_overlap_area_is_G.

Theorem C02_circle_overlap_is_two_segments :
  forall a b : discR, 0 < dr NumR a -> 0 < dr NumR b -> let D := sqrt (dist2 (dx_ NumR a) (dy_
    NumR a) (dx_ NumR b) (dy_ NumR b)) in Rabs (dr NumR a - dr NumR b) <= D -> D < dr NumR a +
    dr NumR b -> 0 < D -> let d1 := (D * D + dr NumR a * dr NumR a - dr NumR b * dr NumR b) / (2
    * D) in let d2 := (D * D + dr NumR b * dr NumR b - dr NumR a * dr NumR a) / (2 * D) in
    circle_overlap NumR acos a b = G (dr NumR a) d1 + G (dr NumR b) d2 /\ d1 + d2 = D /\ dr NumR
    a * dr NumR a - d1 * d1 = dr NumR b * dr NumR b - d2 * d2 /\ - dr NumR a <= d1 <= dr NumR a
    /\ - dr NumR b <= d2 <= dr NumR b.
Proof. exact circle_overlap_is_two_segments. Qed.
Print Assumptions C02_circle_overlap_is_two_segments.


Theorem C02_copies_total_shapes :
  forall st : pstateR, total_shapes NumR st = Z.of_nat (copies st).
Proof. exact copies_total_shapes. Qed.
Print Assumptions C02_copies_total_shapes.


Theorem C02_cell_area_is_source :
  forall (NN : Num) (c : cell NN), gen_cell_area NN c = cell_area NN c.
Proof. exact cell_area_is_source. Qed.
Print Assumptions C02_cell_area_is_source.

Theorem C02_overlap_area_is_source :
  forall (NN : Num) (facos : carrier NN -> carrier NN) (r d : carrier NN), gen_overlap_area NN
    facos r d = overlap_area NN facos r d.
Proof. exact overlap_area_is_source. Qed.
Print Assumptions C02_overlap_area_is_source.

Theorem C02_circle_overlap_is_source :
  forall (NN : Num) (facos : carrier NN -> carrier NN) (a b : disc NN), gen_circle_overlap NN
    facos a b = circle_overlap NN facos a b.
Proof. exact circle_overlap_is_source. Qed.
Print Assumptions C02_circle_overlap_is_source.

Theorem C02_packed_score_is_source :
  forall (NN : Num) (st : pstate NN), gen_packed_score NN st = packed_score NN st.
Proof. exact packed_score_is_source. Qed.
Print Assumptions C02_packed_score_is_source.


Theorem C02_mol_trimer_is_source :
  forall (NN : Num) (fsin fcos : carrier NN -> carrier NN) (pi_ radius angle distance : carrier
    NN), gen_mol_trimer NN fsin fcos pi_ radius angle distance = mol_trimer NN pi_ fsin fcos
    radius angle distance.
Proof. exact mol_trimer_is_source. Qed.
Print Assumptions C02_mol_trimer_is_source.


Theorem C02_poly_area_is_source :
  forall (NN : Num) (angle_term : carrier NN) (l : list (seg NN)), poly_area NN angle_term l =
    fold_left (fun (acc : carrier NN) (p : seg NN) => (acc + gen_poly_term NN angle_term p)%num)
    l n0.
Proof. exact poly_area_is_source. Qed.
Print Assumptions C02_poly_area_is_source.

Theorem C02_angle_term_is_source :
  forall (NN : Num) (fsin : carrier NN -> carrier NN) (pi_ : carrier NN) (l : list (seg NN)),
    gen_angle_term NN fsin pi_ l = fsin (n2 * pi_ / nofZ (Z.of_nat (length l)))%num.
Proof. exact angle_term_is_source. Qed.
Print Assumptions C02_angle_term_is_source.


Theorem C02_check_intersection_is_source :
  forall (NN : Num) (st : pstate NN), gen_check_intersection NN st = check_intersection NN st.
Proof. exact check_intersection_is_source. Qed.
Print Assumptions C02_check_intersection_is_source.


Theorem S_poly_area_whole_is_source :
  forall (NN : Num) (fsin : carrier NN -> carrier NN) (pi_ : carrier NN) (l : list (seg NN)),
    gen_poly_area NN fsin pi_ l = poly_area NN (fsin (n2 * pi_ / nofZ (Z.of_nat (length
    l)))%num) l.
Proof. exact poly_area_whole_is_source. Qed.
Print Assumptions S_poly_area_whole_is_source.

Theorem S_mol_area_whole_is_source :
  forall (NN : Num) (facos : carrier NN -> carrier NN) (pi_ : carrier NN) (l : list (disc NN)),
    gen_mol_area NN facos pi_ l = mol_area NN facos pi_ l.
Proof. exact mol_area_whole_is_source. Qed.
Print Assumptions S_mol_area_whole_is_source.

Theorem S_total_shapes_is_source :
  forall (NN : Num) (st : pstate NN), Z.of_N (gen_total_shapes NN st) = total_shapes NN st.
Proof. exact total_shapes_is_source. Qed.
Print Assumptions S_total_shapes_is_source.

Theorem S_cell_sides_are_source :
  forall (NN : Num) (c : cell NN), gen_cell_a NN c = cell_a NN c /\ gen_cell_b NN c = cell_b NN
    c.
Proof. exact cell_sides_are_source. Qed.
Print Assumptions S_cell_sides_are_source.


Theorem C02_cell_source_translated :
  translated_gen_wrap = true /\ translated_gen_periodic_images = true /\
    translated_gen_positions = true /\ translated_gen_cell_a = true /\ translated_gen_cell_b =
    true /\ translated_gen_cell_area = true /\ translated_gen_to_cartesian = true.
Proof. exact cell_source_translated. Qed.
Print Assumptions C02_cell_source_translated.

Theorem C02_shapes_source_translated :
  translated_gen_mol_trimer = true /\ translated_gen_lj_trimer = true /\
    translated_gen_lj_energy = true /\ translated_gen_ljshape_energy = true /\
    translated_gen_disc_intersects = true /\ translated_gen_seg_intersects = true /\
    translated_gen_poly_intersects = true /\ translated_gen_mol_intersects = true /\
    translated_gen_radial_dtheta = true /\ translated_gen_radial_edge = true /\
    translated_gen_angle_term = true /\ translated_gen_poly_term = true /\
    translated_gen_poly_radius_term = true /\ translated_gen_mol_radius_term = true /\
    translated_gen_poly_radius = true /\ translated_gen_mol_radius = true /\
    translated_gen_poly_area = true /\ translated_gen_overlap_area = true /\
    translated_gen_circle_overlap = true /\ translated_gen_mol_area = true.
Proof. exact shapes_source_translated. Qed.
Print Assumptions C02_shapes_source_translated.

Theorem C02_state_source_translated :
  translated_gen_positions = true /\ translated_gen_total_shapes = true /\
    translated_gen_relative_positions = true /\ translated_gen_cartesian_positions = true /\
    translated_gen_lj_total_shapes = true /\ translated_gen_lj_relative_positions = true /\
    translated_gen_lj_cartesian_positions = true /\ translated_gen_density_precheck = true /\
    translated_gen_shells = true /\ translated_gen_radius_sq = true /\
    translated_gen_check_intersection = true /\ translated_gen_packed_score = true /\
    translated_gen_lj_score = true /\ translated_gen_lj_final = true.
Proof. exact state_source_translated. Qed.
Print Assumptions C02_state_source_translated.


Theorem C02_source_score_is_fraction :
  forall (st : pstateR) (s : R), gen_packed_score NumR st = Some s -> s = p_area NumR st * INR
    (length (p_sites NumR st) * length (p_syms NumR st)) / gen_cell_area NumR (p_cell NumR st)
    /\ gen_check_intersection NumR st = false.
Proof. exact source_score_is_fraction. Qed.
Print Assumptions C02_source_score_is_fraction.

