(* props/C01.v - C01: a scored hard packing has no overlapping shapes anywhere in the tiling (reals).
   - C01_scored_packing_all_pairs_checked: for EVERY pair of copies and EVERY lattice translate in Z^2
     the centres are further apart than 2R or the pair predicate was evaluated on that pair and said no
     (the computed shell count is sufficient: C01_far_image_is_far / C01_outside_shells_is_far);
   - C01_scored_disc_packing_has_no_overlap: for circle and trimer shapes this means no point of the
     plane is interior to two copies.  
   - C01_scored_convex_polygon_packing: for convex polygon shapes, two placed copies sharing an interior
     point are further apart than 2R or one has all its vertices strictly inside the other (uses the
     completeness of the polygon pair test, props/C12.v);
   - C01_scored_convex_shape_packing_no_overlap: with the radius the code computes, and convexity / closedness
     assumed of the SHAPE only (rigid placements keep them: C01_placed_convex), the far case is excluded too
     (C01_inside_within_radius: a closed convex polygon lies within the circle through its farthest vertex;
     C01_far_convex_polygons_disjoint): two placed copies share NO interior point, up to nesting;
   - C01_polygon_closed / C01_polygon_convex: the built-in regular polygon LineShape::polygon(n) (the model's
     `polygon`, compared with the code's items on every case) IS closed and convex for every n >= 3, so
     C01_scored_regular_polygon_packing_no_overlap has no premise about the shape left;
   - C01_regular_polygons_cannot_nest: two placed copies of a regular polygon cannot be nested (a point strictly
     inside a convex polygon is strictly nearer to the centre than its farthest vertex; the vertex directions
     of a regular polygon sum to zero), hence C01_scored_regular_polygon_packing_disjoint: in a scored state of
     regular polygons NO two placed copies - any pair, any lattice translate - share an interior point. *)
From Coq Require Import ZArith List Bool Reals Lra. Import ListNotations.
From PV Require Import Num NumR model.Geom proofs.LatticeFacts proofs.SiteFacts proofs.OverlapFacts proofs.ConvexFacts proofs.ShapeFacts proofs.EnclosedFacts proofs.PackingFacts proofs.PolygonFacts proofs.RadiusFacts proofs.PolygonPacking proofs.NoNesting.
From PV Require Import gen.GenFns model.Iter model.Pipeline proofs.ListLemmas proofs.CorShells proofs.SrcShapes proofs.SrcState.
From PV Require Import proofs.SourceHeadlines.

Theorem C01_scored_disc_packing_has_no_overlap :
  forall (st : pstateR) (l : list discR), wf_state st -> rigid_inputs st -> p_shape NumR st =
    Mol l -> enclosed (p_radius NumR st) l -> packed_score NumR st <> None -> forall (i j : nat)
    (n m : Z), i < copies st -> j < copies st -> ~ (i = j /\ n = 0%Z /\ m = 0%Z) -> forall p : R
    * R, ~ (in_mol (placed_mol (copy st i) l) p /\ in_mol (placed_mol (image st j n m) l) p).
Proof. exact scored_disc_packing_has_no_overlap. Qed.
Print Assumptions C01_scored_disc_packing_has_no_overlap.

Theorem C01_scored_packing_all_pairs_checked :
  forall st : pstateR, wf_state st -> packed_score NumR st <> None -> forall (i j : nat) (n m :
    Z), i < copies st -> j < copies st -> ~ (i = j /\ n = 0%Z /\ m = 0%Z) -> (sq NumR (p_radius
    NumR st * n2)%num < centre_dist2 (copy st i) (image st j n m))%R \/ shape_intersects NumR
    (shape_transform NumR (copy st i) (p_shape NumR st)) (shape_transform NumR (image st j n m)
    (p_shape NumR st)) = false.
Proof. exact scored_packing_all_pairs_checked. Qed.
Print Assumptions C01_scored_packing_all_pairs_checked.

Theorem C01_far_image_is_far :
  forall a b c s u v K D : R, (0 < a)%R -> (0 < b)%R -> (0 < s)%R -> (c * c + s * s)%R = 1%R ->
    (0 <= K)%R -> (0 <= D)%R -> (D <= K * (s * Rmin a b))%R -> (K < Rabs u)%R \/ (K < Rabs v)%R
    -> (D * D < (u * a + v * (b * c)) * (u * a + v * (b * c)) + v * (b * s) * (v * (b * s)))%R.
Proof. exact far_image_is_far. Qed.
Print Assumptions C01_far_image_is_far.

Theorem C01_outside_shells_is_far :
  forall (st : pstateR) (fxi fyi fxj fyj : R) (n m : Z), wf_state st -> (-1 / 2 <= fxi < 1 /
    2)%R -> (-1 / 2 <= fyi < 1 / 2)%R -> (-1 / 2 <= fxj < 1 / 2)%R -> (-1 / 2 <= fyj < 1 / 2)%R
    -> (shells_of NumR st < Z.abs n)%Z \/ (shells_of NumR st < Z.abs m)%Z -> forall x1 y1 x2 y2
    : R, to_cartesian NumR (p_cell NumR st) (fxi, fyi) = (x1, y1) -> to_cartesian NumR (p_cell
    NumR st) ((fxj + IZR n)%R, (fyj + IZR m)%R) = (x2, y2) -> (p_radius NumR st * 2 * (p_radius
    NumR st * 2) < (x1 - x2) * (x1 - x2) + (y1 - y2) * (y1 - y2))%R.
Proof. exact outside_shells_is_far. Qed.
Print Assumptions C01_outside_shells_is_far.

Theorem C01_far_molecules_disjoint :
  forall (t1 t2 : tfR) (l : list discR) (Rad : R) (p : R * R), affine_row t1 -> affine_row t2 ->
    rigid t1 -> rigid t2 -> enclosed Rad l -> (Rad * 2 * (Rad * 2) < dist2 (a02 NumR t1) (a12
    NumR t1) (a02 NumR t2) (a12 NumR t2))%R -> ~ (in_mol (placed_mol t1 l) p /\ in_mol
    (placed_mol t2 l) p).
Proof. exact far_molecules_disjoint. Qed.
Print Assumptions C01_far_molecules_disjoint.

Theorem C01_placement_rigid :
  forall (sym : tfR) (s : siteR), sym_row sym -> rigid sym -> (s_cos NumR s * s_cos NumR s +
    s_sin NumR s * s_sin NumR s)%R = 1%R -> rigid (placement sym s).
Proof. exact placement_rigid. Qed.
Print Assumptions C01_placement_rigid.

(* non-vacuity of the well-formedness premises: the p1 state of unit discs on TWO occupied sites in a 4 x 4 square cell *)
Example C01_premises_satisfiable :
  let st := @mkPstate NumR [tf_of_rows NumR (1, 0, 0) (0, 1, 0)]%R
                      [@mkSite NumR 0 0 1 0; @mkSite NumR (1/4) (-1/4) 0 1]%R (@mkCell NumR 4 1 0 1)%R
                      (Mol [@mkDisc NumR 0 0 1]%R) 1%R PI in
  wf_state st /\ rigid_inputs st /\ enclosed (p_radius NumR st) [@mkDisc NumR 0 0 1]%R /\ copies st = 2%nat.
Proof.
  cbv zeta. split; [|split; [|split]].
  - constructor; cbn; try lra. repeat constructor.
  - split; cbn; repeat constructor; cbn; lra.
  - constructor; [|constructor]. cbn. split; [lra|]. replace (0 * 0 + 0 * 0)%R with 0%R by ring. rewrite sqrt_0. lra.
  - reflexivity.
Qed.

Theorem C01_scored_convex_polygon_packing :
  forall (st : pstateR) (l : list segR), wf_state st -> p_shape NumR st = Poly l -> packed_score
    NumR st <> None -> forall (i j : nat) (n m : Z), i < copies st -> j < copies st -> ~ (i = j
    /\ n = 0%Z /\ m = 0%Z) -> let P := placed_poly (copy st i) l in let Q := placed_poly (image
    st j n m) l in forall sP sQ : R, convex sP P -> convex sQ Q -> closed P -> closed Q ->
    forall x : pt, strictly_inside sP P x -> strictly_inside sQ Q x -> (sq NumR (p_radius NumR
    st * n2)%num < centre_dist2 (copy st i) (image st j n m))%R \/ (forall e : segR, In e P ->
    strictly_inside sQ Q (seg_start e)) \/ (forall f : segR, In f Q -> strictly_inside sP P
    (seg_start f)).
Proof. exact scored_convex_polygon_packing. Qed.
Print Assumptions C01_scored_convex_polygon_packing.

Theorem C01_mol_radius_encloses :
  forall (fmin_ : R) (l : list discR), Forall (fun d : discR => (0 < dr NumR d)%R) l -> enclosed
    (mol_radius NumR fmin_ l) l.
Proof. exact mol_radius_encloses. Qed.
Print Assumptions C01_mol_radius_encloses.

Theorem C01_poly_radius_encloses :
  forall (fmin_ : R) (l : list segR) (e : segR), In e l -> (sqrt (sx1 NumR e * sx1 NumR e + sy1
    NumR e * sy1 NumR e) <= poly_radius NumR fmin_ l)%R.
Proof. exact poly_radius_encloses. Qed.
Print Assumptions C01_poly_radius_encloses.

Theorem C01_scored_disc_packing_computed_radius :
  forall (st : pstateR) (l : list discR) (fmin_ : R), wf_state st -> rigid_inputs st -> p_shape
    NumR st = Mol l -> Forall (fun d : discR => (0 < dr NumR d)%R) l -> p_radius NumR st =
    shape_radius NumR fmin_ (p_shape NumR st) -> packed_score NumR st <> None -> forall (i j :
    nat) (n m : Z), i < copies st -> j < copies st -> ~ (i = j /\ n = 0%Z /\ m = 0%Z) -> forall
    p : R * R, ~ (in_mol (placed_mol (copy st i) l) p /\ in_mol (placed_mol (image st j n m) l)
    p).
Proof. exact scored_disc_packing_has_no_overlap_computed_radius. Qed.
Print Assumptions C01_scored_disc_packing_computed_radius.

Theorem C01_inside_within_radius :
  forall (sigma : R) (P : list segR) (c x : pt) (Rad : R), convex sigma P -> closed P -> P <> []
    -> (0 <= Rad)%R -> (forall e : segR, In e P -> ((fst (seg_start e) - fst c) * (fst
    (seg_start e) - fst c) + (snd (seg_start e) - snd c) * (snd (seg_start e) - snd c) <= Rad *
    Rad)%R) -> strictly_inside sigma P x -> ((fst x - fst c) * (fst x - fst c) + (snd x - snd c)
    * (snd x - snd c) <= Rad * Rad)%R.
Proof. exact inside_within_radius. Qed.
Print Assumptions C01_inside_within_radius.

Theorem C01_far_convex_polygons_disjoint :
  forall (sP sQ : R) (P Q : list segR) (cP cQ x : pt) (Rad : R), convex sP P -> convex sQ Q ->
    closed P -> closed Q -> P <> [] -> Q <> [] -> (0 <= Rad)%R -> (forall e : segR, In e P ->
    ((fst (seg_start e) - fst cP) * (fst (seg_start e) - fst cP) + (snd (seg_start e) - snd cP)
    * (snd (seg_start e) - snd cP) <= Rad * Rad)%R) -> (forall e : segR, In e Q -> ((fst
    (seg_start e) - fst cQ) * (fst (seg_start e) - fst cQ) + (snd (seg_start e) - snd cQ) * (snd
    (seg_start e) - snd cQ) <= Rad * Rad)%R) -> (Rad * 2 * (Rad * 2) < (fst cP - fst cQ) * (fst
    cP - fst cQ) + (snd cP - snd cQ) * (snd cP - snd cQ))%R -> ~ (strictly_inside sP P x /\
    strictly_inside sQ Q x).
Proof. exact far_convex_polygons_disjoint. Qed.
Print Assumptions C01_far_convex_polygons_disjoint.

Theorem C01_scored_convex_polygon_packing_no_overlap :
  forall (st : pstateR) (l : list segR) (fmin_ : R), wf_state st -> rigid_inputs st -> p_shape
    NumR st = Poly l -> l <> [] -> p_radius NumR st = shape_radius NumR fmin_ (p_shape NumR st)
    -> packed_score NumR st <> None -> forall (i j : nat) (n m : Z), i < copies st -> j < copies
    st -> ~ (i = j /\ n = 0%Z /\ m = 0%Z) -> let P := placed_poly (copy st i) l in let Q :=
    placed_poly (image st j n m) l in forall sP sQ : R, convex sP P -> convex sQ Q -> closed P
    -> closed Q -> forall x : pt, strictly_inside sP P x -> strictly_inside sQ Q x -> (forall e
    : segR, In e P -> strictly_inside sQ Q (seg_start e)) \/ (forall f : segR, In f Q ->
    strictly_inside sP P (seg_start f)).
Proof. exact scored_convex_polygon_packing_no_overlap. Qed.
Print Assumptions C01_scored_convex_polygon_packing_no_overlap.

Theorem C01_scored_convex_shape_packing_no_overlap :
  forall (st : pstateR) (l : list segR) (fmin_ sigma : R), wf_state st -> rigid_inputs st ->
    p_shape NumR st = Poly l -> l <> [] -> convex sigma l -> closed l -> p_radius NumR st =
    shape_radius NumR fmin_ (p_shape NumR st) -> packed_score NumR st <> None -> forall (i j :
    nat) (n m : Z), i < copies st -> j < copies st -> ~ (i = j /\ n = 0%Z /\ m = 0%Z) -> let P
    := placed_poly (copy st i) l in let Q := placed_poly (image st j n m) l in forall x : pt,
    strictly_inside (sigma * det2 (copy st i)) P x -> strictly_inside (sigma * det2 (image st j
    n m)) Q x -> (forall e : segR, In e P -> strictly_inside (sigma * det2 (image st j n m)) Q
    (seg_start e)) \/ (forall f : segR, In f Q -> strictly_inside (sigma * det2 (copy st i)) P
    (seg_start f)).
Proof. exact scored_convex_shape_packing_no_overlap. Qed.
Print Assumptions C01_scored_convex_shape_packing_no_overlap.

Theorem C01_placed_convex :
  forall (sigma : R) (t : tfR) (l : list segR), affine_row t -> rigid t -> convex sigma l ->
    convex (sigma * det2 t) (placed_poly t l).
Proof. exact placed_convex. Qed.
Print Assumptions C01_placed_convex.

Theorem C01_polygon_closed :
  forall n : nat, 3 <= n -> closed (polygon NumR PI sin cos n).
Proof. exact polygon_closed. Qed.
Print Assumptions C01_polygon_closed.

Theorem C01_polygon_convex :
  forall n : nat, 3 <= n -> convex (-1) (polygon NumR PI sin cos n).
Proof. exact polygon_convex. Qed.
Print Assumptions C01_polygon_convex.

Theorem C01_scored_regular_polygon_packing_no_overlap :
  forall (st : pstateR) (n : nat) (fmin_ : R), 3 <= n -> wf_state st -> rigid_inputs st ->
    p_shape NumR st = Poly (polygon NumR PI sin cos n) -> p_radius NumR st = shape_radius NumR
    fmin_ (p_shape NumR st) -> packed_score NumR st <> None -> forall (i j : nat) (a b : Z), i <
    copies st -> j < copies st -> ~ (i = j /\ a = 0%Z /\ b = 0%Z) -> let l := polygon NumR PI
    sin cos n in let P := placed_poly (copy st i) l in let Q := placed_poly (image st j a b) l
    in forall x : pt, strictly_inside (-1 * det2 (copy st i)) P x -> strictly_inside (-1 * det2
    (image st j a b)) Q x -> (forall e : segR, In e P -> strictly_inside (-1 * det2 (image st j
    a b)) Q (seg_start e)) \/ (forall f : segR, In f Q -> strictly_inside (-1 * det2 (copy st
    i)) P (seg_start f)).
Proof. exact scored_regular_polygon_packing_no_overlap. Qed.
Print Assumptions C01_scored_regular_polygon_packing_no_overlap.

Theorem C01_scored_regular_polygon_packing_disjoint :
  forall (st : pstateR) (n : nat) (fmin_ : R), 3 <= n -> wf_state st -> rigid_inputs st ->
    p_shape NumR st = Poly (polygon NumR PI sin cos n) -> p_radius NumR st = shape_radius NumR
    fmin_ (p_shape NumR st) -> packed_score NumR st <> None -> forall (i j : nat) (a b : Z), i <
    copies st -> j < copies st -> ~ (i = j /\ a = 0%Z /\ b = 0%Z) -> let l := polygon NumR PI
    sin cos n in forall x : pt, ~ (strictly_inside (-1 * det2 (copy st i)) (placed_poly (copy st
    i) l) x /\ strictly_inside (-1 * det2 (image st j a b)) (placed_poly (image st j a b) l) x).
Proof. exact scored_regular_polygon_packing_disjoint. Qed.
Print Assumptions C01_scored_regular_polygon_packing_disjoint.

Theorem C01_regular_polygons_cannot_nest :
  forall (n : nat) (t1 t2 : tfR), 3 <= n -> affine_row t1 -> rigid t1 -> affine_row t2 -> rigid
    t2 -> let l := polygon NumR PI sin cos n in ~ (forall f : segR, In f (placed_poly t2 l) ->
    strictly_inside (-1 * det2 t1) (placed_poly t1 l) (seg_start f)).
Proof. exact regular_polygons_cannot_nest. Qed.
Print Assumptions C01_regular_polygons_cannot_nest.

Theorem C01_inside_strictly_within_radius :
  forall (sigma : R) (P : list segR) (c x : pt) (Rad : R), convex sigma P -> closed P -> P <> []
    -> (0 <= Rad)%R -> (forall e : segR, In e P -> ((fst (seg_start e) - fst c) * (fst
    (seg_start e) - fst c) + (snd (seg_start e) - snd c) * (snd (seg_start e) - snd c) <= Rad *
    Rad)%R) -> strictly_inside sigma P x -> ((fst x - fst c) * (fst x - fst c) + (snd x - snd c)
    * (snd x - snd c) < Rad * Rad)%R.
Proof. exact inside_strictly_within_radius. Qed.
Print Assumptions C01_inside_strictly_within_radius.


Theorem C01_copies_count :
  forall st : pstateR, copies st = length (p_sites NumR st) * length (p_syms NumR st).
Proof. exact copies_count. Qed.
Print Assumptions C01_copies_count.

Theorem C01_copies_single_site :
  forall (st : pstateR) (s : siteR), p_sites NumR st = [s] -> copies st = length (p_syms NumR
    st) /\ relative_positions NumR st = positions NumR (p_syms NumR st) s.
Proof. exact copies_single_site. Qed.
Print Assumptions C01_copies_single_site.

Theorem C01_every_copy_is_a_placement :
  forall (st : pstateR) (p : tfR), In p (relative_positions NumR st) -> exists (sym : tfR) (s :
    siteR), In sym (p_syms NumR st) /\ In s (p_sites NumR st) /\ p = placement sym s.
Proof. exact rel_members. Qed.
Print Assumptions C01_every_copy_is_a_placement.


Theorem C01_density_precheck_is_source :
  forall (NN : Num) (st : pstate NN), gen_density_precheck NN st = density_precheck NN st.
Proof. exact density_precheck_is_source. Qed.
Print Assumptions C01_density_precheck_is_source.

Theorem C01_shells_is_source :
  forall (NN : Num) (st : pstate NN), gen_shells NN st = shells_of NN st.
Proof. exact shells_is_source. Qed.
Print Assumptions C01_shells_is_source.

Theorem C01_radius_sq_is_source :
  forall (NN : Num) (st : pstate NN), gen_radius_sq NN st = sq NN (p_radius NN st * n2)%num.
Proof. exact radius_sq_is_source. Qed.
Print Assumptions C01_radius_sq_is_source.

Theorem C01_packed_score_is_source :
  forall (NN : Num) (st : pstate NN), gen_packed_score NN st = packed_score NN st.
Proof. exact packed_score_is_source. Qed.
Print Assumptions C01_packed_score_is_source.



Theorem C01_poly_radius_is_source :
  forall (NN : Num) (fmin_ : carrier NN) (l : list (seg NN)), poly_radius NN fmin_ l = fold_left
    (fun (acc : carrier NN) (p : seg NN) => nmax acc (gen_poly_radius_term NN p)) l fmin_.
Proof. exact poly_radius_is_source. Qed.
Print Assumptions C01_poly_radius_is_source.

Theorem C01_mol_radius_is_source :
  forall (NN : Num) (fmin_ : carrier NN) (l : list (disc NN)), mol_radius NN fmin_ l = fold_left
    (fun (acc : carrier NN) (p : disc NN) => nmax acc (gen_mol_radius_term NN p)) l fmin_.
Proof. exact mol_radius_is_source. Qed.
Print Assumptions C01_mol_radius_is_source.


Theorem C01_source_shell_count_suffices :
  forall (st : pstateR) (fxi fyi fxj fyj : R) (n m : Z), wf_state st -> (-1 / 2 <= fxi < 1 /
    2)%R -> (-1 / 2 <= fyi < 1 / 2)%R -> (-1 / 2 <= fxj < 1 / 2)%R -> (-1 / 2 <= fyj < 1 / 2)%R
    -> (gen_shells NumR st < Z.abs n)%Z \/ (gen_shells NumR st < Z.abs m)%Z -> forall x1 y1 x2
    y2 : R, to_cartesian NumR (p_cell NumR st) (fxi, fyi) = (x1, y1) -> to_cartesian NumR
    (p_cell NumR st) ((fxj + IZR n)%R, (fyj + IZR m)%R) = (x2, y2) -> (gen_radius_sq NumR st <
    (x1 - x2) * (x1 - x2) + (y1 - y2) * (y1 - y2))%R.
Proof. exact source_shell_count_suffices. Qed.
Print Assumptions C01_source_shell_count_suffices.


Theorem C01_check_intersection_is_source :
  forall (NN : Num) (st : pstate NN), gen_check_intersection NN st = check_intersection NN st.
Proof. exact check_intersection_is_source. Qed.
Print Assumptions C01_check_intersection_is_source.


Theorem S_radial_edge_is_source :
  forall (NN : Num) (fsin fcos : carrier NN -> carrier NN) (dtheta : carrier NN) (index : nat)
    (r1 r2 : carrier NN), gen_radial_edge NN fsin fcos dtheta index r1 r2 = radial_edge NN fsin
    fcos dtheta index r1 r2.
Proof. exact radial_edge_is_source. Qed.
Print Assumptions S_radial_edge_is_source.

Theorem S_from_radial_is_source :
  forall (NN : Num) (fsin fcos : carrier NN -> carrier NN) (pi_ : carrier NN) (points : list
    (carrier NN)), from_radial NN pi_ fsin fcos points = map (fun ir : nat * (carrier NN *
    carrier NN) => gen_radial_edge NN fsin fcos (gen_radial_dtheta NN pi_ points) (fst ir) (fst
    (snd ir)) (snd (snd ir))) (combine (seq 0 (length points)) (combine points (rotate1
    points))).
Proof. exact from_radial_is_source. Qed.
Print Assumptions S_from_radial_is_source.


Theorem S_shape_intersects_is_source :
  forall (NN : Num) (l m : list (seg NN)) (a b : list (disc NN)), gen_poly_intersects NN l m =
    shape_intersects NN (Poly l) (Poly m) /\ gen_mol_intersects NN a b = shape_intersects NN
    (Mol a) (Mol b).
Proof. exact shape_intersects_is_source. Qed.
Print Assumptions S_shape_intersects_is_source.

Theorem S_enclosing_radius_is_source :
  forall (NN : Num) (fmin_ : carrier NN) (l : list (seg NN)) (m : list (disc NN)),
    gen_poly_radius NN fmin_ l = poly_radius NN fmin_ l /\ gen_mol_radius NN fmin_ m =
    mol_radius NN fmin_ m.
Proof. exact enclosing_radius_is_source. Qed.
Print Assumptions S_enclosing_radius_is_source.

Theorem S_state_positions_are_source :
  forall (NN : Num) (st : pstate NN), gen_relative_positions NN st = relative_positions NN st /\
    gen_cartesian_positions NN st = cartesian_positions NN st.
Proof. exact state_positions_are_source. Qed.
Print Assumptions S_state_positions_are_source.

Theorem S_total_shapes_is_source :
  forall (NN : Num) (st : pstate NN), Z.of_N (gen_total_shapes NN st) = total_shapes NN st.
Proof. exact total_shapes_is_source. Qed.
Print Assumptions S_total_shapes_is_source.


Theorem C01_shapes_source_translated :
  translated_gen_mol_trimer = true /\ translated_gen_lj_trimer = true /\
    translated_gen_lj_energy = true /\ translated_gen_ljshape_energy = true /\
    translated_gen_disc_intersects = true /\ translated_gen_seg_intersects = true /\
    translated_gen_poly_intersects = true /\ translated_gen_mol_intersects = true /\
    translated_gen_radial_dtheta = true /\ translated_gen_radial_edge = true /\
    translated_gen_angle_term = true /\ translated_gen_poly_term = true /\
    translated_gen_poly_radius_term = true /\ translated_gen_mol_radius_term = true /\
    translated_gen_poly_radius = true /\ translated_gen_mol_radius = true /\
    translated_gen_poly_area = true /\ translated_gen_overlap_area = true /\
    translated_gen_circle_overlap = true /\ translated_gen_mol_area = true.
Proof. exact shapes_source_translated. Qed.
Print Assumptions C01_shapes_source_translated.

Theorem C01_state_source_translated :
  translated_gen_positions = true /\ translated_gen_total_shapes = true /\
    translated_gen_relative_positions = true /\ translated_gen_cartesian_positions = true /\
    translated_gen_lj_total_shapes = true /\ translated_gen_lj_relative_positions = true /\
    translated_gen_lj_cartesian_positions = true /\ translated_gen_density_precheck = true /\
    translated_gen_shells = true /\ translated_gen_radius_sq = true /\
    translated_gen_check_intersection = true /\ translated_gen_packed_score = true /\
    translated_gen_lj_score = true /\ translated_gen_lj_final = true.
Proof. exact state_source_translated. Qed.
Print Assumptions C01_state_source_translated.


Theorem C01_source_scored_disc_packing_has_no_overlap :
  forall (st : pstateR) (l : list discR) (fmin_ : R), wf_state st -> rigid_inputs st -> p_shape
    NumR st = Mol l -> Forall (fun d : discR => (0 < dr NumR d)%R) l -> p_radius NumR st =
    gen_mol_radius NumR fmin_ l -> gen_packed_score NumR st <> None -> forall (i j : nat) (n m :
    Z), i < copies st -> j < copies st -> ~ (i = j /\ n = 0%Z /\ m = 0%Z) -> forall p : R * R, ~
    (in_mol (placed_mol (copy st i) l) p /\ in_mol (placed_mol (image st j n m) l) p).
Proof. exact source_scored_disc_packing_has_no_overlap. Qed.
Print Assumptions C01_source_scored_disc_packing_has_no_overlap.

