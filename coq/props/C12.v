(* props/C12.v - C12: the pairwise overlap test against exact geometry (reals).
   Proved: a reported segment/polygon intersection is a common point of two edges (never yes for
   separated polygons); the disc and disc-molecule tests are EXACT (yes iff the open discs share a point);
   every test gives the same answer with the arguments swapped.
   Completeness for convex polygons (C12_convex_overlap_detected): two closed convex polygons with a common
   interior point, neither with all its vertices strictly inside the other, have an edge pair satisfying
   the segment predicate - so the polygon test says yes (C12_exit_through_an_edge is the key step;
   C12_hypotheses_satisfiable shows the hypotheses are met by two overlapping squares).
   Invariance (C12_shape_intersects_rigid_invariant): every shape test gives the same answer after one common
   rigid motion or reflection of both shapes; the segment / polygon test even after any invertible affine map
   (all three determinants of Line2::intersects scale by the map's determinant).
   The known findings D12/D13 show that in binary64 completeness and invariance fail at exactly aligned
   configurations (the reals theorems do not). *)
From Coq Require Import ZArith List Bool Reals. Import ListNotations.
From PV Require Import Num NumR model.Geom proofs.LatticeFacts proofs.SiteFacts proofs.OverlapFacts proofs.ConvexFacts proofs.PackingFacts proofs.MotionFacts.
From PV Require Import gen.GenFns model.Iter model.Pipeline proofs.ListLemmas proofs.SrcShapes.
From PV Require Import proofs.SourceHeadlinesShapes.

Theorem C12_seg_yes_gives_common_point :
  forall s o : segR, seg_intersects NumR s o = true -> exists ta tb : R, (0 <= ta <= 1)%R /\ (0
    <= tb <= 1)%R /\ (sx1 NumR s + ta * (sx2 NumR s - sx1 NumR s))%R = (sx1 NumR o + tb * (sx2
    NumR o - sx1 NumR o))%R /\ (sy1 NumR s + ta * (sy2 NumR s - sy1 NumR s))%R = (sy1 NumR o +
    tb * (sy2 NumR o - sy1 NumR o))%R.
Proof. exact seg_yes_gives_common_point. Qed.
Print Assumptions C12_seg_yes_gives_common_point.

Theorem C12_poly_yes_gives_common_point :
  forall l m : list segR, shape_intersects NumR (Poly l) (Poly m) = true -> exists (s o : segR)
    (ta tb : R), In s l /\ In o m /\ (0 <= ta <= 1)%R /\ (0 <= tb <= 1)%R /\ (sx1 NumR s + ta *
    (sx2 NumR s - sx1 NumR s))%R = (sx1 NumR o + tb * (sx2 NumR o - sx1 NumR o))%R /\ (sy1 NumR
    s + ta * (sy2 NumR s - sy1 NumR s))%R = (sy1 NumR o + tb * (sy2 NumR o - sy1 NumR o))%R.
Proof. exact poly_yes_gives_common_point. Qed.
Print Assumptions C12_poly_yes_gives_common_point.

Theorem C12_disc_test_exact :
  forall a b : discR, (0 < dr NumR a)%R -> (0 < dr NumR b)%R -> disc_intersects NumR a b = true
    <-> (exists p : R * R, in_disc a p /\ in_disc b p).
Proof. exact disc_test_exact. Qed.
Print Assumptions C12_disc_test_exact.

Theorem C12_mol_test_exact :
  forall l m : list discR, Forall (fun d : discR => (0 < dr NumR d)%R) l -> Forall (fun d :
    discR => (0 < dr NumR d)%R) m -> shape_intersects NumR (Mol l) (Mol m) = true <-> (exists p
    : R * R, in_mol l p /\ in_mol m p).
Proof. exact mol_test_exact. Qed.
Print Assumptions C12_mol_test_exact.

Theorem C12_seg_intersects_sym :
  forall s o : segR, seg_intersects NumR s o = seg_intersects NumR o s.
Proof. exact seg_intersects_sym. Qed.
Print Assumptions C12_seg_intersects_sym.

Theorem C12_disc_intersects_sym :
  forall a b : discR, disc_intersects NumR a b = disc_intersects NumR b a.
Proof. exact disc_intersects_sym. Qed.
Print Assumptions C12_disc_intersects_sym.

Theorem C12_shape_intersects_sym :
  forall a b : shape NumR, shape_intersects NumR a b = shape_intersects NumR b a.
Proof. exact shape_intersects_sym. Qed.
Print Assumptions C12_shape_intersects_sym.

Theorem C12_seg_intersects_spec :
  forall s o : segR, seg_intersects NumR s o = true <-> den s o <> 0%R /\ (0 <= numa s o / den s
    o <= 1)%R /\ (0 <= numb s o / den s o <= 1)%R.
Proof. exact seg_intersects_spec. Qed.
Print Assumptions C12_seg_intersects_spec.

Theorem C12_convex_overlap_detected :
  forall (sP sQ : R) (P Q : list segR) (x : pt), convex sP P -> convex sQ Q -> closed P ->
    closed Q -> strictly_inside sP P x -> strictly_inside sQ Q x -> (exists e : segR, In e P /\
    ~ strictly_inside sQ Q (seg_start e)) -> (exists f : segR, In f Q /\ ~ strictly_inside sP P
    (seg_start f)) -> shape_intersects NumR (Poly P) (Poly Q) = true.
Proof. exact convex_overlap_detected. Qed.
Print Assumptions C12_convex_overlap_detected.

Theorem C12_exit_through_an_edge :
  forall (sigma : R) (Q : list segR) (p0 p1 : pt), convex sigma Q -> strictly_inside sigma Q p0
    -> (exists e : segR, In e Q /\ (side sigma e p1 <= 0)%R) -> exists (e : segR) (t s : R), In
    e Q /\ (0 < t <= 1)%R /\ (0 <= s <= 1)%R /\ lerp p0 p1 t = lerp (seg_start e) (seg_end e) s
    /\ (0 < side sigma e p0)%R /\ (side sigma e p1 <= 0)%R /\ inside_closed sigma Q (lerp p0 p1
    t).
Proof. exact exit_through_an_edge. Qed.
Print Assumptions C12_exit_through_an_edge.

Theorem C12_hypotheses_satisfiable :
  let P := square 0 0 in let Q := square (1 / 2) (1 / 2) in convex 1 P /\ convex 1 Q /\ closed P
    /\ closed Q /\ strictly_inside 1 P ((3 / 4)%R, (3 / 4)%R) /\ strictly_inside 1 Q ((3 / 4)%R,
    (3 / 4)%R) /\ (exists e : segR, In e P /\ ~ strictly_inside 1 Q (seg_start e)) /\ (exists f
    : segR, In f Q /\ ~ strictly_inside 1 P (seg_start f)) /\ shape_intersects NumR (Poly P)
    (Poly Q) = true.
Proof. exact overlapping_squares_meet_the_hypotheses. Qed.
Print Assumptions C12_hypotheses_satisfiable.

Theorem C12_seg_intersects_affine_invariant :
  forall (t : tfR) (s o : segR), affine_row t -> det2 t <> 0%R -> seg_intersects NumR
    (seg_transform NumR t s) (seg_transform NumR t o) = seg_intersects NumR s o.
Proof. exact seg_intersects_affine_invariant. Qed.
Print Assumptions C12_seg_intersects_affine_invariant.

Theorem C12_shape_intersects_rigid_invariant :
  forall (t : tfR) (a b : shape NumR), affine_row t -> rigid t -> shape_intersects NumR
    (shape_transform NumR t a) (shape_transform NumR t b) = shape_intersects NumR a b.
Proof. exact shape_intersects_rigid_invariant. Qed.
Print Assumptions C12_shape_intersects_rigid_invariant.

Theorem C12_poly_intersects_affine_invariant :
  forall (t : tfR) (l m : list segR), affine_row t -> det2 t <> 0%R -> shape_intersects NumR
    (shape_transform NumR t (Poly l)) (shape_transform NumR t (Poly m)) = shape_intersects NumR
    (Poly l) (Poly m).
Proof. exact poly_intersects_affine_invariant. Qed.
Print Assumptions C12_poly_intersects_affine_invariant.


Theorem C12_disc_intersects_is_source :
  forall (NN : Num) (a b : disc NN), gen_disc_intersects NN a b = disc_intersects NN a b.
Proof. exact disc_intersects_is_source. Qed.
Print Assumptions C12_disc_intersects_is_source.

Theorem C12_seg_intersects_is_source :
  forall (NN : Num) (s o : seg NN), gen_seg_intersects NN s o = seg_intersects NN s o.
Proof. exact seg_intersects_is_source. Qed.
Print Assumptions C12_seg_intersects_is_source.



Theorem S_radial_edge_is_source :
  forall (NN : Num) (fsin fcos : carrier NN -> carrier NN) (dtheta : carrier NN) (index : nat)
    (r1 r2 : carrier NN), gen_radial_edge NN fsin fcos dtheta index r1 r2 = radial_edge NN fsin
    fcos dtheta index r1 r2.
Proof. exact radial_edge_is_source. Qed.
Print Assumptions S_radial_edge_is_source.

Theorem S_from_radial_is_source :
  forall (NN : Num) (fsin fcos : carrier NN -> carrier NN) (pi_ : carrier NN) (points : list
    (carrier NN)), from_radial NN pi_ fsin fcos points = map (fun ir : nat * (carrier NN *
    carrier NN) => gen_radial_edge NN fsin fcos (gen_radial_dtheta NN pi_ points) (fst ir) (fst
    (snd ir)) (snd (snd ir))) (combine (seq 0 (length points)) (combine points (rotate1
    points))).
Proof. exact from_radial_is_source. Qed.
Print Assumptions S_from_radial_is_source.


Theorem S_shape_intersects_is_source :
  forall (NN : Num) (l m : list (seg NN)) (a b : list (disc NN)), gen_poly_intersects NN l m =
    shape_intersects NN (Poly l) (Poly m) /\ gen_mol_intersects NN a b = shape_intersects NN
    (Mol a) (Mol b).
Proof. exact shape_intersects_is_source. Qed.
Print Assumptions S_shape_intersects_is_source.


Theorem C12_shapes_source_translated :
  translated_gen_mol_trimer = true /\ translated_gen_lj_trimer = true /\
    translated_gen_lj_energy = true /\ translated_gen_ljshape_energy = true /\
    translated_gen_disc_intersects = true /\ translated_gen_seg_intersects = true /\
    translated_gen_poly_intersects = true /\ translated_gen_mol_intersects = true /\
    translated_gen_radial_dtheta = true /\ translated_gen_radial_edge = true /\
    translated_gen_angle_term = true /\ translated_gen_poly_term = true /\
    translated_gen_poly_radius_term = true /\ translated_gen_mol_radius_term = true /\
    translated_gen_poly_radius = true /\ translated_gen_mol_radius = true /\
    translated_gen_poly_area = true /\ translated_gen_overlap_area = true /\
    translated_gen_circle_overlap = true /\ translated_gen_mol_area = true.
Proof. exact shapes_source_translated. Qed.
Print Assumptions C12_shapes_source_translated.


Theorem C12_source_mol_test_exact :
  forall l m : list discR, Forall (fun d : discR => (0 < dr NumR d)%R) l -> Forall (fun d :
    discR => (0 < dr NumR d)%R) m -> gen_mol_intersects NumR l m = true <-> (exists p : R * R,
    in_mol l p /\ in_mol m p).
Proof. exact source_mol_test_exact. Qed.
Print Assumptions C12_source_mol_test_exact.

Theorem C12_source_poly_yes_gives_common_point :
  forall l m : list segR, gen_poly_intersects NumR l m = true -> exists (s o : segR) (ta tb :
    R), In s l /\ In o m /\ (0 <= ta <= 1)%R /\ (0 <= tb <= 1)%R /\ (sx1 NumR s + ta * (sx2 NumR
    s - sx1 NumR s))%R = (sx1 NumR o + tb * (sx2 NumR o - sx1 NumR o))%R /\ (sy1 NumR s + ta *
    (sy2 NumR s - sy1 NumR s))%R = (sy1 NumR o + tb * (sy2 NumR o - sy1 NumR o))%R.
Proof. exact source_poly_yes_gives_common_point. Qed.
Print Assumptions C12_source_poly_yes_gives_common_point.

Theorem C12_source_convex_overlap_detected :
  forall (sP sQ : R) (P Q : list segR) (x : pt), convex sP P -> convex sQ Q -> closed P ->
    closed Q -> strictly_inside sP P x -> strictly_inside sQ Q x -> (exists e : segR, In e P /\
    ~ strictly_inside sQ Q (seg_start e)) -> (exists f : segR, In f Q /\ ~ strictly_inside sP P
    (seg_start f)) -> gen_poly_intersects NumR P Q = true.
Proof. exact source_convex_overlap_detected. Qed.
Print Assumptions C12_source_convex_overlap_detected.

