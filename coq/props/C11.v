(* props/C11.v - C11: output is faithful: JSON round-trips and the SVG shows the same structure (PARTIAL:
   the text layer - serde_json, ryu, the svg crate's writer - is modelled, not verified). *)
From Coq Require Import ZArith NArith List Bool Reals Floats String. Import ListNotations.
From PV Require Import Num NumR model.Tables model.Spec model.Geom model.Optimiser model.OptSpec model.Pipeline model.Svg model.Json gen.GenTables gen.GenSchema proofs.OptStruct proofs.OptLoop proofs.LatticeFacts proofs.TablesFacts proofs.PipelineFacts proofs.OutputFacts.
From PV Require Import gen.GenFns model.Iter model.Pipeline proofs.ListLemmas proofs.SvgSource.
From PV Require Import gen.GenFns proofs.SvgSource.

Theorem C11_json_roundtrip :
  forall s : jstate, decode (encode s) = Some s.
Proof. exact json_roundtrip. Qed.
Print Assumptions C11_json_roundtrip.

Theorem C11_json_reserialise :
  forall s s' : jstate, decode (encode s) = Some s' -> encode s' = encode s.
Proof. exact json_reserialise. Qed.
Print Assumptions C11_json_reserialise.

Theorem C11_schema_is_model_schema :
  forallb schema_matches gen_schema = true.
Proof. exact schema_is_model_schema. Qed.
Print Assumptions C11_schema_is_model_schema.

Theorem C11_svg_matrix_faithful :
  forall (t : tfR) (p : R * R), affine_row t -> svg_apply NumR (emit NumR t) p = tf_apply NumR t
    p.
Proof. exact svg_matrix_faithful. Qed.
Print Assumptions C11_svg_matrix_faithful.

Theorem C11_svg_emit_order_matches_code :
  gen_svg_probe = [2%Z; 7%Z; 3%Z; 11%Z; 5%Z; 13%Z].
Proof. exact svg_emit_order_matches_code. Qed.
Print Assumptions C11_svg_emit_order_matches_code.

Theorem C11_svg_uses_are_placements :
  forall (c : cellR) (rel : list tfR), Forall affine_row rel -> svg_mol_uses NumR c rel =
    flat_map (fun pos : tfR => to_cartesian_isometry NumR c pos :: map (fun nm : Z * Z =>
    tf_translate (to_cartesian_isometry NumR c pos) (lattice_vec c (fst nm) (snd nm)))
    (shell_indices 1 false)) rel.
Proof. exact svg_uses_are_placements. Qed.
Print Assumptions C11_svg_uses_are_placements.

Theorem C11_svg_neighbour_indices :
  shell_indices 1 false = [((-1)%Z, (-1)%Z); ((-1)%Z, 0%Z); ((-1)%Z, 1%Z); (0%Z, (-1)%Z); (0%Z,
    1%Z); (1%Z, (-1)%Z); (1%Z, 0%Z); (1%Z, 1%Z)].
Proof. exact svg_neighbour_indices. Qed.
Print Assumptions C11_svg_neighbour_indices.


Theorem C11_svg_entries_are_source :
  forall (NN : Num) (t : tf NN), emit NN t = map (tf_entry NN t) gen_svg_entries /\
    gen_svg_format = "matrix({0} {1} {2} {3} {4} {5})"%string.
Proof. exact svg_entries_are_source. Qed.
Print Assumptions C11_svg_entries_are_source.



Theorem S_svg_uses_are_source :
  forall (NN : Num) (st : pstate NN) (lst : ljstate NN), gen_svg_uses NN st = svg_elements NN
    (p_cell NN st) (relative_positions NN st) /\ gen_lj_svg_uses NN lst = svg_elements NN
    (l_cell NN lst) (lj_relative NN lst).
Proof. exact svg_uses_are_source. Qed.
Print Assumptions S_svg_uses_are_source.

Theorem S_svg_elements_placements :
  forall (NN : Num) (c : cell NN) (rel : list (tf NN)), map fst (svg_elements NN c rel) =
    svg_cell_uses NN c ++ svg_mol_uses NN c rel.
Proof. exact svg_elements_placements. Qed.
Print Assumptions S_svg_elements_placements.


Theorem C11_svg_source_translated :
  translated_gen_svg_uses = true /\ translated_gen_lj_svg_uses = true /\
    translated_gen_svg_entries = true.
Proof. exact svg_source_translated. Qed.
Print Assumptions C11_svg_source_translated.

