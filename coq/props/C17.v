(* props/C17.v - C17: symmetry-operation strings parse to the affine map they denote.
   Grammar (proofs/ParseFacts.v): a component is a non-empty list of signed terms x, y, d, d/d'
   (d' <> 0), each kind at most once; rendering allows arbitrary spaces, an optional '+', and an
   operation is two components separated by ',' inside any number of outer parentheses. *)
From Coq Require Import ZArith QArith List Bool Ascii String Reals Lia. Import ListNotations.
From PV Require Import Num NumR model.Tables model.Parse gen.GenTables proofs.ParseFacts proofs.TablesFacts.
From PV Require Import gen.GenFns proofs.ParseSource.

Theorem C17_parse_denotes :
  forall (ts1 ts2 : list sterm) (l : list ascii), wf_comp ts1 -> wf_comp ts2 -> rd_op ts1 ts2 l
    -> from_operations_l NumR l = @POk NumR (coef_x ts1, coef_y ts1, coef_c ts1) (coef_x ts2, coef_y
    ts2, coef_c ts2).
Proof. exact parse_denotes. Qed.
Print Assumptions C17_parse_denotes.

Theorem C17_parse_evaluates :
  forall (ts1 ts2 : list sterm) (l : list ascii) (x y : R), wf_comp ts1 -> wf_comp ts2 -> rd_op
    ts1 ts2 l -> exists a b c d e f : carrier NumR, from_operations_l NumR l = @POk NumR (a, b, c) (d,
    e, f) /\ (a * x + b * y + c)%R = eval ts1 x y /\ (d * x + e * y + f)%R = eval ts2 x y.
Proof. exact parse_evaluates. Qed.
Print Assumptions C17_parse_evaluates.

Theorem C17_value_is_affine :
  forall (ts : list sterm) (x y : R), eval ts x y = (coef_x ts * x + coef_y ts * y + coef_c
    ts)%R.
Proof. exact eval_is_affine. Qed.
Print Assumptions C17_value_is_affine.

Theorem C17_component_is_last_assignment :
  forall (ts : list sterm) (st : pstR) (l : list ascii), ready st -> Forall (fun t : sterm =>
    wf_core (tcore t)) ts -> rd_comp ts l -> pfoldR st l = Some (fold_left upd ts st).
Proof. exact pfold_comp. Qed.
Print Assumptions C17_component_is_last_assignment.

Theorem C17_tables_are_parsed_strings :
  forallb (fun g : gen_group => Spec.forallb2 parsed_matches (gg_ops_str g) (gg_ops g))
    gen_groups = true.
Proof. exact tables_are_parsed_strings. Qed.
Print Assumptions C17_tables_are_parsed_strings.

(* non-vacuity: "(( - x + 1 / 2 ,y))" is a rendering of the operation (-x + 1/2, y), which is
   well formed; so the hypotheses of C17_parse_denotes are satisfiable by a non-trivial string *)
Example C17_premises_satisfiable :
  let ts1 := [mkT true CX; mkT false (CFrac 1 2)] in
  let ts2 := [mkT false CY] in
  wf_comp ts1 /\ wf_comp ts2
  /\ rd_op ts1 ts2 (list_ascii_of_string "(( - x + 1 / 2 ,y))").
Proof.
  cbv zeta. split; [|split].
  - split; [discriminate|]. split; [repeat constructor; cbn; lia|]. cbn. repeat split; lia.
  - split; [discriminate|]. split; [repeat constructor|]. cbn. repeat split; lia.
  - pose (l1 := (([" "]%char ++ ["-"]%char ++ [" "]%char ++ ["x"]%char ++ [" "]%char)
             ++ (([]%list ++ ["+"]%char ++ [" "]%char ++ (["1"]%char ++ [" "]%char ++ ["/"]%char ++ [" "]%char ++ ["2"]%char) ++ [" "]%char) ++ []))%list).
    pose (l2 := (([] ++ [] ++ [] ++ ["y"]%char ++ []) ++ [])%list : list ascii).
    change (list_ascii_of_string "(( - x + 1 / 2 ,y))")
      with (["("; "("]%char ++ l1 ++ ","%char :: l2 ++ [")"; ")"]%char)%list.
    apply (RO [mkT true CX; mkT false (CFrac 1 2)] [mkT false CY] l1 l2); unfold l1, l2.
    + repeat constructor.
    + repeat constructor.
    + apply RCS; [apply (RT (mkT true CX)); try (repeat constructor)|].
      apply RCS; [apply (RT (mkT false (CFrac 1 2))); try (repeat constructor)|apply RC0].
    + apply RCS; [apply (RT (mkT false CY)); repeat constructor|apply RC0].
Qed.

Theorem S_pstep_is_source :
  forall (NN : Num) (st : pst NN) (c : ascii), pstep NN st c = match gen_pstep NN (r_x NN st)
    (r_y NN st) (r_sign NN st) (r_const NN st) (r_op NN st) c with | Some (tx, ty, sg, k, op) =>
    Some {| r_x := tx; r_y := ty; r_sign := sg; r_const := k; r_op := op |} | None => None end.
Proof. exact pstep_is_source. Qed.
Print Assumptions S_pstep_is_source.

Theorem S_pinit_is_source :
  forall NN : Num, pinit NN = {| r_x := n0; r_y := n0; r_sign := fst (gen_pinit NN); r_const :=
    snd (gen_pinit NN); r_op := None |}.
Proof. exact pinit_is_source. Qed.
Print Assumptions S_pinit_is_source.

Theorem S_dims_is_source :
  forall (NN : Num) (l : list ascii), let comps := split_terminator "," (trim_braces l) in
    (gen_dims_ok (N.of_nat (Datatypes.length comps)) = true <-> (exists a b : list ascii, comps
    = [a; b])) /\ (gen_dims_ok (N.of_nat (Datatypes.length comps)) = false -> from_operations_l
    NN l = PErr).
Proof. exact dims_is_source. Qed.
Print Assumptions S_dims_is_source.

Theorem S_components_is_source :
  forall l : list ascii, gen_components l = split_terminator "," (trim_braces l).
Proof. exact components_is_source. Qed.
Print Assumptions S_components_is_source.


Theorem C17_parse_source_translated :
  translated_gen_pstep = true /\ translated_gen_braces = true /\ translated_gen_components =
    true /\ translated_gen_dims_ok = true /\ translated_gen_pinit = true.
Proof. exact parse_source_translated. Qed.
Print Assumptions C17_parse_source_translated.


Theorem S_parser_is_the_source_pieces :
  forall (NN : Num) (l : list ascii), from_operations_l NN l = (if gen_dims_ok (N.of_nat
    (Datatypes.length (gen_components l))) then match gen_components l with | [] => PErr | [a]
    => PErr | [a; b] => match gen_component NN a with | Some ra => match gen_component NN b with
    | Some rb => POk ra rb | None => PErr end | None => PErr end | a :: b :: _ :: _ => PErr end
    else PErr).
Proof. exact parser_is_the_source_pieces. Qed.
Print Assumptions S_parser_is_the_source_pieces.

