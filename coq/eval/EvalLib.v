(* EvalLib.v - helpers for evaluating the executable models INSIDE Coq (vm_compute) on recorded cases, as a
   cross-check of the extraction path: implementation vs extracted OCaml model vs the same model run by Coq. *)
From Coq Require Import ZArith List Bool Floats Ascii String.
From PV Require Import Num model.Parse model.Geom.
Import ListNotations.

(* equal as the engines compare: same value (signed zeros identified) or both NaN *)
Definition fsame (x y : float) : bool :=
  orb (PrimFloat.eqb x y) (andb (negb (PrimFloat.eqb x x)) (negb (PrimFloat.eqb y y))).

Definition tf_same (a b : tf NumF) : bool :=
  fsame (a00 NumF a) (a00 NumF b) && fsame (a01 NumF a) (a01 NumF b) && fsame (a02 NumF a) (a02 NumF b)
  && fsame (a10 NumF a) (a10 NumF b) && fsame (a11 NumF a) (a11 NumF b) && fsame (a12 NumF a) (a12 NumF b)
  && fsame (a20 NumF a) (a20 NumF b) && fsame (a21 NumF a) (a21 NumF b) && fsame (a22 NumF a) (a22 NumF b).

Fixpoint all2 {A} (f : A -> A -> bool) (l m : list A) : bool :=
  match l, m with
  | [], [] => true
  | x :: l', y :: m' => f x y && all2 f l' m'
  | _, _ => false
  end.

Definition opt_same (a b : option float) : bool :=
  match a, b with Some x, Some y => fsame x y | None, None => true | _, _ => false end.

Definition presult_same (a b : presult NumF) : bool :=
  match a, b with
  | POk (x1, y1, c1) (x2, y2, c2), POk (u1, v1, d1) (u2, v2, d2) =>
      fsame x1 u1 && fsame y1 v1 && fsame c1 d1 && fsame x2 u2 && fsame y2 v2 && fsame c2 d2
  | PErr, PErr => true
  | _, _ => false
  end.

(* one hard-state case: placements, Cartesian placements, enclosing radius (polygons and molecules), score *)
Definition geom_case_ok (syms : list (tf NumF)) (ss : list (site NumF)) (c : cell NumF) (sh : shape NumF)
    (radius area fmin_ : float) (rel cart : list (tf NumF)) (score : option float) : bool * bool * bool * bool :=
  let st := mkPstate syms ss c sh radius area in
  let rel_m := relative_positions NumF st in
  (all2 tf_same rel_m rel,
   all2 tf_same (map (to_cartesian_isometry NumF c) rel_m) cart,
   fsame (shape_radius NumF fmin_ sh) radius,
   opt_same (packed_score NumF st) score).

(* one pair case (C12): the pair predicate on two placements of a shape, both ways *)
Definition pair_case (sh : shape NumF) (t1 t2 : tf NumF) : bool * bool :=
  let s1 := shape_transform NumF t1 sh in
  let s2 := shape_transform NumF t2 sh in
  (shape_intersects NumF s1 s2, shape_intersects NumF s2 s1).

(* Transform2 * Transform2 (C12 / C04): the model's product against the recorded one *)
Definition mul_case_ok (l r p : tf NumF) : bool := tf_same (tf_mul NumF l r) p.

(* powi with a constant exponent as LLVM expands it: multiplications by binary decomposition *)
Fixpoint powi_pos (x : float) (p : positive) : float :=
  match p with
  | xH => x
  | xO q => let h := powi_pos x q in h * h
  | xI q => let h := powi_pos x q in h * h * x
  end.
Definition powi_c (x : float) (n : Z) : float :=
  match n with Z0 => 1 | Zpos p => powi_pos x p | Zneg _ => nan end.

(* one particle pair (C13): the Lennard-Jones energy both ways *)
Definition lj2_case (a b : lj NumF) : float * float :=
  (lj_energy NumF powi_c a b, lj_energy NumF powi_c b a).

(* ------------------------------------------------------------------ *)
(* the optimiser model on a recorded run at zero temperature (exp is only ever applied to -inf, +inf or NaN) *)
From PV Require Import model.Optimiser.

Definition fexp0 (x : float) : float :=
  if PrimFloat.eqb x neg_infinity then 0%float
  else if PrimFloat.eqb x infinity then infinity
  else nan.
Definition fpow0 (x y : float) : float := nan.   (* not reached: cases without kt_finish *)

(* libm values recorded from the extracted model's own run of the case, as lookup tables: the key is the bit
   pattern of the argument (zeros of either sign are told apart through their reciprocals) *)
Definition fkey (x y : float) : bool := fsame x y && fsame (1 / x) (1 / y).

Fixpoint lookup1 (tab : list (float * float)) (x : float) : float :=
  match tab with
  | [] => fexp0 x
  | (k, v) :: r => if fkey k x then v else lookup1 r x
  end.

Fixpoint lookup2 (tab : list (float * float * float)) (x y : float) : float :=
  match tab with
  | [] => nan
  | (k1, k2, v) :: r => if fkey k1 x && fkey k2 y then v else lookup2 r x y
  end.

Definition opt_case_ok_tab (etab : list (float * float)) (ptab : list (float * float * float))
    (b : builder NumF) (ps : list float) (hs : list (handle NumF)) (draws : list (draw NumF))
    (recorded : list (option float * list float)) (final : list float) : bool :=
  let oracle (k : N) (v : list float) : option float :=
    match nth_error recorded (N.to_nat k) with
    | Some (sc, vec) => if all2 fsame v vec then sc else None
    | None => None
    end in
  match optimise NumF (lookup1 etab) oracle (build NumF (lookup2 ptab) b) ps hs draws with
  | Returned _ st =>
      all2 fsame (params NumF st) final
      && N.eqb (N.of_nat (List.length recorded)) (calls NumF st + (if converged NumF st then 0 else 1))%N
  | _ => false
  end.

Definition opt_case_ok (b : builder NumF) (ps : list float) (hs : list (handle NumF)) (draws : list (draw NumF))
    (recorded : list (option float * list float)) (final : list float) : bool :=
  (* the oracle answers with the recorded score only when asked about the recorded parameter vector *)
  let oracle (k : N) (v : list float) : option float :=
    match nth_error recorded (N.to_nat k) with
    | Some (sc, vec) => if all2 fsame v vec then sc else None
    | None => None
    end in
  match optimise NumF fexp0 oracle (build NumF fpow0 b) ps hs draws with
  | Returned _ st =>
      all2 fsame (params NumF st) final
      && N.eqb (N.of_nat (List.length recorded)) (calls NumF st + (if converged NumF st then 0 else 1))%N
  | _ => false
  end.
