(* Iter.v - the meaning given to the Rust iterator adaptors that the source translator (bin/rs2coq.py) meets:
   .enumerate() pairs every item with its index from 0; .skip(n) is skipn; .map / .flat_map are map / flat_map;
   a `for` loop whose body can only `return true` is existsb.  Definitions only. *)
From Coq Require Import List.
Import ListNotations.

Fixpoint enumerate_from {A} (i : nat) (l : list A) : list (nat * A) :=
  match l with
  | [] => []
  | x :: r => (i, x) :: enumerate_from (S i) r
  end.

Definition enumerate {A} (l : list A) : list (nat * A) := enumerate_from 0 l.
