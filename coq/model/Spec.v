(* Spec.v - INDEPENDENT specification of the seven supported plane groups, typed in from
   International Tables for Crystallography vol. A (plane groups No. 1, 2, 3, 4, 6, 7, 8; general
   positions, standard setting), not derived from the code.  Definitions only. *)
From Coq Require Import ZArith QArith String List Bool.
From PV Require Import model.Tables.
Import ListNotations.
Local Open Scope string_scope.

(* a general position: integer linear part, rational translation *)
Record sop := { s00 : Z; s01 : Z; s10 : Z; s11 : Z; st0 : Q; st1 : Q }.

Definition mk (a b c d : Z) (u v : Q) : sop :=
  {| s00 := a; s01 := b; s10 := c; s11 := d; st0 := u; st1 := v |}.

Definition qop_of_sop (o : sop) : qop :=
  {| l00 := inject_Z (s00 o); l01 := inject_Z (s01 o); l10 := inject_Z (s10 o);
     l11 := inject_Z (s11 o); t0 := st0 o; t1 := st1 o |}.

(* what kinds of operation a group contains: identity, two-fold rotation, mirror, glide *)
Record content := { c_id : nat; c_rot2 : nat; c_mirror : nat; c_glide : nat }.

Record spec_group := {
  sg_name : string;
  sg_number : nat;          (* plane group number in ITA *)
  sg_family : family;       (* oblique = Monoclinic, rectangular = Orthorhombic *)
  sg_order : nat;
  sg_content : content;
  sg_ops : list sop;
}.

Definition half : Q := 1 # 2.
Definition e_  := mk 1 0 0 1 0 0.                 (* x, y *)
Definition r2  := mk (-1) 0 0 (-1) 0 0.           (* -x, -y *)
Definition mx  := mk (-1) 0 0 1 0 0.              (* -x, y *)
Definition my  := mk 1 0 0 (-1) 0 0.              (* x, -y *)

Definition ita : list spec_group := [
  {| sg_name := "p1"; sg_number := 1; sg_family := Monoclinic; sg_order := 1;
     sg_content := {| c_id := 1; c_rot2 := 0; c_mirror := 0; c_glide := 0 |};
     sg_ops := [e_] |};
  {| sg_name := "p2"; sg_number := 2; sg_family := Monoclinic; sg_order := 2;
     sg_content := {| c_id := 1; c_rot2 := 1; c_mirror := 0; c_glide := 0 |};
     sg_ops := [e_; r2] |};
  {| sg_name := "p1m1"; sg_number := 3; sg_family := Orthorhombic; sg_order := 2;
     sg_content := {| c_id := 1; c_rot2 := 0; c_mirror := 1; c_glide := 0 |};
     sg_ops := [e_; mx] |};
  {| sg_name := "p1g1"; sg_number := 4; sg_family := Orthorhombic; sg_order := 2;
     sg_content := {| c_id := 1; c_rot2 := 0; c_mirror := 0; c_glide := 1 |};
     sg_ops := [e_; mk (-1) 0 0 1 0 half] |};                       (* -x, y+1/2 *)
  {| sg_name := "p2mm"; sg_number := 6; sg_family := Orthorhombic; sg_order := 4;
     sg_content := {| c_id := 1; c_rot2 := 1; c_mirror := 2; c_glide := 0 |};
     sg_ops := [e_; r2; mx; my] |};
  {| sg_name := "p2mg"; sg_number := 7; sg_family := Orthorhombic; sg_order := 4;
     sg_content := {| c_id := 1; c_rot2 := 1; c_mirror := 1; c_glide := 1 |};
     sg_ops := [e_; r2; mk (-1) 0 0 1 half 0; mk 1 0 0 (-1) half 0] |};  (* -x+1/2,y ; x+1/2,-y *)
  {| sg_name := "p2gg"; sg_number := 8; sg_family := Orthorhombic; sg_order := 4;
     sg_content := {| c_id := 1; c_rot2 := 1; c_mirror := 0; c_glide := 2 |};
     sg_ops := [e_; r2; mk (-1) 0 0 1 half half; mk 1 0 0 (-1) half half] |}
].

(* ---- classification of one operation (coset modulo Z^2) ---- *)
Inductive opkind := KId | KRot2 | KMirror | KGlide | KOther.

Definition classify (o : qop) : opkind :=
  let d := qop_det o in let tr := qop_trace o in
  if (Qeq_bool d 1 && Qeq_bool tr 2)%bool then KId
  else if (Qeq_bool d 1 && Qeq_bool tr (-2))%bool then KRot2
  else if (Qeq_bool d (-1) && Qeq_bool tr 0)%bool then
    (* intrinsic translation w = (t + L t)/2 ; a mirror coset iff w is a lattice vector *)
    let w0 := Qred ((t0 o + (l00 o * t0 o + l01 o * t1 o)) / 2) in
    let w1 := Qred ((t1 o + (l10 o * t0 o + l11 o * t1 o)) / 2) in
    if (Qis_int w0 && Qis_int w1)%bool then KMirror else KGlide
  else KOther.

Definition kind_eqb (a b : opkind) : bool :=
  match a, b with
  | KId, KId | KRot2, KRot2 | KMirror, KMirror | KGlide, KGlide | KOther, KOther => true
  | _, _ => false
  end.

Definition count_kind (k : opkind) (ops : list qop) : nat :=
  length (filter (fun o => kind_eqb (classify o) k) ops).

Definition content_of (ops : list qop) : content :=
  {| c_id := count_kind KId ops; c_rot2 := count_kind KRot2 ops;
     c_mirror := count_kind KMirror ops; c_glide := count_kind KGlide ops |}.

Definition content_eqb (a b : content) : bool :=
  (Nat.eqb (c_id a) (c_id b) && Nat.eqb (c_rot2 a) (c_rot2 b)
   && Nat.eqb (c_mirror a) (c_mirror b) && Nat.eqb (c_glide a) (c_glide b))%bool.

(* ---- group axioms modulo lattice translations, as boolean checks over a finite list ---- *)
Definition mem_mod (o : qop) (ops : list qop) : bool := existsb (qop_eqb_mod o) ops.

Definition closed_mod (ops : list qop) : bool :=
  forallb (fun a => forallb (fun b => mem_mod (qop_comp a b) ops) ops) ops.

Definition has_inverses_mod (ops : list qop) : bool :=
  forallb (fun a => existsb (fun b => (qop_eqb_mod (qop_comp a b) qop_id
                                       && qop_eqb_mod (qop_comp b a) qop_id)%bool) ops) ops.

Fixpoint distinct_mod (ops : list qop) : bool :=
  match ops with
  | [] => true
  | o :: r => (negb (mem_mod o r) && distinct_mod r)%bool
  end.

Definition is_group_mod (n : nat) (ops : list qop) : bool :=
  (match ops with o :: _ => qop_eqb o qop_id | [] => false end
   && closed_mod ops && has_inverses_mod ops && distinct_mod ops && Nat.eqb (length ops) n)%bool.

(* ---- does the code's table equal the specification? ---- *)
Fixpoint forallb2 {A B} (f : A -> B -> bool) (l : list A) (m : list B) : bool :=
  match l, m with
  | [], [] => true
  | a :: l', b :: m' => (f a b && forallb2 f l' m')%bool
  | _, _ => false
  end.

Definition group_matches_spec (gs : list gen_group) (s : spec_group) : bool :=
  match find_group (sg_name s) gs with
  | None => false
  | Some g =>
      match group_qops g with
      | None => false
      | Some ops =>
          (forallb2 qop_eqb ops (map qop_of_sop (sg_ops s)) && family_eqb (gg_family g) (sg_family s))%bool
      end
  end.

Definition tables_match_spec (gs : list gen_group) : bool :=
  (forallb (group_matches_spec gs) ita
   && forallb2 String.eqb (map gg_cli gs) (map sg_name ita))%bool.

(* the label written into the output is the name the group was asked for by (C10) *)
Definition labels_ok (gs : list gen_group) : bool :=
  forallb (fun g => String.eqb (gg_name g) (gg_cli g)) gs.

(* ---- metric invariance (crystal family) ---- *)
(* L^T G L = G for the metric G = [[A, C], [C, B]], entries of L integers *)
Definition preserves_metric (o : sop) (A B C : Z) : bool :=
  let a := s00 o in let b := s01 o in let c := s10 o in let d := s11 o in
  ((a * (a * A + c * C) + c * (a * C + c * B) =? A)
   && (a * (b * A + d * C) + c * (b * C + d * B) =? C)
   && (b * (b * A + d * C) + d * (b * C + d * B) =? B))%Z%bool.

(* sufficient (and for generic metrics necessary) shape of L *)
Definition lin_pm_identity (o : sop) : bool :=
  ((s01 o =? 0) && (s10 o =? 0) && (s00 o * s00 o =? 1) && (s00 o =? s11 o))%Z%bool.
Definition lin_diag_pm1 (o : sop) : bool :=
  ((s01 o =? 0) && (s10 o =? 0) && (s00 o * s00 o =? 1) && (s11 o * s11 o =? 1))%Z%bool.

Definition family_shape_ok (s : spec_group) : bool :=
  match sg_family s with
  | Monoclinic => forallb lin_pm_identity (sg_ops s)
  | Orthorhombic => forallb lin_diag_pm1 (sg_ops s)
  | _ => false
  end.
