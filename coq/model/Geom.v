(* Geom.v - executable model of the geometry layer: transform.rs (the nalgebra products it relies
   on, written out), site.rs (positions), cell.rs (Cartesian map, periodic images, area),
   line2.rs / atom2.rs (pair predicates), the shape containers, lj2.rs (pair potential),
   packed.rs (check_intersection, score) and potential.rs (score).
   Parametric in Num: the same text is executed on binary64 against the Rust code and reasoned
   about over the reals.  sin/cos/acos/pi enter only as VALUES supplied by the caller.
   Definitions only. *)
From Coq Require Import ZArith List Bool.
From PV Require Import Num.
Import ListNotations.
Local Open Scope num_scope.

Section Geom.
  Variable NN : Num.
  Notation T := (carrier NN).

  (* ------------------------------------------------------------------ *)
  (* Transform2: a 3x3 matrix (row-major fields)                         *)

  Record tf := mkTf { a00 : T; a01 : T; a02 : T; a10 : T; a11 : T; a12 : T; a20 : T; a21 : T; a22 : T }.

  (* Transform2::new(angle, (x, y)) given c = cos angle, s = sin angle *)
  Definition tf_new (c s x y : T) : tf := mkTf c (- s) x s c y n0 n0 n1.

  Definition tf_identity : tf := mkTf n1 n0 n0 n0 n1 n0 n0 n0 n1.

  (* a parsed symmetry operation: third row all zero (Matrix3::zeros) *)
  Definition tf_of_rows (r0 r1 : T * T * T) : tf :=
    let '(a, b, c) := r0 in let '(d, e, f) := r1 in mkTf a b c d e f n0 n0 n0.

  (* nalgebra matrix product, entry (i,j) = (a_i0 b_0j + a_i1 b_1j) + a_i2 b_2j *)
  Definition dot3 (x0 x1 x2 y0 y1 y2 : T) : T := (x0 * y0 + x1 * y1) + x2 * y2.

  Definition tf_mul (a b : tf) : tf :=
    mkTf (dot3 (a00 a) (a01 a) (a02 a) (a00 b) (a10 b) (a20 b))
         (dot3 (a00 a) (a01 a) (a02 a) (a01 b) (a11 b) (a21 b))
         (dot3 (a00 a) (a01 a) (a02 a) (a02 b) (a12 b) (a22 b))
         (dot3 (a10 a) (a11 a) (a12 a) (a00 b) (a10 b) (a20 b))
         (dot3 (a10 a) (a11 a) (a12 a) (a01 b) (a11 b) (a21 b))
         (dot3 (a10 a) (a11 a) (a12 a) (a02 b) (a12 b) (a22 b))
         (dot3 (a20 a) (a21 a) (a22 a) (a00 b) (a10 b) (a20 b))
         (dot3 (a20 a) (a21 a) (a22 a) (a01 b) (a11 b) (a21 b))
         (dot3 (a20 a) (a21 a) (a22 a) (a02 b) (a12 b) (a22 b)).

  (* Transform (TGeneral) * Point: M p + t, divided by the normaliser when it is not zero *)
  Definition tf_apply (t : tf) (p : T * T) : T * T :=
    let '(px, py) := p in
    let x := (a00 t * px + a01 t * py) + a02 t in
    let y := (a10 t * px + a11 t * py) + a12 t in
    let n := (a20 t * px + a21 t * py) + a22 t in
    if n =? n0 then (x, y) else (x / n, y / n).

  Definition tf_position (t : tf) : T * T := tf_apply t (n0, n0).

  Definition tf_set_position (t : tf) (p : T * T) : tf :=
    mkTf (a00 t) (a01 t) (fst p) (a10 t) (a11 t) (snd p) (a20 t) (a21 t) (a22 t).

  (* periodic(1., -0.5): (((x - offset) % period) + period) % period + offset *)
  Definition wrap1 (x : T) : T :=
    let offset := - nhalf in
    nrem1 (nrem1 (x - offset) + n1) + offset.

  Definition tf_periodic (t : tf) : tf :=
    let '(px, py) := tf_position t in
    tf_set_position t (wrap1 px, wrap1 py).

  (* ------------------------------------------------------------------ *)
  (* OccupiedSite                                                        *)

  Record site := mkSite { s_x : T; s_y : T; s_cos : T; s_sin : T }.   (* cos / sin of the site angle *)

  Definition site_tf (s : site) : tf := tf_new (s_cos s) (s_sin s) (s_x s) (s_y s).

  (* positions(): sym * transform, wrapped into the cell *)
  Definition positions (syms : list tf) (s : site) : list tf :=
    map (fun sym => tf_periodic (tf_mul sym (site_tf s))) syms.

  (* ------------------------------------------------------------------ *)
  (* Cell2                                                               *)

  Record cell := mkCell { c_len : T; c_ratio : T; c_cos : T; c_sin : T }.  (* cos / sin of the cell angle *)

  Definition cell_a (c : cell) : T := c_len c.
  Definition cell_b (c : cell) : T := c_len c * c_ratio c.

  Definition to_cartesian (c : cell) (p : T * T) : T * T :=
    let '(x, y) := p in
    (x * cell_a c + (y * cell_b c) * c_cos c, (y * cell_b c) * c_sin c).

  Definition to_cartesian_isometry (c : cell) (t : tf) : tf :=
    tf_set_position t (to_cartesian c (tf_position t)).

  Definition cell_area (c : cell) : T := (c_sin c * cell_a c) * cell_b c.

  Definition to_cartesian_translate (c : cell) (t : tf) (x y : Z) : tf :=
    let '(px, py) := tf_position t in
    tf_set_position t (to_cartesian c (px + nofZ x, py + nofZ y)).

  (* -k ..= k *)
  Fixpoint zrange_from (lo : Z) (n : nat) : list Z :=
    match n with O => [] | S n' => lo :: zrange_from (lo + 1) n' end.
  Definition zrange (k : Z) : list Z := zrange_from (- k) (Z.to_nat (2 * k + 1)).

  (* iproduct!(-k..=k, -k..=k): the first range is the outer loop *)
  Definition shell_indices (k : Z) (zero : bool) : list (Z * Z) :=
    filter (fun xy => negb (andb (negb zero) (andb (fst xy =? 0)%Z (snd xy =? 0)%Z)))
           (flat_map (fun x => map (fun y => (x, y)) (zrange k)) (zrange k)).

  Definition periodic_images (c : cell) (t : tf) (k : Z) (zero : bool) : list tf :=
    map (fun xy => to_cartesian_translate c t (fst xy) (snd xy)) (shell_indices k zero).

  (* ------------------------------------------------------------------ *)
  (* Components and shapes                                               *)

  Record seg := mkSeg { sx1 : T; sy1 : T; sx2 : T; sy2 : T }.
  Record disc := mkDisc { dx_ : T; dy_ : T; dr : T }.

  Definition seg_dx (l : seg) : T := sx2 l - sx1 l.
  Definition seg_dy (l : seg) : T := sy2 l - sy1 l.

  (* Line2::intersects *)
  Definition seg_intersects (s o : seg) : bool :=
    let u_b := seg_dy o * seg_dx s - seg_dx o * seg_dy s in
    if u_b =? n0 then false
    else
      let ua_t := seg_dx o * (sy1 s - sy1 o) - seg_dy o * (sx1 s - sx1 o) in
      let ub_t := seg_dx s * (sy1 s - sy1 o) - seg_dy s * (sx1 s - sx1 o) in
      let ua := ua_t / u_b in
      let ub := ub_t / u_b in
      andb (andb (n0 <=? ua) (ua <=? n1)) (andb (n0 <=? ub) (ub <=? n1)).

  Definition sq (x : T) : T := x * x.
  Definition norm2 (x y : T) : T := sq x + sq y.

  (* Atom2::intersects *)
  Definition disc_intersects (a b : disc) : bool :=
    norm2 (dx_ a - dx_ b) (dy_ a - dy_ b) <? sq (dr a + dr b).

  Inductive shape :=
  | Poly (items : list seg)
  | Mol (items : list disc).

  Definition seg_transform (t : tf) (l : seg) : seg :=
    let '(x1, y1) := tf_apply t (sx1 l, sy1 l) in
    let '(x2, y2) := tf_apply t (sx2 l, sy2 l) in
    mkSeg x1 y1 x2 y2.

  Definition disc_transform (t : tf) (d : disc) : disc :=
    let '(x, y) := tf_apply t (dx_ d, dy_ d) in mkDisc x y (dr d).

  Definition shape_transform (t : tf) (s : shape) : shape :=
    match s with
    | Poly l => Poly (map (seg_transform t) l)
    | Mol l => Mol (map (disc_transform t) l)
    end.

  Definition shape_intersects (a b : shape) : bool :=
    match a, b with
    | Poly l, Poly m => existsb (fun s => existsb (fun o => seg_intersects s o) m) l
    | Mol l, Mol m => existsb (fun s => existsb (fun o => disc_intersects s o) m) l
    | _, _ => false
    end.

  Fixpoint tails {A} (l : list A) : list (A * list A) :=
    match l with [] => [] | x :: r => (x, r) :: tails r end.

  (* ------------------------------------------------------------------ *)
  (* areas (Intersect::area)                                             *)

  Definition dist_o (x y : T) : T := nsqrt (sq x + sq y).        (* nalgebra distance to the origin *)

  (* LineShape::area: sum of 0.5 sin(2 pi/n) |start| |end| over the edges; angle_term = sin(2 pi/n) *)
  Definition poly_area (angle_term : T) (l : list seg) : T :=
    fold_left (fun acc p => acc + ((nhalf * angle_term) * dist_o (sx1 p) (sy1 p)) * dist_o (sx2 p) (sy2 p)) l n0.

  Variable facos : T -> T.
  Variable pi_ : T.

  (* MolecularShape2::overlap_area(r, d) *)
  Definition overlap_area (r d : T) : T :=
    let ratio := nmax (- n1) (nmin n1 (d / r)) in
    sq r * facos ratio - d * nsqrt (nmax n0 (sq r - sq d)).

  (* MolecularShape2::circle_overlap *)
  Definition circle_overlap (a b : disc) : T :=
    let distance := nsqrt (norm2 (dx_ a - dx_ b) (dy_ a - dy_ b)) in
    if distance <? dr a + dr b then
      let d1 := ((sq distance + sq (dr a)) - sq (dr b)) / (n2 * distance) in
      let d2 := ((sq distance + sq (dr b)) - sq (dr a)) / (n2 * distance) in
      overlap_area (dr a) d1 + overlap_area (dr b) d2
    else n0.

  (* MolecularShape2::area: sum of the disc areas minus the pairwise lenses (tuple_combinations order) *)
  Definition mol_area (l : list disc) : T :=
    let total := fold_left (fun acc a => acc + pi_ * sq (dr a)) l n0 in
    let naive := fold_left (fun acc xr => fold_left (fun acc2 b => acc2 + circle_overlap (fst xr) b) (snd xr) acc)
                           (tails l) n0 in
    total - naive.

  (* Shape::enclosing_radius: .map(distance to the origin [+ radius]).fold(f64::MIN, f64::max);
     fmin_ = f64::MIN.  Polygons use the START of each edge. *)
  Definition poly_radius (fmin_ : T) (l : list seg) : T :=
    fold_left (fun acc p => nmax acc (dist_o (sx1 p) (sy1 p))) l fmin_.
  Definition mol_radius (fmin_ : T) (l : list disc) : T :=
    fold_left (fun acc d => nmax acc (dist_o (dx_ d) (dy_ d) + dr d)) l fmin_.
  Definition shape_radius (fmin_ : T) (s : shape) : T :=
    match s with Poly l => poly_radius fmin_ l | Mol l => mol_radius fmin_ l end.

  (* ------------------------------------------------------------------ *)
  (* PackedState: check_intersection and score                           *)

  (* the state as the checks see it: symmetry table, the occupied sites (the command line occupies one; the
     library and a file may occupy several, all of the same Wyckoff position), cell, shape; derived scalar inputs:
     enclosing radius, shape area and the shell count are VALUES computed by the caller's oracle *)
  Record pstate := mkPstate {
    p_syms : list tf;
    p_sites : list site;
    p_cell : cell;
    p_shape : shape;
    p_radius : T;        (* shape.enclosing_radius() *)
    p_area : T;          (* shape.area() *)
  }.

  (* occupied_sites.iter().flat_map(OccupiedSite::positions) *)
  Definition relative_positions (st : pstate) : list tf := flat_map (positions (p_syms st)) (p_sites st).
  Definition cartesian_positions (st : pstate) : list tf :=
    map (to_cartesian_isometry (p_cell st)) (relative_positions st).
  (* the sum of the sites' multiplicities *)
  Definition total_shapes (st : pstate) : Z := Z.of_nat (length (p_sites st) * length (p_syms st)).

  (* more shapes than fit in the cell area certainly overlap *)
  Definition density_precheck (st : pstate) : bool :=
    cell_area (p_cell st) <? p_area st * nofZ (total_shapes st).

  (* images further than this many cells away are separated by more than twice the enclosing radius *)
  Definition shells_of (st : pstate) : Z :=
    let c := p_cell st in
    let height := c_sin c * nmin (cell_a c) (cell_b c) in
    nceilZ ((n2 * p_radius st) / height).

  Definition in_cell_intersection (st : pstate) : bool :=
    let shapes := map (fun p => shape_transform p (p_shape st)) (cartesian_positions st) in
    existsb (fun xr => existsb (fun s2 => shape_intersects (fst xr) s2) (snd xr)) (tails shapes).

  Definition periodic_intersection (st : pstate) : bool :=
    let radius_sq := sq (p_radius st * n2) in
    existsb (fun t1 =>
      let shape1 := shape_transform t1 (p_shape st) in
      let '(x1, y1) := tf_position t1 in
      existsb (fun pos =>
        existsb (fun t2 =>
          let '(x2, y2) := tf_position t2 in
          if norm2 (x1 - x2) (y1 - y2) <=? radius_sq
          then shape_intersects shape1 (shape_transform t2 (p_shape st))
          else false)
          (periodic_images (p_cell st) pos (shells_of st) false))
        (relative_positions st))
      (cartesian_positions st).

  Definition check_intersection (st : pstate) : bool :=
    orb (density_precheck st) (orb (in_cell_intersection st) (periodic_intersection st)).

  Definition packed_score (st : pstate) : option T :=
    if check_intersection st then None
    else Some ((p_area st * nofZ (total_shapes st)) / cell_area (p_cell st)).

  (* ------------------------------------------------------------------ *)
  (* LJ2 / LJShape2 / PotentialState                                     *)

  Record lj := mkLj { lx : T; ly : T; lsigma : T; leps : T; lcut : option T }.

  Definition cube (x : T) : T := (x * x) * x.

  (* powi(12) and powi(6) of sigma/x are supplied by the caller's pow oracle *)
  Variable powi : T -> Z -> T.

  Definition n4 : T := nofZ 4.

  Definition lj_energy (a b : lj) : T :=
    let sigma_squared := sq (lsigma a) in
    let r_squared := norm2 (lx a - lx b) (ly a - ly b) in
    let s2r2c := powi (sigma_squared / r_squared) 3 in
    match lcut a with
    | Some x =>
        if r_squared <? x * x then
          let shift := (n4 * leps a) * (powi (lsigma a / x) 12 - powi (lsigma a / x) 6) in
          (n4 * leps a) * (powi s2r2c 2 - s2r2c) - shift
        else n0
    | None => (n4 * leps a) * (powi s2r2c 2 - s2r2c)
    end.

  Definition lj_transform (t : tf) (a : lj) : lj :=
    let '(x, y) := tf_apply t (lx a, ly a) in mkLj x y (lsigma a) (leps a) (lcut a).

  Definition ljshape := list lj.

  (* iproduct!(self, other).map(energy).sum(): left fold from 0 *)
  Definition ljshape_energy (a b : ljshape) : T :=
    fold_left (fun acc so => acc + lj_energy (fst so) (snd so))
              (flat_map (fun s => map (fun o => (s, o)) b) a) n0.

  Record ljstate := mkLjstate {
    l_syms : list tf;
    l_sites : list site;
    l_cell : cell;
    l_shape : ljshape;
  }.

  Definition lj_relative (st : ljstate) : list tf := flat_map (positions (l_syms st)) (l_sites st).
  Definition lj_cartesian (st : ljstate) : list tf :=
    map (to_cartesian_isometry (l_cell st)) (lj_relative st).

  Definition lj_sum (st : ljstate) : T :=
    let shapes := map (fun p => map (lj_transform p) (l_shape st)) (lj_cartesian st) in
    let s1 := fold_left (fun acc xr =>
                fold_left (fun acc2 s2 => acc2 + ljshape_energy (fst xr) s2) (snd xr) acc)
                (tails shapes) n0 in
    fold_left (fun acc shape1 =>
      fold_left (fun acc2 pos =>
        fold_left (fun acc3 t2 => acc3 + nhalf * ljshape_energy shape1 (map (lj_transform t2) (l_shape st)))
                  (periodic_images (l_cell st) pos 3 false) acc2)
        (lj_relative st) acc)
      shapes s1.

  Definition lj_score (st : ljstate) : option T :=
    Some (- lj_sum st / nofZ (Z.of_nat (length (l_sites st) * length (l_syms st)))).

  (* ------------------------------------------------------------------ *)
  (* the shape constructors (src/shape/*.rs); fsin / fcos are libm's sin / cos *)

  Variable fsin fcos : T -> T.

  (* LineShape::from_radial: edge `index` joins point `index` to the next point (cyclically); the end's angle
     is computed as angle + dtheta, the next edge's start as (index + 1) * dtheta *)
  Definition radial_edge (dtheta : T) (index : nat) (r1 r2 : T) : seg :=
    let angle := nofZ (Z.of_nat index) * dtheta in
    mkSeg (r1 * fsin angle) (r1 * fcos angle) (r2 * fsin (angle + dtheta)) (r2 * fcos (angle + dtheta)).

  Definition rotate1 {A} (l : list A) : list A := match l with [] => [] | x :: r => r ++ [x] end.

  Definition from_radial (points : list T) : list seg :=
    let dtheta := (n2 * pi_) / nofZ (Z.of_nat (length points)) in
    map (fun ir => radial_edge dtheta (fst ir) (fst (snd ir)) (snd (snd ir)))
        (combine (seq 0 (length points)) (combine points (rotate1 points))).

  (* LineShape::polygon(sides) = from_radial(vec![1.; sides]) *)
  Definition polygon (sides : nat) : list seg := from_radial (repeat n1 sides).

  (* f64::to_radians: x * (PI / 180) *)
  Definition to_radians (x : T) : T := x * (pi_ / nofZ 180).

  (* MolecularShape2::from_trimer(radius, angle, distance) and ::circle() *)
  Definition mol_trimer (radius angle distance : T) : list disc :=
    let half := to_radians angle / n2 in
    [ mkDisc n0 (((- n2) / nofZ 3) * distance * fcos half) n1;
      mkDisc ((- distance) * fsin half) ((n1 / nofZ 3) * distance * fcos half) radius;
      mkDisc (distance * fsin half) ((n1 / nofZ 3) * distance * fcos half) radius ].
  Definition mol_circle : list disc := [ mkDisc n0 n0 n1 ].

  (* LJShape2::from_trimer and ::circle(): sigma = 2 r, epsilon 1, cutoff 3.5 (trimer) / none (circle) *)
  Definition lj_trimer (cut35 : T) (radius angle distance : T) : ljshape :=
    let half := to_radians angle / n2 in
    let x_base := distance * fsin half in
    let y_base := (n1 / nofZ 3) * distance * fcos half in
    [ mkLj n0 ((- n2) * y_base) (n2 * n1) n1 (Some cut35);
      mkLj (- x_base) y_base (n2 * radius) n1 (Some cut35);
      mkLj x_base y_base (n2 * radius) n1 (Some cut35) ].
  Definition lj_circle : ljshape := [ mkLj n0 n0 n1 n1 None ].
End Geom.

Arguments mkTf {_}. Arguments mkSite {_}. Arguments mkCell {_}. Arguments mkSeg {_}. Arguments mkDisc {_}.
Arguments Poly {_}. Arguments Mol {_}. Arguments mkPstate {_}. Arguments mkLj {_}. Arguments mkLjstate {_}.
