(* Tables.v - the types of the REGENERATED data (coq/gen/*.v) and helpers to compute with it.
   Definitions only. *)
From Coq Require Import ZArith QArith String List Bool Floats.
Import ListNotations.

Inductive family := Monoclinic | Orthorhombic | Hexagonal | Tetragonal.

Definition family_eqb (a b : family) : bool :=
  match a, b with
  | Monoclinic, Monoclinic | Orthorhombic, Orthorhombic
  | Hexagonal, Hexagonal | Tetragonal, Tetragonal => true
  | _, _ => false
  end.

(* one wallpaper group as the code defines it: the 3x3 matrices are row-major lists of 9 exact
   rationals (every f64 entry is a dyadic rational) *)
Record gen_group := {
  gg_cli : string;            (* the command-line / enum name *)
  gg_name : string;           (* WallpaperGroup.name, written into the output *)
  gg_family : family;
  gg_ops_str : list string;   (* the coordinate triplets as written in the source *)
  gg_ops : list (list Q);     (* what WyckoffSite::new parsed them to *)
}.

Record gen_handle := {
  gh_moves : list string;     (* JSON paths of the leaves that change when the handle is set *)
  gh_value : float;
  gh_min : float;
  gh_max : float;
  gh_ok : bool;               (* set_value(v) wrote v and reset_value() restored the value bit-for-bit *)
}.

Record gen_state := {
  gs_cli : string;
  gs_kind : string;
  gs_copies : nat;
  gs_scored : bool;           (* the initial state has a defined score *)
  gs_handles : list gen_handle;
}.

Record gen_schema_entry := {
  sc_cli : string;
  sc_kind : string;
  sc_keys : list string;      (* "depth:key" in emission order *)
  sc_leaves : list string;    (* JSON paths of all leaves *)
}.

(* ---- affine operations over Q: ((l00,l01,l10,l11),(t0,t1)) ---- *)
Record qop := { l00 : Q; l01 : Q; l10 : Q; l11 : Q; t0 : Q; t1 : Q }.

Definition qop_of_list (m : list Q) : option qop :=
  match m with
  | [a; b; c; d; e; f; g; h; i] =>
      (* the bottom row of a parsed operation is all zero *)
      if (Qeq_bool g 0 && Qeq_bool h 0 && Qeq_bool i 0)%bool
      then Some {| l00 := a; l01 := b; t0 := c; l10 := d; l11 := e; t1 := f |}
      else None
  | _ => None
  end.

Definition qop_eqb (a b : qop) : bool :=
  (Qeq_bool (l00 a) (l00 b) && Qeq_bool (l01 a) (l01 b) && Qeq_bool (l10 a) (l10 b)
   && Qeq_bool (l11 a) (l11 b) && Qeq_bool (t0 a) (t0 b) && Qeq_bool (t1 a) (t1 b))%bool.

(* is q an integer? *)
Definition Qis_int (q : Q) : bool := Z.eqb (Z.modulo (Qnum q) (Zpos (Qden q))) 0.

(* equal linear parts, translations equal modulo Z^2 *)
Definition qop_eqb_mod (a b : qop) : bool :=
  (Qeq_bool (l00 a) (l00 b) && Qeq_bool (l01 a) (l01 b) && Qeq_bool (l10 a) (l10 b)
   && Qeq_bool (l11 a) (l11 b) && Qis_int (Qred (t0 a - t0 b)) && Qis_int (Qred (t1 a - t1 b)))%bool.

(* composition a o b : p |-> A (B p + tb) + ta *)
Definition qop_comp (a b : qop) : qop :=
  {| l00 := Qred (l00 a * l00 b + l01 a * l10 b);
     l01 := Qred (l00 a * l01 b + l01 a * l11 b);
     l10 := Qred (l10 a * l00 b + l11 a * l10 b);
     l11 := Qred (l10 a * l01 b + l11 a * l11 b);
     t0 := Qred (l00 a * t0 b + l01 a * t1 b + t0 a);
     t1 := Qred (l10 a * t0 b + l11 a * t1 b + t1 a) |}.

Definition qop_id : qop := {| l00 := 1; l01 := 0; l10 := 0; l11 := 1; t0 := 0; t1 := 0 |}.
Definition qop_det (a : qop) : Q := Qred (l00 a * l11 a - l01 a * l10 a).
Definition qop_trace (a : qop) : Q := Qred (l00 a + l11 a).

Fixpoint find_group (cli : string) (gs : list gen_group) : option gen_group :=
  match gs with
  | [] => None
  | g :: r => if String.eqb (gg_cli g) cli then Some g else find_group cli r
  end.

Fixpoint all_some {A} (l : list (option A)) : option (list A) :=
  match l with
  | [] => Some []
  | None :: _ => None
  | Some x :: r => match all_some r with Some xs => Some (x :: xs) | None => None end
  end.

Definition group_qops (g : gen_group) : option (list qop) := all_some (map qop_of_list (gg_ops g)).

(* exact rational value of a finite binary64 number *)
Definition float_to_Q (x : float) : option Q :=
  match Prim2SF x with
  | S754_zero _ => Some 0
  | S754_finite s m e =>
      let mz := if s then Zneg m else Zpos m in
      Some (Qred (match e with
                  | Z0 => inject_Z mz
                  | Zpos p => inject_Z (mz * Z.pow_pos 2 p)
                  | Zneg p => Qmake mz (Pos.pow 2 p)
                  end))
  | _ => None
  end.

Definition float_is_Q (x : float) (q : Q) : bool :=
  match float_to_Q x with Some v => Qeq_bool v q | None => false end.
