(* OptSpec.v - vocabulary for stating the optimiser properties (C05 C06 C07 C18 C19 C20)
   about the model of model/Optimiser.v.  Definitions only. *)
From Coq Require Import ZArith NArith List Bool.
From PV Require Import Num model.Optimiser.
Import ListNotations.
Local Open Scope num_scope.

Section OptSpec.
  Variable NN : Num.
  Notation T := (carrier NN).
  Variable fexp : T -> T.
  Variable score : N -> list T -> option T.

  Notation cfg := (cfg NN).
  Notation ost := (ost NN).
  Notation draw := (draw NN).
  Notation advance := (advance NN fexp score).
  Notation run := (run NN fexp score).

  (* The parameter vector a step proposes (None: the drawn handle does not exist). *)
  Definition proposal (c : cfg) (st : ost) (d : draw) : option (list T) :=
    match nth_error (handles NN st) (d_idx NN d) with
    | None => None
    | Some h =>
        let v := get_cell NN (params NN st) (h_cell NN h) in
        Some (set_nth (params NN st) (h_cell NN h)
                (nclamp (h_min NN h) (h_max NN h)
                   (sample NN h v (max_step NN c * ratio NN st) (d_g NN d))))
    end.

  (* Some (ps', s): this step proposed ps', the oracle scored it s, and it was accepted. *)
  Definition step_accepted (c : cfg) (st : ost) (d : draw) : option (list T * T) :=
    if fin NN st then None
    else match proposal c st d with
         | None => None
         | Some ps' =>
             match score (calls NN st) ps' with
             | Some s =>
                 if accept NN fexp (d_thr NN d) (Some s) (score_cur NN st) (kt NN st)
                 then Some (ps', s) else None
             | None => None
             end
         end.

  (* The accepted (vector, score) pairs of a run, in order. *)
  Fixpoint accepts (c : cfg) (st : ost) (draws : list draw) : list (list T * T) :=
    match draws with
    | [] => []
    | d :: ds =>
        (match step_accepted c st d with Some x => [x] | None => [] end)
          ++ accepts c (advance c st d) ds
    end.

  (* Number of proposals a run evaluates: a step is taken iff the loop is not over. *)
  Fixpoint proposals_made (c : cfg) (st : ost) (draws : list draw) : N :=
    match draws with
    | [] => 0%N
    | d :: ds =>
        ((if orb (fin NN st) (match proposal c st d with None => true | Some _ => false end)
          then 0 else 1)
         + proposals_made c (advance c st d) ds)%N
    end.

  (* No draw selects a handle that does not exist (Rust: Uniform::new(0, basis.len())). *)
  Definition draws_in_range (nh : nat) (draws : list draw) : Prop :=
    Forall (fun d => (d_idx NN d < nh)%nat) draws.

  (* iterated cooling: kt_start * f * f * ... (k times), multiplication order as executed *)
  Fixpoint cooled (kt0 f : T) (k : nat) : T :=
    match k with O => kt0 | S k' => cooled kt0 f k' * f end.

  Definition work (c : cfg) : N := (loops_of (steps NN c) (inner NN c) * inner NN c)%N.

  (* same configuration without a convergence threshold *)
  Definition no_conv (c : cfg) : cfg :=
    mkCfg (kt_start NN c) (factor NN c) (max_step NN c) (steps NN c) (inner NN c) None.
End OptSpec.
