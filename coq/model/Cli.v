(* Cli.v - model of the command line driver's use of the optimiser (src/main.rs, analyse_state):
   the BuildOptimiser setters, and a replica's three stages as setter lists applied to the
   user's settings.  The setter lists themselves, the settings a bare command line stands for and
   the library default are REGENERATED from /repo on every run (coq/gen/GenCli.v: the text of
   analyse_state, and the Debug rendering of the built objects); this file gives them meaning.

   Definitions only; proofs are in proofs/CliFacts.v. *)
From Coq Require Import ZArith NArith List Bool String.
From PV Require Import Num model.Optimiser.
Import ListNotations.
Local Open Scope num_scope.

Section Cli.
  Variable NN : Num.
  Notation T := (carrier NN).

  (* a decimal literal p / q (q a power of ten): the division of two exactly represented integers is
     correctly rounded, as the parse of the literal is *)
  Definition lit (p q : Z) : T := if Z.eqb q 1 then nofZ p else nofZ p / nofZ q.

  (* BuildOptimiser: the optimiser settings and the seed *)
  Record sbuilder := mkSB { sb : builder NN; sb_seed : option N }.

  Inductive seed_arg := SeedConst (n : N) | SeedIndex.      (* .seed(7) / .seed(index) *)

  Inductive setter :=
  | SetSteps (n : N)
  | SetInner (n : N)
  | SetKtStart (x : T)
  | SetKtFinish (x : T)               (* kt_finish(x) stores Some(x) *)
  | SetKtRatio (o : option T)
  | SetMaxStep (x : T)
  | SetConv (o : option T)
  | SetSeed (s : seed_arg).

  Definition with_b (s : sbuilder) (b : builder NN) : sbuilder := mkSB b (sb_seed s).

  Definition apply_setter (index : N) (s : sbuilder) (x : setter) : sbuilder :=
    let b := sb s in
    match x with
    | SetSteps n => with_b s (mkBuilder n (b_kt_start NN b) (b_kt_finish NN b) (b_kt_ratio NN b) (b_max_step NN b) (b_inner NN b) (b_conv NN b))
    | SetInner n => with_b s (mkBuilder (b_steps NN b) (b_kt_start NN b) (b_kt_finish NN b) (b_kt_ratio NN b) (b_max_step NN b) n (b_conv NN b))
    | SetKtStart v => with_b s (mkBuilder (b_steps NN b) v (b_kt_finish NN b) (b_kt_ratio NN b) (b_max_step NN b) (b_inner NN b) (b_conv NN b))
    | SetKtFinish v => with_b s (mkBuilder (b_steps NN b) (b_kt_start NN b) (Some v) (b_kt_ratio NN b) (b_max_step NN b) (b_inner NN b) (b_conv NN b))
    | SetKtRatio o => with_b s (mkBuilder (b_steps NN b) (b_kt_start NN b) (b_kt_finish NN b) o (b_max_step NN b) (b_inner NN b) (b_conv NN b))
    | SetMaxStep v => with_b s (mkBuilder (b_steps NN b) (b_kt_start NN b) (b_kt_finish NN b) (b_kt_ratio NN b) v (b_inner NN b) (b_conv NN b))
    | SetConv o => with_b s (mkBuilder (b_steps NN b) (b_kt_start NN b) (b_kt_finish NN b) (b_kt_ratio NN b) (b_max_step NN b) (b_inner NN b) o)
    | SetSeed (SeedConst n) => mkSB b (Some n)
    | SetSeed SeedIndex => mkSB b (Some index)
    end.

  Definition apply_setters (index : N) (s : sbuilder) (l : list setter) : sbuilder :=
    fold_left (apply_setter index) l s.

  (* where a stage takes its input state from *)
  Inductive stage_input := FromStart | FromPrevious.

  Record stage := mkStage { st_setters : list setter; st_input : stage_input }.

  (* the settings stage k of replica `index` runs with, for the user's settings u *)
  Definition stage_settings (stages : list stage) (k : nat) (index : N) (u : sbuilder) : sbuilder :=
    apply_setters index u (st_setters (nth k stages (mkStage [] FromPrevious))).

  (* equality of settings, field by field, by the numeric instance's equality test *)
  Definition oeqb (a b : option T) : bool :=
    match a, b with
    | None, None => true
    | Some x, Some y => x =? y
    | _, _ => false
    end.

  Definition builder_eqb (a b : builder NN) : bool :=
    N.eqb (b_steps NN a) (b_steps NN b) && (b_kt_start NN a =? b_kt_start NN b) && oeqb (b_kt_finish NN a) (b_kt_finish NN b)
    && oeqb (b_kt_ratio NN a) (b_kt_ratio NN b) && (b_max_step NN a =? b_max_step NN b) && N.eqb (b_inner NN a) (b_inner NN b)
    && oeqb (b_conv NN a) (b_conv NN b).

  Definition seed_eqb (a b : option N) : bool :=
    match a, b with
    | None, None => true
    | Some x, Some y => N.eqb x y
    | _, _ => false
    end.

  Definition sbuilder_eqb (a b : sbuilder) : bool :=
    builder_eqb (sb a) (sb b) && seed_eqb (sb_seed a) (sb_seed b).
End Cli.

