(* Svg.v - model of the SVG output (src/to_svg.rs): the six numbers printed for a transform, how an
   SVG renderer reads matrix(a b c d e f), and the list of <use> elements of a state's document.
   Definitions only. *)
From Coq Require Import ZArith List Bool String.
From PV Require Import Num model.Geom.
Import ListNotations.
Local Open Scope num_scope.

Section Svg.
  Variable NN : Num.
  Notation T := (carrier NN).

  (* format!("matrix({0} {1} {2} {3} {4} {5})", m[(0,0)], m[(1,0)], m[(0,1)], m[(1,1)], m[(0,2)], m[(1,2)]) *)
  Definition emit (t : tf NN) : list T :=
    [a00 NN t; a10 NN t; a01 NN t; a11 NN t; a02 NN t; a12 NN t].

  (* the SVG standard: matrix(a b c d e f) maps (x, y) to (a x + c y + e, b x + d y + f) *)
  Definition svg_apply (m : list T) (p : T * T) : T * T :=
    match m with
    | [a; b; c; d; e; f] => ((a * fst p + c * snd p) + e, (b * fst p + d * snd p) + f)
    | _ => p
    end.

  (* the <use> elements in document order: 9 cell frames, then for every placement the placement and its
     8 nearest lattice images *)
  Definition svg_cell_uses (c : cell NN) : list (tf NN) := periodic_images NN c (tf_identity NN) 1 true.
  Definition svg_mol_uses (c : cell NN) (rel : list (tf NN)) : list (tf NN) :=
    flat_map (fun pos => to_cartesian_isometry NN c pos :: periodic_images NN c pos 1 false) rel.

  (* a <use> element: the placement it shows and its attributes in the order they are set
     (element::Use as built by Transform2::as_svg() and .set(name, value)) *)
  Definition svg_elem : Type := (tf NN * list (string * string))%type.
  Definition svg_use (t : tf NN) : svg_elem := (t, []).
  Definition svg_set (e : svg_elem) (k v : string) : svg_elem := (fst e, snd e ++ [(k, v)]).

  (* the elements of a state's document after the definitions: the cell frames, then every placement (blue) followed
     by its images (green) *)
  Definition svg_elements (c : cell NN) (rel : list (tf NN)) : list svg_elem :=
    map (fun t => (t, [("href", "#cell")]%string)) (svg_cell_uses c)
    ++ flat_map (fun pos =>
         (to_cartesian_isometry NN c pos, [("href", "#mol"); ("fill", "blue")]%string)
         :: map (fun t => (t, [("href", "#mol"); ("fill", "green")]%string)) (periodic_images NN c pos 1 false)) rel.
End Svg.
