(* Optimiser.v - executable model of src/optimisation.rs and of the basis handles of
   src/basis.rs (StandardBasis: shared cell, clamp on set, old-value restore).

   The Monte-Carlo run is a flat state machine: `advance` performs one proposal
   (one iteration of the inner `for`), and, when it was the last proposal of an
   inner loop, the end-of-loop bookkeeping (cooling, convergence test, step
   adaptation).  `run` folds `advance` over the list of random draws.

   The score of the state under optimisation is an *oracle*
       score : N (index of the call) -> list T (parameter cells) -> option T
   so every theorem proved about `run` holds for every score function; the random
   stream is the explicit list of draws, so it holds for every stream.

   Definitions only; proofs are in proofs/Opt*.v. *)
From Coq Require Import ZArith NArith List Bool.
From PV Require Import Num.
Import ListNotations.
Local Open Scope num_scope.

Section Optimiser.
  Variable NN : Num.
  Notation T := (carrier NN).

  (* libm: f64::exp and f64::powf.  Ordinary parameters after the section closes. *)
  Variable fexp : T -> T.
  Variable fpow : T -> T -> T.

  (* ------------------------------------------------------------------ *)
  (* BuildOptimiser and build()                                          *)

  Record builder := mkBuilder {
    b_steps : N;
    b_kt_start : T;
    b_kt_finish : option T;
    b_kt_ratio : option T;
    b_max_step : T;
    b_inner : N;
    b_conv : option T;
  }.

  Record cfg := mkCfg {
    kt_start : T;
    factor : T;           (* MCOptimiser.kt_ratio: the cooling factor *)
    max_step : T;
    steps : N;
    inner : N;
    conv : option T;
  }.

  Definition ofN (n : N) : T := nofZ (Z.of_N n).
  Definition tenth : T := nofZ 1 / nofZ 10.
  (* f64::MAX = (2^53 - 1) * 2^971: float_ofpos builds it exactly (53 leading one bits, then doublings) *)
  Definition fmax_ : T := nofZ (2 ^ 1024 - 2 ^ 971).

  (* number of inner loops the run performs *)
  Definition loops_of (steps inner : N) : N :=
    if N.eqb inner 0 then 0%N else N.div steps inner.

  Definition build (b : builder) : cfg :=
    let inner' := N.min (b_inner b) (b_steps b) in
    let f :=
      match b_kt_ratio b, b_kt_finish b with
      | Some r, _ => nmin (nmax n0 (n1 - r)) fmax_   (* f64::max(0., 1. - ratio).min(f64::MAX) *)
      | None, Some fin =>
          if andb (n0 <? b_kt_start b) (negb (N.eqb inner' 0))
          then fpow (fin / b_kt_start b) (n1 / ofN (loops_of (b_steps b) inner'))
          else tenth
      | None, None => tenth
      end in
    {| kt_start := (if b_kt_start b =? n0 then n0 else b_kt_start b);   (* -0.0 becomes 0. *)
       factor := f; max_step := b_max_step b;
       steps := b_steps b; inner := inner'; conv := b_conv b |}.

  (* ------------------------------------------------------------------ *)
  (* Basis handles over shared parameter cells                           *)

  Record handle := mkHandle {
    h_cell : nat;       (* which parameter cell the handle points to *)
    h_min : T;
    h_max : T;
    h_old : T;          (* value to restore on rejection *)
  }.

  Fixpoint set_nth {A} (l : list A) (i : nat) (v : A) : list A :=
    match l, i with
    | [], _ => []
    | _ :: xs, O => v :: xs
    | x :: xs, S i' => x :: set_nth xs i' v
    end.

  Definition get_cell (ps : list T) (c : nat) : T := nth c ps n0.

  Definition with_old (h : handle) (v : T) : handle :=
    {| h_cell := h_cell h; h_min := h_min h; h_max := h_max h; h_old := v |}.

  (* StandardBasis::sample: value + step * (max - min) * g *)
  Definition sample (h : handle) (v step g : T) : T :=
    v + (step * (h_max h - h_min h)) * g.

  (* ------------------------------------------------------------------ *)
  (* Acceptance                                                          *)

  Definition energy_surface (new old kt : T) : T :=
    nmin (fexp ((new - old) / kt)) n1.

  (* accept_score, given the threshold drawn for this step.  None = rejected. *)
  Definition accept (thr : T) (new : option T) (old kt : T) : bool :=
    match new with
    | None => false
    | Some s =>
        if nis_nan s then false
        else if old <? s then true
        else thr <? energy_surface s old kt
    end.

  (* ------------------------------------------------------------------ *)
  (* The state machine                                                   *)

  Record draw := mkDraw { d_idx : nat; d_g : T; d_thr : T }.

  Record ost := mkOst {
    params : list T;
    handles : list handle;
    score_cur : T;
    kt : T;
    ratio : T;             (* step_ratio *)
    conv_count : N;
    loop_rej : N;
    score_start : T;
    loops_done : N;
    j : N;                 (* proposals done in the current inner loop *)
    calls : N;             (* score() calls so far *)
    fin : bool;            (* the outer loop is over *)
    converged : bool;      (* ... because of the convergence early return *)
    bad_index : bool;      (* a basis index out of range was drawn (Rust: expect() panic) *)
  }.

  Variable score : N -> list T -> option T.

  Definition thresh : T := nofZ 1 / nofZ 10000.    (* 1e-4 *)

  (* The part of the program state a proposal acts on: the parameter cells, the handles (the basis) and the number of
     score() calls made.  The three operations of the inner loop's body on it (None = the expect() panic).  The
     translation of the loop body (gen/GenFns.v gen_mc_step) is written with these; proofs/SrcOpt.v shows that
     it is mc_step below. *)
  Record world := mkWorld { w_params : list T; w_handles : list handle; w_calls : N }.

  Definition w_set_sampled (w : world) (idx : nat) (step g : T) : option world :=
    match nth_error (w_handles w) idx with
    | None => None
    | Some h =>
        let v := get_cell (w_params w) (h_cell h) in
        Some (mkWorld (set_nth (w_params w) (h_cell h) (nclamp (h_min h) (h_max h) (sample h v step g)))
                      (set_nth (w_handles w) idx (with_old h v)) (w_calls w))
    end.

  Definition w_score (w : world) : option T * world :=
    (score (w_calls w) (w_params w), mkWorld (w_params w) (w_handles w) (N.succ (w_calls w))).

  Definition w_reset (w : world) (idx : nat) : option world :=
    match nth_error (w_handles w) idx with
    | None => None
    | Some h => Some (mkWorld (set_nth (w_params w) (h_cell h) (h_old h)) (w_handles w) (w_calls w))
    end.


  (* One proposal: set_sampled, score, accept or reset. *)
  Definition mc_step (c : cfg) (st : ost) (d : draw) : ost :=
    match nth_error (handles st) (d_idx d) with
    | None =>
        mkOst (params st) (handles st) (score_cur st) (kt st) (ratio st)
              (conv_count st) (loop_rej st) (score_start st) (loops_done st)
              (j st) (calls st) true false true
    | Some h =>
        let v := get_cell (params st) (h_cell h) in
        let prop := nclamp (h_min h) (h_max h)
                      (sample h v (max_step c * ratio st) (d_g d)) in
        let ps' := set_nth (params st) (h_cell h) prop in
        let hs' := set_nth (handles st) (d_idx d) (with_old h v) in
        let new := score (calls st) ps' in
        if accept (d_thr d) new (score_cur st) (kt st) then
          mkOst ps' hs'
                (match new with Some s => s | None => score_cur st end)
                (kt st) (ratio st) (conv_count st) (loop_rej st) (score_start st)
                (loops_done st) (N.succ (j st)) (N.succ (calls st)) false false false
        else
          (* reset_value: write the handle's old value back into its cell *)
          mkOst (set_nth ps' (h_cell h) v) hs'
                (score_cur st)
                (kt st) (ratio st) (conv_count st) (N.succ (loop_rej st)) (score_start st)
                (loops_done st) (N.succ (j st)) (N.succ (calls st)) false false false
    end.

  (* End of an inner loop: cool, test convergence, adapt the step. *)
  Definition end_loop (c : cfg) (st : ost) : ost :=
    let kt' := kt st * factor c in
    let done' := N.succ (loops_done st) in
    let is_conv :=
      match conv c with
      | Some eps => (score_cur st - score_start st) <? eps
      | None => false
      end in
    let cc' :=
      match conv c with
      | Some _ => if is_conv then N.succ (conv_count st) else 0%N
      | None => conv_count st
      end in
    if andb is_conv (N.ltb 5 cc') then
      (* early return: the step ratio is not updated and no final score() call is made *)
      mkOst (params st) (handles st) (score_cur st) kt' (ratio st) cc' 0%N
            (score_cur st) done' 0%N (calls st) true true false
    else
      let ratio' :=
        if thresh <? ratio st
        then nmin (ratio st * (ofN (inner c) / (ofN (loop_rej st) + n1))) n1
        else ratio st in
      mkOst (params st) (handles st) (score_cur st) kt' ratio' cc' 0%N
            (score_cur st) done' 0%N (calls st)
            (N.leb (loops_of (steps c) (inner c)) done') false false.

  Definition advance (c : cfg) (st : ost) (d : draw) : ost :=
    if fin st then st
    else
      let st1 := mc_step c st d in
      if bad_index st1 then st1
      else if N.eqb (j st1) (inner c) then end_loop c st1 else st1.

  (* The state after the initial score() call. *)
  Definition init (c : cfg) (ps : list T) (hs : list handle) (s0 : T) : ost :=
    mkOst ps hs s0 (kt_start c) n1 0%N 0%N s0 0%N 0%N 1%N
          (N.eqb (loops_of (steps c) (inner c)) 0) false false.

  Definition run (c : cfg) (st : ost) (draws : list draw) : ost :=
    fold_left (advance c) draws st.

  (* All intermediate states, for statements about whole histories. *)
  Fixpoint run_states (c : cfg) (st : ost) (draws : list draw) : list ost :=
    match draws with
    | [] => []
    | d :: ds => let st' := advance c st d in st' :: run_states c st' ds
    end.

  (* Outcome of optimise_state. *)
  Inductive outcome :=
  | Returned (st : ost)       (* normal return; params st is the returned state *)
  | PanicInvalidInput         (* initial score() was None *)
  | PanicBadIndex
  | PanicFinalInvalid         (* the final assertion failed *)
  | OutOfDraws.               (* the supplied random stream was too short (not a Rust outcome) *)

  Definition optimise (c : cfg) (ps : list T) (hs : list handle) (draws : list draw) : outcome :=
    match score 0%N ps with
    | None => PanicInvalidInput
    | Some s0 =>
        let st := run c (init c ps hs s0) draws in
        if bad_index st then PanicBadIndex
        else if negb (fin st) then OutOfDraws
        else if converged st then Returned st
        else match score (calls st) (params st) with
             | Some _ => Returned st
             | None => PanicFinalInvalid
             end
    end.
End Optimiser.

Arguments mkBuilder {_}. Arguments mkCfg {_}. Arguments mkHandle {_}.
Arguments mkDraw {_}. Arguments mkOst {_}. Arguments mkWorld {_}.
