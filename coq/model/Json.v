(* Json.v - model of the serialised form of a state (serde derive of PackedState / PotentialState with
   the custom SharedValue codec): a JSON tree, the encoder in field order, and the decoder.
   The shape is kept as an opaque subtree.  Definitions only. *)
From Coq Require Import ZArith List Bool String Floats.
Import ListNotations.
Local Open Scope string_scope.

Inductive json :=
| JNum (x : float)
| JInt (n : Z)
| JBool (b : bool)
| JStr (s : string)
| JArr (l : list json)
| JObj (l : list (string * json)).

Record jsite := mkJsite {
  js_letter : string; js_syms : list (list float); js_numrot : Z; js_m1 : bool; js_m2 : bool;
  js_x : float; js_y : float; js_angle : float }.

Record jstate := mkJstate {
  j_wname : string; j_wfamily : string;
  j_shape : json;
  j_len : float; j_ratio : float; j_angle : float; j_cfamily : string;
  j_sites : list jsite }.

Definition enc_site (s : jsite) : json :=
  JObj [("wyckoff", JObj [("letter", JStr (js_letter s));
                          ("symmetries", JArr (map (fun m => JArr (map JNum m)) (js_syms s)));
                          ("num_rotations", JInt (js_numrot s));
                          ("mirror_primary", JBool (js_m1 s));
                          ("mirror_secondary", JBool (js_m2 s))]);
        ("x", JNum (js_x s)); ("y", JNum (js_y s)); ("angle", JNum (js_angle s))].

Definition encode (s : jstate) : json :=
  JObj [("wallpaper", JObj [("name", JStr (j_wname s)); ("family", JStr (j_wfamily s))]);
        ("shape", j_shape s);
        ("cell", JObj [("length", JNum (j_len s)); ("ratio", JNum (j_ratio s)); ("angle", JNum (j_angle s));
                       ("family", JStr (j_cfamily s))]);
        ("occupied_sites", JArr (map enc_site (j_sites s)))].

Fixpoint all_some {A} (l : list (option A)) : option (list A) :=
  match l with
  | [] => Some []
  | None :: _ => None
  | Some x :: r => match all_some r with Some xs => Some (x :: xs) | None => None end
  end.

Definition dec_num (j : json) : option float := match j with JNum x => Some x | _ => None end.

Definition dec_site (j : json) : option jsite :=
  match j with
  | JObj [("wyckoff", JObj [("letter", JStr l); ("symmetries", JArr ms); ("num_rotations", JInt n);
                            ("mirror_primary", JBool b1); ("mirror_secondary", JBool b2)]);
          ("x", JNum x); ("y", JNum y); ("angle", JNum a)] =>
      match all_some (map (fun m => match m with JArr xs => all_some (map dec_num xs) | _ => None end) ms) with
      | Some syms => Some (mkJsite l syms n b1 b2 x y a)
      | None => None
      end
  | _ => None
  end.

Definition decode (j : json) : option jstate :=
  match j with
  | JObj [("wallpaper", JObj [("name", JStr wn); ("family", JStr wf)]);
          ("shape", sh);
          ("cell", JObj [("length", JNum l); ("ratio", JNum r); ("angle", JNum a); ("family", JStr cf)]);
          ("occupied_sites", JArr ss)] =>
      match all_some (map dec_site ss) with
      | Some sites => Some (mkJstate wn wf sh l r a cf sites)
      | None => None
      end
  | _ => None
  end.

(* "depth:key" of every object key in emission order (the format of gen_schema) *)
Definition nat_digit (n : nat) : string :=
  match n with
  | 0 => "0" | 1 => "1" | 2 => "2" | 3 => "3" | 4 => "4" | 5 => "5" | 6 => "6" | 7 => "7" | 8 => "8" | _ => "9"
  end%nat.

Fixpoint keys_of (fuel : nat) (depth : nat) (j : json) : list string :=
  match fuel with
  | O => []
  | S f =>
      match j with
      | JObj l => flat_map (fun kv => (nat_digit (S depth) ++ ":" ++ fst kv) :: keys_of f (S depth) (snd kv)) l
      | JArr l => flat_map (keys_of f (S depth)) l
      | _ => []
      end
  end.
