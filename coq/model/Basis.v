(* Basis.v - which parameters of a state the optimiser is handed, and the range each is declared with:
   Cell2::get_degrees_of_freedom (src/cell.rs), OccupiedSite::get_basis (src/site.rs), WyckoffSite::degrees_of_freedom
   (src/wallpaper.rs) and State::generate_basis (src/state/packed.rs, src/state/potential.rs).
   Hand-written; gen/GenFns.v carries the same functions as translated from the source text on every run and
   proofs/BasisFacts.v proves them equal.  Definitions only. *)
From Coq Require Import ZArith NArith List Bool.
From PV Require Import Num model.Tables.
Import ListNotations.
Local Open Scope num_scope.

(* the shared values a StandardBasis may point at *)
Inductive pvar := VLength | VRatio | VAngle | VSiteX | VSiteY | VSiteAngle.

Definition pvar_eqb (a b : pvar) : bool :=
  match a, b with
  | VLength, VLength | VRatio, VRatio | VAngle, VAngle | VSiteX, VSiteX | VSiteY, VSiteY | VSiteAngle, VSiteAngle => true
  | _, _ => false
  end.

Section Basis.
  Variable NN : Num.
  Notation T := (carrier NN).
  Variable pi_ : T.

  (* StandardBasis::new(&value, min, max) *)
  Record decl := mkDecl { d_var : pvar; d_min : T; d_max : T }.

  (* every cell: the length, down to 0.01 and up to its current value; oblique cells: the side ratio (0.1 .. current) and
     the angle (pi/6 .. pi/2); rectangular cells: the side ratio; square and hexagonal cells: nothing else *)
  Definition cell_dof (f : family) (length_ ratio_ : T) : list decl :=
    mkDecl VLength (nofZ 1 / nofZ 100) length_ ::
    match f with
    | Monoclinic => [mkDecl VRatio (nofZ 1 / nofZ 10) ratio_; mkDecl VAngle (pi_ / nofZ 6) (pi_ / nofZ 2)]
    | Orthorhombic => [mkDecl VRatio (nofZ 1 / nofZ 10) ratio_]
    | _ => []
    end.

  (* a site: x and y in [-1/2, 1/2], the orientation in [0, 2 pi / rot_symmetry], each if the site leaves it free *)
  Definition site_basis (dof : list bool) (rot_symmetry : N) : list decl :=
    (if nth 0 dof false then [mkDecl VSiteX (- (nofZ 1 / nofZ 2)) (nofZ 1 / nofZ 2)] else []) ++
    (if nth 1 dof false then [mkDecl VSiteY (- (nofZ 1 / nofZ 2)) (nofZ 1 / nofZ 2)] else []) ++
    (if nth 2 dof false then [mkDecl VSiteAngle n0 ((nofZ 2 * pi_) / nofZ (Z.of_N rot_symmetry))] else []).

  (* general positions: all three are free *)
  Definition wyckoff_dof : list bool := [true; true; true].

  (* generate_basis: the cell's, then each site's in order (sites given by their degrees of freedom) *)
  Definition generate_basis (f : family) (length_ ratio_ : T) (sites : list (list bool)) : list decl :=
    cell_dof f length_ ratio_ ++ flat_map (fun dof => site_basis dof 1%N) sites.

  (* ---- the state a group and a shape start from (initialise / from_family / from_wyckoff) *)
  Definition initial_length_packed (radius : T) (num_shapes : N) : T := (nofZ 4 * radius) * nofZ (Z.of_N num_shapes).
  Definition initial_length_potential (radius : T) (num_shapes : N) : T := (nofZ 2 * radius) * nofZ (Z.of_N num_shapes).
  Definition initial_angle (f : family) : T := match f with Hexagonal => pi_ / nofZ 3 | _ => pi_ / nofZ 2 end.
  Definition initial_ratio : T := n1.
  Definition initial_site (multiplicity : N) : T * T * T :=
    let position := (- (nofZ 1 / nofZ 2)) + ((nofZ 1 / nofZ 2) / nofZ (Z.of_N multiplicity)) in (position, position, n0).

  (* the values the handles of generate_basis point at, in its order, for sites of the given multiplicities *)
  Definition initial_values (f : family) (len : T) (mults : list N) : list T :=
    (len :: match f with
            | Monoclinic => [initial_ratio; initial_angle f]
            | Orthorhombic => [initial_ratio]
            | _ => []
            end)
    ++ flat_map (fun m => let '(x, y, a) := initial_site m in [x; y; a]) mults.
End Basis.

Arguments mkDecl {_}.
