(* Pipeline.v - model of analyse_state (src/main.rs): `replications` replicas, each the composition of
   three optimisation stages seeded with the replica index, reduced with `max` (std::cmp::max keeps the
   second argument on a tie; rayon combines ordered halves of the index range with it).
   Definitions only. *)
From Coq Require Import List Bool.
From PV Require Import Num.
Import ListNotations.

Section Pipeline.
  Variable A : Type.
  Variable leb : A -> A -> bool.      (* a <= b in the order of the scores *)

  Definition max2 (a b : A) : A := if leb a b then b else a.

  (* Iterator::max / reduce_with(max) over the results in index order *)
  Definition best (l : list A) : option A :=
    match l with [] => None | x :: r => Some (fold_left max2 r x) end.

  (* any way rayon may split the index range and combine the halves *)
  Inductive tree := Leaf (a : A) | Node (l r : tree).
  Fixpoint flatten (t : tree) : list A :=
    match t with Leaf a => [a] | Node l r => flatten l ++ flatten r end.
  Fixpoint reduce (t : tree) : A :=
    match t with Leaf a => a | Node l r => max2 (reduce l) (reduce r) end.

  (* the three stages of one replica; every stage gets the replica index as its seed *)
  Variable S : Type.
  Variable stage1 stage2 stage3 : nat -> S -> S.
  Variable result : S -> A.
  Definition replica (i : nat) (s0 : S) : A := result (stage3 i (stage2 i (stage1 i s0))).

  (* Ok(best) or Err("Error in running optimisation.") when there are no replicas *)
  Definition analyse (k : nat) (s0 : S) : option A := best (map (fun i => replica i s0) (seq 0 k)).
End Pipeline.

(* The order on states (src/state/packed.rs, src/state/potential.rs): PartialEq / PartialOrd compare the
   SCORES with f64's own comparison; either score undefined (or NaN) gives "unordered". *)
Section Order.
  Variable NN : Num.
  Notation T := (carrier NN).
  Local Open Scope num_scope.

  (* f64::partial_cmp: from the two comparisons; neither holds for a NaN *)
  Definition f64_partial_cmp (s o : T) : option comparison :=
    match s <=? o, o <=? s with
    | false, false => None
    | false, true => Some Gt
    | true, false => Some Lt
    | true, true => Some Eq
    end.

  Definition score_cmp (a b : option T) : option comparison :=
    match a, b with
    | Some s, Some o =>
        match s <=? o, o <=? s with
        | false, false => None
        | false, true => Some Gt
        | true, false => Some Lt
        | true, true => Some Eq
        end
    | _, _ => None
    end.

  Definition score_eq (a b : option T) : bool :=
    match a, b with Some s, Some o => s =? o | _, _ => false end.

  (* std::cmp::max(a, b) = Ord::max = `if other < self { self } else { other }` (core::cmp, as compiled here;
     rayon's ParallelIterator::max is reduce_with(Ord::max)): `<` is PartialOrd::lt, i.e. partial_cmp == Less,
     so an unordered pair keeps the SECOND argument and nothing panics.  true = the first is kept. *)
  Definition max_keeps_first (a b : option T) : bool :=
    match score_cmp b a with Some Lt => true | _ => false end.

  (* Iterator::max (sequential) folds with Ord::cmp = partial_cmp().unwrap(): None = a panic *)
  Definition cmp_unwrap (a b : option T) : option comparison := score_cmp a b.
End Order.

(* Option::unwrap in a translation that carries "None = a panic" along *)
Definition unwrap_or_panic {A} (o : option A) : option A := o.
