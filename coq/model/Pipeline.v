(* Pipeline.v - model of analyse_state (src/main.rs): `replications` replicas, each the composition of
   three optimisation stages seeded with the replica index, reduced with `max` (std::cmp::max keeps the
   second argument on a tie; rayon combines ordered halves of the index range with it).
   Definitions only. *)
From Coq Require Import List Bool.
Import ListNotations.

Section Pipeline.
  Variable A : Type.
  Variable leb : A -> A -> bool.      (* a <= b in the order of the scores *)

  Definition max2 (a b : A) : A := if leb a b then b else a.

  (* Iterator::max / reduce_with(max) over the results in index order *)
  Definition best (l : list A) : option A :=
    match l with [] => None | x :: r => Some (fold_left max2 r x) end.

  (* any way rayon may split the index range and combine the halves *)
  Inductive tree := Leaf (a : A) | Node (l r : tree).
  Fixpoint flatten (t : tree) : list A :=
    match t with Leaf a => [a] | Node l r => flatten l ++ flatten r end.
  Fixpoint reduce (t : tree) : A :=
    match t with Leaf a => a | Node l r => max2 (reduce l) (reduce r) end.

  (* the three stages of one replica; every stage gets the replica index as its seed *)
  Variable S : Type.
  Variable stage1 stage2 stage3 : nat -> S -> S.
  Variable result : S -> A.
  Definition replica (i : nat) (s0 : S) : A := result (stage3 i (stage2 i (stage1 i s0))).

  (* Ok(best) or Err("Error in running optimisation.") when there are no replicas *)
  Definition analyse (k : nat) (s0 : S) : option A := best (map (fun i => replica i s0) (seq 0 k)).
End Pipeline.
