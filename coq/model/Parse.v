(* Parse.v - executable model of Transform2::from_operations (src/transform.rs): trimming of
   outer parentheses, split at commas, the two-component check and the per-character state
   machine with its three registers (sign, constant, operator), quirks included ('*' divides,
   a second constant overwrites the first, digits are single).  Strings are lists of bytes:
   every byte of a multi-byte UTF-8 character is >= 128, matches no case, and is rejected exactly
   as the Rust code rejects the character.  Definitions only. *)
From Coq Require Import ZArith List Bool Ascii String.
From PV Require Import Num.
Import ListNotations.
Local Open Scope num_scope.

Definition is_brace (c : ascii) : bool := orb (Ascii.eqb c "(") (Ascii.eqb c ")").

Fixpoint drop_while (p : ascii -> bool) (l : list ascii) : list ascii :=
  match l with
  | [] => []
  | c :: r => if p c then drop_while p r else l
  end.

(* str::trim_matches(&['(', ')']) *)
Definition trim_braces (l : list ascii) : list ascii :=
  rev (drop_while is_brace (rev (drop_while is_brace l))).

(* str::split(','): always at least one piece *)
Fixpoint split_on (sep : ascii) (l : list ascii) : list (list ascii) :=
  match l with
  | [] => [[]]
  | c :: r =>
      if Ascii.eqb c sep then [] :: split_on sep r
      else match split_on sep r with
           | h :: t => (c :: h) :: t
           | [] => [[c]]
           end
  end.

(* str::split_terminator(','): the trailing piece is skipped if empty *)
Definition split_terminator (sep : ascii) (l : list ascii) : list (list ascii) :=
  let ps := split_on sep l in
  match last ps [] with
  | [] => removelast ps
  | _ => ps
  end.

Definition digit_of (c : ascii) : option Z :=
  let n := Z.of_nat (nat_of_ascii c) in
  if andb (48 <=? n)%Z (n <=? 57)%Z then Some (n - 48)%Z else None.

(* str::trim_matches(&[chars]): the characters of the set removed from both ends *)
Definition trim_chars (cs : list ascii) (l : list ascii) : list ascii :=
  let p := fun c => existsb (Ascii.eqb c) cs in
  rev (drop_while p (rev (drop_while p l))).

(* the code of a character, and the value of a digit character as the source converts it
   (c.to_string().parse::<u64>()? as f64 in the '0'..='9' arm) *)
Definition char_code (c : ascii) : Z := Z.of_nat (nat_of_ascii c).
Definition digit_value_ (NN : Num) (c : ascii) : carrier NN := nofZ (char_code c - 48).

Section Parse.
  Variable NN : Num.
  Notation T := (carrier NN).

  Record pst := mkPst {
    r_x : T;                  (* transform[(index, 0)] *)
    r_y : T;                  (* transform[(index, 1)] *)
    r_sign : T;
    r_const : T;
    r_op : option ascii;
  }.

  Definition pinit : pst := mkPst n0 n0 n1 n0 None.

  Definition pstep (st : pst) (c : ascii) : option pst :=
    if Ascii.eqb c "x" then Some (mkPst (r_sign st) (r_y st) n1 (r_const st) (r_op st))
    else if Ascii.eqb c "y" then Some (mkPst (r_x st) (r_sign st) n1 (r_const st) (r_op st))
    else if orb (Ascii.eqb c "*") (Ascii.eqb c "/") then
      Some (mkPst (r_x st) (r_y st) (r_sign st) (r_const st) (Some c))
    else if Ascii.eqb c "-" then
      Some (mkPst (r_x st) (r_y st) (- n1) (r_const st) (r_op st))
    else match digit_of c with
         | Some d =>
             let val := nofZ d in
             let k := match r_op st with
                      | Some o =>
                          if Ascii.eqb o "/" then (r_sign st * r_const st) / val
                          else if Ascii.eqb o "*" then (r_sign st * r_const st) / val
                          else n0
                      | None => r_sign st * val
                      end in
             Some (mkPst (r_x st) (r_y st) n1 k None)
         | None =>
             if orb (Ascii.eqb c " ") (Ascii.eqb c "+") then Some st else None
         end.

  Fixpoint pfold (st : pst) (l : list ascii) : option pst :=
    match l with
    | [] => Some st
    | c :: r => match pstep st c with Some st' => pfold st' r | None => None end
    end.

  (* one row of the matrix: coefficients of x, y and the constant *)
  Definition parse_component (l : list ascii) : option (T * T * T) :=
    match pfold pinit l with
    | Some st => Some (r_x st, r_y st, r_const st)
    | None => None
    end.

  Inductive presult :=
  | POk (row0 row1 : T * T * T)     (* the third row of the matrix is all zero *)
  | PErr.

  Definition from_operations_l (l : list ascii) : presult :=
    match split_terminator "," (trim_braces l) with
    | [a; b] =>
        match parse_component a, parse_component b with
        | Some ra, Some rb => POk ra rb
        | _, _ => PErr
        end
    | _ => PErr
    end.

  Definition from_operations (s : string) : presult :=
    from_operations_l (list_ascii_of_string s).
End Parse.

Arguments POk {_}. Arguments PErr {_}.
