(* SrcState.v - src/state/packed.rs and src/state/potential.rs as translated from the source on this run are the model's:
   check_intersection and both score functions as wholes, the position pipelines, the order on states. *)
From Coq Require Import ZArith NArith String List Bool Lia.
From PV Require Import Num model.Geom model.Optimiser model.Svg model.Pipeline model.Iter gen.GenFns proofs.ListLemmas.
Import ListNotations.
Local Open Scope num_scope.
From PV Require Import proofs.SrcCell.

(* every function of the source this file is about was translated on this run *)
Theorem state_source_translated :
  translated_gen_positions = true /\
  translated_gen_total_shapes = true /\
  translated_gen_relative_positions = true /\
  translated_gen_cartesian_positions = true /\
  translated_gen_lj_total_shapes = true /\
  translated_gen_lj_relative_positions = true /\
  translated_gen_lj_cartesian_positions = true /\
  translated_gen_density_precheck = true /\
  translated_gen_shells = true /\
  translated_gen_radius_sq = true /\
  translated_gen_check_intersection = true /\
  translated_gen_packed_score = true /\
  translated_gen_lj_score = true /\
  translated_gen_lj_final = true.
Proof. repeat split; reflexivity. Qed.

Section Source.
  Variable NN : Num.
  Notation T := (carrier NN).
  Variable fexp facos : T -> T.
  Variable fpow : T -> T -> T.
  Variable powi : T -> Z -> T.

  (* ---- src/state/packed.rs, src/state/potential.rs *)
  Theorem density_precheck_is_source : forall st, gen_density_precheck NN st = density_precheck NN st.
  Proof. reflexivity. Qed.

  Theorem shells_is_source : forall st, gen_shells NN st = shells_of NN st.
  Proof. reflexivity. Qed.

  Theorem radius_sq_is_source : forall st, gen_radius_sq NN st = sq NN (p_radius NN st * n2).
  Proof. reflexivity. Qed.

  Theorem packed_score_is_source : forall st, gen_packed_score NN st = packed_score NN st.
  Proof. reflexivity. Qed.

  Theorem lj_final_is_source : forall st,
    gen_lj_final NN st (lj_sum NN powi st) = lj_score NN powi st.
  Proof. reflexivity. Qed.

End Source.

(* for (i, x) in l.enumerate() { for y in l.skip(i + 1) { if f x y { return true } } }  visits every unordered pair once:
   it is the search over the tails of l *)
Lemma pairs_enumerate_skip {A} (f : A -> A -> bool) (pre suf : list A) :
  existsb (fun '(i, x) => orb (existsb (fun y => orb (f x y) false) (skipn (S i) (pre ++ suf))) false)
          (enumerate_from (length pre) suf)
  = existsb (fun xr => existsb (fun y => f (fst xr) y) (snd xr)) (tails suf).
Proof.
  revert pre. induction suf as [|x suf IH]; intros pre; [reflexivity|].
  cbn [enumerate_from existsb tails fst snd].
  rewrite orb_false_r.
  assert (E : skipn (S (length pre)) (pre ++ x :: suf) = suf).
  { replace (S (length pre)) with (length (pre ++ [x])) by (rewrite app_length; cbn; lia).
    replace (pre ++ x :: suf) with ((pre ++ [x]) ++ suf) by (rewrite <- app_assoc; reflexivity).
    rewrite skipn_app, skipn_all, Nat.sub_diag. reflexivity. }
  rewrite E.
  rewrite (existsb_ext_in (fun y => orb (f x y) false) (fun y => f x y)) by (intros; apply orb_false_r).
  f_equal.
  specialize (IH (pre ++ [x])). rewrite app_length in IH. cbn [length] in IH.
  replace (length pre + 1)%nat with (S (length pre)) in IH by lia.
  replace ((pre ++ [x]) ++ suf) with (pre ++ x :: suf) in IH by (rewrite <- app_assoc; reflexivity).
  exact IH.
Qed.

Theorem check_intersection_is_source : forall (NN : Num) (st : pstate NN),
  gen_check_intersection NN st = check_intersection NN st.
Proof.
  intros NN st. unfold gen_check_intersection, check_intersection.
  change ((cell_area NN (p_cell NN st)) <? ((p_area NN st) * (nofZ (total_shapes NN st)))) with (density_precheck NN st).
  f_equal. cbv zeta. f_equal.
  - (* the pairs inside the cell *)
    unfold in_cell_intersection, enumerate.
    set (shapes := map (fun p => shape_transform NN p (p_shape NN st)) (cartesian_positions NN st)).
    change (map (fun p => (fun t => shape_transform NN t (p_shape NN st)) p) (cartesian_positions NN st)) with shapes.
    exact (pairs_enumerate_skip (shape_intersects NN) [] shapes).
  - (* the images *)
    rewrite orb_false_r. unfold periodic_intersection.
    apply existsb_ext_in. intros t1 _.
    rewrite orb_false_r.
    destruct (tf_position NN t1) as [x1 y1] eqn:E1.
    apply existsb_ext_in. intros pos _.
    rewrite orb_false_r.
    apply existsb_ext_in. intros t2 _.
    destruct (tf_position NN t2) as [x2 y2] eqn:E2.
    rewrite !orb_false_r.
    change (shells_of NN st) with (nceilZ ((nofZ 2 * p_radius NN st) / (c_sin NN (p_cell NN st) * nmin (cell_a NN (p_cell NN st)) (cell_b NN (p_cell NN st))))).
    change (sq NN (p_radius NN st * nofZ 2)) with (sq NN (p_radius NN st * n2)).
    destruct (norm2 NN (x1 - x2) (y1 - y2) <=? sq NN (p_radius NN st * n2)); reflexivity.
Qed.

(* the accumulating double loop over enumerate / skip adds the terms of the model's loop over tails, in the same order *)
Lemma sum_enumerate_skip {A} (NN : Num) (f : A -> A -> carrier NN) (pre suf : list A) (acc : carrier NN) :
  fold_left (fun sum '(i, x) => fold_left (fun sum y => sum + f x y) (skipn (S i) (pre ++ suf)) sum)
            (enumerate_from (length pre) suf) acc
  = fold_left (fun acc0 xr => fold_left (fun acc2 y => acc2 + f (fst xr) y) (snd xr) acc0) (tails suf) acc.
Proof.
  revert pre acc. induction suf as [|x suf IH]; intros pre acc; [reflexivity|].
  cbn [enumerate_from fold_left tails fst snd].
  assert (E : skipn (S (length pre)) (pre ++ x :: suf) = suf).
  { replace (S (length pre)) with (length (pre ++ [x])) by (rewrite app_length; cbn; lia).
    replace (pre ++ x :: suf) with ((pre ++ [x]) ++ suf) by (rewrite <- app_assoc; reflexivity).
    rewrite skipn_app, skipn_all, Nat.sub_diag. reflexivity. }
  rewrite E.
  specialize (IH (pre ++ [x])). rewrite app_length in IH. cbn [length] in IH.
  replace (length pre + 1)%nat with (S (length pre)) in IH by lia.
  replace ((pre ++ [x]) ++ suf) with (pre ++ x :: suf) in IH by (rewrite <- app_assoc; reflexivity).
  apply IH.
Qed.

Theorem lj_score_is_source : forall (NN : Num) (powi : carrier NN -> Z -> carrier NN) (st : ljstate NN),
  gen_lj_score NN powi st = lj_score NN powi st.
Proof.
  intros NN powi st. unfold gen_lj_score, lj_score. cbv zeta. f_equal. f_equal. f_equal.
  unfold lj_sum. cbv zeta.
  set (shapes := map (fun p => map (lj_transform NN p) (l_shape NN st)) (lj_cartesian NN st)).
  change (map (fun p => (fun t => map (lj_transform NN t) (l_shape NN st)) p) (lj_cartesian NN st)) with shapes.
  unfold enumerate.
  pose proof (sum_enumerate_skip NN (ljshape_energy NN powi) [] shapes n0) as H. cbn [app length] in H.
  unfold ljshape in *. rewrite H. clear H.
  apply fold_left_ext_in. intros acc shape1 _.
  apply fold_left_ext_in. intros acc2 pos _.
  rewrite fold_left_map. reflexivity.
Qed.

(* ---- PackedState::total_shapes, relative_positions, cartesian_positions as wholes *)
Section StatePipelines.
  Variable NN : Num.

  Lemma fold_count {A} (n : nat) (l : list A) (acc : N) :
    fold_left (fun sum (_ : A) => N.add sum (N.of_nat n)) l acc = N.add acc (N.of_nat (length l * n)).
  Proof.
    revert acc. induction l as [|x l IH]; intros acc; cbn [fold_left length].
    - cbn. now rewrite N.add_0_r.
    - rewrite IH. cbn [Nat.mul]. rewrite Nat2N.inj_add. lia.
  Qed.

  Theorem total_shapes_is_source : forall st : pstate NN,
    Z.of_N (gen_total_shapes NN st) = total_shapes NN st.
  Proof.
    intros st. unfold gen_total_shapes, total_shapes. rewrite fold_count. cbn [N.add]. rewrite nat_N_Z. reflexivity.
  Qed.

  Theorem state_positions_are_source : forall st : pstate NN,
    gen_relative_positions NN st = relative_positions NN st
    /\ gen_cartesian_positions NN st = cartesian_positions NN st.
  Proof.
    intros st. unfold gen_relative_positions, gen_cartesian_positions, relative_positions, cartesian_positions.
    assert (E : flat_map (gen_positions NN (p_syms NN st)) (p_sites NN st) = flat_map (positions NN (p_syms NN st)) (p_sites NN st)).
    { apply flat_map_ext. intros s. apply positions_is_source. }
    split; [exact E|]. unfold gen_relative_positions. rewrite E. reflexivity.
  Qed.

  Theorem lj_state_pipelines_are_source : forall st : ljstate NN,
    gen_lj_total_shapes NN st = N.of_nat (List.length (l_sites NN st) * List.length (l_syms NN st))
    /\ gen_lj_relative_positions NN st = lj_relative NN st
    /\ gen_lj_cartesian_positions NN st = lj_cartesian NN st.
  Proof.
    intros st. unfold gen_lj_total_shapes, gen_lj_relative_positions, gen_lj_cartesian_positions, lj_relative, lj_cartesian.
    assert (E : flat_map (gen_positions NN (l_syms NN st)) (l_sites NN st) = flat_map (positions NN (l_syms NN st)) (l_sites NN st)).
    { apply flat_map_ext. intros s. apply positions_is_source. }
    split; [rewrite fold_count; reflexivity|]. split; [exact E|]. unfold gen_lj_relative_positions. rewrite E. reflexivity.
  Qed.
End StatePipelines.
