(* OptLoop.v - theorems about the loop structure of the optimiser model:
   temperature schedule (C18), step-ratio bound (C19), amount of work and normal
   termination (C20), well-definedness of the returned score (C08), convergence (C20).
   Everything holds for every numeric instance, every exp function, every score oracle and
   every random stream, except where a theorem lists an explicit hypothesis. *)
From Coq Require Import ZArith NArith List Bool Lia.
From PV Require Import Num model.Optimiser model.OptSpec proofs.OptStruct.
Import ListNotations.

#[local] Arguments params {_}. #[local] Arguments handles {_}. #[local] Arguments score_cur {_}.
#[local] Arguments kt {_}. #[local] Arguments ratio {_}. #[local] Arguments conv_count {_}.
#[local] Arguments loop_rej {_}. #[local] Arguments score_start {_}.
#[local] Arguments loops_done {_}. #[local] Arguments j {_}. #[local] Arguments calls {_}.
#[local] Arguments fin {_}. #[local] Arguments converged {_}. #[local] Arguments bad_index {_}.
#[local] Arguments kt_start {_}. #[local] Arguments factor {_}. #[local] Arguments max_step {_}.
#[local] Arguments steps {_}. #[local] Arguments inner {_}. #[local] Arguments conv {_}.
#[local] Arguments h_cell {_}. #[local] Arguments h_min {_}. #[local] Arguments h_max {_}.
#[local] Arguments h_old {_}.
#[local] Arguments d_idx {_}. #[local] Arguments d_g {_}. #[local] Arguments d_thr {_}.
#[local] Arguments b_steps {_}. #[local] Arguments b_inner {_}. #[local] Arguments b_kt_ratio {_}.
#[local] Arguments b_kt_finish {_}. #[local] Arguments b_kt_start {_}.

Section S.
  Variable NN : Num.
  Variable fexp : carrier NN -> carrier NN.
  Variable fpow : carrier NN -> carrier NN -> carrier NN.
  Variable score : N -> list (carrier NN) -> option (carrier NN).

  Notation T := (carrier NN).
  Notation cfg := (cfg NN).
  Notation ost := (ost NN).
  Notation draw := (draw NN).
  Notation mc_step := (mc_step NN fexp score).
  Notation end_loop := (end_loop NN).
  Notation advance := (advance NN fexp score).
  Notation run := (run NN fexp score).
  Notation init := (init NN).
  Notation accept := (accept NN fexp).
  Notation proposal := (proposal NN).
  Notation step_accepted := (step_accepted NN fexp score).
  Notation accepts := (accepts NN fexp score).
  Notation draws_in_range := (draws_in_range NN).
  Notation cooled := (cooled NN).
  Notation work := (work NN).
  Notation build := (build NN fpow).
  Notation optimise := (optimise NN fexp score).

  Definition L (c : cfg) : N := loops_of (steps c) (inner c).

  (* ------------------------------------------------------------------ *)
  (* what a proposal step leaves alone                                   *)

  Lemma mc_step_keeps c st d :
    kt (mc_step c st d) = kt st /\ ratio (mc_step c st d) = ratio st
    /\ loops_done (mc_step c st d) = loops_done st
    /\ conv_count (mc_step c st d) = conv_count st
    /\ score_start (mc_step c st d) = score_start st
    /\ length (handles (mc_step c st d)) = length (handles st).
  Proof.
    unfold Optimiser.mc_step.
    destruct (nth_error (handles st) (d_idx d)) as [h|]; [|cbn; auto 10].
    cbv zeta. destruct (Optimiser.accept _ _ _ _ _ _); cbn;
      rewrite set_nth_length; auto 10.
  Qed.

  Lemma mc_step_in_range c st d :
    (d_idx d < length (handles st))%nat ->
    bad_index (mc_step c st d) = false /\ fin (mc_step c st d) = false
    /\ j (mc_step c st d) = N.succ (j st) /\ calls (mc_step c st d) = N.succ (calls st).
  Proof.
    intros Hlt. unfold Optimiser.mc_step.
    destruct (nth_error (handles st) (d_idx d)) as [h|] eqn:E.
    - cbv zeta. destruct (Optimiser.accept _ _ _ _ _ _); cbn; auto.
    - apply nth_error_None in E. lia.
  Qed.

  Lemma mc_step_out_of_range c st d :
    (length (handles st) <= d_idx d)%nat -> bad_index (mc_step c st d) = true.
  Proof.
    intros Hle. unfold Optimiser.mc_step.
    destruct (nth_error (handles st) (d_idx d)) as [h|] eqn:E; [|reflexivity].
    assert (nth_error (handles st) (d_idx d) <> None) by congruence.
    apply nth_error_Some in H. lia.
  Qed.

  Lemma end_loop_fields c st :
    kt (end_loop c st) = nmul (kt st) (factor c)
    /\ loops_done (end_loop c st) = N.succ (loops_done st)
    /\ j (end_loop c st) = 0%N /\ calls (end_loop c st) = calls st
    /\ bad_index (end_loop c st) = false
    /\ length (handles (end_loop c st)) = length (handles st).
  Proof. unfold Optimiser.end_loop. destruct (andb _ _); cbn; auto 10. Qed.

  (* ------------------------------------------------------------------ *)
  (* C18: the temperature is a function of the loop index only           *)

  Definition kt_inv (c : cfg) (st : ost) : Prop :=
    kt st = cooled (kt_start c) (factor c) (N.to_nat (loops_done st)).

  Lemma advance_kt_inv c st d : kt_inv c st -> kt_inv c (advance c st d).
  Proof.
    intros H. destruct (fin st) eqn:Hfin; [now rewrite C06_fin_frozen|].
    destruct (mc_step_keeps c st d) as (Hk & _ & Hl & _).
    destruct (advance_cases NN fexp score c st d Hfin) as [-> | (-> & _ & _)].
    - unfold kt_inv. now rewrite Hk, Hl.
    - destruct (end_loop_fields c (mc_step c st d)) as (Hk' & Hl' & _).
      unfold kt_inv. rewrite Hk', Hl', Hk, Hl, N2Nat.inj_succ. cbn [OptSpec.cooled].
      now rewrite H.
  Qed.

  (* the temperature used by any step of a run is kt_start * f^(loops completed so far) *)
  Theorem C18_kt_schedule c ps hs s0 draws :
    kt_inv c (run c (init c ps hs s0) draws).
  Proof.
    apply run_invariant.
    - intros st d. apply advance_kt_inv.
    - reflexivity.
  Qed.

  (* a proposal step never changes the temperature: constant within an inner loop *)
  Theorem C18_kt_constant_in_loop c st d : kt (mc_step c st d) = kt st.
  Proof. apply mc_step_keeps. Qed.

  Theorem C18_factor_from_ratio (b : builder NN) r :
    b_kt_ratio b = Some r -> factor (build b) = nmin (nmax n0 (nsub n1 r)) (fmax_ NN).
  Proof. intros H. unfold Optimiser.build. cbn [factor]. now rewrite H. Qed.

  Theorem C18_factor_default (b : builder NN) :
    b_kt_ratio b = None -> b_kt_finish b = None -> factor (build b) = tenth NN.
  Proof. intros H1 H2. unfold Optimiser.build. cbn [factor]. now rewrite H1, H2. Qed.

  Theorem C18_factor_from_finish (b : builder NN) f :
    b_kt_ratio b = None -> b_kt_finish b = Some f ->
    nltb n0 (b_kt_start b) = true -> N.min (b_inner b) (b_steps b) <> 0%N ->
    factor (build b) =
    fpow (ndiv f (b_kt_start b))
         (ndiv n1 (ofN NN (loops_of (b_steps b) (N.min (b_inner b) (b_steps b))))).
  Proof.
    intros H1 H2 H3 H4. unfold Optimiser.build. cbn [factor]. rewrite H1, H2, H3.
    apply N.eqb_neq in H4. now rewrite H4.
  Qed.

  (* the run starts from the configured temperature, a negative zero made a zero *)
  Theorem C18_start_normalised (b : builder NN) :
    kt_start (build b) = if neqb (b_kt_start b) n0 then n0 else b_kt_start b.
  Proof. reflexivity. Qed.

  (* a zero (or otherwise non-positive / NaN) starting temperature never takes the factor
     from kt_finish: it is the default tenth, or 1 - ratio *)
  Theorem C18_factor_at_zero_start (b : builder NN) :
    nltb n0 (b_kt_start b) = false ->
    factor (build b) =
    match b_kt_ratio b with Some r => nmin (nmax n0 (nsub n1 r)) (fmax_ NN) | None => tenth NN end.
  Proof.
    intros H. unfold Optimiser.build. cbn [factor]. rewrite H.
    destruct (b_kt_ratio b), (b_kt_finish b); reflexivity.
  Qed.

  (* ------------------------------------------------------------------ *)
  (* C19: the step ratio never exceeds one                               *)

  Section Ratio.
    Hypothesis Hmin : forall x : T, nleb (nmin x n1) n1 = true.
    Hypothesis Hone : nleb (n1 : T) n1 = true.

    Definition ratio_inv (st : ost) : Prop := nleb (ratio st) n1 = true.

    Lemma end_loop_ratio_inv c st : ratio_inv st -> ratio_inv (end_loop c st).
    Proof.
      unfold ratio_inv, Optimiser.end_loop. intros H.
      destruct (andb _ _); cbn [ratio]; [exact H|].
      destruct (nltb _ _); [apply Hmin | exact H].
    Qed.

    Lemma advance_ratio_inv c st d : ratio_inv st -> ratio_inv (advance c st d).
    Proof.
      intros H. destruct (fin st) eqn:Hfin; [now rewrite C06_fin_frozen|].
      destruct (mc_step_keeps c st d) as (_ & Hr & _).
      destruct (advance_cases NN fexp score c st d Hfin) as [-> | (-> & _ & _)].
      - unfold ratio_inv. now rewrite Hr.
      - apply end_loop_ratio_inv. unfold ratio_inv. now rewrite Hr.
    Qed.

    (* in every state of every run the step ratio is at most one: the step a proposal
       uses is max_step * ratio with ratio <= 1 *)
    Theorem C19_ratio_le_one c ps hs s0 draws :
      nleb (ratio (run c (init c ps hs s0) draws)) n1 = true.
    Proof.
      apply (run_invariant NN fexp score ratio_inv c).
      - intros st d. apply advance_ratio_inv.
      - exact Hone.
    Qed.
  End Ratio.

  (* ... and never negative *)
  Section RatioNonneg.
    Hypothesis Hnn : forall (x : T) (i r : N),
      nleb n0 x = true -> nleb n0 (nmin (nmul x (ndiv (ofN NN i) (nadd (ofN NN r) n1))) n1) = true.
    Hypothesis Hone0 : nleb (n0 : T) n1 = true.

    Definition ratio_nn (st : ost) : Prop := nleb n0 (ratio st) = true.

    Lemma end_loop_ratio_nn c st : ratio_nn st -> ratio_nn (end_loop c st).
    Proof.
      unfold ratio_nn, Optimiser.end_loop. intros H.
      destruct (andb _ _); cbn [ratio]; [exact H|].
      destruct (nltb _ _); [now apply Hnn | exact H].
    Qed.

    Lemma advance_ratio_nn c st d : ratio_nn st -> ratio_nn (advance c st d).
    Proof.
      intros H. destruct (fin st) eqn:Hfin; [now rewrite C06_fin_frozen|].
      destruct (mc_step_keeps c st d) as (_ & Hr & _).
      destruct (advance_cases NN fexp score c st d Hfin) as [-> | (-> & _ & _)].
      - unfold ratio_nn. now rewrite Hr.
      - apply end_loop_ratio_nn. unfold ratio_nn. now rewrite Hr.
    Qed.

    Theorem C19_ratio_nonneg c ps hs s0 draws :
      nleb n0 (ratio (run c (init c ps hs s0) draws)) = true.
    Proof.
      apply (run_invariant NN fexp score ratio_nn c).
      - intros st d. apply advance_ratio_nn.
      - exact Hone0.
    Qed.
  End RatioNonneg.

  (* ... and, generally, any predicate that holds of 1 and is kept by the update holds of the step ratio of every
     reachable state *)
  Section RatioPred.
    Variable P : T -> Prop.
    Hypothesis HP1 : P n1.
    Hypothesis HPstep : forall (x : T) (i r : N),
      P x -> P (nmin (nmul x (ndiv (ofN NN i) (nadd (ofN NN r) n1))) n1).

    Lemma end_loop_ratio_pred c st : P (ratio st) -> P (ratio (end_loop c st)).
    Proof.
      unfold Optimiser.end_loop. intros H.
      destruct (andb _ _); cbn [ratio]; [exact H|].
      destruct (nltb _ _); [now apply HPstep | exact H].
    Qed.

    Lemma advance_ratio_pred c st d : P (ratio st) -> P (ratio (advance c st d)).
    Proof.
      intros H. destruct (fin st) eqn:Hfin; [now rewrite C06_fin_frozen|].
      destruct (mc_step_keeps c st d) as (_ & Hr & _).
      destruct (advance_cases NN fexp score c st d Hfin) as [-> | (-> & _ & _)].
      - now rewrite Hr.
      - apply end_loop_ratio_pred. now rewrite Hr.
    Qed.

    Theorem C19_ratio_pred c ps hs s0 draws : P (ratio (run c (init c ps hs s0) draws)).
    Proof.
      apply (run_invariant NN fexp score (fun st => P (ratio st)) c).
      - intros st d. apply advance_ratio_pred.
      - exact HP1.
    Qed.
  End RatioPred.

  (* the step of a proposal is exactly max_step * ratio (by definition of proposal), and the
     proposal replaces the one cell of the drawn handle by the clamped sample *)
  Theorem C19_proposal_shape c st d h :
    nth_error (handles st) (d_idx d) = Some h ->
    proposal c st d =
    Some (set_nth (params st) (h_cell h)
            (nclamp (h_min h) (h_max h)
               (sample NN h (get_cell NN (params st) (h_cell h))
                       (nmul (max_step c) (ratio st)) (d_g d)))).
  Proof. intros H. unfold OptSpec.proposal. now rewrite H. Qed.

  (* ------------------------------------------------------------------ *)
  (* C20: amount of work                                                 *)

  Definition work_inv (c : cfg) (st : ost) : Prop :=
    bad_index st = false ->
    calls st = (1 + loops_done st * inner c + j st)%N
    /\ (fin st = false -> (j st < inner c)%N /\ (loops_done st < L c)%N)
    /\ (fin st = true -> j st = 0%N)
    /\ (loops_done st <= L c)%N
    /\ (converged st = false -> fin st = (L c <=? loops_done st)%N)
    /\ (converged st = true -> fin st = true).

  Lemma init_work_inv c ps hs s0 : work_inv c (init c ps hs s0).
  Proof.
    intros _. unfold Optimiser.init; cbn. fold (L c).
    repeat split; try lia; try discriminate.
    - match goal with H : _ = false |- _ => apply N.eqb_neq in H end.
      unfold L, loops_of in *. destruct (N.eqb_spec (inner c) 0); lia.
    - match goal with H : _ = false |- _ => apply N.eqb_neq in H end. lia.
    - intros _. destruct (N.eqb_spec (L c) 0), (N.leb_spec (L c) 0); lia.
  Qed.

  Lemma end_loop_fin c st :
    (converged (end_loop c st) = false ->
       fin (end_loop c st) = (L c <=? N.succ (loops_done st))%N)
    /\ (converged (end_loop c st) = true -> fin (end_loop c st) = true).
  Proof.
    unfold Optimiser.end_loop. fold (L c). destruct (andb _ _); cbn; split; auto; discriminate.
  Qed.

  Lemma advance_work_inv c st d :
    work_inv c st -> bad_index st = false -> work_inv c (advance c st d).
  Proof.
    intros H Hbad. destruct (fin st) eqn:Hfin; [now rewrite C06_fin_frozen|].
    specialize (H Hbad). destruct H as (Hc & Hnf & _ & Hle & Hcf & Hconv).
    destruct (Hnf Hfin) as [Hj Hl].
    destruct (Nat.lt_ge_cases (d_idx d) (length (handles st))) as [Hin|Hout].
    - destruct (mc_step_in_range c st d Hin) as (Hb1 & Hf1 & Hj1 & Hc1).
      destruct (mc_step_keeps c st d) as (_ & _ & Hl1 & _).
      destruct (advance_cases NN fexp score c st d Hfin) as [E | (E & _ & Hje)].
      + (* inside a loop *)
        assert (Hne : j (mc_step c st d) <> inner c).
        { unfold Optimiser.advance in E. rewrite Hfin in E. cbv zeta in E. rewrite Hb1 in E.
          destruct (N.eqb_spec (j (mc_step c st d)) (inner c)) as [Heq|]; [|assumption].
          exfalso.
          destruct (end_loop_fields c (mc_step c st d)) as (_ & _ & Hj0 & _).
          rewrite E in Hj0. rewrite Hj1 in Hj0. lia. }
        rewrite E. intros _. rewrite Hc1, Hj1, Hl1, Hf1.
        assert (Hcv : converged (mc_step c st d) = false).
        { destruct (converged (mc_step c st d)) eqn:Ecv; [|reflexivity].
          unfold Optimiser.mc_step in Ecv.
          destruct (nth_error (handles st) (d_idx d)); [|discriminate].
          cbv zeta in Ecv. destruct (Optimiser.accept _ _ _ _ _ _); discriminate. }
        rewrite Hcv. rewrite Hj1 in Hne.
        repeat split; try lia; try discriminate.
        intros _. symmetry. apply N.leb_gt. lia.
      + (* last proposal of a loop *)
        destruct (end_loop_fields c (mc_step c st d)) as (_ & Hl2 & Hj2 & Hc2 & Hb2 & _).
        destruct (end_loop_fin c (mc_step c st d)) as [Hf2 Hf3].
        rewrite E. intros _. rewrite Hc2, Hj2, Hl2, Hc1, Hl1.
        rewrite Hl1 in Hf2. rewrite Hj1 in Hje.
        split; [lia|]. split; [|split; [lia|split; [lia|split; [exact Hf2|exact Hf3]]]].
        intros Hnfin.
        destruct (converged (end_loop c (mc_step c st d))) eqn:Ecv.
        * rewrite (Hf3 eq_refl) in Hnfin. discriminate.
        * rewrite (Hf2 eq_refl) in Hnfin. apply N.leb_gt in Hnfin. lia.
    - (* out of range: bad index, invariant vacuous *)
      intros Hb. exfalso.
      pose proof (mc_step_out_of_range c st d Hout) as Hb1.
      unfold Optimiser.advance in Hb. rewrite Hfin in Hb. cbv zeta in Hb.
      rewrite Hb1 in Hb. congruence.
  Qed.

  Lemma advance_bad_index c st d :
    bad_index st = false -> (d_idx d < length (handles st))%nat ->
    bad_index (advance c st d) = false
    /\ length (handles (advance c st d)) = length (handles st).
  Proof.
    intros Hbad Hin. destruct (fin st) eqn:Hfin; [rewrite C06_fin_frozen; auto|].
    destruct (mc_step_in_range c st d Hin) as (Hb1 & _).
    destruct (mc_step_keeps c st d) as (_ & _ & _ & _ & _ & Hlen).
    destruct (advance_cases NN fexp score c st d Hfin) as [-> | (-> & _ & _)]; [auto|].
    destruct (end_loop_fields c (mc_step c st d)) as (_ & _ & _ & _ & Hb2 & Hlen2).
    split; [exact Hb2|congruence].
  Qed.

  (* progress: every in-range draw on a run that is not over evaluates one proposal *)
  Lemma run_progress c draws : forall st,
    work_inv c st -> bad_index st = false ->
    draws_in_range (length (handles st)) draws ->
    let st' := run c st draws in
    work_inv c st' /\ bad_index st' = false
    /\ length (handles st') = length (handles st)
    /\ (fin st' = true \/ calls st' = (calls st + N.of_nat (length draws))%N).
  Proof.
    induction draws as [|d ds IH]; intros st Hinv Hbad Hrange.
    - cbn. split; [exact Hinv|]. split; [exact Hbad|]. split; [reflexivity|]. right. lia.
    - inversion Hrange as [|? ? Hd Hds]; subst.
      destruct (advance_bad_index c st d Hbad Hd) as [Hb1 Hlen1].
      pose proof (advance_work_inv c st d Hinv Hbad) as Hinv1.
      rewrite <- Hlen1 in Hds.
      specialize (IH (advance c st d) Hinv1 Hb1 Hds). cbv zeta in IH.
      destruct IH as (Hi & Hb & Hl & Hprog).
      rewrite run_cons. cbv zeta. split; [exact Hi|]. split; [exact Hb|]. split; [congruence|].
      destruct Hprog as [Hf|Hcalls]; [now left|].
      destruct (fin st) eqn:Hfin.
      + left. rewrite C06_fin_frozen in * by assumption.
        now rewrite run_fin_frozen.
      + right. rewrite Hcalls.
        assert (calls (advance c st d) = N.succ (calls st)).
        { destruct (mc_step_in_range c st d Hd) as (_ & _ & _ & Hc1).
          destruct (advance_cases NN fexp score c st d Hfin) as [-> | (-> & _ & _)]; [auto|].
          destruct (end_loop_fields c (mc_step c st d)) as (_ & _ & _ & Hc2 & _). congruence. }
        rewrite H. cbn [length]. lia.
  Qed.

  (* the amount of work: at most `steps` proposals, and more than `steps - inner` *)
  Theorem C20_work_bounds (c : cfg) :
    (work c <= steps c)%N /\ (inner c <> 0 -> steps c < work c + inner c)%N.
  Proof.
    unfold OptSpec.work, loops_of. destruct (N.eqb_spec (inner c) 0) as [E|E].
    - split; [lia|congruence].
    - pose proof (N.div_mod (steps c) (inner c) E) as Hdm.
      pose proof (N.mod_lt (steps c) (inner c) E) as Hlt.
      rewrite (N.mul_comm (inner c)) in Hdm.
      set (q := (steps c / inner c * inner c)%N) in *. set (r := (steps c mod inner c)%N) in *.
      clearbody q r. split; [|intros _]; lia.
  Qed.

  Theorem C20_build_inner (b : builder NN) :
    inner (build b) = N.min (b_inner b) (b_steps b) /\ steps (build b) = b_steps b.
  Proof. split; reflexivity. Qed.

  (* with a stream of at least `work` in-range draws the loop ends, having made exactly `work`
     proposals when it did not converge early and a whole number of inner loops otherwise *)
  Theorem C20_work_done c ps hs s0 draws :
    draws_in_range (length hs) draws -> (work c <= N.of_nat (length draws))%N ->
    let st := run c (init c ps hs s0) draws in
    fin st = true /\ bad_index st = false
    /\ calls st = (1 + loops_done st * inner c)%N
    /\ (loops_done st <= L c)%N
    /\ (converged st = false -> calls st = (1 + work c)%N).
  Proof.
    intros Hr Hlen.
    destruct (run_progress c draws (init c ps hs s0) (init_work_inv c ps hs s0) eq_refl Hr)
      as (Hinv & Hbad & _ & Hprog).
    cbv zeta. set (st := run c (init c ps hs s0) draws) in *.
    destruct (Hinv Hbad) as (Hc & Hnf & Hf & Hle & Hcf & _).
    assert (Hfin : fin st = true).
    { destruct Hprog as [|Hcalls]; [assumption|].
      destruct (fin st) eqn:E; [reflexivity|]. exfalso.
      destruct (Hnf eq_refl) as [Hj Hl].
      change (calls (init c ps hs s0)) with 1%N in Hcalls.
      unfold OptSpec.work in Hlen. fold (L c) in Hlen. nia. }
    rewrite (Hf Hfin) in Hc.
    split; [exact Hfin|]. split; [exact Hbad|]. split; [lia|]. split; [exact Hle|].
    intros Hcv. specialize (Hcf Hcv). rewrite Hfin in Hcf. symmetry in Hcf.
    apply N.leb_le in Hcf. unfold OptSpec.work. fold (L c).
    replace (loops_done st) with (L c) in Hc by lia. lia.
  Qed.

  (* ------------------------------------------------------------------ *)
  (* C05: at a zero temperature the run is a hill climb                  *)

  Section Hill.
    Variable kt0 : T.                       (* the zero temperature *)
    Variable good_thr : T -> Prop.          (* what is known about the thresholds drawn *)
    Variable c : cfg.
    (* what is accepted at kt0 is not worse than the (non-NaN) held score *)
    Hypothesis Hzero : forall thr new old, good_thr thr -> nis_nan old = false ->
      accept thr (Some new) old kt0 = true -> nis_nan new = false /\ nleb old new = true.
    (* cooling leaves kt0 where it is *)
    Hypothesis Hcool : nmul kt0 (factor c) = kt0.
    Hypothesis Hrefl : forall x : T, nis_nan x = false -> nleb x x = true.
    Hypothesis Htrans : forall x y z : T, nleb x y = true -> nleb y z = true -> nleb x z = true.

    Definition hill_inv (st : ost) : Prop := kt st = kt0 /\ nis_nan (score_cur st) = false.

    Lemma advance_hill c' st d : c' = c ->
      hill_inv st -> good_thr (d_thr d) ->
      hill_inv (advance c' st d) /\ nleb (score_cur st) (score_cur (advance c' st d)) = true.
    Proof.
      intros -> [Hkt Hnan] Hthr.
      destruct (fin st) eqn:Hfin.
      { rewrite C06_fin_frozen by assumption. split; [split; assumption|now apply Hrefl]. }
      assert (Hkt' : kt (advance c st d) = kt0).
      { destruct (mc_step_keeps c st d) as (Hk & _).
        destruct (advance_cases NN fexp score c st d Hfin) as [-> | (-> & _ & _)].
        - congruence.
        - destruct (end_loop_fields c (mc_step c st d)) as (Hk' & _).
          rewrite Hk', Hk, Hkt. exact Hcool. }
      pose proof (C06_step_accept_or_restore NN fexp score c st d Hfin) as Hs.
      destruct (proposal c st d) as [ps'|] eqn:Hp.
      - destruct Hs as [(s & Hacc & _ & Hsc) | (_ & _ & Hsc)].
        + unfold OptSpec.step_accepted in Hacc. rewrite Hfin, Hp in Hacc.
          destruct (score (calls st) ps') as [s'|]; [|discriminate].
          destruct (Optimiser.accept NN fexp (d_thr d) (Some s') (score_cur st) (kt st)) eqn:Ha;
            [|discriminate].
          injection Hacc as <-. rewrite Hkt in Ha.
          destruct (Hzero _ _ _ Hthr Hnan Ha) as [Hn Hle].
          unfold hill_inv. rewrite Hsc. split; [split; assumption|exact Hle].
        + unfold hill_inv. rewrite Hsc. split; [split; assumption|now apply Hrefl].
      - destruct Hs as (_ & _ & Hsc). unfold hill_inv. rewrite Hsc. split; [split; assumption|now apply Hrefl].
    Qed.

    (* C05: from any state at the zero temperature the held score never decreases *)
    Theorem C05_hill_climb_from draws : forall st,
      hill_inv st -> Forall (fun d => good_thr (d_thr d)) draws ->
      hill_inv (run c st draws) /\ nleb (score_cur st) (score_cur (run c st draws)) = true.
    Proof.
      induction draws as [|d ds IH]; intros st Hinv Hthr.
      - cbn. split; [exact Hinv|]. apply Hrefl. apply Hinv.
      - inversion Hthr as [|? ? Hd Hds]; subst.
        destruct (advance_hill c st d eq_refl Hinv Hd) as [Hinv1 Hle1].
        destruct (IH (advance c st d) Hinv1 Hds) as [Hinv2 Hle2].
        rewrite run_cons. split; [exact Hinv2|]. eapply Htrans; eassumption.
    Qed.

    (* ... and so between any two points of the run: the sequence of held (accepted) scores is
       non-decreasing, and the returned score is at least the input score *)
    Theorem C05_hill_climb ps hs s0 draws1 draws2 :
      kt_start c = kt0 -> nis_nan s0 = false ->
      Forall (fun d => good_thr (d_thr d)) (draws1 ++ draws2) ->
      nleb s0 (score_cur (run c (init c ps hs s0) draws1)) = true
      /\ nleb (score_cur (run c (init c ps hs s0) draws1))
              (score_cur (run c (init c ps hs s0) (draws1 ++ draws2))) = true.
    Proof.
      intros Hk Hn Hthr. apply Forall_app in Hthr. destruct Hthr as [H1 H2].
      assert (Hi : hill_inv (init c ps hs s0)) by (split; assumption).
      destruct (C05_hill_climb_from draws1 _ Hi H1) as [Hi1 Hle1].
      split; [exact Hle1|].
      unfold Optimiser.run. rewrite fold_left_app.
      apply (C05_hill_climb_from draws2 _ Hi1 H2).
    Qed.
  End Hill.

  (* ------------------------------------------------------------------ *)
  (* C08: parameters stay in range, untouched parameters stay untouched  *)

  Section Ranges.
    (* what is known about a clamped good sample, for the numeric instance at hand *)
    Variable good : T -> Prop.                   (* e.g. "not NaN" on binary64; True on the reals *)
    Variable inr : T -> T -> T -> Prop.          (* inr lo hi v: lo <= v <= hi *)
    Hypothesis Hclamp : forall lo hi x, good x -> inr lo hi lo -> inr lo hi (nclamp lo hi x).

    (* all handles on one cell declare the same range *)
    Definition compatible (hs : list (handle NN)) : Prop :=
      forall h1 h2, In h1 hs -> In h2 hs -> h_cell h1 = h_cell h2 -> h_min h1 = h_min h2 /\ h_max h1 = h_max h2.

    Definition in_ranges (hs : list (handle NN)) (ps : list T) : Prop :=
      forall h, In h hs -> inr (h_min h) (h_max h) (nth (h_cell h) ps n0).

    (* cells no handle points to *)
    Definition untouched (hs : list (handle NN)) (ps ps' : list T) : Prop :=
      forall k, (forall h, In h hs -> h_cell h <> k) -> nth k ps' n0 = nth k ps n0.

    Lemma nth_set_nth_same (l : list T) i v d : (i < length l)%nat -> nth i (set_nth l i v) d = v.
    Proof. revert i. induction l as [|x xs IH]; intros [|i] H; cbn in *; try lia; auto. apply IH. lia. Qed.

    (* the ranges a handle list declares, as a function of the cell *)
    Definition same_ranges (hs hs' : list (handle NN)) : Prop :=
      forall h', In h' hs' -> exists h, In h hs /\ h_cell h = h_cell h' /\ h_min h = h_min h' /\ h_max h = h_max h'.

    Lemma set_nth_In {A} (l : list A) i v x : In x (set_nth l i v) -> x = v \/ In x l.
    Proof.
      revert i. induction l as [|y ys IH]; intros [|i] H; cbn in *; auto.
      - destruct H as [->|H]; auto.
      - destruct H as [->|H]; auto. destruct (IH _ H); auto.
    Qed.

    (* one proposal step preserves "every handle's cell is within its range", and touches only the cell
       of the drawn handle *)
    Lemma mc_step_ranges c st d hs0 :
      same_ranges hs0 (handles st) -> compatible hs0 ->
      (forall h, In h hs0 -> (h_cell h < length (params st))%nat /\ inr (h_min h) (h_max h) (h_min h)) ->
      in_ranges hs0 (params st) ->
      (forall h, nth_error (handles st) (d_idx d) = Some h ->
         good (sample NN h (get_cell NN (params st) (h_cell h)) (nmul (max_step c) (ratio st)) (d_g d))) ->
      let st' := mc_step c st d in
      same_ranges hs0 (handles st') /\ in_ranges hs0 (params st') /\ untouched hs0 (params st) (params st')
      /\ length (params st') = length (params st).
    Proof.
      intros Hsame Hcomp Hwf Hin Hgood. cbv zeta. unfold Optimiser.mc_step.
      destruct (nth_error (handles st) (d_idx d)) as [h|] eqn:E.
      2:{ cbn. split; [exact Hsame|]. split; [exact Hin|]. split; [intros k _; reflexivity|reflexivity]. }
      cbv zeta. specialize (Hgood h eq_refl).
      assert (Hh : In h (handles st)) by (eapply nth_error_In; eassumption).
      destruct (Hsame h Hh) as (h0 & Hh0 & Ec & Emin & Emax).
      destruct (Hwf h0 Hh0) as [Hlen Hlo]. rewrite Ec in Hlen.
      set (v := get_cell NN (params st) (h_cell h)) in *.
      set (prop := nclamp (h_min h) (h_max h) _).
      assert (Hprop : inr (h_min h) (h_max h) prop).
      { unfold prop. apply Hclamp; [exact Hgood|]. rewrite <- Emin, <- Emax. exact Hlo. }
      assert (Hsame' : same_ranges hs0 (set_nth (handles st) (d_idx d) (with_old NN h v))).
      { intros h' Hh'. apply set_nth_In in Hh'. destruct Hh' as [->|Hh'].
        - exists h0. cbn. auto.
        - now apply Hsame. }
      destruct (Optimiser.accept _ _ _ _ _ _); cbn [params handles].
      - (* accepted: the drawn cell holds the clamped sample *)
        split; [exact Hsame'|]. split; [|split].
        + intros g Hg. destruct (Nat.eq_dec (h_cell g) (h_cell h)) as [Eq|Ne].
          * rewrite Eq, nth_set_nth_same by exact Hlen.
            destruct (Hcomp g h0 Hg Hh0 (eq_trans Eq (eq_sym Ec))) as [-> ->]. rewrite Emin, Emax. exact Hprop.
          * rewrite nth_set_nth_other by exact Ne. now apply Hin.
        + intros k Hk. rewrite nth_set_nth_other; [reflexivity|]. intros ->. apply (Hk h0 Hh0). exact Ec.
        + apply set_nth_length.
      - (* rejected: the old value is written back *)
        unfold v, get_cell. rewrite set_nth_restore.
        split; [exact Hsame'|]. split; [exact Hin|]. split; [intros k _; reflexivity|reflexivity].
    Qed.

    (* every sample drawn along the run is good (on binary64: not NaN) *)
    Fixpoint all_samples_good (c : cfg) (st : ost) (draws : list draw) : Prop :=
      match draws with
      | [] => True
      | d :: ds =>
          (fin st = false -> forall h, nth_error (handles st) (d_idx d) = Some h ->
             good (sample NN h (get_cell NN (params st) (h_cell h)) (nmul (max_step c) (ratio st)) (d_g d)))
          /\ all_samples_good c (advance c st d) ds
      end.

    Lemma advance_ranges c st d hs0 :
      same_ranges hs0 (handles st) -> compatible hs0 ->
      (forall h, In h hs0 -> (h_cell h < length (params st))%nat /\ inr (h_min h) (h_max h) (h_min h)) ->
      in_ranges hs0 (params st) ->
      (fin st = false -> forall h, nth_error (handles st) (d_idx d) = Some h ->
         good (sample NN h (get_cell NN (params st) (h_cell h)) (nmul (max_step c) (ratio st)) (d_g d))) ->
      let st' := advance c st d in
      same_ranges hs0 (handles st') /\ in_ranges hs0 (params st') /\ untouched hs0 (params st) (params st')
      /\ length (params st') = length (params st).
    Proof.
      intros Hsame Hcomp Hwf Hin Hgood. cbv zeta.
      destruct (fin st) eqn:Hfin.
      { rewrite C06_fin_frozen by assumption. split; [exact Hsame|]. split; [exact Hin|]. split; [intros k _; reflexivity|reflexivity]. }
      destruct (mc_step_ranges c st d hs0 Hsame Hcomp Hwf Hin (Hgood eq_refl)) as (H1 & H2 & H3 & H4).
      destruct (advance_cases NN fexp score c st d Hfin) as [-> | (-> & _ & _)]; [auto|].
      rewrite end_loop_params, end_loop_handles. auto.
    Qed.

    (* C08: along every run whose samples are good, every parameter a handle points to stays within the
       range the handle declares, and every other parameter keeps its value *)
    Theorem C08_ranges_invariant c hs0 draws : forall st,
      same_ranges hs0 (handles st) -> compatible hs0 ->
      (forall h, In h hs0 -> (h_cell h < length (params st))%nat /\ inr (h_min h) (h_max h) (h_min h)) ->
      in_ranges hs0 (params st) -> all_samples_good c st draws ->
      let st' := run c st draws in
      in_ranges hs0 (params st') /\ untouched hs0 (params st) (params st').
    Proof.
      induction draws as [|d ds IH]; intros st Hsame Hcomp Hwf Hin Hgood; cbv zeta.
      - cbn. split; [exact Hin|]. intros k _. reflexivity.
      - destruct Hgood as [Hg Hgs].
        destruct (advance_ranges c st d hs0 Hsame Hcomp Hwf Hin Hg) as (H1 & H2 & H3 & H4).
        rewrite run_cons.
        assert (Hwf' : forall h, In h hs0 -> (h_cell h < length (params (advance c st d)))%nat /\ inr (h_min h) (h_max h) (h_min h)).
        { intros h Hh. rewrite H4. now apply Hwf. }
        destruct (IH (advance c st d) H1 Hcomp Hwf' H2 Hgs) as [I1 I2]. split; [exact I1|].
        intros k Hk. rewrite (I2 k Hk). now apply H3.
    Qed.
  End Ranges.

  (* ------------------------------------------------------------------ *)
  (* C09: a run writes only the cells its handles point to               *)

  Definition cells_of (hs : list (handle NN)) : list nat := map (fun h => h_cell h) hs.

  Lemma mc_step_footprint c st d k :
    ~ In k (cells_of (handles st)) ->
    nth k (params (mc_step c st d)) n0 = nth k (params st) n0
    /\ cells_of (handles (mc_step c st d)) = cells_of (handles st).
  Proof.
    intros Hk. unfold Optimiser.mc_step.
    destruct (nth_error (handles st) (d_idx d)) as [h|] eqn:E; [|cbn; auto].
    cbv zeta.
    assert (Hne : k <> h_cell h).
    { intros ->. apply Hk. unfold cells_of. apply in_map_iff. exists h. split; [reflexivity|]. eapply nth_error_In; eassumption. }
    assert (Hcells : cells_of (set_nth (handles st) (d_idx d) (with_old NN h (get_cell NN (params st) (h_cell h)))) = cells_of (handles st)).
    { unfold cells_of. clear Hk Hne. revert E. generalize (d_idx d). generalize (handles st) as l.
      induction l as [|x xs IH]; intros [|i] E; cbn in *; try discriminate; auto.
      - injection E as ->. reflexivity.
      - f_equal. now apply IH. }
    destruct (Optimiser.accept _ _ _ _ _ _); cbn [params handles]; split; auto.
    - now apply nth_set_nth_other.
    - rewrite !nth_set_nth_other by exact Hne. reflexivity.
  Qed.

  Lemma advance_footprint c st d k :
    ~ In k (cells_of (handles st)) ->
    nth k (params (advance c st d)) n0 = nth k (params st) n0
    /\ cells_of (handles (advance c st d)) = cells_of (handles st).
  Proof.
    intros Hk. destruct (fin st) eqn:Hfin; [rewrite C06_fin_frozen by assumption; auto|].
    destruct (mc_step_footprint c st d k Hk) as [H1 H2].
    destruct (advance_cases NN fexp score c st d Hfin) as [-> | (-> & _ & _)]; [auto|].
    rewrite end_loop_params, end_loop_handles. auto.
  Qed.

  (* C09: optimising never changes a parameter cell that none of the state's handles points to - in
     particular the cells of the original when a copy (fresh cells) is optimised, and the cells of every
     other replica *)
  Theorem C09_run_writes_only_own_cells c draws : forall st k,
    ~ In k (cells_of (handles st)) -> nth k (params (run c st draws)) n0 = nth k (params st) n0.
  Proof.
    induction draws as [|d ds IH]; intros st k Hk; [reflexivity|].
    rewrite run_cons. destruct (advance_footprint c st d k Hk) as [H1 H2].
    rewrite IH; [exact H1|]. now rewrite H2.
  Qed.

  (* a copy made by Clone lives in fresh cells: the original's cells (indices below n) are not in its footprint *)
  Theorem C09_optimising_a_clone_leaves_the_original c draws st n :
    Forall (fun h => (n <= h_cell h)%nat) (handles st) ->
    forall k, (k < n)%nat -> nth k (params (run c st draws)) n0 = nth k (params st) n0.
  Proof.
    intros H k Hk. apply C09_run_writes_only_own_cells. intros Hin.
    unfold cells_of in Hin. apply in_map_iff in Hin. destruct Hin as (h & <- & Hh).
    rewrite Forall_forall in H. specialize (H h Hh). lia.
  Qed.

  (* ------------------------------------------------------------------ *)
  (* C08/C20: the returned state has a defined score; optimise returns   *)

  Section Deterministic.
    (* the score of the real states is a function of the parameters only *)
    Hypothesis score_det : forall k k' ps, score k ps = score k' ps.

    Definition held_inv (st : ost) : Prop := score 0%N (params st) = Some (score_cur st).

    Lemma advance_held_inv c st d : held_inv st -> held_inv (advance c st d).
    Proof.
      intros H. destruct (fin st) eqn:Hfin; [now rewrite C06_fin_frozen|].
      pose proof (C06_step_accept_or_restore NN fexp score c st d Hfin) as Hs.
      unfold held_inv.
      destruct (proposal c st d) as [ps'|] eqn:Hp.
      - destruct Hs as [(s & Hacc & -> & ->) | (_ & -> & ->)]; [|exact H].
        unfold OptSpec.step_accepted in Hacc. rewrite Hfin, Hp in Hacc.
        destruct (score (calls st) ps') as [s'|] eqn:Hsc; [|discriminate].
        destruct (Optimiser.accept _ _ _ _ _ _); [|discriminate].
        injection Hacc as ->. now rewrite (score_det 0%N (calls st)).
      - destruct Hs as (_ & -> & ->). exact H.
    Qed.

    (* C08: the state held at any point of any run has the defined score score_cur *)
    Theorem C08_held_score_defined c ps hs s0 draws :
      score 0%N ps = Some s0 ->
      held_inv (run c (init c ps hs s0) draws).
    Proof.
      intros H0. apply (run_invariant NN fexp score held_inv c).
      - intros st d. apply advance_held_inv.
      - exact H0.
    Qed.

    (* C20: for a valid input, in-range draws and enough of them, optimise returns normally *)
    Theorem C20_optimise_returns c ps hs s0 draws :
      score 0%N ps = Some s0 ->
      draws_in_range (length hs) draws -> (work c <= N.of_nat (length draws))%N ->
      exists st, optimise c ps hs draws = Returned NN st
                 /\ st = run c (init c ps hs s0) draws
                 /\ score 0%N (params st) = Some (score_cur st).
    Proof.
      intros H0 Hr Hlen. exists (run c (init c ps hs s0) draws).
      destruct (C20_work_done c ps hs s0 draws Hr Hlen) as (Hfin & Hbad & _).
      pose proof (C08_held_score_defined c ps hs s0 draws H0) as Hheld.
      unfold Optimiser.optimise. rewrite H0, Hbad, Hfin. cbn [negb].
      split; [|split; [reflexivity|exact Hheld]].
      destruct (converged _); [reflexivity|].
      rewrite (score_det _ 0%N), Hheld. reflexivity.
    Qed.
  End Deterministic.

End S.
