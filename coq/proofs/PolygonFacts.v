(* PolygonFacts.v - C01 for convex polygon shapes, over the reals: in a scored state, two placed copies
   (any pair i, j, any lattice translate (n, m) in Z^2) whose images are closed convex polygons and that
   share an interior point are either further apart than twice the enclosing radius, or one has all its
   vertices strictly inside the other.  (Combines scored_packing_all_pairs_checked with
   convex_overlap_detected.) *)
From Coq Require Import ZArith List Bool Reals Lra Lia.
From PV Require Import Num NumR model.Geom proofs.LatticeFacts proofs.SiteFacts proofs.OverlapFacts
  proofs.ConvexFacts proofs.PackingFacts.
Import ListNotations.
Local Open Scope R_scope.

Definition placed_poly (t : tfR) (l : list segR) : list segR := map (seg_transform NumR t) l.

Theorem scored_convex_polygon_packing (st : pstateR) (l : list segR) :
  wf_state st -> p_shape NumR st = Poly l -> packed_score NumR st <> None ->
  forall i j (n m : Z), (i < copies st)%nat -> (j < copies st)%nat ->
  ~ (i = j /\ n = 0%Z /\ m = 0%Z) ->
  let P := placed_poly (copy st i) l in let Q := placed_poly (image st j n m) l in
  forall sP sQ, convex sP P -> convex sQ Q -> closed P -> closed Q ->
  forall x, strictly_inside sP P x -> strictly_inside sQ Q x ->
     sq NumR (nmul (p_radius NumR st) (n2 (NN:=NumR))) < centre_dist2 (copy st i) (image st j n m)
  \/ (forall e, In e P -> strictly_inside sQ Q (seg_start e))
  \/ (forall f, In f Q -> strictly_inside sP P (seg_start f)).
Proof.
  intros Hwf Hshape Hscore i j n m Hi Hj Hne P Q sP sQ HcP HcQ HclP HclQ x HxP HxQ.
  destruct (scored_packing_all_pairs_checked st Hwf Hscore i j n m Hi Hj Hne) as [Hfar|Hno]; [now left|right].
  rewrite Hshape in Hno. cbn [shape_transform] in Hno. fold (placed_poly (copy st i) l) in Hno.
  fold (placed_poly (image st j n m) l) in Hno. fold P Q in Hno.
  destruct (Exists_dec_prop (fun e => ~ strictly_inside sQ Q (seg_start e)) P) as [HP|HP].
  { intros e. destruct (strictly_inside_dec sQ Q (seg_start e)); tauto. }
  - destruct (Exists_dec_prop (fun f => ~ strictly_inside sP P (seg_start f)) Q) as [HQ|HQ].
    { intros f. destruct (strictly_inside_dec sP P (seg_start f)); tauto. }
    + exfalso. apply Exists_exists in HP, HQ.
      pose proof (convex_overlap_detected sP sQ P Q x HcP HcQ HclP HclQ HxP HxQ HP HQ). congruence.
    + right. intros f Hf. destruct (strictly_inside_dec sP P (seg_start f)) as [H|H]; [exact H|].
      exfalso. apply HQ. apply Exists_exists. exists f. tauto.
  - left. intros e He. destruct (strictly_inside_dec sQ Q (seg_start e)) as [H|H]; [exact H|].
    exfalso. apply HP. apply Exists_exists. exists e. tauto.
Qed.
