(* Interleave.v - C09: replicas that share one parameter heap but own disjoint cells do not influence each
   other, whatever the order in which their Monte-Carlo steps are interleaved.
   (1) locality: a step of a replica depends on the heap only through the replica's own cells (given that its
       score function does) and, by C09_run_writes_only_own_cells, changes only those;
   (2) for EVERY schedule of the steps of two replicas A and B over one heap, the private state of A and the
       heap restricted to A's cells are exactly what A's run in isolation produces - and likewise for B.
   Steps are atomic here: data races inside a step are a matter of the memory model, not of this model. *)
From Coq Require Import ZArith NArith List Bool Lia.
From PV Require Import Num model.Optimiser model.OptSpec proofs.OptStruct proofs.OptLoop.
Import ListNotations.

#[local] Arguments params {_}. #[local] Arguments handles {_}. #[local] Arguments score_cur {_}.
#[local] Arguments kt {_}. #[local] Arguments ratio {_}. #[local] Arguments conv_count {_}.
#[local] Arguments loop_rej {_}. #[local] Arguments score_start {_}.
#[local] Arguments loops_done {_}. #[local] Arguments j {_}. #[local] Arguments calls {_}.
#[local] Arguments fin {_}. #[local] Arguments converged {_}. #[local] Arguments bad_index {_}.
#[local] Arguments h_cell {_}. #[local] Arguments h_min {_}. #[local] Arguments h_max {_}.
#[local] Arguments h_old {_}.
#[local] Arguments d_idx {_}. #[local] Arguments d_g {_}. #[local] Arguments d_thr {_}.

Section Local.
  Variable NN : Num.
  Variable fexp : carrier NN -> carrier NN.
  Notation T := (carrier NN).
  Notation cfg := (cfg NN).
  Notation ost := (ost NN).
  Notation draw := (draw NN).

  (* the state of a replica placed over another heap *)
  Definition with_params (st : ost) (ps : list T) : ost :=
    @mkOst NN ps (handles st) (score_cur st) (kt st) (ratio st) (conv_count st) (loop_rej st) (score_start st)
          (loops_done st) (j st) (calls st) (fin st) (converged st) (bad_index st).

  Lemma with_params_params st ps : params (with_params st ps) = ps.
  Proof. reflexivity. Qed.
  Lemma with_params_id st : with_params st (params st) = st.
  Proof. destruct st; reflexivity. Qed.
  Lemma with_params_twice st ps qs : with_params (with_params st ps) qs = with_params st qs.
  Proof. reflexivity. Qed.

  (* two heaps that agree on a set of cells (and have the same size) *)
  Definition agree (own : list nat) (ps qs : list T) : Prop :=
    length ps = length qs /\ forall k, In k own -> nth k ps n0 = nth k qs n0.

  Lemma agree_refl own ps : agree own ps ps.
  Proof. split; auto. Qed.
  Lemma agree_sym own ps qs : agree own ps qs -> agree own qs ps.
  Proof. intros [H1 H2]. split; [auto|]. intros k Hk. symmetry. auto. Qed.
  Lemma agree_trans own ps qs rs : agree own ps qs -> agree own qs rs -> agree own ps rs.
  Proof. intros [H1 H2] [H3 H4]. split; [congruence|]. intros k Hk. rewrite H2, H4; auto. Qed.

  Lemma nth_set_nth_same {A} (l : list A) (i : nat) (v d : A) : (i < length l)%nat -> nth i (set_nth l i v) d = v.
  Proof. revert i; induction l as [|x xs IH]; intros [|i] H; cbn in *; try lia; auto. apply IH. lia. Qed.
  Lemma set_nth_beyond {A} (l : list A) (i : nat) (v : A) : (length l <= i)%nat -> set_nth l i v = l.
  Proof. revert i; induction l as [|x xs IH]; intros [|i] H; cbn in *; try lia; auto. f_equal. apply IH. lia. Qed.

  Lemma agree_set_nth own ps qs i v : agree own ps qs -> agree own (set_nth ps i v) (set_nth qs i v).
  Proof.
    intros [H1 H2]. split; [now rewrite !set_nth_length|]. intros k Hk.
    destruct (Nat.eq_dec k i) as [->|Hne].
    - destruct (Nat.lt_ge_cases i (length ps)) as [Hlt|Hge].
      + rewrite !nth_set_nth_same; auto. lia.
      + rewrite !set_nth_beyond by lia. auto.
    - rewrite !nth_set_nth_other by exact Hne. auto.
  Qed.

  Section OneReplica.
    Variable score : N -> list T -> option T.
    Variable own : list nat.
    (* the replica's score reads only its own cells *)
    Hypothesis score_local : forall k ps qs, agree own ps qs -> score k ps = score k qs.

    Notation mc_step := (mc_step NN fexp score).
    Notation advance := (advance NN fexp score).
    Notation run := (run NN fexp score).

    Definition owns (st : ost) : Prop := forall h, In h (handles st) -> In (h_cell h) own.

    Lemma mc_step_local c st ps d :
      owns st -> agree own (params st) ps ->
      mc_step c (with_params st ps) d = with_params (mc_step c st d) (params (mc_step c (with_params st ps) d))
      /\ agree own (params (mc_step c st d)) (params (mc_step c (with_params st ps) d)).
    Proof.
      intros Hown Hag. unfold Optimiser.mc_step, with_params.
      cbn [params handles score_cur kt ratio conv_count loop_rej score_start loops_done j calls fin converged bad_index].
      destruct (nth_error (handles st) (d_idx d)) as [h|] eqn:E.
      - cbv zeta.
        assert (Hc : In (h_cell h) own) by (apply Hown; eapply nth_error_In; eassumption).
        assert (Ev : get_cell NN ps (h_cell h) = get_cell NN (params st) (h_cell h)).
        { unfold get_cell. symmetry. apply Hag. exact Hc. }
        rewrite Ev.
        set (v := get_cell NN (params st) (h_cell h)).
        set (prop := nclamp (h_min h) (h_max h) (sample NN h v (nmul (max_step NN c) (ratio st)) (d_g d))).
        assert (Hag1 : agree own (set_nth (params st) (h_cell h) prop) (set_nth ps (h_cell h) prop)) by now apply agree_set_nth.
        rewrite <- (score_local (calls st) _ _ Hag1).
        destruct (Optimiser.accept NN fexp (d_thr d) (score (calls st) (set_nth (params st) (h_cell h) prop)) (score_cur st) (kt st)).
        + cbn [params]. split; [reflexivity|exact Hag1].
        + cbn [params]. split; [reflexivity|now apply agree_set_nth].
      - cbn [params]. split; [reflexivity|exact Hag].
    Qed.

    Lemma mc_step_owns c st d : owns st -> owns (mc_step c st d).
    Proof.
      intros Hown h Hh.
      assert (Hc : cells_of NN (handles (mc_step c st d)) = cells_of NN (handles st)).
      { destruct (in_dec Nat.eq_dec (S (list_max (cells_of NN (handles st)))) (cells_of NN (handles st))) as [Hin|Hnot].
        - exfalso. pose proof (list_max_le (cells_of NN (handles st)) (list_max (cells_of NN (handles st)))) as [Hle _].
          specialize (Hle (Nat.le_refl _)). rewrite Forall_forall in Hle. specialize (Hle _ Hin). lia.
        - apply (mc_step_footprint NN fexp score c st d _ Hnot). }
      assert (Hin : In (h_cell h) (cells_of NN (handles (mc_step c st d)))) by (unfold cells_of; apply in_map; exact Hh).
      rewrite Hc in Hin. unfold cells_of in Hin. apply in_map_iff in Hin. destruct Hin as (h0 & E0 & Hh0).
      rewrite <- E0. now apply Hown.
    Qed.

    Lemma end_loop_with_params c st ps : end_loop NN c (with_params st ps) = with_params (end_loop NN c st) ps.
    Proof.
      unfold Optimiser.end_loop, with_params. cbn [params handles score_cur kt ratio conv_count loop_rej score_start loops_done j calls fin converged bad_index].
      destruct (andb _ _); reflexivity.
    Qed.

    Lemma advance_local c st ps d :
      owns st -> agree own (params st) ps ->
      advance c (with_params st ps) d = with_params (advance c st d) (params (advance c (with_params st ps) d))
      /\ agree own (params (advance c st d)) (params (advance c (with_params st ps) d))
      /\ owns (advance c st d).
    Proof.
      intros Hown Hag. unfold Optimiser.advance.
      change (fin (with_params st ps)) with (fin st).
      destruct (fin st) eqn:Hfin.
      - split; [reflexivity|]. split; [exact Hag|exact Hown].
      - destruct (mc_step_local c st ps d Hown Hag) as [E1 Hag1].
        set (m := mc_step c st d) in *. set (m' := mc_step c (with_params st ps) d) in *.
        assert (Hb : bad_index m' = bad_index m) by (rewrite E1; reflexivity).
        assert (Hj : j m' = j m) by (rewrite E1; reflexivity).
        rewrite Hb, Hj.
        assert (Hom : owns m) by (apply mc_step_owns; exact Hown).
        destruct (bad_index m); [split; [exact E1|split; [exact Hag1|exact Hom]]|].
        destruct (N.eqb (j m) (inner NN c)).
        + rewrite E1 at 1. rewrite end_loop_with_params.
          rewrite (end_loop_params NN c m), (end_loop_params NN c m').
          split; [reflexivity|]. split; [exact Hag1|].
          intros h Hh. rewrite (end_loop_handles NN c m) in Hh. now apply Hom.
        + split; [exact E1|split; [exact Hag1|exact Hom]].
    Qed.

    (* (1) a whole run depends on the heap only through the replica's own cells *)
    Theorem run_local c draws : forall st ps,
      owns st -> agree own (params st) ps ->
      run c (with_params st ps) draws = with_params (run c st draws) (params (run c (with_params st ps) draws))
      /\ agree own (params (run c st draws)) (params (run c (with_params st ps) draws)).
    Proof.
      induction draws as [|d ds IH]; intros st ps Hown Hag.
      - cbn. split; [reflexivity|exact Hag].
      - rewrite !(run_cons NN fexp score).
        destruct (advance_local c st ps d Hown Hag) as (E1 & Hag1 & Hown1).
        rewrite E1. apply IH; assumption.
    Qed.
  End OneReplica.

  (* ------------------------------------------------------------------ *)
  (* (2) two replicas over one heap, any schedule                        *)

  Section TwoReplicas.
    Variables scoreA scoreB : N -> list T -> option T.
    Variables ownA ownB : list nat.
    Variables cA cB : cfg.
    Hypothesis localA : forall k ps qs, agree ownA ps qs -> scoreA k ps = scoreA k qs.
    Hypothesis localB : forall k ps qs, agree ownB ps qs -> scoreB k ps = scoreB k qs.
    Hypothesis disjoint : forall k, In k ownA -> In k ownB -> False.

    (* the system: the shared heap and the two replicas' private states (their own `params` field is not used) *)
    Definition sys : Type := (list T * ost * ost)%type.

    (* one atomic step of A (true) or of B (false) with its next random draw *)
    Definition sys_step (s : sys) (e : bool * draw) : sys :=
      let '(heap, a, b) := s in
      if fst e then let a' := advance NN fexp scoreA cA (with_params a heap) (snd e) in (params a', a', b)
      else let b' := advance NN fexp scoreB cB (with_params b heap) (snd e) in (params b', a, b').

    Definition sys_run (s : sys) (sched : list (bool * draw)) : sys := fold_left sys_step sched s.

    Definition draws_of (who : bool) (sched : list (bool * draw)) : list draw :=
      map snd (filter (fun e => Bool.eqb (fst e) who) sched).

    (* cells outside a replica's footprint are left alone by its step *)
    Lemma advance_frame score c st d k :
      (forall h, In h (handles st) -> h_cell h <> k) ->
      nth k (params (advance NN fexp score c st d)) n0 = nth k (params st) n0.
    Proof.
      intros H. apply (advance_footprint NN fexp score c st d k). intros Hin.
      unfold cells_of in Hin. apply in_map_iff in Hin. destruct Hin as (h & E & Hh). exact (H h Hh E).
    Qed.

    Lemma advance_length score c st d : length (params (advance NN fexp score c st d)) = length (params st).
    Proof.
      unfold Optimiser.advance. destruct (fin st); [reflexivity|].
      assert (Hm : length (params (mc_step NN fexp score c st d)) = length (params st)).
      { unfold Optimiser.mc_step. destruct (nth_error _ _); [|reflexivity]. cbv zeta.
        destruct (Optimiser.accept _ _ _ _ _ _); cbn [params]; now rewrite ?set_nth_length. }
      destruct (bad_index _); [exact Hm|]. destruct (N.eqb _ _); [|exact Hm].
      now rewrite (end_loop_params NN c).
    Qed.

    (* C09: for every schedule, each replica ends exactly as in isolation *)
    Theorem interleaving_does_not_matter (sched : list (bool * draw)) : forall heap a b,
      owns ownA a -> owns ownB b ->
      let '(heap', a', b') := sys_run (heap, a, b) sched in
      let ra := run NN fexp scoreA cA (with_params a heap) (draws_of true sched) in
      let rb := run NN fexp scoreB cB (with_params b heap) (draws_of false sched) in
      with_params a' heap' = with_params ra heap' /\ agree ownA (params ra) heap'
      /\ with_params b' heap' = with_params rb heap' /\ agree ownB (params rb) heap'.
    Proof.
      induction sched as [|[who d] sched IH]; intros heap a b HoA HoB.
      - cbn. repeat split; auto.
      - unfold sys_run. cbn [fold_left sys_step fst snd]. destruct who.
        + (* a step of A *)
          set (a1 := advance NN fexp scoreA cA (with_params a heap) d).
          assert (HoA1 : owns ownA a1).
          { destruct (advance_local scoreA ownA localA cA (with_params a heap) heap d) as (_ & _ & H); auto. apply agree_refl. }
          specialize (IH (params a1) a1 b HoA1 HoB). fold (sys_run (params a1, a1, b) sched) in *.
          destruct (sys_run (params a1, a1, b) sched) as [[heap' a'] b'].
          cbv zeta in IH |- *. destruct IH as (I1 & I2 & I3 & I4).
          unfold draws_of. cbn [filter fst Bool.eqb map snd]. fold (draws_of true sched). fold (draws_of false sched).
          rewrite (run_cons NN fexp scoreA). fold a1. rewrite with_params_id in I1, I2.
          split; [exact I1|]. split; [exact I2|].
          (* B: its isolated run from the old heap and from the new one agree on B's cells *)
          assert (HagB : agree ownB heap (params a1)).
          { split; [unfold a1; now rewrite advance_length|]. intros k Hk. unfold a1. symmetry.
            rewrite advance_frame; [reflexivity|]. intros h Hh E. cbn [handles with_params] in Hh.
            apply (disjoint k); [rewrite <- E; now apply HoA|exact Hk]. }
          assert (HoB' : owns ownB (with_params b heap)) by exact HoB.
          destruct (run_local scoreB ownB localB cB (draws_of false sched) (with_params b heap) (params a1) HoB' HagB) as [R1 R2].
          rewrite with_params_twice in R1, R2.
          split.
          * rewrite I3. rewrite R1. reflexivity.
          * apply agree_trans with (params (run NN fexp scoreB cB (with_params b (params a1)) (draws_of false sched))); assumption.
        + (* a step of B *)
          set (b1 := advance NN fexp scoreB cB (with_params b heap) d).
          assert (HoB1 : owns ownB b1).
          { destruct (advance_local scoreB ownB localB cB (with_params b heap) heap d) as (_ & _ & H); auto. apply agree_refl. }
          specialize (IH (params b1) a b1 HoA HoB1). fold (sys_run (params b1, a, b1) sched) in *.
          destruct (sys_run (params b1, a, b1) sched) as [[heap' a'] b'].
          cbv zeta in IH |- *. destruct IH as (I1 & I2 & I3 & I4).
          unfold draws_of. cbn [filter fst Bool.eqb map snd]. fold (draws_of true sched). fold (draws_of false sched).
          rewrite (run_cons NN fexp scoreB). fold b1. rewrite with_params_id in I3, I4.
          assert (HagA : agree ownA heap (params b1)).
          { split; [unfold b1; now rewrite advance_length|]. intros k Hk. unfold b1. symmetry.
            rewrite advance_frame; [reflexivity|]. intros h Hh E. cbn [handles with_params] in Hh.
            apply (disjoint k); [exact Hk|rewrite <- E; now apply HoB]. }
          assert (HoA' : owns ownA (with_params a heap)) by exact HoA.
          destruct (run_local scoreA ownA localA cA (draws_of true sched) (with_params a heap) (params b1) HoA' HagA) as [R1 R2].
          rewrite with_params_twice in R1, R2.
          split; [rewrite I1, R1; reflexivity|].
          split; [apply agree_trans with (params (run NN fexp scoreA cA (with_params a (params b1)) (draws_of true sched))); assumption|].
          split; [exact I3|exact I4].
    Qed.
  End TwoReplicas.
End Local.

(* the locality hypothesis is satisfiable: a score that reads cell 0 only is local to [0] *)
Example local_score_example (NN : Num) :
  forall k ps qs, agree NN [0%nat] ps qs ->
    (fun (_ : N) (l : list (carrier NN)) => Some (nth 0 l n0)) k ps = (fun (_ : N) (l : list (carrier NN)) => Some (nth 0 l n0)) k qs.
Proof. intros k ps qs [_ H]. cbv beta. f_equal. apply H. now left. Qed.
