(* SrcOpt.v - src/optimisation.rs and src/basis.rs as translated from the source on this run (gen/GenFns.v) are the
   hand-written optimiser model. *)
From Coq Require Import ZArith NArith String List Bool Lia.
From PV Require Import Num model.Geom model.Optimiser model.Svg model.Pipeline model.Iter gen.GenFns proofs.ListLemmas.
Import ListNotations.
Local Open Scope num_scope.

(* every function of the source this file is about was translated on this run *)
Theorem optimiser_source_translated :
  translated_gen_energy_surface = true /\
  translated_gen_test_acceptance = true /\
  translated_gen_accept_score = true /\
  translated_gen_cooling_factor = true /\
  translated_gen_build = true /\
  translated_gen_inner_steps = true /\
  translated_gen_loops = true /\
  translated_gen_converged = true /\
  translated_gen_ratio_update = true /\
  translated_gen_init = true /\
  translated_gen_init_count = true /\
  translated_gen_loop_head = true /\
  translated_gen_inner_count = true /\
  translated_gen_final_ok = true /\
  translated_gen_mc_step = true /\
  translated_gen_end_loop = true /\
  translated_gen_clamp = true /\
  translated_gen_sample = true /\
  translated_gen_reset_value = true /\
  translated_gen_set_sampled = true.
Proof. repeat split; reflexivity. Qed.

Section Source.
  Variable NN : Num.
  Notation T := (carrier NN).
  Variable fexp facos : T -> T.
  Variable fpow : T -> T -> T.
  Variable powi : T -> Z -> T.

  (* ---- src/optimisation.rs *)
  Theorem energy_surface_is_source : forall new old kt,
    gen_energy_surface NN fexp new old kt = energy_surface NN fexp new old kt.
  Proof. reflexivity. Qed.

  Theorem test_acceptance_is_source : forall thr new old kt,
    gen_test_acceptance NN fexp thr new old kt = (thr <? energy_surface NN fexp new old kt).
  Proof. reflexivity. Qed.

  (* accept_score returns the proposal's score exactly when the model's `accept` says yes *)
  Theorem accept_score_is_source : forall thr new old kt,
    gen_accept_score NN fexp thr new old kt = if accept NN fexp thr new old kt then new else None.
  Proof.
    intros thr [s|] old kt; [|reflexivity]. unfold gen_accept_score, accept, gen_test_acceptance.
    destruct (nis_nan s); [reflexivity|]. destruct (old <? s); [reflexivity|].
    change (gen_energy_surface NN fexp s old kt) with (energy_surface NN fexp s old kt).
    destruct (thr <? energy_surface NN fexp s old kt); reflexivity.
  Qed.

  Theorem cooling_factor_is_source : forall b,
    gen_cooling_factor NN fpow b (N.min (b_inner NN b) (b_steps NN b)) = factor NN (build NN fpow b).
  Proof.
    intros b. unfold gen_cooling_factor, build. cbn [factor].
    destruct (b_kt_ratio NN b), (b_kt_finish NN b); reflexivity.
  Qed.

  Theorem inner_steps_is_source : forall b, gen_inner_steps NN b = inner NN (build NN fpow b).
  Proof. reflexivity. Qed.

  (* BuildOptimiser::build as a whole (every field of the MCOptimiser it returns, the seed apart) *)
  Theorem build_is_source : forall b, gen_build NN fpow b = build NN fpow b.
  Proof.
    intros b. unfold gen_build, build. cbv zeta.
    destruct (b_kt_ratio NN b) as [r|]; [reflexivity|].
    destruct (b_kt_finish NN b) as [fin|]; reflexivity.
  Qed.

  Theorem loops_is_source : forall c, gen_loops NN c = loops_of (steps NN c) (inner NN c).
  Proof. reflexivity. Qed.

  (* the convergence test of a loop: the improvement is below the threshold *)
  Theorem converged_is_source : forall cur start eps, gen_converged NN cur start eps = ((cur - start) <? eps).
  Proof. reflexivity. Qed.

  (* the step-ratio update at the end of a loop that does not converge *)
  Theorem ratio_update_is_source : forall (r : T) (inner_ rej : N),
    gen_ratio_update NN r inner_ rej =
    if thresh NN <? r then nmin (r * (ofN NN inner_ / (ofN NN rej + n1))) n1 else r.
  Proof. reflexivity. Qed.

  (* the body of the inner loop (one proposal: draw an index, set_sampled, score, accept_score, on rejection reset_value
     and count), translated as an update of the world and of (score_current, loop_rejections), is the model's mc_step *)
  Lemma nth_error_set_nth_same {A} (l : list A) i x v : nth_error l i = Some x -> nth_error (set_nth l i v) i = Some v.
  Proof.
    revert i; induction l as [|y l IH]; intros [|i] H; cbn in *; try discriminate; [reflexivity|]. apply IH; exact H.
  Qed.

  Theorem mc_step_is_source : forall (score : N -> list T -> option T) c st d,
    mc_step NN fexp score c st d =
    match gen_mc_step NN fexp score c (mkWorld (params NN st) (handles NN st) (calls NN st))
                      (score_cur NN st) (kt NN st) (ratio NN st) (loop_rej NN st) d with
    | None =>        (* the expect() panic: the drawn index names no basis *)
        mkOst (params NN st) (handles NN st) (score_cur NN st) (kt NN st) (ratio NN st)
              (conv_count NN st) (loop_rej NN st) (score_start NN st) (loops_done NN st)
              (j NN st) (calls NN st) true false true
    | Some (w, sc, rej) =>
        mkOst (w_params NN w) (w_handles NN w) sc (kt NN st) (ratio NN st) (conv_count NN st) rej
              (score_start NN st) (loops_done NN st) (N.succ (j NN st)) (w_calls NN w) false false false
    end.
  Proof.
    intros score c st d. unfold mc_step, gen_mc_step, w_set_sampled. cbv zeta. cbn [w_handles w_params w_calls].
    destruct (nth_error (handles NN st) (d_idx NN d)) as [h|] eqn:Hh; [|reflexivity].
    unfold w_score. cbn [fst snd w_handles w_params w_calls].
    rewrite accept_score_is_source.
    destruct (accept NN fexp (d_thr NN d) _ (score_cur NN st) (kt NN st)) eqn:Ha.
    - destruct (score (calls NN st) _) as [s|] eqn:Hs; [reflexivity|]. cbn in Ha. discriminate.
    - unfold w_reset. cbn [w_handles w_params w_calls].
      rewrite (nth_error_set_nth_same _ _ _ _ Hh). cbn [h_cell h_old with_old]. rewrite N.add_1_r. reflexivity.
  Qed.

  (* what optimise_state starts with, the head of the outer loop's body, the length of the inner loop, the final
     assertion *)
  Theorem init_is_source : forall c ps hs s0,
    init NN c ps hs s0 =
    mkOst ps hs s0 (fst (gen_init NN c)) (snd (gen_init NN c)) gen_init_count 0%N s0 0%N 0%N 1%N
          (N.eqb (gen_loops NN c) 0) false false.
  Proof. reflexivity. Qed.

  Theorem loop_head_is_source : forall c st,
    (score_start NN (end_loop NN c st), loop_rej NN (end_loop NN c st)) = gen_loop_head NN (score_cur NN (end_loop NN c st))
    /\ gen_loop_head NN (score_cur NN (init NN c (params NN st) (handles NN st) (score_cur NN st)))
       = (score_start NN (init NN c (params NN st) (handles NN st) (score_cur NN st)),
          loop_rej NN (init NN c (params NN st) (handles NN st) (score_cur NN st))).
  Proof.
    intros c st. split; [|reflexivity]. unfold end_loop, gen_loop_head.
    destruct (andb _ _); reflexivity.
  Qed.

  Theorem inner_count_is_source : forall (score : N -> list T -> option T) c st d,
    advance NN fexp score c st d =
    if fin NN st then st
    else let st1 := mc_step NN fexp score c st d in
         if bad_index NN st1 then st1
         else if N.eqb (j NN st1) (gen_inner_count NN c) then end_loop NN c st1 else st1.
  Proof. reflexivity. Qed.

  Theorem final_assert_is_source : forall (score : N -> list T -> option T) c ps hs draws s0,
    score 0%N ps = Some s0 ->
    let st := run NN fexp score c (init NN c ps hs s0) draws in
    bad_index NN st = false -> fin NN st = true -> converged NN st = false ->
    optimise NN fexp score c ps hs draws
    = if gen_final_ok NN (score (calls NN st) (params NN st)) then Returned NN st else PanicFinalInvalid NN.
  Proof.
    intros score c ps hs draws s0 H0 st Hb Hf Hc. unfold optimise. rewrite H0. fold st. rewrite Hb, Hf, Hc. cbn [negb].
    unfold gen_final_ok. destruct (score (calls NN st) (params NN st)); reflexivity.
  Qed.

  (* the three operations of the loop body on the world are StandardBasis's methods AS TRANSLATED FROM src/basis.rs
     (set_sampled = set_value o sample; set_value remembers the current value and stores the clamped one; reset_value
     stores the remembered one), applied to the drawn handle and the cell it points to *)
  Theorem world_operations_are_source : forall (w : world NN) idx h step g,
    nth_error (w_handles NN w) idx = Some h ->
    w_set_sampled NN w idx step g =
      (let '(old', v') := gen_set_sampled NN (h_min NN h) (h_max NN h) (h_old NN h) (get_cell NN (w_params NN w) (h_cell NN h)) step g in
       Some (mkWorld (set_nth (w_params NN w) (h_cell NN h) v') (set_nth (w_handles NN w) idx (with_old NN h old')) (w_calls NN w)))
    /\ w_reset NN w idx =
      (let '(_, v') := gen_reset_value NN (h_old NN h) (get_cell NN (w_params NN w) (h_cell NN h)) in
       Some (mkWorld (set_nth (w_params NN w) (h_cell NN h) v') (w_handles NN w) (w_calls NN w))).
  Proof.
    intros w idx h step g H. unfold w_set_sampled, w_reset. rewrite H. split; reflexivity.
  Qed.

  (* the whole tail of the outer loop's body (cooling, convergence count, early return, step-ratio update), translated as
     a state update of (kt, convergence_count, step_ratio) with an early-return flag, is the model's end_loop *)
  Theorem end_loop_is_source : forall c st,
    let r := gen_end_loop NN c (score_cur NN st) (score_start NN st) (kt NN st) (conv_count NN st) (ratio NN st) (loop_rej NN st) in
    end_loop NN c st =
    mkOst (params NN st) (handles NN st) (score_cur NN st)
          (fst (fst (snd r))) (snd (snd r)) (snd (fst (snd r))) 0%N (score_cur NN st)
          (N.succ (loops_done NN st)) 0%N (calls NN st)
          (orb (fst r) (N.leb (loops_of (steps NN c) (inner NN c)) (N.succ (loops_done NN st)))) (fst r) false.
  Proof.
    intros c st. unfold end_loop, gen_end_loop, thresh. cbv zeta.
    destruct (conv NN c) as [eps|]; cbn [andb].
    - destruct ((score_cur NN st - score_start NN st) <? eps); cbn [andb].
      + rewrite N.add_1_r. destruct (N.ltb 5 (N.succ (conv_count NN st))); cbn [andb fst snd orb].
        * reflexivity.
        * destruct ((nofZ 1 / nofZ 10000) <? ratio NN st); reflexivity.
      + destruct ((nofZ 1 / nofZ 10000) <? ratio NN st); reflexivity.
    - destruct ((nofZ 1 / nofZ 10000) <? ratio NN st); reflexivity.
  Qed.

  (* ---- src/basis.rs *)
  Theorem clamp_is_source : forall lo hi x, gen_clamp NN lo hi x = nclamp lo hi x.
  Proof. reflexivity. Qed.

  Theorem sample_is_source : forall (h : handle NN) v step g,
    gen_sample NN (h_min NN h) (h_max NN h) v step g = sample NN h v step g.
  Proof. reflexivity. Qed.


  (* ---- optimise_state as a whole: the model's run and outcome are the translated pieces put together - the start
     (gen_init, gen_init_count, gen_loops), one proposal (gen_mc_step), the end of an inner loop after gen_inner_count
     proposals (gen_end_loop, gen_loop_head), the final assertion (gen_final_ok) *)
  Variable score : N -> list T -> option T.

  Definition src_mc_step (c : cfg NN) (st : ost NN) (d : draw NN) : ost NN :=
    match gen_mc_step NN fexp score c (mkWorld (params NN st) (handles NN st) (calls NN st))
                      (score_cur NN st) (kt NN st) (ratio NN st) (loop_rej NN st) d with
    | None => mkOst (params NN st) (handles NN st) (score_cur NN st) (kt NN st) (ratio NN st)
                    (conv_count NN st) (loop_rej NN st) (score_start NN st) (loops_done NN st)
                    (j NN st) (calls NN st) true false true
    | Some (w, sc, rej) =>
        mkOst (w_params NN w) (w_handles NN w) sc (kt NN st) (ratio NN st) (conv_count NN st) rej
              (score_start NN st) (loops_done NN st) (N.succ (j NN st)) (w_calls NN w) false false false
    end.

  Definition src_end_loop (c : cfg NN) (st : ost NN) : ost NN :=
    let r := gen_end_loop NN c (score_cur NN st) (score_start NN st) (kt NN st) (conv_count NN st) (ratio NN st) (loop_rej NN st) in
    let hd := gen_loop_head NN (score_cur NN st) in
    mkOst (params NN st) (handles NN st) (score_cur NN st)
          (fst (fst (snd r))) (snd (snd r)) (snd (fst (snd r))) (snd hd) (fst hd)
          (N.succ (loops_done NN st)) 0%N (calls NN st)
          (orb (fst r) (N.leb (gen_loops NN c) (N.succ (loops_done NN st)))) (fst r) false.

  Definition src_advance (c : cfg NN) (st : ost NN) (d : draw NN) : ost NN :=
    if fin NN st then st
    else let st1 := src_mc_step c st d in
         if bad_index NN st1 then st1
         else if N.eqb (j NN st1) (gen_inner_count NN c) then src_end_loop c st1 else st1.

  Definition src_init (c : cfg NN) (ps : list T) (hs : list (handle NN)) (s0 : T) : ost NN :=
    mkOst ps hs s0 (fst (gen_init NN c)) (snd (gen_init NN c)) gen_init_count 0%N s0 0%N 0%N 1%N
          (N.eqb (gen_loops NN c) 0) false false.

  Definition src_optimise (c : cfg NN) (ps : list T) (hs : list (handle NN)) (draws : list (draw NN)) : outcome NN :=
    match score 0%N ps with
    | None => PanicInvalidInput NN
    | Some s0 =>
        let st := fold_left (src_advance c) draws (src_init c ps hs s0) in
        if bad_index NN st then PanicBadIndex NN
        else if negb (fin NN st) then OutOfDraws NN
        else if converged NN st then Returned NN st
        else if gen_final_ok NN (score (calls NN st) (params NN st)) then Returned NN st else PanicFinalInvalid NN
    end.

  Lemma src_advance_is_advance : forall c st d, src_advance c st d = advance NN fexp score c st d.
  Proof.
    intros c st d. unfold src_advance, advance.
    assert (E : src_mc_step c st d = mc_step NN fexp score c st d) by (unfold src_mc_step; now rewrite mc_step_is_source).
    rewrite E. destruct (fin NN st); [reflexivity|]. cbv zeta.
    destruct (bad_index NN (mc_step NN fexp score c st d)); [reflexivity|].
    change (gen_inner_count NN c) with (inner NN c).
    destruct (N.eqb (j NN (mc_step NN fexp score c st d)) (inner NN c)); [|reflexivity].
    unfold src_end_loop. rewrite end_loop_is_source. reflexivity.
  Qed.

  Lemma src_run_is_run : forall c draws st,
    fold_left (src_advance c) draws st = run NN fexp score c st draws.
  Proof.
    intros c draws. unfold run. induction draws as [|d ds IH]; intros st; [reflexivity|].
    cbn [fold_left]. rewrite src_advance_is_advance. apply IH.
  Qed.

  Theorem optimise_state_is_the_source_pieces : forall c ps hs draws,
    optimise NN fexp score c ps hs draws = src_optimise c ps hs draws.
  Proof.
    intros c ps hs draws. unfold optimise, src_optimise.
    destruct (score 0%N ps) as [s0|]; [|reflexivity].
    assert (E : run NN fexp score c (init NN c ps hs s0) draws = fold_left (src_advance c) draws (src_init c ps hs s0)).
    { unfold run. change (src_init c ps hs s0) with (init NN c ps hs s0).
      generalize (init NN c ps hs s0). induction draws as [|d ds IH]; intros st; [reflexivity|].
      cbn [fold_left]. rewrite src_advance_is_advance. apply IH. }
    rewrite E. cbv zeta.
    destruct (bad_index NN _); [reflexivity|]. destruct (negb (fin NN _)); [reflexivity|].
    destruct (converged NN _); [reflexivity|].
    unfold gen_final_ok. destruct (score _ _); reflexivity.
  Qed.
End Source.
