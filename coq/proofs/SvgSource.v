(* SvgSource.v - C11: the <use> elements a state's as_svg adds to its document, AS TRANSLATED FROM src/to_svg.rs on this
   run (the loop over the nine cell frames, then for every relative position the placement and its eight nearest
   images, each with the attributes set on it, in order), are the model's svg_elements; their placements are the
   lists svg_cell_uses / svg_mol_uses the theorems of OutputFacts.v speak about. *)
From Coq Require Import ZArith List Bool String.
From PV Require Import Num model.Geom model.Svg gen.GenFns.
Import ListNotations.

Lemma fold_left_snoc {A B} (g : B -> A) (l : list B) (acc : list A) :
  fold_left (fun d x => d ++ [g x]) l acc = acc ++ map g l.
Proof.
  revert acc; induction l as [|x l IH]; intros acc; cbn [fold_left map].
  - now rewrite app_nil_r.
  - rewrite IH, <- app_assoc. reflexivity.
Qed.

Lemma fold_left_append' {A B} (f : B -> list A) (l : list B) (acc : list A) :
  fold_left (fun acc x => acc ++ f x) l acc = acc ++ flat_map f l.
Proof.
  revert acc; induction l as [|x l IH]; intros acc; cbn [fold_left flat_map].
  - now rewrite app_nil_r.
  - rewrite IH, app_assoc. reflexivity.
Qed.

(* ---- src/to_svg.rs: the matrix(a b c d e f) of a placement lists the entries in the model's order *)
Definition tf_entry (NN : Num) (t : tf NN) (rc : nat * nat) : carrier NN :=
  match rc with
  | (0, 0) => a00 NN t | (0, 1) => a01 NN t | (0, 2) => a02 NN t
  | (1, 0) => a10 NN t | (1, 1) => a11 NN t | (1, 2) => a12 NN t
  | (2, 0) => a20 NN t | (2, 1) => a21 NN t | _ => a22 NN t
  end%nat.

Theorem svg_entries_are_source : forall NN (t : tf NN),
  emit NN t = map (tf_entry NN t) gen_svg_entries
  /\ gen_svg_format = "matrix({0} {1} {2} {3} {4} {5})"%string.
Proof. intros NN t. split; reflexivity. Qed.

(* every function of the source this file is about was translated on this run *)
Theorem svg_source_translated :
  translated_gen_svg_uses = true /\
  translated_gen_lj_svg_uses = true /\
  translated_gen_svg_entries = true.
Proof. repeat split; reflexivity. Qed.

Section SvgSource.
  Variable NN : Num.

  Theorem svg_uses_are_source : forall (st : pstate NN) (lst : ljstate NN),
    gen_svg_uses NN st = svg_elements NN (p_cell NN st) (relative_positions NN st)
    /\ gen_lj_svg_uses NN lst = svg_elements NN (l_cell NN lst) (lj_relative NN lst).
  Proof.
    intros st lst. unfold gen_svg_uses, gen_lj_svg_uses, svg_elements, svg_cell_uses. cbv zeta.
    split.
    - rewrite (fold_left_snoc (fun t => svg_set NN (svg_use NN t) "href" "#cell")). cbn [app].
      match goal with |- fold_left ?F ?l ?a = _ =>
        assert (E : forall l' a', fold_left F l' a' = a' ++ flat_map (fun pos =>
           (to_cartesian_isometry NN (p_cell NN st) pos, [("href", "#mol"); ("fill", "blue")]%string)
           :: map (fun t => (t, [("href", "#mol"); ("fill", "green")]%string)) (periodic_images NN (p_cell NN st) pos 1 false)) l') end.
      { induction l' as [|x l' IH]; intros a'; cbn [fold_left flat_map]; [now rewrite app_nil_r|].
        rewrite IH, fold_left_snoc, <- !app_assoc. reflexivity. }
      rewrite E. reflexivity.
    - rewrite (fold_left_snoc (fun t => svg_set NN (svg_use NN t) "href" "#cell")). cbn [app].
      match goal with |- fold_left ?F ?l ?a = _ =>
        assert (E : forall l' a', fold_left F l' a' = a' ++ flat_map (fun pos =>
           (to_cartesian_isometry NN (l_cell NN lst) pos, [("href", "#mol"); ("fill", "blue")]%string)
           :: map (fun t => (t, [("href", "#mol"); ("fill", "green")]%string)) (periodic_images NN (l_cell NN lst) pos 1 false)) l') end.
      { induction l' as [|x l' IH]; intros a'; cbn [fold_left flat_map]; [now rewrite app_nil_r|].
        rewrite IH, fold_left_snoc, <- !app_assoc. reflexivity. }
      rewrite E. reflexivity.
  Qed.

  (* the placements shown, in document order, are the lists the SVG theorems are about *)
  Theorem svg_elements_placements : forall (c : cell NN) rel,
    map fst (svg_elements NN c rel) = svg_cell_uses NN c ++ svg_mol_uses NN c rel.
  Proof.
    intros c rel. unfold svg_elements, svg_mol_uses. rewrite map_app, map_map. cbn [fst]. rewrite map_id. f_equal.
    induction rel as [|p rel IH]; [reflexivity|]. cbn [flat_map map]. rewrite map_app, IH. cbn [map fst].
    rewrite map_map. cbn [fst]. rewrite map_id. reflexivity.
  Qed.
End SvgSource.
