(* HillClimb.v - C05 at full strength on binary64: with kt_start = 0 (of either sign) the optimiser
   model is a hill climb, for EVERY configuration: every cooling ratio (finite, infinite, not a
   number, absent), every finishing temperature, every step counts, every oracle and every random
   stream with thresholds >= 0.  Premise about libm: exp(-inf) = 0. *)
From Coq Require Import ZArith NArith List Bool Floats.
From PV Require Import Num model.Optimiser model.OptSpec proofs.OptStruct proofs.OptLoop
  proofs.FloatFacts proofs.FloatZero.

Section HillF.
  Variable fexp : F -> F.
  Variable fpow : F -> F -> F.
  Variable score : N -> list F -> option F.
  Hypothesis fexp_neg_inf : fexp neg_infinity = 0%float.

  Definition thr_ok (d : draw NumF) : Prop := fleb 0%float (d_thr NumF d) = true.
  (* the starting temperature is zero: +0 or -0 *)
  Definition zero_start (b : builder NumF) : Prop := feqb (b_kt_start NumF b) 0%float = true.

  Lemma build_zero_start (b : builder NumF) :
    zero_start b -> kt_start NumF (build NumF fpow b) = 0%float.
  Proof. intros H. unfold build. cbn [kt_start neqb NumF]. unfold zero_start in H.
         change (n0 (NN:=NumF)) with 0%float. now rewrite H. Qed.

  Lemma build_zero_factor (b : builder NumF) :
    zero_start b ->
    PrimFloat.mul 0%float (factor NumF (build NumF fpow b)) = 0%float.
  Proof.
    intros Hs.
    rewrite (C18_factor_at_zero_start NumF fpow b) by (now apply F_zero_not_positive).
    destruct (b_kt_ratio NumF b) as [r|].
    - apply F_zero_mul_any_factor.
    - reflexivity.
  Qed.

  (* C05: the held score never decreases along the run and the returned score is at least the
     input score *)
  Theorem C05_zero_temperature_is_hill_climb :
    forall (b : builder NumF) ps hs (s0 : F) (draws1 draws2 : list (draw NumF)),
    zero_start b -> fnan s0 = false ->
    Forall thr_ok (draws1 ++ draws2) ->
    let c := build NumF fpow b in
    let mid := run NumF fexp score c (init NumF c ps hs s0) draws1 in
    let fin := run NumF fexp score c (init NumF c ps hs s0) (draws1 ++ draws2) in
    fleb s0 (score_cur NumF mid) = true
    /\ fleb (score_cur NumF mid) (score_cur NumF fin) = true.
  Proof.
    intros b ps hs s0 d1 d2 Hs Hn Hthr c mid fin.
    apply (C05_hill_climb NumF fexp score 0%float (fun t => fleb 0%float t = true) c).
    - intros thr new old Ht Ho Ha. now apply (F_accept_zero_not_worse fexp fexp_neg_inf thr).
    - now apply build_zero_factor.
    - intros x Hx. now apply leb_refl.
    - apply F_leb_trans.
    - now apply build_zero_start.
    - exact Hn.
    - exact Hthr.
  Qed.

  (* the temperature is +0 at every point of such a run *)
  Theorem C05_zero_temperature_stays_zero :
    forall (b : builder NumF) ps hs (s0 : F) (draws : list (draw NumF)),
    zero_start b ->
    let c := build NumF fpow b in
    kt NumF (run NumF fexp score c (init NumF c ps hs s0) draws) = 0%float.
  Proof.
    intros b ps hs s0 draws Hs c.
    pose proof (C18_kt_schedule NumF fexp score c ps hs s0 draws) as H.
    unfold kt_inv in H. rewrite H.
    unfold c. rewrite (build_zero_start b Hs).
    generalize (N.to_nat (loops_done NumF (run NumF fexp score (build NumF fpow b)
                                             (init NumF (build NumF fpow b) ps hs s0) draws))).
    intros k. induction k as [|k IH]; [reflexivity|].
    cbn [cooled]. rewrite IH. now apply build_zero_factor.
  Qed.

  (* non-vacuity: a start of negative zero with an infinite cooling ratio is such a configuration *)
  Example negative_zero_infinite_ratio_is_zero_start :
    zero_start (mkBuilder (NN:=NumF) 100 (-0)%float (Some 0x1p-10%float) (Some neg_infinity)
                          0x1p-7%float 10 None).
  Proof. reflexivity. Qed.
End HillF.
