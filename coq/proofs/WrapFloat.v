(* WrapFloat.v - C15 in binary64: the wrapped coordinate lies in the half-open cell [-1/2, 1/2) for EVERY
   finite input, rounding included.  Proved through Flocq's model of Coq's primitive floats. *)
From Coq Require Import ZArith Reals Floats Bool Lra Lia Psatz.
From Flocq Require Import Core Plus_error Sterbenz BinarySingleNaN PrimFloat.
From PV Require Import Num model.Geom proofs.FloatFacts proofs.FloatZero.

Local Instance Hprec : FLX.Prec_gt_0 prec := eq_refl _.
Local Instance Hmax : Prec_lt_emax prec emax := eq_refl _.

Notation fx := (SpecFloat.fexp prec emax).
Notation rnd := (round radix2 fx ZnearestE).
Notation fmt := (generic_format radix2 fx).
Local Open Scope R_scope.

(* ------------------------------------------------------------------ *)
(* exact additions and subtractions                                    *)

Lemma Bplus_exact (X Y : BF) :
  BinarySingleNaN.is_finite X = true -> BinarySingleNaN.is_finite Y = true ->
  fmt (B2R X + B2R Y) -> Rabs (B2R X + B2R Y) < bpow radix2 emax ->
  B2R (Bplus mode_NE X Y) = B2R X + B2R Y /\ BinarySingleNaN.is_finite (Bplus mode_NE X Y) = true.
Proof.
  intros FX FY Hf Hb. pose proof (Bplus_correct _ _ _ _ mode_NE X Y FX FY) as H.
  cbn [round_mode] in H. rewrite (round_generic radix2 fx ZnearestE _ Hf) in H.
  rewrite Rlt_bool_true in H by exact Hb. tauto.
Qed.

Lemma Bminus_exact (X Y : BF) :
  BinarySingleNaN.is_finite X = true -> BinarySingleNaN.is_finite Y = true ->
  fmt (B2R X - B2R Y) -> Rabs (B2R X - B2R Y) < bpow radix2 emax ->
  B2R (Bminus mode_NE X Y) = B2R X - B2R Y /\ BinarySingleNaN.is_finite (Bminus mode_NE X Y) = true.
Proof.
  intros FX FY Hf Hb. pose proof (Bminus_correct _ _ _ _ mode_NE X Y FX FY) as H.
  cbn [round_mode] in H. rewrite (round_generic radix2 fx ZnearestE _ Hf) in H.
  rewrite Rlt_bool_true in H by exact Hb. tauto.
Qed.

(* a rounded sum that stays below the overflow threshold *)
Lemma Bplus_rounded (X Y : BF) :
  BinarySingleNaN.is_finite X = true -> BinarySingleNaN.is_finite Y = true ->
  Rabs (rnd (B2R X + B2R Y)) < bpow radix2 emax ->
  B2R (Bplus mode_NE X Y) = rnd (B2R X + B2R Y) /\ BinarySingleNaN.is_finite (Bplus mode_NE X Y) = true.
Proof.
  intros FX FY Hb. pose proof (Bplus_correct _ _ _ _ mode_NE X Y FX FY) as H.
  cbn [round_mode] in H. rewrite Rlt_bool_true in H by exact Hb. tauto.
Qed.

(* integers below 2^53 are floats *)
Lemma fmt_int (n : Z) : (Z.abs n <= 2 ^ 53)%Z -> fmt (IZR n).
Proof.
  intros Hn. destruct (Z.eq_dec (Z.abs n) (2 ^ 53)) as [E|E].
  - (* +-2^53 = +-1 * 2^53 *)
    assert (Hp : fmt (bpow radix2 53)).
    { apply generic_format_bpow. unfold fx, SpecFloat.fexp, emin, SpecFloat.emin, prec, emax. lia. }
    destruct (Z.abs_eq_or_opp n) as [A|A]; rewrite A in E.
    + rewrite E. change (IZR (2 ^ 53)) with (bpow radix2 53). exact Hp.
    + replace n with (- (2 ^ 53))%Z by lia. rewrite opp_IZR. apply generic_format_opp. exact Hp.
  - replace (IZR n) with (F2R (Float radix2 n 0)) by (unfold F2R; cbn; ring).
    apply generic_format_F2R. intros Hn0. unfold cexp.
    assert (Hm : (mag radix2 (F2R (Float radix2 n 0)) <= 53)%Z).
    { apply mag_le_bpow; [apply F2R_neq_0; exact Hn0|]. rewrite <- F2R_Zabs. unfold F2R. cbn [Fnum Fexp bpow]. rewrite Rmult_1_r.
      change (bpow radix2 53) with (IZR 9007199254740992). apply IZR_lt. change (2 ^ 53)%Z with 9007199254740992%Z in *. change (Z.pow_pos radix2 53) with 9007199254740992%Z. lia. }
    unfold fx, SpecFloat.fexp, emin, SpecFloat.emin, prec, emax. cbn [Fexp]. lia.
Qed.

(* ------------------------------------------------------------------ *)
(* constants                                                           *)

Lemma B2R_Prim (x : F) : B2R (Prim2B x) = SF2R radix2 (Prim2SF x).
Proof. rewrite <- B2SF_Prim2B. symmetry. apply SF2R_B2SF. Qed.

Lemma finite_Prim (x : F) : BinarySingleNaN.is_finite (Prim2B x) = is_finite_SF (Prim2SF x).
Proof. rewrite <- B2SF_Prim2B. symmetry. apply is_finite_SF_B2SF. Qed.

Definition B52 : BF := Prim2B two52.
Definition B1 : BF := Prim2B 1%float.
Definition Bhalf : BF := Prim2B 0.5%float.

Lemma B52_val : B2R B52 = 4503599627370496 /\ BinarySingleNaN.is_finite B52 = true.
Proof. unfold B52. rewrite B2R_Prim, finite_Prim. vm_compute Prim2SF. split; [unfold SF2R, F2R; cbn; lra|reflexivity]. Qed.
Lemma B1_val : B2R B1 = 1 /\ BinarySingleNaN.is_finite B1 = true.
Proof. unfold B1. rewrite B2R_Prim, finite_Prim. vm_compute Prim2SF. split; [unfold SF2R, F2R; cbn; lra|reflexivity]. Qed.
Lemma Bhalf_val : B2R Bhalf = / 2 /\ BinarySingleNaN.is_finite Bhalf = true.
Proof. unfold Bhalf. rewrite B2R_Prim, finite_Prim. vm_compute Prim2SF. split; [unfold SF2R, F2R; cbn; lra|reflexivity]. Qed.

(* ------------------------------------------------------------------ *)
(* rounding at magnitude 2^52 is rounding to an integer                *)

Lemma rnd_big (x : R) : 4503599627370496 <= x < 9007199254740992 ->
  exists k : Z, rnd x = IZR k /\ Rabs (x - IZR k) <= / 2.
Proof.
  intros Hx.
  assert (Hmag : mag radix2 x = 53%Z :> Z).
  { apply mag_unique. rewrite Rabs_pos_eq by lra.
    change (bpow radix2 (53 - 1)) with 4503599627370496. change (bpow radix2 53) with 9007199254740992. exact Hx. }
  assert (Hc : cexp radix2 fx x = 0%Z).
  { unfold cexp. rewrite Hmag. reflexivity. }
  exists (ZnearestE x). unfold round, scaled_mantissa, F2R. rewrite Hc. cbn [Fnum Fexp Z.opp bpow].
  rewrite !Rmult_1_r. split; [reflexivity|]. apply Znearest_half.
Qed.

(* the integer part, as ffmod1 computes it: fl = ((a + 2^52) - 2^52), corrected downwards *)
Definition Bfloor (A : BF) : BF :=
  let T := Bminus mode_NE (Bplus mode_NE A B52) B52 in
  if Bltb A T then Bminus mode_NE T B1 else T.

Lemma Bfloor_spec (A : BF) :
  BinarySingleNaN.is_finite A = true -> 0 <= B2R A < 4503599627370496 ->
  exists n : Z, B2R (Bfloor A) = IZR n /\ BinarySingleNaN.is_finite (Bfloor A) = true
                /\ (0 <= n <= 4503599627370496)%Z /\ IZR n <= B2R A < IZR n + 1.
Proof.
  intros FA Ha. destruct B52_val as [E52 F52]. destruct B1_val as [E1 F1].
  set (a := B2R A) in *.
  (* u = fl(a + 2^52) *)
  destruct (rnd_big (a + 4503599627370496)) as (k & Ek & Hk); [lra|].
  assert (Hkr : (4503599627370496 <= k <= 9007199254740992)%Z).
  { assert (H1 : 4503599627370496 - / 2 <= IZR k <= 9007199254740992 + / 2).
    { apply Rabs_le_inv in Hk. lra. }
    split.
    - apply le_IZR. destruct (Z_lt_le_dec k 4503599627370496) as [Hlt|]; [|now apply IZR_le].
      exfalso. assert (IZR k <= 4503599627370496 - 1) by (rewrite <- minus_IZR; apply IZR_le; lia). lra.
    - destruct (Z_lt_le_dec 9007199254740992 k) as [Hgt|]; [|assumption].
      exfalso. assert (9007199254740992 + 1 <= IZR k) by (rewrite <- plus_IZR; apply IZR_le; lia). lra. }
  destruct (Bplus_rounded A B52 FA F52) as [EU FU].
  { rewrite E52. fold a. rewrite Ek. rewrite Rabs_pos_eq by (apply IZR_le; lia).
    apply Rle_lt_trans with (IZR 9007199254740992); [apply IZR_le; lia|].
    change (IZR 9007199254740992) with (bpow radix2 53). apply bpow_lt. unfold emax. lia. }
  rewrite E52 in EU. fold a in EU. rewrite Ek in EU.
  set (U := Bplus mode_NE A B52) in *.
  (* t = u - 2^52, exactly *)
  destruct (Bminus_exact U B52 FU F52) as [ET FT].
  { rewrite EU, E52, <- minus_IZR. apply fmt_int. change (2 ^ 53)%Z with 9007199254740992%Z. lia. }
  { rewrite EU, E52, <- minus_IZR, <- abs_IZR. change (bpow radix2 emax) with (IZR (2 ^ 1024)).
    apply IZR_lt. apply Z.le_lt_trans with 9007199254740992%Z; [lia|]. reflexivity. }
  rewrite EU, E52, <- minus_IZR in ET.
  set (T := Bminus mode_NE U B52) in *. set (t := (k - 4503599627370496)%Z) in *.
  assert (Hta : Rabs (a - IZR t) <= / 2).
  { unfold t. rewrite minus_IZR. replace (a - (IZR k - 4503599627370496)) with (a + 4503599627370496 - IZR k) by ring. exact Hk. }
  apply Rabs_le_inv in Hta.
  unfold Bfloor. fold U. fold T. rewrite (Bltb_correct _ _ A T FA FT). fold a. rewrite ET.
  destruct (Rlt_bool_spec a (IZR t)) as [Hlt|Hge].
  - (* a < t: the floor is t - 1 *)
    assert (Ht1 : (1 <= t)%Z).
    { destruct (Z_lt_le_dec t 1) as [H0|]; [|assumption]. exfalso.
      assert (IZR t <= 0) by (apply IZR_le; lia). lra. }
    destruct (Bminus_exact T B1 FT F1) as [EF FF].
    { rewrite ET, E1, <- minus_IZR. apply fmt_int. change (2 ^ 53)%Z with 9007199254740992%Z. unfold t. lia. }
    { rewrite ET, E1, <- minus_IZR, <- abs_IZR. change (bpow radix2 emax) with (IZR (2 ^ 1024)).
      apply IZR_lt. apply Z.le_lt_trans with 9007199254740992%Z; [unfold t; lia|]. reflexivity. }
    exists (t - 1)%Z. rewrite EF, ET, E1, <- minus_IZR. split; [reflexivity|]. split; [exact FF|].
    split; [unfold t; lia|]. rewrite minus_IZR. lra.
  - exists t. split; [exact ET|]. split; [exact FT|]. split; [unfold t; lia|]. lra.
Qed.

(* the fractional part a - floor a is exact and lies in [0, 1) *)
Lemma Bfrac_spec (A : BF) :
  BinarySingleNaN.is_finite A = true -> 0 <= B2R A < 4503599627370496 ->
  BinarySingleNaN.is_finite (Bminus mode_NE A (Bfloor A)) = true
  /\ 0 <= B2R (Bminus mode_NE A (Bfloor A)) < 1.
Proof.
  intros FA Ha. destruct (Bfloor_spec A FA Ha) as (n & En & Fn & Hn & Hna).
  destruct (Bminus_exact A (Bfloor A) FA Fn) as [E F].
  - rewrite En. destruct (Z.eq_dec n 0) as [->|Hn0].
    + replace (B2R A - 0) with (B2R A) by ring. apply generic_format_B2R.
    + apply sterbenz; try typeclasses eauto.
      * apply generic_format_B2R.
      * rewrite <- En. apply generic_format_B2R.
      * assert (1 <= IZR n) by (apply IZR_le; lia). lra.
  - rewrite En. rewrite Rabs_pos_eq by lra.
    apply Rlt_trans with 1; [lra|]. change 1 with (bpow radix2 0). apply bpow_lt. unfold emax. lia.
  - split; [exact F|]. rewrite E, En. lra.
Qed.

(* ------------------------------------------------------------------ *)
(* ffmod1                                                              *)

Lemma Prim2B_if (c : bool) (x y : F) : Prim2B (if c then x else y) = if c then Prim2B x else Prim2B y.
Proof. destruct c; reflexivity. Qed.

(* every finite input: the remainder is finite, of magnitude below 1, and not negative for a non-negative input *)
Theorem ffmod1_range (x : F) :
  BinarySingleNaN.is_finite (Prim2B x) = true ->
  BinarySingleNaN.is_finite (Prim2B (ffmod1 x)) = true
  /\ -1 < B2R (Prim2B (ffmod1 x)) < 1
  /\ (0 <= B2R (Prim2B x) -> 0 <= B2R (Prim2B (ffmod1 x))).
Proof.
  intros FX. destruct B52_val as [E52 F52].
  set (X := Prim2B x) in *.
  set (A := Babs X).
  assert (FA : BinarySingleNaN.is_finite A = true) by (unfold A; now rewrite is_finite_Babs).
  assert (EA : B2R A = Rabs (B2R X)) by apply B2R_Babs.
  unfold ffmod1. rewrite ltb_equiv, abs_equiv. fold X. fold A. change (Prim2B two52) with B52.
  rewrite (Bltb_correct _ _ A B52 FA F52), E52.
  destruct (Rlt_bool_spec (B2R A) 4503599627370496) as [Hlt|Hge].
  - (* |x| < 2^52 *)
    assert (Ha : 0 <= B2R A < 4503599627370496) by (rewrite EA in *; split; [apply Rabs_pos|exact Hlt]).
    destruct (Bfrac_spec A FA Ha) as [FR HR].
    assert (ER : Prim2B (abs x - (if ltb (abs x) (abs x + two52 - two52) then abs x + two52 - two52 - 1 else abs x + two52 - two52))%float
                 = Bminus mode_NE A (Bfloor A)).
    { rewrite sub_equiv, Prim2B_if, !sub_equiv, !add_equiv, ltb_equiv, !sub_equiv, !add_equiv, abs_equiv.
      fold X. fold A. reflexivity. }
    cbv zeta. rewrite Prim2B_if, opp_equiv, ER.
    set (R := Bminus mode_NE A (Bfloor A)) in *.
    destruct (fsignbit x) eqn:Hs.
    + rewrite is_finite_Bopp, B2R_Bopp. split; [exact FR|]. split; [lra|].
      (* a non-negative input with the sign bit set is -0: its remainder is 0 *)
      intros Hx0. unfold fsignbit in Hs. apply orb_true_iff in Hs. destruct Hs as [Hs|Hs].
      * exfalso. rewrite ltb_equiv in Hs. fold X in Hs. rewrite Prim2B_zero in Hs.
        rewrite (Bltb_correct _ _ X (B754_zero false) FX eq_refl) in Hs. cbn [B2R] in Hs.
        destruct (Rlt_bool_spec (B2R X) 0); [lra|discriminate].
      * apply andb_true_iff in Hs. destruct Hs as [Hs _]. rewrite eqb_equiv in Hs. fold X in Hs. rewrite Prim2B_zero in Hs.
        rewrite (Beqb_correct _ _ X (B754_zero false) FX eq_refl) in Hs. cbn [B2R] in Hs.
        destruct (Req_bool_spec (B2R X) 0) as [E0|]; [|discriminate].
        (* then a = 0 and r = 0 *)
        assert (Ea0 : B2R A = 0) by (rewrite EA, E0, Rabs_R0; reflexivity).
        destruct (Bfloor_spec A FA Ha) as (n & En & Fn & Hn & Hna).
        assert (n = 0%Z).
        { rewrite Ea0 in Hna. destruct (Z.eq_dec n 0); [assumption|]. exfalso.
          assert (1 <= IZR n) by (apply IZR_le; lia). lra. }
        subst n. destruct (Bminus_exact A (Bfloor A) FA Fn) as [E _].
        { rewrite En, Ea0. replace (0 - 0) with 0 by ring. apply generic_format_0. }
        { rewrite En, Ea0. replace (0 - 0) with 0 by ring. rewrite Rabs_R0. apply bpow_gt_0. }
        fold R in E. rewrite E, En, Ea0. lra.
    + split; [exact FR|]. split; [lra|]. intros _. lra.
  - (* |x| >= 2^52, finite: the remainder is a zero *)
    rewrite Prim2B_if.
    assert (Hinf : ltb (abs x) infinity = true).
    { rewrite ltb_equiv, abs_equiv. fold X. fold A.
      destruct A as [s|s| |s m e h]; try discriminate; try reflexivity; destruct s; reflexivity. }
    rewrite Hinf. rewrite Prim2B_if.
    assert (Z1 : Prim2B (-0)%float = B754_zero true) by (apply B2Prim_inj; rewrite B2Prim_Prim2B; reflexivity).
    rewrite Z1, Prim2B_zero. destruct (fsignbit x); cbn [BinarySingleNaN.is_finite B2R]; (split; [reflexivity|]); split; lra.
Qed.

(* ------------------------------------------------------------------ *)
(* the wrap                                                            *)

Lemma fmt_half : fmt (/ 2).
Proof. change (/ 2) with (bpow radix2 (-1)). apply generic_format_bpow. unfold fx, SpecFloat.fexp, emin, SpecFloat.emin, prec, emax. lia. Qed.

Lemma fmt_one : fmt 1.
Proof. change 1 with (bpow radix2 0). apply generic_format_bpow. unfold fx, SpecFloat.fexp, emin, SpecFloat.emin, prec, emax. lia. Qed.

(* the largest float below 1 *)
Lemma below_one (r : R) : fmt r -> r < 1 -> r <= 1 - bpow radix2 (-53).
Proof.
  intros Hf Hr. pose proof (pred_ge_gt radix2 fx r 1 Hf fmt_one Hr) as H.
  replace (pred radix2 fx 1) with (1 - bpow radix2 (-53)) in H; [exact H|].
  change 1 with (bpow radix2 0). rewrite pred_bpow. reflexivity.
Qed.

Lemma fmt_half_pred : fmt (/ 2 - bpow radix2 (-53)).
Proof.
  replace (/ 2 - bpow radix2 (-53)) with (F2R (Float radix2 (2 ^ 52 - 1) (-53))).
  - apply generic_format_F2R. intros _. unfold cexp.
    assert (Hm : (mag radix2 (F2R (Float radix2 (2 ^ 52 - 1) (-53))) <= -1)%Z).
    { apply mag_le_bpow; [apply F2R_neq_0; cbn; lia|].
      rewrite <- F2R_Zabs. unfold F2R. cbn [Fnum Fexp].
      replace (bpow radix2 (-1)) with (bpow radix2 52 * bpow radix2 (-53)) by (rewrite <- bpow_plus; reflexivity).
      apply Rmult_lt_compat_r; [apply bpow_gt_0|]. change (bpow radix2 52) with (IZR 4503599627370496).
      apply IZR_lt. change (Z.abs (2 ^ 52 - 1)) with 4503599627370495%Z. lia. }
    unfold fx, SpecFloat.fexp, emin, SpecFloat.emin, prec, emax. cbn [Fexp]. lia.
  - unfold F2R. cbn [Fnum Fexp]. rewrite minus_IZR.
    replace (/ 2) with (IZR (2 ^ 52) * bpow radix2 (-53)); [ring|].
    change (IZR (2 ^ 52)) with (bpow radix2 52). rewrite <- bpow_plus. change (52 + -53)%Z with (-1)%Z.
    cbn. lra.
Qed.

(* last step of the wrap: r in [0,1) gives fl(r - 1/2) in [-1/2, 1/2) *)
Lemma final_step (R2 H : BF) :
  BinarySingleNaN.is_finite R2 = true -> 0 <= B2R R2 < 1 ->
  BinarySingleNaN.is_finite H = true -> B2R H = - / 2 ->
  let W := Bplus mode_NE R2 H in
  BinarySingleNaN.is_finite W = true /\ - / 2 <= B2R W <= / 2 - bpow radix2 (-53).
Proof.
  intros FR HR FO EO. cbv zeta.
  assert (Hle : B2R R2 <= 1 - bpow radix2 (-53)) by (apply below_one; [apply generic_format_B2R|lra]).
  assert (Hb : - / 2 <= rnd (B2R R2 + B2R H) <= / 2 - bpow radix2 (-53)).
  { rewrite EO. split.
    - apply round_ge_generic; try typeclasses eauto; [apply generic_format_opp, fmt_half|lra].
    - apply round_le_generic; try typeclasses eauto; [apply fmt_half_pred|lra]. }
  destruct (Bplus_rounded R2 H FR FO) as [E F].
  { apply Rle_lt_trans with 1.
    - apply Rabs_le. pose proof (bpow_gt_0 radix2 (-53)). lra.
    - change 1 with (bpow radix2 0). apply bpow_lt. unfold emax. lia. }
  split; [exact F|]. rewrite E. exact Hb.
Qed.

Definition Bmhalf : BF := Prim2B (-0.5)%float.
Lemma Bmhalf_val : B2R Bmhalf = - / 2 /\ BinarySingleNaN.is_finite Bmhalf = true.
Proof. unfold Bmhalf. rewrite B2R_Prim, finite_Prim. vm_compute Prim2SF. split; [unfold SF2R, F2R; cbn; lra|reflexivity]. Qed.

Lemma wrap1_F (x : F) : wrap1 NumF x = (ffmod1 (ffmod1 (x - (-0.5)) + 1) + (-0.5))%float.
Proof.
  unfold wrap1. cbn [nadd nsub nopp nrem1 NumF carrier].
  assert (E : (- nhalf (NN:=NumF))%float = (-0.5)%float) by (vm_compute; reflexivity).
  assert (E1 : n1 (NN:=NumF) = 1%float) by (vm_compute; reflexivity).
  cbn [nopp NumF] in E. rewrite E, E1. reflexivity.
Qed.

Lemma fmt_2_52 : fmt 4503599627370496.
Proof. change 4503599627370496 with (bpow radix2 52). apply generic_format_bpow. unfold fx, SpecFloat.fexp, emin, SpecFloat.emin, prec, emax. lia. Qed.

(* C15 in binary64: for every finite coordinate of magnitude up to 2^51 the wrapped coordinate is a finite
   float w with -1/2 <= w <= 1/2 - 2^-53 < 1/2: inside the half-open cell, rounding included *)
Theorem F_wrap_range (x : F) :
  BinarySingleNaN.is_finite (Prim2B x) = true -> Rabs (B2R (Prim2B x)) <= 2251799813685248 ->
  let w := wrap1 NumF x in
  BinarySingleNaN.is_finite (Prim2B w) = true /\ - / 2 <= B2R (Prim2B w) <= / 2 - bpow radix2 (-53).
Proof.
  intros FX HX. cbv zeta. rewrite wrap1_F.
  destruct Bmhalf_val as [Em Fm]. destruct B1_val as [E1 F1].
  set (X := Prim2B x) in *.
  (* y = fl(x + 1/2) *)
  assert (HY : BinarySingleNaN.is_finite (Prim2B (x - (-0.5))%float) = true).
  { rewrite sub_equiv. fold X. change (Prim2B (-0.5)%float) with Bmhalf.
    pose proof (Bminus_correct _ _ _ _ mode_NE X Bmhalf FX Fm) as H. cbn [round_mode] in H.
    rewrite Rlt_bool_true in H; [tauto|]. rewrite Em.
    apply Rle_lt_trans with 4503599627370496.
    - apply Rabs_le. apply Rabs_le_inv in HX. split.
      + apply round_ge_generic; try typeclasses eauto; [apply generic_format_opp, fmt_2_52|lra].
      + apply round_le_generic; try typeclasses eauto; [apply fmt_2_52|lra].
    - change 4503599627370496 with (bpow radix2 52). apply bpow_lt. unfold emax. lia. }
  destruct (ffmod1_range _ HY) as (FR1 & HR1 & _).
  set (r1 := ffmod1 (x - (-0.5))%float) in *.
  (* s = fl(r1 + 1) >= 0 *)
  assert (HS : BinarySingleNaN.is_finite (Prim2B (r1 + 1)%float) = true /\ 0 <= B2R (Prim2B (r1 + 1)%float)).
  { rewrite add_equiv. change (Prim2B 1%float) with B1.
    assert (Hb : 0 <= rnd (B2R (Prim2B r1) + B2R B1) <= 2).
    { rewrite E1. split.
      - apply round_ge_generic; try typeclasses eauto; [apply generic_format_0|lra].
      - apply round_le_generic; try typeclasses eauto; [|lra].
        change 2 with (bpow radix2 1). apply generic_format_bpow. unfold fx, SpecFloat.fexp, emin, SpecFloat.emin, prec, emax. lia. }
    destruct (Bplus_rounded (Prim2B r1) B1 FR1 F1) as [E F].
    { apply Rle_lt_trans with 2; [apply Rabs_le; lra|]. change 2 with (bpow radix2 1). apply bpow_lt. unfold emax. lia. }
    split; [exact F|]. destruct Hb as [Hb0 _]. rewrite <- E in Hb0. exact Hb0. }
  destruct HS as [FS HS0].
  destruct (ffmod1_range _ FS) as (FR2 & HR2 & HR2pos).
  specialize (HR2pos HS0).
  set (r2 := ffmod1 (r1 + 1)%float) in *.
  rewrite add_equiv. change (Prim2B (-0.5)%float) with Bmhalf.
  apply final_step; [exact FR2|lra|exact Fm|exact Em].
Qed.

(* the same in the float's own comparisons *)
Corollary F_wrap_in_cell (x : F) :
  BinarySingleNaN.is_finite (Prim2B x) = true -> Rabs (B2R (Prim2B x)) <= 2251799813685248 ->
  fleb (-0.5)%float (wrap1 NumF x) = true /\ fltb (wrap1 NumF x) 0.5%float = true.
Proof.
  intros FX HX. destruct (F_wrap_range x FX HX) as [FW HW]. cbv zeta in FW, HW.
  destruct Bmhalf_val as [Em Fm]. destruct Bhalf_val as [Eh Fh].
  rewrite leb_equiv, ltb_equiv. change (Prim2B (-0.5)%float) with Bmhalf. change (Prim2B 0.5%float) with Bhalf.
  rewrite (Bleb_correct _ _ _ _ Fm FW), (Bltb_correct _ _ _ _ FW Fh), Em, Eh.
  pose proof (bpow_gt_0 radix2 (-53)).
  split; [apply Rle_bool_true; lra|apply Rlt_bool_true; lra].
Qed.
