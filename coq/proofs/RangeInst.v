(* RangeInst.v - C08: the range invariant of the optimiser model, instantiated for binary64 (good
   sample = not NaN) and for the reals (every sample is good). *)
From Coq Require Import ZArith NArith List Bool Reals Floats Lra.
From PV Require Import Num NumR model.Optimiser model.OptSpec proofs.OptStruct proofs.OptLoop proofs.FloatFacts proofs.RealFacts.

Definition inrF (lo hi v : F) : Prop := fleb lo v = true /\ fleb v hi = true.
Definition inrR (lo hi v : R) : Prop := (lo <= v <= hi)%R.

Lemma clampF_ok (lo hi x : F) : fnan x = false -> inrF lo hi lo -> inrF lo hi (nclamp (NN:=NumF) lo hi x).
Proof. intros Hx [_ Hlh]. now apply F_clamp_in_range. Qed.

Lemma clampR_ok (lo hi x : R) : True -> inrR lo hi lo -> inrR lo hi (nclamp (NN:=NumR) lo hi x).
Proof. intros _ [_ Hlh]. now apply R_clamp_spec. Qed.

Section Inst.
  Variable fexpF : F -> F.
  Variable scoreF : N -> list F -> option F.
  Variable scoreR : N -> list R -> option R.

  (* binary64: as long as no sampled value is NaN, every parameter stays within its declared range and
     every parameter without a handle keeps its bits *)
  Theorem C08_ranges_invariant_binary64 (c : cfg NumF) (hs0 : list (handle NumF)) (draws : list (draw NumF)) (st : ost NumF) :
    same_ranges NumF hs0 (handles NumF st) -> compatible NumF hs0 ->
    (forall h, In h hs0 -> (h_cell NumF h < length (params NumF st))%nat /\ inrF (h_min NumF h) (h_max NumF h) (h_min NumF h)) ->
    in_ranges NumF inrF hs0 (params NumF st) ->
    all_samples_good NumF fexpF scoreF (fun x => fnan x = false) c st draws ->
    let st' := run NumF fexpF scoreF c st draws in
    in_ranges NumF inrF hs0 (params NumF st') /\ untouched NumF hs0 (params NumF st) (params NumF st').
  Proof. apply (C08_ranges_invariant NumF fexpF scoreF (fun x => fnan x = false) inrF clampF_ok). Qed.

  Theorem C08_ranges_invariant_real (c : cfg NumR) (hs0 : list (handle NumR)) (draws : list (draw NumR)) (st : ost NumR) :
    same_ranges NumR hs0 (handles NumR st) -> compatible NumR hs0 ->
    (forall h, In h hs0 -> (h_cell NumR h < length (params NumR st))%nat /\ inrR (h_min NumR h) (h_max NumR h) (h_min NumR h)) ->
    in_ranges NumR inrR hs0 (params NumR st) ->
    let st' := run NumR exp scoreR c st draws in
    in_ranges NumR inrR hs0 (params NumR st') /\ untouched NumR hs0 (params NumR st) (params NumR st').
  Proof.
    intros H1 H2 H3 H4.
    apply (C08_ranges_invariant NumR exp scoreR (fun _ => True) inrR clampR_ok c hs0 draws st H1 H2 H3 H4).
    clear. revert st. induction draws as [|d ds IH]; intros st; cbn; auto.
  Qed.
End Inst.

(* chained stages: the next stage re-derives its range as [lo, current value], a sub-range *)
Theorem C08_chain_ranges_nested (lo hi v x : R) : inrR lo hi v -> inrR lo v x -> inrR lo hi x.
Proof. unfold inrR. lra. Qed.
