(* FloatZero.v - binary64 facts behind "zero temperature is a hill climb" (C05, C07, C18):
   the order on non-NaN floats is transitive; a worse proposal divided by a zero temperature is
   -infinity and is never accepted; a zero temperature stays zero under cooling.
   Proved through Flocq's BinarySingleNaN model of Coq's primitive floats. *)
From Coq Require Import ZArith Reals Floats Bool Lra Lia.
From Flocq Require Import Core Plus_error BinarySingleNaN PrimFloat.
From PV Require Import Num model.Optimiser model.OptSpec proofs.FloatFacts.

Local Instance Hprec : FLX.Prec_gt_0 prec := eq_refl _.
Local Instance Hmax : Prec_lt_emax prec emax := eq_refl _.

Notation fsub := Coq.Floats.PrimFloat.sub.
Notation fdiv := Coq.Floats.PrimFloat.div.
Notation fmul := Coq.Floats.PrimFloat.mul.

(* ------------------------------------------------------------------ *)
(* transitivity of <= on floats                                         *)

Lemma Bleb_trans (X Y Z : BF) :
  Bleb X Y = true -> Bleb Y Z = true -> Bleb X Z = true.
Proof.
  intros H1 H2.
  destruct (BinarySingleNaN.is_finite X) eqn:FX, (BinarySingleNaN.is_finite Y) eqn:FY,
           (BinarySingleNaN.is_finite Z) eqn:FZ.
  - rewrite Bleb_correct in * by assumption.
    apply Rle_bool_true.
    destruct (Rle_bool_spec (B2R X) (B2R Y)); [|discriminate].
    destruct (Rle_bool_spec (B2R Y) (B2R Z)); [|discriminate]. lra.
  - destruct X as [sx|sx| |sx mx ex hx], Y as [sy|sy| |sy my ey hy], Z as [sz|sz| |sz mz ez hz];
      try discriminate; destruct sz; try reflexivity; try discriminate;
      try (destruct sy; discriminate).
  - destruct X as [sx|sx| |sx mx ex hx], Y as [sy|sy| |sy my ey hy], Z as [sz|sz| |sz mz ez hz];
      try discriminate; destruct sy; try discriminate;
      try (destruct sx; discriminate); try (destruct sz; discriminate).
  - destruct X as [sx|sx| |sx mx ex hx], Y as [sy|sy| |sy my ey hy], Z as [sz|sz| |sz mz ez hz];
      try discriminate; destruct sy, sz; try reflexivity; try discriminate;
      try (destruct sx; discriminate).
  - destruct X as [sx|sx| |sx mx ex hx], Y as [sy|sy| |sy my ey hy], Z as [sz|sz| |sz mz ez hz];
      try discriminate; destruct sx; try reflexivity; try discriminate;
      try (destruct sy; discriminate); try (destruct sz; discriminate).
  - destruct X as [sx|sx| |sx mx ex hx], Y as [sy|sy| |sy my ey hy], Z as [sz|sz| |sz mz ez hz];
      try discriminate; destruct sx, sz; try reflexivity; try discriminate;
      try (destruct sy; discriminate).
  - destruct X as [sx|sx| |sx mx ex hx], Y as [sy|sy| |sy my ey hy], Z as [sz|sz| |sz mz ez hz];
      try discriminate; destruct sx, sy; try reflexivity; try discriminate;
      try (destruct sz; discriminate).
  - destruct X as [sx|sx| |sx mx ex hx], Y as [sy|sy| |sy my ey hy], Z as [sz|sz| |sz mz ez hz];
      try discriminate; destruct sx, sy, sz; try reflexivity; try discriminate.
Qed.

Theorem F_leb_trans : forall x y z : F,
  fleb x y = true -> fleb y z = true -> fleb x z = true.
Proof. intros x y z. rewrite !leb_equiv. apply Bleb_trans. Qed.

(* ------------------------------------------------------------------ *)
(* (x - y) / (+0) = -infinity whenever x < y                            *)

Lemma Bminus_lt_div_zero_finite (X Y : BF) :
  BinarySingleNaN.is_finite X = true -> BinarySingleNaN.is_finite Y = true ->
  Bltb X Y = true ->
  Bdiv mode_NE (Bminus mode_NE X Y) (B754_zero false) = B754_infinity true.
Proof.
  intros FX FY Hlt.
  rewrite Bltb_correct in Hlt by assumption.
  destruct (Rlt_bool_spec (B2R X) (B2R Y)) as [Hr|]; [|discriminate]. clear Hlt.
  pose proof (Bminus_correct _ _ _ _ mode_NE X Y FX FY) as Hm.
  destruct (Rlt_bool _ _) eqn:Hov.
  - destruct Hm as (HR & HF & HS).
    assert (Hneg : (B2R X - B2R Y < 0)%R) by lra.
    rewrite (Rcompare_Lt _ _ Hneg) in HS.
    assert (Hnz : B2R (Bminus mode_NE X Y) <> 0%R).
    { rewrite HR. unfold Rminus.
      apply (round_plus_neq_0 radix2 (SpecFloat.fexp prec emax)); try typeclasses eauto.
      - apply generic_format_B2R.
      - apply generic_format_opp, generic_format_B2R.
      - lra. }
    destruct (Bminus mode_NE X Y) as [s|s| |s m e h]; try discriminate.
    + exfalso. apply Hnz. reflexivity.
    + simpl in HS. subst s. reflexivity.
  - destruct Hm as (HB & HS).
    assert (Bsign X = true).
    { destruct (Bsign X) eqn:SX; [reflexivity|]. exfalso.
      assert (Bsign Y = true) by (destruct (Bsign Y); [reflexivity|discriminate]).
      assert (0 <= B2R X)%R.
      { destruct X as [s|s| |s m e h]; simpl in *; try discriminate; try lra.
        subst s. apply F2R_ge_0. simpl. lia. }
      assert (B2R Y <= 0)%R.
      { destruct Y as [s|s| |s m e h]; simpl in *; try discriminate; try lra.
        subst s. apply F2R_le_0. simpl. lia. }
      lra. }
    rewrite H in HB. unfold binary_overflow in HB. simpl in HB.
    destruct (Bminus mode_NE X Y) as [s|s| |s m e h]; try discriminate.
    simpl in HB. injection HB as ->. reflexivity.
Qed.

Lemma Bminus_lt_div_zero (X Y : BF) :
  Bltb X Y = true ->
  Bdiv mode_NE (Bminus mode_NE X Y) (B754_zero false) = B754_infinity true.
Proof.
  intros Hlt.
  destruct (BinarySingleNaN.is_finite X) eqn:FX, (BinarySingleNaN.is_finite Y) eqn:FY.
  - now apply Bminus_lt_div_zero_finite.
  - destruct X as [sx|sx| |sx mx ex hx], Y as [sy|sy| |sy my ey hy]; try discriminate;
      destruct sy; try discriminate; try reflexivity; destruct sx; try discriminate; reflexivity.
  - destruct X as [sx|sx| |sx mx ex hx], Y as [sy|sy| |sy my ey hy]; try discriminate;
      destruct sx; try discriminate; try reflexivity; destruct sy; try discriminate; reflexivity.
  - destruct X as [sx|sx| |sx mx ex hx], Y as [sy|sy| |sy my ey hy]; try discriminate;
      destruct sx, sy; try discriminate; reflexivity.
Qed.

Lemma Prim2B_zero : Prim2B 0%float = B754_zero false.
Proof. apply B2Prim_inj. rewrite B2Prim_Prim2B. reflexivity. Qed.

Lemma Prim2B_neg_infinity : Prim2B neg_infinity = B754_infinity true.
Proof. apply B2Prim_inj. rewrite B2Prim_Prim2B. reflexivity. Qed.

Lemma nmax_F_zero (x : F) :
  nmax (NN:=NumF) 0%float x = if fltb x 0%float then 0%float else if fltb 0%float x then x else 0%float.
Proof. reflexivity. Qed.

Theorem F_sub_div_zero : forall x y : F,
  fltb x y = true -> fdiv (fsub x y) 0%float = neg_infinity.
Proof.
  intros x y H. apply Prim2B_inj.
  rewrite div_equiv, sub_equiv, Prim2B_zero, Prim2B_neg_infinity.
  apply Bminus_lt_div_zero. now rewrite <- ltb_equiv.
Qed.
Print Assumptions F_sub_div_zero.

(* ------------------------------------------------------------------ *)
(* the acceptance rule at zero temperature                              *)

Section AcceptZero.
  Variable fexp : F -> F.
  Hypothesis fexp_neg_inf : fexp neg_infinity = 0%float.

  (* a strictly worse proposal is never accepted at kT = +0, for any threshold >= 0 *)
  Theorem F_accept_zero_worse : forall thr old new : F,
    fltb new old = true -> fleb 0%float thr = true ->
    accept NumF fexp thr (Some new) old 0%float = false.
  Proof.
    intros thr old new Hlt Hthr. rewrite accept_F.
    destruct (fnan new); [reflexivity|].
    assert (Hno : fltb old new = false) by (revert Hlt; fcases new old; easy).
    rewrite Hno, (F_sub_div_zero _ _ Hlt), fexp_neg_inf.
    change (nmin (NN:=NumF) 0%float 1%float) with 0%float.
    now apply leb_not_ltb.
  Qed.

  (* what is accepted at zero temperature is at least as good as the held score *)
  Theorem F_accept_zero_not_worse : forall thr old new : F,
    fnan old = false -> fleb 0%float thr = true ->
    accept NumF fexp thr (Some new) old 0%float = true ->
    fnan new = false /\ fleb old new = true.
  Proof.
    intros thr old new Hold Hthr Hacc.
    assert (Hnew : fnan new = false).
    { rewrite accept_F in Hacc. destruct (fnan new); [discriminate|reflexivity]. }
    split; [exact Hnew|].
    destruct (fltb new old) eqn:Hlt.
    - rewrite (F_accept_zero_worse thr old new Hlt Hthr) in Hacc. discriminate.
    - now apply not_ltb_leb.
  Qed.
End AcceptZero.

(* ------------------------------------------------------------------ *)
(* a zero temperature stays zero                                        *)

Theorem F_zero_mul : forall f : F,
  ffinite f = true -> Bsign (Prim2B f) = false -> fmul 0%float f = 0%float.
Proof.
  intros f Hf Hs. apply Prim2B_inj. rewrite mul_equiv, Prim2B_zero.
  unfold ffinite in Hf.
  destruct (Prim2B f) as [s|s| |s m e h]; try discriminate; simpl in *; subst s; reflexivity.
Qed.

Lemma Prim2B_one : exists h, Prim2B 1%float = B754_finite false 4503599627370496 (-52) h.
Proof.
  pose proof (B2SF_Prim2B 1%float) as H.
  replace (Prim2SF 1%float) with (S754_finite false 4503599627370496 (-52)) in H
    by (vm_compute; reflexivity).
  destruct (Prim2B 1%float) as [s|s| |s m e h]; simpl in H; try discriminate.
  injection H as -> -> ->. eexists. reflexivity.
Qed.

(* the cooling factor max(0, 1 - r) is a finite, non-negatively signed number for every
   cooling ratio r with |r| <= 2^1000 *)
Definition big : F := 0x1p1000%float.

Lemma Prim2B_finite_facts (x : F) (s : bool) (m : positive) (e : Z) :
  Prim2SF x = S754_finite s m e ->
  exists h, Prim2B x = B754_finite s m e h.
Proof.
  intros H0. pose proof (B2SF_Prim2B x) as H. rewrite H0 in H.
  destruct (Prim2B x) as [s'|s'| |s' m' e' h]; simpl in H; try discriminate.
  injection H as -> -> ->. eexists. reflexivity.
Qed.

Lemma pos_is_finite_positive (X : BF) :
  Bltb (B754_zero false) X = true -> X <> B754_infinity false ->
  BinarySingleNaN.is_finite X = true /\ Bsign X = false.
Proof.
  intros H Hinf.
  destruct X as [s|s| |s m e h]; try destruct s;
    cbv [Bltb SFltb SFcompare B2SF] in H; try discriminate.
  - exfalso. now apply Hinf.
  - split; reflexivity.
Qed.

Theorem F_factor_from_ratio : forall r : F,
  fleb (Coq.Floats.PrimFloat.opp big) r = true -> fleb r big = true ->
  let f := nmax (NN:=NumF) 0%float (fsub 1%float r) in
  ffinite f = true /\ Bsign (Prim2B f) = false.
Proof.
  intros r H0 H1 f.
  set (x := fsub 1%float r) in *.
  assert (Hx : ffinite x = true).
  { unfold ffinite, x. rewrite sub_equiv.
    rewrite leb_equiv in H0, H1.
    destruct (Prim2B_finite_facts big false 4503599627370496 948 eq_refl) as [hb Eb].
    destruct (Prim2B_finite_facts (Coq.Floats.PrimFloat.opp big) true 4503599627370496 948 eq_refl) as [hn En].
    rewrite Eb in H1. rewrite En in H0.
    set (R := Prim2B r) in *. set (One := Prim2B 1%float) in *.
    destruct Prim2B_one as [h1 E1].
    assert (F1 : BinarySingleNaN.is_finite One = true) by (unfold One; rewrite E1; reflexivity).
    assert (B1 : B2R One = 1%R).
    { unfold One. rewrite E1. simpl. unfold F2R. simpl. lra. }
    assert (FR : BinarySingleNaN.is_finite R = true).
    { destruct R as [s|s| |s m e h]; try reflexivity; try discriminate.
      destruct s; discriminate. }
    rewrite Bleb_correct in H0, H1 by (try assumption; reflexivity).
    destruct (Rle_bool_spec (B2R (B754_finite true 4503599627370496 948 hn)) (B2R R)) as [Hr0|]; [|discriminate].
    destruct (Rle_bool_spec (B2R R) (B2R (B754_finite false 4503599627370496 948 hb))) as [Hr1|]; [|discriminate].
    assert (Eb' : B2R (B754_finite false 4503599627370496 948 hb) = bpow radix2 1000).
    { change (B2R (B754_finite false 4503599627370496 948 hb))
        with (F2R (Float radix2 (radix2 ^ 52) 948)).
      unfold F2R. cbn [Fnum Fexp]. rewrite IZR_Zpower by lia. rewrite <- bpow_plus. reflexivity. }
    assert (En' : B2R (B754_finite true 4503599627370496 948 hn) = (- bpow radix2 1000)%R).
    { change (B2R (B754_finite true 4503599627370496 948 hn))
        with (F2R (Float radix2 (- (radix2 ^ 52)) 948)).
      unfold F2R. cbn [Fnum Fexp]. rewrite opp_IZR, IZR_Zpower by lia.
      rewrite <- Ropp_mult_distr_l, <- bpow_plus. reflexivity. }
    rewrite Eb' in Hr1. rewrite En' in Hr0.
    pose proof (Bminus_correct _ _ _ _ mode_NE One R F1 FR) as Hm.
    rewrite B1 in Hm.
    assert (Hb : (Rabs (round radix2 (SpecFloat.fexp prec emax) (round_mode mode_NE) (1 - B2R R))
                  <= bpow radix2 1001)%R).
    { apply abs_round_le_generic; try typeclasses eauto.
      - apply generic_format_bpow'; try typeclasses eauto. vm_compute. discriminate.
      - assert (bpow radix2 1001 = 2 * bpow radix2 1000)%R.
        { change 1001%Z with (1 + 1000)%Z. rewrite bpow_plus. reflexivity. }
        assert (1 <= bpow radix2 1000)%R.
        { change 1%R with (bpow radix2 0). apply bpow_le. lia. }
        apply Rabs_le. lra. }
    rewrite Rlt_bool_true in Hm.
    - apply Hm.
    - eapply Rle_lt_trans; [exact Hb|]. apply bpow_lt. reflexivity. }
  unfold f. rewrite nmax_F_zero.
  destruct (fltb x 0%float) eqn:E1; [split; reflexivity|].
  destruct (fltb 0%float x) eqn:E2; [|split; reflexivity].
  unfold ffinite in *. rewrite ltb_equiv, Prim2B_zero in E2.
  apply pos_is_finite_positive; [exact E2|].
  intros E. rewrite E in Hx. discriminate.
Qed.

Theorem F_zero_mul_factor : forall r : F,
  fleb (Coq.Floats.PrimFloat.opp big) r = true -> fleb r big = true ->
  fmul 0%float (nmax (NN:=NumF) 0%float (fsub 1%float r)) = 0%float.
Proof.
  intros r H0 H1. destruct (F_factor_from_ratio r H0 H1). now apply F_zero_mul.
Qed.
Print Assumptions F_zero_mul_factor.

(* f64::MAX, as build() uses it *)
Lemma Prim2B_fmax :
  exists h, Prim2B (fmax_ NumF) = B754_finite false 9007199254740991 971 h.
Proof.
  apply Prim2B_finite_facts. vm_compute. reflexivity.
Qed.

(* the cooling factor min(max(0, 1 - r), f64::MAX) is a finite number with the sign of +0 for
   EVERY cooling ratio r: finite, infinite of either sign, or not a number *)
Theorem F_factor_always_finite : forall r : F,
  let f := nmin (NN:=NumF) (nmax (NN:=NumF) 0%float (fsub 1%float r)) (fmax_ NumF) in
  ffinite f = true /\ Bsign (Prim2B f) = false.
Proof.
  intros r f.
  set (x := fsub 1%float r) in *.
  set (y := nmax (NN:=NumF) 0%float x) in *.
  (* y is +0 or a positive number or +infinity *)
  assert (Hy : Bsign (Prim2B y) = false /\ Prim2B y <> B754_nan).
  { unfold y. rewrite nmax_F_zero.
    destruct (fltb x 0%float) eqn:E1; [rewrite Prim2B_zero; split; [reflexivity|discriminate]|].
    destruct (fltb 0%float x) eqn:E2; [|rewrite Prim2B_zero; split; [reflexivity|discriminate]].
    rewrite ltb_equiv, Prim2B_zero in E2.
    destruct (Prim2B x) as [s|s| |s m e h]; try destruct s;
      cbv [Bltb SFltb SFcompare B2SF] in E2; try discriminate; split; try reflexivity; discriminate. }
  destruct Hy as [Hs Hn].
  destruct Prim2B_fmax as [hM EM].
  unfold f, nmin. cbn [nltb NumF].
  destruct (fltb y (fmax_ NumF)) eqn:L1.
  - split; [|exact Hs]. unfold ffinite.
    rewrite ltb_equiv, EM in L1.
    destruct (Prim2B y) as [s|s| |s m e h]; try reflexivity.
    + cbn in Hs. subst s. discriminate.
    + now elim Hn.
  - destruct (fltb (fmax_ NumF) y) eqn:L2.
    + unfold ffinite. rewrite EM. split; reflexivity.
    + split; [|unfold nis_nan; cbn [neqb NumF]; destruct (negb _); [rewrite EM; reflexivity | exact Hs]].
      unfold nis_nan. cbn [neqb NumF].
      destruct (negb (feqb y y)); [unfold ffinite; rewrite EM; reflexivity|].
      unfold ffinite. rewrite ltb_equiv, EM in L2.
      destruct (Prim2B y) as [s|s| |s m e h]; try reflexivity.
      * cbn in Hs. subst s. discriminate.
      * now elim Hn.
Qed.
Print Assumptions F_factor_always_finite.

Theorem F_zero_mul_any_factor : forall r : F,
  fmul 0%float (nmin (NN:=NumF) (nmax (NN:=NumF) 0%float (fsub 1%float r)) (fmax_ NumF)) = 0%float.
Proof. intros r. destruct (F_factor_always_finite r). now apply F_zero_mul. Qed.
Print Assumptions F_zero_mul_any_factor.

(* a zero of either sign is not above zero *)
Lemma F_zero_not_positive (x : F) : feqb x 0%float = true -> fltb 0%float x = false.
Proof.
  rewrite eqb_equiv, ltb_equiv, Prim2B_zero.
  destruct (Prim2B x) as [s|s| |s m e h]; try destruct s; intros H; try reflexivity;
    cbv [Beqb SFeqb SFcompare B2SF] in H; discriminate.
Qed.

Theorem F_zero_mul_tenth : fmul 0%float (tenth NumF) = 0%float.
Proof. reflexivity. Qed.
