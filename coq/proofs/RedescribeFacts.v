(* RedescribeFacts.v - C03 / C15 / C02: the score is a property of the crystal, not of its description.
   Over the reals, for symmetry operations with integer linear parts (all seven built-in groups):
   moving the site by whole lattice vectors (a copy moved across a cell face) leaves the list of
   placements unchanged, hence the Lennard-Jones score and the hard score, exactly. *)
From Coq Require Import ZArith List Bool Reals Lra Lia.
From PV Require Import Num NumR model.Geom proofs.LatticeFacts proofs.SiteFacts proofs.SymmetryFacts proofs.LJFacts.
Import ListNotations.
Local Open Scope R_scope.

Definition int_sym (t : tfR) : Prop :=
  sym_row t /\ exists i00 i01 i10 i11 : Z,
    a00 NumR t = IZR i00 /\ a01 NumR t = IZR i01 /\ a10 NumR t = IZR i10 /\ a11 NumR t = IZR i11.

Definition shift_site (s : siteR) (n m : Z) : siteR :=
  @mkSite NumR (s_x NumR s + IZR n) (s_y NumR s + IZR m) (s_cos NumR s) (s_sin NumR s).

Theorem positions_site_shift (syms : list tfR) (s : siteR) (n m : Z) :
  Forall int_sym syms -> positions NumR syms (shift_site s n m) = positions NumR syms s.
Proof.
  intros H. rewrite !positions_map. apply map_ext_in. intros sym Hs.
  rewrite Forall_forall in H. destruct (H sym Hs) as (Hrow & i00 & i01 & i10 & i11 & E00 & E01 & E10 & E11).
  unfold shift_site. exact (placement_site_periodic sym s n m i00 i01 i10 i11 Hrow E00 E01 E10 E11).
Qed.

(* every occupied site moved by its own whole lattice vector *)
Definition shifted (ss ss' : list siteR) : Prop :=
  Forall2 (fun s s' => exists n m : Z, s' = shift_site s n m) ss ss'.

Lemma shifted_length ss ss' : shifted ss ss' -> length ss' = length ss.
Proof. intros H. induction H; cbn; congruence. Qed.

Lemma flat_positions_shift (syms : list tfR) ss ss' :
  Forall int_sym syms -> shifted ss ss' ->
  flat_map (positions NumR syms) ss' = flat_map (positions NumR syms) ss.
Proof.
  intros Hs H. induction H as [|s s' l l' (n & m & ->) _ IH]; [reflexivity|].
  cbn [flat_map]. rewrite IH, (positions_site_shift _ _ n m Hs). reflexivity.
Qed.

Lemma shifted_one (s : siteR) (n m : Z) : shifted [s] [shift_site s n m].
Proof. constructor; [exists n, m; reflexivity|constructor]. Qed.

(* C03: copies moved across cell faces - same Lennard-Jones score *)
Theorem lj_score_site_shift (st : ljstate NumR) (ss' : list siteR) :
  Forall int_sym (l_syms NumR st) -> shifted (l_sites NumR st) ss' ->
  lj_score NumR rpowi (mkLjstate (l_syms NumR st) ss' (l_cell NumR st) (l_shape NumR st))
  = lj_score NumR rpowi st.
Proof.
  intros H Hsh. unfold lj_score, lj_sum, lj_cartesian, lj_relative. cbn [l_syms l_sites l_cell l_shape].
  rewrite (flat_positions_shift _ _ _ H Hsh), (shifted_length _ _ Hsh). reflexivity.
Qed.

(* C02 / C01: the same for the hard score (including whether the state is scored at all) *)
Theorem packed_score_site_shift (st : pstate NumR) (ss' : list siteR) :
  Forall int_sym (p_syms NumR st) -> shifted (p_sites NumR st) ss' ->
  packed_score NumR (mkPstate (p_syms NumR st) ss' (p_cell NumR st)
                              (p_shape NumR st) (p_radius NumR st) (p_area NumR st))
  = packed_score NumR st.
Proof.
  intros H Hsh. unfold packed_score, check_intersection, density_precheck, in_cell_intersection, periodic_intersection,
    cartesian_positions, relative_positions, total_shapes, shells_of.
  cbn [p_syms p_sites p_cell p_shape p_radius p_area].
  rewrite (flat_positions_shift _ _ _ H Hsh), (shifted_length _ _ Hsh). reflexivity.
Qed.

(* every operation of the seven groups (as parsed: integer linear part, half-integer translation) qualifies *)
Lemma tf_of_hop_int_sym (h : hop) : int_sym (tf_of_hop h).
Proof.
  split; [apply tf_of_hop_sym_row|]. exists (h00 h), (h01 h), (h10 h), (h11 h). repeat split.
Qed.

Theorem group_operations_are_int_sym (hs : list hop) : Forall int_sym (map tf_of_hop hs).
Proof. apply Forall_forall. intros t Ht. apply in_map_iff in Ht. destruct Ht as (h & <- & _). apply tf_of_hop_int_sym. Qed.
