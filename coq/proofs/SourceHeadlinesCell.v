(* SourceHeadlinesCell.v - C14 restated about the cell functions AS TRANSLATED FROM THE SOURCE on this run: the area the
   source computes is the cross product of the lattice vectors its to_cartesian defines, and the images its
   periodic_images lists are exactly the lattice translates of the window. *)
From Coq Require Import ZArith List Bool Reals Lra.
From PV Require Import Num NumR model.Geom gen.GenFns proofs.RealFacts proofs.LatticeFacts proofs.SrcCell.
Import ListNotations.
Local Open Scope R_scope.

Theorem source_cell_area_is_cross : forall c : cellR,
  let A := gen_to_cartesian NumR c 1 0 in
  let B := gen_to_cartesian NumR c 0 1 in
  gen_cell_area NumR c = fst A * snd B - snd A * fst B.
Proof.
  intros c A B. unfold A, B. rewrite cell_area_is_source, !to_cartesian_is_source.
  destruct (to_cartesian_linear c) as (EA & EB & _).
  destruct (cell_area_is_cross c) as [E _].
  transitivity (fst (vecA c) * snd (vecB c) - snd (vecA c) * fst (vecB c)); [exact E|].
  rewrite <- EA, <- EB. reflexivity.
Qed.

Theorem source_periodic_images_exact : forall (c : cellR) (t : tfR) (k : Z) (zero : bool),
  affine_row t ->
  gen_periodic_images NumR c t k zero
  = map (fun nm : Z * Z => tf_translate (to_cartesian_isometry NumR c t) (lattice_vec c (fst nm) (snd nm)))
        (shell_indices k zero).
Proof. intros c t k zero H. rewrite periodic_images_is_source. now apply periodic_images_exact. Qed.

(* C15 restated about OccupiedSite::positions and the wrap of Transform2::periodic AS TRANSLATED FROM THE SOURCE: one placement
   per operation, the k-th being the k-th operation applied to the site and wrapped, and the source's wrap maps every
   coordinate to the unique representative in [-1/2, 1/2) modulo 1 *)
From PV Require Import proofs.SiteFacts.

Theorem source_wrap_spec : forall x : R,
  (-1 / 2 <= gen_wrap NumR x < 1 / 2) /\ (exists n : Z, gen_wrap NumR x - x = IZR n).
Proof. intros x. rewrite wrap_is_source. exact (wrap_spec x). Qed.

Theorem source_positions_one_per_operation : forall (syms : list tfR) (s : siteR),
  length (gen_positions NumR syms s) = length syms
  /\ forall (k : nat) (d : tfR), (k < length syms)%nat -> nth k (gen_positions NumR syms s) d = placement (nth k syms d) s.
Proof.
  intros syms s. rewrite positions_is_source. split; [apply positions_length|].
  intros k d Hk. now apply positions_nth.
Qed.
