(* RatioFloat.v - C19 / C08 in binary64: the step ratio of every reachable state is a number in [0, 1].
   "Positive number" (posn): not NaN and sign bit clear, i.e. +0, a positive finite value or +infinity.  The
   conversions of the loop length and of the rejection count are such numbers, sums / products / quotients of
   such numbers are such numbers or NaN, and min(., 1) maps both back to such a number.  Through Flocq. *)
From Coq Require Import ZArith NArith Reals Floats Bool Lra Lia List.
From Flocq Require Import Core BinarySingleNaN PrimFloat.
From PV Require Import Num model.Optimiser model.OptSpec proofs.OptStruct proofs.OptLoop proofs.FloatFacts proofs.FloatZero.

Local Instance Hprec : FLX.Prec_gt_0 prec := eq_refl _.
Local Instance Hmax : Prec_lt_emax prec emax := eq_refl _.

Definition posn (X : BF) : Prop := BinarySingleNaN.is_nan X = false /\ Bsign X = false.
Definition pnan (X : BF) : Prop := BinarySingleNaN.is_nan X = true \/ posn X.

Lemma posn_cases (X : BF) : posn X ->
  X = B754_zero false \/ X = B754_infinity false \/ exists m e h, X = B754_finite false m e h.
Proof.
  intros [Hn Hs]. destruct X as [s|s| |s m e h]; cbn in *; try discriminate; subst.
  - now left.
  - right. now left.
  - right. right. now exists m, e, h.
Qed.

Lemma finite_not_nan (Z : BF) : BinarySingleNaN.is_finite Z = true -> BinarySingleNaN.is_nan Z = false.
Proof. destruct Z; cbn; intros H; try reflexivity; discriminate H. Qed.

Lemma overflow_is_inf (Z : BF) : B2SF Z = binary_overflow prec emax mode_NE false -> Z = B754_infinity false.
Proof.
  unfold binary_overflow, overflow_to_inf. cbn.
  destruct Z as [s|s| |s m e h]; cbn; intros H; try discriminate. now injection H as ->.
Qed.

Lemma Bmult_posn (X Y : BF) : posn X -> posn Y -> pnan (Bmult mode_NE X Y).
Proof.
  intros HX HY.
  destruct (posn_cases X HX) as [-> | [-> | (mx & ex & hx & ->)]];
  destruct (posn_cases Y HY) as [-> | [-> | (my & ey & hy & ->)]];
    try (right; split; reflexivity); try (left; reflexivity).
  pose proof (Bmult_correct _ _ _ _ mode_NE (B754_finite false mx ex hx) (B754_finite false my ey hy)) as H.
  destruct (Rlt_bool _ _).
  - destruct H as (_ & F & S). cbn in F. right. split.
    + apply finite_not_nan. exact F.
    + apply S. apply finite_not_nan. exact F.
  - cbn [Bsign xorb] in H. rewrite (overflow_is_inf _ H). right. split; reflexivity.
Qed.

Lemma Bplus_posn (X Y : BF) : posn X -> posn Y -> posn (Bplus mode_NE X Y).
Proof.
  intros HX HY.
  destruct (posn_cases X HX) as [-> | [-> | (mx & ex & hx & ->)]];
  destruct (posn_cases Y HY) as [-> | [-> | (my & ey & hy & ->)]];
    try (split; reflexivity).
  pose proof (Bplus_correct _ _ _ _ mode_NE (B754_finite false mx ex hx) (B754_finite false my ey hy) eq_refl eq_refl) as H.
  destruct (Rlt_bool _ _).
  - destruct H as (_ & F & S). split.
    + apply finite_not_nan. exact F.
    + rewrite S.
      assert (P : (0 < B2R (B754_finite false mx ex hx) + B2R (B754_finite false my ey hy))%R).
      { cbn. apply Rplus_lt_0_compat; apply F2R_gt_0; reflexivity. }
      rewrite Rcompare_Gt by exact P. reflexivity.
  - destruct H as [H _]. cbn [Bsign] in H. rewrite (overflow_is_inf _ H). split; reflexivity.
Qed.

Lemma Bdiv_posn (X Y : BF) : posn X -> posn Y -> pnan (Bdiv mode_NE X Y).
Proof.
  intros HX HY.
  destruct (posn_cases X HX) as [-> | [-> | (mx & ex & hx & ->)]];
  destruct (posn_cases Y HY) as [-> | [-> | (my & ey & hy & ->)]];
    try (right; split; reflexivity); try (left; reflexivity).
  assert (NZ : B2R (B754_finite false my ey hy) <> 0%R).
  { cbn. apply Rgt_not_eq. apply F2R_gt_0. reflexivity. }
  pose proof (Bdiv_correct _ _ _ _ mode_NE (B754_finite false mx ex hx) (B754_finite false my ey hy) NZ) as H.
  destruct (Rlt_bool _ _).
  - destruct H as (_ & F & S). cbn in F. right. split.
    + apply finite_not_nan. exact F.
    + apply S. apply finite_not_nan. exact F.
  - cbn [Bsign xorb] in H. rewrite (overflow_is_inf _ H). right. split; reflexivity.
Qed.

Lemma Bmult_pnan (X Y : BF) : posn X -> pnan Y -> pnan (Bmult mode_NE X Y).
Proof.
  intros HX [HY|HY]; [|now apply Bmult_posn].
  left. destruct Y; try discriminate. destruct X; reflexivity.
Qed.

(* a finite positive factor never produces NaN *)
Lemma Bmult_posn_fin (m : positive) (e : Z) h (Y : BF) :
  posn Y -> posn (Bmult mode_NE (B754_finite false m e h) Y).
Proof.
  intros HY. destruct (Bmult_posn (B754_finite false m e h) Y (conj eq_refl eq_refl) HY) as [Hn|Hp]; [|exact Hp].
  exfalso. destruct (posn_cases Y HY) as [-> | [-> | (my & ey & hy & ->)]]; try discriminate Hn.
  pose proof (Bmult_correct _ _ _ _ mode_NE (B754_finite false m e h) (B754_finite false my ey hy)) as H.
  destruct (Rlt_bool _ _).
  - destruct H as (_ & F & _). apply finite_not_nan in F. congruence.
  - cbn [Bsign xorb] in H. rewrite (overflow_is_inf _ H) in Hn. discriminate Hn.
Qed.

(* ------------------------------------------------------------------ *)
(* primitive floats                                                    *)

Definition fposn (x : F) : Prop := posn (Prim2B x).

Lemma Prim2B_two : exists h, Prim2B 2%float = B754_finite false 4503599627370496 (-51) h.
Proof. apply Prim2B_finite_facts. vm_compute. reflexivity. Qed.

Lemma fposn_one : fposn 1%float.
Proof. unfold fposn. destruct Prim2B_one as [h ->]. split; reflexivity. Qed.

Lemma fposn_zero : fposn 0%float.
Proof. unfold fposn. rewrite Prim2B_zero. split; reflexivity. Qed.

Lemma float_ofpos_posn (p : positive) : fposn (float_ofpos p).
Proof.
  induction p as [p IH|p IH|]; cbn [float_ofpos].
  - unfold fposn. rewrite add_equiv, mul_equiv. destruct Prim2B_two as [h2 ->]. destruct Prim2B_one as [h1 E1].
    apply Bplus_posn; [now apply Bmult_posn_fin|]. rewrite E1. split; reflexivity.
  - unfold fposn. rewrite mul_equiv. destruct Prim2B_two as [h2 ->]. now apply Bmult_posn_fin.
  - exact fposn_one.
Qed.

Lemma ofN_posn (n : N) : fposn (ofN NumF n).
Proof.
  unfold ofN. cbn [nofZ NumF]. destruct n as [|p]; cbn [Z.of_N float_ofZ]; [exact fposn_zero|apply float_ofpos_posn].
Qed.

(* the update of the step ratio keeps it a positive number *)
Theorem F_ratio_step (x : F) (i r : N) :
  fposn x -> fposn (nmin (NN:=NumF) (nmul (n:=NumF) x (ndiv (n:=NumF) (ofN NumF i) (nadd (n:=NumF) (ofN NumF r) n1))) n1).
Proof.
  intros Hx. cbn [nmul ndiv nadd NumF]. change (n1 (NN:=NumF)) with 1%float.
  set (q := Coq.Floats.PrimFloat.div (ofN NumF i) (Coq.Floats.PrimFloat.add (ofN NumF r) 1%float)).
  assert (Hq : pnan (Prim2B q)).
  { unfold q. rewrite div_equiv, add_equiv. apply Bdiv_posn; [apply ofN_posn|].
    apply Bplus_posn; [apply ofN_posn|apply fposn_one]. }
  set (y := Coq.Floats.PrimFloat.mul x q).
  assert (Hy : pnan (Prim2B y)) by (unfold y; rewrite mul_equiv; now apply Bmult_pnan).
  rewrite nmin_F.
  destruct (fltb y 1) eqn:L1.
  - destruct Hy as [Hn|Hp]; [|exact Hp]. exfalso.
    rewrite ltb_equiv in L1. destruct (Prim2B y); try discriminate Hn. discriminate L1.
  - destruct (fltb 1 y); [exact fposn_one|].
    destruct (fnan y) eqn:Ny; [exact fposn_one|].
    destruct Hy as [Hn|Hp]; [|exact Hp]. rewrite fnan_is_nan in Ny. congruence.
Qed.
Print Assumptions F_ratio_step.

(* ------------------------------------------------------------------ *)
(* every reachable state: the ratio is a positive number at most 1     *)

From PV Require Import proofs.SampleFloat proofs.RangeInst.
Import ListNotations.
Local Open Scope R_scope.

Lemma fposn_le_one_bounded (x : F) : fposn x -> fleb x 1%float = true -> ffin x /\ fmag x 0.
Proof.
  unfold fposn, ffin, fmag. intros Hp Hl. rewrite leb_equiv in Hl. destruct Prim2B_one as [h1 E1]. rewrite E1 in Hl.
  destruct (posn_cases _ Hp) as [E | [E | (m & e & h & E)]]; rewrite E in *.
  - split; [reflexivity|]. cbn. rewrite Rabs_R0. lra.
  - discriminate Hl.
  - split; [reflexivity|].
    rewrite Bleb_correct in Hl by reflexivity.
    destruct (Rle_bool_spec (B2R (B754_finite false m e h)) (B2R (B754_finite false 4503599627370496 (-52) h1))) as [Hle|]; [|discriminate].
    assert (B1 : B2R (B754_finite false 4503599627370496 (-52) h1) = 1) by (cbn; unfold F2R; cbn; lra).
    rewrite B1 in Hle.
    assert (P : 0 < B2R (B754_finite false m e h)) by (cbn; apply F2R_gt_0; reflexivity).
    rewrite Rabs_pos_eq by lra. exact Hle.
Qed.

(* a value between two finite bounds of moderate magnitude is finite of that magnitude *)
Lemma inr_bounded (lo hi v : F) (e : Z) :
  ffin lo -> ffin hi -> fmag lo e -> fmag hi e -> inrF lo hi v -> ffin v /\ fmag v e.
Proof.
  unfold ffin, fmag, inrF. intros Flo Fhi Mlo Mhi [H1 H2]. rewrite leb_equiv in H1, H2.
  assert (Fv : BinarySingleNaN.is_finite (Prim2B v) = true).
  { destruct (Prim2B v) as [s|s| |s m ex h]; try reflexivity.
    - destruct s.
      + destruct (Prim2B lo) as [s'|s'| |s' m' e' h']; try discriminate Flo; destruct s'; discriminate H1.
      + destruct (Prim2B hi) as [s'|s'| |s' m' e' h']; try discriminate Fhi; destruct s'; discriminate H2.
    - destruct (Prim2B lo); discriminate H1. }
  split; [exact Fv|].
  rewrite Bleb_correct in H1, H2 by assumption.
  destruct (Rle_bool_spec (B2R (Prim2B lo)) (B2R (Prim2B v))) as [L1|]; [|discriminate].
  destruct (Rle_bool_spec (B2R (Prim2B v)) (B2R (Prim2B hi))) as [L2|]; [|discriminate].
  apply Rabs_le. pose proof (Rabs_le_inv _ _ Mlo). pose proof (Rabs_le_inv _ _ Mhi). lra.
Qed.

Section Run.
  Variable fexp : F -> F.
  Variable score : N -> list F -> option F.

  Theorem F_ratio_in_unit_interval : forall c ps hs s0 draws,
    let r := ratio NumF (run NumF fexp score c (init NumF c ps hs s0) draws) in
    fposn r /\ fleb r 1%float = true.
  Proof.
    intros c ps hs s0 draws r. split.
    - apply (C19_ratio_pred NumF fexp score fposn fposn_one F_ratio_step).
    - apply (C19_ratio_le_one NumF fexp score F_Hmin F_Hone).
  Qed.

  Definition moderate (hs : list (handle NumF)) : Prop :=
    forall h, In h hs -> ffin (h_min NumF h) /\ ffin (h_max NumF h) /\ fmag (h_min NumF h) 300 /\ fmag (h_max NumF h) 300.
  Definition draw_ok (d : draw NumF) : Prop := ffin (d_g NumF d) /\ fmag (d_g NumF d) 0.

  (* no sampled value is ever NaN: the premise of the binary64 range invariant, discharged *)
  Theorem F_all_samples_good : forall c hs0 draws st,
    same_ranges NumF hs0 (handles NumF st) -> compatible NumF hs0 ->
    (forall h, In h hs0 -> (h_cell NumF h < length (params NumF st))%nat /\ inrF (h_min NumF h) (h_max NumF h) (h_min NumF h)) ->
    in_ranges NumF inrF hs0 (params NumF st) ->
    moderate hs0 -> ffin (max_step NumF c) -> fmag (max_step NumF c) 300 ->
    fposn (ratio NumF st) -> fleb (ratio NumF st) 1%float = true ->
    Forall draw_ok draws ->
    all_samples_good NumF fexp score (fun x => fnan x = false) c st draws.
  Proof.
    intros c hs0 draws. induction draws as [|d ds IH]; intros st Hsame Hcomp Hwf Hin Hmod Fms Mms Hr1 Hr2 Hd; [exact I|].
    inversion Hd as [|d' ds' [Fg Mg] Hds]; subst.
    assert (Hgood : fin NumF st = false -> forall h, nth_error (handles NumF st) (d_idx NumF d) = Some h ->
              fnan (sample NumF h (get_cell NumF (params NumF st) (h_cell NumF h))
                           (nmul (n:=NumF) (max_step NumF c) (ratio NumF st)) (d_g NumF d)) = false).
    { intros _ h Hh. apply nth_error_In in Hh.
      destruct (Hsame h Hh) as (h0 & Hh0 & Ec & Emin & Emax).
      destruct (Hmod h0 Hh0) as (Flo & Fhi & Mlo & Mhi). rewrite Emin in Flo, Mlo. rewrite Emax in Fhi, Mhi.
      pose proof (Hin h0 Hh0) as Hv. rewrite Emin, Emax, Ec in Hv.
      destruct (inr_bounded _ _ _ 300 Flo Fhi Mlo Mhi Hv) as [Fv Mv].
      destruct (fposn_le_one_bounded _ Hr1 Hr2) as [Fr Mr].
      assert (Hstep : ffin (nmul (n:=NumF) (max_step NumF c) (ratio NumF st)) /\ fmag (nmul (n:=NumF) (max_step NumF c) (ratio NumF st)) 300).
      { unfold ffin, fmag. cbn [nmul NumF]. rewrite mul_equiv.
        destruct (Bmult_bounded _ _ 300 0 Fms Fr Mms Mr) as [A B]; [lia|]. split; [exact A|].
        replace 300%Z with (300 + 0)%Z by lia. exact B. }
      destruct Hstep as [Fs Ms].
      apply (F_sample_finite h _ _ _ Fv Fs Fg Flo Fhi Mv Ms Mg Mlo Mhi). }
    split; [exact Hgood|].
    destruct (advance_ranges NumF fexp score (fun x => fnan x = false) inrF clampF_ok c st d hs0 Hsame Hcomp Hwf Hin Hgood)
      as (S1 & S2 & _ & S4).
    apply IH; try assumption.
    - intros h Hh. rewrite S4. now apply Hwf.
    - apply (advance_ratio_pred NumF fexp score fposn F_ratio_step). exact Hr1.
    - apply (advance_ratio_inv NumF fexp score F_Hmin). exact Hr2.
  Qed.

  (* C08 on binary64 without a premise about the run: from a state inside moderate, finite ranges, with a finite
     moderate step size and draws in [-1, 1], every parameter stays within its declared range for the whole run *)
  Theorem C08_ranges_binary64_unconditional : forall c hs0 ps hs s0 draws,
    let st0 := init NumF c ps hs s0 in
    same_ranges NumF hs0 hs -> compatible NumF hs0 ->
    (forall h, In h hs0 -> (h_cell NumF h < length ps)%nat /\ inrF (h_min NumF h) (h_max NumF h) (h_min NumF h)) ->
    in_ranges NumF inrF hs0 ps ->
    moderate hs0 -> ffin (max_step NumF c) -> fmag (max_step NumF c) 300 -> Forall draw_ok draws ->
    let st' := run NumF fexp score c st0 draws in
    in_ranges NumF inrF hs0 (params NumF st') /\ untouched NumF hs0 ps (params NumF st').
  Proof.
    intros c hs0 ps hs s0 draws st0 Hsame Hcomp Hwf Hin Hmod Fms Mms Hd st'.
    apply (C08_ranges_invariant_binary64 fexp score c hs0 draws st0); try assumption.
    apply (F_all_samples_good c hs0 draws st0); try assumption.
    - exact fposn_one.
    - reflexivity.
  Qed.
End Run.
Print Assumptions C08_ranges_binary64_unconditional.

(* ------------------------------------------------------------------ *)
(* C19 in binary64: the step a proposal uses, max_step * ratio, never exceeds max_step                 *)

Lemma F_scaled_le (ms r : F) :
  ffin ms -> fleb 0%float ms = true -> fposn r -> fleb r 1%float = true ->
  fleb (Coq.Floats.PrimFloat.mul ms r) ms = true.
Proof.
  intros Fms Pms Hr Hr1.
  destruct (fposn_le_one_bounded r Hr Hr1) as [Fr Mr].
  unfold ffin, fmag, fposn in *. rewrite leb_equiv in *. rewrite mul_equiv. rewrite Prim2B_zero in Pms.
  set (M := Prim2B ms) in *. set (Rr := Prim2B r) in *.
  (* 0 <= ms and 0 <= r <= 1 as reals *)
  assert (P0 : 0 <= B2R M).
  { rewrite Bleb_correct in Pms by (try reflexivity; exact Fms). cbn in Pms.
    destruct (Rle_bool_spec 0 (B2R M)); [assumption|discriminate]. }
  assert (R0 : 0 <= B2R Rr).
  { destruct (posn_cases _ Hr) as [E | [E | (m & e & h & E)]]; rewrite E in *; cbn; try lra.
    apply Rlt_le. apply F2R_gt_0. reflexivity. }
  assert (R1 : B2R Rr <= 1).
  { pose proof (Rabs_le_inv _ _ Mr) as [_ H]. exact H. }
  pose proof (Bmult_correct _ _ _ _ mode_NE M Rr) as H. cbn [round_mode] in H.
  assert (Hle : Rabs (round radix2 (SpecFloat.fexp prec emax) ZnearestE (B2R M * B2R Rr)) <= Rabs (B2R M)).
  { apply abs_round_le_generic; try typeclasses eauto.
    - apply generic_format_abs. apply generic_format_B2R.
    - rewrite !Rabs_pos_eq by (try assumption; now apply Rmult_le_pos).
      rewrite <- (Rmult_1_r (B2R M)) at 2. apply Rmult_le_compat_l; assumption. }
  assert (Hlt : Rabs (B2R M) < bpow radix2 emax) by (apply abs_B2R_lt_emax).
  rewrite Rlt_bool_true in H by lra.
  destruct H as (E & F & _). rewrite Fms, Fr in F. cbn in F.
  rewrite Bleb_correct by assumption.
  apply Rle_bool_true.
  pose proof (Rabs_le_inv _ _ Hle) as [_ Hu]. rewrite (Rabs_pos_eq (B2R M)) in Hu by assumption.
  eapply Rle_trans; [apply Req_le; exact E|exact Hu].
Qed.

Section StepF.
  Variable fexp : F -> F.
  Variable score : N -> list F -> option F.

  (* in every reachable state the step handed to the sampler is at most the configured maximum *)
  Theorem F_C19_step_le_max : forall c ps hs s0 draws,
    ffin (max_step NumF c) -> fleb 0%float (max_step NumF c) = true ->
    let st := run NumF fexp score c (init NumF c ps hs s0) draws in
    fleb (nmul (n:=NumF) (max_step NumF c) (ratio NumF st)) (max_step NumF c) = true.
  Proof.
    intros c ps hs s0 draws Fms Pms st.
    destruct (F_ratio_in_unit_interval fexp score c ps hs s0 draws) as [H1 H2].
    cbn [nmul NumF]. now apply F_scaled_le.
  Qed.
End StepF.
Print Assumptions F_C19_step_le_max.
