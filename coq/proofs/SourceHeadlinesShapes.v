(* SourceHeadlinesShapes.v - C12 restated about the overlap tests AS TRANSLATED FROM THE SOURCE on this run
   (gen_mol_intersects / gen_poly_intersects of gen/GenFns.v: MolecularShape2::intersects and LineShape::intersects as
   wholes, over Atom2::intersects and Line2::intersects). *)
From Coq Require Import ZArith List Bool Reals Lra.
From PV Require Import Num NumR model.Geom gen.GenFns proofs.RealFacts proofs.OverlapFacts proofs.ConvexFacts proofs.SrcShapes.
Import ListNotations.
Local Open Scope R_scope.

(* discs: the source's test says yes exactly when the two molecules have a common interior point *)
Theorem source_mol_test_exact : forall l m : list discR,
  Forall (fun d : discR => 0 < dr NumR d) l -> Forall (fun d : discR => 0 < dr NumR d) m ->
  gen_mol_intersects NumR l m = true <-> (exists p : R * R, in_mol l p /\ in_mol m p).
Proof.
  intros l m Hl Hm. destruct (shape_intersects_is_source NumR [] [] l m) as [_ ->]. now apply mol_test_exact.
Qed.

(* polygons, soundness: a yes of the source's test comes with a common point of two edges *)
Theorem source_poly_yes_gives_common_point : forall l m : list segR,
  gen_poly_intersects NumR l m = true ->
  exists (s o : segR) (ta tb : R), In s l /\ In o m /\ 0 <= ta <= 1 /\ 0 <= tb <= 1 /\
    sx1 NumR s + ta * (sx2 NumR s - sx1 NumR s) = sx1 NumR o + tb * (sx2 NumR o - sx1 NumR o) /\
    sy1 NumR s + ta * (sy2 NumR s - sy1 NumR s) = sy1 NumR o + tb * (sy2 NumR o - sy1 NumR o).
Proof.
  intros l m H. destruct (shape_intersects_is_source NumR l m [] []) as [E _]. rewrite E in H.
  now apply poly_yes_gives_common_point.
Qed.

(* polygons, completeness for convex polygons: overlapping interiors, neither inside the other, are detected *)
Theorem source_convex_overlap_detected : forall (sP sQ : R) (P Q : list segR) (x : pt),
  convex sP P -> convex sQ Q -> closed P -> closed Q -> strictly_inside sP P x -> strictly_inside sQ Q x ->
  (exists e : segR, In e P /\ ~ strictly_inside sQ Q (seg_start e)) ->
  (exists f : segR, In f Q /\ ~ strictly_inside sP P (seg_start f)) ->
  gen_poly_intersects NumR P Q = true.
Proof.
  intros sP sQ P Q x H1 H2 H3 H4 H5 H6 H7 H8. destruct (shape_intersects_is_source NumR P Q [] []) as [-> _].
  now apply (convex_overlap_detected sP sQ P Q x).
Qed.
