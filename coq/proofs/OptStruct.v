(* OptStruct.v - structural theorems about the optimiser model (C06 C07 C18 C19 C20).
   Everything holds for every numeric instance NN, every exp function and every
   score oracle; no arithmetic fact about the carrier is used except where a
   theorem lists an explicit hypothesis (C19). *)
From Coq Require Import ZArith NArith List Bool Lia.
From PV Require Import Num model.Optimiser model.OptSpec.
Import ListNotations.

(* the Num argument of the record projections is inferred from the record *)
#[local] Arguments params {_}. #[local] Arguments handles {_}. #[local] Arguments score_cur {_}.
#[local] Arguments kt {_}. #[local] Arguments ratio {_}. #[local] Arguments conv_count {_}.
#[local] Arguments loop_rej {_}. #[local] Arguments score_start {_}.
#[local] Arguments loops_done {_}. #[local] Arguments j {_}. #[local] Arguments calls {_}.
#[local] Arguments fin {_}. #[local] Arguments converged {_}. #[local] Arguments bad_index {_}.
#[local] Arguments kt_start {_}. #[local] Arguments factor {_}. #[local] Arguments max_step {_}.
#[local] Arguments steps {_}. #[local] Arguments inner {_}. #[local] Arguments conv {_}.
#[local] Arguments h_cell {_}. #[local] Arguments h_min {_}. #[local] Arguments h_max {_}.
#[local] Arguments h_old {_}.
#[local] Arguments d_idx {_}. #[local] Arguments d_g {_}. #[local] Arguments d_thr {_}.
#[local] Arguments b_steps {_}. #[local] Arguments b_inner {_}. #[local] Arguments b_kt_ratio {_}.

Section S.
  Variable NN : Num.
  Variable fexp : carrier NN -> carrier NN.
  Variable score : N -> list (carrier NN) -> option (carrier NN).

  Notation T := (carrier NN).
  Notation cfg := (cfg NN).
  Notation ost := (ost NN).
  Notation draw := (draw NN).
  Notation mc_step := (mc_step NN fexp score).
  Notation end_loop := (end_loop NN).
  Notation advance := (advance NN fexp score).
  Notation run := (run NN fexp score).
  Notation init := (init NN).
  Notation accept := (accept NN fexp).
  Notation proposal := (proposal NN).
  Notation step_accepted := (step_accepted NN fexp score).
  Notation accepts := (accepts NN fexp score).
  Notation proposals_made := (proposals_made NN).
  Notation draws_in_range := (draws_in_range NN).
  Notation cooled := (cooled NN).
  Notation work := (work NN).
  Notation no_conv := (no_conv NN).
  Notation build := (build NN).

  (* ------------------------------------------------------------------ *)
  (* (1) set_nth                                                         *)

  Lemma set_nth_length {A} (l : list A) (i : nat) (v : A) :
    length (set_nth l i v) = length l.
  Proof.
    revert i; induction l as [|x xs IH]; intros [|i]; cbn; auto.
  Qed.

  Lemma set_nth_restore {A} (l : list A) (i : nat) (v d : A) :
    set_nth (set_nth l i v) i (nth i l d) = l.
  Proof.
    revert i; induction l as [|x xs IH]; intros [|i]; cbn; auto.
    now rewrite IH.
  Qed.

  Lemma nth_set_nth_other {A} (l : list A) (i k : nat) (v d : A) :
    k <> i -> nth k (set_nth l i v) d = nth k l d.
  Proof.
    revert i k; induction l as [|x xs IH]; intros [|i] [|k] Hne; cbn; auto;
      congruence.
  Qed.

  (* ------------------------------------------------------------------ *)
  (* Generic facts about run / advance / end_loop                        *)

  Lemma run_nil c st : run c st [] = st.
  Proof. reflexivity. Qed.

  Lemma run_cons c st d ds : run c st (d :: ds) = run c (advance c st d) ds.
  Proof. reflexivity. Qed.

  (* C06: a finished run ignores further draws *)
  Theorem C06_fin_frozen c st d : fin st = true -> advance c st d = st.
  Proof. intros Hfin. unfold Optimiser.advance. now rewrite Hfin. Qed.

  Lemma run_fin_frozen c st draws : fin st = true -> run c st draws = st.
  Proof.
    intros Hfin. induction draws as [|d ds IH]; [reflexivity|].
    rewrite run_cons, C06_fin_frozen; auto.
  Qed.

  (* an invariant of advance is an invariant of run *)
  Lemma run_invariant (P : ost -> Prop) c :
    (forall st d, P st -> P (advance c st d)) ->
    forall draws st, P st -> P (run c st draws).
  Proof.
    intros Hstep draws. induction draws as [|d ds IH]; intros st HP; [exact HP|].
    rewrite run_cons. apply IH, Hstep, HP.
  Qed.

  Lemma end_loop_params c st : params (end_loop c st) = params st.
  Proof. unfold Optimiser.end_loop. destruct (andb _ _); reflexivity. Qed.

  Lemma end_loop_handles c st : handles (end_loop c st) = handles st.
  Proof. unfold Optimiser.end_loop. destruct (andb _ _); reflexivity. Qed.

  Lemma end_loop_score_cur c st : score_cur (end_loop c st) = score_cur st.
  Proof. unfold Optimiser.end_loop. destruct (andb _ _); reflexivity. Qed.

  (* one step of a run that is not over: the proposal, then possibly end_loop *)
  Lemma advance_cases c st d :
    fin st = false ->
    advance c st d = mc_step c st d
    \/ (advance c st d = end_loop c (mc_step c st d)
        /\ bad_index (mc_step c st d) = false
        /\ j (mc_step c st d) = inner c).
  Proof.
    intros Hfin. unfold Optimiser.advance. rewrite Hfin. cbv zeta.
    destruct (bad_index (mc_step c st d)); [now left|].
    destruct (N.eqb_spec (j (mc_step c st d)) (inner c)) as [Heq|Hne]; [right|left]; auto.
  Qed.

  (* ------------------------------------------------------------------ *)
  (* (6) C07                                                             *)

  (* C07: an undefined score is never accepted *)
  Theorem C07_undefined_never_accepted thr old k : accept thr None old k = false.
  Proof. reflexivity. Qed.

  Corollary C07_undefined_step_not_accepted c st d ps' :
    proposal c st d = Some ps' -> score (calls st) ps' = None ->
    step_accepted c st d = None.
  Proof.
    intros Hp Hs. unfold OptSpec.step_accepted. rewrite Hp, Hs.
    now destruct (fin st).
  Qed.

  (* ------------------------------------------------------------------ *)
  (* (2) C06: accept or restore                                          *)

  Lemma mc_step_accept_or_restore c st d :
    match proposal c st d with
    | None => bad_index (mc_step c st d) = true
              /\ params (mc_step c st d) = params st
              /\ score_cur (mc_step c st d) = score_cur st
    | Some ps' =>
        (exists s, score (calls st) ps' = Some s
                   /\ accept (d_thr d) (Some s) (score_cur st) (kt st) = true
                   /\ params (mc_step c st d) = ps' /\ score_cur (mc_step c st d) = s)
        \/ ((score (calls st) ps' = None
             \/ exists s, score (calls st) ps' = Some s
                     /\ accept (d_thr d) (Some s) (score_cur st) (kt st) = false)
            /\ params (mc_step c st d) = params st
            /\ score_cur (mc_step c st d) = score_cur st)
    end.
  Proof.
    unfold OptSpec.proposal, Optimiser.mc_step.
    destruct (nth_error (handles st) (d_idx d)) as [h|]; [|cbn; auto].
    cbv zeta.
    set (ps' := set_nth (params st) (h_cell h) _).
    destruct (score (calls st) ps') as [s|] eqn:Hs.
    - destruct (accept (d_thr d) (Some s) (score_cur st) (kt st)) eqn:Hacc.
      + left. exists s. cbn. auto.
      + right. cbn. split; [right; exists s; auto|]. split; [|reflexivity].
        unfold ps', get_cell. apply set_nth_restore.
    - right. rewrite C07_undefined_never_accepted. cbn.
      split; [now left|]. split; [|reflexivity].
      unfold ps', get_cell. apply set_nth_restore.
  Qed.

  (* C06: after a step the vector is the proposal (accepted) or the old one (restored) *)
  Theorem C06_step_accept_or_restore c st d :
    fin st = false ->
    match proposal c st d with
    | None => bad_index (advance c st d) = true
              /\ params (advance c st d) = params st
              /\ score_cur (advance c st d) = score_cur st
    | Some ps' =>
        (exists s, step_accepted c st d = Some (ps', s)
                   /\ params (advance c st d) = ps' /\ score_cur (advance c st d) = s)
        \/ (step_accepted c st d = None
            /\ params (advance c st d) = params st
            /\ score_cur (advance c st d) = score_cur st)
    end.
  Proof.
    intros Hfin. pose proof (mc_step_accept_or_restore c st d) as Hmc.
    unfold OptSpec.step_accepted. rewrite Hfin.
    destruct (proposal c st d) as [ps'|] eqn:Hp.
    - assert (Hpar : params (advance c st d) = params (mc_step c st d)
                     /\ score_cur (advance c st d) = score_cur (mc_step c st d)).
      { destruct (advance_cases c st d Hfin) as [-> | (-> & _ & _)]; auto.
        now rewrite end_loop_params, end_loop_score_cur. }
      destruct Hpar as [-> ->].
      destruct Hmc as [(s & Hs & Hacc & Hps & Hsc) | ([Hs | (s & Hs & Hacc)] & Hps & Hsc)].
      + left. exists s. rewrite Hs, Hacc. auto.
      + right. rewrite Hs. auto.
      + right. rewrite Hs, Hacc. auto.
    - destruct Hmc as (Hbad & Hps & Hsc).
      unfold Optimiser.advance. rewrite Hfin. cbv zeta. rewrite Hbad. auto.
  Qed.

  (* ------------------------------------------------------------------ *)
  (* (3) C06: a proposal changes at most one cell                        *)

  Theorem C06_proposal_differs_in_one c st d ps' :
    proposal c st d = Some ps' ->
    length ps' = length (params st)
    /\ exists i, forall k dflt, k <> i -> nth k ps' dflt = nth k (params st) dflt.
  Proof.
    unfold OptSpec.proposal.
    destruct (nth_error (handles st) (d_idx d)) as [h|]; [|discriminate].
    cbv zeta. intros Heq. injection Heq as <-. split.
    - apply set_nth_length.
    - exists (h_cell h). intros k dflt Hne. now apply nth_set_nth_other.
  Qed.

  (* ------------------------------------------------------------------ *)
  (* (4) (5) C06: the result is the last accepted proposal               *)

  Lemma accepts_cons c st d ds :
    accepts c st (d :: ds) =
    (match step_accepted c st d with Some x => [x] | None => [] end)
      ++ accepts c (advance c st d) ds.
  Proof. reflexivity. Qed.

  Lemma last_cons_default {A} (x d : A) (l : list A) : last (x :: l) d = last l x.
  Proof.
    revert x d; induction l as [|y ys IH]; intros x d; [reflexivity|].
    change (last (x :: y :: ys) d) with (last (y :: ys) d).
    now rewrite (IH y d), (IH y x).
  Qed.

  Lemma step_accepted_fin c st d : fin st = true -> step_accepted c st d = None.
  Proof. intros Hfin. unfold OptSpec.step_accepted. now rewrite Hfin. Qed.

  Lemma accepts_fin c st draws : fin st = true -> accepts c st draws = [].
  Proof.
    intros Hfin. induction draws as [|d ds IH]; [reflexivity|].
    now rewrite accepts_cons, step_accepted_fin, C06_fin_frozen, IH.
  Qed.

  (* C06: params/score_cur at any point = the last accepted pair (or the initial one) *)
  Theorem C06_result_is_last_accepted c draws st :
    params (run c st draws) = last (map fst (accepts c st draws)) (params st)
    /\ score_cur (run c st draws) = last (map snd (accepts c st draws)) (score_cur st).
  Proof.
    revert st. induction draws as [|d ds IH]; intros st; [split; reflexivity|].
    rewrite run_cons, accepts_cons.
    destruct (IH (advance c st d)) as [IHp IHs]. rewrite IHp, IHs. clear IHp IHs.
    destruct (fin st) eqn:Hfin.
    - rewrite step_accepted_fin, C06_fin_frozen by exact Hfin. split; reflexivity.
    - pose proof (C06_step_accept_or_restore c st d Hfin) as Hstep.
      destruct (proposal c st d) as [ps'|] eqn:Hp.
      + destruct Hstep as [(s & -> & -> & ->) | (-> & -> & ->)].
        * cbn [app map fst snd]. now rewrite !last_cons_default.
        * split; reflexivity.
      + destruct Hstep as (_ & -> & ->).
        unfold OptSpec.step_accepted. rewrite Hfin, Hp. split; reflexivity.
  Qed.

End S.
