(* BasisRun.v - C08 end to end over the reals: the handles are the ones the SOURCE's generate_basis declares (as
   translated on this run), the run is the optimiser model's (whose loop bodies are proved equal to the source's in
   SrcOpt.v); after ANY run - any configuration, any scoring oracle, any random stream - every parameter lies in the
   range C08 names for it. *)
From Coq Require Import ZArith NArith List Bool Reals Lra Lia.
From PV Require Import Num NumR model.Tables model.Basis model.Optimiser model.OptSpec gen.GenFns
     proofs.OptStruct proofs.OptLoop proofs.RealFacts proofs.RangeInst proofs.BasisFacts.
Import ListNotations.

Section BasisRun.
  Variable NN : Num.
  Notation T := (carrier NN).

  (* one handle per declaration, on consecutive cells, remembering the current value *)
  Fixpoint handles_from (i : nat) (ds : list (decl NN)) (vs : list T) : list (handle NN) :=
    match ds, vs with
    | d :: ds', v :: vs' => mkHandle i (d_min NN d) (d_max NN d) v :: handles_from (S i) ds' vs'
    | _, _ => []
    end.

  Lemma handles_from_In i ds vs h :
    In h (handles_from i ds vs) ->
    exists k d, nth_error ds k = Some d /\ (k < length vs)%nat /\ h_cell NN h = (i + k)%nat
                /\ h_min NN h = d_min NN d /\ h_max NN h = d_max NN d.
  Proof.
    revert i vs; induction ds as [|d ds IH]; intros i [|v vs] H; cbn in H; try contradiction.
    destruct H as [<-|H].
    - exists 0%nat, d. cbn. repeat split; try lia.
    - destruct (IH _ _ H) as (k & d' & H1 & H2 & H3 & H4 & H5).
      exists (S k), d'. cbn. repeat split; auto; lia.
  Qed.

  Lemma handles_from_nth i ds vs k d :
    nth_error ds k = Some d -> (k < length vs)%nat ->
    exists h, In h (handles_from i ds vs) /\ h_cell NN h = (i + k)%nat /\ h_min NN h = d_min NN d /\ h_max NN h = d_max NN d.
  Proof.
    revert i vs k; induction ds as [|d0 ds IH]; intros i [|v vs] [|k] H Hk; cbn in *; try discriminate; try lia.
    - injection H as <-. eexists. split; [left; reflexivity|]. cbn. repeat split; lia.
    - destruct (IH (S i) vs k H ltac:(lia)) as (h & H1 & H2 & H3 & H4).
      exists h. repeat split; auto. lia.
  Qed.
End BasisRun.

(* the declared ranges are not empty for a valid starting cell *)
Lemma declared_nonempty f len ratio (d : decl NumR) :
  declared NumR PI f len ratio d -> (1 / 100 <= len)%R -> (1 / 10 <= ratio)%R -> (d_min NumR d <= d_max NumR d)%R.
Proof.
  unfold declared. intros D Hl Hr. pose proof PI_RGT_0 as Hpi.
  destruct (d_var NumR d); cbn in D.
  - destruct D as [-> ->]. cbn. lra.
  - destruct D as (_ & -> & ->). cbn. lra.
  - destruct D as (_ & -> & ->). cbn. lra.
  - destruct D as [-> ->]. cbn. lra.
  - destruct D as [-> ->]. cbn. lra.
  - destruct D as [-> ->]. cbn. lra.
Qed.

Theorem C08_source_ranges_hold_after_any_run :
  forall (score : N -> list R -> option R) (c : cfg NumR) (f : family) (len ratio : R) (sites : list (list bool))
         (vs : list R) (s0 : R) (draws : list (draw NumR)),
    let ds := gen_generate_basis_packed NumR PI f len ratio sites in
    (1 / 100 <= len)%R -> (1 / 10 <= ratio)%R ->
    (forall k d, nth_error ds k = Some d -> (k < length vs)%nat -> (d_min NumR d <= nth k vs 0 <= d_max NumR d)%R) ->
    let st' := run NumR exp score c (init NumR c vs (handles_from NumR 0 ds vs) s0) draws in
    forall k d, nth_error ds k = Some d -> (k < length vs)%nat ->
      declared NumR PI f len ratio d /\ (d_min NumR d <= nth k (params NumR st') 0 <= d_max NumR d)%R.
Proof.
  intros score c f len ratio sites vs s0 draws ds Hl Hr Hin st' k d Hk Hlt.
  assert (Hd : forall d', In d' ds -> declared NumR PI f len ratio d').
  { intros d' H'. apply (source_declares_the_ranges NumR PI f len ratio sites d'). left. exact H'. }
  split; [apply Hd; eapply nth_error_In; exact Hk|].
  set (hs0 := handles_from NumR 0 ds vs).
  assert (Hinv : in_ranges NumR inrR hs0 (params NumR st')).
  { apply (C08_ranges_invariant_real score c hs0 draws (init NumR c vs hs0 s0)).
    - intros h' Hh'. exists h'. cbn in Hh'. auto.
    - intros h1 h2 H1 H2 E.
      destruct (handles_from_In NumR 0 ds vs h1 H1) as (k1 & d1 & A1 & _ & B1 & C1 & D1).
      destruct (handles_from_In NumR 0 ds vs h2 H2) as (k2 & d2 & A2 & _ & B2 & C2 & D2).
      assert (k1 = k2) by lia. subst k2. rewrite A1 in A2. injection A2 as <-. split; congruence.
    - intros h Hh. destruct (handles_from_In NumR 0 ds vs h Hh) as (k1 & d1 & A1 & L1 & B1 & C1 & D1).
      cbn [params init]. split; [lia|]. rewrite C1, D1. unfold inrR.
      pose proof (declared_nonempty f len ratio d1 (Hd d1 (nth_error_In _ _ A1)) Hl Hr). lra.
    - intros h Hh. destruct (handles_from_In NumR 0 ds vs h Hh) as (k1 & d1 & A1 & L1 & B1 & C1 & D1).
      cbn [params init]. rewrite C1, D1, B1. cbn [plus]. unfold inrR. apply (Hin k1 d1 A1 L1). }
  destruct (handles_from_nth NumR 0 ds vs k d Hk Hlt) as (h & H1 & H2 & H3 & H4).
  specialize (Hinv h H1). unfold inrR in Hinv. rewrite H2, H3, H4 in Hinv. cbn [plus] in Hinv. exact Hinv.
Qed.

(* ---- the state every group and shape start from lies in the declared ranges (reals) *)
Lemma Forall2_nth {A B} (P : A -> B -> Prop) (l : list A) (m : list B) (dflt : B) :
  Forall2 P l m -> forall k a, nth_error l k = Some a -> (k < length m)%nat -> P a (nth k m dflt).
Proof.
  induction 1 as [|a b l m Hab H IH]; intros [|k] a' Hk Hlt; cbn in *; try discriminate; try lia.
  - injection Hk as <-. exact Hab.
  - apply IH; [exact Hk|lia].
Qed.

Definition in_decl (d : decl NumR) (v : R) : Prop := (d_min NumR d <= v <= d_max NumR d)%R.

Lemma initial_site_in_range (m : N) : (1 <= m)%N ->
  Forall2 in_decl (site_basis NumR PI wyckoff_dof 1%N) (let '(x, y, a) := initial_site NumR m in [x; y; a]).
Proof.
  intros Hm. unfold site_basis, wyckoff_dof, initial_site. cbn [nth app].
  assert (Hr : (1 <= IZR (Z.of_N m))%R) by (apply IZR_le; lia).
  assert (Hq : (0 < / IZR (Z.of_N m) <= 1)%R).
  { split; [apply Rinv_0_lt_compat; lra|]. rewrite <- Rinv_1. apply Rinv_le_contravar; lra. }
  pose proof PI_RGT_0 as Hpi.
  repeat (apply Forall2_cons || apply Forall2_nil); unfold in_decl; cbn; unfold Rdiv; split; nra.
Qed.

Theorem initial_state_in_declared_ranges : forall (f : family) (len : R) (mults : list N),
  (1 / 100 <= len)%R -> Forall (fun m => (1 <= m)%N) mults ->
  Forall2 in_decl (generate_basis NumR PI f len (initial_ratio NumR) (map (fun _ => wyckoff_dof) mults))
                  (initial_values NumR PI f len mults).
Proof.
  intros f len mults Hl Hm. unfold generate_basis, initial_values. pose proof PI_RGT_0 as Hpi.
  apply Forall2_app.
  - unfold cell_dof. apply Forall2_cons; [unfold in_decl; cbn; lra|].
    destruct f; cbn; repeat (apply Forall2_cons || apply Forall2_nil); unfold in_decl; cbn; unfold Rdiv; lra.
  - induction Hm as [|m l H1 Hl' IH]; cbn [map flat_map]; [constructor|].
    apply Forall2_app; [apply (initial_site_in_range m H1)|exact IH].
Qed.

(* from the starting state of any group x shape through any run: every parameter in its declared range *)
Theorem C08_from_the_initial_state_through_any_run :
  forall (score : N -> list R -> option R) (c : cfg NumR) (f : family) (radius : R) (mults : list N)
         (s0 : R) (draws : list (draw NumR)),
    let n := fold_left N.add mults 0%N in
    let len := gen_initial_length NumR radius n in
    let sites := map (fun _ => gen_wyckoff_dof) mults in
    let ds := gen_generate_basis_packed NumR PI f len (gen_initial_ratio NumR) sites in
    let vs := initial_values NumR PI f len mults in
    (1 / 100 <= len)%R -> Forall (fun m => (1 <= m)%N) mults ->
    let st' := run NumR exp score c (init NumR c vs (handles_from NumR 0 ds vs) s0) draws in
    forall k d, nth_error ds k = Some d -> (k < length vs)%nat ->
      declared NumR PI f len (gen_initial_ratio NumR) d /\ (d_min NumR d <= nth k (params NumR st') 0 <= d_max NumR d)%R.
Proof.
  intros score c f radius mults s0 draws n len sites ds vs Hl Hm st' k d Hk Hlt.
  apply (C08_source_ranges_hold_after_any_run score c f len (gen_initial_ratio NumR) sites vs s0 draws); try assumption.
  - cbn. lra.
  - intros k' d' Hk' Hlt'.
    assert (E : ds = generate_basis NumR PI f len (initial_ratio NumR) (map (fun _ => wyckoff_dof) mults)).
    { unfold ds, sites. destruct (generate_basis_is_source NumR PI f len (gen_initial_ratio NumR) (map (fun _ => gen_wyckoff_dof) mults)) as [-> _]. reflexivity. }
    pose proof (initial_state_in_declared_ranges f len mults Hl Hm) as HF. rewrite <- E in HF.
    apply (Forall2_nth in_decl ds vs 0%R HF k' d' Hk' Hlt').
Qed.

(* ---- the same in binary64 (Flocq): no premise about the samples - they are finite because every declared bound is *)
From Coq Require Import Floats.
From Flocq Require Import Core BinarySingleNaN PrimFloat.
From PV Require Import proofs.FloatFacts proofs.FloatZero proofs.SampleFloat proofs.RatioFloat.
Local Instance Hprec : FLX.Prec_gt_0 prec := eq_refl _.
Local Instance Hmax : Prec_lt_emax prec emax := eq_refl _.
Local Open Scope R_scope.

Lemma Prim2B_eight : exists h, Prim2B 8%float = B754_finite false 4503599627370496 (-49) h.
Proof. apply Prim2B_finite_facts. vm_compute. reflexivity. Qed.

Lemma Prim2B_neg_eight : exists h, Prim2B (-8)%float = B754_finite true 4503599627370496 (-49) h.
Proof. apply Prim2B_finite_facts. vm_compute. reflexivity. Qed.

Lemma within_eight (x : F) : inrF (-8)%float 8%float x -> ffin x /\ fmag x 300.
Proof.
  intros H. apply (inr_bounded (-8)%float 8%float x 300); try exact H.
  - unfold ffin. destruct Prim2B_neg_eight as [h ->]. reflexivity.
  - unfold ffin. destruct Prim2B_eight as [h ->]. reflexivity.
  - unfold fmag. destruct Prim2B_neg_eight as [h ->].
    assert (E : B2R (B754_finite true 4503599627370496 (-49) h) = -8) by (cbn; unfold F2R; cbn; lra).
    rewrite E. rewrite Rabs_left by lra. apply Rle_trans with (bpow radix2 3); [cbn; lra|apply bpow_le; lia].
  - unfold fmag. destruct Prim2B_eight as [h ->].
    assert (E : B2R (B754_finite false 4503599627370496 (-49) h) = 8) by (cbn; unfold F2R; cbn; lra).
    rewrite E. rewrite Rabs_pos_eq by lra. apply Rle_trans with (bpow radix2 3); [cbn; lra|apply bpow_le; lia].
Qed.

Lemma fleb_refl_fin (x : F) : ffin x -> fleb x x = true.
Proof.
  unfold ffin. intros Fx. change (fleb x x) with (PrimFloat.leb x x). rewrite leb_equiv, Bleb_correct by assumption. apply Rle_bool_true. lra.
Qed.

Ltac const8 := apply within_eight; unfold inrF; split; vm_compute; reflexivity.

Lemma declared_moderate f len ratio (d : decl NumF) :
  declared NumF pi_f f len ratio d ->
  ffin len -> fmag len 300 -> fleb (nofZ (n:=NumF) 1 / nofZ 100)%num len = true ->
  ffin ratio -> fmag ratio 300 -> fleb (nofZ (n:=NumF) 1 / nofZ 10)%num ratio = true ->
  ffin (d_min NumF d) /\ ffin (d_max NumF d) /\ fmag (d_min NumF d) 300 /\ fmag (d_max NumF d) 300
  /\ fleb (d_min NumF d) (d_max NumF d) = true.
Proof.
  unfold declared. intros D Fl Ml Ll Fr Mr Lr.
  destruct (d_var NumF d); cbn in D.
  - destruct D as [-> ->].
    match goal with |- ffin ?a /\ _ => assert (C : ffin a /\ fmag a 300) by const8 end.
    destruct C. auto 6.
  - destruct D as (_ & -> & ->).
    match goal with |- ffin ?a /\ _ => assert (C : ffin a /\ fmag a 300) by const8 end.
    destruct C. auto 6.
  - destruct D as (_ & -> & ->).
    match goal with |- ffin ?a /\ ffin ?b /\ _ =>
      assert (C1 : ffin a /\ fmag a 300) by const8; assert (C2 : ffin b /\ fmag b 300) by const8 end.
    destruct C1, C2. repeat split; auto; vm_compute; reflexivity.
  - destruct D as [-> ->].
    match goal with |- ffin ?a /\ ffin ?b /\ _ =>
      assert (C1 : ffin a /\ fmag a 300) by const8; assert (C2 : ffin b /\ fmag b 300) by const8 end.
    destruct C1, C2. repeat split; auto; vm_compute; reflexivity.
  - destruct D as [-> ->].
    match goal with |- ffin ?a /\ ffin ?b /\ _ =>
      assert (C1 : ffin a /\ fmag a 300) by const8; assert (C2 : ffin b /\ fmag b 300) by const8 end.
    destruct C1, C2. repeat split; auto; vm_compute; reflexivity.
  - destruct D as [-> ->].
    match goal with |- ffin ?a /\ ffin ?b /\ _ =>
      assert (C1 : ffin a /\ fmag a 300) by const8; assert (C2 : ffin b /\ fmag b 300) by const8 end.
    destruct C1, C2. repeat split; auto; vm_compute; reflexivity.
Qed.

Theorem C08_source_ranges_hold_after_any_run_binary64 :
  forall (fexp : F -> F) (score : N -> list F -> option F) (c : cfg NumF) (f : family) (len ratio : F)
         (sites : list (list bool)) (vs : list F) (s0 : F) (draws : list (draw NumF)),
    let ds := gen_generate_basis_packed NumF pi_f f len ratio sites in
    ffin len -> fmag len 300 -> fleb (nofZ (n:=NumF) 1 / nofZ 100)%num len = true ->
    ffin ratio -> fmag ratio 300 -> fleb (nofZ (n:=NumF) 1 / nofZ 10)%num ratio = true ->
    (forall k d, nth_error ds k = Some d -> (k < length vs)%nat -> inrF (d_min NumF d) (d_max NumF d) (nth k vs 0%float)) ->
    ffin (max_step NumF c) -> fmag (max_step NumF c) 300 -> Forall draw_ok draws ->
    let st' := run NumF fexp score c (init NumF c vs (handles_from NumF 0 ds vs) s0) draws in
    forall k d, nth_error ds k = Some d -> (k < length vs)%nat ->
      declared NumF pi_f f len ratio d /\ inrF (d_min NumF d) (d_max NumF d) (nth k (params NumF st') 0%float).
Proof.
  intros fexp score c f len ratio sites vs s0 draws ds Fl Ml Ll Fr Mr Lr Hin Fms Mms Hdr st' k d Hk Hlt.
  assert (Hd : forall d', In d' ds -> declared NumF pi_f f len ratio d').
  { intros d' H'. apply (source_declares_the_ranges NumF pi_f f len ratio sites d'). left. exact H'. }
  split; [apply Hd; eapply nth_error_In; exact Hk|].
  set (hs0 := handles_from NumF 0 ds vs).
  assert (Hinv : in_ranges NumF inrF hs0 (params NumF st')).
  { apply (C08_ranges_binary64_unconditional fexp score c hs0 vs hs0 s0 draws); try assumption.
    - intros h' Hh'. exists h'. auto.
    - intros h1 h2 H1 H2 E.
      destruct (handles_from_In NumF 0 ds vs h1 H1) as (k1 & d1 & A1 & _ & B1 & C1 & D1).
      destruct (handles_from_In NumF 0 ds vs h2 H2) as (k2 & d2 & A2 & _ & B2 & C2 & D2).
      assert (k1 = k2) by lia. subst k2. rewrite A1 in A2. injection A2 as <-. split; congruence.
    - intros h Hh. destruct (handles_from_In NumF 0 ds vs h Hh) as (k1 & d1 & A1 & L1 & B1 & C1 & D1).
      split; [lia|]. rewrite C1, D1.
      destruct (declared_moderate f len ratio d1 (Hd d1 (nth_error_In _ _ A1)) Fl Ml Ll Fr Mr Lr) as (G1 & G2 & G3 & G4 & G5).
      split; [apply fleb_refl_fin; exact G1|exact G5].
    - intros h Hh. destruct (handles_from_In NumF 0 ds vs h Hh) as (k1 & d1 & A1 & L1 & B1 & C1 & D1).
      rewrite C1, D1, B1. cbn [plus]. apply (Hin k1 d1 A1 L1).
    - intros h Hh. destruct (handles_from_In NumF 0 ds vs h Hh) as (k1 & d1 & A1 & L1 & B1 & C1 & D1).
      rewrite C1, D1.
      destruct (declared_moderate f len ratio d1 (Hd d1 (nth_error_In _ _ A1)) Fl Ml Ll Fr Mr Lr) as (G1 & G2 & G3 & G4 & G5).
      auto. }
  destruct (handles_from_nth NumF 0 ds vs k d Hk Hlt) as (h & H1 & H2 & H3 & H4).
  specialize (Hinv h H1). rewrite H2, H3, H4 in Hinv. cbn [plus] in Hinv. exact Hinv.
Qed.
Print Assumptions C08_source_ranges_hold_after_any_run_binary64.

(* the Lennard-Jones states declare the same handles (generate_basis of src/state/potential.rs is the same function), so
   the three theorems above hold for them word for word *)
Theorem potential_basis_is_packed_basis : forall (NN : Num) (pi_ : carrier NN) f len ratio sites,
  gen_generate_basis_potential NN pi_ f len ratio sites = gen_generate_basis_packed NN pi_ f len ratio sites.
Proof.
  intros NN pi_ f len ratio sites. destruct (generate_basis_is_source NN pi_ f len ratio sites) as [-> ->]. reflexivity.
Qed.
