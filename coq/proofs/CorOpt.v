(* CorOpt.v - the Metropolis rule stated directly about accept_score AS TRANSLATED FROM THE SOURCE on this run
   (gen_accept_score of gen/GenFns.v), over the reals: the theorems about the model's `accept` carried across
   accept_score_is_source. *)
From Coq Require Import ZArith NArith List Bool Reals Lra.
From PV Require Import Num NumR model.Optimiser gen.GenFns proofs.SrcOpt proofs.RealFacts.
Local Open Scope R_scope.

(* a proposal without a score is never accepted, at any temperature and for any draw *)
Theorem source_undefined_never_accepted : forall (NN : Num) (fexp : carrier NN -> carrier NN) thr old kt,
  gen_accept_score NN fexp thr None old kt = None.
Proof. reflexivity. Qed.

(* a better proposal is always accepted *)
Theorem source_better_always_accepted : forall thr old new kT : R, old < new ->
  gen_accept_score NumR exp thr (Some new) old kT = Some new.
Proof.
  intros thr old new kT H. rewrite accept_score_is_source. now rewrite (R_accept_better thr old new kT H).
Qed.

(* an equal score is accepted (for every draw below one) *)
Theorem source_equal_accepted : forall thr old kT : R, 0 < kT -> thr < 1 ->
  gen_accept_score NumR exp thr (Some old) old kT = Some old.
Proof.
  intros thr old kT H1 H2. rewrite accept_score_is_source. now rewrite (R_accept_equal thr old kT H1 H2).
Qed.

(* a proposal worse by d is accepted exactly when the draw is below exp(-d/kT): for a uniform draw on [0, 1) that is
   an event of probability exp(-d/kT) *)
Theorem source_worse_accepted_iff : forall thr old d kT : R, 0 < d -> 0 < kT ->
  (gen_accept_score NumR exp thr (Some (old - d)) old kT = Some (old - d) <-> thr < exp (- d / kT)).
Proof.
  intros thr old d kT Hd HkT. rewrite accept_score_is_source.
  rewrite <- (R_accept_interval thr old d kT Hd HkT).
  destruct (accept NumR exp thr (Some (old - d)) old kT); split; intros H; try reflexivity; discriminate H.
Qed.

(* ------------------------------------------------------------------ *)
(* LJ2::energy as translated from the source, over the reals (powi as real powers)                    *)
