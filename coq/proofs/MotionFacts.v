(* MotionFacts.v - C12: the pair tests give the same answer after one common motion is applied to both
   shapes (reals).  For segments and polygons this holds for EVERY invertible affine map (the three
   determinants of Line2::intersects all scale by the map's determinant); for discs and disc molecules for
   every rigid motion or reflection (distances are preserved, radii kept). *)
From Coq Require Import ZArith List Bool Reals Lra Lia Psatz.
From PV Require Import Num NumR model.Geom proofs.LatticeFacts proofs.OverlapFacts proofs.PackingFacts.
Import ListNotations.
Local Open Scope R_scope.

Definition det2 (t : tfR) : R := a00 NumR t * a11 NumR t - a01 NumR t * a10 NumR t.

Lemma seg_transform_affine (t : tfR) (l : segR) : affine_row t ->
  seg_transform NumR t l =
  @mkSeg NumR (a00 NumR t * sx1 NumR l + a01 NumR t * sy1 NumR l + a02 NumR t)
              (a10 NumR t * sx1 NumR l + a11 NumR t * sy1 NumR l + a12 NumR t)
              (a00 NumR t * sx2 NumR l + a01 NumR t * sy2 NumR l + a02 NumR t)
              (a10 NumR t * sx2 NumR l + a11 NumR t * sy2 NumR l + a12 NumR t).
Proof. intros H. unfold seg_transform. rewrite !(tf_apply_affine t _ _ H). reflexivity. Qed.

(* C12: the segment test is invariant under a common invertible affine map *)
Theorem seg_intersects_affine_invariant (t : tfR) (s o : segR) :
  affine_row t -> det2 t <> 0 ->
  seg_intersects NumR (seg_transform NumR t s) (seg_transform NumR t o) = seg_intersects NumR s o.
Proof.
  intros Ha Hd. apply eq_true_iff_eq. rewrite !seg_intersects_spec.
  rewrite !(seg_transform_affine t _ Ha).
  assert (Ed : den (@mkSeg NumR (a00 NumR t * sx1 NumR s + a01 NumR t * sy1 NumR s + a02 NumR t)
              (a10 NumR t * sx1 NumR s + a11 NumR t * sy1 NumR s + a12 NumR t)
              (a00 NumR t * sx2 NumR s + a01 NumR t * sy2 NumR s + a02 NumR t)
              (a10 NumR t * sx2 NumR s + a11 NumR t * sy2 NumR s + a12 NumR t))
            (@mkSeg NumR (a00 NumR t * sx1 NumR o + a01 NumR t * sy1 NumR o + a02 NumR t)
              (a10 NumR t * sx1 NumR o + a11 NumR t * sy1 NumR o + a12 NumR t)
              (a00 NumR t * sx2 NumR o + a01 NumR t * sy2 NumR o + a02 NumR t)
              (a10 NumR t * sx2 NumR o + a11 NumR t * sy2 NumR o + a12 NumR t)) = det2 t * den s o).
  { unfold den, det2. cbn [sx1 sy1 sx2 sy2]. unR. ring. }
  assert (Ea : numa (@mkSeg NumR (a00 NumR t * sx1 NumR s + a01 NumR t * sy1 NumR s + a02 NumR t)
              (a10 NumR t * sx1 NumR s + a11 NumR t * sy1 NumR s + a12 NumR t)
              (a00 NumR t * sx2 NumR s + a01 NumR t * sy2 NumR s + a02 NumR t)
              (a10 NumR t * sx2 NumR s + a11 NumR t * sy2 NumR s + a12 NumR t))
            (@mkSeg NumR (a00 NumR t * sx1 NumR o + a01 NumR t * sy1 NumR o + a02 NumR t)
              (a10 NumR t * sx1 NumR o + a11 NumR t * sy1 NumR o + a12 NumR t)
              (a00 NumR t * sx2 NumR o + a01 NumR t * sy2 NumR o + a02 NumR t)
              (a10 NumR t * sx2 NumR o + a11 NumR t * sy2 NumR o + a12 NumR t)) = det2 t * numa s o).
  { unfold numa, det2. cbn [sx1 sy1 sx2 sy2]. unR. ring. }
  assert (Eb : numb (@mkSeg NumR (a00 NumR t * sx1 NumR s + a01 NumR t * sy1 NumR s + a02 NumR t)
              (a10 NumR t * sx1 NumR s + a11 NumR t * sy1 NumR s + a12 NumR t)
              (a00 NumR t * sx2 NumR s + a01 NumR t * sy2 NumR s + a02 NumR t)
              (a10 NumR t * sx2 NumR s + a11 NumR t * sy2 NumR s + a12 NumR t))
            (@mkSeg NumR (a00 NumR t * sx1 NumR o + a01 NumR t * sy1 NumR o + a02 NumR t)
              (a10 NumR t * sx1 NumR o + a11 NumR t * sy1 NumR o + a12 NumR t)
              (a00 NumR t * sx2 NumR o + a01 NumR t * sy2 NumR o + a02 NumR t)
              (a10 NumR t * sx2 NumR o + a11 NumR t * sy2 NumR o + a12 NumR t)) = det2 t * numb s o).
  { unfold numb, det2. cbn [sx1 sy1 sx2 sy2]. unR. ring. }
  rewrite Ed, Ea, Eb.
  assert (Hq : forall x d, d <> 0 -> det2 t * x / (det2 t * d) = x / d) by (intros; field; split; assumption).
  split.
  - intros (H0 & H1 & H2). assert (Hden : den s o <> 0) by (intros E; apply H0; rewrite E; ring).
    rewrite !Hq in H1, H2 by exact Hden. tauto.
  - intros (H0 & H1 & H2). rewrite !Hq by exact H0. split; [|tauto].
    intros E. apply Rmult_integral in E. tauto.
Qed.

Lemma existsb_map {A B} (f : B -> bool) (g : A -> B) l : existsb f (map g l) = existsb (fun x => f (g x)) l.
Proof. induction l as [|x l IH]; [reflexivity|]. cbn. now rewrite IH. Qed.

Lemma existsb_ext_in {A} (f g : A -> bool) l : (forall x, In x l -> f x = g x) -> existsb f l = existsb g l.
Proof.
  induction l as [|x l IH]; intros H; [reflexivity|]. cbn. rewrite (H x (or_introl eq_refl)), IH; [reflexivity|].
  intros y Hy. apply H. now right.
Qed.

(* C12: the polygon test after a common invertible affine map (in particular every rigid motion / reflection) *)
Theorem poly_intersects_affine_invariant (t : tfR) (l m : list segR) :
  affine_row t -> det2 t <> 0 ->
  shape_intersects NumR (shape_transform NumR t (Poly l)) (shape_transform NumR t (Poly m))
  = shape_intersects NumR (Poly l) (Poly m).
Proof.
  intros Ha Hd. cbn [shape_transform shape_intersects]. rewrite existsb_map.
  apply existsb_ext_in. intros s _. rewrite existsb_map. apply existsb_ext_in. intros o _.
  now apply seg_intersects_affine_invariant.
Qed.

(* rigid maps have determinant +-1 *)
Lemma rigid_det (t : tfR) : rigid t -> det2 t <> 0.
Proof.
  intros (R1 & R2 & R3). unfold det2.
  assert (H : (a00 NumR t * a11 NumR t - a01 NumR t * a10 NumR t) * (a00 NumR t * a11 NumR t - a01 NumR t * a10 NumR t) = 1).
  { replace ((a00 NumR t * a11 NumR t - a01 NumR t * a10 NumR t) * (a00 NumR t * a11 NumR t - a01 NumR t * a10 NumR t))
      with ((a00 NumR t * a00 NumR t + a10 NumR t * a10 NumR t) * (a01 NumR t * a01 NumR t + a11 NumR t * a11 NumR t)
            - (a00 NumR t * a01 NumR t + a10 NumR t * a11 NumR t) * (a00 NumR t * a01 NumR t + a10 NumR t * a11 NumR t)) by ring.
    rewrite R1, R2, R3. ring. }
  intros E. rewrite E in H. lra.
Qed.

(* C12: the disc test after a common rigid motion or reflection *)
Theorem disc_intersects_rigid_invariant (t : tfR) (a b : discR) :
  affine_row t -> rigid t ->
  disc_intersects NumR (disc_transform NumR t a) (disc_transform NumR t b) = disc_intersects NumR a b.
Proof.
  intros Ha (R1 & R2 & R3). apply eq_true_iff_eq. rewrite !disc_intersects_spec.
  unfold disc_transform. rewrite !(tf_apply_affine t _ _ Ha). cbn [dx_ dy_ dr]. unfold dist2.
  destruct t as [t00 t01 t02 t10 t11 t12 t20 t21 t22], a as [ax ay ra], b as [bx by_ rb].
  cbn [a00 a01 a02 a10 a11 a12 dx_ dy_ dr] in *. unR.
  replace ((t00 * ax + t01 * ay + t02 - (t00 * bx + t01 * by_ + t02)) * (t00 * ax + t01 * ay + t02 - (t00 * bx + t01 * by_ + t02))
           + (t10 * ax + t11 * ay + t12 - (t10 * bx + t11 * by_ + t12)) * (t10 * ax + t11 * ay + t12 - (t10 * bx + t11 * by_ + t12)))
    with ((t00 * t00 + t10 * t10) * ((ax - bx) * (ax - bx)) + 2 * (t00 * t01 + t10 * t11) * ((ax - bx) * (ay - by_))
          + (t01 * t01 + t11 * t11) * ((ay - by_) * (ay - by_))) by ring.
  rewrite R1, R2, R3. replace (1 * ((ax - bx) * (ax - bx)) + 2 * 0 * ((ax - bx) * (ay - by_)) + 1 * ((ay - by_) * (ay - by_)))
    with ((ax - bx) * (ax - bx) + (ay - by_) * (ay - by_)) by ring. tauto.
Qed.

Theorem mol_intersects_rigid_invariant (t : tfR) (l m : list discR) :
  affine_row t -> rigid t ->
  shape_intersects NumR (shape_transform NumR t (Mol l)) (shape_transform NumR t (Mol m))
  = shape_intersects NumR (Mol l) (Mol m).
Proof.
  intros Ha Hr. cbn [shape_transform shape_intersects]. rewrite existsb_map.
  apply existsb_ext_in. intros a _. rewrite existsb_map. apply existsb_ext_in. intros b _.
  now apply disc_intersects_rigid_invariant.
Qed.

(* C12: every shape test, every common rigid motion or reflection *)
Theorem shape_intersects_rigid_invariant (t : tfR) (a b : shape NumR) :
  affine_row t -> rigid t ->
  shape_intersects NumR (shape_transform NumR t a) (shape_transform NumR t b) = shape_intersects NumR a b.
Proof.
  intros Ha Hr. destruct a as [l|l], b as [m|m].
  - apply poly_intersects_affine_invariant; [exact Ha|now apply rigid_det].
  - reflexivity.
  - reflexivity.
  - now apply mol_intersects_rigid_invariant.
Qed.
