(* SourceHeadlines.v - the headline statements of C01 and C02 restated about the functions AS TRANSLATED FROM THE SOURCE on
   this run (gen/GenFns.v): PackedState::score and check_intersection as wholes, Shape::enclosing_radius as a whole.
   Each follows from the theorem about the hand-written model and the equality theorems of SrcState.v / SrcShapes.v. *)
From Coq Require Import ZArith NArith List Bool Reals Lra.
From PV Require Import Num NumR model.Geom gen.GenFns proofs.SrcState proofs.SrcShapes
     proofs.RealFacts proofs.LatticeFacts proofs.SiteFacts proofs.OverlapFacts proofs.PackingFacts proofs.RadiusFacts proofs.AreaFacts.
Import ListNotations.
Local Open Scope R_scope.

(* C01, circle / trimer shapes: a state the SOURCE's score() gives a score to, whose enclosing radius is what the SOURCE's
   enclosing_radius computes, has no point interior to two different placed copies - for all pairs of copies and ALL
   lattice translates *)
Theorem source_scored_disc_packing_has_no_overlap (st : pstateR) (l : list discR) (fmin_ : R) :
  wf_state st -> rigid_inputs st -> p_shape NumR st = Mol l -> Forall (fun d => 0 < dr NumR d) l ->
  p_radius NumR st = gen_mol_radius NumR fmin_ l ->
  gen_packed_score NumR st <> None ->
  forall i j (n m : Z), (i < copies st)%nat -> (j < copies st)%nat ->
  ~ (i = j /\ n = 0%Z /\ m = 0%Z) ->
  forall p : R * R, ~ (in_mol (placed_mol (copy st i) l) p /\ in_mol (placed_mol (image st j n m) l) p).
Proof.
  intros Hwf Hrig Hshape Hpos Hrad Hscore.
  apply (scored_disc_packing_has_no_overlap_computed_radius st l fmin_); try assumption.
  rewrite Hrad, Hshape. cbn [shape_radius].
  destruct (enclosing_radius_is_source NumR fmin_ [] l) as [_ E]. exact E.
Qed.

(* C02: the score the SOURCE's score() returns is the covered fraction of the cell, and it is returned only when the
   SOURCE's check_intersection finds nothing *)
Theorem source_score_is_fraction (st : pstateR) (s : R) :
  gen_packed_score NumR st = Some s ->
  s = p_area NumR st * INR (length (p_sites NumR st) * length (p_syms NumR st)) / gen_cell_area NumR (p_cell NumR st)
  /\ gen_check_intersection NumR st = false.
Proof.
  rewrite packed_score_is_source, check_intersection_is_source. intros H.
  destruct (score_is_fraction st s H) as [E1 E2]. split; [exact E1|exact E2].
Qed.

(* C03: the score the SOURCE's PotentialState::score returns is minus the lattice energy per molecule: the pair sum inside
   the cell plus half the sum over the images - and for a cut potential in a cell that is not too flat, over ANY window
   of at least three shells, i.e. the infinite crystal *)
From PV Require Import proofs.LJFacts proofs.LatticeSumFacts.

Theorem source_lj_score_formula (st : ljstateR) :
  gen_lj_score NumR rpowi st = Some (- (incell_sum st + / 2 * image_sum st) / INR (lj_copies st)).
Proof. rewrite lj_score_is_source. apply lj_score_formula. Qed.

Theorem source_lj_score_is_infinite_lattice_sum (st : ljstateR) (X rho : R) :
  lj_wf st X rho -> forall k : Z, (3 <= k)%Z ->
  gen_lj_score NumR rpowi st = Some (- (incell_sum st + / 2 * image_sum_k st k) / INR (lj_copies st)).
Proof. intros H k Hk. rewrite lj_score_is_source. now apply (lj_score_is_infinite_lattice_sum st X rho). Qed.
