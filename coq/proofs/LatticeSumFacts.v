(* LatticeSumFacts.v - C03: for a cut potential whose range fits inside three shells, the score is the
   lattice energy of the INFINITE crystal: summing the image term over any larger window of shells k >= 3
   gives exactly the same value, because every molecule image outside the three shells is beyond the
   cutoff of every particle pair.  The sufficient condition is explicit:
       cutoff + 2 rho <= 3 sin(angle) min(a, b)       (rho = largest particle offset in the molecule)
   and known finding D14 (beyond-three-shells) is exactly its violation. *)
From Coq Require Import ZArith List Bool Reals Lra Lia Psatz Permutation Rgeom.
From PV Require Import Num NumR model.Geom proofs.RealFacts proofs.LatticeFacts proofs.SiteFacts
  proofs.OverlapFacts proofs.PackingFacts proofs.LJFacts.
Import ListNotations.
Local Open Scope R_scope.

(* ------------------------------------------------------------------ *)
(* sums over lists                                                     *)

Lemma rsum_perm (l m : list R) : Permutation l m -> rsum l = rsum m.
Proof. induction 1; cbn; lra. Qed.

Lemma rsum_filter_zero {A} (g : A -> R) (f : A -> bool) (l : list A) :
  (forall x, In x l -> f x = false -> g x = 0) -> rsum (map g l) = rsum (map g (filter f l)).
Proof.
  induction l as [|x l IH]; intros H; [reflexivity|]. cbn [map rsum filter].
  rewrite IH by (intros y Hy; apply H; now right).
  destruct (f x) eqn:Ef; cbn [map rsum]; [reflexivity|]. rewrite (H x (or_introl eq_refl) Ef). ring.
Qed.

Lemma rsum_flat_map {A B} (g : B -> R) (h : A -> list B) (l : list A) :
  rsum (map g (flat_map h l)) = rsum (map (fun x => rsum (map g (h x))) l).
Proof. induction l as [|x l IH]; [reflexivity|]. cbn [flat_map map rsum]. rewrite map_app, rsum_app, IH. reflexivity. Qed.

Lemma rsum_all_zero {A} (g : A -> R) (l : list A) : (forall x, In x l -> g x = 0) -> rsum (map g l) = 0.
Proof. induction l as [|x l IH]; intros H; [reflexivity|]. cbn [map rsum]. rewrite IH by (intros; apply H; now right). rewrite H by now left. ring. Qed.

(* the window of k shells, restricted to the three inner shells, is the window of three shells *)
Definition in3 (xy : Z * Z) : bool := ((-3 <=? fst xy) && (fst xy <=? 3) && (-3 <=? snd xy) && (snd xy <=? 3))%Z%bool.

Lemma window_restrict (k : Z) : (3 <= k)%Z ->
  Permutation (filter in3 (shell_indices k false)) (shell_indices 3 false).
Proof.
  intros Hk.
  destruct (shell_indices_spec k false) as (Sk & Nk & _); [lia|].
  destruct (shell_indices_spec 3 false) as (S3 & N3 & _); [lia|].
  apply NoDup_Permutation; [apply NoDup_filter; exact Nk|exact N3|].
  intros [n m]. rewrite filter_In, Sk, S3. unfold in3. cbn [fst snd].
  rewrite !andb_true_iff, !Z.leb_le. intuition lia.
Qed.

Lemma window_sum (g : Z * Z -> R) (k : Z) : (3 <= k)%Z ->
  (forall n m, (3 < Z.abs n \/ 3 < Z.abs m)%Z -> g (n, m) = 0) ->
  rsum (map g (shell_indices k false)) = rsum (map g (shell_indices 3 false)).
Proof.
  intros Hk Hz. rewrite (rsum_filter_zero g in3).
  - apply rsum_perm, Permutation_map, window_restrict. exact Hk.
  - intros [n m] _ Hf. apply Hz. unfold in3 in Hf. cbn [fst snd] in Hf.
    rewrite !andb_false_iff, !Z.leb_gt in Hf. lia.
Qed.

(* ------------------------------------------------------------------ *)
(* far particles                                                       *)

Lemma placed_particle_offset (t : tfR) (a : ljR) :
  affine_row t -> rigid t ->
  let a' := lj_transform NumR t a in
  dist_euc (lx NumR a') (ly NumR a') (a02 NumR t) (a12 NumR t) = sqrt (lx NumR a * lx NumR a + ly NumR a * ly NumR a)
  /\ lcut NumR a' = lcut NumR a.
Proof.
  intros Ha (R1 & R2 & R3). cbv zeta. unfold lj_transform. rewrite (tf_apply_affine t _ _ Ha). cbn [lx ly lcut].
  split; [|reflexivity]. unfold dist_euc, Rsqr. f_equal.
  destruct t as [t00 t01 t02 t10 t11 t12 t20 t21 t22], a as [x y sg ep ct]. cbn [a00 a01 a02 a10 a11 a12 lx ly] in *.
  change (carrier NumR) with R in *.
  replace ((t00 * x + t01 * y + t02 - t02) * (t00 * x + t01 * y + t02 - t02) + (t10 * x + t11 * y + t12 - t12) * (t10 * x + t11 * y + t12 - t12))
    with ((t00 * t00 + t10 * t10) * (x * x) + 2 * (t00 * t01 + t10 * t11) * (x * y) + (t01 * t01 + t11 * t11) * (y * y)) by ring.
  rewrite R1, R2, R3. ring.
Qed.

(* two placed particles are at least (centre distance - 2 rho) apart *)
Lemma far_particles (t1 t2 : tfR) (a b : ljR) (rho D : R) :
  affine_row t1 -> affine_row t2 -> rigid t1 -> rigid t2 -> 0 <= D ->
  sqrt (lx NumR a * lx NumR a + ly NumR a * ly NumR a) <= rho ->
  sqrt (lx NumR b * lx NumR b + ly NumR b * ly NumR b) <= rho ->
  (D + 2 * rho) * (D + 2 * rho) < dist2 (a02 NumR t1) (a12 NumR t1) (a02 NumR t2) (a12 NumR t2) ->
  D * D <= r2_of (lj_transform NumR t1 a) (lj_transform NumR t2 b).
Proof.
  intros A1 A2 G1 G2 HD Ha Hb Hfar.
  destruct (placed_particle_offset t1 a A1 G1) as [O1 _]. destruct (placed_particle_offset t2 b A2 G2) as [O2 _].
  cbv zeta in O1, O2.
  set (p := lj_transform NumR t1 a) in *. set (q := lj_transform NumR t2 b) in *.
  assert (Hrho : 0 <= rho) by (pose proof (sqrt_pos (lx NumR a * lx NumR a + ly NumR a * ly NumR a)); lra).
  set (C := dist_euc (a02 NumR t1) (a12 NumR t1) (a02 NumR t2) (a12 NumR t2)).
  assert (HC : D + 2 * rho < C).
  { apply lt_sq_lt; [lra|apply dist_euc_nonneg|unfold C; rewrite dist_euc_sq; exact Hfar]. }
  pose proof (triangle (a02 NumR t1) (a12 NumR t1) (a02 NumR t2) (a12 NumR t2) (lx NumR p) (ly NumR p)) as T1.
  pose proof (triangle (lx NumR p) (ly NumR p) (a02 NumR t2) (a12 NumR t2) (lx NumR q) (ly NumR q)) as T2.
  rewrite (distance_symm (a02 NumR t1) (a12 NumR t1) (lx NumR p) (ly NumR p)) in T1. fold C in T1.
  assert (Hpq : D < dist_euc (lx NumR p) (ly NumR p) (lx NumR q) (ly NumR q)) by lra.
  change (r2_of p q) with (dist2 (lx NumR p) (ly NumR p) (lx NumR q) (ly NumR q)).
  rewrite <- dist_euc_sq. apply Rlt_le. apply Rmult_le_0_lt_compat; lra.
Qed.

(* ------------------------------------------------------------------ *)
(* the window theorem                                                  *)

Section Window.
  Variable st : ljstateR.
  Let cl := l_cell NumR st.
  Let shape := l_shape NumR st.
  Let E : list ljR -> list ljR -> R := ljshape_energy NumR rpowi.
  Let shapes := map (fun p => map (lj_transform NumR p) shape) (lj_cartesian NumR st).

  (* the image term of the score, over a window of k shells instead of 3 *)
  Definition image_shapes_k (k : Z) : list (list ljR) :=
    flat_map (fun pos => map (fun t2 => map (lj_transform NumR t2) shape)
                             (periodic_images NumR cl pos k false))
             (lj_relative NumR st).
  Definition image_sum_k (k : Z) : R :=
    rsum (map (fun s1 => rsum (map (fun s2 => E s1 s2) (image_shapes_k k))) shapes).

  Lemma image_sum_is_3 : image_sum st = image_sum_k 3.
  Proof. reflexivity. Qed.

  Record lj_wf (X rho : R) : Prop := {
    lw_syms : Forall sym_row (l_syms NumR st);
    lw_rigid : Forall rigid (l_syms NumR st);
    lw_site : Forall (fun s => s_cos NumR s * s_cos NumR s + s_sin NumR s * s_sin NumR s = 1) (l_sites NumR st);
    lw_len : 0 < c_len NumR cl;
    lw_ratio : 0 < c_ratio NumR cl;
    lw_sin : 0 < c_sin NumR cl;
    lw_trig : c_cos NumR cl * c_cos NumR cl + c_sin NumR cl * c_sin NumR cl = 1;
    lw_X : 0 <= X;
    lw_rho : 0 <= rho;
    (* every particle has a cutoff of at most X and lies within rho of the molecule's origin *)
    lw_shape : Forall (fun a => (exists x, lcut NumR a = Some x /\ 0 <= x <= X)
                                /\ sqrt (lx NumR a * lx NumR a + ly NumR a * ly NumR a) <= rho) shape;
    (* the potential's range fits inside three shells *)
    lw_range : X + 2 * rho <= 3 * (c_sin NumR cl * Rmin (c_len NumR cl) (c_len NumR cl * c_ratio NumR cl));
  }.

  Variables X rho : R.
  Hypothesis Hwf : lj_wf X rho.

  (* every relative position is an affine, rigid placement inside the canonical cell *)
  Lemma rel_spec (p : tfR) : In p (lj_relative NumR st) ->
    affine_row p /\ rigid p /\ -1/2 <= a02 NumR p < 1/2 /\ -1/2 <= a12 NumR p < 1/2.
  Proof.
    intros Hp. unfold lj_relative in Hp. apply in_flat_map in Hp. destruct Hp as (site & Hsite & Hp).
    rewrite positions_map in Hp. apply in_map_iff in Hp.
    destruct Hp as (sym & <- & Hs).
    pose proof (lw_syms _ _ Hwf) as Hrow. pose proof (lw_rigid _ _ Hwf) as Hrig. pose proof (lw_site _ _ Hwf) as Hcs.
    rewrite Forall_forall in Hrow, Hrig, Hcs.
    destruct (placement_spec sym site (Hrow sym Hs)) as (_ & _ & _ & _ & E02 & E12 & (R0 & R1 & R2')).
    split; [repeat split; auto|]. split; [apply placement_rigid; [now apply Hrow|now apply Hrig|now apply Hcs]|].
    rewrite E02, E12. split; apply wrap_spec.
  Qed.

  Lemma cart_spec (p q : tfR) : affine_row p -> rigid p -> q = to_cartesian_isometry NumR cl p ->
    affine_row q /\ rigid q /\ (a02 NumR q, a12 NumR q) = to_cartesian NumR cl (a02 NumR p, a12 NumR p).
  Proof.
    intros Ha Hr ->. unfold to_cartesian_isometry. rewrite (tf_position_affine p Ha).
    split; [exact Ha|]. split; [exact Hr|]. unfold tf_set_position. cbn [a02 a12].
    symmetry. apply surjective_pairing.
  Qed.

  Lemma image_spec (p q : tfR) (n m : Z) : affine_row p -> rigid p -> q = to_cartesian_translate NumR cl p n m ->
    affine_row q /\ rigid q /\ (a02 NumR q, a12 NumR q) = to_cartesian NumR cl (a02 NumR p + IZR n, a12 NumR p + IZR m).
  Proof.
    intros Ha Hr ->. unfold to_cartesian_translate. rewrite (tf_position_affine p Ha).
    cbn [nadd nofZ NumR].
    split; [exact Ha|]. split; [exact Hr|]. unfold tf_set_position. cbn [a02 a12].
    symmetry. apply surjective_pairing.
  Qed.

  (* a molecule image outside the three shells does not interact with any copy in the cell *)
  Lemma outside_three_no_energy (p1 p2 : tfR) (n m : Z) :
    In p1 (lj_relative NumR st) -> In p2 (lj_relative NumR st) ->
    (3 < Z.abs n \/ 3 < Z.abs m)%Z ->
    E (map (lj_transform NumR (to_cartesian_isometry NumR cl p1)) shape)
      (map (lj_transform NumR (to_cartesian_translate NumR cl p2 n m)) shape) = 0.
  Proof.
    intros H1 H2 Hout.
    destruct (rel_spec p1 H1) as (A1 & G1 & X1 & Y1). destruct (rel_spec p2 H2) as (A2 & G2 & X2 & Y2).
    remember (to_cartesian_isometry NumR cl p1) as q1 eqn:Eq1.
    remember (to_cartesian_translate NumR cl p2 n m) as q2 eqn:Eq2.
    destruct (cart_spec p1 q1 A1 G1 Eq1) as (B1 & K1 & P1). destruct (image_spec p2 q2 n m A2 G2 Eq2) as (B2 & K2 & P2).
    clear Eq1 Eq2.
    (* the centres are further apart than X + 2 rho *)
    assert (Hfar : (X + 2 * rho) * (X + 2 * rho) < dist2 (a02 NumR q1) (a12 NumR q1) (a02 NumR q2) (a12 NumR q2)).
    { rewrite to_cartesian_R in P1, P2. injection P1 as -> ->. injection P2 as -> ->.
      unfold vecA, vecB, dist2. cbn [fst snd]. fold cl.
      pose proof (lw_len _ _ Hwf) as Hlen. pose proof (lw_ratio _ _ Hwf) as Hrat. pose proof (lw_sin _ _ Hwf) as Hsin.
      pose proof (lw_trig _ _ Hwf) as Htrig. pose proof (lw_range _ _ Hwf) as Hrange. pose proof (lw_X _ _ Hwf) as HX.
      pose proof (lw_rho _ _ Hwf) as Hrho.
      set (a := c_len NumR cl) in *. set (r := c_ratio NumR cl) in *. set (c := c_cos NumR cl) in *. set (s := c_sin NumR cl) in *.
      set (fx1 := a02 NumR p1) in *. set (fy1 := a12 NumR p1) in *. set (fx2 := a02 NumR p2) in *. set (fy2 := a12 NumR p2) in *.
      clearbody a r c s fx1 fy1 fx2 fy2. change (carrier NumR) with R in *.
      set (u := fx1 - (fx2 + IZR n)). set (v := fy1 - (fy2 + IZR m)).
      replace ((fx1 * a + fy1 * (a * r * c) - ((fx2 + IZR n) * a + (fy2 + IZR m) * (a * r * c))) *
               (fx1 * a + fy1 * (a * r * c) - ((fx2 + IZR n) * a + (fy2 + IZR m) * (a * r * c))) +
               (fx1 * 0 + fy1 * (a * r * s) - ((fx2 + IZR n) * 0 + (fy2 + IZR m) * (a * r * s))) *
               (fx1 * 0 + fy1 * (a * r * s) - ((fx2 + IZR n) * 0 + (fy2 + IZR m) * (a * r * s))))
        with ((u * a + v * (a * r * c)) * (u * a + v * (a * r * c)) + (v * (a * r * s)) * (v * (a * r * s)))
        by (unfold u, v; ring).
      assert (Hb : 0 < a * r) by (apply Rmult_lt_0_compat; assumption).
      apply (far_image_is_far a (a * r) c s u v 3 (X + 2 * rho)); try assumption; try lra.
      assert (Habs : forall (z : Z) (f g : R), -1/2 <= f < 1/2 -> -1/2 <= g < 1/2 -> (3 < Z.abs z)%Z -> 3 < Rabs (f - (g + IZR z))).
      { intros z f g Hf Hg Hz.
        assert (H4 : 4 <= Rabs (IZR z)) by (rewrite <- abs_IZR; apply IZR_le; lia).
        destruct (Rcase_abs (IZR z)) as [Hz0|Hz0].
        - rewrite Rabs_left in H4 by exact Hz0. rewrite Rabs_right by lra. lra.
        - rewrite Rabs_right in H4 by exact Hz0. rewrite Rabs_left by lra. lra. }
      destruct Hout as [Hn|Hm]; [left|right]; unfold u, v; apply Habs; assumption. }
    (* so every particle pair is beyond its cutoff *)
    unfold E. rewrite molecule_energy_is_pair_sum. apply rsum_all_zero. intros a' Ha'.
    apply rsum_all_zero. intros b' Hb'. apply in_map_iff in Ha', Hb'.
    destruct Ha' as (a0 & <- & Ha0), Hb' as (b0 & <- & Hb0).
    pose proof (lw_shape _ _ Hwf) as Hs. rewrite Forall_forall in Hs.
    destruct (Hs a0 Ha0) as [(x & Hc & Hx) Hra]. destruct (Hs b0 Hb0) as [_ Hrb].
    apply (lj_zero_beyond _ _ x).
    - destruct (placed_particle_offset q1 a0 B1 K1) as [_ Hcut]. cbv zeta in Hcut. rewrite Hcut. exact Hc.
    - apply Rle_trans with (X * X); [apply Rmult_le_compat; lra|].
      apply (far_particles q1 q2 a0 b0 rho X); try assumption. apply (lw_X _ _ Hwf).
  Qed.

  (* C03: the image term does not depend on the window once it covers three shells *)
  Theorem image_sum_window_independent (k : Z) : (3 <= k)%Z -> image_sum_k k = image_sum_k 3.
  Proof.
    intros Hk. unfold image_sum_k, shapes, lj_cartesian. rewrite !map_map.
    apply f_equal. apply map_ext_in. intros p1 Hp1.
    unfold image_shapes_k. rewrite !rsum_flat_map. apply f_equal. apply map_ext_in. intros p2 Hp2.
    unfold periodic_images. rewrite !map_map.
    apply (window_sum (fun xy => E (map (lj_transform NumR (to_cartesian_isometry NumR cl p1)) shape)
                                   (map (lj_transform NumR (to_cartesian_translate NumR cl p2 (fst xy) (snd xy))) shape)) k Hk).
    intros n m Hout. cbn [fst snd]. apply outside_three_no_energy; assumption.
  Qed.

  (* C03: the score is the lattice energy per molecule of the infinite crystal: for every window k >= 3 *)
  Theorem lj_score_is_infinite_lattice_sum (k : Z) : (3 <= k)%Z ->
    lj_score NumR rpowi st = Some (- (incell_sum st + / 2 * image_sum_k k) / INR (lj_copies st)).
  Proof.
    intros Hk. rewrite lj_score_formula, image_sum_is_3, (image_sum_window_independent k Hk). reflexivity.
  Qed.
End Window.

(* the hypotheses are satisfiable: a cut disc (cutoff 7/2) in a p1 square cell of side 10 *)
Definition example_lj_state : ljstateR :=
  mkLjstate [@mkTf NumR 1 0 0 0 1 0 0 0 0] [@mkSite NumR 0 0 1 0] (@mkCell NumR 10 1 0 1)
            [@mkLj NumR 0 0 1 1 (Some (7/2))].

Example example_lj_state_wf : lj_wf example_lj_state (7/2) 0.
Proof.
  constructor; cbn [example_lj_state l_syms l_sites l_cell l_shape s_cos s_sin c_len c_ratio c_sin c_cos];
    change (carrier NumR) with R; try lra.
  - repeat constructor.
  - constructor; [|constructor]. unfold rigid. cbn [a00 a01 a10 a11]. change (carrier NumR) with R. lra.
  - constructor; [|constructor]. cbn [s_cos s_sin]. change (carrier NumR) with R. lra.
  - constructor; [|constructor]. cbn [lcut lx ly]. split; [exists (7/2); split; [reflexivity|lra]|].
    change (carrier NumR) with R. replace (0 * 0 + 0 * 0) with 0 by ring. rewrite sqrt_0. lra.
  - rewrite Rmin_left by lra. lra.
Qed.
