(* EnclosedFacts.v - C01 for convex polygons: a closed convex polygon lies within the circle that contains its
   vertices, so two such polygons whose centres are further apart than twice that radius share no interior
   point - the step that lets the periodic check skip far images.  Over the reals.
   Proof: if an interior point x were further from the centre c than every vertex, the ray from x away from c
   could never leave the polygon (an exit point lies on an edge, i.e. between two vertices, hence nearer to c
   along the ray's direction); then no edge turns towards the ray, the edge vectors of a closed polygon sum to
   zero, so all edges are parallel to the ray - impossible for a convex polygon. *)
From Coq Require Import ZArith List Bool Reals Lra Lia Psatz.
From PV Require Import Num NumR model.Geom proofs.OverlapFacts proofs.ConvexFacts.
Import ListNotations.
Local Open Scope R_scope.

Definition dotp (u p : pt) : R := fst u * fst p + snd u * snd p.
Definition dirD (sigma : R) (e : segR) (u : pt) : R :=
  sigma * ((sx2 NumR e - sx1 NumR e) * snd u - (sy2 NumR e - sy1 NumR e) * fst u).
Definition shift (x u : pt) (t : R) : pt := (fst x + t * fst u, snd x + t * snd u).

Lemma side_shift sigma e x u t : side sigma e (shift x u t) = side sigma e x + t * dirD sigma e u.
Proof. unfold side, shift, dirD. cbn [fst snd]. ring. Qed.

Lemma shift_is_lerp x u t : shift x u t = lerp x (shift x u 1) t.
Proof. unfold shift, lerp. cbn [fst snd]. f_equal; ring. Qed.

Lemma dotp_lerp u a b s : dotp u (lerp a b s) = (1 - s) * dotp u a + s * dotp u b.
Proof. unfold dotp, lerp. cbn [fst snd]. ring. Qed.

Lemma dotp_shift u x t : dotp u (shift x u t) = dotp u x + t * (fst u * fst u + snd u * snd u).
Proof. unfold dotp, shift. cbn [fst snd]. ring. Qed.

(* every end of an edge is the start of an edge *)
Lemma ends_are_starts sigma P : convex sigma P -> forall e, In e P -> exists e', In e' P /\ seg_start e' = seg_end e.
Proof. intros Hcv e He. destruct (cv_next sigma P Hcv e He) as (en & Hen & E & _). exists en. auto. Qed.

(* the ray from an interior point, in a direction in which every vertex lies behind that point, stays inside *)
Lemma ray_stays_inside sigma P x u :
  convex sigma P -> strictly_inside sigma P x ->
  (forall e, In e P -> dotp u (seg_start e) < dotp u x) ->
  forall t, 0 <= t -> strictly_inside sigma P (shift x u t).
Proof.
  intros Hcv Hin Hbehind t Ht.
  destruct (strictly_inside_dec sigma P (shift x u t)) as [H|H]; [exact H|exfalso].
  apply not_strict_exists in H.
  destruct (exit_through_an_edge sigma P x (shift x u t) Hcv Hin H) as (e & tau & s & He & Htau & Hs & Heq & _).
  assert (Hends : dotp u (seg_end e) < dotp u x).
  { destruct (ends_are_starts sigma P Hcv e He) as (e' & He' & E). rewrite <- E. now apply Hbehind. }
  pose proof (Hbehind e He) as Hst.
  assert (E1 : dotp u (lerp x (shift x u t) tau) = dotp u x + tau * t * (fst u * fst u + snd u * snd u)).
  { rewrite dotp_lerp, dotp_shift. ring. }
  assert (E2 : dotp u (lerp (seg_start e) (seg_end e) s) < dotp u x).
  { rewrite dotp_lerp. destruct Hs as [H0 H1]. destruct (Req_dec s 0) as [->|Hs0]; [lra|]. nra. }
  rewrite <- Heq, E1 in E2.
  assert (0 <= tau * t * (fst u * fst u + snd u * snd u)).
  { apply Rmult_le_pos; [apply Rmult_le_pos; lra|]. pose proof (Rle_0_sqr (fst u)). pose proof (Rle_0_sqr (snd u)). unfold Rsqr in *. lra. }
  lra.
Qed.

(* ... so no edge turns towards that direction *)
Lemma no_edge_turns_in sigma P x u :
  convex sigma P -> strictly_inside sigma P x ->
  (forall e, In e P -> dotp u (seg_start e) < dotp u x) ->
  forall e, In e P -> 0 <= dirD sigma e u.
Proof.
  intros Hcv Hin Hb e He. destruct (Rle_lt_dec 0 (dirD sigma e u)) as [|Hneg]; [assumption|exfalso].
  set (t := side sigma e x / (- dirD sigma e u) + 1).
  assert (Hsx : 0 < side sigma e x) by now apply Hin.
  assert (Ht : 0 <= t).
  { unfold t. assert (0 < side sigma e x / - dirD sigma e u) by (apply Rdiv_lt_0_compat; lra). lra. }
  pose proof (ray_stays_inside sigma P x u Hcv Hin Hb t Ht e He) as H. rewrite side_shift in H.
  assert (E : t * dirD sigma e u = - side sigma e x + dirD sigma e u) by (unfold t; field; lra).
  rewrite E in H. lra.
Qed.

(* the edge vectors of a closed chain sum to zero *)
Fixpoint sum_dx (l : list segR) : R := match l with [] => 0 | e :: r => (sx2 NumR e - sx1 NumR e) + sum_dx r end.
Fixpoint sum_dy (l : list segR) : R := match l with [] => 0 | e :: r => (sy2 NumR e - sy1 NumR e) + sum_dy r end.

Lemma linked_telescopes (e : segR) (r : list segR) :
  linked (e :: r) ->
  sum_dx (e :: r) = sx2 NumR (last r e) - sx1 NumR e /\ sum_dy (e :: r) = sy2 NumR (last r e) - sy1 NumR e.
Proof.
  revert e. induction r as [|e' r IH]; intros e Hl.
  - cbn. split; ring.
  - cbn [linked] in Hl. destruct Hl as [E Hl]. destruct (IH e' Hl) as [Hx Hy].
    rewrite last_cons.
    change (sum_dx (e :: e' :: r)) with ((sx2 NumR e - sx1 NumR e) + sum_dx (e' :: r)).
    change (sum_dy (e :: e' :: r)) with ((sy2 NumR e - sy1 NumR e) + sum_dy (e' :: r)).
    rewrite Hx, Hy. unfold seg_end, seg_start in E. injection E as Ex Ey. rewrite Ex, Ey. split; ring.
Qed.

Lemma closed_sums_zero (P : list segR) : closed P -> sum_dx P = 0 /\ sum_dy P = 0.
Proof.
  intros [Hl Hc]. destruct P as [|e r]; [cbn; auto|].
  destruct (linked_telescopes e r Hl) as [Hx Hy]. rewrite Hx, Hy.
  unfold seg_end, seg_start in Hc. injection Hc as Ex Ey. rewrite Ex, Ey. split; ring.
Qed.

Fixpoint sum_D (sigma : R) (u : pt) (l : list segR) : R :=
  match l with [] => 0 | e :: r => dirD sigma e u + sum_D sigma u r end.

Lemma sum_D_formula sigma u l : sum_D sigma u l = sigma * (sum_dx l * snd u - sum_dy l * fst u).
Proof. induction l as [|e r IH]; cbn [sum_D sum_dx sum_dy]; [ring|]. rewrite IH. unfold dirD. ring. Qed.

Lemma nonneg_sum_zero sigma u l :
  (forall e, In e l -> 0 <= dirD sigma e u) -> sum_D sigma u l = 0 -> forall e, In e l -> dirD sigma e u = 0.
Proof.
  induction l as [|a r IH]; intros Hpos Hsum e He; [destruct He|].
  cbn [sum_D] in Hsum.
  assert (Hr : 0 <= sum_D sigma u r).
  { clear -Hpos. induction r as [|b r IH]; cbn [sum_D]; [lra|].
    assert (0 <= dirD sigma b u) by (apply Hpos; right; now left).
    assert (0 <= sum_D sigma u r) by (apply IH; intros e [->|H0]; apply Hpos; [now left|right; now right]). lra. }
  assert (Ha : 0 <= dirD sigma a u) by (apply Hpos; now left).
  destruct He as [<-|He]; [lra|]. apply IH; auto; [intros e0 H0; apply Hpos; now right|lra].
Qed.

(* C01: a closed convex polygon lies within every circle that contains its vertices *)
Theorem inside_within_radius sigma P (c x : pt) (Rad : R) :
  convex sigma P -> closed P -> P <> [] -> 0 <= Rad ->
  (forall e, In e P -> (fst (seg_start e) - fst c) * (fst (seg_start e) - fst c)
                       + (snd (seg_start e) - snd c) * (snd (seg_start e) - snd c) <= Rad * Rad) ->
  strictly_inside sigma P x ->
  (fst x - fst c) * (fst x - fst c) + (snd x - snd c) * (snd x - snd c) <= Rad * Rad.
Proof.
  intros Hcv Hcl Hne HR Hv Hin.
  destruct (Rle_lt_dec ((fst x - fst c) * (fst x - fst c) + (snd x - snd c) * (snd x - snd c)) (Rad * Rad)) as [|Hfar]; [assumption|exfalso].
  set (u := (fst x - fst c, snd x - snd c)).
  assert (Huu : Rad * Rad < fst u * fst u + snd u * snd u) by exact Hfar.
  (* every vertex lies behind x in the direction u *)
  assert (Hb : forall e, In e P -> dotp u (seg_start e) < dotp u x).
  { intros e He. specialize (Hv e He). set (wx := fst (seg_start e) - fst c) in *. set (wy := snd (seg_start e) - snd c) in *.
    assert (E : dotp u x - dotp u (seg_start e) = (fst u * fst u + snd u * snd u) - (fst u * wx + snd u * wy))
      by (unfold dotp, u, wx, wy; cbn [fst snd]; ring).
    assert (Hcs : (fst u * wx + snd u * wy) * (fst u * wx + snd u * wy) <= (fst u * fst u + snd u * snd u) * (wx * wx + wy * wy)).
    { pose proof (Rle_0_sqr (fst u * wy - snd u * wx)) as Hq. unfold Rsqr in Hq. nra. }
    set (U := fst u * fst u + snd u * snd u) in *. set (W := wx * wx + wy * wy) in *. set (d := fst u * wx + snd u * wy) in *.
    destruct (Rlt_le_dec d U) as [|Hge]; [lra|exfalso].
    assert (0 <= U) by (unfold U; pose proof (Rle_0_sqr (fst u)); pose proof (Rle_0_sqr (snd u)); unfold Rsqr in *; lra).
    assert (U * U <= d * d) by (apply Rmult_le_compat; lra).
    assert (U * W <= U * (Rad * Rad)) by (apply Rmult_le_compat_l; lra).
    assert (U * (Rad * Rad) < U * U) by (apply Rmult_lt_compat_l; nra).
    lra. }
  pose proof (no_edge_turns_in sigma P x u Hcv Hin Hb) as Hpos.
  destruct (closed_sums_zero P Hcl) as [Sx Sy].
  assert (Hsum : sum_D sigma u P = 0) by (rewrite sum_D_formula, Sx, Sy; ring).
  pose proof (nonneg_sum_zero sigma u P Hpos Hsum) as Hzero.
  (* two consecutive edges would both be parallel to u *)
  destruct P as [|e0 r]; [now elim Hne|].
  destruct (cv_prev sigma _ Hcv e0 (or_introl eq_refl)) as (ep & Hep & Eep & Hturn).
  pose proof (Hzero e0 (or_introl eq_refl)) as D0. pose proof (Hzero ep Hep) as Dp.
  destruct (cv_sigma sigma _ Hcv) as [Hs|Hs]; subst sigma;
    unfold dirD, side, seg_end, seg_start in *; injection Eep as Ex Ey;
    destruct e0 as [a1 b1 a2 b2], ep as [p1 q1 p2 q2]; cbn [sx1 sy1 sx2 sy2 fst snd] in *; change (carrier NumR) with R in *; subst p2 q2.
  all: set (ux := fst u) in *; set (uy := snd u) in *; clearbody ux uy.
  all: assert (Hid : ((a1 - p1) * (b2 - b1) - (b1 - q1) * (a2 - a1)) * (ux * ux + uy * uy)
                    = ((a1 - p1) * uy - (b1 - q1) * ux) * ((a2 - a1) * ux + (b2 - b1) * uy)
                      - ((a2 - a1) * uy - (b2 - b1) * ux) * ((a1 - p1) * ux + (b1 - q1) * uy)) by ring.
  all: assert (Hc0 : (a1 - p1) * uy - (b1 - q1) * ux = 0) by lra.
  all: assert (Hc1 : (a2 - a1) * uy - (b2 - b1) * ux = 0) by lra.
  all: rewrite Hc0, Hc1 in Hid.
  all: assert (Hcross : (a1 - p1) * (b2 - b1) - (b1 - q1) * (a2 - a1) = 0) by nra.
  all: nra.
Qed.
