(* StepFacts.v - C19 over the reals for EVERY reachable state of every run: the step ratio lies in [0, 1], so the
   move a proposal makes on a parameter inside its range is at most max_step x (range) / 2. *)
From Coq Require Import ZArith NArith List Bool Reals Lra Lia.
From PV Require Import Num NumR model.Optimiser model.OptSpec proofs.OptStruct proofs.OptLoop proofs.RealFacts.
Local Open Scope R_scope.

Lemma R_ofN_nonneg (n : N) : 0 <= ofN NumR n.
Proof. rewrite R_ofN. apply pos_INR. Qed.

Theorem R_Hnn : forall (x : carrier NumR) (i r : N),
  nleb (n0 (NN:=NumR)) x = true ->
  nleb (n0 (NN:=NumR)) (nmin (nmul x (ndiv (ofN NumR i) (nadd (ofN NumR r) n1))) n1) = true.
Proof.
  intros x i r H. cbn [nleb nmul ndiv nadd NumR] in *. apply Rleb_true in H. apply Rleb_true.
  change (n0 (NN:=NumR)) with 0 in *. change (n1 (NN:=NumR)) with 1.
  rewrite R_nmin_Rmin.
  pose proof (R_ofN_nonneg i) as Hi. pose proof (R_ofN_nonneg r) as Hr.
  assert (Hq : 0 <= ofN NumR i / (ofN NumR r + 1)).
  { apply Rmult_le_pos; [exact Hi|]. apply Rlt_le, Rinv_0_lt_compat. lra. }
  apply Rmin_glb; [|lra]. now apply Rmult_le_pos.
Qed.

Theorem R_Hone0 : nleb (n0 : carrier NumR) n1 = true.
Proof. apply Rleb_true. change (n0 (NN:=NumR)) with 0. change (n1 (NN:=NumR)) with 1. lra. Qed.

Section Run.
  Variable fexp : R -> R.
  Variable score : N -> list R -> option R.

  (* the step ratio of every reachable state lies in [0, 1] *)
  Theorem R_ratio_in_unit_interval : forall c ps hs s0 draws,
    0 <= ratio NumR (run NumR fexp score c (init NumR c ps hs s0) draws) <= 1.
  Proof.
    intros c ps hs s0 draws. split.
    - pose proof (C19_ratio_nonneg NumR fexp score R_Hnn R_Hone0 c ps hs s0 draws) as H.
      apply Rleb_true in H. exact H.
    - pose proof (C19_ratio_le_one NumR fexp score R_Hmin R_Hone c ps hs s0 draws) as H.
      apply Rleb_true in H. exact H.
  Qed.

  (* C19: whatever the history, a proposal moves a parameter that lies inside its range by at most
     max_step x (range) / 2 *)
  Theorem R_C19_every_move_bounded : forall c ps hs s0 draws (h : handle NumR) (v g : R),
    let st := run NumR fexp score c (init NumR c ps hs s0) draws in
    h_min NumR h <= v <= h_max NumR h -> Rabs g <= 1 / 2 -> 0 <= max_step NumR c ->
    Rabs (nclamp (NN:=NumR) (h_min NumR h) (h_max NumR h)
            (sample NumR h v (nmul (max_step NumR c) (ratio NumR st)) g) - v)
    <= max_step NumR c * (h_max NumR h - h_min NumR h) / 2.
  Proof.
    intros c ps hs s0 draws h v g st Hv Hg Hms.
    destruct (R_ratio_in_unit_interval c ps hs s0 draws) as [H0 H1]. fold st in H0, H1.
    apply (R_C19_move_le_max h v _ g (max_step NumR c) (ratio NumR st)); try assumption.
    - cbn [nmul NumR]. now apply Rmult_le_pos.
    - split; assumption.
    - reflexivity.
  Qed.
End Run.

(* C19 on the operation the SOURCE's loop body performs (SrcOpt.mc_step_is_source: the proposal of a step is
   w_set_sampled on the drawn handle with step max_step * step_ratio): in every reachable state of every run, for every
   draw, the one parameter it changes moves by at most max_step x (range) / 2, and no other parameter moves *)
Section SourceStep.
  Variable fexp : R -> R.
  Variable score : N -> list R -> option R.

  Lemma nth_set_nth_other (l : list R) i k v d : i <> k -> nth k (set_nth l i v) d = nth k l d.
  Proof.
    revert i k. induction l as [|x l IH]; intros [|i] [|k] H; cbn; try reflexivity; try congruence.
    apply IH. congruence.
  Qed.

  Lemma nth_set_nth_eq (l : list R) i v d : (i < length l)%nat -> nth i (set_nth l i v) d = v.
  Proof. revert i. induction l as [|x xs IH]; intros [|i] H; cbn in *; try lia; auto. apply IH. lia. Qed.

  Theorem R_C19_source_proposal_bounded : forall c ps hs s0 draws (d : draw NumR) (h : handle NumR) (w' : world NumR),
    let st := run NumR fexp score c (init NumR c ps hs s0) draws in
    let w := mkWorld (params NumR st) (handles NumR st) (calls NumR st) in
    nth_error (handles NumR st) (d_idx NumR d) = Some h ->
    (h_cell NumR h < length (params NumR st))%nat ->
    h_min NumR h <= nth (h_cell NumR h) (params NumR st) 0 <= h_max NumR h ->
    Rabs (d_g NumR d) <= 1 / 2 -> 0 <= max_step NumR c ->
    w_set_sampled NumR w (d_idx NumR d) (nmul (max_step NumR c) (ratio NumR st)) (d_g NumR d) = Some w' ->
    Rabs (nth (h_cell NumR h) (w_params NumR w') 0 - nth (h_cell NumR h) (params NumR st) 0)
      <= max_step NumR c * (h_max NumR h - h_min NumR h) / 2
    /\ forall k, k <> h_cell NumR h -> nth k (w_params NumR w') 0 = nth k (params NumR st) 0.
  Proof.
    intros c ps hs s0 draws d h w' st w Hh Hlen Hin Hg Hms Hw.
    unfold w_set_sampled in Hw. cbn [w_handles w_params w_calls w] in Hw. rewrite Hh in Hw. injection Hw as <-.
    cbn [w_params]. split.
    - rewrite nth_set_nth_eq by exact Hlen. unfold get_cell.
      apply (R_C19_every_move_bounded fexp score c ps hs s0 draws h _ (d_g NumR d)); assumption.
    - intros k Hk. apply nth_set_nth_other. congruence.
  Qed.
End SourceStep.
