(* StepFacts.v - C19 over the reals for EVERY reachable state of every run: the step ratio lies in [0, 1], so the
   move a proposal makes on a parameter inside its range is at most max_step x (range) / 2. *)
From Coq Require Import ZArith NArith List Bool Reals Lra Lia.
From PV Require Import Num NumR model.Optimiser model.OptSpec proofs.OptStruct proofs.OptLoop proofs.RealFacts.
Local Open Scope R_scope.

Lemma R_ofN_nonneg (n : N) : 0 <= ofN NumR n.
Proof. rewrite R_ofN. apply pos_INR. Qed.

Theorem R_Hnn : forall (x : carrier NumR) (i r : N),
  nleb (n0 (NN:=NumR)) x = true ->
  nleb (n0 (NN:=NumR)) (nmin (nmul x (ndiv (ofN NumR i) (nadd (ofN NumR r) n1))) n1) = true.
Proof.
  intros x i r H. cbn [nleb nmul ndiv nadd NumR] in *. apply Rleb_true in H. apply Rleb_true.
  change (n0 (NN:=NumR)) with 0 in *. change (n1 (NN:=NumR)) with 1.
  rewrite R_nmin_Rmin.
  pose proof (R_ofN_nonneg i) as Hi. pose proof (R_ofN_nonneg r) as Hr.
  assert (Hq : 0 <= ofN NumR i / (ofN NumR r + 1)).
  { apply Rmult_le_pos; [exact Hi|]. apply Rlt_le, Rinv_0_lt_compat. lra. }
  apply Rmin_glb; [|lra]. now apply Rmult_le_pos.
Qed.

Theorem R_Hone0 : nleb (n0 : carrier NumR) n1 = true.
Proof. apply Rleb_true. change (n0 (NN:=NumR)) with 0. change (n1 (NN:=NumR)) with 1. lra. Qed.

Section Run.
  Variable fexp : R -> R.
  Variable score : N -> list R -> option R.

  (* the step ratio of every reachable state lies in [0, 1] *)
  Theorem R_ratio_in_unit_interval : forall c ps hs s0 draws,
    0 <= ratio NumR (run NumR fexp score c (init NumR c ps hs s0) draws) <= 1.
  Proof.
    intros c ps hs s0 draws. split.
    - pose proof (C19_ratio_nonneg NumR fexp score R_Hnn R_Hone0 c ps hs s0 draws) as H.
      apply Rleb_true in H. exact H.
    - pose proof (C19_ratio_le_one NumR fexp score R_Hmin R_Hone c ps hs s0 draws) as H.
      apply Rleb_true in H. exact H.
  Qed.

  (* C19: whatever the history, a proposal moves a parameter that lies inside its range by at most
     max_step x (range) / 2 *)
  Theorem R_C19_every_move_bounded : forall c ps hs s0 draws (h : handle NumR) (v g : R),
    let st := run NumR fexp score c (init NumR c ps hs s0) draws in
    h_min NumR h <= v <= h_max NumR h -> Rabs g <= 1 / 2 -> 0 <= max_step NumR c ->
    Rabs (nclamp (NN:=NumR) (h_min NumR h) (h_max NumR h)
            (sample NumR h v (nmul (max_step NumR c) (ratio NumR st)) g) - v)
    <= max_step NumR c * (h_max NumR h - h_min NumR h) / 2.
  Proof.
    intros c ps hs s0 draws h v g st Hv Hg Hms.
    destruct (R_ratio_in_unit_interval c ps hs s0 draws) as [H0 H1]. fold st in H0, H1.
    apply (R_C19_move_le_max h v _ g (max_step NumR c) (ratio NumR st)); try assumption.
    - cbn [nmul NumR]. now apply Rmult_le_pos.
    - split; assumption.
    - reflexivity.
  Qed.
End Run.
