(* SourceHeadlinesOpt.v - headline statements of C05 and C20 restated about optimise_state and build AS ASSEMBLED FROM THE
   PIECES TRANSLATED FROM THE SOURCE on this run (SrcOpt.v: src_optimise, src_advance, src_init, gen_build). *)
From Coq Require Import ZArith NArith List Bool Floats.
From PV Require Import Num model.Optimiser model.OptSpec gen.GenFns proofs.OptStruct proofs.OptLoop proofs.FloatFacts
     proofs.HillClimb proofs.SrcOpt.

(* C20: for a valid input, draws within range and at least as many draws as the work requested, the optimiser assembled
   from the source's pieces returns normally with a state whose held score is the score of its parameters *)
Theorem source_optimise_returns :
  forall (NN : Num) (fexp : carrier NN -> carrier NN) (score : N -> list (carrier NN) -> option (carrier NN)),
    (forall (k k' : N) (ps : list (carrier NN)), score k ps = score k' ps) ->
    forall (c : cfg NN) (ps : list (carrier NN)) (hs : list (handle NN)) (s0 : carrier NN) (draws : list (draw NN)),
      score 0%N ps = Some s0 -> draws_in_range NN (length hs) draws ->
      (work NN c <= N.of_nat (length draws))%N ->
      exists st : ost NN, src_optimise NN fexp score c ps hs draws = Returned NN st
                          /\ score 0%N (params NN st) = Some (score_cur NN st).
Proof.
  intros NN fexp score Hpure c ps hs s0 draws H0 Hr Hw.
  destruct (OptLoop.C20_optimise_returns NN fexp score Hpure c ps hs s0 draws H0 Hr Hw) as (st & E & _ & Hs).
  exists st. rewrite <- optimise_state_is_the_source_pieces. auto.
Qed.

(* C05: with the configuration the SOURCE's build() gives for a starting temperature of zero (either sign), along the
   run assembled from the source's pieces the held score never decreases - whatever the other settings are *)
Theorem source_zero_temperature_is_hill_climb :
  forall (fexp : F -> F) (fpow : F -> F -> F) (score : N -> list F -> option F),
    fexp neg_infinity = 0%float ->
    forall (b : builder NumF) (ps : list (carrier NumF)) (hs : list (handle NumF)) (s0 : F) (draws1 draws2 : list (draw NumF)),
      zero_start b -> fnan s0 = false -> Forall thr_ok (draws1 ++ draws2) ->
      let c := gen_build NumF fpow b in
      let mid := fold_left (src_advance NumF fexp score c) draws1 (src_init NumF c ps hs s0) in
      let fin := fold_left (src_advance NumF fexp score c) (draws1 ++ draws2) (src_init NumF c ps hs s0) in
      fleb s0 (score_cur NumF mid) = true /\ fleb (score_cur NumF mid) (score_cur NumF fin) = true.
Proof.
  intros fexp fpow score Hexp b ps hs s0 d1 d2 Hz Hn Ht c mid fin.
  unfold mid, fin, c. rewrite !src_run_is_run, build_is_source.
  change (src_init NumF (build NumF fpow b) ps hs s0) with (init NumF (build NumF fpow b) ps hs s0).
  exact (HillClimb.C05_zero_temperature_is_hill_climb fexp fpow score Hexp b ps hs s0 d1 d2 Hz Hn Ht).
Qed.

(* C18: along the run assembled from the source's pieces the temperature is kt_start x factor^(loops done) *)
Theorem source_kt_schedule :
  forall (NN : Num) (fexp : carrier NN -> carrier NN) (score : N -> list (carrier NN) -> option (carrier NN))
         (c : cfg NN) (ps : list (carrier NN)) (hs : list (handle NN)) (s0 : carrier NN) (draws : list (draw NN)),
    kt_inv NN c (fold_left (src_advance NN fexp score c) draws (src_init NN c ps hs s0)).
Proof.
  intros NN fexp score c ps hs s0 draws. rewrite src_run_is_run.
  change (src_init NN c ps hs s0) with (init NN c ps hs s0). apply OptLoop.C18_kt_schedule.
Qed.

(* C06: the state and score held after the run assembled from the source's pieces are those of the last accepted
   proposal (or the input's, if none was accepted) *)
Theorem source_result_is_last_accepted :
  forall (NN : Num) (fexp : carrier NN -> carrier NN) (score : N -> list (carrier NN) -> option (carrier NN))
         (c : cfg NN) (draws : list (draw NN)) (st : ost NN),
    let st' := fold_left (src_advance NN fexp score c) draws st in
    params NN st' = last (map fst (accepts NN fexp score c st draws)) (params NN st)
    /\ score_cur NN st' = last (map snd (accepts NN fexp score c st draws)) (score_cur NN st).
Proof.
  intros NN fexp score c draws st st'. unfold st'. rewrite src_run_is_run.
  apply OptStruct.C06_result_is_last_accepted.
Qed.

(* C20: as long as it has not stopped, the run assembled from the source's pieces WITH a convergence threshold agrees with
   the run without it (the prefix property the twin-run monitor of the harness tests on the implementation) *)
From PV Require Import proofs.OptConv.
Theorem source_convergence_prefix :
  forall (NN : Num) (fexp : carrier NN -> carrier NN) (score : N -> list (carrier NN) -> option (carrier NN))
         (c : cfg NN) (eps : carrier NN) (draws : list (draw NN)),
    conv NN c = Some eps ->
    forall a b : ost NN, agree NN a b -> conv_fin NN a ->
      converged NN (fold_left (src_advance NN fexp score c) draws a) = false ->
      agree NN (fold_left (src_advance NN fexp score c) draws a)
               (fold_left (src_advance NN fexp score (no_conv NN c)) draws b).
Proof.
  intros NN fexp score c eps draws Hc a b Hab Hfin Hconv. rewrite !src_run_is_run in *.
  exact (OptConv.C20_convergence_prefix NN fexp score c eps draws Hc a b Hab Hfin Hconv).
Qed.
