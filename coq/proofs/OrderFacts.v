(* OrderFacts.v - C09 / C10 in binary64: the order the reduction uses.  On states whose scores are defined
   and not NaN, "a <= b" (the comparison of the scores) is total and transitive, so the generic theorems of
   PipelineFacts apply to the floating-point order itself: whatever tree rayon combines the replicas in,
   the result is the one the sequential fold gives (same element, not just same score), and it is a
   maximum.  std::cmp::max through Ord::cmp is max2 for that order. *)
From Coq Require Import ZArith Reals Floats Bool List Lra.
From Flocq Require Import Core BinarySingleNaN PrimFloat.
From PV Require Import Num model.Pipeline proofs.FloatFacts proofs.FloatZero proofs.PipelineFacts.
Import ListNotations.

(* a result with a defined, non-NaN score *)
Record scored (X : Type) := mkScored { sc_item : X; sc_score : F; sc_ok : fnan sc_score = false }.
Arguments mkScored {_}. Arguments sc_item {_}. Arguments sc_score {_}. Arguments sc_ok {_}.

Definition sleb {X} (a b : scored X) : bool := fleb (sc_score a) (sc_score b).

Lemma fleb_total (x y : F) : fnan x = false -> fnan y = false -> fleb x y = true \/ fleb y x = true.
Proof.
  intros Hx Hy. rewrite !leb_fc. rewrite (fc_swap x y).
  pose proof (fc_None x y) as HN. rewrite Hx, Hy in HN. cbn in HN.
  destruct (fc x y) as [[| |]|]; cbn; try discriminate; auto.
Qed.

Lemma sleb_total {X} (a b : scored X) : sleb a b = true \/ sleb b a = true.
Proof. apply fleb_total; apply sc_ok. Qed.

Lemma sleb_trans {X} (a b c : scored X) : sleb a b = true -> sleb b c = true -> sleb a c = true.
Proof. apply F_leb_trans. Qed.

(* the model of std::cmp::max on the states is max2 for this order *)
Theorem max_is_max2 {X} (a b : scored X) :
  max_keeps_first NumF (Some (sc_score a)) (Some (sc_score b)) = negb (sleb a b).
Proof.
  unfold max_keeps_first, score_cmp, sleb. cbn [nleb NumF].
  destruct (sleb_total a b) as [H|H]; unfold sleb in H; rewrite H.
  - destruct (fleb (sc_score b) (sc_score a)); reflexivity.
  - destruct (fleb (sc_score a) (sc_score b)); reflexivity.
Qed.

(* never a panic on defined, non-NaN scores *)
Theorem cmp_defined {X} (a b : scored X) :
  score_cmp NumF (Some (sc_score a)) (Some (sc_score b)) <> None.
Proof.
  unfold score_cmp. cbn [nleb NumF]. destruct (sleb_total a b) as [H|H]; unfold sleb in H; rewrite H.
  - destruct (fleb (sc_score b) (sc_score a)); discriminate.
  - destruct (fleb (sc_score a) (sc_score b)); discriminate.
Qed.

(* C09: any reduction tree gives the element the sequential fold gives, in binary64 *)
Theorem float_reduction_tree_independent {X} (t : tree (scored X)) :
  best (scored X) sleb (flatten (scored X) t) = Some (reduce (scored X) sleb t).
Proof. apply reduction_tree_independent; [apply sleb_total|apply sleb_trans]. Qed.

(* C10: ... and it is a maximum of the scores *)
Theorem float_best_is_max {X} (l : list (scored X)) b :
  best (scored X) sleb l = Some b -> In b l /\ forall x, In x l -> fleb (sc_score x) (sc_score b) = true.
Proof. intros H. apply (best_is_max (scored X) sleb sleb_total sleb_trans l b H). Qed.
