(* OverlapFacts.v - C12: the pairwise overlap tests against exact geometry, over the reals (NumR).
   - a reported segment intersection is a common point of the two closed segments;
   - the disc test is exact: true iff the open discs have a common point;
   - both tests, and the shape tests built from them, give the same answer with the arguments swapped;
   - the disc-molecule test is exact for whole molecules. *)
From Coq Require Import ZArith List Bool Reals Lra Lia Psatz.
From PV Require Import Num NumR model.Geom.
Import ListNotations.
Local Open Scope R_scope.

Notation segR := (seg NumR).
Notation discR := (disc NumR).

Ltac unR := change (carrier NumR) with R in *.

(* ------------------------------------------------------------------ *)
(* segments                                                            *)

Section Seg.
  Variables s o : segR.
  Let dxs := sx2 NumR s - sx1 NumR s.
  Let dys := sy2 NumR s - sy1 NumR s.
  Let dxo := sx2 NumR o - sx1 NumR o.
  Let dyo := sy2 NumR o - sy1 NumR o.
  Definition den : R := dyo * dxs - dxo * dys.
  Definition numa : R := dxo * (sy1 NumR s - sy1 NumR o) - dyo * (sx1 NumR s - sx1 NumR o).
  Definition numb : R := dxs * (sy1 NumR s - sy1 NumR o) - dys * (sx1 NumR s - sx1 NumR o).

  Lemma seg_intersects_spec :
    seg_intersects NumR s o = true <->
    den <> 0 /\ 0 <= numa / den <= 1 /\ 0 <= numb / den <= 1.
  Proof.
    unfold seg_intersects, seg_dx, seg_dy. cbn [nsub nmul ndiv neqb nleb NumR n0 n1 nofZ].
    fold dxs dys dxo dyo. fold den. fold numa numb.
    destruct (Reqb den 0) eqn:E.
    - apply Reqb_true in E. split; [discriminate|]. intros [H _]. contradiction.
    - apply Reqb_false in E. rewrite !andb_true_iff, !Rleb_true. tauto.
  Qed.
End Seg.

(* C12: "yes" for two segments exhibits a point on both of them *)
Theorem seg_yes_gives_common_point (s o : segR) :
  seg_intersects NumR s o = true ->
  exists ta tb : R, 0 <= ta <= 1 /\ 0 <= tb <= 1
    /\ sx1 NumR s + ta * (sx2 NumR s - sx1 NumR s) = sx1 NumR o + tb * (sx2 NumR o - sx1 NumR o)
    /\ sy1 NumR s + ta * (sy2 NumR s - sy1 NumR s) = sy1 NumR o + tb * (sy2 NumR o - sy1 NumR o).
Proof.
  intros H. apply seg_intersects_spec in H. destruct H as (Hd & Ha & Hb).
  exists (numa s o / den s o), (numb s o / den s o). split; [exact Ha|]. split; [exact Hb|].
  unfold numa, numb, den in *. destruct s as [a1 b1 a2 b2], o as [c1 d1 c2 d2].
  cbn [sx1 sy1 sx2 sy2] in *. unR. split; field; exact Hd.
Qed.

(* C12: the same answer with the arguments swapped *)
Theorem seg_intersects_sym (s o : segR) : seg_intersects NumR s o = seg_intersects NumR o s.
Proof.
  apply eq_true_iff_eq. rewrite !seg_intersects_spec.
  assert (Ed : den o s = - den s o) by (unfold den; ring).
  assert (Ea : numa o s = - numb s o) by (unfold numa, numb; ring).
  assert (Eb : numb o s = - numa s o) by (unfold numa, numb; ring).
  rewrite Ed, Ea, Eb.
  assert (Q : forall x d, d <> 0 -> - x / - d = x / d) by (intros; field; assumption).
  split; intros (Hd & H1 & H2).
  - assert (Hd' : - den s o <> 0) by lra. rewrite !Q by exact Hd. tauto.
  - assert (Hd' : den s o <> 0) by lra. rewrite !Q in H1, H2 by exact Hd'. split; [lra|tauto].
Qed.

(* ------------------------------------------------------------------ *)
(* discs                                                               *)

Definition dist2 (x1 y1 x2 y2 : R) : R := (x1 - x2) * (x1 - x2) + (y1 - y2) * (y1 - y2).

(* the point p lies in the open disc d *)
Definition in_disc (d : discR) (p : R * R) : Prop :=
  dist2 (fst p) (snd p) (dx_ NumR d) (dy_ NumR d) < dr NumR d * dr NumR d.

Lemma disc_intersects_spec (a b : discR) :
  disc_intersects NumR a b = true <->
  dist2 (dx_ NumR a) (dy_ NumR a) (dx_ NumR b) (dy_ NumR b) < (dr NumR a + dr NumR b) * (dr NumR a + dr NumR b).
Proof.
  unfold disc_intersects, norm2, sq, dist2. cbn [nsub nmul nadd nltb NumR]. apply Rltb_true.
Qed.

(* C12: the disc test is exact *)
Theorem disc_test_exact (a b : discR) : 0 < dr NumR a -> 0 < dr NumR b ->
  (disc_intersects NumR a b = true <-> exists p, in_disc a p /\ in_disc b p).
Proof.
  intros Ha Hb. rewrite disc_intersects_spec. unfold in_disc, dist2.
  destruct a as [ax ay ra], b as [bx by_ rb]. cbn [dx_ dy_ dr fst snd] in *. unR.
  split.
  - intros H.
    (* the point dividing the centre line in the ratio of the radii *)
    set (l := ra / (ra + rb)).
    assert (Hl : 0 < l < 1).
    { unfold l. split; [apply Rdiv_lt_0_compat; lra|]. apply Rmult_lt_reg_r with (ra + rb); [lra|].
      unfold Rdiv. rewrite Rmult_assoc, Rinv_l by lra. lra. }
    assert (El : l * (ra + rb) = ra) by (unfold l; field; lra).
    exists (ax + l * (bx - ax), ay + l * (by_ - ay)). cbn [fst snd].
    set (D := (ax - bx) * (ax - bx) + (ay - by_) * (ay - by_)) in *.
    split.
    + replace ((ax + l * (bx - ax) - ax) * (ax + l * (bx - ax) - ax) + (ay + l * (by_ - ay) - ay) * (ay + l * (by_ - ay) - ay))
        with (l * l * D) by (unfold D; ring).
      assert (l * l * D < l * l * ((ra + rb) * (ra + rb))) by (apply Rmult_lt_compat_l; nra).
      replace (ra * ra) with ((l * (ra + rb)) * (l * (ra + rb))) by (rewrite El; ring). nra.
    + replace ((ax + l * (bx - ax) - bx) * (ax + l * (bx - ax) - bx) + (ay + l * (by_ - ay) - by_) * (ay + l * (by_ - ay) - by_))
        with ((1 - l) * (1 - l) * D) by (unfold D; ring).
      assert (E2 : (1 - l) * (ra + rb) = rb) by lra.
      assert ((1 - l) * (1 - l) * D < (1 - l) * (1 - l) * ((ra + rb) * (ra + rb))) by (apply Rmult_lt_compat_l; nra).
      replace (rb * rb) with (((1 - l) * (ra + rb)) * ((1 - l) * (ra + rb))) by (rewrite E2; ring). nra.
  - intros ([px py] & H1 & H2). cbn [fst snd] in *.
    set (ux := px - ax) in *. set (uy := py - ay) in *. set (vx := bx - px) in *. set (vy := by_ - py) in *.
    replace ((ax - bx) * (ax - bx) + (ay - by_) * (ay - by_))
      with ((ux + vx) * (ux + vx) + (uy + vy) * (uy + vy)) by (unfold ux, uy, vx, vy; ring).
    replace ((px - bx) * (px - bx) + (py - by_) * (py - by_)) with (vx * vx + vy * vy) in H2 by (unfold vx, vy; ring).
    fold ux uy in H1.
    (* Cauchy-Schwarz: (u.v)^2 <= |u|^2 |v|^2 < ra^2 rb^2 *)
    assert (CS : (ux * vx + uy * vy) * (ux * vx + uy * vy) <= (ux * ux + uy * uy) * (vx * vx + vy * vy)).
    { pose proof (Rle_0_sqr (ux * vy - uy * vx)) as Hsq. unfold Rsqr in Hsq. clearbody ux uy vx vy. nra. }
    clearbody ux uy vx vy.
    assert (Hp : (ux * ux + uy * uy) * (vx * vx + vy * vy) < (ra * ra) * (rb * rb)).
    { pose proof (Rle_0_sqr ux). pose proof (Rle_0_sqr uy). pose proof (Rle_0_sqr vx). pose proof (Rle_0_sqr vy).
      unfold Rsqr in *. apply Rmult_le_0_lt_compat; lra. }
    assert (Huv : ux * vx + uy * vy < ra * rb).
    { destruct (Rlt_le_dec (ux * vx + uy * vy) (ra * rb)) as [|Hge]; [assumption|]. exfalso.
      assert (0 < ra * rb) by (apply Rmult_lt_0_compat; lra).
      assert ((ra * rb) * (ra * rb) <= (ux * vx + uy * vy) * (ux * vx + uy * vy)) by (apply Rmult_le_compat; lra).
      nra. }
    nra.
Qed.

Theorem disc_intersects_sym (a b : discR) : disc_intersects NumR a b = disc_intersects NumR b a.
Proof.
  apply eq_true_iff_eq. rewrite !disc_intersects_spec. unfold dist2.
  replace ((dx_ NumR b - dx_ NumR a) * (dx_ NumR b - dx_ NumR a) + (dy_ NumR b - dy_ NumR a) * (dy_ NumR b - dy_ NumR a))
    with ((dx_ NumR a - dx_ NumR b) * (dx_ NumR a - dx_ NumR b) + (dy_ NumR a - dy_ NumR b) * (dy_ NumR a - dy_ NumR b)) by ring.
  replace ((dr NumR b + dr NumR a) * (dr NumR b + dr NumR a)) with ((dr NumR a + dr NumR b) * (dr NumR a + dr NumR b)) by ring.
  tauto.
Qed.

(* ------------------------------------------------------------------ *)
(* shapes                                                              *)

Lemma existsb2_swap {A} (f : A -> A -> bool) (l m : list A) :
  (forall x y, f x y = f y x) ->
  existsb (fun s => existsb (fun o => f s o) m) l = existsb (fun s => existsb (fun o => f s o) l) m.
Proof.
  intros Hf. apply eq_true_iff_eq. rewrite !existsb_exists. split.
  - intros (x & Hx & H). apply existsb_exists in H. destruct H as (y & Hy & H).
    exists y. split; [exact Hy|]. apply existsb_exists. exists x. split; [exact Hx|]. now rewrite Hf.
  - intros (y & Hy & H). apply existsb_exists in H. destruct H as (x & Hx & H).
    exists x. split; [exact Hx|]. apply existsb_exists. exists y. split; [exact Hy|]. now rewrite Hf.
Qed.

(* C12: the shape test gives the same answer with the arguments swapped *)
Theorem shape_intersects_sym (a b : shape NumR) : shape_intersects NumR a b = shape_intersects NumR b a.
Proof.
  destruct a as [l|l], b as [m|m]; cbn [shape_intersects]; try reflexivity.
  - apply existsb2_swap, seg_intersects_sym.
  - apply existsb2_swap, disc_intersects_sym.
Qed.

(* a point covered by a disc molecule *)
Definition in_mol (l : list discR) (p : R * R) : Prop := exists d, In d l /\ in_disc d p.

(* C12: for molecules of discs the test is exact: yes iff the two molecules share an interior point *)
Theorem mol_test_exact (l m : list discR) :
  Forall (fun d => 0 < dr NumR d) l -> Forall (fun d => 0 < dr NumR d) m ->
  (shape_intersects NumR (Mol l) (Mol m) = true <-> exists p, in_mol l p /\ in_mol m p).
Proof.
  intros Hl Hm. cbn [shape_intersects]. rewrite Forall_forall in Hl, Hm. rewrite existsb_exists. split.
  - intros (a & Ha & H). apply existsb_exists in H. destruct H as (b & Hb & H).
    apply disc_test_exact in H; [|now apply Hl|now apply Hm]. destruct H as (p & H1 & H2).
    exists p. split; [exists a|exists b]; auto.
  - intros (p & (a & Ha & H1) & (b & Hb & H2)).
    exists a. split; [exact Ha|]. apply existsb_exists. exists b. split; [exact Hb|].
    apply disc_test_exact; [now apply Hl|now apply Hm|]. exists p. auto.
Qed.

(* polygons: a reported intersection is a common point of two edges (never "yes" for separated polygons) *)
Theorem poly_yes_gives_common_point (l m : list segR) :
  shape_intersects NumR (Poly l) (Poly m) = true ->
  exists s o ta tb, In s l /\ In o m /\ 0 <= ta <= 1 /\ 0 <= tb <= 1
    /\ sx1 NumR s + ta * (sx2 NumR s - sx1 NumR s) = sx1 NumR o + tb * (sx2 NumR o - sx1 NumR o)
    /\ sy1 NumR s + ta * (sy2 NumR s - sy1 NumR s) = sy1 NumR o + tb * (sy2 NumR o - sy1 NumR o).
Proof.
  cbn [shape_intersects]. rewrite existsb_exists. intros (s & Hs & H).
  apply existsb_exists in H. destruct H as (o & Ho & H).
  destruct (seg_yes_gives_common_point s o H) as (ta & tb & H1 & H2 & H3 & H4).
  exists s, o, ta, tb. auto 10.
Qed.
