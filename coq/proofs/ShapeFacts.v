(* ShapeFacts.v - the shape constructors over the reals: LineShape::polygon(n) (the model's `polygon`, compared
   with the code by the geometry engine) is, for every n >= 3, a CLOSED and strictly CONVEX polygon with
   orientation -1 (its vertices (sin k t, cos k t), t = 2 pi / n, run clockwise) - the premises of the C01 / C12
   polygon theorems hold for the built-in polygons. *)
From Coq Require Import ZArith List Bool Reals Lra Lia Psatz.
From PV Require Import Num NumR model.Geom proofs.OverlapFacts proofs.ConvexFacts.
Import ListNotations.
Local Open Scope R_scope.

Definition theta (n : nat) : R := 2 * PI / INR n.

(* edge k of the regular n-gon as the code builds it: from angle k t to angle k t + t *)
Definition redge (n k : nat) : segR :=
  @mkSeg NumR (1 * sin (INR k * theta n)) (1 * cos (INR k * theta n))
              (1 * sin (INR k * theta n + theta n)) (1 * cos (INR k * theta n + theta n)).

Lemma combine_seq_repeat {A} (x : A) (n a : nat) :
  combine (seq a n) (repeat x n) = map (fun i => (i, x)) (seq a n).
Proof. revert a. induction n as [|n IH]; intros a; [reflexivity|]. cbn. f_equal. apply IH. Qed.

Lemma rotate1_repeat {A} (x : A) (n : nat) : rotate1 (repeat x n) = repeat x n.
Proof.
  destruct n as [|n]; [reflexivity|]. cbn [repeat rotate1].
  induction n as [|n IH]; [reflexivity|]. cbn [repeat app]. f_equal. exact IH.
Qed.

Lemma combine_repeat {A B} (x : A) (y : B) (n : nat) : combine (repeat x n) (repeat y n) = repeat (x, y) n.
Proof. induction n as [|n IH]; [reflexivity|]. cbn. f_equal. exact IH. Qed.

Lemma polygon_edges (n : nat) : polygon NumR PI sin cos n = map (redge n) (seq 0 n).
Proof.
  unfold polygon, from_radial. rewrite repeat_length, rotate1_repeat, combine_repeat, combine_seq_repeat, map_map.
  apply map_ext. intros k. cbn [fst snd]. unfold radial_edge, redge, theta.
  cbn [nmul nadd ndiv nofZ NumR n2 n1]. rewrite <- !INR_IZR_INZ. reflexivity.
Qed.

(* ------------------------------------------------------------------ *)
(* geometry of the regular polygon                                     *)

Definition Pt (phi : R) : pt := (1 * sin phi, 1 * cos phi).
Definition Ed (t a : R) : segR := @mkSeg NumR (1 * sin a) (1 * cos a) (1 * sin (a + t)) (1 * cos (a + t)).

Lemma redge_Ed n k : redge n k = Ed (theta n) (INR k * theta n).
Proof. reflexivity. Qed.
Lemma Ed_start t a : seg_start (Ed t a) = Pt a.
Proof. reflexivity. Qed.
Lemma Ed_end t a : seg_end (Ed t a) = Pt (a + t).
Proof. reflexivity. Qed.

Lemma Pt_period phi : Pt (phi + 2 * PI) = Pt phi.
Proof. unfold Pt. rewrite sin_plus, cos_plus, sin_2PI, cos_2PI. f_equal; ring. Qed.

(* the side of the edge from angle a to angle b on which the point at angle c lies *)
Lemma three_angles a b c :
  (sin b - sin a) * (cos c - cos a) - (cos b - cos a) * (sin c - sin a) = sin (b - c) - sin (b - a) + sin (c - a).
Proof. rewrite !sin_minus. ring. Qed.

Lemma half_angle_product t d :
  sin t - sin (t - d) - sin d = 4 * sin (t / 2) * sin (d / 2) * sin ((d - t) / 2).
Proof.
  replace t with (2 * (t / 2)) at 1 2 by field. replace d with (2 * (d / 2)) at 1 2 by field.
  replace (2 * (t / 2) - 2 * (d / 2)) with (2 * (t / 2 - d / 2)) by ring.
  replace ((d - t) / 2) with (d / 2 - t / 2) by field.
  rewrite !sin_2a, !sin_minus, !cos_minus.
  set (su := sin (t / 2)). set (cu := cos (t / 2)). set (sw := sin (d / 2)). set (cw := cos (d / 2)).
  assert (Hu : su * su + cu * cu = 1) by (unfold su, cu; pose proof (sin2_cos2 (t / 2)) as H; unfold Rsqr in H; exact H).
  assert (Hw : sw * sw + cw * cw = 1) by (unfold sw, cw; pose proof (sin2_cos2 (d / 2)) as H; unfold Rsqr in H; exact H).
  assert (E : 2 * su * cu - 2 * (su * cw - cu * sw) * (cu * cw + su * sw) - 2 * sw * cw
              - 4 * su * sw * (sw * cu - cw * su)
              = 2 * su * cu * (1 - (sw * sw + cw * cw)) + 2 * sw * cw * ((su * su + cu * cu) - 1)) by ring.
  rewrite Hu, Hw in E. lra.
Qed.

Lemma side_Ed t a c : side (-1) (Ed t a) (Pt c) = 4 * sin (t / 2) * sin ((c - a) / 2) * sin ((c - a - t) / 2).
Proof.
  unfold side, Ed, Pt. cbn [sx1 sy1 sx2 sy2 fst snd]. change (carrier NumR) with R.
  replace (-1 * ((1 * sin (a + t) - 1 * sin a) * (1 * cos c - 1 * cos a) - (1 * cos (a + t) - 1 * cos a) * (1 * sin c - 1 * sin a)))
    with (- ((sin (a + t) - sin a) * (cos c - cos a) - (cos (a + t) - cos a) * (sin c - sin a))) by ring.
  rewrite three_angles.
  replace (a + t - c) with (t - (c - a)) by ring. replace (a + t - a) with t by ring.
  pose proof (half_angle_product t (c - a)) as H. lra.
Qed.

(* the sign of sin(m pi/n) sin((m-1) pi/n) for integers m between -n and n *)
Lemma sign_product (n : nat) (z : Z) : (1 <= n)%nat -> (- Z.of_nat n <= z <= Z.of_nat n)%Z ->
  0 <= sin (IZR z * (PI / INR n)) * sin ((IZR z - 1) * (PI / INR n)).
Proof.
  intros Hn Hz. set (u := PI / INR n).
  assert (Hn0 : 0 < INR n) by (apply lt_0_INR; lia).
  assert (Hu : 0 < u) by (apply Rdiv_lt_0_compat; [apply PI_RGT_0|exact Hn0]).
  assert (Hnu : INR n * u = PI) by (unfold u; field; lra).
  assert (Hzn : IZR z <= INR n) by (rewrite INR_IZR_INZ; apply IZR_le; lia).
  assert (Hzm : - INR n <= IZR z) by (rewrite INR_IZR_INZ, <- opp_IZR; apply IZR_le; lia).
  destruct (Z_lt_le_dec z 1) as [Hlt|Hge].
  - destruct (Z.eq_dec z 0) as [->|Hz0].
    + rewrite Rmult_0_l, sin_0. lra.
    + (* z <= -1: both factors are <= 0 *)
      assert (Hz1 : IZR z <= -1) by (apply IZR_le; lia).
      destruct (Z.eq_dec z (- Z.of_nat n)) as [E|Hne].
      * assert (IZR z * u = - PI) by (rewrite E, opp_IZR, <- INR_IZR_INZ; lra).
        rewrite H, sin_neg, sin_PI. lra.
      * assert (Hzm' : - INR n + 1 <= IZR z).
        { rewrite INR_IZR_INZ, <- opp_IZR, <- plus_IZR. apply IZR_le. lia. }
        assert (H1 : 0 <= sin (- (IZR z * u))) by (apply sin_ge_0; nra).
        assert (H2 : 0 <= sin (- ((IZR z - 1) * u))) by (apply sin_ge_0; nra).
        rewrite sin_neg in H1, H2. nra.
  - assert (Hz1 : 1 <= IZR z) by (apply IZR_le; lia).
    assert (H1 : 0 <= sin (IZR z * u)) by (apply sin_ge_0; nra).
    assert (H2 : 0 <= sin ((IZR z - 1) * u)) by (apply sin_ge_0; nra).
    nra.
Qed.

(* the point at angle j t (or j t + t) is on the inner side of edge k, for all j, k below n *)
Lemma vertex_inside (n k : nat) (m : Z) : (1 <= n)%nat -> (- Z.of_nat n <= m - Z.of_nat k <= Z.of_nat n)%Z ->
  0 <= side (-1) (redge n k) (Pt (IZR m * theta n)).
Proof.
  intros Hn Hm. rewrite redge_Ed, side_Ed.
  assert (Hn0 : 0 < INR n) by (apply lt_0_INR; lia).
  replace ((IZR m * theta n - INR k * theta n) / 2) with (IZR (m - Z.of_nat k) * (PI / INR n))
    by (rewrite minus_IZR, <- INR_IZR_INZ; unfold theta; field; lra).
  replace ((IZR m * theta n - INR k * theta n - theta n) / 2) with ((IZR (m - Z.of_nat k) - 1) * (PI / INR n))
    by (rewrite minus_IZR, <- INR_IZR_INZ; unfold theta; field; lra).
  pose proof (sign_product n (m - Z.of_nat k) Hn Hm) as H.
  assert (Hs : 0 <= sin (theta n / 2)).
  { apply sin_ge_0; unfold theta.
    - apply Rmult_le_pos; [apply Rmult_le_pos; [|left; apply Rinv_0_lt_compat; exact Hn0]|lra]. pose proof PI_RGT_0. lra.
    - replace (2 * PI / INR n / 2) with (PI / INR n) by (field; lra).
      apply Rle_trans with (PI / 1); [|lra]. unfold Rdiv. apply Rmult_le_compat_l; [pose proof PI_RGT_0; lra|].
      apply Rinv_le_contravar; [lra|]. replace 1 with (INR 1) by reflexivity. apply le_INR. lia. }
  nra.
Qed.

(* ------------------------------------------------------------------ *)
(* the regular polygon is closed and convex                            *)

Lemma in_polygon n e : In e (map (redge n) (seq 0 n)) <-> exists k, (k < n)%nat /\ e = redge n k.
Proof.
  rewrite in_map_iff. split.
  - intros (k & <- & Hk). apply in_seq in Hk. exists k. split; [lia|reflexivity].
  - intros (k & Hk & ->). exists k. split; [reflexivity|]. apply in_seq. lia.
Qed.

Lemma theta_bounds n : (3 <= n)%nat -> 0 < theta n < PI /\ INR n * theta n = 2 * PI.
Proof.
  intros Hn. assert (H3 : 3 <= INR n) by (replace 3 with (INR 3) by (cbn; lra); apply le_INR; exact Hn).
  pose proof PI_RGT_0 as Hpi. unfold theta. split; [split|].
  - apply Rdiv_lt_0_compat; lra.
  - apply Rmult_lt_reg_r with (INR n); [lra|]. unfold Rdiv. rewrite Rmult_assoc, Rinv_l by lra. nra.
  - field. lra.
Qed.

Lemma Pt_eq a b : a = b -> Pt a = Pt b.
Proof. now intros ->. Qed.

Lemma sin_shift_PI x : sin (x - PI) = - sin x.
Proof. rewrite sin_minus, cos_PI, sin_PI. ring. Qed.

Theorem polygon_closed (n : nat) : (3 <= n)%nat -> closed (polygon NumR PI sin cos n).
Proof.
  intros Hn. rewrite polygon_edges. destruct (theta_bounds n Hn) as [_ Hnt].
  split.
  - (* consecutive edges join *)
    assert (H : forall m a, linked (map (redge n) (seq a m))).
    { induction m as [|m IH]; intros a; [exact I|]. destruct m as [|m]; [exact I|].
      change (seq a (S (S m))) with (a :: seq (S a) (S m)). cbn [map].
      change (map (redge n) (seq (S a) (S m))) with (redge n (S a) :: map (redge n) (seq (S (S a)) m)).
      cbn [linked]. split.
      - rewrite !redge_Ed, Ed_end, Ed_start. apply Pt_eq. rewrite S_INR. ring.
      - change (redge n (S a) :: map (redge n) (seq (S (S a)) m)) with (map (redge n) (seq (S a) (S m))). apply IH. }
    apply H.
  - (* the last edge ends where the first starts *)
    destruct n as [|m]; [lia|]. change (seq 0 (S m)) with (0%nat :: seq 1 m). cbn [map].
    assert (Hlast : forall a m0 d, last (map (redge (S m)) (seq a m0)) d = match m0 with O => d | S q => redge (S m) (a + q) end).
    { intros a m0. revert a. induction m0 as [|q IH]; intros a d; [reflexivity|].
      change (seq a (S q)) with (a :: seq (S a) q). cbn [map]. rewrite last_cons, IH.
      destruct q as [|q']; [f_equal; lia|f_equal; lia]. }
    rewrite Hlast. destruct m as [|q].
    + lia.
    + rewrite !redge_Ed, Ed_end, Ed_start.
      replace (INR (1 + q) * theta (S (S q)) + theta (S (S q))) with (0 + 2 * PI).
      * rewrite Pt_period. apply Pt_eq. cbn [INR]. ring.
      * rewrite <- Hnt. rewrite (S_INR (S q)). replace (1 + q)%nat with (S q) by lia. ring.
Qed.

Theorem polygon_convex (n : nat) : (3 <= n)%nat -> convex (-1) (polygon NumR PI sin cos n).
Proof.
  intros Hn. rewrite polygon_edges. destruct (theta_bounds n Hn) as [[Ht0 Ht1] Hnt].
  assert (Hs : 0 < sin (theta n)) by (apply sin_gt_0; lra).
  assert (Hsh : 0 < sin (theta n / 2)) by (apply sin_gt_0; lra).
  assert (Hn1 : (1 <= n)%nat) by lia.
  assert (Hp2 : 0 < sin (theta n / 2) * sin (theta n)) by (apply Rmult_lt_0_compat; assumption).
  assert (Hp3 : 0 < sin (theta n / 2) * sin (theta n) * sin (theta n / 2)) by (apply Rmult_lt_0_compat; assumption).
  constructor.
  - now right.
  - intros e He. apply in_polygon in He. destruct He as (j & Hj & ->).
    split; intros e' He'; apply in_polygon in He'; destruct He' as (k & Hk & ->).
    + rewrite (redge_Ed n j), Ed_start. rewrite (INR_IZR_INZ j). apply vertex_inside; [exact Hn1|lia].
    + rewrite (redge_Ed n j), Ed_end.
      replace (INR j * theta n + theta n) with (IZR (Z.of_nat j + 1) * theta n) by (rewrite plus_IZR, <- INR_IZR_INZ; ring).
      apply vertex_inside; [exact Hn1|lia].
  - (* the previous edge *)
    intros e He. apply in_polygon in He. destruct He as (k & Hk & ->).
    destruct k as [|k].
    + exists (redge n (n - 1)). split; [apply in_polygon; exists (n - 1)%nat; split; [lia|reflexivity]|].
      assert (Ea : INR (n - 1) * theta n = 2 * PI - theta n).
      { rewrite minus_INR by lia. cbn [INR]. lra. }
      rewrite !redge_Ed, !Ed_end, Ed_start, side_Ed. rewrite Ea. split.
      * replace (2 * PI - theta n + theta n) with (0 + 2 * PI) by ring. rewrite Pt_period. apply Pt_eq. cbn [INR]. ring.
      * cbn [INR]. replace ((0 * theta n + theta n - (2 * PI - theta n)) / 2) with (theta n - PI) by field.
        replace ((0 * theta n + theta n - (2 * PI - theta n) - theta n) / 2) with (theta n / 2 - PI) by field.
        rewrite !sin_shift_PI. lra.
    + exists (redge n k). split; [apply in_polygon; exists k; split; [lia|reflexivity]|].
      rewrite !redge_Ed, !Ed_end, Ed_start, side_Ed. rewrite (S_INR k). split.
      * apply Pt_eq. ring.
      * replace (((INR k + 1) * theta n + theta n - INR k * theta n) / 2) with (theta n) by field.
        replace (((INR k + 1) * theta n + theta n - INR k * theta n - theta n) / 2) with (theta n / 2) by field.
        lra.
  - (* the next edge *)
    intros e He. apply in_polygon in He. destruct He as (k & Hk & ->).
    destruct (Nat.eq_dec (S k) n) as [E|Hne].
    + exists (redge n 0). split; [apply in_polygon; exists 0%nat; split; [lia|reflexivity]|].
      assert (Ea : INR k * theta n = 2 * PI - theta n).
      { rewrite <- Hnt, <- E, S_INR. ring. }
      rewrite !redge_Ed, !Ed_start, Ed_end, side_Ed. rewrite Ea. split.
      * replace (2 * PI - theta n + theta n) with (0 + 2 * PI) by ring. rewrite Pt_period. apply Pt_eq. cbn [INR]. ring.
      * cbn [INR]. replace ((2 * PI - theta n - 0 * theta n) / 2) with (PI - theta n / 2) by field.
        replace ((2 * PI - theta n - 0 * theta n - theta n) / 2) with (PI - theta n) by field.
        rewrite !sin_PI_x. lra.
    + exists (redge n (S k)). split; [apply in_polygon; exists (S k); split; [lia|reflexivity]|].
      rewrite !redge_Ed, !Ed_start, Ed_end, side_Ed. rewrite (S_INR k). split.
      * apply Pt_eq. ring.
      * replace ((INR k * theta n - (INR k + 1) * theta n) / 2) with (- (theta n / 2)) by field.
        replace ((INR k * theta n - (INR k + 1) * theta n - theta n) / 2) with (- theta n) by field.
        rewrite !sin_neg. lra.
Qed.

Theorem polygon_nonempty (n : nat) : (3 <= n)%nat -> polygon NumR PI sin cos n <> [].
Proof. intros Hn. rewrite polygon_edges. destruct n; [lia|]. discriminate. Qed.
