(* PackingFacts.v - C01: a scored hard packing has no overlap anywhere in the tiling.  Over the reals,
   for the model of check_intersection (coq/model/Geom.v):
     if the state is scored, then for EVERY pair of copies i, j and EVERY lattice translate (n, m) in Z^2
     (other than a copy with itself), either the two centres are further apart than twice the enclosing
     radius, or the pair predicate was evaluated on exactly that pair and answered "no".
   The shell count the code computes is proved sufficient (far_image_is_far). *)
From Coq Require Import ZArith List Bool Reals Lra Lia Psatz.
From PV Require Import Num NumR model.Geom proofs.RealFacts proofs.LatticeFacts proofs.SiteFacts proofs.OverlapFacts.
Import ListNotations.
Local Open Scope R_scope.

Notation pstateR := (pstate NumR).

(* ------------------------------------------------------------------ *)
(* far images                                                          *)

(* a fractional offset with |u| > K or |v| > K is at Cartesian distance > K sin(angle) min(a, b) *)
Theorem far_image_is_far (a b c s u v K D : R) :
  0 < a -> 0 < b -> 0 < s -> c * c + s * s = 1 -> 0 <= K -> 0 <= D ->
  D <= K * (s * Rmin a b) ->
  (K < Rabs u \/ K < Rabs v) ->
  D * D < (u * a + v * (b * c)) * (u * a + v * (b * c)) + (v * (b * s)) * (v * (b * s)).
Proof.
  intros Ha Hb Hs Hcs HK HD Hle Huv.
  set (wx := u * a + v * (b * c)). set (wy := v * (b * s)).
  assert (Hmin_a : Rmin a b <= a) by apply Rmin_l.
  assert (Hmin_b : Rmin a b <= b) by apply Rmin_r.
  assert (Hmin_pos : 0 < Rmin a b) by (apply Rmin_glb_lt; assumption).
  assert (Hsq : forall x y, 0 <= x -> x < y -> x * x < y * y) by (intros x y H0 H1; apply Rmult_le_0_lt_compat; lra).
  destruct Huv as [Hu | Hv].
  - (* the component of w normal to B is u a s *)
    assert (E : wx * s - wy * c = u * a * s) by (unfold wx, wy; ring).
    assert (CS : (wx * s - wy * c) * (wx * s - wy * c) <= wx * wx + wy * wy).
    { pose proof (Rle_0_sqr (wx * c + wy * s)) as Hq. unfold Rsqr in Hq.
      replace (wx * wx + wy * wy) with ((wx * wx + wy * wy) * (c * c + s * s)) by (rewrite Hcs; ring).
      clearbody wx wy. nra. }
    rewrite E in CS.
    assert (H1 : D <= K * (s * a)) by (apply Rle_trans with (K * (s * Rmin a b)); [assumption|]; apply Rmult_le_compat_l; [assumption|]; apply Rmult_le_compat_l; lra).
    assert (H2 : K * (s * a) < Rabs u * (s * a)) by (apply Rmult_lt_compat_r; [apply Rmult_lt_0_compat; lra|assumption]).
    assert (H3 : D < Rabs u * (s * a)) by lra.
    assert (H4 : D * D < (Rabs u * (s * a)) * (Rabs u * (s * a))) by (apply Hsq; assumption).
    assert (H5 : (Rabs u * (s * a)) * (Rabs u * (s * a)) = (u * a * s) * (u * a * s)).
    { replace ((Rabs u * (s * a)) * (Rabs u * (s * a))) with ((Rabs u * Rabs u) * ((s * a) * (s * a))) by ring.
      rewrite <- Rabs_mult, Rabs_pos_eq by apply Rle_0_sqr. ring. }
    lra.
  - assert (H1 : D <= K * (s * b)) by (apply Rle_trans with (K * (s * Rmin a b)); [assumption|]; apply Rmult_le_compat_l; [assumption|]; apply Rmult_le_compat_l; lra).
    assert (H2 : K * (s * b) < Rabs v * (s * b)) by (apply Rmult_lt_compat_r; [apply Rmult_lt_0_compat; lra|assumption]).
    assert (H4 : D * D < (Rabs v * (s * b)) * (Rabs v * (s * b))) by (apply Hsq; lra).
    assert (H5 : (Rabs v * (s * b)) * (Rabs v * (s * b)) = wy * wy).
    { replace ((Rabs v * (s * b)) * (Rabs v * (s * b))) with ((Rabs v * Rabs v) * ((s * b) * (s * b))) by ring.
      rewrite <- Rabs_mult, Rabs_pos_eq by apply Rle_0_sqr. unfold wy. ring. }
    pose proof (Rle_0_sqr wx) as Hw. unfold Rsqr in Hw. lra.
Qed.

(* the ceiling, as the real-number instance computes it *)
Lemma nceilZ_R_ge (x : R) : x <= IZR (nceilZ (n:=NumR) x).
Proof.
  cbn [nceilZ NumR]. rewrite opp_IZR. destruct (base_Int_part (- x)) as [H _]. lra.
Qed.

(* ------------------------------------------------------------------ *)
(* what a "false" of the loops means                                   *)

Lemma existsb_false {A} (f : A -> bool) l : existsb f l = false <-> forall x, In x l -> f x = false.
Proof.
  split.
  - intros H x Hx. destruct (f x) eqn:E; [|reflexivity].
    assert (existsb f l = true) by (apply existsb_exists; eauto). congruence.
  - intros H. destruct (existsb f l) eqn:E; [|reflexivity].
    apply existsb_exists in E. destruct E as (x & Hx & Hfx). rewrite (H x Hx) in Hfx. discriminate.
Qed.

Lemma tails_In {A} (l : list A) i j d : (i < j < length l)%nat ->
  exists r, In (nth i l d, r) (tails l) /\ In (nth j l d) r.
Proof.
  revert i j. induction l as [|x l IH]; intros i j H; [cbn in H; lia|].
  destruct i as [|i].
  - exists l. split; [now left|]. destruct j as [|j]; [lia|]. cbn [nth]. apply nth_In. cbn in H. lia.
  - destruct j as [|j]; [lia|]. cbn in H. destruct (IH i j) as (r & H1 & H2); [lia|].
    exists r. split; [right; exact H1|exact H2].
Qed.

(* the number of shape copies in the cell: every occupied site contributes one copy per symmetry operation *)
Definition copies (st : pstateR) : nat := length (relative_positions NumR st).

Lemma flat_map_length_const {A B} (f : A -> list B) (l : list A) (n : nat) :
  (forall x, In x l -> length (f x) = n) -> length (flat_map f l) = (length l * n)%nat.
Proof.
  induction l as [|x l IH]; intros H; [reflexivity|].
  cbn [flat_map length]. rewrite app_length, (H x (or_introl eq_refl)), IH; [lia|].
  intros y Hy. apply H. now right.
Qed.

Theorem copies_count (st : pstateR) :
  copies st = (length (p_sites NumR st) * length (p_syms NumR st))%nat.
Proof.
  unfold copies, relative_positions. apply flat_map_length_const.
  intros s _. apply positions_length.
Qed.

Theorem copies_total_shapes (st : pstateR) : total_shapes NumR st = Z.of_nat (copies st).
Proof. unfold total_shapes. now rewrite copies_count. Qed.

(* the command line's states occupy one site: one copy per symmetry operation *)
Theorem copies_single_site (st : pstateR) (s : siteR) :
  p_sites NumR st = [s] -> copies st = length (p_syms NumR st)
  /\ relative_positions NumR st = positions NumR (p_syms NumR st) s.
Proof.
  intros E. unfold copies, relative_positions. rewrite E. cbn [flat_map]. rewrite app_nil_r.
  split; [apply positions_length|reflexivity].
Qed.

(* every copy is the placement of one occupied site by one symmetry operation *)
Lemma rel_members (st : pstateR) (p : tfR) :
  In p (relative_positions NumR st) ->
  exists sym s, In sym (p_syms NumR st) /\ In s (p_sites NumR st) /\ p = placement sym s.
Proof.
  unfold relative_positions. intros H. apply in_flat_map in H. destruct H as (s & Hs & Hp).
  rewrite positions_map in Hp. apply in_map_iff in Hp. destruct Hp as (sym & <- & Hsym).
  exists sym, s. auto.
Qed.

Section State.
  Variable st : pstateR.
  Let syms := p_syms NumR st.
  Let cl := p_cell NumR st.
  Let rel := relative_positions NumR st.
  Let N := copies st.
  Let cart := cartesian_positions NumR st.
  Let S (t : tfR) := shape_transform NumR t (p_shape NumR st).
  Let k := shells_of NumR st.
  Let R2 := sq NumR (nmul (p_radius NumR st) (n2 (NN:=NumR))).      (* (2 R)^2 as the code computes it *)

  Definition dflt : tfR := tf_identity NumR.
  Definition copy (i : nat) : tfR := nth i cart dflt.
  Definition image (j : nat) (n m : Z) : tfR := to_cartesian_translate NumR cl (nth j rel dflt) n m.
  Definition centre_dist2 (t1 t2 : tfR) : R :=
    let '(x1, y1) := tf_position NumR t1 in let '(x2, y2) := tf_position NumR t2 in
    norm2 NumR (x1 - x2) (y1 - y2).

  Lemma rel_length : length rel = N.
  Proof. reflexivity. Qed.
  Lemma cart_length : length cart = N.
  Proof. unfold cart, cartesian_positions. rewrite map_length. apply rel_length. Qed.

  Lemma copy_is_cart i : (i < N)%nat -> copy i = to_cartesian_isometry NumR cl (nth i rel dflt).
  Proof.
    intros H. unfold copy, cart, cartesian_positions.
    rewrite (nth_indep _ dflt (to_cartesian_isometry NumR cl dflt)) by (rewrite map_length; fold rel; rewrite rel_length; exact H).
    apply (map_nth (to_cartesian_isometry NumR cl)).
  Qed.

  (* C01 (1): no score unless all three checks answered "no" *)
  Lemma scored_means_checks_false :
    packed_score NumR st <> None ->
    in_cell_intersection NumR st = false /\ periodic_intersection NumR st = false.
  Proof.
    unfold packed_score, check_intersection. intros H.
    destruct (density_precheck NumR st), (in_cell_intersection NumR st), (periodic_intersection NumR st);
      cbn in H; try congruence. auto.
  Qed.

  (* C01 (2): every pair of distinct copies in the cell was compared *)
  Lemma in_cell_pairs i j :
    in_cell_intersection NumR st = false -> (i < j < N)%nat ->
    shape_intersects NumR (S (copy i)) (S (copy j)) = false.
  Proof.
    unfold in_cell_intersection. intros H Hij.
    rewrite existsb_false in H.
    set (shapes := map (fun p => shape_transform NumR p (p_shape NumR st)) (cartesian_positions NumR st)) in *.
    assert (Hlen : length shapes = N) by (unfold shapes; rewrite map_length; apply cart_length).
    destruct (tails_In shapes i j (shape_transform NumR dflt (p_shape NumR st))) as (r & H1 & H2); [lia|].
    specialize (H _ H1). cbn [fst snd] in H. rewrite existsb_false in H. specialize (H _ H2).
    unfold shapes in H.
    rewrite !(map_nth (fun p => shape_transform NumR p (p_shape NumR st))) in H. exact H.
  Qed.

  (* C01 (3): every image within the shells was compared, unless its centre is further than 2R *)
  Lemma periodic_pairs i j n m :
    periodic_intersection NumR st = false -> (i < N)%nat -> (j < N)%nat ->
    In (n, m) (shell_indices k false) ->
    centre_dist2 (copy i) (image j n m) <= R2 ->
    shape_intersects NumR (S (copy i)) (S (image j n m)) = false.
  Proof.
    unfold periodic_intersection. intros H Hi Hj Hnm Hd.
    rewrite existsb_false in H.
    assert (Hci : In (copy i) (cartesian_positions NumR st)) by (apply nth_In; fold cart; rewrite cart_length; exact Hi).
    specialize (H _ Hci).
    destruct (tf_position NumR (copy i)) as [x1 y1] eqn:E1.
    rewrite existsb_false in H.
    assert (Hrj : In (nth j rel dflt) (relative_positions NumR st)) by (apply nth_In; fold rel; rewrite rel_length; exact Hj).
    specialize (H _ Hrj). rewrite existsb_false in H.
    assert (Him : In (image j n m) (periodic_images NumR (p_cell NumR st) (nth j rel dflt) (shells_of NumR st) false)).
    { unfold periodic_images. apply in_map_iff. exists (n, m). split; [reflexivity|exact Hnm]. }
    specialize (H _ Him).
    unfold centre_dist2 in Hd. rewrite E1 in Hd.
    destruct (tf_position NumR (image j n m)) as [x2 y2] eqn:E2.
    fold R2 in H.
    replace (nleb (norm2 NumR (nsub x1 x2) (nsub y1 y2)) R2) with true in H; [exact H|].
    symmetry. apply Rleb_true. exact Hd.
  Qed.
End State.

(* ------------------------------------------------------------------ *)
(* the whole tiling                                                    *)

(* well-formedness of the state: what the code guarantees by construction / the optimiser's bounds *)
Record wf_state (st : pstateR) : Prop := {
  wf_syms : Forall sym_row (p_syms NumR st);
  wf_len : 0 < c_len NumR (p_cell NumR st);
  wf_ratio : 0 < c_ratio NumR (p_cell NumR st);
  wf_sin : 0 < c_sin NumR (p_cell NumR st);
  wf_trig : c_cos NumR (p_cell NumR st) * c_cos NumR (p_cell NumR st)
            + c_sin NumR (p_cell NumR st) * c_sin NumR (p_cell NumR st) = 1;
  wf_radius : 0 <= p_radius NumR st;
}.

Lemma nth_rel_spec (st : pstateR) j : wf_state st -> (j < copies st)%nat ->
  let p := nth j (relative_positions NumR st) (dflt) in
  affine_row p /\ -1/2 <= a02 NumR p < 1/2 /\ -1/2 <= a12 NumR p < 1/2.
Proof.
  intros Hwf Hj. cbv zeta.
  destruct (rel_members st _ (nth_In _ dflt Hj)) as (sym & s & Hsym & Hs & E). rewrite E.
  assert (Hrow : sym_row sym).
  { destruct Hwf as [Hs' _ _ _ _ _]. rewrite Forall_forall in Hs'. now apply Hs'. }
  destruct (placement_spec _ s Hrow) as (_ & _ & _ & _ & E02 & E12 & (R0 & R1 & R2')).
  split; [repeat split; auto|].
  rewrite E02, E12. split; apply wrap_spec.
Qed.

(* the shell count the code computes is sufficient: an image outside the shells is far *)
Lemma outside_shells_is_far (st : pstateR) (fxi fyi fxj fyj : R) (n m : Z) :
  wf_state st ->
  -1/2 <= fxi < 1/2 -> -1/2 <= fyi < 1/2 -> -1/2 <= fxj < 1/2 -> -1/2 <= fyj < 1/2 ->
  (shells_of NumR st < Z.abs n \/ shells_of NumR st < Z.abs m)%Z ->
  forall x1 y1 x2 y2 : R,
  to_cartesian NumR (p_cell NumR st) (fxi, fyi) = (x1, y1) ->
  to_cartesian NumR (p_cell NumR st) (fxj + IZR n, fyj + IZR m) = (x2, y2) ->
  (p_radius NumR st * 2) * (p_radius NumR st * 2)
  < (x1 - x2) * (x1 - x2) + (y1 - y2) * (y1 - y2).
Proof.
  intros Hwf Xi Yi Xj Yj Hout x1 y1 x2 y2 E1 E2. rewrite to_cartesian_R in E1, E2.
  injection E1 as <- <-. injection E2 as <- <-. unfold vecA, vecB. cbn [fst snd].
  destruct Hwf as [_ Hlen Hrat Hsin Htrig Hrad].
  set (k := shells_of NumR st) in *.
  assert (Ek : k = nceilZ (n:=NumR) ((2 * p_radius NumR st) / (c_sin NumR (p_cell NumR st)
                     * Rmin (c_len NumR (p_cell NumR st)) (c_len NumR (p_cell NumR st) * c_ratio NumR (p_cell NumR st))))).
  { unfold k, shells_of, cell_a, cell_b. cbn [nmul ndiv NumR n2 nofZ]. rewrite R_nmin_Rmin. reflexivity. }
  generalize dependent k. intros k Hout Ek.
  set (a := c_len NumR (p_cell NumR st)) in *. set (r := c_ratio NumR (p_cell NumR st)) in *.
  set (c := c_cos NumR (p_cell NumR st)) in *. set (s := c_sin NumR (p_cell NumR st)) in *.
  set (Rd := p_radius NumR st) in *.
  clearbody a r c s Rd. change (carrier NumR) with R in *.
  assert (Hb : 0 < a * r) by (apply Rmult_lt_0_compat; assumption).
  assert (Hh : 0 < s * Rmin a (a * r)) by (apply Rmult_lt_0_compat; [assumption|apply Rmin_glb_lt; assumption]).
  assert (HK : Rd * 2 <= IZR k * (s * Rmin a (a * r))).
  { pose proof (nceilZ_R_ge ((2 * Rd) / (s * Rmin a (a * r)))) as Hc. rewrite <- Ek in Hc.
    revert Hc Hh. generalize (s * Rmin a (a * r)). intros h Hc Hh.
    replace (Rd * 2) with ((2 * Rd / h) * h) by (field; lra).
    apply Rmult_le_compat_r; lra. }
  assert (Hk_nonneg : 0 <= IZR k).
  { destruct (Rle_lt_dec 0 (IZR k)) as [|Hneg]; [assumption|]. exfalso.
    revert HK Hh. generalize (s * Rmin a (a * r)). intros h HK Hh.
    assert (IZR k * h < 0) by nra. lra. }
  set (u := fxi - (fxj + IZR n)). set (v := fyi - (fyj + IZR m)).
  replace ((fxi * a + fyi * (a * r * c) - ((fxj + IZR n) * a + (fyj + IZR m) * (a * r * c))) *
           (fxi * a + fyi * (a * r * c) - ((fxj + IZR n) * a + (fyj + IZR m) * (a * r * c))) +
           (fxi * 0 + fyi * (a * r * s) - ((fxj + IZR n) * 0 + (fyj + IZR m) * (a * r * s))) *
           (fxi * 0 + fyi * (a * r * s) - ((fxj + IZR n) * 0 + (fyj + IZR m) * (a * r * s))))
    with ((u * a + v * (a * r * c)) * (u * a + v * (a * r * c)) + (v * (a * r * s)) * (v * (a * r * s)))
    by (unfold u, v; ring).
  apply (far_image_is_far a (a * r) c s u v (IZR k) (Rd * 2)); try assumption; try lra.
  assert (Habs : forall (z : Z) (f g : R), -1/2 <= f < 1/2 -> -1/2 <= g < 1/2 -> (k < Z.abs z)%Z ->
                 IZR k < Rabs (f - (g + IZR z))).
  { intros z f g Hf Hg Hz.
    assert (H1 : IZR k + 1 <= Rabs (IZR z)) by (rewrite <- abs_IZR, <- (plus_IZR k 1); apply IZR_le; lia).
    destruct (Rcase_abs (IZR z)) as [Hz0|Hz0].
    - rewrite Rabs_left in H1 by exact Hz0. rewrite Rabs_right by lra. lra.
    - rewrite Rabs_right in H1 by exact Hz0. rewrite Rabs_left by lra. lra. }
  destruct Hout as [Hn|Hm]; [left|right]; unfold u, v; apply Habs; assumption.
Qed.

(* C01: the scored state has no undetected pair ANYWHERE in the tiling *)
Theorem scored_packing_all_pairs_checked (st : pstateR) :
  wf_state st -> packed_score NumR st <> None ->
  forall i j (n m : Z), (i < copies st)%nat -> (j < copies st)%nat ->
  ~ (i = j /\ n = 0%Z /\ m = 0%Z) ->
  sq NumR (nmul (p_radius NumR st) (n2 (NN:=NumR))) < centre_dist2 (copy st i) (image st j n m)
  \/ shape_intersects NumR (shape_transform NumR (copy st i) (p_shape NumR st))
                           (shape_transform NumR (image st j n m) (p_shape NumR st)) = false.
Proof.
  intros Hwf Hscore i j n m Hi Hj Hne.
  destruct (scored_means_checks_false st Hscore) as [Hin Hper].
  set (k := shells_of NumR st).
  destruct (nth_rel_spec st i Hwf Hi) as (Ai & Xi & Yi).
  destruct (nth_rel_spec st j Hwf Hj) as (Aj & Xj & Yj).
  cbv zeta in Ai, Xi, Yi, Aj, Xj, Yj.
  set (pi := nth i (relative_positions NumR st) dflt) in *.
  set (pj := nth j (relative_positions NumR st) dflt) in *.
  (* positions of the two centres *)
  assert (Pc : tf_position NumR (copy st i) = to_cartesian NumR (p_cell NumR st) (a02 NumR pi, a12 NumR pi)).
  { rewrite (copy_is_cart st i Hi). fold pi. unfold to_cartesian_isometry.
    rewrite (tf_position_affine pi Ai). apply tf_position_affine. exact Ai. }
  assert (Pi : tf_position NumR (image st j n m)
               = to_cartesian NumR (p_cell NumR st) (a02 NumR pj + IZR n, a12 NumR pj + IZR m)).
  { unfold image. fold pj. unfold to_cartesian_translate. rewrite (tf_position_affine pj Aj).
    apply tf_position_affine. exact Aj. }
  destruct (Rle_lt_dec (centre_dist2 (copy st i) (image st j n m)) (sq NumR (nmul (p_radius NumR st) (n2 (NN:=NumR)))))
    as [Hnear|Hfar]; [|left; exact Hfar].
  right.
  (* near: the pair lies within the shells, hence was compared *)
  assert (Hin_shell : (Z.abs n <= k)%Z /\ (Z.abs m <= k)%Z).
  { destruct (Z_le_gt_dec (Z.abs n) k) as [Hn|Hn], (Z_le_gt_dec (Z.abs m) k) as [Hm|Hm]; [lia| | |]; exfalso.
    all: assert (Hout : (shells_of NumR st < Z.abs n \/ shells_of NumR st < Z.abs m)%Z) by (fold k; lia).
    all: unfold centre_dist2 in Hnear; rewrite Pc, Pi in Hnear; revert Hnear.
    all: destruct (to_cartesian NumR (p_cell NumR st) (a02 NumR pi, a12 NumR pi)) as [x1 y1] eqn:E1.
    all: destruct (to_cartesian NumR (p_cell NumR st) (a02 NumR pj + IZR n, a12 NumR pj + IZR m)) as [x2 y2] eqn:E2.
    all: intros Hnear.
    all: pose proof (outside_shells_is_far st _ _ _ _ n m Hwf Xi Yi Xj Yj Hout x1 y1 x2 y2 E1 E2) as Hf.
    all: unfold norm2, sq in Hnear; cbn [nadd nsub nmul NumR n2 nofZ] in Hnear; lra. }
  destruct Hin_shell as [Hn Hm].
  destruct (Z.eq_dec n 0) as [En|En], (Z.eq_dec m 0) as [Em|Em].
  - (* the same cell: the in-cell comparison, in one order or the other *)
    subst n m.
    assert (Eimg : image st j 0 0 = copy st j).
    { rewrite (copy_is_cart st j Hj). unfold image, to_cartesian_translate, to_cartesian_isometry.
      fold pj. rewrite (tf_position_affine pj Aj). cbn [nadd nofZ NumR]. rewrite !Rplus_0_r. reflexivity. }
    rewrite Eimg.
    destruct (Nat.lt_trichotomy i j) as [Hlt|[Heq|Hgt]].
    + apply in_cell_pairs; [exact Hin|lia].
    + exfalso. apply Hne. auto.
    + rewrite shape_intersects_sym. apply in_cell_pairs; [exact Hin|lia].
  - apply periodic_pairs; try assumption.
    apply shell_indices_spec; [fold k; lia|]. fold k. split; [lia|]. split; [lia|]. right. congruence.
  - apply periodic_pairs; try assumption.
    apply shell_indices_spec; [fold k; lia|]. fold k. split; [lia|]. split; [lia|]. right. congruence.
  - apply periodic_pairs; try assumption.
    apply shell_indices_spec; [fold k; lia|]. fold k. split; [lia|]. split; [lia|]. right. congruence.
Qed.

(* ------------------------------------------------------------------ *)
(* C01 at the level of the plane, for shapes made of discs (circle, trimers): no point of the plane
   is interior to two different copies of the tiling.                                            *)

Definition placed_mol (t : tfR) (l : list discR) : list discR := map (disc_transform NumR t) l.

(* the linear part of a placement is orthogonal: a rotation or a reflection *)
Definition rigid (t : tfR) : Prop :=
  a00 NumR t * a00 NumR t + a10 NumR t * a10 NumR t = 1
  /\ a00 NumR t * a01 NumR t + a10 NumR t * a11 NumR t = 0
  /\ a01 NumR t * a01 NumR t + a11 NumR t * a11 NumR t = 1.

(* every disc of the unplaced molecule lies within Rad of the origin *)
Definition enclosed (Rad : R) (l : list discR) : Prop :=
  Forall (fun d => 0 < dr NumR d /\ sqrt (dx_ NumR d * dx_ NumR d + dy_ NumR d * dy_ NumR d) + dr NumR d <= Rad) l.

Lemma dist_euc_sq x0 y0 x1 y1 : dist_euc x0 y0 x1 y1 * dist_euc x0 y0 x1 y1 = dist2 x0 y0 x1 y1.
Proof.
  unfold dist_euc, dist2, Rsqr. apply sqrt_sqrt.
  pose proof (Rle_0_sqr (x0 - x1)). pose proof (Rle_0_sqr (y0 - y1)). unfold Rsqr in *. lra.
Qed.

Lemma dist_euc_nonneg x0 y0 x1 y1 : 0 <= dist_euc x0 y0 x1 y1.
Proof. unfold dist_euc. apply sqrt_pos. Qed.

Lemma lt_sq_lt x y : 0 <= x -> 0 <= y -> x * x < y * y -> x < y.
Proof. intros Hx Hy H. destruct (Rlt_le_dec x y) as [|Hge]; [assumption|]. exfalso. assert (y * y <= x * x) by (apply Rmult_le_compat; lra). lra. Qed.

(* a placed disc stays within Rad of the position of its placement *)
Lemma placed_disc_enclosed (t : tfR) (d : discR) Rad :
  affine_row t -> rigid t ->
  0 < dr NumR d /\ sqrt (dx_ NumR d * dx_ NumR d + dy_ NumR d * dy_ NumR d) + dr NumR d <= Rad ->
  let d' := disc_transform NumR t d in
  dr NumR d' = dr NumR d
  /\ dist_euc (dx_ NumR d') (dy_ NumR d') (a02 NumR t) (a12 NumR t) + dr NumR d' <= Rad.
Proof.
  intros Ha (R1 & R2 & R3) [Hr Henc]. cbv zeta. unfold disc_transform.
  rewrite (tf_apply_affine t _ _ Ha). cbn [dx_ dy_ dr]. split; [reflexivity|].
  replace (dist_euc (a00 NumR t * dx_ NumR d + a01 NumR t * dy_ NumR d + a02 NumR t)
                    (a10 NumR t * dx_ NumR d + a11 NumR t * dy_ NumR d + a12 NumR t) (a02 NumR t) (a12 NumR t))
    with (sqrt (dx_ NumR d * dx_ NumR d + dy_ NumR d * dy_ NumR d)); [exact Henc|].
  unfold dist_euc, Rsqr. f_equal.
  destruct t as [t00 t01 t02 t10 t11 t12 t20 t21 t22], d as [x y r]. cbn [a00 a01 a02 a10 a11 a12 dx_ dy_] in *.
  change (carrier NumR) with R in *.
  replace ((t00 * x + t01 * y + t02 - t02) * (t00 * x + t01 * y + t02 - t02) + (t10 * x + t11 * y + t12 - t12) * (t10 * x + t11 * y + t12 - t12))
    with ((t00 * t00 + t10 * t10) * (x * x) + 2 * (t00 * t01 + t10 * t11) * (x * y) + (t01 * t01 + t11 * t11) * (y * y)) by ring.
  rewrite R1, R2, R3. ring.
Qed.

(* two molecules whose placements are further apart than 2 Rad share no interior point *)
Lemma far_molecules_disjoint (t1 t2 : tfR) (l : list discR) Rad p :
  affine_row t1 -> affine_row t2 -> rigid t1 -> rigid t2 -> enclosed Rad l ->
  (Rad * 2) * (Rad * 2) < dist2 (a02 NumR t1) (a12 NumR t1) (a02 NumR t2) (a12 NumR t2) ->
  ~ (in_mol (placed_mol t1 l) p /\ in_mol (placed_mol t2 l) p).
Proof.
  intros A1 A2 G1 G2 Henc Hfar [(d1 & Hd1 & P1) (d2 & Hd2 & P2)].
  unfold placed_mol in Hd1, Hd2. apply in_map_iff in Hd1, Hd2.
  destruct Hd1 as (e1 & <- & He1), Hd2 as (e2 & <- & He2).
  unfold enclosed in Henc. rewrite Forall_forall in Henc.
  destruct (placed_disc_enclosed t1 e1 Rad A1 G1 (Henc e1 He1)) as [Er1 En1].
  destruct (placed_disc_enclosed t2 e2 Rad A2 G2 (Henc e2 He2)) as [Er2 En2].
  cbv zeta in *.
  set (c1 := disc_transform NumR t1 e1) in *. set (c2 := disc_transform NumR t2 e2) in *.
  destruct p as [px py]. unfold in_disc in P1, P2. cbn [fst snd] in P1, P2.
  (* distances *)
  set (D := dist_euc (a02 NumR t1) (a12 NumR t1) (a02 NumR t2) (a12 NumR t2)).
  assert (HD : Rad * 2 < D).
  { apply lt_sq_lt; [|apply dist_euc_nonneg|unfold D; rewrite dist_euc_sq; exact Hfar].
    destruct (Henc e1 He1) as [Hr0 Hs]. pose proof (sqrt_pos (dx_ NumR e1 * dx_ NumR e1 + dy_ NumR e1 * dy_ NumR e1)). lra. }
  assert (Q1 : dist_euc px py (dx_ NumR c1) (dy_ NumR c1) < dr NumR c1).
  { apply lt_sq_lt; [apply dist_euc_nonneg| |rewrite dist_euc_sq; exact P1]. rewrite Er1. destruct (Henc e1 He1); lra. }
  assert (Q2 : dist_euc px py (dx_ NumR c2) (dy_ NumR c2) < dr NumR c2).
  { apply lt_sq_lt; [apply dist_euc_nonneg| |rewrite dist_euc_sq; exact P2]. rewrite Er2. destruct (Henc e2 He2); lra. }
  (* D <= |P1 c1| + |c1 p| + |p c2| + |c2 P2| *)
  pose proof (triangle (a02 NumR t1) (a12 NumR t1) (a02 NumR t2) (a12 NumR t2) (dx_ NumR c1) (dy_ NumR c1)) as T1.
  pose proof (triangle (dx_ NumR c1) (dy_ NumR c1) (a02 NumR t2) (a12 NumR t2) px py) as T2.
  pose proof (triangle px py (a02 NumR t2) (a12 NumR t2) (dx_ NumR c2) (dy_ NumR c2)) as T3.
  rewrite (distance_symm (a02 NumR t1) (a12 NumR t1) (dx_ NumR c1) (dy_ NumR c1)) in T1.
  rewrite (distance_symm (dx_ NumR c1) (dy_ NumR c1) px py) in T2.
  fold D in T1. lra.
Qed.

(* orthogonality of a symmetry operation's linear part, and of the site rotation *)
Definition rigid_inputs (st : pstateR) : Prop :=
  Forall rigid (p_syms NumR st)
  /\ Forall (fun s => s_cos NumR s * s_cos NumR s + s_sin NumR s * s_sin NumR s = 1) (p_sites NumR st).

Lemma placement_rigid (sym : tfR) (s : siteR) :
  sym_row sym -> rigid sym -> s_cos NumR s * s_cos NumR s + s_sin NumR s * s_sin NumR s = 1 ->
  rigid (placement sym s).
Proof.
  intros Hrow (R1 & R2 & R3) Hcs.
  destruct (placement_spec sym s Hrow) as (E00 & E01 & E10 & E11 & _).
  unfold rigid. rewrite E00, E01, E10, E11.
  destruct sym as [t00 t01 t02 t10 t11 t12 t20 t21 t22], s as [x y c sn].
  cbn [a00 a01 a10 a11 s_cos s_sin] in *. change (carrier NumR) with R in *.
  repeat split.
  - replace ((t00 * c + t01 * sn) * (t00 * c + t01 * sn) + (t10 * c + t11 * sn) * (t10 * c + t11 * sn))
      with ((t00 * t00 + t10 * t10) * (c * c) + 2 * (t00 * t01 + t10 * t11) * (c * sn) + (t01 * t01 + t11 * t11) * (sn * sn)) by ring.
    rewrite R1, R2, R3. lra.
  - replace ((t00 * c + t01 * sn) * (t00 * - sn + t01 * c) + (t10 * c + t11 * sn) * (t10 * - sn + t11 * c))
      with ((t00 * t01 + t10 * t11) * (c * c - sn * sn) + ((t01 * t01 + t11 * t11) - (t00 * t00 + t10 * t10)) * (c * sn)) by ring.
    rewrite R1, R2, R3. lra.
  - replace ((t00 * - sn + t01 * c) * (t00 * - sn + t01 * c) + (t10 * - sn + t11 * c) * (t10 * - sn + t11 * c))
      with ((t00 * t00 + t10 * t10) * (sn * sn) - 2 * (t00 * t01 + t10 * t11) * (c * sn) + (t01 * t01 + t11 * t11) * (c * c)) by ring.
    rewrite R1, R2, R3. lra.
Qed.

(* every copy of a well-formed state with rigid inputs is an affine, rigid placement *)
Lemma rel_rigid (st : pstateR) q : wf_state st -> rigid_inputs st -> (q < copies st)%nat ->
  affine_row (nth q (relative_positions NumR st) dflt) /\ rigid (nth q (relative_positions NumR st) dflt).
Proof.
  intros Hwf [Hrig Hcs] Hq. split; [apply (nth_rel_spec st q Hwf Hq)|].
  destruct (rel_members st _ (nth_In _ dflt Hq)) as (sym & s & Hsym & Hs & E). rewrite E.
  destruct Hwf as [Hs' _ _ _ _ _]. rewrite Forall_forall in Hs', Hrig, Hcs.
  apply placement_rigid; [now apply Hs'|now apply Hrig|now apply Hcs].
Qed.

(* C01 for circle and trimer shapes, as a statement about the plane: if the state is scored, no point
   is interior to copy i and to copy j translated by n A + m B, for all i, j and ALL (n, m) in Z^2 *)
Theorem scored_disc_packing_has_no_overlap (st : pstateR) (l : list discR) :
  wf_state st -> rigid_inputs st -> p_shape NumR st = Mol l -> enclosed (p_radius NumR st) l ->
  packed_score NumR st <> None ->
  forall i j (n m : Z), (i < copies st)%nat -> (j < copies st)%nat ->
  ~ (i = j /\ n = 0%Z /\ m = 0%Z) ->
  forall p : R * R, ~ (in_mol (placed_mol (copy st i) l) p /\ in_mol (placed_mol (image st j n m) l) p).
Proof.
  intros Hwf Hri Hshape Henc Hscore i j n m Hi Hj Hne p.
  (* the two placements are affine and rigid *)
  assert (Hpl : forall q, (q < copies st)%nat ->
            affine_row (nth q (relative_positions NumR st) dflt) /\ rigid (nth q (relative_positions NumR st) dflt))
    by (intros q Hq; now apply rel_rigid).
  destruct (Hpl i Hi) as [Ai Gi]. destruct (Hpl j Hj) as [Aj Gj].
  assert (Ac : affine_row (copy st i) /\ rigid (copy st i)).
  { rewrite (copy_is_cart st i Hi). split; [exact Ai|exact Gi]. }
  assert (Am : affine_row (image st j n m) /\ rigid (image st j n m)).
  { unfold image, to_cartesian_translate. destruct (tf_position NumR _). split; [exact Aj|exact Gj]. }
  destruct Ac as [Ac Gc], Am as [Am Gm].
  destruct (scored_packing_all_pairs_checked st Hwf Hscore i j n m Hi Hj Hne) as [Hfar|Hno].
  - apply (far_molecules_disjoint _ _ l (p_radius NumR st) p Ac Am Gc Gm Henc).
    unfold centre_dist2 in Hfar. rewrite (tf_position_affine _ Ac), (tf_position_affine _ Am) in Hfar.
    unfold norm2, sq in Hfar. cbn [nadd nsub nmul NumR n2 nofZ] in Hfar. unfold dist2. exact Hfar.
  - rewrite Hshape in Hno. cbn [shape_transform] in Hno. fold (placed_mol (copy st i) l) in Hno.
    fold (placed_mol (image st j n m) l) in Hno.
    intros Hcommon. assert (Hyes : shape_intersects NumR (Mol (placed_mol (copy st i) l)) (Mol (placed_mol (image st j n m) l)) = true).
    { apply mol_test_exact; [| |exists p; exact Hcommon].
      all: apply Forall_forall; intros d Hd; unfold placed_mol in Hd; apply in_map_iff in Hd;
        destruct Hd as (e & <- & He); unfold enclosed in Henc; rewrite Forall_forall in Henc;
        destruct (Henc e He) as [Hr _]; unfold disc_transform; destruct (tf_apply NumR _ _); exact Hr. }
    congruence.
Qed.
