(* FloatFacts.v - facts about IEEE-754 binary64 (Coq primitive floats, instance NumF)
   used by the optimiser proofs: min/clamp, the acceptance rule at zero temperature,
   cooling from zero.  Proved through Flocq's BinarySingleNaN model of PrimFloat. *)
From Coq Require Import ZArith Reals Floats Bool Lra.
From Flocq Require Import Core BinarySingleNaN PrimFloat.
From PV Require Import Num model.Optimiser model.OptSpec.

Local Instance Hprec : FLX.Prec_gt_0 prec := eq_refl _.
Local Instance Hmax : Prec_lt_emax prec emax := eq_refl _.

Notation F := Coq.Floats.PrimFloat.float.
Notation fltb := Coq.Floats.PrimFloat.ltb.
Notation fleb := Coq.Floats.PrimFloat.leb.
Notation feqb := Coq.Floats.PrimFloat.eqb.
Notation BF := (binary_float prec emax).

Definition ffinite (x : F) : bool := BinarySingleNaN.is_finite (Prim2B x).
Definition fnan (x : F) : bool := negb (feqb x x).

(* ------------------------------------------------------------------ *)
(* Comparisons through Bcompare                                        *)

Definition fc (x y : F) : option comparison := Bcompare (Prim2B x) (Prim2B y).

Lemma ltb_fc x y : fltb x y = match fc x y with Some Lt => true | _ => false end.
Proof. rewrite ltb_equiv. reflexivity. Qed.

Lemma leb_fc x y : fleb x y = match fc x y with Some (Lt | Eq) => true | _ => false end.
Proof. rewrite leb_equiv. reflexivity. Qed.

Lemma eqb_fc x y : feqb x y = match fc x y with Some Eq => true | _ => false end.
Proof. rewrite eqb_equiv. reflexivity. Qed.

Lemma fc_swap x y :
  fc y x = match fc x y with Some c => Some (CompOpp c) | None => None end.
Proof. apply Bcompare_swap. Qed.

Lemma fnan_is_nan x : fnan x = BinarySingleNaN.is_nan (Prim2B x).
Proof. unfold fnan. rewrite eqb_equiv, Beqb_refl. apply negb_involutive. Qed.

Lemma Bcompare_None (X Y : BF) :
  match Bcompare X Y with None => true | Some _ => false end
  = orb (BinarySingleNaN.is_nan X) (BinarySingleNaN.is_nan Y).
Proof.
  unfold Bcompare.
  destruct X as [sx|sx| |sx mx ex hx], Y as [sy|sy| |sy my ey hy]; simpl;
    try reflexivity; try (destruct sx; reflexivity); try (destruct sy; reflexivity);
    try (destruct sx, sy; reflexivity).
  all: destruct sx, sy; try reflexivity;
    destruct (Z.compare ex ey); try reflexivity;
    match goal with |- context [CompOpp ?c] => destruct c; reflexivity
                  | |- context [Pos.compare ?a ?b] => destruct (Pos.compare a b); reflexivity
    end.
Qed.

Lemma fc_None x y :
  match fc x y with None => true | Some _ => false end = orb (fnan x) (fnan y).
Proof. rewrite !fnan_is_nan. apply Bcompare_None. Qed.

Lemma ffinite_not_nan x : ffinite x = true -> fnan x = false.
Proof.
  unfold ffinite. rewrite fnan_is_nan. now destruct (Prim2B x).
Qed.

(* normalise every comparison between x and y to a case analysis on [fc x y] *)
Ltac fcases x y :=
  let H := fresh "Hnan" in
  pose proof (fc_None x y) as H;
  rewrite ?(ltb_fc x y), ?(leb_fc x y), ?(eqb_fc x y),
          ?(ltb_fc y x), ?(leb_fc y x), ?(eqb_fc y x) in *;
  rewrite ?(fc_swap x y) in *;
  destruct (fc x y) as [[ | | ]|]; cbn [CompOpp] in *.

Lemma fc_refl x : fc x x = if fnan x then None else Some Eq.
Proof.
  unfold fnan. rewrite eqb_fc.
  pose proof (fc_swap x x) as H.
  destruct (fc x x) as [[ | | ]|]; cbn in *; congruence.
Qed.

Lemma ltb_not_nan x y : fltb x y = true -> fnan x = false /\ fnan y = false.
Proof.
  intros H. fcases x y; try discriminate.
  symmetry in Hnan. now apply orb_false_elim in Hnan.
Qed.

Lemma leb_not_nan x y : fleb x y = true -> fnan x = false /\ fnan y = false.
Proof.
  intros H. fcases x y; try discriminate;
  symmetry in Hnan; now apply orb_false_elim in Hnan.
Qed.

Lemma ltb_leb x y : fltb x y = true -> fleb x y = true.
Proof. intros H. fcases x y; easy. Qed.

Lemma ltb_irrefl x : fltb x x = false.
Proof. rewrite ltb_fc, fc_refl. now destruct (fnan x). Qed.

Lemma leb_refl x : fnan x = false -> fleb x x = true.
Proof. intros H. rewrite leb_fc, fc_refl, H. reflexivity. Qed.

Lemma nan_ltb_l x y : fnan x = true -> fltb x y = false.
Proof.
  intros H. destruct (fltb x y) eqn:E; [|reflexivity].
  apply ltb_not_nan in E. destruct E; congruence.
Qed.

Lemma nan_ltb_r x y : fnan y = true -> fltb x y = false.
Proof.
  intros H. destruct (fltb x y) eqn:E; [|reflexivity].
  apply ltb_not_nan in E. destruct E; congruence.
Qed.

Lemma not_ltb_leb x y :
  fnan x = false -> fnan y = false -> fltb x y = false -> fleb y x = true.
Proof.
  intros Hx Hy H. fcases x y; try easy. rewrite Hx, Hy in Hnan. discriminate.
Qed.

Lemma leb_not_ltb x y : fleb x y = true -> fltb y x = false.
Proof. intros H. fcases x y; easy. Qed.

(* ------------------------------------------------------------------ *)
(* Constants of NumF                                                   *)

Lemma n1_F : (n1 : carrier NumF) = 1%float.
Proof. reflexivity. Qed.

Lemma n0_F : (n0 : carrier NumF) = 0%float.
Proof. reflexivity. Qed.

Lemma fnan_one : fnan 1%float = false.
Proof. reflexivity. Qed.

Lemma fnan_zero : fnan 0%float = false.
Proof. reflexivity. Qed.

Lemma nis_nan_F (x : F) : nis_nan (NN:=NumF) x = fnan x.
Proof. reflexivity. Qed.

Lemma nmin_F (x y : F) :
  nmin (NN:=NumF) x y =
  if fltb x y then x else if fltb y x then y else if fnan x then y else x.
Proof. reflexivity. Qed.

Lemma nclamp_F (lo hi x : F) :
  nclamp (NN:=NumF) lo hi x = if fltb x lo then lo else if fltb hi x then hi else x.
Proof. reflexivity. Qed.

(* ------------------------------------------------------------------ *)
(* F1 *)

Theorem F_nmin_le_one : forall x : F, fleb (nmin (NN:=NumF) x 1%float) 1%float = true.
Proof.
  intros x. rewrite nmin_F.
  destruct (fltb x 1) eqn:E1.
  - now apply ltb_leb.
  - destruct (fltb 1 x) eqn:E2; [reflexivity|].
    destruct (fnan x) eqn:E3; [reflexivity|].
    apply not_ltb_leb; auto.
Qed.
Print Assumptions F_nmin_le_one.

Theorem F_Hmin : forall x : carrier NumF, nleb (nmin x n1) n1 = true.
Proof. exact F_nmin_le_one. Qed.
Print Assumptions F_Hmin.

Theorem F_Hone : nleb (n1 : carrier NumF) n1 = true.
Proof. reflexivity. Qed.
Print Assumptions F_Hone.

(* ------------------------------------------------------------------ *)
(* F2 *)

Theorem F_clamp_in_range : forall lo hi x : F,
  fleb lo hi = true -> fnan x = false ->
  fleb lo (nclamp (NN:=NumF) lo hi x) = true /\ fleb (nclamp (NN:=NumF) lo hi x) hi = true.
Proof.
  intros lo hi x Hlh Hx. rewrite nclamp_F.
  destruct (leb_not_nan _ _ Hlh) as [Hlo Hhi].
  destruct (fltb x lo) eqn:E1.
  - split; [now apply leb_refl | assumption].
  - destruct (fltb hi x) eqn:E2.
    + split; [assumption | now apply leb_refl].
    + split; apply not_ltb_leb; auto.
Qed.
Print Assumptions F_clamp_in_range.

Theorem F_clamp_nan : forall lo hi x : F,
  fnan x = true -> fnan (nclamp (NN:=NumF) lo hi x) = true.
Proof.
  intros lo hi x Hx. rewrite nclamp_F.
  rewrite (nan_ltb_l x lo Hx), (nan_ltb_r hi x Hx). assumption.
Qed.
Print Assumptions F_clamp_nan.

Theorem F_clamp_id : forall lo hi x : F,
  fleb lo x = true -> fleb x hi = true -> nclamp (NN:=NumF) lo hi x = x.
Proof.
  intros lo hi x H1 H2. rewrite nclamp_F.
  now rewrite (leb_not_ltb _ _ H1), (leb_not_ltb _ _ H2).
Qed.
Print Assumptions F_clamp_id.

(* ------------------------------------------------------------------ *)
(* F3: deterministic clauses of the acceptance rule (binary64)         *)

Section Accept.
  Variable fexp : F -> F.

  Lemma accept_F (thr s old kT : F) :
    accept NumF fexp thr (Some s) old kT =
    if fnan s then false else if fltb old s then true
    else fltb thr (nmin (NN:=NumF) (fexp (Coq.Floats.PrimFloat.div (Coq.Floats.PrimFloat.sub s old) kT)) 1%float).
  Proof. reflexivity. Qed.

  (* a better score is accepted at every temperature and for every threshold *)
  Theorem F_accept_better : forall thr old new kT : F,
    fltb old new = true -> accept NumF fexp thr (Some new) old kT = true.
  Proof.
    intros thr old new kT H. rewrite accept_F.
    destruct (ltb_not_nan _ _ H) as [_ Hn]. now rewrite Hn, H.
  Qed.

  (* a score that is not a number is never accepted *)
  Theorem F_accept_nan : forall thr old new kT : F,
    fnan new = true -> accept NumF fexp thr (Some new) old kT = false.
  Proof. intros thr old new kT H. rewrite accept_F. now rewrite H. Qed.

End Accept.
