(* CorShells.v - the shell count of check_intersection AS TRANSLATED FROM THE SOURCE on this run suffices (reals): the
   theorem about the model's shells_of carried across shells_is_source. *)
From Coq Require Import ZArith NArith List Bool Reals Lra.
From PV Require Import Num NumR model.Optimiser gen.GenFns proofs.SrcState proofs.RealFacts.
Local Open Scope R_scope.

(* a proposal without a score is never accepted, at any temperature and for any draw *)
From PV Require Import model.Geom proofs.PackingFacts.

Theorem source_shell_count_suffices : forall (st : pstate NumR) (fxi fyi fxj fyj : R) (n m : Z),
  wf_state st ->
  -1/2 <= fxi < 1/2 -> -1/2 <= fyi < 1/2 -> -1/2 <= fxj < 1/2 -> -1/2 <= fyj < 1/2 ->
  (gen_shells NumR st < Z.abs n \/ gen_shells NumR st < Z.abs m)%Z ->
  forall x1 y1 x2 y2 : R,
  to_cartesian NumR (p_cell NumR st) (fxi, fyi) = (x1, y1) ->
  to_cartesian NumR (p_cell NumR st) (fxj + IZR n, fyj + IZR m) = (x2, y2) ->
  gen_radius_sq NumR st < (x1 - x2) * (x1 - x2) + (y1 - y2) * (y1 - y2).
Proof.
  intros st fxi fyi fxj fyj n m Hwf Xi Yi Xj Yj Hout x1 y1 x2 y2 E1 E2.
  rewrite shells_is_source in Hout. rewrite radius_sq_is_source.
  pose proof (outside_shells_is_far st fxi fyi fxj fyj n m Hwf Xi Yi Xj Yj Hout x1 y1 x2 y2 E1 E2) as H.
  unfold sq. cbn [nmul NumR n2 nofZ]. exact H.
Qed.
