(* CorLJ.v - LJ2::energy AS TRANSLATED FROM THE SOURCE on this run, over the reals: the theorems about the model's
   lj_energy carried across lj_energy_is_source. *)
From Coq Require Import ZArith NArith List Bool Reals Lra.
From PV Require Import Num NumR model.Optimiser gen.GenFns proofs.SrcShapes proofs.RealFacts.
Local Open Scope R_scope.

(* a proposal without a score is never accepted, at any temperature and for any draw *)
From PV Require Import model.Geom proofs.LJFacts.

Theorem source_lj_is_12_6 : forall (a b : lj NumR) (r : R),
  lcut NumR a = None -> 0 < r -> r * r = r2_of a b ->
  gen_lj_energy NumR rpowi a b = 4 * leps NumR a * ((lsigma NumR a / r) ^ 12 - (lsigma NumR a / r) ^ 6).
Proof. intros a b r H1 H2 H3. rewrite lj_energy_is_source. exact (lj_is_12_6 a b r H1 H2 H3). Qed.

Theorem source_lj_zero_beyond : forall (a b : lj NumR) (x : R),
  lcut NumR a = Some x -> x * x <= r2_of a b -> gen_lj_energy NumR rpowi a b = 0.
Proof. intros a b x H1 H2. rewrite lj_energy_is_source. exact (lj_zero_beyond a b x H1 H2). Qed.

Theorem source_lj_symmetric_like : forall a b : lj NumR,
  lsigma NumR a = lsigma NumR b -> leps NumR a = leps NumR b -> lcut NumR a = lcut NumR b ->
  gen_lj_energy NumR rpowi a b = gen_lj_energy NumR rpowi b a.
Proof. intros a b H1 H2 H3. rewrite !lj_energy_is_source. exact (lj_symmetric_like a b H1 H2 H3). Qed.

(* ------------------------------------------------------------------ *)
(* C01: the shell count AS COMPUTED BY THE SOURCE's formula suffices: an image further away in cell indices than
   ceil(2 R / (sin(angle) min(a, b))) is further than 2 R from every copy in the cell *)
