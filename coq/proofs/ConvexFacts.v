(* ConvexFacts.v - C12, the completeness direction for convex polygons, over the reals:
   if two convex polygons have a common interior point and neither has all its vertices strictly inside
   the other, then some edge of one and some edge of the other satisfy the segment predicate of
   Line2::intersects (non-parallel, both parameters in [0,1]) - so the polygon test answers "yes".

   A polygon is a list of segments (the model's `Poly l`), closed (each edge ends where the next starts,
   the last where the first starts) and strictly convex with orientation sigma (+1 counter-clockwise,
   -1 clockwise): every vertex lies on the inner side of every edge, strictly so for the far end of the
   neighbouring edges. *)
From Coq Require Import ZArith List Bool Reals Lra Lia Psatz.
From PV Require Import Num NumR model.Geom proofs.OverlapFacts.
Import ListNotations.
Local Open Scope R_scope.

Definition pt := (R * R)%type.
Definition seg_start (e : segR) : pt := (sx1 NumR e, sy1 NumR e).
Definition seg_end (e : segR) : pt := (sx2 NumR e, sy2 NumR e).
Definition mk_seg (p q : pt) : segR := @mkSeg NumR (fst p) (snd p) (fst q) (snd q).

(* the side of the line of e on which p lies, positive = inside for orientation sigma *)
Definition side (sigma : R) (e : segR) (p : pt) : R :=
  sigma * ((sx2 NumR e - sx1 NumR e) * (snd p - sy1 NumR e) - (sy2 NumR e - sy1 NumR e) * (fst p - sx1 NumR e)).

Definition lerp (p q : pt) (t : R) : pt := (fst p + t * (fst q - fst p), snd p + t * (snd q - snd p)).

Lemma side_lerp sigma e p q t : side sigma e (lerp p q t) = (1 - t) * side sigma e p + t * side sigma e q.
Proof. unfold side, lerp. cbn [fst snd]. ring. Qed.

Definition strictly_inside (sigma : R) (l : list segR) (p : pt) : Prop := forall e, In e l -> 0 < side sigma e p.
Definition inside_closed (sigma : R) (l : list segR) (p : pt) : Prop := forall e, In e l -> 0 <= side sigma e p.

(* ------------------------------------------------------------------ *)
(* first exit along a segment                                          *)

(* constraints as pairs (value at p0, value at p1): the first t at which one of them vanishes *)
Lemma first_exit_1d (l : list (R * R)) :
  Forall (fun ab => 0 < fst ab) l -> Exists (fun ab => snd ab <= 0) l ->
  exists t ab, 0 < t <= 1 /\ In ab l /\ snd ab <= 0 /\ (1 - t) * fst ab + t * snd ab = 0
               /\ Forall (fun cd => 0 <= (1 - t) * fst cd + t * snd cd) l.
Proof.
  induction l as [|[a b] l IH]; intros Hpos Hex; [inversion Hex|].
  inversion Hpos as [|? ? Ha Hpos']; subst. cbn [fst snd] in Ha.
  destruct (Exists_dec (fun ab : R * R => snd ab <= 0) l) as [Hl|Hl].
  { intros x. destruct (Rle_dec (snd x) 0); [left|right]; assumption. }
  - (* the tail has an exit: compare with this constraint *)
    destruct (IH Hpos' Hl) as (t & ab & Ht & Hin & Hb & Hz & Hall).
    destruct (Rle_lt_dec 0 ((1 - t) * a + t * b)) as [Hok|Hbad].
    + exists t, ab. repeat split; try tauto; [now right|]. constructor; [exact Hok|exact Hall].
    + (* this constraint is violated earlier: exit here *)
      assert (Hb0 : b < 0) by nra.
      set (t' := a / (a - b)).
      assert (Ht' : 0 < t' <= 1).
      { unfold t'. split; [apply Rdiv_lt_0_compat; lra|]. apply Rmult_le_reg_r with (a - b); [lra|].
        unfold Rdiv. rewrite Rmult_assoc, Rinv_l by lra. lra. }
      assert (Hlt : t' < t).
      { (* (1-t) a + t b < 0 means t > a/(a-b) *)
        unfold t'. apply Rmult_lt_reg_r with (a - b); [lra|]. unfold Rdiv. rewrite Rmult_assoc, Rinv_l by lra. nra. }
      exists t', (a, b). cbn [fst snd]. repeat split; try tauto; try lra; [now left| |].
      * unfold t'. field. lra.
      * constructor; [cbn [fst snd]; unfold t'; right; field; lra|].
        (* earlier than t, every other constraint is still satisfied (affine, positive at 0, >= 0 at t) *)
        rewrite Forall_forall in *. intros [c d] Hcd. cbn [fst snd].
        specialize (Hall _ Hcd). specialize (Hpos' _ Hcd). cbn [fst snd] in *.
        assert (E : (1 - t') * c + t' * d = (1 - t' / t) * c + (t' / t) * ((1 - t) * c + t * d)) by (field; lra).
        rewrite E. assert (0 < t' / t < 1).
        { split; [apply Rdiv_lt_0_compat; lra|]. apply Rmult_lt_reg_r with t; [lra|].
          unfold Rdiv. rewrite Rmult_assoc, Rinv_l by lra. lra. }
        nra.
  - (* the only exit is this constraint *)
    assert (Hb : b <= 0).
    { inversion Hex as [? ? H|? ? H]; subst; [exact H|contradiction]. }
    set (t' := a / (a - b)).
    assert (Ht' : 0 < t' <= 1).
    { unfold t'. split; [apply Rdiv_lt_0_compat; lra|]. apply Rmult_le_reg_r with (a - b); [lra|].
      unfold Rdiv. rewrite Rmult_assoc, Rinv_l by lra. lra. }
    exists t', (a, b). cbn [fst snd]. repeat split; try tauto; [now left| |].
    + unfold t'. field. lra.
    + constructor; [cbn [fst snd]; unfold t'; right; field; lra|].
      rewrite Forall_forall in *. intros [c d] Hcd. cbn [fst snd].
      specialize (Hpos' _ Hcd). cbn [fst snd] in Hpos'.
      assert (0 < d).
      { destruct (Rlt_le_dec 0 d); [assumption|]. exfalso. apply Hl. apply Exists_exists. exists (c, d). auto. }
      nra.
Qed.

(* ------------------------------------------------------------------ *)
(* convex polygons                                                     *)

Record convex (sigma : R) (l : list segR) : Prop := {
  cv_sigma : sigma = 1 \/ sigma = -1;
  (* every vertex lies in the closed polygon *)
  cv_vertices : forall e, In e l -> inside_closed sigma l (seg_start e) /\ inside_closed sigma l (seg_end e);
  (* the previous edge ends where e starts, and the end of e is strictly inside its line *)
  cv_prev : forall e, In e l -> exists ep, In ep l /\ seg_end ep = seg_start e /\ 0 < side sigma ep (seg_end e);
  (* the next edge starts where e ends, and the start of e is strictly inside its line *)
  cv_next : forall e, In e l -> exists en, In en l /\ seg_start en = seg_end e /\ 0 < side sigma en (seg_start e);
}.

Lemma side_at_start sigma e : side sigma e (seg_start e) = 0.
Proof. unfold side, seg_start. cbn [fst snd]. ring. Qed.
Lemma side_at_end sigma e : side sigma e (seg_end e) = 0.
Proof. unfold side, seg_end. cbn [fst snd]. ring. Qed.

Lemma lerp_ends p q : lerp p q 0 = p /\ lerp p q 1 = q.
Proof. unfold lerp. destruct p, q. cbn. split; f_equal; ring. Qed.

(* a point on the line of e is start + s (end - start) *)
Lemma on_line_param (e : segR) (X : pt) :
  seg_start e <> seg_end e ->
  (sx2 NumR e - sx1 NumR e) * (snd X - sy1 NumR e) - (sy2 NumR e - sy1 NumR e) * (fst X - sx1 NumR e) = 0 ->
  exists s, X = lerp (seg_start e) (seg_end e) s.
Proof.
  intros Hne Hc. unfold seg_start, seg_end, lerp in *. destruct e as [x1 y1 x2 y2], X as [x y].
  cbn [sx1 sy1 sx2 sy2 fst snd] in *. change (carrier NumR) with R in *.
  set (dx := x2 - x1) in *. set (dy := y2 - y1) in *.
  assert (HD : 0 < dx * dx + dy * dy).
  { destruct (Req_dec dx 0) as [E1|E1], (Req_dec dy 0) as [E2|E2].
    - exfalso. apply Hne. unfold dx, dy in *. f_equal; lra.
    - pose proof (Rle_0_sqr dx). assert (0 < dy * dy) by nra. unfold Rsqr in *. lra.
    - pose proof (Rle_0_sqr dy). assert (0 < dx * dx) by nra. unfold Rsqr in *. lra.
    - assert (0 < dx * dx) by nra. assert (0 < dy * dy) by nra. lra. }
  exists (((x - x1) * dx + (y - y1) * dy) / (dx * dx + dy * dy)).
  assert (Ex : ((x - x1) * dx + (y - y1) * dy) * dx = (x - x1) * (dx * dx + dy * dy)).
  { replace (((x - x1) * dx + (y - y1) * dy) * dx) with ((x - x1) * (dx * dx) + dy * (dx * (y - y1))) by ring.
    replace (dx * (y - y1)) with (dy * (x - x1)) by lra. ring. }
  assert (Ey : ((x - x1) * dx + (y - y1) * dy) * dy = (y - y1) * (dx * dx + dy * dy)).
  { replace (((x - x1) * dx + (y - y1) * dy) * dy) with ((y - y1) * (dy * dy) + dx * (dy * (x - x1))) by ring.
    replace (dy * (x - x1)) with (dx * (y - y1)) by lra. ring. }
  f_equal.
  - replace (((x - x1) * dx + (y - y1) * dy) / (dx * dx + dy * dy) * dx)
      with ((((x - x1) * dx + (y - y1) * dy) * dx) / (dx * dx + dy * dy)) by (field; lra).
    rewrite Ex. field. lra.
  - replace (((x - x1) * dx + (y - y1) * dy) / (dx * dx + dy * dy) * dy)
      with ((((x - x1) * dx + (y - y1) * dy) * dy) / (dx * dx + dy * dy)) by (field; lra).
    rewrite Ey. field. lra.
Qed.

(* C12, the heart: leaving a convex polygon from a strictly interior point crosses one of its edges
   transversally, at a point of the edge SEGMENT *)
Lemma exit_through_an_edge sigma (Q : list segR) (p0 p1 : pt) :
  convex sigma Q -> strictly_inside sigma Q p0 -> (exists e, In e Q /\ side sigma e p1 <= 0) ->
  exists e t s, In e Q /\ 0 < t <= 1 /\ 0 <= s <= 1
    /\ lerp p0 p1 t = lerp (seg_start e) (seg_end e) s
    /\ 0 < side sigma e p0 /\ side sigma e p1 <= 0
    /\ inside_closed sigma Q (lerp p0 p1 t).
Proof.
  intros Hcv Hin (e0 & He0 & Hout).
  set (l := map (fun e => (side sigma e p0, side sigma e p1)) Q).
  assert (Hpos : Forall (fun ab => 0 < fst ab) l).
  { apply Forall_forall. intros ab Hab. apply in_map_iff in Hab. destruct Hab as (e & <- & He). now apply Hin. }
  assert (Hex : Exists (fun ab => snd ab <= 0) l).
  { apply Exists_exists. exists (side sigma e0 p0, side sigma e0 p1). split; [|exact Hout].
    apply in_map_iff. exists e0. auto. }
  destruct (first_exit_1d l Hpos Hex) as (t & ab & Ht & Hab & Hb & Hz & Hall).
  apply in_map_iff in Hab. destruct Hab as (e & <- & He). cbn [fst snd] in *.
  set (X := lerp p0 p1 t).
  assert (HX0 : side sigma e X = 0) by (unfold X; rewrite side_lerp; exact Hz).
  assert (HXall : inside_closed sigma Q X).
  { intros e' He'. unfold X. rewrite side_lerp. rewrite Forall_forall in Hall.
    apply (Hall (side sigma e' p0, side sigma e' p1)). apply in_map_iff. exists e'. auto. }
  destruct (cv_prev sigma Q Hcv e He) as (ep & Hep & Hpe & Hp1).
  destruct (cv_next sigma Q Hcv e He) as (en & Hen & Hne' & Hn0).
  assert (Hp0 : side sigma ep (seg_start e) = 0) by (rewrite <- Hpe; apply side_at_end).
  assert (Hn1 : side sigma en (seg_end e) = 0) by (rewrite <- Hne'; apply side_at_start).
  assert (Hne : seg_start e <> seg_end e) by (intros E; rewrite E in Hp0; lra).
  assert (Hline : (sx2 NumR e - sx1 NumR e) * (snd X - sy1 NumR e) - (sy2 NumR e - sy1 NumR e) * (fst X - sx1 NumR e) = 0).
  { unfold side in HX0. destruct (cv_sigma sigma Q Hcv) as [-> | ->]; lra. }
  destruct (on_line_param e X Hne Hline) as [s Hs].
  exists e, t, s. split; [exact He|]. split; [exact Ht|].
  assert (Hs01 : 0 <= s <= 1).
  { pose proof (HXall ep Hep) as H1. pose proof (HXall en Hen) as H2.
    rewrite Hs, side_lerp in H1, H2. rewrite Hp0 in H1. rewrite Hn1 in H2. split; nra. }
  split; [exact Hs01|]. split; [exact Hs|]. split; [now apply Hin|]. split; [exact Hb|exact HXall].
Qed.

(* the segment predicate holds for two segments that meet transversally within their parameter ranges *)
Lemma crossing_is_detected sigma (e : segR) (p0 p1 : pt) (t s : R) :
  sigma = 1 \/ sigma = -1 -> 0 <= t <= 1 -> 0 <= s <= 1 ->
  lerp p0 p1 t = lerp (seg_start e) (seg_end e) s ->
  0 < side sigma e p0 -> side sigma e p1 <= 0 ->
  seg_intersects NumR (mk_seg p0 p1) e = true.
Proof.
  intros Hsig Ht Hs Heq H0 H1. apply seg_intersects_spec.
  unfold lerp, seg_start, seg_end in Heq. destruct p0 as [x0 y0], p1 as [x1 y1], e as [a1 b1 a2 b2].
  cbn [fst snd sx1 sy1 sx2 sy2] in Heq. injection Heq as Hx Hy.
  unfold den, numa, numb, mk_seg, side in *. cbn [fst snd sx1 sy1 sx2 sy2] in *. change (carrier NumR) with R in *.
  set (dxs := x1 - x0) in *. set (dys := y1 - y0) in *. set (dxo := a2 - a1) in *. set (dyo := b2 - b1) in *.
  set (D := dyo * dxs - dxo * dys).
  assert (HD : D <> 0).
  { assert (sigma * (dxo * (y1 - b1) - dyo * (x1 - a1)) - sigma * (dxo * (y0 - b1) - dyo * (x0 - a1)) = - sigma * D)
      by (unfold D, dxs, dys; ring).
    destruct Hsig as [-> | ->]; intros E; rewrite E in *; lra. }
  assert (Ea : dxo * (y0 - b1) - dyo * (x0 - a1) = t * D).
  { replace (y0 - b1) with (s * dyo - t * dys) by lra. replace (x0 - a1) with (s * dxo - t * dxs) by lra. unfold D. ring. }
  assert (Eb : dxs * (y0 - b1) - dys * (x0 - a1) = s * D).
  { replace (y0 - b1) with (s * dyo - t * dys) by lra. replace (x0 - a1) with (s * dxo - t * dxs) by lra. unfold D. ring. }
  split; [exact HD|]. rewrite Ea, Eb.
  replace (t * D / D) with t by (field; exact HD). replace (s * D / D) with s by (field; exact HD). tauto.
Qed.

(* the same with the weakest transversality hypothesis: the two ends of the first segment lie at different
   signed distances from the line of e (so the segments are not parallel) *)
Lemma meeting_is_detected sigma (e : segR) (p0 p1 : pt) (t s : R) :
  sigma = 1 \/ sigma = -1 -> 0 <= t <= 1 -> 0 <= s <= 1 ->
  lerp p0 p1 t = lerp (seg_start e) (seg_end e) s ->
  side sigma e p0 <> side sigma e p1 ->
  seg_intersects NumR (mk_seg p0 p1) e = true.
Proof.
  intros Hsig Ht Hs Heq Hne. apply seg_intersects_spec.
  unfold lerp, seg_start, seg_end in Heq. destruct p0 as [x0 y0], p1 as [x1 y1], e as [a1 b1 a2 b2].
  cbn [fst snd sx1 sy1 sx2 sy2] in Heq. injection Heq as Hx Hy.
  unfold den, numa, numb, mk_seg, side in *. cbn [fst snd sx1 sy1 sx2 sy2] in *. change (carrier NumR) with R in *.
  set (dxs := x1 - x0) in *. set (dys := y1 - y0) in *. set (dxo := a2 - a1) in *. set (dyo := b2 - b1) in *.
  set (D := dyo * dxs - dxo * dys).
  assert (HD : D <> 0).
  { assert (sigma * (dxo * (y1 - b1) - dyo * (x1 - a1)) - sigma * (dxo * (y0 - b1) - dyo * (x0 - a1)) = - sigma * D)
      by (unfold D, dxs, dys; ring).
    destruct Hsig as [-> | ->]; intros E; rewrite E in *; lra. }
  assert (Ea : dxo * (y0 - b1) - dyo * (x0 - a1) = t * D).
  { replace (y0 - b1) with (s * dyo - t * dys) by lra. replace (x0 - a1) with (s * dxo - t * dxs) by lra. unfold D. ring. }
  assert (Eb : dxs * (y0 - b1) - dys * (x0 - a1) = s * D).
  { replace (y0 - b1) with (s * dyo - t * dys) by lra. replace (x0 - a1) with (s * dxo - t * dxs) by lra. unfold D. ring. }
  split; [exact HD|]. rewrite Ea, Eb.
  replace (t * D / D) with t by (field; exact HD). replace (s * D / D) with s by (field; exact HD). tauto.
Qed.

Lemma mk_seg_eta (e : segR) : mk_seg (seg_start e) (seg_end e) = e.
Proof. destruct e; reflexivity. Qed.

(* ------------------------------------------------------------------ *)
(* closed edge cycles                                                  *)

Fixpoint linked (l : list segR) : Prop :=
  match l with
  | e :: ((e' :: _) as r) => seg_end e = seg_start e' /\ linked r
  | _ => True
  end.

Definition closed (l : list segR) : Prop :=
  linked l /\ match l with [] => True | e :: r => seg_end (last r e) = seg_start e end.

Lemma last_cons (a d : segR) (r : list segR) : last (a :: r) d = last r a.
Proof.
  revert a d. induction r as [|b r IH]; intros a d; [reflexivity|].
  change (last (a :: b :: r) d) with (last (b :: r) d). rewrite IH. symmetry. apply IH.
Qed.

Section Walk.
  Variable A : pt -> Prop.
  Variable l : list segR.
  Hypothesis Hstep : forall e, In e l -> A (seg_start e) -> A (seg_end e).

  Lemma propagate (e : segR) (r : list segR) :
    linked (e :: r) -> incl (e :: r) l -> A (seg_start e) ->
    (forall x, In x (e :: r) -> A (seg_start x)) /\ A (seg_end (last r e)).
  Proof.
    revert e. induction r as [|e' r IH]; intros e Hl Hi Ha.
    - cbn [last]. split; [intros x [<-|[]]; exact Ha|]. apply Hstep; [apply Hi; now left|exact Ha].
    - cbn [linked] in Hl. destruct Hl as [E Hl].
      assert (Ha' : A (seg_start e')). { rewrite <- E. apply Hstep; [apply Hi; now left|exact Ha]. }
      destruct (IH e' Hl (fun x Hx => Hi x (or_intror Hx)) Ha') as [H1 H2]. split.
      + intros x [<-|Hx]; [exact Ha|now apply H1].
      + rewrite last_cons. exact H2.
  Qed.

  Lemma linked_suffix (pre : list segR) (e : segR) (post : list segR) :
    linked (pre ++ e :: post) -> linked (e :: post).
  Proof.
    induction pre as [|a pre IH]; [auto|]. intros H. apply IH.
    cbn [app linked] in H. destruct (pre ++ e :: post) eqn:E; [destruct pre; discriminate|]. tauto.
  Qed.

  Lemma last_suffix (pre : list segR) (e d : segR) (post : list segR) :
    last (pre ++ e :: post) d = last post e.
  Proof.
    induction pre as [|a pre IH]; [apply last_cons|].
    cbn [app]. destruct (pre ++ e :: post) as [|x xs] eqn:E; [destruct pre; discriminate|].
    change (last (a :: x :: xs) d) with (last (x :: xs) d). exact IH.
  Qed.

  Lemma walk_all : closed l -> (exists e, In e l /\ A (seg_start e)) -> forall x, In x l -> A (seg_start x).
  Proof.
    intros [Hl Hc] (e0 & He0 & Ha0).
    destruct (in_split _ _ He0) as (pre & post & E).
    assert (Hsuf : linked (e0 :: post)) by (apply (linked_suffix pre); rewrite <- E; exact Hl).
    assert (Hinc : incl (e0 :: post) l).
    { intros x Hx. rewrite E. apply in_or_app. right. exact Hx. }
    destruct (propagate e0 post Hsuf Hinc Ha0) as [_ Hend].
    destruct l as [|f r] eqn:El; [destruct pre; discriminate|].
    assert (Hf : A (seg_start f)).
    { rewrite <- Hc.
      destruct pre as [|a pre].
      - cbn [app] in E. injection E as -> ->. exact Hend.
      - cbn [app] in E. injection E as -> ->. rewrite last_suffix. exact Hend. }
    rewrite <- El in *.
    assert (Hl' : linked (f :: r)) by (rewrite <- El; exact Hl).
    destruct (propagate f r Hl') as [Hall _]; [rewrite El; apply incl_refl|exact Hf|].
    intros x Hx. apply Hall. rewrite <- El. exact Hx.
  Qed.
End Walk.

Lemma Exists_dec_prop {T} (P : T -> Prop) (l : list T) :
  (forall x, P x \/ ~ P x) -> Exists P l \/ ~ Exists P l.
Proof.
  intros Hd. induction l as [|a l [IH|IH]].
  - right. intros H. inversion H.
  - left. now constructor 2.
  - destruct (Hd a) as [Ha|Ha]; [left; now constructor|].
    right. intros H. inversion H; subst; contradiction.
Qed.

(* a closed cycle with a vertex satisfying A and a vertex not satisfying it has an edge leading out of A *)
Lemma walk_out (A : pt -> Prop) (l : list segR) :
  (forall p, A p \/ ~ A p) -> closed l ->
  (exists e, In e l /\ A (seg_start e)) -> (exists e, In e l /\ ~ A (seg_start e)) ->
  exists e, In e l /\ A (seg_start e) /\ ~ A (seg_end e).
Proof.
  intros Hdec Hcl Hyes (e1 & He1 & Hno).
  assert (Hd : forall e, (A (seg_start e) /\ ~ A (seg_end e)) \/ ~ (A (seg_start e) /\ ~ A (seg_end e))).
  { intros e. destruct (Hdec (seg_start e)), (Hdec (seg_end e)); tauto. }
  destruct (Exists_dec_prop (fun e => A (seg_start e) /\ ~ A (seg_end e)) l Hd) as [H|H].
  - apply Exists_exists in H. destruct H as (e & He & H). exists e. tauto.
  - exfalso. apply Hno. apply (walk_all A l); [|exact Hcl|exact Hyes|exact He1].
    intros e He Ha. destruct (Hdec (seg_end e)) as [Hy|Hn]; [exact Hy|].
    exfalso. apply H. apply Exists_exists. exists e. tauto.
Qed.

(* ------------------------------------------------------------------ *)
(* overlapping convex polygons are detected                            *)

Lemma strictly_inside_dec sigma (Q : list segR) (p : pt) : strictly_inside sigma Q p \/ ~ strictly_inside sigma Q p.
Proof.
  induction Q as [|e Q [IH|IH]].
  - left. intros e [].
  - destruct (Rlt_le_dec 0 (side sigma e p)) as [H|H].
    + left. intros e' [<-|He']; [exact H|now apply IH].
    + right. intros Hs. specialize (Hs e (or_introl eq_refl)). lra.
  - right. intros Hs. apply IH. intros e' He'. apply Hs. now right.
Qed.

Lemma not_strict_exists sigma (Q : list segR) (p : pt) :
  ~ strictly_inside sigma Q p -> exists e, In e Q /\ side sigma e p <= 0.
Proof.
  induction Q as [|e Q IH]; intros H.
  - exfalso. apply H. intros e [].
  - destruct (Rlt_le_dec 0 (side sigma e p)) as [Hp|Hp].
    + destruct IH as (e' & He' & Hs).
      { intros Hs. apply H. intros e' [<-|He']; [exact Hp|now apply Hs]. }
      exists e'. split; [now right|exact Hs].
    + exists e. split; [now left|exact Hp].
Qed.

Lemma detect_PQ (P Q : list segR) (e f : segR) :
  In e P -> In f Q -> seg_intersects NumR e f = true -> shape_intersects NumR (Poly P) (Poly Q) = true.
Proof.
  intros He Hf H. cbn [shape_intersects]. apply existsb_exists. exists e. split; [exact He|].
  apply existsb_exists. exists f. split; [exact Hf|exact H].
Qed.

(* an edge leading from the strict interior of Q to its outside crosses an edge of Q *)
Lemma edge_leaves sigma (Q : list segR) (e : segR) :
  convex sigma Q -> strictly_inside sigma Q (seg_start e) -> ~ strictly_inside sigma Q (seg_end e) ->
  exists f, In f Q /\ seg_intersects NumR e f = true.
Proof.
  intros Hcv Hin Hout. apply not_strict_exists in Hout.
  destruct (exit_through_an_edge sigma Q _ _ Hcv Hin Hout) as (f & t & s & Hf & Ht & Hs & Heq & H0 & H1 & _).
  exists f. split; [exact Hf|]. rewrite <- (mk_seg_eta e).
  apply (crossing_is_detected sigma f _ _ t s); try assumption; [apply (cv_sigma _ _ Hcv)|lra].
Qed.

Lemma lerp_lerp (a w : pt) (s t : R) : lerp (lerp a w s) w t = lerp a w (s + t * (1 - s)).
Proof. unfold lerp. cbn [fst snd]. f_equal; ring. Qed.

Lemma side_degenerate sigma (e : segR) (p : pt) : seg_start e = seg_end e -> side sigma e p = 0.
Proof.
  unfold seg_start, seg_end, side. intros E. injection E as E1 E2. rewrite E1, E2. ring.
Qed.

(* three points on the line of f are collinear *)
Lemma collinear3 sigma sigma' (f g : segR) (p' : pt) :
  sigma = 1 \/ sigma = -1 -> seg_start f <> seg_end f ->
  side sigma f (seg_start g) = 0 -> side sigma f (seg_end g) = 0 -> side sigma f p' = 0 ->
  side sigma' g p' = 0.
Proof.
  intros Hsig Hne H1 H2 H3.
  assert (L : forall X, side sigma f X = 0 -> exists s, X = lerp (seg_start f) (seg_end f) s).
  { intros X HX. apply on_line_param; [exact Hne|]. unfold side in HX. destruct Hsig as [-> | ->]; lra. }
  destruct (L _ H1) as [s1 E1]. destruct (L _ H2) as [s2 E2]. destruct (L _ H3) as [s3 E3].
  unfold side. unfold seg_start, seg_end, lerp in *. destruct g as [gx1 gy1 gx2 gy2], f as [a1 b1 a2 b2], p' as [x y].
  cbn [fst snd sx1 sy1 sx2 sy2] in *. injection E1 as -> ->. injection E2 as -> ->. injection E3 as -> ->.
  change (carrier NumR) with R in *. ring.
Qed.

(* no vertex of either polygon strictly inside the other, yet a common interior point *)
Lemma boundary_only_case sP sQ (P Q : list segR) (x : pt) (e0 : segR) :
  convex sP P -> convex sQ Q -> strictly_inside sP P x -> strictly_inside sQ Q x ->
  (forall f, In f Q -> ~ strictly_inside sP P (seg_start f)) ->
  In e0 P -> ~ strictly_inside sQ Q (seg_start e0) ->
  exists e f, In e P /\ In f Q /\ seg_intersects NumR e f = true.
Proof.
  intros HcP HcQ HxP HxQ HnoQ He0 Hout. apply not_strict_exists in Hout.
  destruct (exit_through_an_edge sQ Q x (seg_start e0) HcQ HxQ Hout)
    as (f & t & s & Hf & Ht & Hs & Heq & Hfx & Hfp & HXQ).
  pose proof (cv_sigma _ _ HcP) as HsP. pose proof (cv_sigma _ _ HcQ) as HsQ.
  assert (Hfne : seg_start f <> seg_end f).
  { intros E. rewrite (side_degenerate sQ f x E) in Hfx. lra. }
  destruct (Rlt_le_dec t 1) as [Hlt|Hge].
  - (* the exit point is strictly inside P: continue along f to its end *)
    set (X := lerp x (seg_start e0) t) in *.
    assert (HXP : strictly_inside sP P X).
    { intros e' He'. unfold X. rewrite side_lerp. pose proof (HxP e' He') as H1.
      destruct (cv_vertices _ _ HcP e0 He0) as [H2 _]. specialize (H2 e' He'). nra. }
    destruct (cv_next _ _ HcQ f Hf) as (fn & Hfn & Efn & _).
    pose proof (HnoQ fn Hfn) as Hw. rewrite Efn in Hw. apply not_strict_exists in Hw.
    destruct (exit_through_an_edge sP P X (seg_end f) HcP HXP Hw)
      as (g & t' & s' & Hg & Ht' & Hs' & Heq' & HgX & Hgw & _).
    exists g, f. split; [exact Hg|]. split; [exact Hf|].
    rewrite seg_intersects_sym. rewrite <- (mk_seg_eta f).
    apply (meeting_is_detected sP g _ _ (s + t' * (1 - s)) s'); try assumption.
    + split; nra.
    + rewrite <- lerp_lerp. rewrite <- Heq. exact Heq'.
    + intros E. rewrite Heq, side_lerp, E in HgX. nra.
  - (* the exit point is the vertex itself, lying on the edge f *)
    assert (Et : t = 1) by lra. subst t.
    destruct (lerp_ends x (seg_start e0)) as [_ E1]. rewrite E1 in Heq, HXQ.
    assert (Hfp0 : side sQ f (seg_start e0) = 0) by (pose proof (HXQ f Hf); lra).
    destruct (cv_prev _ _ HcP e0 He0) as (ep & Hep & Eep & Hpp).
    destruct (Req_dec (side sQ f (seg_end e0)) 0) as [Hz|Hnz].
    + (* the edge e0 lies along f: the previous edge does not *)
      exists ep, f. split; [exact Hep|]. split; [exact Hf|]. rewrite <- (mk_seg_eta ep).
      apply (meeting_is_detected sQ f _ _ 1 s); try assumption; try lra.
      * destruct (lerp_ends (seg_start ep) (seg_end ep)) as [_ E2]. rewrite E2, Eep. exact Heq.
      * intros E. rewrite Eep, Hfp0 in E.
        assert (side sP ep (seg_end e0) = 0); [|lra].
        apply (collinear3 sQ sP f ep); try assumption. rewrite Eep; exact Hfp0.
    + exists e0, f. split; [exact He0|]. split; [exact Hf|]. rewrite <- (mk_seg_eta e0).
      apply (meeting_is_detected sQ f _ _ 0 s); try assumption; try lra.
      destruct (lerp_ends (seg_start e0) (seg_end e0)) as [E2 _]. rewrite E2. exact Heq.
Qed.

(* C12, completeness for convex polygons over the reals: two closed convex polygons with a common
   interior point, neither having all its vertices strictly inside the other, are reported as
   intersecting by the edge-pair test *)
Theorem convex_overlap_detected sP sQ (P Q : list segR) (x : pt) :
  convex sP P -> convex sQ Q -> closed P -> closed Q ->
  strictly_inside sP P x -> strictly_inside sQ Q x ->
  (exists e, In e P /\ ~ strictly_inside sQ Q (seg_start e)) ->
  (exists f, In f Q /\ ~ strictly_inside sP P (seg_start f)) ->
  shape_intersects NumR (Poly P) (Poly Q) = true.
Proof.
  intros HcP HcQ HclP HclQ HxP HxQ HoutP HoutQ.
  destruct (Exists_dec_prop (fun e => strictly_inside sQ Q (seg_start e)) P) as [HP|HP].
  { intros e. apply strictly_inside_dec. }
  - (* a vertex of P strictly inside Q, another not: an edge of P leaves Q *)
    apply Exists_exists in HP.
    destruct (walk_out (strictly_inside sQ Q) P (strictly_inside_dec sQ Q) HclP HP HoutP) as (e & He & Hin & Hout).
    destruct (edge_leaves sQ Q e HcQ Hin Hout) as (f & Hf & H). exact (detect_PQ P Q e f He Hf H).
  - destruct (Exists_dec_prop (fun f => strictly_inside sP P (seg_start f)) Q) as [HQ|HQ].
    { intros f. apply strictly_inside_dec. }
    + apply Exists_exists in HQ.
      destruct (walk_out (strictly_inside sP P) Q (strictly_inside_dec sP P) HclQ HQ HoutQ) as (f & Hf & Hin & Hout).
      destruct (edge_leaves sP P f HcP Hin Hout) as (e & He & H).
      rewrite seg_intersects_sym in H. exact (detect_PQ P Q e f He Hf H).
    + destruct HoutP as (e0 & He0 & Hout0).
      destruct (boundary_only_case sP sQ P Q x e0 HcP HcQ HxP HxQ) as (e & f & He & Hf & H); try assumption.
      { intros f Hf Hs. apply HQ. apply Exists_exists. exists f. tauto. }
      exact (detect_PQ P Q e f He Hf H).
Qed.

(* ------------------------------------------------------------------ *)
(* the hypotheses are satisfiable: two overlapping unit squares        *)

Definition square (x y : R) : list segR :=
  [ @mkSeg NumR x y (x + 1) y; @mkSeg NumR (x + 1) y (x + 1) (y + 1);
    @mkSeg NumR (x + 1) (y + 1) x (y + 1); @mkSeg NumR x (y + 1) x y ].

Lemma square_convex x y : convex 1 (square x y).
Proof.
  unfold square. constructor.
  - now left.
  - intros e He. split; intros e' He'; cbn [In] in He, He';
      repeat (destruct He as [<-|He]; [|]); try contradiction;
      repeat (destruct He' as [<-|He']; [|]); try contradiction;
      unfold side, seg_start, seg_end; cbn [sx1 sy1 sx2 sy2 fst snd]; change (carrier NumR) with R; nra.
  - intros e He. cbn [In] in He.
    destruct He as [<-|[<-|[<-|[<-|[]]]]].
    + exists (@mkSeg NumR x (y + 1) x y). cbn [In]. split; [tauto|]. split; [reflexivity|].
      unfold side, seg_end; cbn [sx1 sy1 sx2 sy2 fst snd]; change (carrier NumR) with R; nra.
    + exists (@mkSeg NumR x y (x + 1) y). cbn [In]. split; [tauto|]. split; [reflexivity|].
      unfold side, seg_end; cbn [sx1 sy1 sx2 sy2 fst snd]; change (carrier NumR) with R; nra.
    + exists (@mkSeg NumR (x + 1) y (x + 1) (y + 1)). cbn [In]. split; [tauto|]. split; [reflexivity|].
      unfold side, seg_end; cbn [sx1 sy1 sx2 sy2 fst snd]; change (carrier NumR) with R; nra.
    + exists (@mkSeg NumR (x + 1) (y + 1) x (y + 1)). cbn [In]. split; [tauto|]. split; [reflexivity|].
      unfold side, seg_end; cbn [sx1 sy1 sx2 sy2 fst snd]; change (carrier NumR) with R; nra.
  - intros e He. cbn [In] in He.
    destruct He as [<-|[<-|[<-|[<-|[]]]]].
    + exists (@mkSeg NumR (x + 1) y (x + 1) (y + 1)). cbn [In]. split; [tauto|]. split; [reflexivity|].
      unfold side, seg_start; cbn [sx1 sy1 sx2 sy2 fst snd]; change (carrier NumR) with R; nra.
    + exists (@mkSeg NumR (x + 1) (y + 1) x (y + 1)). cbn [In]. split; [tauto|]. split; [reflexivity|].
      unfold side, seg_start; cbn [sx1 sy1 sx2 sy2 fst snd]; change (carrier NumR) with R; nra.
    + exists (@mkSeg NumR x (y + 1) x y). cbn [In]. split; [tauto|]. split; [reflexivity|].
      unfold side, seg_start; cbn [sx1 sy1 sx2 sy2 fst snd]; change (carrier NumR) with R; nra.
    + exists (@mkSeg NumR x y (x + 1) y). cbn [In]. split; [tauto|]. split; [reflexivity|].
      unfold side, seg_start; cbn [sx1 sy1 sx2 sy2 fst snd]; change (carrier NumR) with R; nra.
Qed.

Lemma square_closed x y : closed (square x y).
Proof. unfold closed, square. cbn [linked last seg_start seg_end sx1 sy1 sx2 sy2]. tauto. Qed.

Example overlapping_squares_meet_the_hypotheses :
  let P := square 0 0 in let Q := square (1/2) (1/2) in
  convex 1 P /\ convex 1 Q /\ closed P /\ closed Q
  /\ strictly_inside 1 P (3/4, 3/4) /\ strictly_inside 1 Q (3/4, 3/4)
  /\ (exists e, In e P /\ ~ strictly_inside 1 Q (seg_start e))
  /\ (exists f, In f Q /\ ~ strictly_inside 1 P (seg_start f))
  /\ shape_intersects NumR (Poly P) (Poly Q) = true.
Proof.
  cbv zeta.
  assert (H1 : strictly_inside 1 (square 0 0) (3/4, 3/4)).
  { intros e He. unfold square in He. cbn [In] in He. destruct He as [<-|[<-|[<-|[<-|[]]]]];
      unfold side; cbn [sx1 sy1 sx2 sy2 fst snd]; change (carrier NumR) with R; lra. }
  assert (H2 : strictly_inside 1 (square (1/2) (1/2)) (3/4, 3/4)).
  { intros e He. unfold square in He. cbn [In] in He. destruct He as [<-|[<-|[<-|[<-|[]]]]];
      unfold side; cbn [sx1 sy1 sx2 sy2 fst snd]; change (carrier NumR) with R; lra. }
  assert (H3 : exists e, In e (square 0 0) /\ ~ strictly_inside 1 (square (1/2) (1/2)) (seg_start e)).
  { exists (@mkSeg NumR 0 0 (0 + 1) 0). split; [now left|]. intros H.
    specialize (H (@mkSeg NumR (1/2) (1/2) (1/2 + 1) (1/2)) (or_introl eq_refl)).
    unfold side, seg_start in H. cbn [sx1 sy1 sx2 sy2 fst snd] in H. change (carrier NumR) with R in H. lra. }
  assert (H4 : exists f, In f (square (1/2) (1/2)) /\ ~ strictly_inside 1 (square 0 0) (seg_start f)).
  { exists (@mkSeg NumR (1/2 + 1) (1/2) (1/2 + 1) (1/2 + 1)). split; [right; now left|]. intros H.
    specialize (H (@mkSeg NumR (0 + 1) 0 (0 + 1) (0 + 1)) (or_intror (or_introl eq_refl))).
    unfold side, seg_start in H. cbn [sx1 sy1 sx2 sy2 fst snd] in H. change (carrier NumR) with R in H. lra. }
  repeat (split; [first [apply square_convex|apply square_closed|assumption]|]).
  apply (convex_overlap_detected 1 1 _ _ (3/4, 3/4)); first [apply square_convex|apply square_closed|assumption].
Qed.
