(* SrcCell.v - src/cell.rs, src/site.rs and Transform2::periodic as translated from the source on this run are the model's. *)
From Coq Require Import ZArith NArith String List Bool Lia.
From PV Require Import Num model.Geom model.Optimiser model.Svg model.Pipeline model.Iter gen.GenFns proofs.ListLemmas.
Import ListNotations.
Local Open Scope num_scope.

(* every function of the source this file is about was translated on this run *)
Theorem cell_source_translated :
  translated_gen_wrap = true /\
  translated_gen_periodic_images = true /\
  translated_gen_positions = true /\
  translated_gen_cell_a = true /\
  translated_gen_cell_b = true /\
  translated_gen_cell_area = true /\
  translated_gen_to_cartesian = true.
Proof. repeat split; reflexivity. Qed.

Section Source.
  Variable NN : Num.
  Notation T := (carrier NN).
  Variable fexp facos : T -> T.
  Variable fpow : T -> T -> T.
  Variable powi : T -> Z -> T.

  (* ---- src/cell.rs *)
  Theorem cell_sides_are_source : forall c, gen_cell_a NN c = cell_a NN c /\ gen_cell_b NN c = cell_b NN c.
  Proof. intros c. split; reflexivity. Qed.

  Theorem cell_area_is_source : forall c, gen_cell_area NN c = cell_area NN c.
  Proof. reflexivity. Qed.

  Theorem to_cartesian_is_source : forall c x y, gen_to_cartesian NN c x y = to_cartesian NN c (x, y).
  Proof. reflexivity. Qed.

  (* ---- src/transform.rs (with the arguments of the call in src/site.rs) *)
  Theorem wrap_is_source : forall x, gen_wrap NN x = wrap1 NN x.
  Proof. reflexivity. Qed.

End Source.

Theorem periodic_images_is_source : forall (NN : Num) (c : cell NN) (t : tf NN) (k : Z) (zero : bool),
  gen_periodic_images NN c t k zero = periodic_images NN c t k zero.
Proof.
  intros NN c t k zero. unfold gen_periodic_images, periodic_images, shell_indices.
  rewrite (filter_ext_in _ (fun xy => negb (andb (negb zero) (andb (fst xy =? 0)%Z (snd xy =? 0)%Z)))).
  - apply map_ext. intros [x y]. reflexivity.
  - intros [x y] _. cbn [fst snd]. now rewrite andb_assoc.
Qed.

Theorem positions_is_source : forall (NN : Num) (syms : list (tf NN)) (s : site NN),
  gen_positions NN syms s = positions NN syms s.
Proof. intros NN syms s. unfold gen_positions, positions. cbv zeta. now rewrite map_map. Qed.

