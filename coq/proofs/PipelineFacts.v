(* PipelineFacts.v - C10 (the best replica is written; more replications never lower the score) and the
   order-theoretic part of C09 (the result of the reduction does not depend on how rayon splits and
   combines the index range).  For every type of results with a total preorder `leb`. *)
From Coq Require Import List Bool Lia.
From PV Require Import model.Pipeline.
Import ListNotations.

Section Facts.
  Variable A : Type.
  Variable leb : A -> A -> bool.
  Hypothesis leb_total : forall a b, leb a b = true \/ leb b a = true.
  Hypothesis leb_trans : forall a b c, leb a b = true -> leb b c = true -> leb a c = true.

  Notation max2 := (max2 A leb).
  Notation best := (best A leb).

  Lemma leb_refl a : leb a a = true.
  Proof. destruct (leb_total a a); assumption. Qed.

  Lemma max2_ge_l a b : leb a (max2 a b) = true.
  Proof. unfold Pipeline.max2. destruct (leb a b) eqn:E; [exact E|apply leb_refl]. Qed.

  Lemma max2_ge_r a b : leb b (max2 a b) = true.
  Proof.
    unfold Pipeline.max2. destruct (leb a b) eqn:E; [apply leb_refl|].
    destruct (leb_total a b) as [H|H]; [congruence|exact H].
  Qed.

  Lemma max2_cases a b : max2 a b = a \/ max2 a b = b.
  Proof. unfold Pipeline.max2. destruct (leb a b); auto. Qed.

  (* std::cmp::max is associative on a total preorder, ties included (the later argument wins) *)
  Lemma max2_assoc a b c : max2 (max2 a b) c = max2 a (max2 b c).
  Proof.
    unfold Pipeline.max2.
    destruct (leb a b) eqn:Eab, (leb b c) eqn:Ebc; try rewrite Eab; try rewrite Ebc; try reflexivity.
    - rewrite (leb_trans a b c Eab Ebc). reflexivity.
    - destruct (leb a c) eqn:Eac; [|reflexivity].
      (* a <= c, not b <= c, so c < b; not a <= b, so b < a: c < b < a <= c *)
      exfalso. destruct (leb_total b c) as [H|H]; [congruence|].
      destruct (leb_total a b) as [H'|H']; [congruence|].
      assert (leb b c = true) by (eapply leb_trans; eassumption). congruence.
  Qed.

  Lemma fold_max2_ge l : forall x, leb x (fold_left max2 l x) = true
                                   /\ forall y, In y l -> leb y (fold_left max2 l x) = true.
  Proof.
    induction l as [|z l IH]; intros x; cbn [fold_left].
    - split; [apply leb_refl|intros y []].
    - destruct (IH (max2 x z)) as [H1 H2]. split.
      + eapply leb_trans; [apply max2_ge_l|exact H1].
      + intros y [<-|Hy]; [eapply leb_trans; [apply max2_ge_r|exact H1]|now apply H2].
  Qed.

  Lemma fold_max2_in l : forall x, fold_left max2 l x = x \/ In (fold_left max2 l x) l.
  Proof.
    induction l as [|z l IH]; intros x; cbn [fold_left]; [now left|].
    destruct (IH (max2 x z)) as [H|H].
    - rewrite H. destruct (max2_cases x z) as [->| ->]; [now left|right; now left].
    - right. now right.
  Qed.

  (* C10: the value written is one of the replica results and no replica scores higher *)
  Theorem best_is_max l b : best l = Some b -> In b l /\ forall x, In x l -> leb x b = true.
  Proof.
    destruct l as [|x l]; [discriminate|]. cbn [Pipeline.best]. intros H. injection H as <-.
    destruct (fold_max2_ge l x) as [H1 H2]. split.
    - destruct (fold_max2_in l x) as [-> |H]; [now left|now right].
    - intros y [<-|Hy]; [exact H1|now apply H2].
  Qed.

  Theorem best_none_iff_empty l : best l = None <-> l = [].
  Proof. destruct l; cbn; split; congruence. Qed.

  (* C10: one more replica never lowers the best score *)
  Theorem best_prefix_monotone l x b b' :
    best l = Some b -> best (l ++ [x]) = Some b' -> leb b b' = true.
  Proof.
    intros H H'. destruct (best_is_max _ _ H) as [Hin _]. destruct (best_is_max _ _ H') as [_ Hall].
    apply Hall. apply in_or_app. now left.
  Qed.

  Lemma fold_max2_app l1 l2 x : fold_left max2 (l1 ++ l2) x = fold_left max2 l2 (fold_left max2 l1 x).
  Proof. apply fold_left_app. Qed.

  Lemma fold_max2_shift l : forall a b, max2 a (fold_left max2 l b) = fold_left max2 l (max2 a b).
  Proof.
    induction l as [|z l IH]; intros a b; cbn [fold_left]; [reflexivity|].
    rewrite IH, max2_assoc. reflexivity.
  Qed.

  (* C09: whatever binary tree the parallel reduction uses over the index-ordered results, it returns
     the result of the sequential left fold *)
  Theorem reduction_tree_independent (t : tree A) : best (flatten A t) = Some (reduce A leb t).
  Proof.
    induction t as [a|l IHl r IHr]; [reflexivity|].
    cbn [flatten reduce].
    destruct (flatten A l) as [|x xs] eqn:El; [discriminate|].
    destruct (flatten A r) as [|y ys] eqn:Er; [discriminate|].
    change ((x :: xs) ++ y :: ys) with (x :: (xs ++ y :: ys)).
    cbn [Pipeline.best] in *. injection IHl as IHl. injection IHr as IHr.
    f_equal. rewrite fold_max2_app. cbn [fold_left].
    rewrite <- IHl, <- IHr. symmetry. apply fold_max2_shift.
  Qed.

  Section Analyse.
    Variable St : Type.
    Variable stage1 stage2 stage3 : nat -> St -> St.
    Variable result : St -> A.
    Notation analyse := (analyse A leb St stage1 stage2 stage3 result).
    Notation replica := (replica A St stage1 stage2 stage3 result).

    (* C10/C20: no replicas is the only way to get the error outcome *)
    Theorem analyse_error_iff_no_replicas k s0 : analyse k s0 = None <-> k = 0%nat.
    Proof.
      unfold Pipeline.analyse. rewrite best_none_iff_empty. destruct k; cbn; split; congruence.
    Qed.

    Theorem analyse_best_replica k s0 b :
      analyse k s0 = Some b ->
      (exists i, (i < k)%nat /\ b = replica i s0) /\ forall i, (i < k)%nat -> leb (replica i s0) b = true.
    Proof.
      unfold Pipeline.analyse. intros H. destruct (best_is_max _ _ H) as [Hin Hall]. split.
      - apply in_map_iff in Hin. destruct Hin as (i & <- & Hi). apply in_seq in Hi. exists i. split; [lia|reflexivity].
      - intros i Hi. apply Hall. apply in_map_iff. exists i. split; [reflexivity|]. apply in_seq. lia.
    Qed.

    Theorem analyse_prefix_monotone k s0 b b' :
      analyse k s0 = Some b -> analyse (S k) s0 = Some b' -> leb b b' = true.
    Proof.
      unfold Pipeline.analyse. rewrite seq_S, map_app. cbn [map]. apply best_prefix_monotone.
    Qed.
  End Analyse.
End Facts.
