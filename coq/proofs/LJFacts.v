(* LJFacts.v - C13 (the pair potential is the shifted, truncated 12-6 law) and C03 (the LJ score is
   minus the lattice energy per molecule), over the reals (NumR) for the model in coq/model/Geom.v.
   powi is real exponentiation x ^ n. *)
From Coq Require Import ZArith List Bool Reals Lra Lia Psatz.
From PV Require Import Num NumR model.Geom proofs.LatticeFacts proofs.SiteFacts proofs.OverlapFacts proofs.PackingFacts.
Import ListNotations.
Local Open Scope R_scope.

Definition rpowi (x : R) (n : Z) : R := x ^ Z.to_nat n.
Notation ljR := (lj NumR).
Notation energy := (lj_energy NumR rpowi).

Definition r2_of (a b : ljR) : R :=
  (lx NumR a - lx NumR b) * (lx NumR a - lx NumR b) + (ly NumR a - ly NumR b) * (ly NumR a - ly NumR b).

(* the 12-6 law as a function of the squared distance *)
Definition lj126 (sigma eps r2 : R) : R := 4 * eps * (((sigma * sigma) / r2) ^ 6 - ((sigma * sigma) / r2) ^ 3).

Lemma energy_unfold (a b : ljR) :
  energy a b =
  match lcut NumR a with
  | Some x => if Rltb (r2_of a b) (x * x)
              then lj126 (lsigma NumR a) (leps NumR a) (r2_of a b)
                   - 4 * leps NumR a * ((lsigma NumR a / x) ^ 12 - (lsigma NumR a / x) ^ 6)
              else 0
  | None => lj126 (lsigma NumR a) (leps NumR a) (r2_of a b)
  end.
Proof.
  unfold lj_energy, lj126, r2_of, norm2, sq, n4, rpowi.
  cbn [nsub nmul nadd ndiv nltb NumR nofZ n0].
  change (Z.to_nat 3) with 3%nat. change (Z.to_nat 2) with 2%nat.
  change (Z.to_nat 12) with 12%nat. change (Z.to_nat 6) with 6%nat.
  set (x := lsigma NumR a * lsigma NumR a / _).
  replace ((x ^ 3) ^ 2) with (x ^ 6) by (rewrite <- pow_mult; reflexivity).
  destruct (lcut NumR a); reflexivity.
Qed.

(* C13: uncut, the energy is 4 eps ((sigma/r)^12 - (sigma/r)^6) *)
Theorem lj_is_12_6 (a b : ljR) (r : R) :
  lcut NumR a = None -> 0 < r -> r * r = r2_of a b ->
  energy a b = 4 * leps NumR a * ((lsigma NumR a / r) ^ 12 - (lsigma NumR a / r) ^ 6).
Proof.
  intros Hc Hr Hr2. rewrite energy_unfold, Hc. unfold lj126. rewrite <- Hr2.
  replace (lsigma NumR a * lsigma NumR a / (r * r)) with ((lsigma NumR a / r) ^ 2) by (field; lra).
  rewrite <- !pow_mult. reflexivity.
Qed.

(* C13: exactly zero at and beyond the cutoff *)
Theorem lj_zero_beyond (a b : ljR) (x : R) :
  lcut NumR a = Some x -> x * x <= r2_of a b -> energy a b = 0.
Proof.
  intros Hc Hge. rewrite energy_unfold, Hc.
  replace (Rltb (r2_of a b) (x * x)) with false; [reflexivity|]. symmetry. apply Rltb_false. exact Hge.
Qed.

(* C13: inside the cutoff, the 12-6 law shifted by its value at the cutoff *)
Theorem lj_shift (a b : ljR) (x r : R) :
  lcut NumR a = Some x -> 0 < r -> 0 < x -> r * r = r2_of a b -> r < x ->
  energy a b = 4 * leps NumR a * ((lsigma NumR a / r) ^ 12 - (lsigma NumR a / r) ^ 6)
               - 4 * leps NumR a * ((lsigma NumR a / x) ^ 12 - (lsigma NumR a / x) ^ 6).
Proof.
  intros Hc Hr Hx Hr2 Hlt. rewrite energy_unfold, Hc.
  replace (Rltb (r2_of a b) (x * x)) with true by (symmetry; apply Rltb_true; rewrite <- Hr2; nra).
  unfold lj126. rewrite <- Hr2.
  replace (lsigma NumR a * lsigma NumR a / (r * r)) with ((lsigma NumR a / r) ^ 2) by (field; lra).
  rewrite <- !pow_mult. reflexivity.
Qed.

(* C13: the shifted law is continuous at the cutoff: its inside formula vanishes at r = cutoff *)
Theorem lj_continuous_at_cutoff (sigma eps x : R) : 0 < x ->
  lj126 sigma eps (x * x) - 4 * eps * ((sigma / x) ^ 12 - (sigma / x) ^ 6) = 0.
Proof.
  intros Hx. unfold lj126.
  replace (sigma * sigma / (x * x)) with ((sigma / x) ^ 2) by (field; lra).
  rewrite <- !pow_mult. simpl Nat.mul. ring.
Qed.

(* C13: uncut, the minimum is -eps, reached exactly where (sigma^2/r^2)^3 = 1/2, i.e. r = 2^(1/6) sigma *)
Theorem lj_minimum (a b : ljR) :
  lcut NumR a = None -> 0 <= leps NumR a ->
  - leps NumR a <= energy a b
  /\ (0 < leps NumR a ->
      (energy a b = - leps NumR a <-> ((lsigma NumR a * lsigma NumR a) / r2_of a b) ^ 3 = 1 / 2)).
Proof.
  intros Hc He. rewrite energy_unfold, Hc. unfold lj126.
  set (y := (lsigma NumR a * lsigma NumR a / r2_of a b) ^ 3).
  replace ((lsigma NumR a * lsigma NumR a / r2_of a b) ^ 6) with (y * y) by (unfold y; rewrite <- pow_add; reflexivity).
  set (e := leps NumR a) in *. clearbody y e.
  assert (Hid : 4 * e * (y * y - y) + e = e * ((2 * y - 1) * (2 * y - 1))) by ring.
  assert (Hsq : 0 <= (2 * y - 1) * (2 * y - 1)) by (pose proof (Rle_0_sqr (2 * y - 1)) as H; exact H).
  split.
  - assert (0 <= e * ((2 * y - 1) * (2 * y - 1))) by (apply Rmult_le_pos; assumption). lra.
  - intros Hpos. split.
    + intros H. assert (E0 : e * ((2 * y - 1) * (2 * y - 1)) = 0) by lra.
      apply Rmult_integral in E0. destruct E0 as [E0|E0]; [lra|].
      apply Rmult_integral in E0. lra.
    + intros H. rewrite H. lra.
Qed.

(* C13: the energy depends on the positions only through the distance *)
Theorem lj_distance_only (a b a' b' : ljR) :
  lsigma NumR a = lsigma NumR a' -> leps NumR a = leps NumR a' -> lcut NumR a = lcut NumR a' ->
  r2_of a b = r2_of a' b' -> energy a b = energy a' b'.
Proof. intros Hs He Hc Hr. rewrite !energy_unfold, Hs, He, Hc, Hr. reflexivity. Qed.

(* C13: symmetric in the two particles when they have the same parameters *)
Theorem lj_symmetric_like (a b : ljR) :
  lsigma NumR a = lsigma NumR b -> leps NumR a = leps NumR b -> lcut NumR a = lcut NumR b ->
  energy a b = energy b a.
Proof.
  intros Hs He Hc. apply lj_distance_only; auto. unfold r2_of. ring.
Qed.

(* ... and NOT otherwise: the code uses the first particle's parameters only (known finding D9) *)
Theorem lj_asymmetric_unlike :
  exists a b : ljR, energy a b <> energy b a.
Proof.
  exists (@mkLj NumR 0 0 1 1 None), (@mkLj NumR 1 0 2 1 None).
  rewrite !energy_unfold. cbn [lcut lsigma leps]. unfold lj126, r2_of. cbn [lx ly]. lra.
Qed.

(* C13: invariance under a common rigid motion or reflection; the parameters are kept *)
Theorem lj_rigid_invariant (t : tfR) (a b : ljR) :
  affine_row t -> rigid t ->
  energy (lj_transform NumR t a) (lj_transform NumR t b) = energy a b
  /\ lsigma NumR (lj_transform NumR t a) = lsigma NumR a
  /\ leps NumR (lj_transform NumR t a) = leps NumR a
  /\ lcut NumR (lj_transform NumR t a) = lcut NumR a.
Proof.
  intros Ha (R1 & R2 & R3). unfold lj_transform.
  rewrite !(tf_apply_affine t _ _ Ha). cbn [lsigma leps lcut]. split; [|auto].
  apply lj_distance_only; try reflexivity. unfold r2_of. cbn [lx ly].
  destruct t as [t00 t01 t02 t10 t11 t12 t20 t21 t22], a as [ax ay sa ea ca], b as [bx by_ sb eb cb].
  cbn [a00 a01 a02 a10 a11 a12 lx ly] in *. change (carrier NumR) with R in *.
  replace ((t00 * ax + t01 * ay + t02 - (t00 * bx + t01 * by_ + t02)) * (t00 * ax + t01 * ay + t02 - (t00 * bx + t01 * by_ + t02))
           + (t10 * ax + t11 * ay + t12 - (t10 * bx + t11 * by_ + t12)) * (t10 * ax + t11 * ay + t12 - (t10 * bx + t11 * by_ + t12)))
    with ((t00 * t00 + t10 * t10) * ((ax - bx) * (ax - bx)) + 2 * (t00 * t01 + t10 * t11) * ((ax - bx) * (ay - by_))
          + (t01 * t01 + t11 * t11) * ((ay - by_) * (ay - by_))) by ring.
  rewrite R1, R2, R3. ring.
Qed.

(* ------------------------------------------------------------------ *)
(* sums                                                                *)

Fixpoint rsum (l : list R) : R := match l with [] => 0 | x :: r => x + rsum r end.

Lemma fold_left_rsum {A} (f : A -> R) (l : list A) (acc : R) :
  fold_left (fun s x => s + f x) l acc = acc + rsum (map f l).
Proof.
  revert acc. induction l as [|x l IH]; intros acc; cbn; [ring|]. rewrite IH. ring.
Qed.

Lemma rsum_app l m : rsum (l ++ m) = rsum l + rsum m.
Proof. induction l as [|x l IH]; cbn; [ring|]. rewrite IH. ring. Qed.

(* C13: the energy of two molecules is the sum over their particle pairs *)
Theorem molecule_energy_is_pair_sum (a b : list ljR) :
  ljshape_energy NumR rpowi a b = rsum (map (fun s => rsum (map (fun o => energy s o) b)) a).
Proof.
  unfold ljshape_energy. cbn [nadd NumR n0 nofZ].
  change (fun acc so => acc + energy (fst so) (snd so)) with (fun acc (so : ljR * ljR) => acc + (fun so => energy (fst so) (snd so)) so).
  rewrite (fold_left_rsum (fun so : ljR * ljR => energy (fst so) (snd so))). rewrite Rplus_0_l.
  induction a as [|s a IH]; [reflexivity|].
  cbn [flat_map map rsum]. rewrite map_app, rsum_app, IH. f_equal.
  rewrite map_map. reflexivity.
Qed.

Lemma rsum_map_plus {A} (f g : A -> R) (l : list A) :
  rsum (map (fun x => f x + g x) l) = rsum (map f l) + rsum (map g l).
Proof. induction l as [|x l IH]; cbn; [ring|]. rewrite IH. ring. Qed.

Lemma rsum_map_zero {A} (l : list A) : rsum (map (fun _ => 0) l) = 0.
Proof. induction l as [|x l IH]; cbn; [reflexivity|]. rewrite IH. ring. Qed.

Lemma rsum_swap {A B} (f : A -> B -> R) (l : list A) (m : list B) :
  rsum (map (fun x => rsum (map (fun y => f x y) m)) l) = rsum (map (fun y => rsum (map (fun x => f x y) l)) m).
Proof.
  induction l as [|x l IH]; cbn [map rsum].
  - symmetry. apply rsum_map_zero.
  - rewrite IH. symmetry. apply (rsum_map_plus (fun y => f x y) (fun y => rsum (map (fun x0 => f x0 y) l))).
Qed.

Lemma rsum_map_ext_in {A} (f g : A -> R) (l : list A) :
  (forall x, In x l -> f x = g x) -> rsum (map f l) = rsum (map g l).
Proof. intros H. f_equal. apply map_ext_in. exact H. Qed.

Theorem molecule_energy_symmetric_like (a b : list ljR) :
  (forall s o, In s a -> In o b -> energy s o = energy o s) ->
  ljshape_energy NumR rpowi a b = ljshape_energy NumR rpowi b a.
Proof.
  intros H. rewrite !molecule_energy_is_pair_sum.
  transitivity (rsum (map (fun x => rsum (map (fun y => energy y x) b)) a)).
  - apply rsum_map_ext_in. intros s Hs. apply rsum_map_ext_in. intros o Ho. now apply H.
  - exact (rsum_swap (fun x y => energy y x) a b).
Qed.

(* ------------------------------------------------------------------ *)
(* C03: the score                                                      *)

Notation ljstateR := (ljstate NumR).

(* the number of molecules in the cell: one per occupied site and symmetry operation *)
Definition lj_copies (st : ljstateR) : nat := (length (l_sites NumR st) * length (l_syms NumR st))%nat.

Lemma lj_relative_length (st : ljstateR) : length (lj_relative NumR st) = lj_copies st.
Proof.
  unfold lj_relative, lj_copies. apply flat_map_length_const. intros s _. apply positions_length.
Qed.

Section Score.
  Variable st : ljstateR.
  Let shapes := map (fun p => map (lj_transform NumR p) (l_shape NumR st)) (lj_cartesian NumR st).
  Let E : list ljR -> list ljR -> R := ljshape_energy NumR rpowi.

  (* molecule images within 3 shells of every relative position, placed *)
  Definition image_shapes : list (list ljR) :=
    flat_map (fun pos => map (fun t2 => map (lj_transform NumR t2) (l_shape NumR st))
                             (periodic_images NumR (l_cell NumR st) pos 3 false))
             (lj_relative NumR st).

  (* in-cell pairs: every unordered pair of distinct copies once *)
  Definition incell_sum : R :=
    rsum (map (fun xr => rsum (map (fun s2 => E (fst xr) s2) (snd xr))) (tails shapes)).
  (* image pairs: every ordered pair (copy, image of a copy) *)
  Definition image_sum : R :=
    rsum (map (fun s1 => rsum (map (fun s2 => E s1 s2) image_shapes)) shapes).

  Lemma inner_fold (f : list ljR -> R) (l : list (list ljR)) acc :
    fold_left (fun a x => a + f x) l acc = acc + rsum (map f l).
  Proof. apply fold_left_rsum. Qed.

  (* C03: minus N times the score is: in-cell pairs once + half of the ordered image pairs *)
  Theorem lj_sum_formula : lj_sum NumR rpowi st = incell_sum + / 2 * image_sum.
  Proof.
    unfold lj_sum. fold shapes. cbn [nadd nmul NumR n0 nofZ].
    change (nhalf (NN:=NumR)) with (1 / 2). change (carrier NumR) with R.
    (* first loop *)
    assert (H1 : forall l acc,
      fold_left (fun acc0 xr => fold_left (fun acc2 s2 => acc2 + E (fst xr) s2) (snd xr) acc0) l acc
      = acc + rsum (map (fun xr : list ljR * list (list ljR) => rsum (map (fun s2 => E (fst xr) s2) (snd xr))) l)).
    { induction l as [|xr l IH]; intros acc; cbn [fold_left map rsum]; [ring|].
      rewrite IH. rewrite (fold_left_rsum (fun s2 => E (fst xr) s2)). ring. }
    fold E. rewrite H1. rewrite Rplus_0_l. fold incell_sum.
    (* second loop *)
    assert (H2 : forall shape1 l acc,
      fold_left (fun acc2 pos =>
        fold_left (fun acc3 t2 => acc3 + 1 / 2 * E shape1 (map (lj_transform NumR t2) (l_shape NumR st)))
                  (periodic_images NumR (l_cell NumR st) pos 3 false) acc2) l acc
      = acc + / 2 * rsum (map (fun s2 => E shape1 s2)
               (flat_map (fun pos => map (fun t2 => map (lj_transform NumR t2) (l_shape NumR st))
                                         (periodic_images NumR (l_cell NumR st) pos 3 false)) l))).
    { intros shape1. induction l as [|pos l IH]; intros acc; cbn [fold_left flat_map map rsum]; [ring|].
      rewrite IH. rewrite (fold_left_rsum (fun t2 => 1 / 2 * E shape1 (map (lj_transform NumR t2) (l_shape NumR st)))).
      rewrite map_app, rsum_app, map_map.
      assert (Hs : forall m, rsum (map (fun t2 => 1 / 2 * E shape1 (map (lj_transform NumR t2) (l_shape NumR st))) m)
                            = / 2 * rsum (map (fun x => E shape1 (map (lj_transform NumR x) (l_shape NumR st))) m)).
      { induction m as [|t m IHm]; cbn; [ring|]. rewrite IHm. field. }
      rewrite Hs. ring. }
    assert (H3 : forall l acc,
      fold_left (fun acc0 shape1 =>
        fold_left (fun acc2 pos =>
          fold_left (fun acc3 t2 => acc3 + 1 / 2 * E shape1 (map (lj_transform NumR t2) (l_shape NumR st)))
                    (periodic_images NumR (l_cell NumR st) pos 3 false) acc2) (lj_relative NumR st) acc0) l acc
      = acc + / 2 * rsum (map (fun s1 => rsum (map (fun s2 => E s1 s2) image_shapes)) l)).
    { induction l as [|s1 l IH]; intros acc; cbn [fold_left map rsum]; [ring|].
      rewrite IH, H2. unfold image_shapes. ring. }
    rewrite H3. unfold image_sum. reflexivity.
  Qed.

  Theorem lj_score_formula :
    lj_score NumR rpowi st = Some (- (incell_sum + / 2 * image_sum) / INR (lj_copies st)).
  Proof.
    unfold lj_score. rewrite lj_sum_formula. cbn [nopp ndiv nofZ NumR]. rewrite <- INR_IZR_INZ. reflexivity.
  Qed.

  (* with a pair energy that does not depend on the order (like particles), the in-cell term is half of
     the sum over ORDERED pairs of distinct copies: every pair of distinct molecule images within 3 shells
     is counted with weight one half from either side, i.e. once *)
  Lemma tails_sum_symmetric (l : list (list ljR)) :
    (forall x y, In x l -> In y l -> E x y = E y x) ->
    2 * rsum (map (fun xr => rsum (map (fun s2 => E (fst xr) s2) (snd xr))) (tails l))
    = rsum (map (fun x => rsum (map (fun y => E x y) l)) l) - rsum (map (fun x => E x x) l).
  Proof.
    induction l as [|x l IH]; intros Hs; [cbn; ring|].
    cbn [tails map rsum fst snd].
    assert (Hs' : forall x0 y, In x0 l -> In y l -> E x0 y = E y x0) by (intros; apply Hs; now right).
    specialize (IH Hs').
    rewrite (rsum_map_plus (fun x0 => E x0 x) (fun x0 => rsum (map (fun y => E x0 y) l)) l).
    rewrite (rsum_map_ext_in (fun x0 => E x0 x) (fun y => E x y) l)
      by (intros y Hy; apply Hs; [now right|now left]).
    lra.
  Qed.

  Theorem lj_score_counts_each_pair_once :
    (forall x y, In x shapes -> In y shapes -> E x y = E y x) ->
    incell_sum + / 2 * image_sum
    = / 2 * ((rsum (map (fun x => rsum (map (fun y => E x y) shapes)) shapes) - rsum (map (fun x => E x x) shapes))
             + image_sum).
  Proof.
    intros Hs. pose proof (tails_sum_symmetric shapes Hs) as H. fold incell_sum in H. lra.
  Qed.
End Score.
