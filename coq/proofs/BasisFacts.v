(* BasisFacts.v - C08: the parameters a state hands to the optimiser and the range each is declared with, AS TRANSLATED
   FROM THE SOURCE on this run (gen/GenFns.v: Cell2::get_degrees_of_freedom, OccupiedSite::get_basis,
   WyckoffSite::degrees_of_freedom, generate_basis of both state kinds):
     - they are the hand-written model's (model/Basis.v);
     - for EVERY crystal family, cell and list of sites the declared ranges are the ones C08 names, the cell angle has a
       handle only in an oblique (monoclinic) cell and the side ratio only in an oblique or rectangular one;
     - evaluated in binary64 they are exactly the handles the running code returned for each of the probed states
       (gen/GenBounds.v), path for path and bound for bound. *)
From Coq Require Import ZArith NArith String List Bool Floats Lia.
From PV Require Import Num model.Tables model.Spec model.Basis gen.GenTables gen.GenBounds gen.GenFns proofs.BoundsFacts.
Import ListNotations.
Local Open Scope num_scope.

(* every function of the source this file is about was translated on this run *)
Theorem basis_source_translated :
  translated_gen_cell_dof = true /\
  translated_gen_wyckoff_dof = true /\
  translated_gen_site_basis = true /\
  translated_gen_generate_basis_packed = true /\
  translated_gen_generate_basis_potential = true /\
  translated_gen_initial_length = true /\
  translated_gen_initial_length_potential = true /\
  translated_gen_initial_angle = true /\
  translated_gen_initial_ratio = true /\
  translated_gen_initial_site = true.
Proof. repeat split; reflexivity. Qed.

Section BasisSource.
  Variable NN : Num.
  Notation T := (carrier NN).
  Variable pi_ : T.

  Theorem cell_dof_is_source : forall f len ratio, gen_cell_dof NN pi_ f len ratio = cell_dof NN pi_ f len ratio.
  Proof. intros [] len ratio; reflexivity. Qed.

  Theorem wyckoff_dof_is_source : gen_wyckoff_dof = wyckoff_dof.
  Proof. reflexivity. Qed.

  Theorem site_basis_is_source : forall dof rot, gen_site_basis NN pi_ dof rot = site_basis NN pi_ dof rot.
  Proof.
    intros dof rot. unfold gen_site_basis, site_basis.
    destruct (nth 0 dof false), (nth 1 dof false), (nth 2 dof false); reflexivity.
  Qed.

  Lemma fold_left_append {A B} (f : B -> list A) (l : list B) (acc : list A) :
    fold_left (fun acc x => acc ++ f x) l acc = acc ++ flat_map f l.
  Proof.
    revert acc; induction l as [|x l IH]; intros acc; cbn [fold_left flat_map].
    - now rewrite app_nil_r.
    - rewrite IH, app_assoc. reflexivity.
  Qed.

  Theorem generate_basis_is_source : forall f len ratio sites,
    gen_generate_basis_packed NN pi_ f len ratio sites = generate_basis NN pi_ f len ratio sites
    /\ gen_generate_basis_potential NN pi_ f len ratio sites = generate_basis NN pi_ f len ratio sites.
  Proof.
    intros f len ratio sites. unfold gen_generate_basis_packed, gen_generate_basis_potential, generate_basis. cbv zeta.
    rewrite (fold_left_append (fun site => gen_site_basis NN pi_ site 1%N)). cbn [app].
    rewrite cell_dof_is_source.
    assert (E : flat_map (fun site => gen_site_basis NN pi_ site 1%N) sites = flat_map (fun dof => site_basis NN pi_ dof 1%N) sites).
    { apply flat_map_ext. intros a. apply site_basis_is_source. }
    rewrite E. split; reflexivity.
  Qed.

  (* the ranges C08 names, for every family, every cell and every list of sites *)
  Definition declared (f : family) (len ratio : T) (d : decl NN) : Prop :=
    match d_var NN d with
    | VLength => d_min NN d = nofZ 1 / nofZ 100 /\ d_max NN d = len
    | VRatio => (f = Monoclinic \/ f = Orthorhombic) /\ d_min NN d = nofZ 1 / nofZ 10 /\ d_max NN d = ratio
    | VAngle => f = Monoclinic /\ d_min NN d = pi_ / nofZ 6 /\ d_max NN d = pi_ / nofZ 2
    | VSiteX | VSiteY => d_min NN d = - (nofZ 1 / nofZ 2) /\ d_max NN d = nofZ 1 / nofZ 2
    | VSiteAngle => d_min NN d = n0 /\ d_max NN d = (nofZ 2 * pi_) / nofZ 1
    end.

  Theorem source_declares_the_ranges : forall f len ratio sites d,
    In d (gen_generate_basis_packed NN pi_ f len ratio sites) \/ In d (gen_generate_basis_potential NN pi_ f len ratio sites) ->
    declared f len ratio d.
  Proof.
    intros f len ratio sites d H.
    destruct (generate_basis_is_source f len ratio sites) as [E1 E2]. rewrite E1, E2 in H.
    assert (H' : In d (generate_basis NN pi_ f len ratio sites)) by (destruct H; assumption). clear H E1 E2.
    unfold generate_basis in H'. apply in_app_or in H'. destruct H' as [H|H].
    - unfold cell_dof in H. destruct H as [<-|H]; [cbn; auto|].
      destruct f; cbn in H; repeat (destruct H as [<-|H]; [cbn; auto 6|]); contradiction.
    - apply in_flat_map in H. destruct H as [dof [_ H]]. unfold site_basis in H.
      destruct (nth 0 dof false), (nth 1 dof false), (nth 2 dof false); cbn in H;
        repeat (destruct H as [<-|H]; [cbn; auto|]); contradiction.
  Qed.

  (* the cell stays in its crystal family: no handle on the angle unless the cell is oblique, none on the side ratio in a
     square or hexagonal cell; and the cell length always has one *)
  Corollary source_angle_handle_only_oblique : forall f len ratio sites d,
    In d (gen_generate_basis_packed NN pi_ f len ratio sites) -> d_var NN d = VAngle -> f = Monoclinic.
  Proof.
    intros f len ratio sites d H E. pose proof (source_declares_the_ranges f len ratio sites d (or_introl H)) as D.
    unfold declared in D. rewrite E in D. tauto.
  Qed.

  Corollary source_ratio_handle_only_oblique_or_rectangular : forall f len ratio sites d,
    In d (gen_generate_basis_packed NN pi_ f len ratio sites) -> d_var NN d = VRatio -> f = Monoclinic \/ f = Orthorhombic.
  Proof.
    intros f len ratio sites d H E. pose proof (source_declares_the_ranges f len ratio sites d (or_introl H)) as D.
    unfold declared in D. rewrite E in D. tauto.
  Qed.

  Corollary source_number_of_handles : forall f len ratio sites,
    Forall (fun dof => dof = wyckoff_dof) sites ->
    length (gen_generate_basis_packed NN pi_ f len ratio sites)
    = ((match f with Monoclinic => 3 | Orthorhombic => 2 | _ => 1 end) + 3 * length sites)%nat.
  Proof.
    intros f len ratio sites Hs. destruct (generate_basis_is_source f len ratio sites) as [-> _].
    unfold generate_basis. rewrite app_length.
    assert (E : length (flat_map (fun dof => site_basis NN pi_ dof 1%N) sites) = (3 * length sites)%nat).
    { induction Hs as [|dof l Hd Hl IH]; [reflexivity|]. cbn [flat_map]. rewrite app_length, IH. subst dof. cbn. lia. }
    rewrite E. destruct f; reflexivity.
  Qed.
End BasisSource.

(* ---- binary64: the translated functions evaluated on the probed states are what the running code returned *)
Definition pi_f : float := 0x1.921fb54442d18p1%float.

Definition var_path (site : nat) (v : pvar) : string :=
  match v with
  | VLength => "/cell/length" | VRatio => "/cell/ratio" | VAngle => "/cell/angle"
  | VSiteX => "/occupied_sites/0/x" | VSiteY => "/occupied_sites/0/y" | VSiteAngle => "/occupied_sites/0/angle"
  end%string.

Definition handle_matches (h : gen_handle) (d : decl NumF) : bool :=
  (match gh_moves h with [p] => String.eqb p (var_path 0 (d_var NumF d)) | _ => false end
   && feq (gh_min h) (d_min NumF d) && feq (gh_max h) (d_max NumF d))%bool.

Fixpoint all2 {A B} (p : A -> B -> bool) (l : list A) (m : list B) : bool :=
  match l, m with
  | [], [] => true
  | a :: l', b :: m' => andb (p a b) (all2 p l' m')
  | _, _ => false
  end.

Definition value_at (path : string) (hs : list gen_handle) : float :=
  match find (fun h => match gh_moves h with [p] => String.eqb p path | _ => false end) hs with
  | Some h => gh_value h
  | None => 0%float
  end.

(* the family the probed state's cell was declared with *)
Definition probe_family (gs : list gen_group) (s : gen_state) : option family :=
  match find_group (gs_cli s) gs with
  | Some g => Some (if ends_with "@hex" (gs_kind s) then Hexagonal
                    else if ends_with "@tet" (gs_kind s) then Tetragonal else gg_family g)
  | None => None
  end.

Fixpoint starts_with (p s : string) : bool :=
  match p, s with
  | EmptyString, _ => true
  | String a p', String b s' => andb (Ascii.eqb a b) (starts_with p' s')
  | _, _ => false
  end.

Definition state_matches_source (gs : list gen_group) (s : gen_state) : bool :=
  match probe_family gs s with
  | Some f =>
      let len := value_at "/cell/length" (gs_handles s) in
      let ratio := value_at "/cell/ratio" (gs_handles s) in
      all2 handle_matches (gs_handles s)
           (if starts_with "lj" (gs_kind s)
            then gen_generate_basis_potential NumF pi_f f len ratio [gen_wyckoff_dof]
            else gen_generate_basis_packed NumF pi_f f len ratio [gen_wyckoff_dof])
  | None => false
  end.

Theorem probes_are_the_source_basis : forallb (state_matches_source gen_groups) gen_bounds = true.
Proof. vm_compute. reflexivity. Qed.

(* ---- the state a group and a shape start from, as translated from the source *)
Section InitialSource.
  Variable NN : Num.
  Notation T := (carrier NN).
  Variable pi_ : T.

  Theorem initial_state_is_source : forall radius n f m,
    gen_initial_length NN radius n = initial_length_packed NN radius n
    /\ gen_initial_length_potential NN radius n = initial_length_potential NN radius n
    /\ gen_initial_angle NN pi_ f = initial_angle NN pi_ f
    /\ gen_initial_ratio NN = initial_ratio NN
    /\ gen_initial_site NN m = initial_site NN m.
  Proof. intros radius n f m. repeat split; reflexivity. Qed.
End InitialSource.

(* ---- binary64: the probed INITIAL states (kinds without "@") start where the translated from_family / from_wyckoff put
   them: ratio 1, the family's angle, both site coordinates at -0.5 + 0.5 / (number of copies), orientation 0 *)
Definition starts_at_source (gs : list gen_group) (s : gen_state) : bool :=
  if has_at (gs_kind s) then true else
  match probe_family gs s with
  | Some f =>
      let '(x, y, a) := gen_initial_site NumF (N.of_nat (gs_copies s)) in
      let expect (h : gen_handle) : option float :=
        match gh_moves h with
        | [p] => if String.eqb p "/cell/ratio" then Some (gen_initial_ratio NumF)
                 else if String.eqb p "/cell/angle" then Some (gen_initial_angle NumF pi_f f)
                 else if String.eqb p "/occupied_sites/0/x" then Some x
                 else if String.eqb p "/occupied_sites/0/y" then Some y
                 else if String.eqb p "/occupied_sites/0/angle" then Some a
                 else None
        | _ => None
        end in
      forallb (fun h => match expect h with Some v => feq (gh_value h) v | None => true end) (gs_handles s)
  | None => false
  end.

Theorem probes_start_at_the_source_initial_state : forallb (starts_at_source gen_groups) gen_bounds = true.
Proof. vm_compute. reflexivity. Qed.
