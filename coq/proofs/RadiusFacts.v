(* RadiusFacts.v - C01: the enclosing radius the code computes really encloses the shape (reals).
   Shape::enclosing_radius is the model's shape_radius (coq/model/Geom.v), compared bit for bit with the
   implementation by the geometry engine; here: every disc of a molecule lies within mol_radius of the
   origin, every polygon vertex within poly_radius - for ANY start value of the fold (f64::MIN in the code),
   so the hypothesis `enclosed (p_radius st) l` of the C01 theorem is discharged by the model. *)
From Coq Require Import ZArith List Bool Reals Lra Lia.
From PV Require Import Num NumR model.Geom proofs.RealFacts proofs.LatticeFacts proofs.SiteFacts
  proofs.OverlapFacts proofs.PackingFacts.
Import ListNotations.
Local Open Scope R_scope.

Lemma R_nmax_unfold (x y : R) :
  nmax (NN:=NumR) x y = if Rltb y x then x else if Rltb x y then y else x.
Proof. unfold nmax. rewrite R_is_nan_false. reflexivity. Qed.

Lemma R_nmax_Rmax (x y : R) : nmax (NN:=NumR) x y = Rmax x y.
Proof.
  rewrite R_nmax_unfold. unfold Rmax.
  case_ltb y x H1.
  - destruct (Rle_dec x y); lra.
  - case_ltb x y H2; destruct (Rle_dec x y); lra.
Qed.

Lemma fold_max_ge {A} (f : A -> R) (l : list A) (init : R) :
  init <= fold_left (fun acc x => nmax (NN:=NumR) acc (f x)) l init
  /\ forall x, In x l -> f x <= fold_left (fun acc x => nmax (NN:=NumR) acc (f x)) l init.
Proof.
  revert init. induction l as [|a l IH]; intros init; cbn [fold_left]; [split; [lra|intros x []]|].
  destruct (IH (nmax (NN:=NumR) init (f a))) as [H1 H2]. rewrite R_nmax_Rmax in *.
  pose proof (Rmax_l init (f a)). pose proof (Rmax_r init (f a)).
  split; [lra|]. intros x [<-|Hx]; [lra|now apply H2].
Qed.

Lemma dist_o_R (x y : R) : dist_o NumR x y = sqrt (x * x + y * y).
Proof. reflexivity. Qed.

(* C01: every disc of the molecule lies within the computed radius of the origin *)
Theorem mol_radius_encloses (fmin_ : R) (l : list discR) :
  Forall (fun d => 0 < dr NumR d) l -> enclosed (mol_radius NumR fmin_ l) l.
Proof.
  intros Hpos. unfold enclosed. rewrite Forall_forall in *. intros d Hd. split; [now apply Hpos|].
  destruct (fold_max_ge (fun d => dist_o NumR (dx_ NumR d) (dy_ NumR d) + dr NumR d) l fmin_) as [_ H].
  specialize (H d Hd). rewrite dist_o_R in H. exact H.
Qed.

(* C01: every vertex (edge start) of the polygon lies within the computed radius of the origin *)
Theorem poly_radius_encloses (fmin_ : R) (l : list segR) :
  forall e, In e l -> sqrt (sx1 NumR e * sx1 NumR e + sy1 NumR e * sy1 NumR e) <= poly_radius NumR fmin_ l.
Proof.
  intros e He.
  destruct (fold_max_ge (fun p => dist_o NumR (sx1 NumR p) (sy1 NumR p)) l fmin_) as [_ H].
  exact (H e He).
Qed.

(* C01 for circle and trimer shapes with the radius the code computes (no premise about the radius) *)
Theorem scored_disc_packing_has_no_overlap_computed_radius (st : pstateR) (l : list discR) (fmin_ : R) :
  wf_state st -> rigid_inputs st -> p_shape NumR st = Mol l -> Forall (fun d => 0 < dr NumR d) l ->
  p_radius NumR st = shape_radius NumR fmin_ (p_shape NumR st) ->
  packed_score NumR st <> None ->
  forall i j (n m : Z), (i < copies st)%nat -> (j < copies st)%nat ->
  ~ (i = j /\ n = 0%Z /\ m = 0%Z) ->
  forall p : R * R, ~ (in_mol (placed_mol (copy st i) l) p /\ in_mol (placed_mol (image st j n m) l) p).
Proof.
  intros Hwf Hrig Hshape Hpos Hrad. apply scored_disc_packing_has_no_overlap; try assumption.
  rewrite Hrad, Hshape. cbn [shape_radius]. now apply mol_radius_encloses.
Qed.
