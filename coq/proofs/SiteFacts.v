(* SiteFacts.v - C15: each site yields the group's copies, once each, in one canonical cell.
   Over the reals (NumR): wrap1 (the `periodic(1., -0.5)` of the code) maps every real into
   [-1/2, 1/2) and differs from its argument by an integer; positions() has one placement per
   symmetry operation, placement k having linear part L_k R and fractional position
   wrap(L_k p + t_k); sites that differ by lattice vectors, or orientations that differ by 2 pi, give
   the same placements. *)
From Coq Require Import ZArith List Bool Reals Lra Lia.
From PV Require Import Num NumR model.Geom proofs.LatticeFacts.
Import ListNotations.
Local Open Scope R_scope.

(* ------------------------------------------------------------------ *)
(* the truncated remainder and the wrap                                *)

Lemma frac_part_range x : 0 <= frac_part x < 1.
Proof. destruct (base_fp x) as [H1 H2]. split; [apply Rge_le, H1|exact H2]. Qed.

Lemma frac_part_int x : exists n : Z, x - frac_part x = IZR n.
Proof. exists (Int_part x). unfold frac_part. ring. Qed.

Lemma Rrem1_spec x : (exists n : Z, x - Rrem1 x = IZR n)
                     /\ (0 <= x -> 0 <= Rrem1 x < 1) /\ (x < 0 -> -1 < Rrem1 x <= 0).
Proof.
  unfold Rrem1. destruct (Rle_dec 0 x) as [H|H].
  - split; [apply frac_part_int|]. split; [intros _; apply frac_part_range|lra].
  - split; [|split; [lra|intros _; pose proof (frac_part_range (- x)); lra]].
    destruct (frac_part_int (- x)) as [n Hn]. exists (- n)%Z. rewrite opp_IZR. lra.
Qed.

Definition wrapR (x : R) : R := wrap1 NumR x.

Lemma wrapR_unfold x : wrapR x = Rrem1 (Rrem1 (x - - (1 / 2)) + 1) + - (1 / 2).
Proof. reflexivity. Qed.

(* C15: the wrapped coordinate lies in the half-open cell and is congruent to the original *)
Theorem wrap_spec x : -1/2 <= wrapR x < 1/2 /\ exists n : Z, wrapR x - x = IZR n.
Proof.
  rewrite wrapR_unfold.
  set (u := x - - (1 / 2)).
  destruct (Rrem1_spec u) as ((n1 & Hn1) & Hpos1 & Hneg1).
  assert (Hr1 : -1 < Rrem1 u < 1).
  { destruct (Rle_dec 0 u) as [H|H]; [specialize (Hpos1 H)|assert (H' : u < 0) by lra; specialize (Hneg1 H')]; lra. }
  set (v := Rrem1 u + 1) in *.
  destruct (Rrem1_spec v) as ((n2 & Hn2) & Hpos2 & _).
  assert (Hv : 0 <= v) by (unfold v; lra).
  specialize (Hpos2 Hv).
  split; [lra|].
  exists (1 - n1 - n2)%Z. rewrite !minus_IZR. unfold v, u in *. simpl. lra.
Qed.

Lemma int_in_open_unit (n : Z) : -1 < IZR n < 1 -> n = 0%Z.
Proof.
  intros [H1 H2]. apply lt_IZR in H2. assert (H1' : IZR (-1) < IZR n) by (simpl; lra).
  apply lt_IZR in H1'. lia.
Qed.

(* ... and is the only such number: the wrap is a function of the coordinate modulo 1 *)
Theorem wrap_unique x y : -1/2 <= y < 1/2 -> (exists n : Z, y - x = IZR n) -> y = wrapR x.
Proof.
  intros Hy [n Hn]. destruct (wrap_spec x) as [Hw [m Hm]].
  assert (E : y - wrapR x = IZR (n - m)) by (rewrite minus_IZR; lra).
  assert ((n - m)%Z = 0%Z) by (apply int_in_open_unit; rewrite <- E; lra).
  rewrite H in E. simpl in E. lra.
Qed.

(* C15: coordinates that differ by whole lattice vectors wrap to the same place *)
Theorem wrap_periodic x (n : Z) : wrapR (x + IZR n) = wrapR x.
Proof.
  symmetry. apply wrap_unique; [apply wrap_spec|].
  destruct (wrap_spec x) as [_ [m Hm]]. exists (m - n)%Z. rewrite minus_IZR. lra.
Qed.

(* ------------------------------------------------------------------ *)
(* positions                                                           *)

Notation siteR := (site NumR).

(* a symmetry operation as parsed: bottom row all zero *)
Definition sym_row (t : tfR) : Prop := a20 NumR t = 0 /\ a21 NumR t = 0 /\ a22 NumR t = 0.

Definition placement (sym : tfR) (s : siteR) : tfR := tf_periodic NumR (tf_mul NumR sym (site_tf NumR s)).

Lemma positions_map syms (s : siteR) : positions NumR syms s = map (fun sym => placement sym s) syms.
Proof. reflexivity. Qed.

(* C15: one placement per operation, in order *)
Theorem positions_length syms (s : siteR) : length (positions NumR syms s) = length syms.
Proof. rewrite positions_map. apply map_length. Qed.

Theorem positions_nth syms (s : siteR) k d :
  (k < length syms)%nat -> nth k (positions NumR syms s) d = placement (nth k syms d) s.
Proof.
  intros H. rewrite positions_map.
  rewrite (nth_indep _ d (placement d s)) by (rewrite map_length; exact H).
  apply (map_nth (fun sym => placement sym s)).
Qed.

(* C15: placement k has linear part L_k R and fractional position wrap(L_k p + t_k) *)
Theorem placement_spec (sym : tfR) (s : siteR) : sym_row sym ->
  let p := placement sym s in
  a00 NumR p = a00 NumR sym * s_cos NumR s + a01 NumR sym * s_sin NumR s
  /\ a01 NumR p = a00 NumR sym * - s_sin NumR s + a01 NumR sym * s_cos NumR s
  /\ a10 NumR p = a10 NumR sym * s_cos NumR s + a11 NumR sym * s_sin NumR s
  /\ a11 NumR p = a10 NumR sym * - s_sin NumR s + a11 NumR sym * s_cos NumR s
  /\ a02 NumR p = wrapR (a00 NumR sym * s_x NumR s + a01 NumR sym * s_y NumR s + a02 NumR sym)
  /\ a12 NumR p = wrapR (a10 NumR sym * s_x NumR s + a11 NumR sym * s_y NumR s + a12 NumR sym)
  /\ sym_row p.
Proof.
  intros (H0 & H1 & H2). cbv zeta. unfold placement, tf_periodic.
  set (q := tf_mul NumR sym (site_tf NumR s)).
  assert (Hq : affine_row q).
  { unfold q, tf_mul, dot3, site_tf, tf_new, affine_row. cbn [a20 a21 a22 a00 a01 a02 a10 a11 a12].
    rewrite H0, H1, H2. cbn [nadd nmul NumR n0 n1 nofZ nopp]. change (carrier NumR) with R in *.
    split; [ring|]. split; [ring|]. left. ring. }
  rewrite (tf_position_affine q Hq).
  unfold tf_set_position. cbn [a00 a01 a02 a10 a11 a12 a20 a21 a22 fst snd].
  unfold q, tf_mul, dot3, site_tf, tf_new. cbn [a00 a01 a02 a10 a11 a12 a20 a21 a22].
  rewrite H0, H1, H2. cbn [nadd nmul NumR n0 n1 nofZ nopp].
  destruct sym as [t00 t01 t02 t10 t11 t12 t20 t21 t22]. destruct s as [x y c sn].
  cbn [a00 a01 a02 a10 a11 a12 a20 a21 a22 s_x s_y s_cos s_sin] in *.
  change (carrier NumR) with R in *.
  repeat split; try ring; try (unfold wrapR; f_equal; ring).
  all: cbn [a20 a21 a22]; change (carrier NumR) with R; ring.
Qed.

(* C15: a site moved by whole lattice vectors yields identical placements, when the operation has
   an integer linear part (all seven tables have) *)
Theorem placement_site_periodic (sym : tfR) (s : siteR) (n m : Z) (i00 i01 i10 i11 : Z) :
  sym_row sym ->
  a00 NumR sym = IZR i00 -> a01 NumR sym = IZR i01 -> a10 NumR sym = IZR i10 -> a11 NumR sym = IZR i11 ->
  placement sym (@mkSite NumR (s_x NumR s + IZR n) (s_y NumR s + IZR m) (s_cos NumR s) (s_sin NumR s))
  = placement sym s.
Proof.
  intros Hrow E00 E01 E10 E11.
  remember (@mkSite NumR (s_x NumR s + IZR n) (s_y NumR s + IZR m) (s_cos NumR s) (s_sin NumR s)) as s' eqn:Es'.
  pose proof (placement_spec sym s Hrow) as Hs.
  pose proof (placement_spec sym s' Hrow) as Hs'.
  cbv zeta in Hs, Hs'.
  destruct Hs as (A0 & A1 & A2 & A3 & A4 & A5 & B0 & B1 & B2).
  destruct Hs' as (A0' & A1' & A2' & A3' & A4' & A5' & B0' & B1' & B2').
  assert (Sx : s_x NumR s' = s_x NumR s + IZR n) by (subst s'; reflexivity).
  assert (Sy : s_y NumR s' = s_y NumR s + IZR m) by (subst s'; reflexivity).
  assert (Sc : s_cos NumR s' = s_cos NumR s) by (subst s'; reflexivity).
  assert (Ss : s_sin NumR s' = s_sin NumR s) by (subst s'; reflexivity).
  clear Es'.
  assert (X : a02 NumR (placement sym s') = a02 NumR (placement sym s)).
  { rewrite A4', A4, E00, E01, Sx, Sy.
    replace (IZR i00 * (s_x NumR s + IZR n) + IZR i01 * (s_y NumR s + IZR m) + a02 NumR sym)
      with ((IZR i00 * s_x NumR s + IZR i01 * s_y NumR s + a02 NumR sym) + IZR (i00 * n + i01 * m))
      by (rewrite plus_IZR, !mult_IZR; ring).
    apply wrap_periodic. }
  assert (Y : a12 NumR (placement sym s') = a12 NumR (placement sym s)).
  { rewrite A5', A5, E10, E11, Sx, Sy.
    replace (IZR i10 * (s_x NumR s + IZR n) + IZR i11 * (s_y NumR s + IZR m) + a12 NumR sym)
      with ((IZR i10 * s_x NumR s + IZR i11 * s_y NumR s + a12 NumR sym) + IZR (i10 * n + i11 * m))
      by (rewrite plus_IZR, !mult_IZR; ring).
    apply wrap_periodic. }
  rewrite Sc, Ss in *.
  destruct (placement sym s) as [p00 p01 p02 p10 p11 p12 p20 p21 p22],
           (placement sym s') as [q00 q01 q02 q10 q11 q12 q20 q21 q22].
  cbn [a00 a01 a02 a10 a11 a12 a20 a21 a22] in *. congruence.
Qed.

(* C15: orientations that differ by 2 pi give the same placements *)
Theorem site_orientation_period (x y theta : R) :
  site_tf NumR (@mkSite NumR x y (cos (theta + 2 * PI)) (sin (theta + 2 * PI)))
  = site_tf NumR (@mkSite NumR x y (cos theta) (sin theta)).
Proof.
  rewrite cos_plus, sin_plus, cos_2PI, sin_2PI.
  unfold site_tf, tf_new. cbn [s_x s_y s_cos s_sin nopp NumR]. change (carrier NumR) with R.
  f_equal; ring.
Qed.
