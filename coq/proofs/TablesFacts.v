(* TablesFacts.v - facts about the regenerated tables (C16, C10 labels) and about the independent
   specification.  The finite facts are decided by vm_compute over the complete finite domain
   (7 groups, at most 4 operations each, all pairs). *)
From Coq Require Import ZArith QArith String List Bool Reals Lra Lia.
From PV Require Import model.Tables model.Spec gen.GenTables.
Import ListNotations.

(* the specification itself is a sane description of 7 groups *)
Theorem spec_is_group :
  forallb (fun s => (is_group_mod (sg_order s) (map qop_of_sop (sg_ops s))
                     && content_eqb (content_of (map qop_of_sop (sg_ops s))) (sg_content s)
                     && family_shape_ok s)%bool) ita = true.
Proof. vm_compute. reflexivity. Qed.

(* the code's tables are exactly the specification: names, order of the list, every matrix entry,
   the all-zero bottom row, the crystal family *)
Theorem tables_are_spec : tables_match_spec gen_groups = true.
Proof. vm_compute. reflexivity. Qed.

(* hence the code's tables are groups with the right content *)
Theorem tables_are_groups :
  forallb (fun g => match group_qops g, find (fun s => String.eqb (sg_name s) (gg_cli g)) ita with
                    | Some ops, Some s =>
                        (is_group_mod (sg_order s) ops && content_eqb (content_of ops) (sg_content s))%bool
                    | _, _ => false
                    end) gen_groups = true.
Proof. vm_compute. reflexivity. Qed.

(* ---- crystal family: metric invariance, for ALL cells of the family ---- *)
Lemma sq1 (a : Z) : (a * a = 1)%Z -> a = 1%Z \/ a = (-1)%Z.
Proof. intros H. nia. Qed.

Lemma pm_identity_preserves_every_metric (o : sop) :
  lin_pm_identity o = true -> forall A B C : Z, preserves_metric o A B C = true.
Proof.
  unfold lin_pm_identity, preserves_metric. intros H A B C.
  repeat (apply andb_prop in H; destruct H as [H ?]).
  repeat match goal with E : (_ =? _)%Z = true |- _ => apply Z.eqb_eq in E end.
  destruct o as [a b c d u v]; cbn in *. subst b c d.
  destruct (sq1 a) as [-> | ->]; [assumption| |];
    rewrite !andb_true_iff, !Z.eqb_eq; repeat split; ring.
Qed.

Lemma diag_pm1_preserves_rectangular_metric (o : sop) :
  lin_diag_pm1 o = true -> forall A B : Z, preserves_metric o A B 0 = true.
Proof.
  unfold lin_diag_pm1, preserves_metric. intros H A B.
  repeat (apply andb_prop in H; destruct H as [H ?]).
  repeat match goal with E : (_ =? _)%Z = true |- _ => apply Z.eqb_eq in E end.
  destruct o as [a b c d u v]; cbn in *. subst b c.
  destruct (sq1 a) as [-> | ->]; [assumption| |];
    (destruct (sq1 d) as [-> | ->]; [assumption| |]);
    rewrite !andb_true_iff, !Z.eqb_eq; repeat split; ring.
Qed.

(* every operation of every group leaves every cell metric of the paired family invariant:
   arbitrary [[A,C],[C,B]] for the oblique groups, arbitrary diag(A,B) for the rectangular ones *)
Theorem family_invariance :
  forall s, In s ita -> forall o, In o (sg_ops s) -> forall A B C : Z,
  match sg_family s with
  | Monoclinic => preserves_metric o A B C = true
  | Orthorhombic => preserves_metric o A B 0 = true
  | _ => False
  end.
Proof.
  intros s Hs o Ho A B C.
  pose proof spec_is_group as H. rewrite forallb_forall in H. specialize (H s Hs).
  apply andb_prop in H. destruct H as [_ Hshape]. unfold family_shape_ok in Hshape.
  destruct (sg_family s); try discriminate;
    rewrite forallb_forall in Hshape; specialize (Hshape o Ho).
  - now apply pm_identity_preserves_every_metric.
  - now apply diag_pm1_preserves_rectangular_metric.
Qed.

(* ... and the pairing is needed: each rectangular group has an operation that does NOT preserve
   the oblique metric [[2,1],[1,2]] *)
Theorem family_needed :
  forallb (fun s => match sg_family s with
                    | Orthorhombic => existsb (fun o => negb (preserves_metric o 2 2 1)) (sg_ops s)
                    | _ => true
                    end) ita = true.
Proof. vm_compute. reflexivity. Qed.

(* C10: each group is labelled with the name it is requested by *)
Theorem labels_are_requested_names : labels_ok gen_groups = true.
Proof. vm_compute. reflexivity. Qed.

(* the group names are looked up without regard to case: every spelling probed (lower case, upper case,
   capitalised, alternating; 4 for each of the 7 groups) resolves to the group it spells *)
Theorem names_resolve_case_insensitively :
  length gen_name_lookups = 28%nat
  /\ forallb (fun t => let '(_, want, got) := t in String.eqb want got) gen_name_lookups = true.
Proof. vm_compute. split; reflexivity. Qed.

(* the regenerated matrices are what the parser MODEL (binary64 instance) makes of the regenerated
   strings: ties model/Parse.v to the tables, for all 17 operation strings *)
From PV Require Import Num model.Parse.

Definition row_matches (r : Coq.Floats.PrimFloat.float * Coq.Floats.PrimFloat.float * Coq.Floats.PrimFloat.float)
  (a b c : Q) : bool :=
  let '(x, y, z) := r in (float_is_Q x a && float_is_Q y b && float_is_Q z c)%bool.

Definition parsed_matches (s : string) (m : list Q) : bool :=
  match from_operations NumF s, m with
  | POk r0 r1, [a; b; c; d; e; f; g; h; i] =>
      (row_matches r0 a b c && row_matches r1 d e f
       && Qeq_bool g 0 && Qeq_bool h 0 && Qeq_bool i 0)%bool
  | _, _ => false
  end.

Theorem tables_are_parsed_strings :
  forallb (fun g => forallb2 parsed_matches (gg_ops_str g) (gg_ops g)) gen_groups = true.
Proof. vm_compute. reflexivity. Qed.
