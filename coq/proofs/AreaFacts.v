(* AreaFacts.v - C02: the hard-packing score is the packing fraction.  Over the reals (NumR):
   - the score, when defined, is (copies x shape area) / (cell area), and the cell area is |A x B| (C14);
   - the polygon area formula of the code, sum of 1/2 sin(2 pi/n) |v_i| |v_i+1|, equals the shoelace area
     of the radial polygon it is applied to (sine subtraction law);
   - the molecule area is the sum of the disc areas minus the pairwise lens terms (so it is the area of
     the union exactly when no three discs share a point: known finding D7 otherwise).
   The lens term as an integral: LensFacts.v / LensModel.v.  Not proved: score <= 1 (needs planar measure
   theory); monitored on every run. *)
From Coq Require Import ZArith List Bool Reals Lra Lia.
From PV Require Import Num NumR model.Geom proofs.LatticeFacts proofs.OverlapFacts proofs.PackingFacts proofs.LJFacts.
Import ListNotations.
Local Open Scope R_scope.

Lemma dist_o_radial (r x : R) : 0 <= r -> dist_o NumR (r * sin x) (r * cos x) = r.
Proof.
  intros Hr. unfold dist_o, sq. cbn [nsqrt nadd nmul NumR].
  replace (r * sin x * (r * sin x) + r * cos x * (r * cos x)) with (r * r * (sin x * sin x + cos x * cos x)) by ring.
  pose proof (sin2_cos2 x) as H. unfold Rsqr in H. rewrite H, Rmult_1_r. now apply sqrt_square.
Qed.

(* an edge of a radial polygon: from radius r1 at angle a to radius r2 at angle a + d *)
Definition radial_edge (d : R) (p : segR) : Prop :=
  exists r1 r2 a, 0 <= r1 /\ 0 <= r2
    /\ sx1 NumR p = r1 * sin a /\ sy1 NumR p = r1 * cos a
    /\ sx2 NumR p = r2 * sin (a + d) /\ sy2 NumR p = r2 * cos (a + d).

(* the signed area of the triangle (origin, start, end), positive for the clockwise order the code uses *)
Definition tri_area (p : segR) : R := / 2 * (sy1 NumR p * sx2 NumR p - sx1 NumR p * sy2 NumR p).

Lemma edge_term_is_triangle (d : R) (p : segR) : radial_edge d p ->
  ((1 / 2 * sin d) * dist_o NumR (sx1 NumR p) (sy1 NumR p)) * dist_o NumR (sx2 NumR p) (sy2 NumR p) = tri_area p.
Proof.
  intros (r1 & r2 & a & H1 & H2 & E1 & E2 & E3 & E4). unfold tri_area. rewrite E1, E2, E3, E4.
  rewrite !dist_o_radial by assumption.
  replace (sin d) with (sin ((a + d) - a)) by (f_equal; ring). rewrite sin_minus. field.
Qed.

(* C02: the polygon area the code computes is the shoelace area of the radial polygon *)
Theorem poly_area_is_shoelace (d : R) (l : list segR) :
  Forall (radial_edge d) l -> poly_area NumR (sin d) l = rsum (map tri_area l).
Proof.
  intros H. unfold poly_area. cbn [nadd nmul NumR n0 nofZ]. change (nhalf (NN:=NumR)) with (1 / 2).
  rewrite (fold_left_rsum (fun p => 1 / 2 * sin d * dist_o NumR (sx1 NumR p) (sy1 NumR p) * dist_o NumR (sx2 NumR p) (sy2 NumR p))).
  rewrite Rplus_0_l. apply rsum_map_ext_in. intros p Hp. rewrite Forall_forall in H.
  now apply edge_term_is_triangle, H.
Qed.

Section Mol.
  Variable facos : R -> R.

  (* C02: one disc has area pi r^2; two discs: the sum minus one lens term; three: minus the three lens terms *)
  Theorem mol_area_one (a : discR) : mol_area NumR facos PI [a] = PI * (dr NumR a * dr NumR a).
  Proof. unfold mol_area, sq. cbn [tails fold_left fst snd nadd nsub nmul NumR n0 nofZ]. change (carrier NumR) with R. ring. Qed.

  Theorem mol_area_two (a b : discR) :
    mol_area NumR facos PI [a; b]
    = PI * (dr NumR a * dr NumR a) + PI * (dr NumR b * dr NumR b) - circle_overlap NumR facos a b.
  Proof. unfold mol_area, sq. cbn [tails fold_left fst snd nadd nsub nmul NumR n0 nofZ]. change (carrier NumR) with R. ring. Qed.

  Theorem mol_area_three (a b c : discR) :
    mol_area NumR facos PI [a; b; c]
    = PI * (dr NumR a * dr NumR a) + PI * (dr NumR b * dr NumR b) + PI * (dr NumR c * dr NumR c)
      - (circle_overlap NumR facos a b + circle_overlap NumR facos a c + circle_overlap NumR facos b c).
  Proof. unfold mol_area, sq. cbn [tails fold_left fst snd nadd nsub nmul NumR n0 nofZ]. change (carrier NumR) with R. ring. Qed.

  (* discs that do not reach each other contribute no lens term *)
  Theorem circle_overlap_disjoint (a b : discR) :
    dr NumR a + dr NumR b <= sqrt (dist2 (dx_ NumR a) (dy_ NumR a) (dx_ NumR b) (dy_ NumR b)) ->
    circle_overlap NumR facos a b = 0.
  Proof.
    intros H. unfold circle_overlap, norm2, sq, dist2 in *. cbn [nsqrt nadd nsub nmul nltb NumR] in *.
    replace (Rltb _ _) with false; [reflexivity|]. symmetry. apply Rltb_false. exact H.
  Qed.
End Mol.

(* C02: the score is the packing fraction *)
Theorem score_is_fraction (st : pstateR) (s : R) :
  packed_score NumR st = Some s ->
  s = p_area NumR st * INR (length (p_sites NumR st) * length (p_syms NumR st)) / cell_area NumR (p_cell NumR st)
  /\ check_intersection NumR st = false.
Proof.
  unfold packed_score. destruct (check_intersection NumR st); [discriminate|].
  intros H. injection H as <-. split; [|reflexivity].
  unfold total_shapes. cbn [nmul ndiv nofZ NumR]. rewrite <- INR_IZR_INZ. reflexivity.
Qed.

Theorem score_positive (st : pstateR) (s : R) :
  packed_score NumR st = Some s -> 0 < p_area NumR st ->
  (0 < length (p_sites NumR st))%nat -> (0 < length (p_syms NumR st))%nat ->
  0 < cell_area NumR (p_cell NumR st) -> 0 < s.
Proof.
  intros H Ha Hs Hn Hc. destruct (score_is_fraction st s H) as [-> _].
  apply Rdiv_lt_0_compat; [|exact Hc]. apply Rmult_lt_0_compat; [exact Ha|]. apply lt_0_INR. nia.
Qed.
