(* SampleFloat.v - C08 in binary64: a proposal is never NaN when the magnitudes involved are moderate.
   StandardBasis::sample computes  v + (step * (max - min)) * g ; if the current value, the bounds and the step
   are finite of magnitude at most 2^300 and the random factor g is finite with |g| <= 1, every intermediate
   result is finite (no overflow), hence the sample is finite and in particular not NaN - the premise
   `all_samples_good` of the binary64 range invariant, one step at a time.  Through Flocq. *)
From Coq Require Import ZArith Reals Floats Bool Lra Lia Psatz.
From Flocq Require Import Core BinarySingleNaN PrimFloat.
From PV Require Import Num model.Optimiser proofs.FloatFacts proofs.FloatZero.

Local Instance Hprec : FLX.Prec_gt_0 prec := eq_refl _.
Local Instance Hmax : Prec_lt_emax prec emax := eq_refl _.
Notation fx := (SpecFloat.fexp prec emax).
Notation rnd := (round radix2 fx ZnearestE).
Local Open Scope R_scope.

Lemma fmt_bpow (e : Z) : (-1000 <= e <= 1000)%Z -> generic_format radix2 fx (bpow radix2 e).
Proof. intros He. apply generic_format_bpow. unfold fx, SpecFloat.fexp, emin, SpecFloat.emin, prec, emax. lia. Qed.

Lemma Bmult_bounded (X Y : BF) (a b : Z) :
  BinarySingleNaN.is_finite X = true -> BinarySingleNaN.is_finite Y = true ->
  Rabs (B2R X) <= bpow radix2 a -> Rabs (B2R Y) <= bpow radix2 b -> (-1000 <= a + b <= 1000)%Z ->
  BinarySingleNaN.is_finite (Bmult mode_NE X Y) = true /\ Rabs (B2R (Bmult mode_NE X Y)) <= bpow radix2 (a + b).
Proof.
  intros FX FY HX HY Hab.
  assert (Hp : Rabs (B2R X * B2R Y) <= bpow radix2 (a + b)).
  { rewrite Rabs_mult, bpow_plus. apply Rmult_le_compat; try apply Rabs_pos; assumption. }
  assert (Hr : Rabs (rnd (B2R X * B2R Y)) <= bpow radix2 (a + b)).
  { apply abs_round_le_generic; try typeclasses eauto; [apply fmt_bpow; exact Hab|exact Hp]. }
  pose proof (Bmult_correct _ _ _ _ mode_NE X Y) as H. cbn [round_mode] in H.
  rewrite Rlt_bool_true in H.
  - destruct H as (E & F & _). rewrite FX, FY in F. split; [exact F|]. rewrite E. exact Hr.
  - apply Rle_lt_trans with (bpow radix2 (a + b)); [exact Hr|]. apply bpow_lt. unfold emax. lia.
Qed.

Lemma Bplus_bounded (X Y : BF) (a : Z) :
  BinarySingleNaN.is_finite X = true -> BinarySingleNaN.is_finite Y = true ->
  Rabs (B2R X) <= bpow radix2 a -> Rabs (B2R Y) <= bpow radix2 a -> (-1000 <= a + 1 <= 1000)%Z ->
  BinarySingleNaN.is_finite (Bplus mode_NE X Y) = true /\ Rabs (B2R (Bplus mode_NE X Y)) <= bpow radix2 (a + 1).
Proof.
  intros FX FY HX HY Ha.
  assert (Hp : Rabs (B2R X + B2R Y) <= bpow radix2 (a + 1)).
  { rewrite bpow_plus. change (bpow radix2 1) with 2. pose proof (Rabs_triang (B2R X) (B2R Y)). lra. }
  assert (Hr : Rabs (rnd (B2R X + B2R Y)) <= bpow radix2 (a + 1)).
  { apply abs_round_le_generic; try typeclasses eauto; [apply fmt_bpow; exact Ha|exact Hp]. }
  pose proof (Bplus_correct _ _ _ _ mode_NE X Y FX FY) as H. cbn [round_mode] in H.
  rewrite Rlt_bool_true in H.
  - destruct H as (E & F & _). split; [exact F|]. rewrite E. exact Hr.
  - apply Rle_lt_trans with (bpow radix2 (a + 1)); [exact Hr|]. apply bpow_lt. unfold emax. lia.
Qed.

Lemma Bminus_bounded (X Y : BF) (a : Z) :
  BinarySingleNaN.is_finite X = true -> BinarySingleNaN.is_finite Y = true ->
  Rabs (B2R X) <= bpow radix2 a -> Rabs (B2R Y) <= bpow radix2 a -> (-1000 <= a + 1 <= 1000)%Z ->
  BinarySingleNaN.is_finite (Bminus mode_NE X Y) = true /\ Rabs (B2R (Bminus mode_NE X Y)) <= bpow radix2 (a + 1).
Proof.
  intros FX FY HX HY Ha.
  assert (Hp : Rabs (B2R X - B2R Y) <= bpow radix2 (a + 1)).
  { rewrite bpow_plus. change (bpow radix2 1) with 2. pose proof (Rabs_triang (B2R X) (- B2R Y)). rewrite Rabs_Ropp in H.
    unfold Rminus. lra. }
  assert (Hr : Rabs (rnd (B2R X - B2R Y)) <= bpow radix2 (a + 1)).
  { apply abs_round_le_generic; try typeclasses eauto; [apply fmt_bpow; exact Ha|exact Hp]. }
  pose proof (Bminus_correct _ _ _ _ mode_NE X Y FX FY) as H. cbn [round_mode] in H.
  rewrite Rlt_bool_true in H.
  - destruct H as (E & F & _). split; [exact F|]. rewrite E. exact Hr.
  - apply Rle_lt_trans with (bpow radix2 (a + 1)); [exact Hr|]. apply bpow_lt. unfold emax. lia.
Qed.

Definition ffin (x : F) : Prop := BinarySingleNaN.is_finite (Prim2B x) = true.
Definition fmag (x : F) (e : Z) : Prop := Rabs (B2R (Prim2B x)) <= bpow radix2 e.

(* C08: the sample is finite - hence not NaN - under moderate magnitudes *)
Theorem F_sample_finite (h : handle NumF) (v step g : F) :
  ffin v -> ffin step -> ffin g -> ffin (h_min NumF h) -> ffin (h_max NumF h) ->
  fmag v 300 -> fmag step 300 -> fmag g 0 -> fmag (h_min NumF h) 300 -> fmag (h_max NumF h) 300 ->
  ffin (sample NumF h v step g) /\ fnan (sample NumF h v step g) = false.
Proof.
  unfold ffin, fmag. intros Fv Fs Fg Flo Fhi Mv Ms Mg Mlo Mhi.
  unfold sample. cbn [nadd nmul nsub NumF].
  rewrite add_equiv, !mul_equiv, sub_equiv.
  destruct (Bminus_bounded _ _ 300 Fhi Flo Mhi Mlo) as [F1 M1]; [lia|].
  destruct (Bmult_bounded _ _ 300 (300 + 1) Fs F1 Ms M1) as [F2 M2]; [lia|].
  destruct (Bmult_bounded _ _ (300 + (300 + 1)) 0 F2 Fg M2 Mg) as [F3 M3]; [lia|].
  assert (Mv' : Rabs (B2R (Prim2B v)) <= bpow radix2 (300 + (300 + 1) + 0)).
  { apply Rle_trans with (bpow radix2 300); [exact Mv|]. apply bpow_le. lia. }
  destruct (Bplus_bounded _ _ (300 + (300 + 1) + 0) Fv F3 Mv' M3) as [F4 _]; [lia|].
  split; [exact F4|].
  apply ffinite_not_nan. unfold ffinite. rewrite add_equiv, !mul_equiv, sub_equiv. exact F4.
Qed.
