(* ParseFacts.v - C17: every string of the crystallographic coordinate-triplet grammar parses to
   the affine map it denotes.  The grammar is an inductive type with a rendering RELATION
   (arbitrary spaces, optional '+', any number of outer parentheses); the theorem is by induction
   over the list of terms, for strings of every length.  Arithmetic over the reals (NumR). *)
From Coq Require Import ZArith List Bool Ascii Reals Lra Lia.
From PV Require Import Num NumR model.Parse.
Import ListNotations.
Local Open Scope char_scope.

(* ------------------------------------------------------------------ *)
(* The grammar                                                         *)

Inductive core := CX | CY | CNum (d : nat) | CFrac (d d' : nat).
Record sterm := mkT { neg : bool; tcore : core }.

Definition digit_char (d : nat) : ascii := ascii_of_nat (48 + d).

Definition wf_core (c : core) : Prop :=
  match c with
  | CNum d => (d <= 9)%nat
  | CFrac d d' => (d <= 9)%nat /\ (1 <= d' <= 9)%nat
  | _ => True
  end.

Definition is_x (t : sterm) := match tcore t with CX => true | _ => false end.
Definition is_y (t : sterm) := match tcore t with CY => true | _ => false end.
Definition is_c (t : sterm) := match tcore t with CNum _ | CFrac _ _ => true | _ => false end.

Definition count (p : sterm -> bool) (ts : list sterm) : nat := length (filter p ts).

(* a component: a non-empty sequence of signed terms; x, y and a constant at most once each *)
Definition wf_comp (ts : list sterm) : Prop :=
  ts <> [] /\ Forall (fun t => wf_core (tcore t)) ts
  /\ (count is_x ts <= 1)%nat /\ (count is_y ts <= 1)%nat /\ (count is_c ts <= 1)%nat.

Definition spaces (l : list ascii) : Prop := Forall (fun c => c = " ") l.
Definition braces (l : list ascii) : Prop := Forall (fun c => is_brace c = true) l.

Inductive rd_sign : bool -> list ascii -> Prop :=
| RSneg : rd_sign true ["-"]
| RSpos0 : rd_sign false []
| RSpos1 : rd_sign false ["+"].

Inductive rd_core : core -> list ascii -> Prop :=
| RCX : rd_core CX ["x"]
| RCY : rd_core CY ["y"]
| RCN d : rd_core (CNum d) [digit_char d]
| RCF d d' w1 w2 : spaces w1 -> spaces w2 ->
    rd_core (CFrac d d') ([digit_char d] ++ w1 ++ ["/"] ++ w2 ++ [digit_char d']).

Inductive rd_term : sterm -> list ascii -> Prop :=
| RT t w1 s w2 c w3 : spaces w1 -> rd_sign (neg t) s -> spaces w2 -> rd_core (tcore t) c -> spaces w3 ->
    rd_term t (w1 ++ s ++ w2 ++ c ++ w3).

Inductive rd_comp : list sterm -> list ascii -> Prop :=
| RC0 : rd_comp [] []
| RCS t ts l1 l2 : rd_term t l1 -> rd_comp ts l2 -> rd_comp (t :: ts) (l1 ++ l2).

(* an operation: two components separated by a comma inside any number of parentheses *)
Inductive rd_op : list sterm -> list sterm -> list ascii -> Prop :=
| RO ts1 ts2 l1 l2 pre post : braces pre -> braces post -> rd_comp ts1 l1 -> rd_comp ts2 l2 ->
    rd_op ts1 ts2 (pre ++ l1 ++ "," :: l2 ++ post).

(* ------------------------------------------------------------------ *)
(* What a component denotes                                            *)

Local Open Scope R_scope.

Definition sgn (b : bool) : R := if b then Ropp 1 else 1.
Definition cval (c : core) : R :=
  match c with CNum d => INR d | CFrac d d' => INR d / INR d' | _ => 0 end.

(* value of the expression at the point (x, y) *)
Definition term_value (t : sterm) (x y : R) : R :=
  sgn (neg t) * match tcore t with CX => x | CY => y | c => cval c end.
Fixpoint eval (ts : list sterm) (x y : R) : R :=
  match ts with [] => 0 | t :: r => term_value t x y + eval r x y end.

Fixpoint coef (p : sterm -> bool) (v : sterm -> R) (ts : list sterm) : R :=
  match ts with [] => 0 | t :: r => (if p t then v t else 0) + coef p v r end.

Definition vx (t : sterm) : R := sgn (neg t).
Definition vc (t : sterm) : R := sgn (neg t) * cval (tcore t).
Definition coef_x := coef is_x vx.
Definition coef_y := coef is_y vx.
Definition coef_c := coef is_c vc.

Lemma eval_is_affine ts x y : eval ts x y = coef_x ts * x + coef_y ts * y + coef_c ts.
Proof.
  unfold coef_x, coef_y, coef_c.
  induction ts as [|t r IH]; cbn [eval coef]; [ring|]. rewrite IH.
  unfold term_value, is_x, is_y, is_c, vx, vc. destruct (tcore t); cbn [cval]; ring.
Qed.

(* ------------------------------------------------------------------ *)
(* String-level lemmas                                                 *)

Local Close Scope R_scope.

Lemma drop_while_all p l : Forall (fun c => p c = true) l -> forall r, drop_while p (l ++ r) = drop_while p r.
Proof. induction 1 as [|c l Hc _ IH]; intros r; cbn; [reflexivity|]. now rewrite Hc. Qed.

Lemma drop_while_head p c l : p c = false -> drop_while p (c :: l) = c :: l.
Proof. intros H. cbn. now rewrite H. Qed.

Definition plain (c : ascii) : Prop := is_brace c = false /\ Ascii.eqb c "," = false.

Lemma trim_braces_body pre post body :
  braces pre -> braces post -> body <> [] ->
  (forall c, In c body -> is_brace c = false) ->
  trim_braces (pre ++ body ++ post) = body.
Proof.
  intros Hpre Hpost Hne Hbody. unfold trim_braces.
  rewrite (drop_while_all is_brace pre Hpre).
  destruct body as [|c body]; [congruence|].
  cbn [app]. rewrite drop_while_head by (apply Hbody; now left).
  change (c :: body ++ post) with ((c :: body) ++ post).
  rewrite rev_app_distr.
  rewrite (drop_while_all is_brace (rev post)).
  - destruct (rev (c :: body)) as [|d rb] eqn:E.
    + apply (f_equal (@rev ascii)) in E. rewrite rev_involutive in E. discriminate.
    + rewrite drop_while_head.
      * rewrite <- E. apply rev_involutive.
      * apply Hbody. apply in_rev. rewrite E. now left.
  - apply Forall_rev. exact Hpost.
Qed.

Lemma split_on_plain l : (forall c, In c l -> Ascii.eqb c "," = false) -> split_on "," l = [l].
Proof.
  induction l as [|c l IH]; intros H; [reflexivity|].
  cbn. rewrite (H c) by now left. rewrite IH; [reflexivity|]. intros d Hd. apply H. now right.
Qed.

Lemma split_on_comma l1 l2 :
  (forall c, In c l1 -> Ascii.eqb c "," = false) ->
  split_on "," (l1 ++ "," :: l2) = l1 :: split_on "," l2.
Proof.
  induction l1 as [|c l IH]; intros H; [reflexivity|].
  cbn. rewrite (H c) by now left. rewrite IH; [reflexivity|]. intros d Hd. apply H. now right.
Qed.

Lemma split_terminator_two l1 l2 :
  (forall c, In c l1 -> Ascii.eqb c "," = false) ->
  (forall c, In c l2 -> Ascii.eqb c "," = false) -> l2 <> [] ->
  split_terminator "," (l1 ++ "," :: l2) = [l1; l2].
Proof.
  intros H1 H2 Hne. unfold split_terminator.
  rewrite split_on_comma, split_on_plain by assumption.
  cbn [last]. destruct l2; [congruence|reflexivity].
Qed.

(* ------------------------------------------------------------------ *)
(* The state machine on the real-number instance                       *)

Notation pstR := (pst NumR).
Notation pstepR := (pstep NumR).
Notation pfoldR := (pfold NumR).

Lemma pfold_app (st : pstR) l1 l2 :
  pfoldR st (l1 ++ l2) = match pfoldR st l1 with Some st' => pfoldR st' l2 | None => None end.
Proof.
  revert st. induction l1 as [|c l IH]; intros st; [reflexivity|].
  cbn. destruct (pstepR st c); [apply IH|reflexivity].
Qed.

Lemma pfold_spaces (st : pstR) w : spaces w -> pfoldR st w = Some st.
Proof. induction 1 as [|c w Hc _ IH]; [reflexivity|]. subst c. cbn. exact IH. Qed.

Lemma digit_char_facts d : (d <= 9)%nat ->
  digit_of (digit_char d) = Some (Z.of_nat d)
  /\ Ascii.eqb (digit_char d) "x" = false /\ Ascii.eqb (digit_char d) "y" = false
  /\ Ascii.eqb (digit_char d) "*" = false /\ Ascii.eqb (digit_char d) "/" = false
  /\ Ascii.eqb (digit_char d) "-" = false
  /\ is_brace (digit_char d) = false /\ Ascii.eqb (digit_char d) "," = false.
Proof.
  intros H. do 10 (destruct d as [|d]; [repeat split; reflexivity|]). lia.
Qed.

Lemma pstep_digit (st : pstR) d : (d <= 9)%nat ->
  pstepR st (digit_char d) =
  Some (mkPst NumR (r_x NumR st) (r_y NumR st) 1%R
          (match r_op NumR st with
           | Some o => if Ascii.eqb o "/" then (r_sign NumR st * r_const NumR st / IZR (Z.of_nat d))%R
                       else if Ascii.eqb o "*" then (r_sign NumR st * r_const NumR st / IZR (Z.of_nat d))%R
                       else 0%R
           | None => (r_sign NumR st * IZR (Z.of_nat d))%R
           end) None).
Proof.
  intros H. destruct (digit_char_facts d H) as (Hd & Hx & Hy & Hs & Hq & Hm & _).
  unfold pstep. rewrite Hx, Hy, Hs, Hq, Hm, Hd. reflexivity.
Qed.

(* the register update one signed term performs *)
Definition upd (st : pstR) (t : sterm) : pstR :=
  match tcore t with
  | CX => mkPst NumR (sgn (neg t)) (r_y NumR st) 1%R (r_const NumR st) None
  | CY => mkPst NumR (r_x NumR st) (sgn (neg t)) 1%R (r_const NumR st) None
  | CNum d => mkPst NumR (r_x NumR st) (r_y NumR st) 1%R (sgn (neg t) * INR d)%R None
  | CFrac d d' => mkPst NumR (r_x NumR st) (r_y NumR st) 1%R (sgn (neg t) * INR d / INR d')%R None
  end.

Definition ready (st : pstR) : Prop := r_sign NumR st = 1%R /\ r_op NumR st = None.

Lemma IZR_of_nat d : IZR (Z.of_nat d) = INR d.
Proof. symmetry. apply INR_IZR_INZ. Qed.

Lemma pfold_term (st : pstR) t l :
  ready st -> wf_core (tcore t) -> rd_term t l -> pfoldR st l = Some (upd st t) /\ ready (upd st t).
Proof.
  intros [Hs Ho] Hwf Hr. destruct st as [rx ry rs rc ro]. cbn in Hs, Ho. subst rs ro.
  inversion Hr as [t' w1 s w2 c w3 Hw1 Hsign Hw2 Hcore Hw3]; subst.
  split; [|unfold upd, ready; destruct (tcore t); cbn; auto].
  rewrite pfold_app, (pfold_spaces _ w1 Hw1).
  (* the sign *)
  assert (Hsg : pfoldR (mkPst NumR rx ry 1%R rc None) s
                = Some (mkPst NumR rx ry (sgn (neg t)) rc None)).
  { unfold sgn. destruct (neg t); inversion Hsign; subst; reflexivity. }
  rewrite pfold_app, Hsg, pfold_app, (pfold_spaces _ w2 Hw2), pfold_app.
  unfold upd.
  inversion Hcore as [E|E|d E|d d' v1 v2 Hv1 Hv2 E]; rewrite <- E in *; clear E.
  - cbn. apply (pfold_spaces _ w3 Hw3).
  - cbn. apply (pfold_spaces _ w3 Hw3).
  - cbn in Hwf. cbn [pfold]. rewrite pstep_digit by assumption. cbn [r_op r_sign r_x r_y r_const].
    rewrite IZR_of_nat. apply (pfold_spaces _ w3 Hw3).
  - cbn in Hwf. destruct Hwf as [Hd Hd'].
    cbn [app]. cbn [pfold]. rewrite pstep_digit by assumption. cbn [r_op r_sign r_x r_y r_const].
    rewrite pfold_app, (pfold_spaces _ v1 Hv1).
    cbn [app pfold].
    change (pstepR ?st "/") with (Some (mkPst NumR (r_x NumR st) (r_y NumR st) (r_sign NumR st) (r_const NumR st) (Some "/"))).
    cbn [r_op r_sign r_x r_y r_const].
    rewrite pfold_app, (pfold_spaces _ v2 Hv2).
    cbn [pfold]. rewrite pstep_digit by lia. cbn [r_op r_sign r_x r_y r_const].
    rewrite !IZR_of_nat.
    replace (1 * (sgn (neg t) * INR d) / INR d')%R with (sgn (neg t) * INR d / INR d')%R
      by (unfold Rdiv; ring).
    change (Ascii.eqb "/" "/") with true. cbn iota.
    apply (pfold_spaces _ w3 Hw3).
Qed.

Lemma pfold_comp ts : forall (st : pstR) l,
  ready st -> Forall (fun t => wf_core (tcore t)) ts -> rd_comp ts l ->
  pfoldR st l = Some (fold_left upd ts st).
Proof.
  induction ts as [|t ts IH]; intros st l Hready Hwf Hr; inversion Hr; subst.
  - reflexivity.
  - inversion Hwf as [|? ? Ht Hts]; subst.
    match goal with H : rd_term t ?l1 |- _ => destruct (pfold_term st t l1 Hready Ht H) as [E Hr'] end.
    rewrite pfold_app, E. cbn [fold_left]. now apply IH.
Qed.

(* ------------------------------------------------------------------ *)
(* Last assignment = the coefficient, when each kind occurs at most once *)

Local Open Scope R_scope.

Lemma count_cons p t ts : count p (t :: ts) = ((if p t then 1 else 0) + count p ts)%nat.
Proof. unfold count. cbn. destruct (p t); reflexivity. Qed.

Lemma coef_zero p v ts : count p ts = 0%nat -> coef p v ts = 0.
Proof.
  induction ts as [|t r IH]; [reflexivity|]. rewrite count_cons. cbn [coef].
  destruct (p t); intros H; [discriminate|]. rewrite IH by exact H. ring.
Qed.

Definition regs (st : pstR) : R * R * R := (r_x NumR st, r_y NumR st, r_const NumR st).

Lemma upd_x st t : r_x NumR (upd st t) = if is_x t then vx t else r_x NumR st.
Proof. unfold upd, is_x, vx. destruct (tcore t); reflexivity. Qed.
Lemma upd_y st t : r_y NumR (upd st t) = if is_y t then vx t else r_y NumR st.
Proof. unfold upd, is_y, vx. destruct (tcore t); reflexivity. Qed.
Lemma upd_c st t : r_const NumR (upd st t) = if is_c t then vc t else r_const NumR st.
Proof.
  unfold upd, is_c, vc. destruct (tcore t); cbn; try reflexivity.
  unfold Rdiv. ring.
Qed.

Lemma fold_upd_field (f : pstR -> R) (p : sterm -> bool) (v : sterm -> R)
  (Hupd : forall (st : pstR) (t : sterm), f (upd st t) = if p t then v t else f st) ts :
  forall st,
  (count p ts = 0%nat -> f (fold_left upd ts st) = f st)
  /\ ((count p ts <= 1)%nat -> f st = 0 -> f (fold_left upd ts st) = coef p v ts).
Proof.
  induction ts as [|t r IH]; intros st.
  - split; intros; cbn; auto.
  - rewrite count_cons. cbn [fold_left coef]. destruct (IH (upd st t)) as [IH0 IH1].
    pose proof (Hupd st t) as Hu. destruct (p t).
    + split; [discriminate|]. intros Hc Hz.
      rewrite IH0 by lia. rewrite Hu. rewrite (coef_zero p v r) by lia. ring.
    + split.
      * intros Hc. rewrite IH0 by exact Hc. exact Hu.
      * intros Hc Hz.
        assert (E : f (fold_left upd r (upd st t)) = coef p v r)
          by (apply IH1; [lia|rewrite Hu; exact Hz]).
        rewrite E. ring.
Qed.

Lemma parse_component_denotes ts l :
  wf_comp ts -> rd_comp ts l ->
  parse_component NumR l = Some (coef_x ts, coef_y ts, coef_c ts).
Proof.
  intros (Hne & Hwf & Hx & Hy & Hc) Hr. unfold parse_component.
  rewrite (pfold_comp ts (pinit NumR) l); [|split; reflexivity|assumption|assumption].
  f_equal. f_equal; [f_equal|].
  - apply (fold_upd_field (r_x NumR) is_x vx upd_x ts (pinit NumR)); [exact Hx|reflexivity].
  - apply (fold_upd_field (r_y NumR) is_y vx upd_y ts (pinit NumR)); [exact Hy|reflexivity].
  - apply (fold_upd_field (r_const NumR) is_c vc upd_c ts (pinit NumR)); [exact Hc|reflexivity].
Qed.

(* ------------------------------------------------------------------ *)
(* Characters of a rendered component                                  *)

Local Close Scope R_scope.

Lemma r_comp_plain ts l :
  Forall (fun t => wf_core (tcore t)) ts -> rd_comp ts l -> forall c, In c l -> plain c.
Proof.
  intros Hwf Hr. induction Hr as [|t ts l1 l2 Ht Hc IH]; intros c Hin; [destruct Hin|].
  inversion Hwf as [|? ? Hwt Hwts]; subst.
  apply in_app_or in Hin. destruct Hin as [Hin|Hin]; [|now apply IH].
  inversion Ht as [t' w1 s w2 k w3 Hw1 Hsign Hw2 Hcore Hw3]; subst.
  assert (Hsp : forall w, spaces w -> In c w -> plain c).
  { intros w Hw Hi. unfold spaces in Hw. rewrite Forall_forall in Hw. rewrite (Hw c Hi). split; reflexivity. }
  repeat (apply in_app_or in Hin; destruct Hin as [Hin|Hin]); eauto.
  - inversion Hsign; subst; cbn in Hin;
      repeat (destruct Hin as [<-|Hin]; [split; reflexivity|]); destruct Hin.
  - inversion Hcore as [E|E|d E|d d' v1 v2 Hv1 Hv2 E]; rewrite <- E in Hwt; subst; cbn in Hwt.
    + destruct Hin as [<-|[]]. split; reflexivity.
    + destruct Hin as [<-|[]]. split; reflexivity.
    + destruct Hin as [<-|[]]. destruct (digit_char_facts d Hwt) as (_ & _ & _ & _ & _ & _ & Hb & Hc'). now split.
    + destruct Hwt as [Hd Hd'].
      cbn [app] in Hin. destruct Hin as [<-|Hin].
      { destruct (digit_char_facts d Hd) as (_ & _ & _ & _ & _ & _ & Hb & Hc'). now split. }
      apply in_app_or in Hin. destruct Hin as [Hin|Hin]; [now apply (Hsp v1)|].
      cbn [app] in Hin. destruct Hin as [<-|Hin]; [split; reflexivity|].
      apply in_app_or in Hin. destruct Hin as [Hin|Hin]; [now apply (Hsp v2)|].
      destruct Hin as [<-|[]].
      destruct (digit_char_facts d') as (_ & _ & _ & _ & _ & _ & Hb & Hc'); [lia|now split].
Qed.

Lemma r_comp_nonempty t ts l : rd_comp (t :: ts) l -> l <> [].
Proof.
  intros Hr. inversion Hr as [|t' ts' l1 l2 Ht Hc]; subst.
  inversion Ht as [t' w1 s w2 k w3 Hw1 Hsign Hw2 Hcore Hw3]; subst.
  intros E. apply app_eq_nil in E. destruct E as [E _].
  do 3 (apply app_eq_nil in E; destruct E as [_ E]).
  apply app_eq_nil in E. destruct E as [E _].
  inversion Hcore; subst; discriminate.
Qed.

(* ------------------------------------------------------------------ *)
(* C17                                                                 *)

Theorem parse_denotes ts1 ts2 l :
  wf_comp ts1 -> wf_comp ts2 -> rd_op ts1 ts2 l ->
  from_operations_l NumR l =
  @POk NumR (coef_x ts1, coef_y ts1, coef_c ts1) (coef_x ts2, coef_y ts2, coef_c ts2).
Proof.
  intros W1 W2 Hr. inversion Hr as [a b l1 l2 pre post Hpre Hpost H1 H2]; subst.
  pose proof W1 as (Hne1 & Hwf1 & _). pose proof W2 as (Hne2 & Hwf2 & _).
  pose proof (r_comp_plain ts1 l1 Hwf1 H1) as P1.
  pose proof (r_comp_plain ts2 l2 Hwf2 H2) as P2.
  unfold from_operations_l.
  replace (pre ++ l1 ++ "," :: l2 ++ post) with (pre ++ (l1 ++ "," :: l2) ++ post)
    by (rewrite <- !app_assoc; reflexivity).
  rewrite trim_braces_body; try assumption.
  - rewrite split_terminator_two.
    + now rewrite (parse_component_denotes ts1 l1 W1 H1), (parse_component_denotes ts2 l2 W2 H2).
    + intros c Hc. apply P1, Hc.
    + intros c Hc. apply P2, Hc.
    + destruct ts2 as [|t ts2]; [congruence|]. eapply r_comp_nonempty; eassumption.
  - intros E. apply app_eq_nil in E. destruct E as [_ E]. discriminate.
  - intros c Hc. apply in_app_or in Hc. destruct Hc as [Hc|[<-|Hc]].
    + apply P1, Hc.
    + reflexivity.
    + apply P2, Hc.
Qed.

(* the parsed matrix, applied to a point, is the value of the expression *)
Corollary parse_evaluates ts1 ts2 l (x y : R) :
  wf_comp ts1 -> wf_comp ts2 -> rd_op ts1 ts2 l ->
  exists a b c d e f,
    from_operations_l NumR l = @POk NumR (a, b, c) (d, e, f)
    /\ (a * x + b * y + c = eval ts1 x y)%R /\ (d * x + e * y + f = eval ts2 x y)%R.
Proof.
  intros W1 W2 Hr. do 6 eexists. split; [exact (parse_denotes ts1 ts2 l W1 W2 Hr)|].
  now rewrite !eval_is_affine.
Qed.
