(* LensFacts.v - C02: the lens term of MolecularShape2::area is the area of the intersection of two discs,
   as an integral.  For a circle of radius r, the part beyond a chord at signed distance d from the centre
   (-r < d < r) has area  int_d^r 2 sqrt(r^2 - x^2) dx; the code's overlap_area(r, d) = r^2 acos(d/r) - d sqrt(r^2 - d^2)
   is an antiderivative of minus the chord length that vanishes at d = r; the two chords used for a pair of
   discs are the common chord (radical line) of the two circles.  Real analysis through Coquelicot. *)
From Coq Require Import Reals Lra Psatz.
From Coquelicot Require Import Coquelicot.
Local Open Scope R_scope.

Lemma lens_key r x s : 0 < r -> 0 < s -> s * s = r * r - x * x ->
  r * r * (/ r * (-1 / (s / r))) + - (s - x * x / s) = - (2 * s).
Proof.
  intros Hr Hs Hss.
  replace (r * r * (/ r * (-1 / (s / r)))) with (- (r * r) / s) by (field; lra).
  replace (- (r * r) / s + - (s - x * x / s)) with ((- (r * r) + x * x) / s - s) by (field; lra).
  replace (- (r * r) + x * x) with (- (s * s)) by lra.
  field. lra.
Qed.

Section Segment.
  Variable r : R.
  Hypothesis Hr : 0 < r.

  Definition G (x : R) : R := r * r * acos (x / r) - x * sqrt (r * r - x * x).

  Lemma inside_pos x : - r < x < r -> 0 < r * r - x * x.
  Proof. intros H. nra. Qed.

  Lemma is_derive_acos y : -1 < y < 1 -> is_derive acos y (-1 / sqrt (1 - y²)).
  Proof.
    intros Hy. apply is_derive_Reals. rewrite <- (derive_pt_acos y Hy).
    apply (derive_pt_eq_1 acos y _ (derivable_pt_acos y Hy)). reflexivity.
  Qed.

  Lemma sqrt_scaled x : - r < x < r -> sqrt (1 - (x / r)²) = sqrt (r * r - x * x) / r.
  Proof.
    intros Hx. pose proof (inside_pos x Hx) as Hp.
    replace (1 - (x / r)²) with ((r * r - x * x) / (r * r)) by (unfold Rsqr; field; lra).
    rewrite sqrt_div_alt by nra. rewrite sqrt_square by lra. reflexivity.
  Qed.

  (* G' = - (length of the chord at distance x) *)
  Lemma G_derive x : - r < x < r -> is_derive G x (- (2 * sqrt (r * r - x * x))).
  Proof.
    intros Hx. pose proof (inside_pos x Hx) as Hp.
    assert (Hs : 0 < sqrt (r * r - x * x)) by now apply sqrt_lt_R0.
    assert (Hy : -1 < x / r < 1).
    { split; [apply Rmult_lt_reg_r with r|apply Rmult_lt_reg_r with r]; try lra;
        unfold Rdiv; rewrite Rmult_assoc, Rinv_l by lra; lra. }
    assert (D1 : is_derive (fun x : R => x / r) x (/ r)).
    { evar_last; [auto_derive; [exact I|reflexivity]|]. ring. }
    assert (D2 : is_derive (fun x : R => x * sqrt (r * r - x * x)) x
                   (sqrt (r * r - x * x) - x * x / sqrt (r * r - x * x))).
    { evar_last; [auto_derive; [lra|reflexivity]|]. replace (r * r + - (x * x)) with (r * r - x * x) by ring. field. lra. }
    assert (D3 : is_derive (fun x : R => acos (x / r)) x (/ r * (-1 / sqrt (1 - (x / r)²)))).
    { apply (is_derive_comp acos (fun x : R => x / r) x _ _ (is_derive_acos (x / r) Hy) D1). }
    assert (D4 : is_derive (fun x : R => r * r * acos (x / r)) x (r * r * (/ r * (-1 / sqrt (1 - (x / r)²)))))
      by (apply is_derive_scal; exact D3).
    unfold G. evar_last.
    - exact (is_derive_minus (fun x => r * r * acos (x / r)) (fun x => x * sqrt (r * r - x * x)) x _ _ D4 D2).
    - unfold minus, plus, opp. cbn.
      rewrite (sqrt_scaled x Hx). set (s := sqrt (r * r - x * x)) in *.
      assert (Hss : s * s = r * r - x * x) by (unfold s; apply sqrt_sqrt; lra).
      apply lens_key; assumption.
  Qed.
End Segment.

Section Segment2.
  Variable r : R.
  Hypothesis Hr : 0 < r.

  (* the area beyond the chord at distance d, cut off at b < r, is G d - G b *)
  Theorem segment_integral (d b : R) : - r < d -> d <= b -> b < r ->
    is_RInt (fun x => 2 * sqrt (r * r - x * x)) d b (G r d - G r b).
  Proof.
    intros Hd Hdb Hb.
    replace (G r d - G r b) with (minus ((fun x => -1 * G r x) b) ((fun x => -1 * G r x) d)) by (unfold minus, plus, opp; cbn; ring).
    apply (is_RInt_derive (fun x => -1 * G r x) (fun x => 2 * sqrt (r * r - x * x))).
    - intros x Hx. rewrite Rmin_left, Rmax_right in Hx by lra.
      evar_last; [apply is_derive_scal; apply (G_derive r Hr x); lra|]. ring.
    - intros x Hx. rewrite Rmin_left, Rmax_right in Hx by lra.
      apply (ex_derive_continuous (fun x => 2 * sqrt (r * r - x * x)) x). auto_derive. nra.
  Qed.

  (* ... and G vanishes at the rim, while the whole disc is G (-r) *)
  Lemma G_rim : G r r = 0.
  Proof.
    unfold G. replace (r / r) with 1 by (field; lra). rewrite acos_1.
    replace (r * r - r * r) with 0 by ring. rewrite sqrt_0. ring.
  Qed.

  Lemma G_whole : G r (- r) = PI * (r * r).
  Proof.
    unfold G. replace (- r / r) with (-1) by (field; lra).
    replace (r * r - - r * - r) with 0 by ring. rewrite sqrt_0.
    replace (acos (-1)) with PI; [ring|].
    replace (-1) with (- (1)) by ring. rewrite acos_opp, acos_1. ring.
  Qed.
End Segment2.

(* the two chords MolecularShape2::circle_overlap uses are one and the same: the common chord of the circles *)
Lemma common_chord (ra rb D : R) : 0 < D ->
  let d1 := (D * D + ra * ra - rb * rb) / (2 * D) in
  let d2 := (D * D + rb * rb - ra * ra) / (2 * D) in
  d1 + d2 = D /\ ra * ra - d1 * d1 = rb * rb - d2 * d2.
Proof. intros HD. cbv zeta. split; field; lra. Qed.
