(* NoNesting.v - C01 for the built-in regular polygons, completed: two placed copies of LineShape::polygon(n)
   cannot be nested (all vertices of one strictly inside the other), so in a scored state two placed copies
   share NO interior point at all.  Over the reals.
   Proof of no nesting: a point strictly inside a closed convex polygon is STRICTLY nearer to the centre than the
   farthest vertex; the vertices of the inner copy lie at distance exactly 1 from its own centre c2 and (then)
   at distance < 1 from the outer centre c1, so each vertex direction u_k has u_k . (c1 - c2) > 0; but the
   vertex directions of a regular polygon sum to zero. *)
From Coq Require Import ZArith List Bool Reals Lra Lia Psatz.
From PV Require Import Num NumR model.Geom proofs.RealFacts proofs.LatticeFacts proofs.SiteFacts proofs.OverlapFacts
  proofs.ConvexFacts proofs.ShapeFacts proofs.EnclosedFacts proofs.PackingFacts proofs.PolygonFacts proofs.RadiusFacts
  proofs.PolygonPacking.
Import ListNotations.
Local Open Scope R_scope.

(* ------------------------------------------------------------------ *)
(* strict version of "inside the circle of the vertices"               *)

Lemma sq_sum_zero (a b : R) : a * a + b * b <= 0 -> a = 0 /\ b = 0.
Proof.
  intros H. pose proof (Rle_0_sqr a) as Ha. pose proof (Rle_0_sqr b) as Hb. unfold Rsqr in *.
  assert (Ea : a * a = 0) by lra. assert (Eb : b * b = 0) by lra.
  apply Rmult_integral in Ea, Eb. split; tauto.
Qed.

Lemma open_inside sigma (P : list segR) (x u : pt) :
  strictly_inside sigma P x -> exists eps, 0 < eps /\ strictly_inside sigma P (shift x u eps).
Proof.
  induction P as [|e P IH]; intros Hin.
  - exists 1. split; [lra|]. intros e [].
  - destruct IH as (eps & Heps & Hrest); [intros e' He'; apply Hin; now right|].
    assert (He : 0 < side sigma e x) by (apply Hin; now left).
    set (D := dirD sigma e u).
    destruct (Rle_lt_dec 0 D) as [Hd|Hd].
    + exists eps. split; [exact Heps|]. intros e' [<-|He']; [rewrite side_shift; fold D; nra|now apply Hrest].
    + set (eps' := Rmin eps (side sigma e x / (2 * - D))).
      assert (Hq : 0 < side sigma e x / (2 * - D)) by (apply Rdiv_lt_0_compat; lra).
      assert (Hpos : 0 < eps') by (unfold eps'; apply Rmin_glb_lt; assumption).
      exists eps'. split; [exact Hpos|]. intros e' [<-|He'].
      * rewrite side_shift. fold D.
        assert (Hle : eps' <= side sigma e x / (2 * - D)) by apply Rmin_r.
        assert (eps' * - D <= side sigma e x / 2).
        { apply Rle_trans with (side sigma e x / (2 * - D) * - D); [apply Rmult_le_compat_r; lra|]. right. field. lra. }
        lra.
      * (* a smaller step keeps the other constraints: they are affine and positive at 0 and at eps *)
        pose proof (Hin e' (or_intror He')) as H0. pose proof (Hrest e' He') as H1. rewrite side_shift in *.
        assert (Hle : eps' <= eps) by apply Rmin_l.
        destruct (Rle_lt_dec 0 (dirD sigma e' u)); [nra|].
        assert (eps' * - dirD sigma e' u <= eps * - dirD sigma e' u) by (apply Rmult_le_compat_r; lra). lra.
Qed.

Theorem inside_strictly_within_radius sigma P (c x : pt) (Rad : R) :
  convex sigma P -> closed P -> P <> [] -> 0 <= Rad ->
  (forall e, In e P -> (fst (seg_start e) - fst c) * (fst (seg_start e) - fst c)
                       + (snd (seg_start e) - snd c) * (snd (seg_start e) - snd c) <= Rad * Rad) ->
  strictly_inside sigma P x ->
  (fst x - fst c) * (fst x - fst c) + (snd x - snd c) * (snd x - snd c) < Rad * Rad.
Proof.
  intros Hcv Hcl Hne HR Hv Hin.
  pose proof (inside_within_radius sigma P c x Rad Hcv Hcl Hne HR Hv Hin) as Hle.
  destruct (Rlt_le_dec ((fst x - fst c) * (fst x - fst c) + (snd x - snd c) * (snd x - snd c)) (Rad * Rad)) as [|Hge]; [assumption|exfalso].
  set (u := (fst x - fst c, snd x - snd c)).
  destruct (open_inside sigma P x u Hin) as (eps & Heps & Hin').
  pose proof (inside_within_radius sigma P c (shift x u eps) Rad Hcv Hcl Hne HR Hv Hin') as Hle'.
  unfold shift, u in Hle'. cbn [fst snd] in Hle'.
  set (a := fst x - fst c) in *. set (b := snd x - snd c) in *.
  replace ((fst x + eps * a - fst c) * (fst x + eps * a - fst c) + (snd x + eps * b - snd c) * (snd x + eps * b - snd c))
    with ((1 + eps) * (1 + eps) * (a * a + b * b)) in Hle' by (unfold a, b; ring).
  assert (Hd : a * a + b * b = Rad * Rad) by lra.
  rewrite Hd in Hle'.
  (* (1+eps)^2 Rad^2 <= Rad^2 forces Rad = 0, hence x = c and every vertex = c: a degenerate polygon *)
  assert (HR0 : Rad * Rad = 0) by nra.
  destruct P as [|e P]; [now elim Hne|].
  pose proof (Hv e (or_introl eq_refl)) as Hs.
  destruct (ends_are_starts sigma _ Hcv e (or_introl eq_refl)) as (e' & He' & Ee').
  pose proof (Hv e' He') as Hs'. rewrite Ee' in Hs'.
  assert (Est : seg_start e = seg_end e).
  { destruct (seg_start e) as [p1 p2], (seg_end e) as [q1 q2], c as [c1 c2]. cbn [fst snd] in *.
    rewrite HR0 in Hs, Hs'. destruct (sq_sum_zero _ _ Hs) as [E1 E2]. destruct (sq_sum_zero _ _ Hs') as [E3 E4].
    f_equal; lra. }
  pose proof (Hin e (or_introl eq_refl)) as Hpos. rewrite (side_degenerate sigma e x Est) in Hpos. lra.
Qed.

(* ------------------------------------------------------------------ *)
(* the vertex directions of a regular polygon sum to zero              *)

Fixpoint sum_sin (t : R) (m : nat) : R := match m with O => 0 | S k => sum_sin t k + sin (INR k * t) end.
Fixpoint sum_cos (t : R) (m : nat) : R := match m with O => 0 | S k => sum_cos t k + cos (INR k * t) end.

Lemma sum_sin_telescopes t m : 2 * sin (t / 2) * sum_sin t m = cos (t / 2) - cos ((INR m - / 2) * t).
Proof.
  induction m as [|m IH].
  - cbn [sum_sin INR]. replace ((0 - / 2) * t) with (- (t / 2)) by field. rewrite cos_neg. ring.
  - cbn [sum_sin]. rewrite Rmult_plus_distr_l, IH, S_INR.
    replace ((INR m - / 2) * t) with (INR m * t - t / 2) by field.
    replace ((INR m + 1 - / 2) * t) with (INR m * t + t / 2) by field.
    rewrite cos_minus, cos_plus. ring.
Qed.

Lemma sum_cos_telescopes t m : 2 * sin (t / 2) * sum_cos t m = sin ((INR m - / 2) * t) + sin (t / 2).
Proof.
  induction m as [|m IH].
  - cbn [sum_cos INR]. replace ((0 - / 2) * t) with (- (t / 2)) by field. rewrite sin_neg. ring.
  - cbn [sum_cos]. rewrite Rmult_plus_distr_l, IH, S_INR.
    replace ((INR m - / 2) * t) with (INR m * t - t / 2) by field.
    replace ((INR m + 1 - / 2) * t) with (INR m * t + t / 2) by field.
    rewrite sin_minus, sin_plus. ring.
Qed.

Lemma vertex_sums_zero (n : nat) : (3 <= n)%nat -> sum_sin (theta n) n = 0 /\ sum_cos (theta n) n = 0.
Proof.
  intros Hn. destruct (theta_bounds n Hn) as [[Ht0 Ht1] Hnt].
  assert (Hs : 0 < sin (theta n / 2)) by (apply sin_gt_0; lra).
  assert (Ea : (INR n - / 2) * theta n = 2 * PI - theta n / 2) by (rewrite <- Hnt; field).
  pose proof (sum_sin_telescopes (theta n) n) as H1. pose proof (sum_cos_telescopes (theta n) n) as H2.
  rewrite Ea in H1, H2.
  assert (Ec : cos (2 * PI - theta n / 2) = cos (theta n / 2)).
  { rewrite cos_minus, cos_2PI, sin_2PI. ring. }
  assert (Es : sin (2 * PI - theta n / 2) = - sin (theta n / 2)).
  { rewrite sin_minus, cos_2PI, sin_2PI. ring. }
  rewrite Ec in H1. rewrite Es in H2. split; nra.
Qed.

(* sums over the edge list of the placed polygon *)
Fixpoint sum_px (l : list segR) : R := match l with [] => 0 | e :: r => fst (seg_start e) + sum_px r end.
Fixpoint sum_py (l : list segR) : R := match l with [] => 0 | e :: r => snd (seg_start e) + sum_py r end.

Lemma sums_of_edges (n : nat) : forall a m,
  sum_px (map (redge n) (seq a m)) = sum_sin (theta n) (a + m) - sum_sin (theta n) a
  /\ sum_py (map (redge n) (seq a m)) = sum_cos (theta n) (a + m) - sum_cos (theta n) a.
Proof.
  intros a m. revert a. induction m as [|m IH]; intros a.
  - rewrite Nat.add_0_r. cbn. split; ring.
  - change (seq a (S m)) with (a :: seq (S a) m). cbn [map sum_px sum_py].
    destruct (IH (S a)) as [Hx Hy]. rewrite Hx, Hy.
    replace (a + S m)%nat with (S a + m)%nat by lia.
    rewrite redge_Ed, Ed_start. unfold Pt. cbn [fst snd sum_sin sum_cos]. split; ring.
Qed.

Lemma polygon_vertex_sum (n : nat) : (3 <= n)%nat ->
  sum_px (polygon NumR PI sin cos n) = 0 /\ sum_py (polygon NumR PI sin cos n) = 0.
Proof.
  intros Hn. rewrite polygon_edges. destruct (sums_of_edges n 0 n) as [Hx Hy]. destruct (vertex_sums_zero n Hn) as [S1 S2].
  rewrite Hx, Hy. cbn [Nat.add sum_sin sum_cos]. rewrite S1, S2. split; ring.
Qed.

(* ------------------------------------------------------------------ *)
(* congruent regular polygons cannot be nested                         *)

Lemma sum_placed (t : tfR) (l : list segR) : affine_row t ->
  sum_px (placed_poly t l) = a00 NumR t * sum_px l + a01 NumR t * sum_py l + INR (length l) * a02 NumR t
  /\ sum_py (placed_poly t l) = a10 NumR t * sum_px l + a11 NumR t * sum_py l + INR (length l) * a12 NumR t.
Proof.
  intros Ha. induction l as [|e l [IHx IHy]]; [cbn; split; ring|].
  unfold placed_poly in *. cbn [map sum_px sum_py length]. rewrite IHx, IHy, (seg_start_transform t e Ha).
  unfold seg_start. rewrite (tf_apply_affine t _ _ Ha). cbn [fst snd]. rewrite S_INR. split; ring.
Qed.

Lemma placed_regular_vertex (t : tfR) (n : nat) (e : segR) : affine_row t -> rigid t ->
  In e (placed_poly t (polygon NumR PI sin cos n)) ->
  (fst (seg_start e) - a02 NumR t) * (fst (seg_start e) - a02 NumR t)
  + (snd (seg_start e) - a12 NumR t) * (snd (seg_start e) - a12 NumR t) = 1.
Proof.
  intros Ha (R1 & R2 & R3) He. unfold placed_poly in He. apply in_map_iff in He. destruct He as (e0 & <- & He0).
  rewrite polygon_edges in He0. apply in_polygon in He0. destruct He0 as (k & _ & ->).
  rewrite (seg_start_transform t _ Ha), redge_Ed, Ed_start. unfold Pt. rewrite (tf_apply_affine t _ _ Ha). cbn [fst snd].
  set (s := sin (INR k * theta n)). set (c := cos (INR k * theta n)).
  assert (Hsc : s * s + c * c = 1) by (unfold s, c; pose proof (sin2_cos2 (INR k * theta n)) as H; unfold Rsqr in H; exact H).
  replace ((a00 NumR t * (1 * s) + a01 NumR t * (1 * c) + a02 NumR t - a02 NumR t) * (a00 NumR t * (1 * s) + a01 NumR t * (1 * c) + a02 NumR t - a02 NumR t)
           + (a10 NumR t * (1 * s) + a11 NumR t * (1 * c) + a12 NumR t - a12 NumR t) * (a10 NumR t * (1 * s) + a11 NumR t * (1 * c) + a12 NumR t - a12 NumR t))
    with ((a00 NumR t * a00 NumR t + a10 NumR t * a10 NumR t) * (s * s) + 2 * (a00 NumR t * a01 NumR t + a10 NumR t * a11 NumR t) * (s * c)
          + (a01 NumR t * a01 NumR t + a11 NumR t * a11 NumR t) * (c * c)) by ring.
  rewrite R1, R2, R3. lra.
Qed.

(* sum over the edge starts of  2 (v - c2).w - |w|^2 *)
Fixpoint sum_g (c2 w : pt) (l : list segR) : R :=
  match l with
  | [] => 0
  | e :: r => (2 * ((fst (seg_start e) - fst c2) * fst w + (snd (seg_start e) - snd c2) * snd w) - (fst w * fst w + snd w * snd w))
              + sum_g c2 w r
  end.

Lemma sum_g_formula c2 w l :
  sum_g c2 w l = 2 * ((sum_px l - INR (length l) * fst c2) * fst w + (sum_py l - INR (length l) * snd c2) * snd w)
                 - INR (length l) * (fst w * fst w + snd w * snd w).
Proof. induction l as [|e l IH]; [cbn; ring|]. cbn [sum_g sum_px sum_py length]. rewrite IH, S_INR. ring. Qed.

Lemma sum_g_pos c2 w l : l <> [] ->
  (forall e, In e l -> 0 < 2 * ((fst (seg_start e) - fst c2) * fst w + (snd (seg_start e) - snd c2) * snd w) - (fst w * fst w + snd w * snd w)) ->
  0 < sum_g c2 w l.
Proof.
  intros Hne H. destruct l as [|e l]; [now elim Hne|]. clear Hne.
  revert e H. induction l as [|e' l IH]; intros e H.
  - cbn [sum_g]. specialize (H e (or_introl eq_refl)). lra.
  - change (sum_g c2 w (e :: e' :: l)) with ((2 * ((fst (seg_start e) - fst c2) * fst w + (snd (seg_start e) - snd c2) * snd w) - (fst w * fst w + snd w * snd w)) + sum_g c2 w (e' :: l)).
    pose proof (H e (or_introl eq_refl)). assert (0 < sum_g c2 w (e' :: l)) by (apply IH; intros x Hx; apply H; now right). lra.
Qed.

Theorem regular_polygons_cannot_nest (n : nat) (t1 t2 : tfR) :
  (3 <= n)%nat -> affine_row t1 -> rigid t1 -> affine_row t2 -> rigid t2 ->
  let l := polygon NumR PI sin cos n in
  ~ (forall f, In f (placed_poly t2 l) -> strictly_inside (-1 * det2 t1) (placed_poly t1 l) (seg_start f)).
Proof.
  intros Hn A1 G1 A2 G2 l Hnest.
  set (P := placed_poly t1 l) in *. set (Q := placed_poly t2 l) in *.
  assert (HcP : convex (-1 * det2 t1) P) by (apply placed_convex; auto; apply polygon_convex; exact Hn).
  assert (HclP : closed P) by (apply placed_closed; auto; apply polygon_closed; exact Hn).
  assert (HnP : P <> []) by (apply placed_poly_nonempty, polygon_nonempty; exact Hn).
  assert (HnQ : Q <> []) by (apply placed_poly_nonempty, polygon_nonempty; exact Hn).
  set (c1 := (a02 NumR t1, a12 NumR t1)). set (c2 := (a02 NumR t2, a12 NumR t2)).
  set (w := (fst c1 - fst c2, snd c1 - snd c2)).
  (* every vertex of Q is strictly nearer to c1 than 1, and at distance exactly 1 from c2 *)
  assert (Hpos : forall f, In f Q -> 0 < 2 * ((fst (seg_start f) - fst c2) * fst w + (snd (seg_start f) - snd c2) * snd w) - (fst w * fst w + snd w * snd w)).
  { intros f Hf.
    pose proof (inside_strictly_within_radius (-1 * det2 t1) P c1 (seg_start f) 1 HcP HclP HnP) as H1.
    assert (Hlt : (fst (seg_start f) - fst c1) * (fst (seg_start f) - fst c1) + (snd (seg_start f) - snd c1) * (snd (seg_start f) - snd c1) < 1 * 1).
    { apply H1; [lra| |now apply Hnest]. intros e He. unfold c1. cbn [fst snd].
      rewrite (placed_regular_vertex t1 n e A1 G1 He). lra. }
    pose proof (placed_regular_vertex t2 n f A2 G2 Hf) as Heq.
    unfold w, c1, c2 in *. cbn [fst snd] in *. nra. }
  pose proof (sum_g_pos c2 w Q HnQ Hpos) as Hsum.
  rewrite sum_g_formula in Hsum.
  destruct (sum_placed t2 l A2) as [Sx Sy]. destruct (polygon_vertex_sum n Hn) as [Z1 Z2].
  fold Q in Sx, Sy. fold l in Z1, Z2. rewrite Z1, Z2 in Sx, Sy.
  assert (Hlen : length Q = length l) by (unfold Q, placed_poly; apply map_length).
  rewrite Sx, Sy, Hlen in Hsum. unfold c2 in Hsum. cbn [fst snd] in Hsum.
  assert (Hn0 : 0 <= INR (length l)) by apply pos_INR.
  pose proof (Rle_0_sqr (fst w)). pose proof (Rle_0_sqr (snd w)). unfold Rsqr in *.
  nra.
Qed.

(* ------------------------------------------------------------------ *)
(* C01 for regular polygons, complete                                  *)

Lemma copy_image_rigid (st : pstateR) (i j : nat) (a b : Z) :
  wf_state st -> rigid_inputs st -> (i < copies st)%nat -> (j < copies st)%nat ->
  (affine_row (copy st i) /\ rigid (copy st i)) /\ (affine_row (image st j a b) /\ rigid (image st j a b)).
Proof.
  intros Hwf [Hrig Hcs] Hi Hj.
  assert (Hpl : forall q, (q < copies st)%nat ->
            affine_row (nth q (relative_positions NumR st) dflt) /\ rigid (nth q (relative_positions NumR st) dflt))
    by (intros q Hq; apply rel_rigid; [exact Hwf|split; assumption|exact Hq]).
  destruct (Hpl i Hi) as [Ai Gi]. destruct (Hpl j Hj) as [Aj Gj]. split.
  - rewrite (copy_is_cart st i Hi). split; [exact Ai|exact Gi].
  - unfold image, to_cartesian_translate. destruct (tf_position NumR _). split; [exact Aj|exact Gj].
Qed.

(* in a scored state of regular polygons, two placed copies - any pair, any lattice translate - have no common
   interior point *)
Theorem scored_regular_polygon_packing_disjoint (st : pstateR) (n : nat) (fmin_ : R) :
  (3 <= n)%nat ->
  wf_state st -> rigid_inputs st -> p_shape NumR st = Poly (polygon NumR PI sin cos n) ->
  p_radius NumR st = shape_radius NumR fmin_ (p_shape NumR st) ->
  packed_score NumR st <> None ->
  forall i j (a b : Z), (i < copies st)%nat -> (j < copies st)%nat ->
  ~ (i = j /\ a = 0%Z /\ b = 0%Z) ->
  let l := polygon NumR PI sin cos n in
  forall x, ~ (strictly_inside (-1 * det2 (copy st i)) (placed_poly (copy st i) l) x
               /\ strictly_inside (-1 * det2 (image st j a b)) (placed_poly (image st j a b) l) x).
Proof.
  intros Hn Hwf Hri Hshape Hrad Hscore i j a b Hi Hj Hd l x [HxP HxQ].
  destruct (copy_image_rigid st i j a b Hwf Hri Hi Hj) as [[Ac Gc] [Am Gm]].
  destruct (scored_regular_polygon_packing_no_overlap st n fmin_ Hn Hwf Hri Hshape Hrad Hscore i j a b Hi Hj Hd x HxP HxQ)
    as [Hnest|Hnest].
  - exact (regular_polygons_cannot_nest n (image st j a b) (copy st i) Hn Am Gm Ac Gc Hnest).
  - exact (regular_polygons_cannot_nest n (copy st i) (image st j a b) Hn Ac Gc Am Gm Hnest).
Qed.
