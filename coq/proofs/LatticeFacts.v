(* LatticeFacts.v - C14: one lattice.  Facts about the geometry model over the reals (NumR):
   the Cartesian map is linear with lattice vectors A = (a, 0), B = (b cos t, b sin t); the periodic
   images of a placement within k shells are exactly the placement translated by n A + m B for
   |n|, |m| <= k, each once, in the order of the nested loops, with the linear part unchanged; the
   cell area is |A x B|. *)
From Coq Require Import ZArith List Bool Reals Lra Lia Sorted.
From PV Require Import Num NumR model.Geom.
Import ListNotations.
Local Open Scope R_scope.

Notation tfR := (tf NumR).
Notation cellR := (cell NumR).

(* ------------------------------------------------------------------ *)
(* the enumeration of shell indices                                    *)

Lemma zrange_from_In lo n x : In x (zrange_from lo n) <-> (lo <= x < lo + Z.of_nat n)%Z.
Proof.
  revert lo. induction n as [|n IH]; intros lo; cbn [zrange_from].
  - split; [intros []|lia].
  - cbn [In]. rewrite IH. lia.
Qed.

Lemma zrange_from_length lo n : length (zrange_from lo n) = n.
Proof. revert lo. induction n as [|n IH]; intros lo; cbn; [reflexivity|]. now rewrite IH. Qed.

Lemma zrange_from_sorted lo n : StronglySorted Z.lt (zrange_from lo n).
Proof.
  revert lo. induction n as [|n IH]; intros lo; cbn [zrange_from]; constructor.
  - apply IH.
  - apply Forall_forall. intros x Hx. apply zrange_from_In in Hx. lia.
Qed.

Lemma zrange_In k x : (0 <= k)%Z -> (In x (zrange k) <-> (- k <= x <= k)%Z).
Proof. intros Hk. unfold zrange. rewrite zrange_from_In. lia. Qed.

Lemma zrange_length k : (0 <= k)%Z -> length (zrange k) = Z.to_nat (2 * k + 1).
Proof. intros _. apply zrange_from_length. Qed.

Lemma zrange_sorted k : StronglySorted Z.lt (zrange k).
Proof. apply zrange_from_sorted. Qed.

Lemma sorted_NoDup l : StronglySorted Z.lt l -> NoDup l.
Proof.
  induction 1 as [|x l Hs IH Hf]; constructor; [|exact IH].
  intros Hin. rewrite Forall_forall in Hf. specialize (Hf x Hin). lia.
Qed.

(* all pairs (n, m), n outer and m inner, both ascending *)
Definition row (k : Z) (x : Z) : list (Z * Z) := map (fun y : Z => (x, y)) (zrange k).
Definition all_pairs (k : Z) : list (Z * Z) := flat_map (row k) (zrange k).

Lemma all_pairs_In k n m : (0 <= k)%Z ->
  (In (n, m) (all_pairs k) <-> (- k <= n <= k /\ - k <= m <= k)%Z).
Proof.
  intros Hk. unfold all_pairs. rewrite in_flat_map. split.
  - intros (x & Hx & Hin). unfold row in Hin. apply in_map_iff in Hin. destruct Hin as (y & E & Hy).
    injection E as <- <-. apply zrange_In in Hx, Hy; auto.
  - intros [Hn Hm]. exists n. split; [apply zrange_In; auto|].
    unfold row. apply in_map_iff. exists m. split; [reflexivity|apply zrange_In; auto].
Qed.

Lemma all_pairs_length k : (0 <= k)%Z -> length (all_pairs k) = (Z.to_nat (2 * k + 1) * Z.to_nat (2 * k + 1))%nat.
Proof.
  intros Hk. unfold all_pairs.
  assert (H : forall l, length (flat_map (row k) l)
                        = (length l * Z.to_nat (2 * k + 1))%nat).
  { induction l as [|x l IH]; [reflexivity|]. cbn [flat_map]. unfold row at 1. rewrite app_length, map_length, IH, zrange_length by assumption.
    cbn [length]. lia. }
  rewrite H, zrange_length by assumption. reflexivity.
Qed.

(* lexicographic order of the nested loops *)
Definition lex_lt (p q : Z * Z) : Prop := (fst p < fst q \/ (fst p = fst q /\ snd p < snd q))%Z.

Lemma all_pairs_sorted k : StronglySorted lex_lt (all_pairs k).
Proof.
  unfold all_pairs.
  assert (H : forall l, StronglySorted Z.lt l ->
            StronglySorted lex_lt (flat_map (row k) l)).
  { induction 1 as [|x l Hs IH Hf]; cbn [flat_map]; [constructor|].
    assert (Hrow : forall r, StronglySorted Z.lt r ->
              Forall (fun q => Forall (lex_lt q) (flat_map (row k) l))
                     (map (fun y : Z => (x, y)) r)
              -> StronglySorted lex_lt (map (fun y : Z => (x, y)) r ++ flat_map (row k) l)).
    { induction 1 as [|y r Hr IHr Hfr]; intros Hall; cbn [map app]; [exact IH|].
      inversion Hall as [|? ? H1 H2]; subst. constructor; [apply IHr; exact H2|].
      apply Forall_app. split; [|exact H1].
      apply Forall_forall. intros q Hq. apply in_map_iff in Hq. destruct Hq as (y' & <- & Hy').
      rewrite Forall_forall in Hfr. right. split; [reflexivity|cbn; now apply Hfr]. }
    apply Hrow; [apply zrange_sorted|].
    apply Forall_forall. intros q Hq. apply in_map_iff in Hq. destruct Hq as (y & <- & _).
    apply Forall_forall. intros p Hp. apply in_flat_map in Hp. destruct Hp as (x' & Hx' & Hp).
    apply in_map_iff in Hp. destruct Hp as (y' & <- & _).
    left. cbn. rewrite Forall_forall in Hf. now apply Hf. }
  apply H, zrange_sorted.
Qed.

Lemma lex_sorted_NoDup l : StronglySorted lex_lt l -> NoDup l.
Proof.
  induction 1 as [|x l Hs IH Hf]; constructor; [|exact IH].
  intros Hin. rewrite Forall_forall in Hf. specialize (Hf x Hin). unfold lex_lt in Hf. lia.
Qed.

Definition keep (zero : bool) (xy : Z * Z) : bool :=
  negb (andb (negb zero) (andb (fst xy =? 0)%Z (snd xy =? 0)%Z)).

Lemma shell_indices_eq k zero : shell_indices k zero = filter (keep zero) (all_pairs k).
Proof. reflexivity. Qed.

Lemma keep_spec zero n m : keep zero (n, m) = true <-> (zero = true \/ (n, m) <> (0, 0)%Z).
Proof.
  unfold keep. cbn [fst snd]. destruct zero; cbn.
  - split; auto.
  - destruct (Z.eqb_spec n 0), (Z.eqb_spec m 0); cbn; split; intros H; try reflexivity; try discriminate;
      try (right; congruence); destruct H as [H|H]; try discriminate; subst; congruence.
Qed.

Lemma StronglySorted_filter {A} (R : A -> A -> Prop) (f : A -> bool) l :
  StronglySorted R l -> StronglySorted R (filter f l).
Proof.
  induction 1 as [|x l Hs IH Hf]; cbn; [constructor|].
  destruct (f x); [|exact IH]. constructor; [exact IH|].
  apply Forall_forall. intros y Hy. apply filter_In in Hy. rewrite Forall_forall in Hf. now apply Hf.
Qed.

(* C14: which images exist - exactly the index pairs within k shells, each once, in loop order *)
Theorem shell_indices_spec k zero : (0 <= k)%Z ->
  (forall n m, In (n, m) (shell_indices k zero)
               <-> ((- k <= n <= k)%Z /\ (- k <= m <= k)%Z /\ (zero = true \/ (n, m) <> (0, 0)%Z)))
  /\ NoDup (shell_indices k zero)
  /\ StronglySorted lex_lt (shell_indices k zero).
Proof.
  intros Hk. rewrite shell_indices_eq. split; [|split].
  - intros n m. rewrite filter_In, all_pairs_In, keep_spec by assumption. tauto.
  - apply lex_sorted_NoDup, StronglySorted_filter, all_pairs_sorted.
  - apply StronglySorted_filter, all_pairs_sorted.
Qed.

Lemma filter_all_true {A} (f : A -> bool) (l : list A) :
  (forall y, In y l -> f y = true) -> filter f l = l.
Proof.
  induction l as [|y l IH]; intros H; [reflexivity|]. cbn.
  rewrite (H y) by now left. f_equal. apply IH. intros z Hz. apply H. now right.
Qed.

Lemma filter_length_remove_one {A} (f : A -> bool) (l : list A) (x : A) :
  NoDup l -> In x l -> (forall y, f y = false <-> y = x) ->
  S (length (filter f l)) = length l.
Proof.
  intros Hnd Hin Hf. induction l as [|y l IH]; [destruct Hin|].
  inversion Hnd as [|? ? Hny Hnd']; subst. cbn [filter length].
  destruct Hin as [->|Hin].
  - rewrite (proj2 (Hf x) eq_refl). f_equal. f_equal. apply filter_all_true.
    intros z Hz. destruct (f z) eqn:E; [reflexivity|]. apply Hf in E. subst. contradiction.
  - assert (f y = true).
    { destruct (f y) eqn:E; [reflexivity|]. apply Hf in E. subst. contradiction. }
    rewrite H. cbn [length]. f_equal. now apply IH.
Qed.

Theorem shell_indices_length k zero : (0 <= k)%Z ->
  (length (shell_indices k zero) + (if zero then 0 else 1))%nat
  = (Z.to_nat (2 * k + 1) * Z.to_nat (2 * k + 1))%nat.
Proof.
  intros Hk. rewrite shell_indices_eq, <- all_pairs_length by assumption.
  destruct zero.
  - rewrite Nat.add_0_r. f_equal. apply filter_all_true. intros [n m] _. reflexivity.
  - rewrite Nat.add_1_r.
    apply (filter_length_remove_one (keep false) (all_pairs k) (0, 0)%Z).
    + apply lex_sorted_NoDup, all_pairs_sorted.
    + apply all_pairs_In; lia.
    + intros [n m]. split.
      * intros H. destruct (keep false (n, m)) eqn:E; [discriminate|].
        unfold keep in E. cbn in E. destruct (Z.eqb_spec n 0), (Z.eqb_spec m 0); cbn in E; try discriminate. congruence.
      * intros E. injection E as -> ->. reflexivity.
Qed.

(* ------------------------------------------------------------------ *)
(* the Cartesian map                                                   *)

Definition vecA (c : cellR) : R * R := (c_len NumR c, 0).
Definition vecB (c : cellR) : R * R :=
  (c_len NumR c * c_ratio NumR c * c_cos NumR c, c_len NumR c * c_ratio NumR c * c_sin NumR c).

Lemma to_cartesian_R (c : cellR) x y :
  to_cartesian NumR c (x, y) = (x * fst (vecA c) + y * fst (vecB c), x * snd (vecA c) + y * snd (vecB c)).
Proof. unfold to_cartesian, cell_a, cell_b, vecA, vecB. cbn. f_equal; ring. Qed.

(* C14: fractional coordinates map to Cartesian space linearly with lattice vectors A and B *)
Theorem to_cartesian_linear (c : cellR) :
  to_cartesian NumR c (1, 0) = vecA c /\ to_cartesian NumR c (0, 1) = vecB c
  /\ (forall x y x' y', to_cartesian NumR c (x + x', y + y')
        = (fst (to_cartesian NumR c (x, y)) + fst (to_cartesian NumR c (x', y')),
           snd (to_cartesian NumR c (x, y)) + snd (to_cartesian NumR c (x', y'))))
  /\ (forall k x y, to_cartesian NumR c (k * x, k * y)
        = (k * fst (to_cartesian NumR c (x, y)), k * snd (to_cartesian NumR c (x, y)))).
Proof.
  repeat split; intros; rewrite ?to_cartesian_R; unfold vecA, vecB; cbn; f_equal; ring.
Qed.

(* C14: the cell area is |A x B| *)
Theorem cell_area_is_cross (c : cellR) :
  cell_area NumR c = fst (vecA c) * snd (vecB c) - snd (vecA c) * fst (vecB c)
  /\ (0 <= c_sin NumR c -> 0 <= c_len NumR c -> 0 <= c_ratio NumR c ->
      cell_area NumR c = Rabs (fst (vecA c) * snd (vecB c) - snd (vecA c) * fst (vecB c))).
Proof.
  assert (E : cell_area NumR c = fst (vecA c) * snd (vecB c) - snd (vecA c) * fst (vecB c)).
  { unfold cell_area, cell_a, cell_b, vecA, vecB. cbn. ring. }
  split; [exact E|]. intros Hs Hl Hr. rewrite <- E. symmetry. apply Rabs_pos_eq.
  unfold cell_area, cell_a, cell_b. cbn.
  repeat apply Rmult_le_pos; assumption.
Qed.

(* ------------------------------------------------------------------ *)
(* positions of transforms with an affine bottom row                   *)

Definition affine_row (t : tfR) : Prop :=
  a20 NumR t = 0 /\ a21 NumR t = 0 /\ (a22 NumR t = 0 \/ a22 NumR t = 1).

Lemma tf_apply_affine (t : tfR) px py : affine_row t ->
  tf_apply NumR t (px, py)
  = (a00 NumR t * px + a01 NumR t * py + a02 NumR t, a10 NumR t * px + a11 NumR t * py + a12 NumR t).
Proof.
  intros (H0 & H1 & H2). unfold tf_apply. rewrite H0, H1. cbn [nadd nmul neqb NumR n0 nofZ ndiv].
  destruct t as [t00 t01 t02 t10 t11 t12 t20 t21 t22]. cbn [a00 a01 a02 a10 a11 a12 a20 a21 a22] in *.
  change (carrier NumR) with R in *.
  replace (0 * px + 0 * py + t22) with t22 by ring.
  destruct H2 as [-> | ->].
  - rewrite Reqb_refl. reflexivity.
  - replace (Reqb 1 0) with false by (symmetry; apply Reqb_false; lra). f_equal; field.
Qed.

Lemma tf_position_affine (t : tfR) : affine_row t -> tf_position NumR t = (a02 NumR t, a12 NumR t).
Proof.
  intros H. unfold tf_position. change (n0 (NN:=NumR)) with 0. rewrite tf_apply_affine by exact H.
  destruct t as [t00 t01 t02 t10 t11 t12 t20 t21 t22]. cbn [a00 a01 a02 a10 a11 a12].
  change (carrier NumR) with R in *. apply (f_equal2 pair); ring.
Qed.

Lemma set_position_affine (t : tfR) p : affine_row t -> affine_row (tf_set_position NumR t p).
Proof. intros H. exact H. Qed.

(* translate a placement *)
Definition tf_translate (t : tfR) (d : R * R) : tfR :=
  tf_set_position NumR t (a02 NumR t + fst d, a12 NumR t + snd d).

Definition lattice_vec (c : cellR) (n m : Z) : R * R :=
  (IZR n * fst (vecA c) + IZR m * fst (vecB c), IZR n * snd (vecA c) + IZR m * snd (vecB c)).

(* C14: image (n, m) of a placement is the Cartesian placement translated by n A + m B, its linear
   part (orientation, handedness) unchanged *)
Theorem image_is_translate (c : cellR) (t : tfR) n m : affine_row t ->
  to_cartesian_translate NumR c t n m
  = tf_translate (to_cartesian_isometry NumR c t) (lattice_vec c n m).
Proof.
  intros H. unfold to_cartesian_translate, to_cartesian_isometry, tf_translate.
  rewrite (tf_position_affine t H). cbn [nadd nofZ NumR].
  rewrite !to_cartesian_R. unfold tf_set_position, lattice_vec. cbn [fst snd a00 a01 a02 a10 a11 a12 a20 a21 a22].
  f_equal; ring.
Qed.

Theorem periodic_images_exact (c : cellR) (t : tfR) k zero : affine_row t ->
  periodic_images NumR c t k zero
  = map (fun nm => tf_translate (to_cartesian_isometry NumR c t) (lattice_vec c (fst nm) (snd nm)))
        (shell_indices k zero).
Proof.
  intros H. unfold periodic_images. apply map_ext. intros [n m]. now apply image_is_translate.
Qed.

Theorem image_keeps_linear_part (t : tfR) d :
  a00 NumR (tf_translate t d) = a00 NumR t /\ a01 NumR (tf_translate t d) = a01 NumR t
  /\ a10 NumR (tf_translate t d) = a10 NumR t /\ a11 NumR (tf_translate t d) = a11 NumR t.
Proof. repeat split. Qed.

(* corners of the cell (SVG path order) and its centre *)
Theorem corners_and_centre (c : cellR) :
  to_cartesian NumR c (/ 2, / 2) = ((fst (vecA c) + fst (vecB c)) / 2, (snd (vecA c) + snd (vecB c)) / 2).
Proof. rewrite to_cartesian_R. f_equal; field. Qed.
