(* SourceFacts.v - the hand-written model's numeric formulas ARE the formulas of /repo's source text as translated on
   this run (gen/GenFns.v, by bin/rs2coq.py): each generated definition is proved equal to the model's, for every
   numeric instance and every argument.  A change of a formula in the source changes the generated definition and
   breaks the corresponding theorem here. *)
From Coq Require Import ZArith NArith List Bool String.
From PV Require Import Num model.Geom model.Optimiser model.Svg gen.GenFns.
Import ListNotations.
Local Open Scope num_scope.

Theorem source_translated : gen_fns_problem = ""%string.
Proof. reflexivity. Qed.

Section Source.
  Variable NN : Num.
  Notation T := (carrier NN).
  Variable fexp facos : T -> T.
  Variable fpow : T -> T -> T.
  Variable powi : T -> Z -> T.

  (* ---- src/optimisation.rs *)
  Theorem energy_surface_is_source : forall new old kt,
    gen_energy_surface NN fexp new old kt = energy_surface NN fexp new old kt.
  Proof. reflexivity. Qed.

  Theorem test_acceptance_is_source : forall thr new old kt,
    gen_test_acceptance NN fexp thr new old kt = (thr <? energy_surface NN fexp new old kt).
  Proof. reflexivity. Qed.

  (* accept_score returns the proposal's score exactly when the model's `accept` says yes *)
  Theorem accept_score_is_source : forall thr new old kt,
    gen_accept_score NN fexp thr new old kt = if accept NN fexp thr new old kt then new else None.
  Proof.
    intros thr [s|] old kt; [|reflexivity]. unfold gen_accept_score, accept, gen_test_acceptance.
    destruct (nis_nan s); [reflexivity|]. destruct (old <? s); [reflexivity|].
    change (gen_energy_surface NN fexp s old kt) with (energy_surface NN fexp s old kt).
    destruct (thr <? energy_surface NN fexp s old kt); reflexivity.
  Qed.

  Theorem cooling_factor_is_source : forall b,
    gen_cooling_factor NN fpow b (N.min (b_inner NN b) (b_steps NN b)) = factor NN (build NN fpow b).
  Proof.
    intros b. unfold gen_cooling_factor, build. cbn [factor].
    destruct (b_kt_ratio NN b), (b_kt_finish NN b); reflexivity.
  Qed.

  Theorem inner_steps_is_source : forall b, gen_inner_steps NN b = inner NN (build NN fpow b).
  Proof. reflexivity. Qed.

  (* BuildOptimiser::build as a whole (every field of the MCOptimiser it returns, the seed apart) *)
  Theorem build_is_source : forall b, gen_build NN fpow b = build NN fpow b.
  Proof.
    intros b. unfold gen_build, build. cbv zeta.
    destruct (b_kt_ratio NN b) as [r|]; [reflexivity|].
    destruct (b_kt_finish NN b) as [fin|]; reflexivity.
  Qed.

  Theorem loops_is_source : forall c, gen_loops NN c = loops_of (steps NN c) (inner NN c).
  Proof. reflexivity. Qed.

  (* the convergence test of a loop: the improvement is below the threshold *)
  Theorem converged_is_source : forall cur start eps, gen_converged NN cur start eps = ((cur - start) <? eps).
  Proof. reflexivity. Qed.

  (* the step-ratio update at the end of a loop that does not converge *)
  Theorem ratio_update_is_source : forall (r : T) (inner_ rej : N),
    gen_ratio_update NN r inner_ rej =
    if thresh NN <? r then nmin (r * (ofN NN inner_ / (ofN NN rej + n1))) n1 else r.
  Proof. reflexivity. Qed.

  (* the body of the inner loop (one proposal: draw an index, set_sampled, score, accept_score, on rejection reset_value
     and count), translated as an update of the world and of (score_current, loop_rejections), is the model's mc_step *)
  Lemma nth_error_set_nth_same {A} (l : list A) i x v : nth_error l i = Some x -> nth_error (set_nth l i v) i = Some v.
  Proof.
    revert i; induction l as [|y l IH]; intros [|i] H; cbn in *; try discriminate; [reflexivity|]. apply IH; exact H.
  Qed.

  Theorem mc_step_is_source : forall (score : N -> list T -> option T) c st d,
    mc_step NN fexp score c st d =
    match gen_mc_step NN fexp score c (mkWorld (params NN st) (handles NN st) (calls NN st))
                      (score_cur NN st) (kt NN st) (ratio NN st) (loop_rej NN st) d with
    | None =>        (* the expect() panic: the drawn index names no basis *)
        mkOst (params NN st) (handles NN st) (score_cur NN st) (kt NN st) (ratio NN st)
              (conv_count NN st) (loop_rej NN st) (score_start NN st) (loops_done NN st)
              (j NN st) (calls NN st) true false true
    | Some (w, sc, rej) =>
        mkOst (w_params NN w) (w_handles NN w) sc (kt NN st) (ratio NN st) (conv_count NN st) rej
              (score_start NN st) (loops_done NN st) (N.succ (j NN st)) (w_calls NN w) false false false
    end.
  Proof.
    intros score c st d. unfold mc_step, gen_mc_step, w_set_sampled. cbv zeta. cbn [w_handles w_params w_calls].
    destruct (nth_error (handles NN st) (d_idx NN d)) as [h|] eqn:Hh; [|reflexivity].
    unfold w_score. cbn [fst snd w_handles w_params w_calls].
    rewrite accept_score_is_source.
    destruct (accept NN fexp (d_thr NN d) _ (score_cur NN st) (kt NN st)) eqn:Ha.
    - destruct (score (calls NN st) _) as [s|] eqn:Hs; [reflexivity|]. cbn in Ha. discriminate.
    - unfold w_reset. cbn [w_handles w_params w_calls].
      rewrite (nth_error_set_nth_same _ _ _ _ Hh). cbn [h_cell h_old with_old]. rewrite N.add_1_r. reflexivity.
  Qed.

  (* what optimise_state starts with, the head of the outer loop's body, the length of the inner loop, the final
     assertion *)
  Theorem init_is_source : forall c ps hs s0,
    init NN c ps hs s0 =
    mkOst ps hs s0 (fst (gen_init NN c)) (snd (gen_init NN c)) gen_init_count 0%N s0 0%N 0%N 1%N
          (N.eqb (gen_loops NN c) 0) false false.
  Proof. reflexivity. Qed.

  Theorem loop_head_is_source : forall c st,
    (score_start NN (end_loop NN c st), loop_rej NN (end_loop NN c st)) = gen_loop_head NN (score_cur NN (end_loop NN c st))
    /\ gen_loop_head NN (score_cur NN (init NN c (params NN st) (handles NN st) (score_cur NN st)))
       = (score_start NN (init NN c (params NN st) (handles NN st) (score_cur NN st)),
          loop_rej NN (init NN c (params NN st) (handles NN st) (score_cur NN st))).
  Proof.
    intros c st. split; [|reflexivity]. unfold end_loop, gen_loop_head.
    destruct (andb _ _); reflexivity.
  Qed.

  Theorem inner_count_is_source : forall (score : N -> list T -> option T) c st d,
    advance NN fexp score c st d =
    if fin NN st then st
    else let st1 := mc_step NN fexp score c st d in
         if bad_index NN st1 then st1
         else if N.eqb (j NN st1) (gen_inner_count NN c) then end_loop NN c st1 else st1.
  Proof. reflexivity. Qed.

  Theorem final_assert_is_source : forall (score : N -> list T -> option T) c ps hs draws s0,
    score 0%N ps = Some s0 ->
    let st := run NN fexp score c (init NN c ps hs s0) draws in
    bad_index NN st = false -> fin NN st = true -> converged NN st = false ->
    optimise NN fexp score c ps hs draws
    = if gen_final_ok NN (score (calls NN st) (params NN st)) then Returned NN st else PanicFinalInvalid NN.
  Proof.
    intros score c ps hs draws s0 H0 st Hb Hf Hc. unfold optimise. rewrite H0. fold st. rewrite Hb, Hf, Hc. cbn [negb].
    unfold gen_final_ok. destruct (score (calls NN st) (params NN st)); reflexivity.
  Qed.

  (* the three operations of the loop body on the world are StandardBasis's methods AS TRANSLATED FROM src/basis.rs
     (set_sampled = set_value o sample; set_value remembers the current value and stores the clamped one; reset_value
     stores the remembered one), applied to the drawn handle and the cell it points to *)
  Theorem world_operations_are_source : forall (w : world NN) idx h step g,
    nth_error (w_handles NN w) idx = Some h ->
    w_set_sampled NN w idx step g =
      (let '(old', v') := gen_set_sampled NN (h_min NN h) (h_max NN h) (h_old NN h) (get_cell NN (w_params NN w) (h_cell NN h)) step g in
       Some (mkWorld (set_nth (w_params NN w) (h_cell NN h) v') (set_nth (w_handles NN w) idx (with_old NN h old')) (w_calls NN w)))
    /\ w_reset NN w idx =
      (let '(_, v') := gen_reset_value NN (h_old NN h) (get_cell NN (w_params NN w) (h_cell NN h)) in
       Some (mkWorld (set_nth (w_params NN w) (h_cell NN h) v') (w_handles NN w) (w_calls NN w))).
  Proof.
    intros w idx h step g H. unfold w_set_sampled, w_reset. rewrite H. split; reflexivity.
  Qed.

  (* the whole tail of the outer loop's body (cooling, convergence count, early return, step-ratio update), translated as
     a state update of (kt, convergence_count, step_ratio) with an early-return flag, is the model's end_loop *)
  Theorem end_loop_is_source : forall c st,
    let r := gen_end_loop NN c (score_cur NN st) (score_start NN st) (kt NN st) (conv_count NN st) (ratio NN st) (loop_rej NN st) in
    end_loop NN c st =
    mkOst (params NN st) (handles NN st) (score_cur NN st)
          (fst (fst (snd r))) (snd (snd r)) (snd (fst (snd r))) 0%N (score_cur NN st)
          (N.succ (loops_done NN st)) 0%N (calls NN st)
          (orb (fst r) (N.leb (loops_of (steps NN c) (inner NN c)) (N.succ (loops_done NN st)))) (fst r) false.
  Proof.
    intros c st. unfold end_loop, gen_end_loop, thresh. cbv zeta.
    destruct (conv NN c) as [eps|]; cbn [andb].
    - destruct ((score_cur NN st - score_start NN st) <? eps); cbn [andb].
      + rewrite N.add_1_r. destruct (N.ltb 5 (N.succ (conv_count NN st))); cbn [andb fst snd orb].
        * reflexivity.
        * destruct ((nofZ 1 / nofZ 10000) <? ratio NN st); reflexivity.
      + destruct ((nofZ 1 / nofZ 10000) <? ratio NN st); reflexivity.
    - destruct ((nofZ 1 / nofZ 10000) <? ratio NN st); reflexivity.
  Qed.

  (* ---- src/basis.rs *)
  Theorem clamp_is_source : forall lo hi x, gen_clamp NN lo hi x = nclamp lo hi x.
  Proof. reflexivity. Qed.

  Theorem sample_is_source : forall (h : handle NN) v step g,
    gen_sample NN (h_min NN h) (h_max NN h) v step g = sample NN h v step g.
  Proof. reflexivity. Qed.

  (* ---- src/shape/components *)
  Theorem lj_energy_is_source : forall a b, gen_lj_energy NN powi a b = lj_energy NN powi a b.
  Proof. reflexivity. Qed.

  Theorem disc_intersects_is_source : forall a b, gen_disc_intersects NN a b = disc_intersects NN a b.
  Proof. reflexivity. Qed.

  Theorem seg_intersects_is_source : forall s o, gen_seg_intersects NN s o = seg_intersects NN s o.
  Proof.
    intros s o. unfold gen_seg_intersects, seg_intersects.
    destruct (_ =? n0); [reflexivity|]. cbv zeta.
    match goal with |- (if ?c then true else false) = ?d => replace d with c; [destruct c; reflexivity|] end.
    rewrite <- !andb_assoc. reflexivity.
  Qed.

  (* ---- src/cell.rs *)
  Theorem cell_sides_are_source : forall c, gen_cell_a NN c = cell_a NN c /\ gen_cell_b NN c = cell_b NN c.
  Proof. intros c. split; reflexivity. Qed.

  Theorem cell_area_is_source : forall c, gen_cell_area NN c = cell_area NN c.
  Proof. reflexivity. Qed.

  Theorem to_cartesian_is_source : forall c x y, gen_to_cartesian NN c x y = to_cartesian NN c (x, y).
  Proof. reflexivity. Qed.

  (* ---- src/transform.rs (with the arguments of the call in src/site.rs) *)
  Theorem wrap_is_source : forall x, gen_wrap NN x = wrap1 NN x.
  Proof. reflexivity. Qed.

  (* ---- src/shape/line_shape.rs: the area is the sum, in order, of one term per edge *)
  Theorem poly_area_is_source : forall angle_term l,
    poly_area NN angle_term l = fold_left (fun acc p => acc + gen_poly_term NN angle_term p) l n0.
  Proof. reflexivity. Qed.

  Theorem angle_term_is_source : forall fsin pi_ l,
    gen_angle_term NN fsin pi_ l = fsin ((n2 * pi_) / nofZ (Z.of_nat (List.length l))).
  Proof. reflexivity. Qed.

  (* the enclosing radius: the largest term, folded from f64::MIN with f64::max *)
  Theorem poly_radius_is_source : forall fmin_ l,
    poly_radius NN fmin_ l = fold_left (fun acc p => nmax acc (gen_poly_radius_term NN p)) l fmin_.
  Proof. reflexivity. Qed.

  Theorem mol_radius_is_source : forall fmin_ l,
    mol_radius NN fmin_ l = fold_left (fun acc p => nmax acc (gen_mol_radius_term NN p)) l fmin_.
  Proof. reflexivity. Qed.

  (* ---- src/shape/line_shape.rs: from_radial's angular step and the edge it pushes for (index, (r1, r2)) *)
  Theorem radial_edge_is_source : forall fsin fcos dtheta index r1 r2,
    gen_radial_edge NN fsin fcos dtheta index r1 r2 = radial_edge NN fsin fcos dtheta index r1 r2.
  Proof. reflexivity. Qed.

  Theorem from_radial_is_source : forall fsin fcos pi_ points,
    from_radial NN pi_ fsin fcos points
    = map (fun ir => gen_radial_edge NN fsin fcos (gen_radial_dtheta NN pi_ points) (fst ir) (fst (snd ir)) (snd (snd ir)))
          (combine (seq 0 (List.length points)) (combine points (rotate1 points))).
  Proof. reflexivity. Qed.

  (* ---- src/shape/molecular_shape2.rs *)
  Theorem mol_trimer_is_source : forall fsin fcos pi_ radius angle distance,
    gen_mol_trimer NN fsin fcos pi_ radius angle distance = mol_trimer NN pi_ fsin fcos radius angle distance.
  Proof. reflexivity. Qed.

  (* ---- src/shape/lj_shape.rs: LJShape2::from_trimer (three particles, sigma = 2 r, epsilon from Default, cutoff 3.5) *)
  Theorem lj_trimer_is_source : forall fsin fcos pi_ radius angle distance,
    gen_lj_trimer NN fsin fcos pi_ radius angle distance = lj_trimer NN pi_ fsin fcos (nofZ 7 / nofZ 2) radius angle distance.
  Proof. reflexivity. Qed.

  Theorem overlap_area_is_source : forall r d, gen_overlap_area NN facos r d = overlap_area NN facos r d.
  Proof. reflexivity. Qed.

  Theorem circle_overlap_is_source : forall a b, gen_circle_overlap NN facos a b = circle_overlap NN facos a b.
  Proof. reflexivity. Qed.

  (* ---- src/state/packed.rs, src/state/potential.rs *)
  Theorem density_precheck_is_source : forall st, gen_density_precheck NN st = density_precheck NN st.
  Proof. reflexivity. Qed.

  Theorem shells_is_source : forall st, gen_shells NN st = shells_of NN st.
  Proof. reflexivity. Qed.

  Theorem radius_sq_is_source : forall st, gen_radius_sq NN st = sq NN (p_radius NN st * n2).
  Proof. reflexivity. Qed.

  Theorem packed_score_is_source : forall st, gen_packed_score NN st = packed_score NN st.
  Proof. reflexivity. Qed.

  Theorem lj_final_is_source : forall st,
    gen_lj_final NN st (lj_sum NN powi st) = lj_score NN powi st.
  Proof. reflexivity. Qed.
End Source.

(* ---- src/to_svg.rs: the matrix(a b c d e f) of a placement lists the entries in the model's order *)
Definition tf_entry (NN : Num) (t : tf NN) (rc : nat * nat) : carrier NN :=
  match rc with
  | (0, 0) => a00 NN t | (0, 1) => a01 NN t | (0, 2) => a02 NN t
  | (1, 0) => a10 NN t | (1, 1) => a11 NN t | (1, 2) => a12 NN t
  | (2, 0) => a20 NN t | (2, 1) => a21 NN t | _ => a22 NN t
  end%nat.

Theorem svg_entries_are_source : forall NN (t : tf NN),
  emit NN t = map (tf_entry NN t) gen_svg_entries
  /\ gen_svg_format = "matrix({0} {1} {2} {3} {4} {5})"%string.
Proof. intros NN t. split; reflexivity. Qed.
