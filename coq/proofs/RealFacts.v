(* RealFacts.v - facts about the model functions instantiated at the real-number
   dictionary NumR (exact arithmetic). *)
From Coq Require Import ZArith NArith List Bool Reals Lra Lia Psatz.
From PV Require Import Num NumR model.Optimiser model.OptSpec.
Local Open Scope R_scope.

(* ------------------------------------------------------------------ *)
(* Reflection helper                                                   *)

Ltac case_ltb x y H :=
  let E := fresh "E" in
  destruct (Rltb x y) eqn:E;
  [ apply Rltb_true in E | apply Rltb_false in E ]; rename E into H.

Lemma R_is_nan_false : forall x : R, nis_nan (NN:=NumR) x = false.
Proof. intros x. unfold nis_nan. cbn. rewrite Reqb_refl. reflexivity. Qed.

(* ------------------------------------------------------------------ *)
(* R1: clamp                                                           *)

Lemma R_clamp_unfold : forall lo hi x : R,
  nclamp (NN:=NumR) lo hi x = if Rltb x lo then lo else if Rltb hi x then hi else x.
Proof. reflexivity. Qed.

Theorem R_clamp_spec : forall lo hi x : R, lo <= hi ->
  lo <= nclamp (NN:=NumR) lo hi x <= hi.
Proof.
  intros lo hi x H. rewrite R_clamp_unfold.
  case_ltb x lo H1; [lra|]. case_ltb hi x H2; lra.
Qed.

Theorem R_clamp_id : forall lo hi x : R, lo <= x <= hi ->
  nclamp (NN:=NumR) lo hi x = x.
Proof.
  intros lo hi x H. rewrite R_clamp_unfold.
  case_ltb x lo H1; [lra|]. case_ltb hi x H2; lra.
Qed.

Theorem R_clamp_nonexpansive : forall lo hi x v : R, lo <= v <= hi ->
  Rabs (nclamp (NN:=NumR) lo hi x - v) <= Rabs (x - v).
Proof.
  intros lo hi x v H. rewrite R_clamp_unfold.
  case_ltb x lo H1.
  - rewrite (Rabs_left1 (x - v)) by lra. rewrite Rabs_left1 by lra. lra.
  - case_ltb hi x H2.
    + rewrite (Rabs_right (x - v)) by lra. rewrite Rabs_right by lra. lra.
    + lra.
Qed.

(* ------------------------------------------------------------------ *)
(* R2: size of a move                                                  *)

Lemma R_sample_unfold : forall (h : handle NumR) (v st g : R),
  sample NumR h v st g = v + (st * (h_max NumR h - h_min NumR h)) * g.
Proof. reflexivity. Qed.

Theorem R_move_bounded : forall (h : handle NumR) (v st g : R),
  h_min NumR h <= v <= h_max NumR h -> 0 <= st -> Rabs g <= 1/2 ->
  Rabs (nclamp (NN:=NumR) (h_min NumR h) (h_max NumR h) (sample NumR h v st g) - v)
    <= st * (h_max NumR h - h_min NumR h) / 2.
Proof.
  intros h v st g Hv Hst Hg.
  eapply Rle_trans; [apply R_clamp_nonexpansive; exact Hv|].
  rewrite R_sample_unfold.
  set (w := st * (h_max NumR h - h_min NumR h)).
  assert (Hw : 0 <= w) by (unfold w; apply Rmult_le_pos; lra).
  replace (v + w * g - v) with (w * g) by ring.
  rewrite Rabs_mult. rewrite (Rabs_right w) by lra.
  apply Rle_trans with (w * (1/2)); [|lra].
  apply Rmult_le_compat_l; assumption.
Qed.

Theorem R_C19_move_le_max : forall (h : handle NumR) (v st g ms rho : R),
  h_min NumR h <= v <= h_max NumR h -> 0 <= st -> Rabs g <= 1/2 ->
  0 <= ms -> 0 <= rho <= 1 -> st = ms * rho ->
  Rabs (nclamp (NN:=NumR) (h_min NumR h) (h_max NumR h) (sample NumR h v st g) - v)
    <= ms * (h_max NumR h - h_min NumR h) / 2.
Proof.
  intros h v st g ms rho Hv Hst Hg Hms Hrho Heq.
  eapply Rle_trans; [apply R_move_bounded; assumption|].
  assert (Hd : 0 <= h_max NumR h - h_min NumR h) by lra.
  assert (st <= ms) by (subst st; nra).
  assert (st * (h_max NumR h - h_min NumR h) <= ms * (h_max NumR h - h_min NumR h))
    by (apply Rmult_le_compat_r; assumption).
  lra.
Qed.

(* ------------------------------------------------------------------ *)
(* R3: nmin x 1 <= 1                                                   *)

Lemma R_nmin_unfold : forall x y : R,
  nmin (NN:=NumR) x y = if Rltb x y then x else if Rltb y x then y else x.
Proof.
  intros x y. unfold nmin. rewrite R_is_nan_false. reflexivity.
Qed.

Lemma R_nmin_Rmin : forall x y : R, nmin (NN:=NumR) x y = Rmin x y.
Proof.
  intros x y. rewrite R_nmin_unfold. unfold Rmin.
  case_ltb x y H1.
  - destruct (Rle_dec x y); lra.
  - case_ltb y x H2; destruct (Rle_dec x y); lra.
Qed.

Theorem R_nmin_le_one : forall x : R, nmin (NN:=NumR) x 1 <= 1.
Proof. intros x. rewrite R_nmin_Rmin. apply Rmin_r. Qed.

Theorem R_Hmin : forall x : carrier NumR, nleb (nmin x n1) n1 = true.
Proof.
  intros x. cbn [nleb NumR]. apply Rleb_true.
  change (n1 (NN:=NumR)) with 1. apply R_nmin_le_one.
Qed.

Theorem R_Hone : nleb (n1 : carrier NumR) n1 = true.
Proof. cbn [nleb NumR]. apply Rleb_true. apply Rle_refl. Qed.

(* ------------------------------------------------------------------ *)
(* R4: the acceptance rule                                             *)

Lemma R_accept_unfold : forall (thr s old kT : R),
  accept NumR exp thr (Some s) old kT =
  if Rltb old s then true else Rltb thr (Rmin (exp ((s - old) / kT)) 1).
Proof.
  intros thr s old kT. unfold accept. rewrite R_is_nan_false.
  unfold energy_surface. rewrite R_nmin_Rmin. reflexivity.
Qed.

Lemma R_exp_neg_lt_1 : forall x : R, x < 0 -> exp x < 1.
Proof. intros x H. rewrite <- exp_0. apply exp_increasing. exact H. Qed.

Theorem R_accept_interval : forall thr old d kT : R, 0 < d -> 0 < kT ->
  (accept NumR exp thr (Some (old - d)) old kT = true <-> thr < exp (- d / kT)).
Proof.
  intros thr old d kT Hd HkT. rewrite R_accept_unfold.
  case_ltb old (old - d) H1; [lra|].
  replace (old - d - old) with (- d) by ring.
  assert (Hneg : - d / kT < 0).
  { unfold Rdiv. apply Ropp_lt_cancel. rewrite Ropp_0, <- Ropp_mult_distr_l, Ropp_involutive.
    apply Rmult_lt_0_compat; [lra|]. apply Rinv_0_lt_compat; exact HkT. }
  pose proof (R_exp_neg_lt_1 _ Hneg) as He.
  rewrite Rmin_left by lra.
  apply Rltb_true.
Qed.

Theorem R_accept_better : forall thr old new kT : R, old < new ->
  accept NumR exp thr (Some new) old kT = true.
Proof.
  intros thr old new kT H. rewrite R_accept_unfold.
  case_ltb old new H1; [reflexivity|lra].
Qed.

Theorem R_accept_equal : forall thr old kT : R, 0 < kT -> thr < 1 ->
  accept NumR exp thr (Some old) old kT = true.
Proof.
  intros thr old kT HkT Hthr. rewrite R_accept_unfold.
  case_ltb old old H1; [reflexivity|].
  replace ((old - old) / kT) with 0 by (unfold Rdiv; ring).
  rewrite exp_0. rewrite Rmin_left by lra. apply Rltb_true. exact Hthr.
Qed.

(* ------------------------------------------------------------------ *)
(* R7 / R6: cooling schedule                                           *)

Theorem R_cooled_pow : forall (kt0 f : R) (k : nat),
  cooled NumR kt0 f k = kt0 * f ^ k :> R.
Proof.
  intros kt0 f k. induction k as [|k IH]; cbn [cooled].
  - simpl. ring.
  - change (nmul (n:=NumR)) with Rmult. rewrite IH. simpl. ring.
Qed.

Theorem R_cooled_zero : forall (f : R) (k : nat), cooled NumR 0 f k = 0 :> R.
Proof. intros f k. rewrite R_cooled_pow. apply Rmult_0_l. Qed.

Lemma R_root_pow : forall (x : R) (L : nat), 0 < x -> (0 < L)%nat ->
  Rpower x (1 / INR L) ^ L = x.
Proof.
  intros x L Hx HL.
  assert (HL' : 0 < INR L) by (apply lt_0_INR; exact HL).
  rewrite <- Rpower_pow by (unfold Rpower; apply exp_pos).
  rewrite Rpower_mult.
  replace (1 / INR L * INR L) with 1 by (field; lra).
  apply Rpower_1. exact Hx.
Qed.

Theorem R_factor_reaches_finish : forall (kt_start kt_finish : R) (L : nat),
  0 < kt_start -> 0 < kt_finish -> (0 < L)%nat ->
  let f := Rpower (kt_finish / kt_start) (1 / INR L) in
  (cooled NumR kt_start f L = kt_finish :> R) /\
  (cooled NumR kt_start f (L - 1) * f = kt_finish :> R).
Proof.
  intros ks kf L Hs Hf HL f.
  assert (Hx : 0 < kf / ks) by (apply Rdiv_lt_0_compat; assumption).
  assert (E : cooled NumR ks f L = kf :> R).
  { rewrite R_cooled_pow. unfold f. rewrite R_root_pow by assumption. field. lra. }
  split; [exact E|].
  rewrite <- E. destruct L as [|L]; [lia|].
  replace (S L - 1)%nat with L by lia. reflexivity.
Qed.

Lemma R_IZR_of_N : forall n : N, IZR (Z.of_N n) = INR (N.to_nat n).
Proof. intros n. rewrite INR_IZR_INZ. rewrite N_nat_Z. reflexivity. Qed.

Lemma R_ofN : forall n : N, ofN NumR n = INR (N.to_nat n).
Proof. intros n. unfold ofN. cbn [nofZ NumR]. apply R_IZR_of_N. Qed.

(* the -0.0 normalisation of build() is the identity in exact arithmetic *)
Lemma R_norm_zero : forall x : carrier NumR,
  (if (x =? n0)%num then n0 else x) = x.
Proof.
  intros x. destruct (x =? n0)%num eqn:E; [|reflexivity].
  cbn [neqb NumR] in E. apply Reqb_true in E. symmetry. exact E.
Qed.

Lemma R_build_kt_start : forall fpow (b : builder NumR),
  kt_start NumR (build NumR fpow b) = b_kt_start NumR b.
Proof. intros fpow b. unfold build. cbn [kt_start]. apply R_norm_zero. Qed.

(* with a ratio given, the factor is max(0, 1 - ratio) for every ratio above -f64::MAX: the cap
   at f64::MAX only touches ratios no one can mean *)
Theorem R_build_factor_ratio : forall fpow (b : builder NumR) (r : R),
  b_kt_ratio NumR b = Some r -> 1 - r <= IZR (2 ^ 1024 - 2 ^ 971) ->
  factor NumR (build NumR fpow b) = Rmax 0 (1 - r).
Proof.
  intros fpow b r Hr Hle. unfold build. cbn [factor]. rewrite Hr.
  rewrite R_nmin_Rmin.
  assert (E : nmax (NN:=NumR) n0 (nsub (n:=NumR) n1 r) = Rmax 0 (1 - r)).
  { unfold nmax. rewrite R_is_nan_false. cbn [nltb nsub NumR].
    change (n0 (NN:=NumR)) with 0. change (n1 (NN:=NumR)) with 1.
    unfold Rmax.
    destruct (Rltb (1 - r) 0) eqn:A.
    - apply Rltb_true in A. destruct (Rle_dec 0 (1 - r)); lra.
    - apply Rltb_false in A. destruct (Rltb 0 (1 - r)) eqn:B.
      + destruct (Rle_dec 0 (1 - r)); lra.
      + apply Rltb_false in B. destruct (Rle_dec 0 (1 - r)); lra. }
  rewrite E. unfold fmax_. cbn [nofZ NumR].
  apply Rmin_left. apply Rmax_lub; [|exact Hle].
  apply IZR_le. vm_compute. discriminate.
Qed.

Theorem R_build_factor_finish : forall (b : builder NumR) (fin : R),
  b_kt_ratio NumR b = None -> b_kt_finish NumR b = Some fin ->
  0 < b_kt_start NumR b ->
  (0 < N.min (b_inner NumR b) (b_steps NumR b))%N ->
  factor NumR (build NumR Rpower b) =
  Rpower (fin / b_kt_start NumR b)
         (1 / IZR (Z.of_N (loops_of (b_steps NumR b)
                              (N.min (b_inner NumR b) (b_steps NumR b))))).
Proof.
  intros b fin Hr Hf Hs Hi. unfold build. cbn [factor]. rewrite Hr, Hf.
  assert (C1 : nltb (n0 (NN:=NumR)) (b_kt_start NumR b) = true)
    by (apply Rltb_true; exact Hs).
  assert (C2 : N.eqb (N.min (b_inner NumR b) (b_steps NumR b)) 0 = false)
    by (apply N.eqb_neq; lia).
  rewrite C1, C2. reflexivity.
Qed.

(* number of loops is positive when the inner loop length is *)
Lemma R_loops_pos : forall steps inner : N,
  (0 < N.min inner steps)%N -> (0 < loops_of steps (N.min inner steps))%N.
Proof.
  intros steps inner H. unfold loops_of.
  replace (N.eqb (N.min inner steps) 0) with false by (symmetry; apply N.eqb_neq; lia).
  apply N.div_str_pos. split; [exact H|]. apply N.le_min_r.
Qed.

(* the schedule built by build() ends exactly at kt_finish (in exact arithmetic) *)
Theorem R_build_cooled_finish : forall (b : builder NumR) (fin : R),
  b_kt_ratio NumR b = None -> b_kt_finish NumR b = Some fin ->
  0 < b_kt_start NumR b -> 0 < fin ->
  (0 < N.min (b_inner NumR b) (b_steps NumR b))%N ->
  let c := build NumR Rpower b in
  cooled NumR (kt_start NumR c) (factor NumR c)
         (N.to_nat (loops_of (steps NumR c) (inner NumR c))) = fin :> R.
Proof.
  intros b fin Hr Hf Hs Hfin Hi c.
  unfold c. rewrite (R_build_factor_finish b fin Hr Hf Hs Hi).
  rewrite R_build_kt_start.
  cbn [build steps inner].
  rewrite R_IZR_of_N.
  apply R_factor_reaches_finish; try assumption.
  pose proof (R_loops_pos (b_steps NumR b) (b_inner NumR b) Hi). lia.
Qed.
