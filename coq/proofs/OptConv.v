(* OptConv.v - C20: with a convergence threshold the run is an exact prefix of the run without it, and
   it ends early only after more than five consecutive inner loops that each improved by less than
   the threshold.  For every numeric instance, oracle and random stream. *)
From Coq Require Import ZArith NArith List Bool Lia.
From PV Require Import Num model.Optimiser model.OptSpec proofs.OptStruct proofs.OptLoop.
Import ListNotations.

#[local] Arguments params {_}. #[local] Arguments handles {_}. #[local] Arguments score_cur {_}.
#[local] Arguments kt {_}. #[local] Arguments ratio {_}. #[local] Arguments conv_count {_}.
#[local] Arguments loop_rej {_}. #[local] Arguments score_start {_}.
#[local] Arguments loops_done {_}. #[local] Arguments j {_}. #[local] Arguments calls {_}.
#[local] Arguments fin {_}. #[local] Arguments converged {_}. #[local] Arguments bad_index {_}.
#[local] Arguments kt_start {_}. #[local] Arguments factor {_}. #[local] Arguments max_step {_}.
#[local] Arguments steps {_}. #[local] Arguments inner {_}. #[local] Arguments conv {_}.

Section S.
  Variable NN : Num.
  Variable fexp : carrier NN -> carrier NN.
  Variable score : N -> list (carrier NN) -> option (carrier NN).

  Notation T := (carrier NN).
  Notation cfg := (cfg NN).
  Notation ost := (ost NN).
  Notation draw := (draw NN).
  Notation mc_step := (mc_step NN fexp score).
  Notation end_loop := (end_loop NN).
  Notation advance := (advance NN fexp score).
  Notation run := (run NN fexp score).
  Notation no_conv := (no_conv NN).

  (* the two runs are in lockstep: everything but the convergence counter is equal *)
  Definition agree (a b : ost) : Prop :=
    params a = params b /\ handles a = handles b /\ score_cur a = score_cur b /\ kt a = kt b
    /\ ratio a = ratio b /\ loop_rej a = loop_rej b /\ score_start a = score_start b
    /\ loops_done a = loops_done b /\ j a = j b /\ calls a = calls b /\ fin a = fin b
    /\ converged a = converged b /\ bad_index a = bad_index b.

  Lemma mc_step_no_conv c st : forall d, mc_step (no_conv c) st d = mc_step c st d.
  Proof. intros d. reflexivity. Qed.

  Lemma mc_step_agree c a b d : agree a b ->
    agree (mc_step c a d) (mc_step c b d) /\ conv_count (mc_step c a d) = conv_count a.
  Proof.
    intros (Hp & Hh & Hs & Hk & Hr & Hl & Hss & Hld & Hj & Hc & Hf & Hcv & Hb).
    unfold Optimiser.mc_step. rewrite Hh.
    destruct (nth_error (handles b) (d_idx NN d)) as [h|].
    - cbv zeta. rewrite Hp, Hc, Hs, Hk, Hr.
      destruct (Optimiser.accept _ _ _ _ _ _); cbn; unfold agree; cbn; repeat split; congruence.
    - cbn. unfold agree. cbn. repeat split; congruence.
  Qed.

  (* is the loop that ends in state st a converged one (improvement below the threshold)? *)
  Definition loop_converged (eps : T) (st : ost) : bool := nltb (nsub (score_cur st) (score_start st)) eps.

  Lemma end_loop_agree c eps a b : conv c = Some eps -> agree a b ->
    (converged (end_loop c a) = false -> agree (end_loop c a) (end_loop (no_conv c) b))
    /\ (converged (end_loop c a) = true ->
          (5 < conv_count (end_loop c a))%N /\ loop_converged eps a = true
          /\ conv_count (end_loop c a) = N.succ (conv_count a)
          /\ params (end_loop c a) = params b /\ score_cur (end_loop c a) = score_cur b
          /\ j (end_loop c a) = 0%N)
    /\ conv_count (end_loop c a) = (if loop_converged eps a then N.succ (conv_count a) else 0%N).
  Proof.
    intros Hc (Hp & Hh & Hs & Hk & Hr & Hl & Hss & Hld & Hj & Hcl & Hf & Hcv & Hb).
    unfold Optimiser.end_loop, OptSpec.no_conv, loop_converged. cbn [conv kt_start factor max_step steps inner].
    rewrite Hc.
    destruct (nltb (nsub (score_cur a) (score_start a)) eps) eqn:E; cbn [andb].
    - destruct (N.ltb 5 (N.succ (conv_count a))) eqn:E5; cbn.
      + split; [discriminate|]. split; [|reflexivity]. intros _. apply N.ltb_lt in E5. repeat split; auto.
      + split; [|split; [discriminate|reflexivity]]. intros _.
        unfold agree. cbn. rewrite Hk, Hr, Hl, Hld, Hs. repeat split; auto.
    - cbn. split; [|split; [discriminate|reflexivity]]. intros _.
      unfold agree. cbn. rewrite Hk, Hr, Hl, Hld, Hs. repeat split; auto.
  Qed.

  (* one step of both runs *)
  Lemma advance_agree c eps a b d : conv c = Some eps -> agree a b ->
    (converged (advance c a d) = false -> agree (advance c a d) (advance (no_conv c) b d))
    /\ (converged a = false -> converged (advance c a d) = true ->
          (5 < conv_count (advance c a d))%N /\ j (advance c a d) = 0%N
          /\ params (advance c a d) = params (advance (no_conv c) b d)
          /\ score_cur (advance c a d) = score_cur (advance (no_conv c) b d)).
  Proof.
    intros Hc Hag. pose proof Hag as (Hp & Hh & Hs & Hk & Hr & Hl & Hss & Hld & Hj & Hcl & Hf & Hcv & Hb).
    unfold Optimiser.advance. rewrite <- Hf.
    destruct (fin a) eqn:Hfin.
    { split; [intros _; exact Hag|]. intros H1 H2. congruence. }
    cbv zeta. rewrite (mc_step_no_conv c b d).
    destruct (mc_step_agree c a b d Hag) as [Hag1 Hcc1].
    pose proof Hag1 as (_ & _ & _ & _ & _ & _ & _ & _ & Hj1 & _ & _ & Hcv1 & Hb1).
    rewrite <- Hb1. destruct (bad_index (mc_step c a d)) eqn:Hbad.
    { split; [intros _; exact Hag1|]. intros _ H2.
      exfalso. unfold Optimiser.mc_step in H2, Hbad.
      destruct (nth_error (handles a) (d_idx NN d)); [|cbn in H2; discriminate].
      cbv zeta in H2. destruct (Optimiser.accept _ _ _ _ _ _); cbn in H2; discriminate. }
    change (inner (no_conv c)) with (inner c). rewrite <- Hj1.
    destruct (N.eqb (j (mc_step c a d)) (inner c)).
    - destruct (end_loop_agree c eps _ _ Hc Hag1) as (H1 & H2 & _). split; [exact H1|].
      intros _ Hcv2. destruct (H2 Hcv2) as (H5 & _ & _ & Hp2 & Hs2 & Hj2).
      split; [exact H5|]. split; [exact Hj2|].
      split; [rewrite (end_loop_params NN (no_conv c)); exact Hp2|rewrite (end_loop_score_cur NN (no_conv c)); exact Hs2].
    - split; [intros _; exact Hag1|]. intros _ H2. exfalso.
      unfold Optimiser.mc_step in H2.
      destruct (nth_error (handles a) (d_idx NN d)); [|cbn in H2; discriminate].
      cbv zeta in H2. destruct (Optimiser.accept _ _ _ _ _ _); cbn in H2; discriminate.
  Qed.

  Lemma agree_refl a : agree a a.
  Proof. unfold agree. repeat split. Qed.

  (* a converged state is a finished state *)
  Definition conv_fin (st : ost) : Prop := converged st = true -> fin st = true.

  Lemma mc_step_not_converged c st d : converged (mc_step c st d) = false.
  Proof.
    unfold Optimiser.mc_step. destruct (nth_error (handles st) (d_idx NN d)); [|reflexivity].
    cbv zeta. destruct (Optimiser.accept _ _ _ _ _ _); reflexivity.
  Qed.

  Lemma end_loop_conv_fin c st : conv_fin (end_loop c st).
  Proof. unfold conv_fin, Optimiser.end_loop. destruct (andb _ _); cbn; [reflexivity|discriminate]. Qed.

  Lemma advance_conv_fin c st d : conv_fin st -> conv_fin (advance c st d).
  Proof.
    intros H. unfold Optimiser.advance. destruct (fin st) eqn:Hf; [exact H|]. cbv zeta.
    destruct (bad_index (mc_step c st d)); [unfold conv_fin; rewrite mc_step_not_converged; discriminate|].
    destruct (N.eqb _ _); [apply end_loop_conv_fin|unfold conv_fin; rewrite mc_step_not_converged; discriminate].
  Qed.

  (* C20: until the convergence return fires, the run with a threshold IS the run without it *)
  Theorem C20_convergence_prefix c eps draws : conv c = Some eps -> forall a b, agree a b -> conv_fin a ->
    converged (run c a draws) = false -> agree (run c a draws) (run (no_conv c) b draws).
  Proof.
    intros Hc. induction draws as [|d ds IH]; intros a b Hag Hcf Hnc; [exact Hag|].
    rewrite !run_cons in *.
    pose proof (advance_conv_fin c a d Hcf) as Hcf1.
    destruct (converged (advance c a d)) eqn:E.
    - (* converged already: the run is frozen, contradiction with Hnc *)
      exfalso. rewrite (run_fin_frozen NN fexp score c _ ds (Hcf1 E)) in Hnc. congruence.
    - destruct (advance_agree c eps a b d Hc Hag) as [H1 _]. apply IH; [apply H1; exact E|exact Hcf1|exact Hnc].
  Qed.

  (* C20: at the step where the convergence return fires, more than five consecutive loops have converged,
     a whole number of loops has been run, and the state handed back is the state of the run without a
     threshold at that very point *)
  Theorem C20_convergence_point c eps draws d : conv c = Some eps -> forall a, conv_fin a ->
    converged (run c a draws) = false -> converged (run c a (draws ++ [d])) = true ->
    (5 < conv_count (run c a (draws ++ [d])))%N /\ j (run c a (draws ++ [d])) = 0%N
    /\ params (run c a (draws ++ [d])) = params (run (no_conv c) a (draws ++ [d]))
    /\ score_cur (run c a (draws ++ [d])) = score_cur (run (no_conv c) a (draws ++ [d])).
  Proof.
    intros Hc a Hcf Hnc Hcv.
    pose proof (C20_convergence_prefix c eps draws Hc a a (agree_refl a) Hcf Hnc) as Hag.
    unfold Optimiser.run in *. rewrite !fold_left_app in *. cbn [fold_left] in *.
    destruct (advance_agree c eps _ _ d Hc Hag) as [_ H2]. apply H2; assumption.
  Qed.

  (* the counter counts consecutive converged loops: it is reset by every loop that is not *)
  Theorem C20_counter_is_consecutive c eps st : conv c = Some eps ->
    conv_count (end_loop c st) = (if loop_converged eps st then N.succ (conv_count st) else 0%N).
  Proof. intros Hc. apply (end_loop_agree c eps st st Hc (agree_refl st)). Qed.
End S.
