(* OutputFacts.v - C11: JSON round trip of the state model, and the SVG shows the structure. *)
From Coq Require Import ZArith List Bool String Floats Reals Lra.
From PV Require Import Num NumR model.Tables model.Geom model.Svg model.Json gen.GenSchema proofs.LatticeFacts.
Import ListNotations.

(* ------------------------------------------------------------------ *)
(* JSON                                                                *)

Lemma all_some_map_Some {A B} (f : A -> B) (g : B -> option A) (l : list A) :
  (forall x, g (f x) = Some x) -> Json.all_some (map g (map f l)) = Some l.
Proof.
  intros H. induction l as [|x l IH]; [reflexivity|]. cbn. rewrite H, IH. reflexivity.
Qed.

Lemma dec_enc_site s : dec_site (enc_site s) = Some s.
Proof.
  destruct s as [l syms n b1 b2 x y a]. cbn.
  rewrite (all_some_map_Some (fun m => JArr (map JNum m))
             (fun m => match m with JArr xs => Json.all_some (map dec_num xs) | _ => None end)).
  - reflexivity.
  - intros m. apply (all_some_map_Some JNum dec_num). reflexivity.
Qed.

(* C11: reading back what was written gives the same state - every field, every symmetry matrix entry,
   the whole shape subtree *)
Theorem json_roundtrip s : decode (encode s) = Some s.
Proof.
  destruct s as [wn wf sh l r a cf sites]. cbn.
  rewrite (all_some_map_Some enc_site dec_site) by apply dec_enc_site. reflexivity.
Qed.

Corollary json_reserialise s s' : decode (encode s) = Some s' -> encode s' = encode s.
Proof. rewrite json_roundtrip. intros H. injection H as <-. reflexivity. Qed.

(* the key tree of the model's encoder is the key tree serde emits, for all 7 groups x 5 state kinds
   (shape subtree excluded): regenerated from serde_json output of the running code *)
Fixpoint drop_shape (ks : list string) (inside : bool) : list string :=
  match ks with
  | [] => []
  | k :: r =>
      if String.eqb k "1:shape" then k :: drop_shape r true
      else if String.eqb k "1:cell" then k :: drop_shape r false
      else if inside then drop_shape r inside else k :: drop_shape r inside
  end.

Definition model_keys (n_sites : nat) : list string :=
  let site := mkJsite "a" [] 1 false false 0 0 0 in
  keys_of 8 0 (encode (mkJstate "" "" (JObj []) 0 0 0 "" (repeat site n_sites))).

Definition schema_matches (e : gen_schema_entry) : bool :=
  let ks := drop_shape (sc_keys e) false in
  let mk := model_keys 1 in
  (Nat.eqb (List.length ks) (List.length mk) && forallb (fun p => String.eqb (fst p) (snd p)) (combine ks mk))%bool.

Theorem schema_is_model_schema : forallb schema_matches gen_schema = true.
Proof. vm_compute. reflexivity. Qed.

(* ------------------------------------------------------------------ *)
(* SVG                                                                 *)

Local Open Scope R_scope.

(* C11: an SVG renderer applying the printed matrix places a point exactly where the structure does *)
Theorem svg_matrix_faithful (t : tfR) (p : R * R) : affine_row t ->
  svg_apply NumR (emit NumR t) p = tf_apply NumR t p.
Proof.
  intros H. destruct p as [x y].
  etransitivity; [|symmetry; apply (tf_apply_affine t x y H)].
  unfold emit, svg_apply. cbn [fst snd nadd nmul NumR]. reflexivity.
Qed.

(* the order of the six numbers is the order the code prints: probed on the matrix with rows
   (2 3 5) (7 11 13) through the crate's ToSVG *)
Theorem svg_emit_order_matches_code : gen_svg_probe = [2; 7; 3; 11; 5; 13]%Z.
Proof. vm_compute. reflexivity. Qed.

(* C11: the <use> elements for the molecule are, per placement, the Cartesian placement followed by
   that placement translated by n A + m B for the 8 neighbouring (n, m) *)
Theorem svg_uses_are_placements (c : cellR) (rel : list tfR) :
  Forall affine_row rel ->
  svg_mol_uses NumR c rel =
  flat_map (fun pos => to_cartesian_isometry NumR c pos
                       :: map (fun nm => tf_translate (to_cartesian_isometry NumR c pos) (lattice_vec c (fst nm) (snd nm)))
                              (shell_indices 1 false)) rel.
Proof.
  intros H. unfold svg_mol_uses. induction rel as [|pos rel IH]; [reflexivity|].
  inversion H as [|? ? Hp Hr]; subst. cbn [flat_map]. rewrite IH by exact Hr.
  rewrite (periodic_images_exact c pos 1 false Hp). reflexivity.
Qed.

Theorem svg_neighbour_indices :
  shell_indices 1 false = [(-1, -1); (-1, 0); (-1, 1); (0, -1); (0, 1); (1, -1); (1, 0); (1, 1)]%Z.
Proof. reflexivity. Qed.
