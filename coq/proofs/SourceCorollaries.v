(* SourceCorollaries.v - the Metropolis rule stated directly about accept_score AS TRANSLATED FROM THE SOURCE on this run
   (gen_accept_score of gen/GenFns.v), over the reals: the theorems about the model's `accept` carried across
   accept_score_is_source. *)
From Coq Require Import ZArith NArith List Bool Reals Lra.
From PV Require Import Num NumR model.Optimiser gen.GenFns proofs.SourceFacts proofs.RealFacts.
Local Open Scope R_scope.

(* a proposal without a score is never accepted, at any temperature and for any draw *)
Theorem source_undefined_never_accepted : forall (NN : Num) (fexp : carrier NN -> carrier NN) thr old kt,
  gen_accept_score NN fexp thr None old kt = None.
Proof. reflexivity. Qed.

(* a better proposal is always accepted *)
Theorem source_better_always_accepted : forall thr old new kT : R, old < new ->
  gen_accept_score NumR exp thr (Some new) old kT = Some new.
Proof.
  intros thr old new kT H. rewrite accept_score_is_source. now rewrite (R_accept_better thr old new kT H).
Qed.

(* an equal score is accepted (for every draw below one) *)
Theorem source_equal_accepted : forall thr old kT : R, 0 < kT -> thr < 1 ->
  gen_accept_score NumR exp thr (Some old) old kT = Some old.
Proof.
  intros thr old kT H1 H2. rewrite accept_score_is_source. now rewrite (R_accept_equal thr old kT H1 H2).
Qed.

(* a proposal worse by d is accepted exactly when the draw is below exp(-d/kT): for a uniform draw on [0, 1) that is
   an event of probability exp(-d/kT) *)
Theorem source_worse_accepted_iff : forall thr old d kT : R, 0 < d -> 0 < kT ->
  (gen_accept_score NumR exp thr (Some (old - d)) old kT = Some (old - d) <-> thr < exp (- d / kT)).
Proof.
  intros thr old d kT Hd HkT. rewrite accept_score_is_source.
  rewrite <- (R_accept_interval thr old d kT Hd HkT).
  destruct (accept NumR exp thr (Some (old - d)) old kT); split; intros H; try reflexivity; discriminate H.
Qed.

(* ------------------------------------------------------------------ *)
(* LJ2::energy as translated from the source, over the reals (powi as real powers)                    *)
From PV Require Import model.Geom proofs.LJFacts.

Theorem source_lj_is_12_6 : forall (a b : lj NumR) (r : R),
  lcut NumR a = None -> 0 < r -> r * r = r2_of a b ->
  gen_lj_energy NumR rpowi a b = 4 * leps NumR a * ((lsigma NumR a / r) ^ 12 - (lsigma NumR a / r) ^ 6).
Proof. intros a b r H1 H2 H3. rewrite lj_energy_is_source. exact (lj_is_12_6 a b r H1 H2 H3). Qed.

Theorem source_lj_zero_beyond : forall (a b : lj NumR) (x : R),
  lcut NumR a = Some x -> x * x <= r2_of a b -> gen_lj_energy NumR rpowi a b = 0.
Proof. intros a b x H1 H2. rewrite lj_energy_is_source. exact (lj_zero_beyond a b x H1 H2). Qed.

Theorem source_lj_symmetric_like : forall a b : lj NumR,
  lsigma NumR a = lsigma NumR b -> leps NumR a = leps NumR b -> lcut NumR a = lcut NumR b ->
  gen_lj_energy NumR rpowi a b = gen_lj_energy NumR rpowi b a.
Proof. intros a b H1 H2 H3. rewrite !lj_energy_is_source. exact (lj_symmetric_like a b H1 H2 H3). Qed.

(* ------------------------------------------------------------------ *)
(* C01: the shell count AS COMPUTED BY THE SOURCE's formula suffices: an image further away in cell indices than
   ceil(2 R / (sin(angle) min(a, b))) is further than 2 R from every copy in the cell *)
From PV Require Import proofs.PackingFacts.

Theorem source_shell_count_suffices : forall (st : pstate NumR) (fxi fyi fxj fyj : R) (n m : Z),
  wf_state st ->
  -1/2 <= fxi < 1/2 -> -1/2 <= fyi < 1/2 -> -1/2 <= fxj < 1/2 -> -1/2 <= fyj < 1/2 ->
  (gen_shells NumR st < Z.abs n \/ gen_shells NumR st < Z.abs m)%Z ->
  forall x1 y1 x2 y2 : R,
  to_cartesian NumR (p_cell NumR st) (fxi, fyi) = (x1, y1) ->
  to_cartesian NumR (p_cell NumR st) (fxj + IZR n, fyj + IZR m) = (x2, y2) ->
  gen_radius_sq NumR st < (x1 - x2) * (x1 - x2) + (y1 - y2) * (y1 - y2).
Proof.
  intros st fxi fyi fxj fyj n m Hwf Xi Yi Xj Yj Hout x1 y1 x2 y2 E1 E2.
  rewrite shells_is_source in Hout. rewrite radius_sq_is_source.
  pose proof (outside_shells_is_far st fxi fyi fxj fyj n m Hwf Xi Yi Xj Yj Hout x1 y1 x2 y2 E1 E2) as H.
  unfold sq. cbn [nmul NumR n2 nofZ]. exact H.
Qed.
