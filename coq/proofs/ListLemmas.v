(* ListLemmas.v - small facts about existsb / fold_left / filter / flat_map used by the source-equality proofs. *)
From Coq Require Import List Bool.
Import ListNotations.

Lemma existsb_ext_in {A} (f g : A -> bool) (l : list A) :
  (forall x, In x l -> f x = g x) -> existsb f l = existsb g l.
Proof.
  induction l as [|x l IH]; intros H; [reflexivity|]. cbn [existsb].
  rewrite (H x (or_introl eq_refl)), IH; [reflexivity|]. intros y Hy. apply H. now right.
Qed.

Lemma fold_left_ext_in {A B} (f g : B -> A -> B) (l : list A) (b : B) :
  (forall acc x, In x l -> f acc x = g acc x) -> fold_left f l b = fold_left g l b.
Proof.
  revert b. induction l as [|x l IH]; intros b H; [reflexivity|]. cbn [fold_left].
  rewrite (H b x (or_introl eq_refl)). apply IH. intros acc y Hy. apply H. now right.
Qed.

Lemma fold_left_map {A B C} (f : C -> B -> C) (g : A -> B) (l : list A) (c : C) :
  fold_left f (map g l) c = fold_left (fun acc x => f acc (g x)) l c.
Proof. revert c. induction l as [|x l IH]; intros c; [reflexivity|]. cbn [map fold_left]. apply IH. Qed.

Lemma filter_ext_in {A} (f g : A -> bool) (l : list A) :
  (forall x, In x l -> f x = g x) -> filter f l = filter g l.
Proof.
  induction l as [|x l IH]; intros H; [reflexivity|]. cbn [filter].
  rewrite (H x (or_introl eq_refl)), IH; [reflexivity|]. intros y Hy. apply H. now right.
Qed.

Lemma existsb_flat_map {A B} (f : B -> bool) (g : A -> list B) (l : list A) :
  existsb f (flat_map g l) = existsb (fun x => existsb f (g x)) l.
Proof.
  induction l as [|x l IH]; [reflexivity|]. cbn [flat_map existsb]. rewrite existsb_app, IH. reflexivity.
Qed.

Lemma existsb_map {A B} (f : B -> bool) (h : A -> B) (l : list A) :
  existsb f (map h l) = existsb (fun x => f (h x)) l.
Proof. induction l as [|x l IH]; [reflexivity|]. cbn [map existsb]. rewrite IH. reflexivity. Qed.

Lemma fold_left_flat_map {A B C} (f : C -> B -> C) (g : A -> list B) (l : list A) (c : C) :
  fold_left f (flat_map g l) c = fold_left (fun acc x => fold_left f (g x) acc) l c.
Proof.
  revert c. induction l as [|x l IH]; intros c; [reflexivity|]. cbn [flat_map fold_left]. rewrite fold_left_app. apply IH.
Qed.

