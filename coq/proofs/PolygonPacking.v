(* PolygonPacking.v - C01 for convex polygon shapes, assembled: in a scored state two placed copies (any pair,
   any lattice translate) that are closed convex polygons share no interior point, unless one has all its
   vertices strictly inside the other.  Uses: every pair is checked or far (PackingFacts), far convex polygons
   are disjoint (EnclosedFacts, with the radius the code computes: RadiusFacts), checked overlapping convex
   polygons are detected (ConvexFacts). *)
From Coq Require Import ZArith List Bool Reals Lra Lia Psatz.
From PV Require Import Num NumR model.Geom proofs.RealFacts proofs.LatticeFacts proofs.SiteFacts proofs.OverlapFacts
  proofs.ConvexFacts proofs.ShapeFacts proofs.EnclosedFacts proofs.PackingFacts proofs.PolygonFacts proofs.RadiusFacts.
Import ListNotations.
Local Open Scope R_scope.

(* two closed convex polygons whose vertices lie within Rad of centres more than 2 Rad apart share no interior point *)
Theorem far_convex_polygons_disjoint sP sQ (P Q : list segR) (cP cQ x : pt) (Rad : R) :
  convex sP P -> convex sQ Q -> closed P -> closed Q -> P <> [] -> Q <> [] -> 0 <= Rad ->
  (forall e, In e P -> (fst (seg_start e) - fst cP) * (fst (seg_start e) - fst cP)
                       + (snd (seg_start e) - snd cP) * (snd (seg_start e) - snd cP) <= Rad * Rad) ->
  (forall e, In e Q -> (fst (seg_start e) - fst cQ) * (fst (seg_start e) - fst cQ)
                       + (snd (seg_start e) - snd cQ) * (snd (seg_start e) - snd cQ) <= Rad * Rad) ->
  (Rad * 2) * (Rad * 2) < (fst cP - fst cQ) * (fst cP - fst cQ) + (snd cP - snd cQ) * (snd cP - snd cQ) ->
  ~ (strictly_inside sP P x /\ strictly_inside sQ Q x).
Proof.
  intros HcP HcQ HclP HclQ HnP HnQ HR HvP HvQ Hfar [HxP HxQ].
  pose proof (inside_within_radius sP P cP x Rad HcP HclP HnP HR HvP HxP) as H1.
  pose proof (inside_within_radius sQ Q cQ x Rad HcQ HclQ HnQ HR HvQ HxQ) as H2.
  destruct cP as [px py], cQ as [qx qy], x as [x y]. cbn [fst snd] in *.
  (* |cP - cQ|^2 <= 2 |x - cP|^2 + 2 |x - cQ|^2 *)
  assert (Ht : (px - qx) * (px - qx) + (py - qy) * (py - qy)
               <= 2 * ((x - px) * (x - px) + (y - py) * (y - py)) + 2 * ((x - qx) * (x - qx) + (y - qy) * (y - qy))).
  { pose proof (Rle_0_sqr ((x - px) + (x - qx))). pose proof (Rle_0_sqr ((y - py) + (y - qy))). unfold Rsqr in *. nra. }
  nra.
Qed.

(* the vertices of a placed polygon lie within the computed radius of the placement's position *)
Lemma placed_vertices_enclosed (t : tfR) (l : list segR) (fmin_ : R) :
  affine_row t -> rigid t ->
  forall e, In e (placed_poly t l) ->
    (fst (seg_start e) - a02 NumR t) * (fst (seg_start e) - a02 NumR t)
    + (snd (seg_start e) - a12 NumR t) * (snd (seg_start e) - a12 NumR t)
    <= poly_radius NumR fmin_ l * poly_radius NumR fmin_ l.
Proof.
  intros Ha (R1 & R2 & R3) e He. unfold placed_poly in He. apply in_map_iff in He. destruct He as (e0 & <- & He0).
  pose proof (poly_radius_encloses fmin_ l e0 He0) as Hr.
  unfold seg_start, seg_transform. rewrite !(tf_apply_affine t _ _ Ha). cbn [sx1 sy1 fst snd].
  set (x := sx1 NumR e0) in *. set (y := sy1 NumR e0) in *.
  replace ((a00 NumR t * x + a01 NumR t * y + a02 NumR t - a02 NumR t) * (a00 NumR t * x + a01 NumR t * y + a02 NumR t - a02 NumR t)
           + (a10 NumR t * x + a11 NumR t * y + a12 NumR t - a12 NumR t) * (a10 NumR t * x + a11 NumR t * y + a12 NumR t - a12 NumR t))
    with ((a00 NumR t * a00 NumR t + a10 NumR t * a10 NumR t) * (x * x) + 2 * (a00 NumR t * a01 NumR t + a10 NumR t * a11 NumR t) * (x * y)
          + (a01 NumR t * a01 NumR t + a11 NumR t * a11 NumR t) * (y * y)) by ring.
  rewrite R1, R2, R3.
  assert (Hxy : 0 <= x * x + y * y) by (pose proof (Rle_0_sqr x); pose proof (Rle_0_sqr y); unfold Rsqr in *; lra).
  pose proof (sqrt_pos (x * x + y * y)) as Hs0. pose proof (sqrt_sqrt _ Hxy) as Hss.
  assert (sqrt (x * x + y * y) * sqrt (x * x + y * y) <= poly_radius NumR fmin_ l * poly_radius NumR fmin_ l)
    by (apply Rmult_le_compat; lra).
  lra.
Qed.

Lemma placed_poly_nonempty t (l : list segR) : l <> [] -> placed_poly t l <> [].
Proof. destruct l; [congruence|discriminate]. Qed.

(* C01, convex polygons: no common interior point, up to nesting *)
Theorem scored_convex_polygon_packing_no_overlap (st : pstateR) (l : list segR) (fmin_ : R) :
  wf_state st -> rigid_inputs st -> p_shape NumR st = Poly l -> l <> [] ->
  p_radius NumR st = shape_radius NumR fmin_ (p_shape NumR st) ->
  packed_score NumR st <> None ->
  forall i j (n m : Z), (i < copies st)%nat -> (j < copies st)%nat ->
  ~ (i = j /\ n = 0%Z /\ m = 0%Z) ->
  let P := placed_poly (copy st i) l in let Q := placed_poly (image st j n m) l in
  forall sP sQ, convex sP P -> convex sQ Q -> closed P -> closed Q ->
  forall x, strictly_inside sP P x -> strictly_inside sQ Q x ->
     (forall e, In e P -> strictly_inside sQ Q (seg_start e))
  \/ (forall f, In f Q -> strictly_inside sP P (seg_start f)).
Proof.
  intros Hwf [Hrig Hcs] Hshape Hne Hrad Hscore i j n m Hi Hj Hdist P Q sP sQ HcP HcQ HclP HclQ x HxP HxQ.
  destruct (scored_convex_polygon_packing st l Hwf Hshape Hscore i j n m Hi Hj Hdist sP sQ HcP HcQ HclP HclQ x HxP HxQ)
    as [Hfar|Hnest]; [exfalso|exact Hnest].
  (* the placements are affine and rigid *)
  assert (Hpl : forall q, (q < copies st)%nat ->
            affine_row (nth q (relative_positions NumR st) dflt) /\ rigid (nth q (relative_positions NumR st) dflt))
    by (intros q Hq; apply rel_rigid; [exact Hwf|split; assumption|exact Hq]).
  destruct (Hpl i Hi) as [Ai Gi]. destruct (Hpl j Hj) as [Aj Gj].
  assert (Ac : affine_row (copy st i) /\ rigid (copy st i)).
  { rewrite (copy_is_cart st i Hi). split; [exact Ai|exact Gi]. }
  assert (Am : affine_row (image st j n m) /\ rigid (image st j n m)).
  { unfold image, to_cartesian_translate. destruct (tf_position NumR _). split; [exact Aj|exact Gj]. }
  destruct Ac as [Ac Gc], Am as [Am Gm].
  assert (HR : 0 <= p_radius NumR st) by (destruct Hwf; assumption).
  rewrite Hrad, Hshape in *. cbn [shape_radius] in *.
  apply (far_convex_polygons_disjoint sP sQ P Q (a02 NumR (copy st i), a12 NumR (copy st i))
           (a02 NumR (image st j n m), a12 NumR (image st j n m)) x (poly_radius NumR fmin_ l)); auto.
  - now apply placed_poly_nonempty.
  - now apply placed_poly_nonempty.
  - cbn [fst snd]. now apply placed_vertices_enclosed.
  - cbn [fst snd]. now apply placed_vertices_enclosed.
  - cbn [fst snd]. unfold centre_dist2 in Hfar. rewrite (tf_position_affine _ Ac), (tf_position_affine _ Am) in Hfar.
    unfold norm2, sq in Hfar. cbn [nadd nsub nmul NumR n2 nofZ] in Hfar. exact Hfar.
Qed.

(* ------------------------------------------------------------------ *)
(* convexity and closedness are properties of the SHAPE: rigid placements keep them *)

Definition det2 (t : tfR) : R := a00 NumR t * a11 NumR t - a01 NumR t * a10 NumR t.

Lemma seg_start_transform (t : tfR) (e : segR) : affine_row t ->
  seg_start (seg_transform NumR t e) = tf_apply NumR t (seg_start e).
Proof. intros Ha. unfold seg_start, seg_transform. rewrite !(tf_apply_affine t _ _ Ha). reflexivity. Qed.

Lemma seg_end_transform (t : tfR) (e : segR) : affine_row t ->
  seg_end (seg_transform NumR t e) = tf_apply NumR t (seg_end e).
Proof. intros Ha. unfold seg_end, seg_transform. rewrite !(tf_apply_affine t _ _ Ha). reflexivity. Qed.

Lemma side_transform sigma (t : tfR) (e : segR) (p : pt) : affine_row t ->
  side sigma (seg_transform NumR t e) (tf_apply NumR t p) = det2 t * side sigma e p.
Proof.
  intros Ha. unfold side, seg_transform, det2. destruct p as [x y]. rewrite !(tf_apply_affine t _ _ Ha).
  destruct e as [x1 y1 x2 y2], t as [t00 t01 t02 t10 t11 t12 t20 t21 t22].
  cbn [sx1 sy1 sx2 sy2 fst snd a00 a01 a02 a10 a11 a12]. change (carrier NumR) with R in *. ring.
Qed.

Lemma rigid_det_pm (t : tfR) : rigid t -> det2 t = 1 \/ det2 t = -1.
Proof.
  intros (R1 & R2 & R3). unfold det2.
  assert (H : (a00 NumR t * a11 NumR t - a01 NumR t * a10 NumR t) * (a00 NumR t * a11 NumR t - a01 NumR t * a10 NumR t) = 1).
  { replace ((a00 NumR t * a11 NumR t - a01 NumR t * a10 NumR t) * (a00 NumR t * a11 NumR t - a01 NumR t * a10 NumR t))
      with ((a00 NumR t * a00 NumR t + a10 NumR t * a10 NumR t) * (a01 NumR t * a01 NumR t + a11 NumR t * a11 NumR t)
            - (a00 NumR t * a01 NumR t + a10 NumR t * a11 NumR t) * (a00 NumR t * a01 NumR t + a10 NumR t * a11 NumR t)) by ring.
    rewrite R1, R2, R3. ring. }
  set (d := a00 NumR t * a11 NumR t - a01 NumR t * a10 NumR t) in *.
  assert ((d - 1) * (d + 1) = 0) by lra. apply Rmult_integral in H0. destruct H0; [left|right]; lra.
Qed.

Lemma placed_convex sigma (t : tfR) (l : list segR) :
  affine_row t -> rigid t -> convex sigma l -> convex (sigma * det2 t) (placed_poly t l).
Proof.
  intros Ha Hr Hcv. pose proof (rigid_det_pm t Hr) as Hd.
  assert (Hside : forall e p, side (sigma * det2 t) (seg_transform NumR t e) (tf_apply NumR t p) = side sigma e p).
  { intros e p. replace (side (sigma * det2 t) (seg_transform NumR t e) (tf_apply NumR t p))
      with (det2 t * side sigma (seg_transform NumR t e) (tf_apply NumR t p)) by (unfold side; ring).
    rewrite (side_transform sigma t e p Ha). destruct Hd as [-> | ->]; ring. }
  constructor.
  - destruct (cv_sigma _ _ Hcv) as [-> | ->], Hd as [-> | ->]; [left|right|right|left]; ring.
  - intros e' He'. unfold placed_poly in He'. apply in_map_iff in He'. destruct He' as (e & <- & He).
    destruct (cv_vertices _ _ Hcv e He) as [H1 H2].
    rewrite (seg_start_transform t e Ha), (seg_end_transform t e Ha).
    split; intros f' Hf'; unfold placed_poly in Hf'; apply in_map_iff in Hf'; destruct Hf' as (f & <- & Hf);
      rewrite Hside; [now apply H1|now apply H2].
  - intros e' He'. unfold placed_poly in He'. apply in_map_iff in He'. destruct He' as (e & <- & He).
    destruct (cv_prev _ _ Hcv e He) as (ep & Hep & E & Hs).
    exists (seg_transform NumR t ep). split; [unfold placed_poly; now apply in_map|].
    rewrite (seg_end_transform t ep Ha), (seg_start_transform t e Ha), (seg_end_transform t e Ha), E, Hside. auto.
  - intros e' He'. unfold placed_poly in He'. apply in_map_iff in He'. destruct He' as (e & <- & He).
    destruct (cv_next _ _ Hcv e He) as (en & Hen & E & Hs).
    exists (seg_transform NumR t en). split; [unfold placed_poly; now apply in_map|].
    rewrite (seg_start_transform t en Ha), (seg_end_transform t e Ha), (seg_start_transform t e Ha), E, Hside. auto.
Qed.

Lemma placed_linked (t : tfR) (l : list segR) : affine_row t -> linked l -> linked (placed_poly t l).
Proof.
  intros Ha. induction l as [|e [|e' r] IH]; intros Hl; cbn; auto.
  cbn [linked] in Hl. destruct Hl as [E Hl]. split.
  - rewrite (seg_end_transform t e Ha), (seg_start_transform t e' Ha), E. reflexivity.
  - apply IH. exact Hl.
Qed.

Lemma placed_closed (t : tfR) (l : list segR) : affine_row t -> closed l -> closed (placed_poly t l).
Proof.
  intros Ha [Hl Hc]. split; [now apply placed_linked|].
  destruct l as [|e r]; [exact I|]. cbn [placed_poly map].
  change (map (seg_transform NumR t) r) with (placed_poly t r).
  assert (Hlast : last (placed_poly t r) (seg_transform NumR t e) = seg_transform NumR t (last r e)).
  { unfold placed_poly. clear. revert e. induction r as [|a r IH]; intros e; [reflexivity|].
    cbn [map]. rewrite !last_cons. destruct r as [|b r]; [reflexivity|]. cbn [map]. rewrite !last_cons. 
    specialize (IH a). cbn [map] in IH. rewrite !last_cons in IH. exact IH. }
  rewrite Hlast, (seg_end_transform t _ Ha), (seg_start_transform t e Ha), Hc. reflexivity.
Qed.

(* C01 for convex polygon shapes, hypotheses on the SHAPE only: if the polygon the state was built with is
   closed and convex then in a scored state no two of its placed copies share an interior point, up to nesting *)
Theorem scored_convex_shape_packing_no_overlap (st : pstateR) (l : list segR) (fmin_ sigma : R) :
  wf_state st -> rigid_inputs st -> p_shape NumR st = Poly l -> l <> [] -> convex sigma l -> closed l ->
  p_radius NumR st = shape_radius NumR fmin_ (p_shape NumR st) ->
  packed_score NumR st <> None ->
  forall i j (n m : Z), (i < copies st)%nat -> (j < copies st)%nat ->
  ~ (i = j /\ n = 0%Z /\ m = 0%Z) ->
  let P := placed_poly (copy st i) l in let Q := placed_poly (image st j n m) l in
  forall x, strictly_inside (sigma * det2 (copy st i)) P x -> strictly_inside (sigma * det2 (image st j n m)) Q x ->
     (forall e, In e P -> strictly_inside (sigma * det2 (image st j n m)) Q (seg_start e))
  \/ (forall f, In f Q -> strictly_inside (sigma * det2 (copy st i)) P (seg_start f)).
Proof.
  intros Hwf Hri Hshape Hne Hcv Hcl Hrad Hscore i j n m Hi Hj Hdist P Q x HxP HxQ.
  destruct Hri as [Hrig Hcs].
  assert (Hpl : forall q, (q < copies st)%nat ->
            affine_row (nth q (relative_positions NumR st) dflt) /\ rigid (nth q (relative_positions NumR st) dflt))
    by (intros q Hq; apply rel_rigid; [exact Hwf|split; assumption|exact Hq]).
  destruct (Hpl i Hi) as [Ai Gi]. destruct (Hpl j Hj) as [Aj Gj].
  assert (Ac : affine_row (copy st i) /\ rigid (copy st i)).
  { rewrite (copy_is_cart st i Hi). split; [exact Ai|exact Gi]. }
  assert (Am : affine_row (image st j n m) /\ rigid (image st j n m)).
  { unfold image, to_cartesian_translate. destruct (tf_position NumR _). split; [exact Aj|exact Gj]. }
  destruct Ac as [Ac Gc], Am as [Am Gm].
  apply (scored_convex_polygon_packing_no_overlap st l fmin_ Hwf (conj Hrig Hcs) Hshape Hne Hrad Hscore i j n m Hi Hj Hdist
           (sigma * det2 (copy st i)) (sigma * det2 (image st j n m))) with (x := x); auto.
  - now apply placed_convex.
  - now apply placed_convex.
  - now apply placed_closed.
  - now apply placed_closed.
Qed.

(* the unit square of ConvexFacts is such a shape *)
Example square_is_a_convex_closed_shape : convex 1 (square 0 0) /\ closed (square 0 0) /\ square 0 0 <> [].
Proof. split; [apply square_convex|]. split; [apply square_closed|discriminate]. Qed.

(* C01 for the built-in regular polygons (LineShape::polygon(n), n >= 3), no premise about the shape left:
   in a scored state two placed copies share no interior point, up to nesting *)
Theorem scored_regular_polygon_packing_no_overlap (st : pstateR) (n : nat) (fmin_ : R) :
  (3 <= n)%nat ->
  wf_state st -> rigid_inputs st -> p_shape NumR st = Poly (polygon NumR PI sin cos n) ->
  p_radius NumR st = shape_radius NumR fmin_ (p_shape NumR st) ->
  packed_score NumR st <> None ->
  forall i j (a b : Z), (i < copies st)%nat -> (j < copies st)%nat ->
  ~ (i = j /\ a = 0%Z /\ b = 0%Z) ->
  let l := polygon NumR PI sin cos n in
  let P := placed_poly (copy st i) l in let Q := placed_poly (image st j a b) l in
  forall x, strictly_inside (-1 * det2 (copy st i)) P x -> strictly_inside (-1 * det2 (image st j a b)) Q x ->
     (forall e, In e P -> strictly_inside (-1 * det2 (image st j a b)) Q (seg_start e))
  \/ (forall f, In f Q -> strictly_inside (-1 * det2 (copy st i)) P (seg_start f)).
Proof.
  intros Hn Hwf Hri Hshape Hrad Hscore i j a b Hi Hj Hd l P Q x HxP HxQ.
  apply (scored_convex_shape_packing_no_overlap st l fmin_ (-1) Hwf Hri Hshape
           (polygon_nonempty n Hn) (polygon_convex n Hn) (polygon_closed n Hn) Hrad Hscore i j a b Hi Hj Hd x HxP HxQ).
Qed.
