(* ParseSource.v - C17: the character step of Transform2::from_operations AS TRANSLATED FROM THE SOURCE on this run
   (gen/GenFns.v gen_pstep: the `match c { 'x' => .., 'y' => .., '*' | '/' => .., '-' => .., '0'..='9' => .., ' ' | '+' => (),
   x => bail!(..) }` in the loop over the characters of a component, arms in source order) is the model's pstep, and a
   component starts from the values the source initialises (gen_pinit). *)
From Coq Require Import ZArith NArith List Bool String Ascii Lia.
From PV Require Import Num model.Parse gen.GenFns.
Import ListNotations.
Local Open Scope num_scope.

(* every function of the source this file is about was translated on this run *)
Theorem parse_source_translated :
  translated_gen_pstep = true /\
  translated_gen_braces = true /\
  translated_gen_components = true /\
  translated_gen_dims_ok = true /\
  translated_gen_pinit = true.
Proof. repeat split; reflexivity. Qed.

Section ParseSource.
  Variable NN : Num.
  Notation T := (carrier NN).

  Lemma digit_of_range (c : ascii) :
    digit_of c = if andb (Z.leb (char_code "0"%char) (char_code c)) (Z.leb (char_code c) (char_code "9"%char))
                 then Some (char_code c - 48)%Z else None.
  Proof. reflexivity. Qed.

  Theorem pstep_is_source : forall (st : pst NN) (c : ascii),
    pstep NN st c =
    match gen_pstep NN (r_x NN st) (r_y NN st) (r_sign NN st) (r_const NN st) (r_op NN st) c with
    | Some (tx, ty, sg, k, op) => Some (mkPst NN tx ty sg k op)
    | None => None
    end.
  Proof.
    intros [tx ty sg k op] c. unfold pstep, gen_pstep. cbn [r_x r_y r_sign r_const r_op].
    destruct (Ascii.eqb c "x"); [reflexivity|].
    destruct (Ascii.eqb c "y"); [reflexivity|].
    destruct (orb (Ascii.eqb c "*") (Ascii.eqb c "/")); [reflexivity|].
    destruct (Ascii.eqb c "-"); [reflexivity|].
    rewrite digit_of_range.
    destruct (andb (Z.leb (char_code "0"%char) (char_code c)) (Z.leb (char_code c) (char_code "9"%char))).
    - unfold digit_value_. destruct op as [o|]; [|reflexivity].
      destruct (Ascii.eqb o "/"); [reflexivity|]. destruct (Ascii.eqb o "*"); reflexivity.
    - destruct (orb (Ascii.eqb c " ") (Ascii.eqb c "+")); reflexivity.
  Qed.

  Theorem pinit_is_source : pinit NN = mkPst NN n0 n0 (fst (gen_pinit NN)) (snd (gen_pinit NN)) None.
  Proof. reflexivity. Qed.

  (* the components of the input: braces trimmed off both ends, then split at the commas *)
  Lemma drop_while_ext (p q : ascii -> bool) (l : list ascii) : (forall c, p c = q c) -> drop_while p l = drop_while q l.
  Proof. intros H. induction l as [|c l IH]; [reflexivity|]. cbn [drop_while]. rewrite H, IH. reflexivity. Qed.

  Theorem components_is_source : forall (l : list ascii),
    gen_components l = split_terminator ","%char (trim_braces l).
  Proof.
    intros l. unfold gen_components, trim_chars, trim_braces, gen_braces.
    assert (H : forall c, existsb (Ascii.eqb c) ["("%char; ")"%char] = is_brace c).
    { intros c. unfold is_brace. cbn [existsb]. now rewrite orb_false_r. }
    rewrite (drop_while_ext _ _ l H), (drop_while_ext _ _ (rev (drop_while is_brace l)) H). reflexivity.
  Qed.

  (* the number of components: exactly two pass the check of the source, and the model rejects everything else *)
  Theorem dims_is_source : forall (l : list ascii),
    let comps := split_terminator ","%char (trim_braces l) in
    (gen_dims_ok (N.of_nat (List.length comps)) = true <-> exists a b, comps = [a; b])
    /\ (gen_dims_ok (N.of_nat (List.length comps)) = false -> from_operations_l NN l = PErr).
  Proof.
    intros l comps. unfold from_operations_l. fold comps. unfold gen_dims_ok.
    destruct comps as [|a [|b [|c r]]]; cbn [List.length].
    - split; [split; [discriminate|intros (a & b & H); discriminate]|reflexivity].
    - split; [split; [discriminate|intros (a' & b & H); discriminate]|reflexivity].
    - split; [split; [intros _; eauto|reflexivity]|discriminate].
    - assert (E : N.ltb (N.of_nat (S (S (S (List.length r))))) 2 = false) by (apply N.ltb_ge; lia).
      assert (E2 : N.ltb 2 (N.of_nat (S (S (S (List.length r))))) = true) by (apply N.ltb_lt; lia).
      cbv zeta. rewrite E, E2.
      split; [split; [discriminate|intros (a' & b' & H); discriminate]|reflexivity].
  Qed.

  (* ---- the whole parser: the model's from_operations_l is the translated pieces put together - split the input
     (gen_components), check the number of components (gen_dims_ok), run the character step (gen_pstep) over each
     component from the initial values (gen_pinit), and take the row (x coefficient, y coefficient, constant) *)
  Fixpoint gen_fold (st : T * T * T * T * option ascii) (l : list ascii) : option (T * T * T * T * option ascii) :=
    match l with
    | [] => Some st
    | c :: r =>
        let '(tx, ty, sg, k, op) := st in
        match gen_pstep NN tx ty sg k op c with
        | Some st' => gen_fold st' r
        | None => None
        end
    end.

  Definition gen_component (l : list ascii) : option (T * T * T) :=
    match gen_fold (n0, n0, fst (gen_pinit NN), snd (gen_pinit NN), None) l with
    | Some (tx, ty, _, k, _) => Some (tx, ty, k)
    | None => None
    end.

  Lemma pfold_is_gen_fold : forall l (st : pst NN),
    pfold NN st l =
    match gen_fold (r_x NN st, r_y NN st, r_sign NN st, r_const NN st, r_op NN st) l with
    | Some (tx, ty, sg, k, op) => Some (mkPst NN tx ty sg k op)
    | None => None
    end.
  Proof.
    induction l as [|c l IH]; intros st; cbn [pfold gen_fold].
    - destruct st; reflexivity.
    - rewrite pstep_is_source.
      destruct (gen_pstep NN (r_x NN st) (r_y NN st) (r_sign NN st) (r_const NN st) (r_op NN st) c) as [[[[[tx ty] sg] k] op]|];
        [|reflexivity].
      rewrite IH. reflexivity.
  Qed.

  Lemma parse_component_is_gen : forall l, parse_component NN l = gen_component l.
  Proof.
    intros l. unfold parse_component, gen_component. rewrite pfold_is_gen_fold, pinit_is_source.
    cbn [r_x r_y r_sign r_const r_op].
    destruct (gen_fold (n0, n0, fst (gen_pinit NN), snd (gen_pinit NN), None) l) as [[[[[tx ty] sg] k] op]|]; reflexivity.
  Qed.

  Theorem parser_is_the_source_pieces : forall (l : list ascii),
    from_operations_l NN l =
    if gen_dims_ok (N.of_nat (List.length (gen_components l)))
    then match gen_components l with
         | [a; b] => match gen_component a, gen_component b with
                     | Some ra, Some rb => POk ra rb
                     | _, _ => PErr
                     end
         | _ => PErr
         end
    else PErr.
  Proof.
    intros l. destruct (dims_is_source l) as [[H1 H2] H3]. rewrite components_is_source in *.
    unfold from_operations_l.
    destruct (gen_dims_ok (N.of_nat (List.length (split_terminator ","%char (trim_braces l))))) eqn:E.
    - destruct (H1 eq_refl) as (a & b & ->). rewrite !parse_component_is_gen. reflexivity.
    - exact (H3 eq_refl).
  Qed.
End ParseSource.
