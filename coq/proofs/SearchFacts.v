(* SearchFacts.v - PackedState::check_intersection AS A WHOLE, translated from the source text on this run
   (gen_check_intersection: the pre-check, the shell count, the in-cell pair loops with enumerate / skip and the
   image loops, as nested existsb), is the hand-written model's check_intersection. *)
From Coq Require Import ZArith NArith List Bool Lia.
From PV Require Import Num model.Geom model.Iter gen.GenFns.
Import ListNotations.
Local Open Scope num_scope.

Lemma existsb_ext_in {A} (f g : A -> bool) (l : list A) :
  (forall x, In x l -> f x = g x) -> existsb f l = existsb g l.
Proof.
  induction l as [|x l IH]; intros H; [reflexivity|]. cbn [existsb].
  rewrite (H x (or_introl eq_refl)), IH; [reflexivity|]. intros y Hy. apply H. now right.
Qed.

(* for (i, x) in l.enumerate() { for y in l.skip(i + 1) { if f x y { return true } } }  visits every unordered pair once:
   it is the search over the tails of l *)
Lemma pairs_enumerate_skip {A} (f : A -> A -> bool) (pre suf : list A) :
  existsb (fun '(i, x) => orb (existsb (fun y => orb (f x y) false) (skipn (S i) (pre ++ suf))) false)
          (enumerate_from (length pre) suf)
  = existsb (fun xr => existsb (fun y => f (fst xr) y) (snd xr)) (tails suf).
Proof.
  revert pre. induction suf as [|x suf IH]; intros pre; [reflexivity|].
  cbn [enumerate_from existsb tails fst snd].
  rewrite orb_false_r.
  assert (E : skipn (S (length pre)) (pre ++ x :: suf) = suf).
  { replace (S (length pre)) with (length (pre ++ [x])) by (rewrite app_length; cbn; lia).
    replace (pre ++ x :: suf) with ((pre ++ [x]) ++ suf) by (rewrite <- app_assoc; reflexivity).
    rewrite skipn_app, skipn_all, Nat.sub_diag. reflexivity. }
  rewrite E.
  rewrite (existsb_ext_in (fun y => orb (f x y) false) (fun y => f x y)) by (intros; apply orb_false_r).
  f_equal.
  specialize (IH (pre ++ [x])). rewrite app_length in IH. cbn [length] in IH.
  replace (length pre + 1)%nat with (S (length pre)) in IH by lia.
  replace ((pre ++ [x]) ++ suf) with (pre ++ x :: suf) in IH by (rewrite <- app_assoc; reflexivity).
  exact IH.
Qed.

Theorem check_intersection_is_source : forall (NN : Num) (st : pstate NN),
  gen_check_intersection NN st = check_intersection NN st.
Proof.
  intros NN st. unfold gen_check_intersection, check_intersection.
  change ((cell_area NN (p_cell NN st)) <? ((p_area NN st) * (nofZ (total_shapes NN st)))) with (density_precheck NN st).
  f_equal. cbv zeta. f_equal.
  - (* the pairs inside the cell *)
    unfold in_cell_intersection, enumerate.
    set (shapes := map (fun p => shape_transform NN p (p_shape NN st)) (cartesian_positions NN st)).
    change (map (fun p => (fun t => shape_transform NN t (p_shape NN st)) p) (cartesian_positions NN st)) with shapes.
    exact (pairs_enumerate_skip (shape_intersects NN) [] shapes).
  - (* the images *)
    rewrite orb_false_r. unfold periodic_intersection.
    apply existsb_ext_in. intros t1 _.
    rewrite orb_false_r.
    destruct (tf_position NN t1) as [x1 y1] eqn:E1.
    apply existsb_ext_in. intros pos _.
    rewrite orb_false_r.
    apply existsb_ext_in. intros t2 _.
    destruct (tf_position NN t2) as [x2 y2] eqn:E2.
    rewrite !orb_false_r.
    change (shells_of NN st) with (nceilZ ((nofZ 2 * p_radius NN st) / (c_sin NN (p_cell NN st) * nmin (cell_a NN (p_cell NN st)) (cell_b NN (p_cell NN st))))).
    change (sq NN (p_radius NN st * nofZ 2)) with (sq NN (p_radius NN st * n2)).
    destruct (norm2 NN (x1 - x2) (y1 - y2) <=? sq NN (p_radius NN st * n2)); reflexivity.
Qed.
