(* SearchFacts.v - PackedState::check_intersection AS A WHOLE, translated from the source text on this run
   (gen_check_intersection: the pre-check, the shell count, the in-cell pair loops with enumerate / skip and the
   image loops, as nested existsb), is the hand-written model's check_intersection. *)
From Coq Require Import ZArith NArith List Bool Lia.
From PV Require Import Num model.Geom model.Iter gen.GenFns.
Import ListNotations.
Local Open Scope num_scope.

Lemma existsb_ext_in {A} (f g : A -> bool) (l : list A) :
  (forall x, In x l -> f x = g x) -> existsb f l = existsb g l.
Proof.
  induction l as [|x l IH]; intros H; [reflexivity|]. cbn [existsb].
  rewrite (H x (or_introl eq_refl)), IH; [reflexivity|]. intros y Hy. apply H. now right.
Qed.

(* for (i, x) in l.enumerate() { for y in l.skip(i + 1) { if f x y { return true } } }  visits every unordered pair once:
   it is the search over the tails of l *)
Lemma pairs_enumerate_skip {A} (f : A -> A -> bool) (pre suf : list A) :
  existsb (fun '(i, x) => orb (existsb (fun y => orb (f x y) false) (skipn (S i) (pre ++ suf))) false)
          (enumerate_from (length pre) suf)
  = existsb (fun xr => existsb (fun y => f (fst xr) y) (snd xr)) (tails suf).
Proof.
  revert pre. induction suf as [|x suf IH]; intros pre; [reflexivity|].
  cbn [enumerate_from existsb tails fst snd].
  rewrite orb_false_r.
  assert (E : skipn (S (length pre)) (pre ++ x :: suf) = suf).
  { replace (S (length pre)) with (length (pre ++ [x])) by (rewrite app_length; cbn; lia).
    replace (pre ++ x :: suf) with ((pre ++ [x]) ++ suf) by (rewrite <- app_assoc; reflexivity).
    rewrite skipn_app, skipn_all, Nat.sub_diag. reflexivity. }
  rewrite E.
  rewrite (existsb_ext_in (fun y => orb (f x y) false) (fun y => f x y)) by (intros; apply orb_false_r).
  f_equal.
  specialize (IH (pre ++ [x])). rewrite app_length in IH. cbn [length] in IH.
  replace (length pre + 1)%nat with (S (length pre)) in IH by lia.
  replace ((pre ++ [x]) ++ suf) with (pre ++ x :: suf) in IH by (rewrite <- app_assoc; reflexivity).
  exact IH.
Qed.

Theorem check_intersection_is_source : forall (NN : Num) (st : pstate NN),
  gen_check_intersection NN st = check_intersection NN st.
Proof.
  intros NN st. unfold gen_check_intersection, check_intersection.
  change ((cell_area NN (p_cell NN st)) <? ((p_area NN st) * (nofZ (total_shapes NN st)))) with (density_precheck NN st).
  f_equal. cbv zeta. f_equal.
  - (* the pairs inside the cell *)
    unfold in_cell_intersection, enumerate.
    set (shapes := map (fun p => shape_transform NN p (p_shape NN st)) (cartesian_positions NN st)).
    change (map (fun p => (fun t => shape_transform NN t (p_shape NN st)) p) (cartesian_positions NN st)) with shapes.
    exact (pairs_enumerate_skip (shape_intersects NN) [] shapes).
  - (* the images *)
    rewrite orb_false_r. unfold periodic_intersection.
    apply existsb_ext_in. intros t1 _.
    rewrite orb_false_r.
    destruct (tf_position NN t1) as [x1 y1] eqn:E1.
    apply existsb_ext_in. intros pos _.
    rewrite orb_false_r.
    apply existsb_ext_in. intros t2 _.
    destruct (tf_position NN t2) as [x2 y2] eqn:E2.
    rewrite !orb_false_r.
    change (shells_of NN st) with (nceilZ ((nofZ 2 * p_radius NN st) / (c_sin NN (p_cell NN st) * nmin (cell_a NN (p_cell NN st)) (cell_b NN (p_cell NN st))))).
    change (sq NN (p_radius NN st * nofZ 2)) with (sq NN (p_radius NN st * n2)).
    destruct (norm2 NN (x1 - x2) (y1 - y2) <=? sq NN (p_radius NN st * n2)); reflexivity.
Qed.

(* ------------------------------------------------------------------ *)
(* PotentialState::score as a whole                                    *)

Lemma fold_left_ext_in {A B} (f g : B -> A -> B) (l : list A) (b : B) :
  (forall acc x, In x l -> f acc x = g acc x) -> fold_left f l b = fold_left g l b.
Proof.
  revert b. induction l as [|x l IH]; intros b H; [reflexivity|]. cbn [fold_left].
  rewrite (H b x (or_introl eq_refl)). apply IH. intros acc y Hy. apply H. now right.
Qed.

Lemma fold_left_map {A B C} (f : C -> B -> C) (g : A -> B) (l : list A) (c : C) :
  fold_left f (map g l) c = fold_left (fun acc x => f acc (g x)) l c.
Proof. revert c. induction l as [|x l IH]; intros c; [reflexivity|]. cbn [map fold_left]. apply IH. Qed.

(* the accumulating double loop over enumerate / skip adds the terms of the model's loop over tails, in the same order *)
Lemma sum_enumerate_skip {A} (NN : Num) (f : A -> A -> carrier NN) (pre suf : list A) (acc : carrier NN) :
  fold_left (fun sum '(i, x) => fold_left (fun sum y => sum + f x y) (skipn (S i) (pre ++ suf)) sum)
            (enumerate_from (length pre) suf) acc
  = fold_left (fun acc0 xr => fold_left (fun acc2 y => acc2 + f (fst xr) y) (snd xr) acc0) (tails suf) acc.
Proof.
  revert pre acc. induction suf as [|x suf IH]; intros pre acc; [reflexivity|].
  cbn [enumerate_from fold_left tails fst snd].
  assert (E : skipn (S (length pre)) (pre ++ x :: suf) = suf).
  { replace (S (length pre)) with (length (pre ++ [x])) by (rewrite app_length; cbn; lia).
    replace (pre ++ x :: suf) with ((pre ++ [x]) ++ suf) by (rewrite <- app_assoc; reflexivity).
    rewrite skipn_app, skipn_all, Nat.sub_diag. reflexivity. }
  rewrite E.
  specialize (IH (pre ++ [x])). rewrite app_length in IH. cbn [length] in IH.
  replace (length pre + 1)%nat with (S (length pre)) in IH by lia.
  replace ((pre ++ [x]) ++ suf) with (pre ++ x :: suf) in IH by (rewrite <- app_assoc; reflexivity).
  apply IH.
Qed.

Theorem lj_score_is_source : forall (NN : Num) (powi : carrier NN -> Z -> carrier NN) (st : ljstate NN),
  gen_lj_score NN powi st = lj_score NN powi st.
Proof.
  intros NN powi st. unfold gen_lj_score, lj_score. cbv zeta. f_equal. f_equal. f_equal.
  unfold lj_sum. cbv zeta.
  set (shapes := map (fun p => map (lj_transform NN p) (l_shape NN st)) (lj_cartesian NN st)).
  change (map (fun p => (fun t => map (lj_transform NN t) (l_shape NN st)) p) (lj_cartesian NN st)) with shapes.
  unfold enumerate.
  pose proof (sum_enumerate_skip NN (ljshape_energy NN powi) [] shapes n0) as H. cbn [app length] in H.
  unfold ljshape in *. rewrite H. clear H.
  apply fold_left_ext_in. intros acc shape1 _.
  apply fold_left_ext_in. intros acc2 pos _.
  rewrite fold_left_map. reflexivity.
Qed.

(* ------------------------------------------------------------------ *)
(* Cell2::periodic_images and OccupiedSite::positions as iterator pipelines                              *)

Lemma filter_ext_in {A} (f g : A -> bool) (l : list A) :
  (forall x, In x l -> f x = g x) -> filter f l = filter g l.
Proof.
  induction l as [|x l IH]; intros H; [reflexivity|]. cbn [filter].
  rewrite (H x (or_introl eq_refl)), IH; [reflexivity|]. intros y Hy. apply H. now right.
Qed.

Theorem periodic_images_is_source : forall (NN : Num) (c : cell NN) (t : tf NN) (k : Z) (zero : bool),
  gen_periodic_images NN c t k zero = periodic_images NN c t k zero.
Proof.
  intros NN c t k zero. unfold gen_periodic_images, periodic_images, shell_indices.
  rewrite (filter_ext_in _ (fun xy => negb (andb (negb zero) (andb (fst xy =? 0)%Z (snd xy =? 0)%Z)))).
  - apply map_ext. intros [x y]. reflexivity.
  - intros [x y] _. cbn [fst snd]. now rewrite andb_assoc.
Qed.

Theorem positions_is_source : forall (NN : Num) (syms : list (tf NN)) (s : site NN),
  gen_positions NN syms s = positions NN syms s.
Proof. intros NN syms s. unfold gen_positions, positions. cbv zeta. now rewrite map_map. Qed.

(* ---- the shape-level overlap tests: iproduct!(self, other).any(|(s, o)| s.intersects(o)) is the model's nested search *)
Lemma existsb_flat_map {A B} (f : B -> bool) (g : A -> list B) (l : list A) :
  existsb f (flat_map g l) = existsb (fun x => existsb f (g x)) l.
Proof.
  induction l as [|x l IH]; [reflexivity|]. cbn [flat_map existsb]. rewrite existsb_app, IH. reflexivity.
Qed.

Lemma existsb_map {A B} (f : B -> bool) (h : A -> B) (l : list A) :
  existsb f (map h l) = existsb (fun x => f (h x)) l.
Proof. induction l as [|x l IH]; [reflexivity|]. cbn [map existsb]. rewrite IH. reflexivity. Qed.

From PV Require Import proofs.SourceFacts.
Section ShapeSearch.
  Variable NN : Num.

  Theorem shape_intersects_is_source : forall (l m : list (seg NN)) (a b : list (disc NN)),
    gen_poly_intersects NN l m = shape_intersects NN (Poly l) (Poly m)
    /\ gen_mol_intersects NN a b = shape_intersects NN (Mol a) (Mol b).
  Proof.
    intros l m a b. unfold gen_poly_intersects, gen_mol_intersects. cbn [shape_intersects].
    rewrite !existsb_flat_map. split.
    - apply existsb_ext_in. intros s _. rewrite existsb_map. apply existsb_ext_in. intros o _. apply seg_intersects_is_source.
    - apply existsb_ext_in. intros s _. rewrite existsb_map. apply existsb_ext_in. intros o _. apply disc_intersects_is_source.
  Qed.
End ShapeSearch.

(* ---- Shape::enclosing_radius as a whole: .map(term).fold(f64::MIN, f64::max) *)
Section RadiusSource.
  Variable NN : Num.
  Theorem enclosing_radius_is_source : forall fmin_ (l : list (seg NN)) (m : list (disc NN)),
    gen_poly_radius NN fmin_ l = poly_radius NN fmin_ l /\ gen_mol_radius NN fmin_ m = mol_radius NN fmin_ m.
  Proof.
    intros fmin_ l m. unfold gen_poly_radius, gen_mol_radius, poly_radius, mol_radius. split.
    - revert fmin_. induction l as [|x l IH]; intros a; [reflexivity|]. cbn [map fold_left]. apply IH.
    - revert fmin_. induction m as [|x m IH]; intros a; [reflexivity|]. cbn [map fold_left]. apply IH.
  Qed.
End RadiusSource.

(* ---- Shape::area as a whole: LineShape (sum over the edges) and MolecularShape2 (discs minus the pairwise lenses over
   itertools' tuple_combinations, which visits the pairs the model's loop over tails visits, in the same order) *)
Lemma fold_left_flat_map {A B C} (f : C -> B -> C) (g : A -> list B) (l : list A) (c : C) :
  fold_left f (flat_map g l) c = fold_left (fun acc x => fold_left f (g x) acc) l c.
Proof.
  revert c. induction l as [|x l IH]; intros c; [reflexivity|]. cbn [flat_map fold_left]. rewrite fold_left_app. apply IH.
Qed.

Section AreaSource.
  Variable NN : Num.
  Notation T := (carrier NN).
  Variable fsin facos : T -> T.
  Variable pi_ : T.

  Theorem poly_area_whole_is_source : forall (l : list (seg NN)),
    gen_poly_area NN fsin pi_ l = poly_area NN (fsin ((n2 * pi_) / nofZ (Z.of_nat (List.length l)))) l.
  Proof.
    intros l. unfold gen_poly_area, poly_area. cbv zeta. rewrite fold_left_map. reflexivity.
  Qed.

  Theorem mol_area_whole_is_source : forall (l : list (disc NN)),
    gen_mol_area NN facos pi_ l = mol_area NN facos pi_ l.
  Proof.
    intros l. unfold gen_mol_area, mol_area. cbv zeta. rewrite !fold_left_map, fold_left_flat_map.
    f_equal. apply fold_left_ext_in. intros acc xr _. rewrite fold_left_map. reflexivity.
  Qed.

  (* LJShape2::energy as a whole: the sum over iproduct!(self, other) of the pair energies, in that order *)
  Variable powi : T -> Z -> T.
  Theorem ljshape_energy_is_source : forall (a b : list (lj NN)),
    gen_ljshape_energy NN powi a b = ljshape_energy NN powi a b.
  Proof.
    intros a b. unfold gen_ljshape_energy, ljshape_energy. rewrite fold_left_map.
    apply fold_left_ext_in. intros acc [s o] _. reflexivity.
  Qed.
End AreaSource.

(* ---- PackedState::total_shapes, relative_positions, cartesian_positions as wholes *)
Section StatePipelines.
  Variable NN : Num.

  Lemma fold_count {A} (n : nat) (l : list A) (acc : N) :
    fold_left (fun sum (_ : A) => N.add sum (N.of_nat n)) l acc = N.add acc (N.of_nat (length l * n)).
  Proof.
    revert acc. induction l as [|x l IH]; intros acc; cbn [fold_left length].
    - cbn. now rewrite N.add_0_r.
    - rewrite IH. cbn [Nat.mul]. rewrite Nat2N.inj_add. lia.
  Qed.

  Theorem total_shapes_is_source : forall st : pstate NN,
    Z.of_N (gen_total_shapes NN st) = total_shapes NN st.
  Proof.
    intros st. unfold gen_total_shapes, total_shapes. rewrite fold_count. cbn [N.add]. rewrite nat_N_Z. reflexivity.
  Qed.

  Theorem state_positions_are_source : forall st : pstate NN,
    gen_relative_positions NN st = relative_positions NN st
    /\ gen_cartesian_positions NN st = cartesian_positions NN st.
  Proof.
    intros st. unfold gen_relative_positions, gen_cartesian_positions, relative_positions, cartesian_positions.
    assert (E : flat_map (gen_positions NN (p_syms NN st)) (p_sites NN st) = flat_map (positions NN (p_syms NN st)) (p_sites NN st)).
    { apply flat_map_ext. intros s. apply positions_is_source. }
    split; [exact E|]. unfold gen_relative_positions. rewrite E. reflexivity.
  Qed.

  Theorem lj_state_pipelines_are_source : forall st : ljstate NN,
    gen_lj_total_shapes NN st = N.of_nat (List.length (l_sites NN st) * List.length (l_syms NN st))
    /\ gen_lj_relative_positions NN st = lj_relative NN st
    /\ gen_lj_cartesian_positions NN st = lj_cartesian NN st.
  Proof.
    intros st. unfold gen_lj_total_shapes, gen_lj_relative_positions, gen_lj_cartesian_positions, lj_relative, lj_cartesian.
    assert (E : flat_map (gen_positions NN (l_syms NN st)) (l_sites NN st) = flat_map (positions NN (l_syms NN st)) (l_sites NN st)).
    { apply flat_map_ext. intros s. apply positions_is_source. }
    split; [rewrite fold_count; reflexivity|]. split; [exact E|]. unfold gen_lj_relative_positions. rewrite E. reflexivity.
  Qed.
End StatePipelines.
