(* SrcShapes.v - src/shape/** as translated from the source on this run are the model's shapes: components, constructors,
   areas, enclosing radii, the shape-level overlap tests and energies. *)
From Coq Require Import ZArith NArith String List Bool Lia.
From PV Require Import Num model.Geom model.Optimiser model.Svg model.Pipeline model.Iter gen.GenFns proofs.ListLemmas.
Import ListNotations.
Local Open Scope num_scope.

(* every function of the source this file is about was translated on this run *)
Theorem shapes_source_translated :
  translated_gen_mol_trimer = true /\
  translated_gen_lj_trimer = true /\
  translated_gen_lj_energy = true /\
  translated_gen_ljshape_energy = true /\
  translated_gen_disc_intersects = true /\
  translated_gen_seg_intersects = true /\
  translated_gen_poly_intersects = true /\
  translated_gen_mol_intersects = true /\
  translated_gen_radial_dtheta = true /\
  translated_gen_radial_edge = true /\
  translated_gen_angle_term = true /\
  translated_gen_poly_term = true /\
  translated_gen_poly_radius_term = true /\
  translated_gen_mol_radius_term = true /\
  translated_gen_poly_radius = true /\
  translated_gen_mol_radius = true /\
  translated_gen_poly_area = true /\
  translated_gen_overlap_area = true /\
  translated_gen_circle_overlap = true /\
  translated_gen_mol_area = true.
Proof. repeat split; reflexivity. Qed.

Section Source.
  Variable NN : Num.
  Notation T := (carrier NN).
  Variable fexp facos : T -> T.
  Variable fpow : T -> T -> T.
  Variable powi : T -> Z -> T.

  (* ---- src/shape/components *)
  Theorem lj_energy_is_source : forall a b, gen_lj_energy NN powi a b = lj_energy NN powi a b.
  Proof. reflexivity. Qed.

  Theorem disc_intersects_is_source : forall a b, gen_disc_intersects NN a b = disc_intersects NN a b.
  Proof. reflexivity. Qed.

  Theorem seg_intersects_is_source : forall s o, gen_seg_intersects NN s o = seg_intersects NN s o.
  Proof.
    intros s o. unfold gen_seg_intersects, seg_intersects.
    destruct (_ =? n0); [reflexivity|]. cbv zeta.
    match goal with |- (if ?c then true else false) = ?d => replace d with c; [destruct c; reflexivity|] end.
    rewrite <- !andb_assoc. reflexivity.
  Qed.

  (* ---- src/shape/line_shape.rs: the area is the sum, in order, of one term per edge *)
  Theorem poly_area_is_source : forall angle_term l,
    poly_area NN angle_term l = fold_left (fun acc p => acc + gen_poly_term NN angle_term p) l n0.
  Proof. reflexivity. Qed.

  Theorem angle_term_is_source : forall fsin pi_ l,
    gen_angle_term NN fsin pi_ l = fsin ((n2 * pi_) / nofZ (Z.of_nat (List.length l))).
  Proof. reflexivity. Qed.

  (* the enclosing radius: the largest term, folded from f64::MIN with f64::max *)
  Theorem poly_radius_is_source : forall fmin_ l,
    poly_radius NN fmin_ l = fold_left (fun acc p => nmax acc (gen_poly_radius_term NN p)) l fmin_.
  Proof. reflexivity. Qed.

  Theorem mol_radius_is_source : forall fmin_ l,
    mol_radius NN fmin_ l = fold_left (fun acc p => nmax acc (gen_mol_radius_term NN p)) l fmin_.
  Proof. reflexivity. Qed.

  (* ---- src/shape/line_shape.rs: from_radial's angular step and the edge it pushes for (index, (r1, r2)) *)
  Theorem radial_edge_is_source : forall fsin fcos dtheta index r1 r2,
    gen_radial_edge NN fsin fcos dtheta index r1 r2 = radial_edge NN fsin fcos dtheta index r1 r2.
  Proof. reflexivity. Qed.

  Theorem from_radial_is_source : forall fsin fcos pi_ points,
    from_radial NN pi_ fsin fcos points
    = map (fun ir => gen_radial_edge NN fsin fcos (gen_radial_dtheta NN pi_ points) (fst ir) (fst (snd ir)) (snd (snd ir)))
          (combine (seq 0 (List.length points)) (combine points (rotate1 points))).
  Proof. reflexivity. Qed.

  (* ---- src/shape/molecular_shape2.rs *)
  Theorem mol_trimer_is_source : forall fsin fcos pi_ radius angle distance,
    gen_mol_trimer NN fsin fcos pi_ radius angle distance = mol_trimer NN pi_ fsin fcos radius angle distance.
  Proof. reflexivity. Qed.

  (* ---- src/shape/lj_shape.rs: LJShape2::from_trimer (three particles, sigma = 2 r, epsilon from Default, cutoff 3.5) *)
  Theorem lj_trimer_is_source : forall fsin fcos pi_ radius angle distance,
    gen_lj_trimer NN fsin fcos pi_ radius angle distance = lj_trimer NN pi_ fsin fcos (nofZ 7 / nofZ 2) radius angle distance.
  Proof. reflexivity. Qed.

  Theorem overlap_area_is_source : forall r d, gen_overlap_area NN facos r d = overlap_area NN facos r d.
  Proof. reflexivity. Qed.

  Theorem circle_overlap_is_source : forall a b, gen_circle_overlap NN facos a b = circle_overlap NN facos a b.
  Proof. reflexivity. Qed.

End Source.

Section ShapeSearch.
  Variable NN : Num.

  Theorem shape_intersects_is_source : forall (l m : list (seg NN)) (a b : list (disc NN)),
    gen_poly_intersects NN l m = shape_intersects NN (Poly l) (Poly m)
    /\ gen_mol_intersects NN a b = shape_intersects NN (Mol a) (Mol b).
  Proof.
    intros l m a b. unfold gen_poly_intersects, gen_mol_intersects. cbn [shape_intersects].
    rewrite !existsb_flat_map. split.
    - apply existsb_ext_in. intros s _. rewrite existsb_map. apply existsb_ext_in. intros o _. apply seg_intersects_is_source.
    - apply existsb_ext_in. intros s _. rewrite existsb_map. apply existsb_ext_in. intros o _. apply disc_intersects_is_source.
  Qed.
End ShapeSearch.

(* ---- Shape::enclosing_radius as a whole: .map(term).fold(f64::MIN, f64::max) *)
Section RadiusSource.
  Variable NN : Num.
  Theorem enclosing_radius_is_source : forall fmin_ (l : list (seg NN)) (m : list (disc NN)),
    gen_poly_radius NN fmin_ l = poly_radius NN fmin_ l /\ gen_mol_radius NN fmin_ m = mol_radius NN fmin_ m.
  Proof.
    intros fmin_ l m. unfold gen_poly_radius, gen_mol_radius, poly_radius, mol_radius. split.
    - revert fmin_. induction l as [|x l IH]; intros a; [reflexivity|]. cbn [map fold_left]. apply IH.
    - revert fmin_. induction m as [|x m IH]; intros a; [reflexivity|]. cbn [map fold_left]. apply IH.
  Qed.
End RadiusSource.

Section AreaSource.
  Variable NN : Num.
  Notation T := (carrier NN).
  Variable fsin facos : T -> T.
  Variable pi_ : T.

  Theorem poly_area_whole_is_source : forall (l : list (seg NN)),
    gen_poly_area NN fsin pi_ l = poly_area NN (fsin ((n2 * pi_) / nofZ (Z.of_nat (List.length l)))) l.
  Proof.
    intros l. unfold gen_poly_area, poly_area. cbv zeta. rewrite fold_left_map. reflexivity.
  Qed.

  Theorem mol_area_whole_is_source : forall (l : list (disc NN)),
    gen_mol_area NN facos pi_ l = mol_area NN facos pi_ l.
  Proof.
    intros l. unfold gen_mol_area, mol_area. cbv zeta. rewrite !fold_left_map, fold_left_flat_map.
    f_equal. apply fold_left_ext_in. intros acc xr _. rewrite fold_left_map. reflexivity.
  Qed.

  (* LJShape2::energy as a whole: the sum over iproduct!(self, other) of the pair energies, in that order *)
  Variable powi : T -> Z -> T.
  Theorem ljshape_energy_is_source : forall (a b : list (lj NN)),
    gen_ljshape_energy NN powi a b = ljshape_energy NN powi a b.
  Proof.
    intros a b. unfold gen_ljshape_energy, ljshape_energy. rewrite fold_left_map.
    apply fold_left_ext_in. intros acc [s o] _. reflexivity.
  Qed.
End AreaSource.

