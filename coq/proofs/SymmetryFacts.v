(* SymmetryFacts.v - C04: every crystal has the symmetry of its group.  Over the reals, for ALL site
   coordinates, site rotations (any 2x2 matrix in fact) and cells of the group's crystal family:
   every operation of the group, expressed in Cartesian space, is a rigid motion or reflection and
   maps the set of placements onto itself up to lattice translations - placement b goes to
   placement c = a o b translated by an integer combination of A and B, with the SAME linear part
   (orientation and handedness).  The group tables enter through the independent specification
   (model/Spec.v), which C16 proves equal to the code's regenerated tables. *)
From Coq Require Import ZArith QArith List Bool Reals Lra Lia.
From PV Require Import Num NumR model.Tables model.Spec model.Geom proofs.LatticeFacts proofs.SiteFacts.
Import ListNotations.
Local Open Scope R_scope.

(* operations with translations in halves: (L, z/2) *)
Record hop := mkH { h00 : Z; h01 : Z; h10 : Z; h11 : Z; hz0 : Z; hz1 : Z }.

Definition twice (q : Q) : option Z :=
  let d := Qred (q * 2) in if Qis_int d then Some (Qnum d / Zpos (Qden d))%Z else None.

Definition hop_of_sop (o : sop) : option hop :=
  match twice (st0 o), twice (st1 o) with
  | Some z0, Some z1 => Some (mkH (s00 o) (s01 o) (s10 o) (s11 o) z0 z1)
  | _, _ => None
  end.

(* the symmetry matrix as the parser produces it (bottom row zero) *)
Definition tf_of_hop (h : hop) : tfR :=
  @mkTf NumR (IZR (h00 h)) (IZR (h01 h)) (IZR (hz0 h) / 2) (IZR (h10 h)) (IZR (h11 h)) (IZR (hz1 h) / 2) 0 0 0.

Lemma tf_of_hop_sym_row h : sym_row (tf_of_hop h).
Proof. repeat split. Qed.

(* c = a o b modulo lattice translations, as a check on integers *)
Definition hclosed (a b c : hop) : bool :=
  ((h00 a * h00 b + h01 a * h10 b =? h00 c) && (h00 a * h01 b + h01 a * h11 b =? h01 c)
   && (h10 a * h00 b + h11 a * h10 b =? h10 c) && (h10 a * h01 b + h11 a * h11 b =? h11 c)
   && ((h00 a * hz0 b + h01 a * hz1 b + hz0 a - hz0 c) mod 2 =? 0)
   && ((h10 a * hz0 b + h11 a * hz1 b + hz1 a - hz1 c) mod 2 =? 0))%Z%bool.

(* L is +-identity (commutes with every cell) / diagonal with entries +-1 (commutes with rectangular cells) *)
Definition h_pm_identity (a : hop) : bool :=
  ((h01 a =? 0) && (h10 a =? 0) && (h00 a * h00 a =? 1) && (h00 a =? h11 a))%Z%bool.
Definition h_diag_pm1 (a : hop) : bool :=
  ((h01 a =? 0) && (h10 a =? 0) && (h00 a * h00 a =? 1) && (h11 a * h11 a =? 1))%Z%bool.

(* ------------------------------------------------------------------ *)
(* affine maps acting on placements                                    *)

(* G o P as affine maps of the plane: x |-> G_lin (P_lin x + P_t) + G_t ; bottom row of P kept *)
Definition aff_comp (G P : tfR) : tfR :=
  @mkTf NumR (a00 NumR G * a00 NumR P + a01 NumR G * a10 NumR P) (a00 NumR G * a01 NumR P + a01 NumR G * a11 NumR P)
        (a00 NumR G * a02 NumR P + a01 NumR G * a12 NumR P + a02 NumR G)
        (a10 NumR G * a00 NumR P + a11 NumR G * a10 NumR P) (a10 NumR G * a01 NumR P + a11 NumR G * a11 NumR P)
        (a10 NumR G * a02 NumR P + a11 NumR G * a12 NumR P + a12 NumR G)
        (a20 NumR P) (a21 NumR P) (a22 NumR P).

(* it really is the composition: placing a point with P and then moving it with G *)
Lemma aff_comp_apply (G P : tfR) v : affine_row G -> affine_row P ->
  tf_apply NumR G (tf_apply NumR P v) = tf_apply NumR (aff_comp G P) v.
Proof.
  intros HG HP. destruct v as [vx vy].
  assert (HGP : affine_row (aff_comp G P)) by exact HP.
  rewrite (tf_apply_affine P vx vy HP), (tf_apply_affine G _ _ HG), (tf_apply_affine _ vx vy HGP).
  unfold aff_comp. cbn [a00 a01 a02 a10 a11 a12].
  destruct G as [g00 g01 g02 g10 g11 g12 g20 g21 g22], P as [p00 p01 p02 p10 p11 p12 p20 p21 p22].
  cbn [a00 a01 a02 a10 a11 a12]. change (carrier NumR) with R in *. apply (f_equal2 pair); ring.
Qed.

(* the operation a in Cartesian space for the cell c: x |-> L_a x + C t_a *)
Definition cart_op (c : cellR) (a : hop) : tfR :=
  let t := to_cartesian NumR c (IZR (hz0 a) / 2, IZR (hz1 a) / 2) in
  @mkTf NumR (IZR (h00 a)) (IZR (h01 a)) (fst t) (IZR (h10 a)) (IZR (h11 a)) (snd t) 0 0 1.

(* the crystal family: oblique cells are arbitrary, rectangular cells have cos(angle) = 0 *)
Definition cell_of_family (f : family) (c : cellR) : Prop :=
  match f with
  | Monoclinic => True
  | Orthorhombic => c_cos NumR c = 0
  | _ => False
  end.
Definition lin_ok (f : family) (a : hop) : bool :=
  match f with Monoclinic => h_pm_identity a | Orthorhombic => h_diag_pm1 a | _ => false end.

Lemma Zsq1 (a : Z) : (a * a = 1)%Z -> a = 1%Z \/ a = (-1)%Z.
Proof. intros H. nia. Qed.

(* C04: each operation is a rigid motion or reflection: its Cartesian linear part is orthogonal *)
Theorem cart_op_is_isometry f a (c : cellR) : lin_ok f a = true ->
  let G := cart_op c a in
  a00 NumR G * a00 NumR G + a10 NumR G * a10 NumR G = 1
  /\ a00 NumR G * a01 NumR G + a10 NumR G * a11 NumR G = 0
  /\ a01 NumR G * a01 NumR G + a11 NumR G * a11 NumR G = 1.
Proof.
  intros H. cbv zeta. unfold cart_op. cbn [a00 a01 a10 a11].
  assert (Hd : h_diag_pm1 a = true).
  { destruct f; try discriminate; cbn in H; [|exact H].
    unfold h_pm_identity in H. unfold h_diag_pm1.
    repeat (apply andb_prop in H; destruct H as [H ?]).
    repeat match goal with E : (_ =? _)%Z = true |- _ => apply Z.eqb_eq in E end.
    rewrite !andb_true_iff, !Z.eqb_eq. repeat split; try assumption. congruence. }
  unfold h_diag_pm1 in Hd. repeat (apply andb_prop in Hd; destruct Hd as [Hd ?]).
  repeat match goal with E : (_ =? _)%Z = true |- _ => apply Z.eqb_eq in E end.
  destruct a as [x00 x01 x10 x11 z0 z1]. cbn [h00 h01 h10 h11] in *. subst x01 x10.
  destruct (Zsq1 x00) as [-> | ->]; [assumption| |];
    (destruct (Zsq1 x11) as [-> | ->]; [assumption| |]); simpl; repeat split; ring.
Qed.

(* wrap as an integer shift *)
Lemma wrap_shift x : exists k : Z, wrapR x = x + IZR k.
Proof. destruct (wrap_spec x) as [_ [k Hk]]. exists k. lra. Qed.

Lemma even_half (z : Z) : (z mod 2 = 0)%Z -> exists k : Z, IZR z / 2 = IZR k.
Proof.
  intros H. exists (z / 2)%Z. rewrite (Z.div_mod z 2) at 1 by lia. rewrite H, Z.add_0_r, mult_IZR. simpl. field.
Qed.

(* C04, the heart: in Cartesian space operation a maps placement b onto placement c (= a o b modulo
   the lattice) translated by n A + m B, linear part included *)
Theorem op_maps_placement f (a b c : hop) (cl : cellR) (s : siteR) :
  hclosed a b c = true -> lin_ok f a = true -> cell_of_family f cl ->
  exists n m : Z,
    aff_comp (cart_op cl a) (to_cartesian_isometry NumR cl (placement (tf_of_hop b) s))
    = tf_translate (to_cartesian_isometry NumR cl (placement (tf_of_hop c) s)) (lattice_vec cl n m).
Proof.
  intros Hcl Hlin Hfam.
  unfold hclosed in Hcl. repeat (apply andb_prop in Hcl; destruct Hcl as [Hcl ?]).
  repeat match goal with E : (_ =? _)%Z = true |- _ => apply Z.eqb_eq in E end.
  rename H into E1, H0 into E0, H1 into L11, H2 into L10, H3 into L01, Hcl into L00.
  destruct (placement_spec (tf_of_hop b) s (tf_of_hop_sym_row b)) as (B00 & B01 & B10 & B11 & B02 & B12 & Brow).
  destruct (placement_spec (tf_of_hop c) s (tf_of_hop_sym_row c)) as (C00 & C01 & C10 & C11 & C02 & C12 & Crow).
  set (pb := placement (tf_of_hop b) s) in *. set (pc := placement (tf_of_hop c) s) in *.
  assert (Ab : affine_row pb) by (destruct Brow as (? & ? & ?); repeat split; auto).
  assert (Ac : affine_row pc) by (destruct Crow as (? & ? & ?); repeat split; auto).
  cbn [tf_of_hop a00 a01 a02 a10 a11 a12] in B00, B01, B10, B11, B02, B12, C00, C01, C10, C11, C02, C12.
  destruct (wrap_shift (IZR (h00 b) * s_x NumR s + IZR (h01 b) * s_y NumR s + IZR (hz0 b) / 2)) as [kb0 Kb0].
  destruct (wrap_shift (IZR (h10 b) * s_x NumR s + IZR (h11 b) * s_y NumR s + IZR (hz1 b) / 2)) as [kb1 Kb1].
  destruct (wrap_shift (IZR (h00 c) * s_x NumR s + IZR (h01 c) * s_y NumR s + IZR (hz0 c) / 2)) as [kc0 Kc0].
  destruct (wrap_shift (IZR (h10 c) * s_x NumR s + IZR (h11 c) * s_y NumR s + IZR (hz1 c) / 2)) as [kc1 Kc1].
  rewrite Kb0 in B02. rewrite Kb1 in B12. rewrite Kc0 in C02. rewrite Kc1 in C12.
  destruct (even_half _ E0) as [e0 He0]. destruct (even_half _ E1) as [e1 He1].
  rewrite !minus_IZR, !plus_IZR, !mult_IZR in He0, He1.
  (* the integer shift: L_a k_b + e - k_c *)
  exists (h00 a * kb0 + h01 a * kb1 + e0 - kc0)%Z, (h10 a * kb0 + h11 a * kb1 + e1 - kc1)%Z.
  unfold aff_comp, tf_translate, to_cartesian_isometry, cart_op, lattice_vec.
  rewrite (tf_position_affine pb Ab), (tf_position_affine pc Ac).
  rewrite !to_cartesian_R. unfold tf_set_position. cbn [a00 a01 a02 a10 a11 a12 a20 a21 a22 fst snd].
  rewrite B00, B01, B10, B11, B02, B12, C00, C01, C10, C11, C02, C12.
  rewrite <- L00, <- L01, <- L10, <- L11.
  rewrite !minus_IZR, !plus_IZR, !mult_IZR.
  destruct Brow as (Br0 & Br1 & Br2), Crow as (Cr0 & Cr1 & Cr2). rewrite Br0, Br1, Br2, Cr0, Cr1, Cr2.
  (* the linear part of a commutes with the cell matrix *)
  assert (Hd : h01 a = 0%Z /\ h10 a = 0%Z
               /\ (IZR (h00 a) = IZR (h11 a) \/ c_cos NumR cl = 0)).
  { destruct f; try discriminate; cbn in Hlin, Hfam.
    - unfold h_pm_identity in Hlin. repeat (apply andb_prop in Hlin; destruct Hlin as [Hlin ?]).
      repeat match goal with E : (_ =? _)%Z = true |- _ => apply Z.eqb_eq in E end.
      repeat split; auto. left. congruence.
    - unfold h_diag_pm1 in Hlin. repeat (apply andb_prop in Hlin; destruct Hlin as [Hlin ?]).
      repeat match goal with E : (_ =? _)%Z = true |- _ => apply Z.eqb_eq in E end.
      repeat split; auto. }
  destruct Hd as (Z01 & Z10 & Hcomm). rewrite Z01, Z10 in *.
  unfold vecA, vecB. cbn [fst snd].
  destruct s as [x y cs sn]. cbn [s_x s_y s_cos s_sin] in *.
  destruct cl as [len ratio cc ss]. cbn [c_len c_ratio c_cos c_sin] in *.
  change (carrier NumR) with R in *.
  destruct Hcomm as [Hc | Hc].
  - rewrite <- Hc in *. f_equal; nra.
  - subst cc. f_equal; nra.
Qed.

(* ------------------------------------------------------------------ *)
(* ... for the seven groups: the closure table is decided by computation *)

Definition hops (g : spec_group) : option (list hop) := all_some (map hop_of_sop (sg_ops g)).

Definition group_acts (g : spec_group) : bool :=
  match hops g with
  | None => false
  | Some hs =>
      (forallb (lin_ok (sg_family g)) hs
       && forallb (fun a => forallb (fun b => existsb (fun c => hclosed a b c) hs) hs) hs)%bool
  end.

Theorem all_groups_act : forallb group_acts ita = true.
Proof. vm_compute. reflexivity. Qed.

(* C04: for every group of the specification, every operation a and every placement b there is a
   placement c that a maps b onto, for all cells of the family and all sites *)
Theorem placements_closed_under_group :
  forall g, In g ita -> forall hs, hops g = Some hs ->
  forall a, In a hs -> forall b, In b hs -> exists c, In c hs /\
  forall (cl : cellR) (s : siteR), cell_of_family (sg_family g) cl ->
  exists n m : Z,
    aff_comp (cart_op cl a) (to_cartesian_isometry NumR cl (placement (tf_of_hop b) s))
    = tf_translate (to_cartesian_isometry NumR cl (placement (tf_of_hop c) s)) (lattice_vec cl n m).
Proof.
  intros g Hg hs Hhs a Ha b Hb.
  pose proof all_groups_act as H. rewrite forallb_forall in H. specialize (H g Hg).
  unfold group_acts in H. rewrite Hhs in H. apply andb_prop in H. destruct H as [Hlin Hcl].
  rewrite forallb_forall in Hlin, Hcl. specialize (Hcl a Ha). rewrite forallb_forall in Hcl.
  specialize (Hcl b Hb). apply existsb_exists in Hcl. destruct Hcl as (c & Hc & Habc).
  exists c. split; [exact Hc|]. intros cl s Hfam.
  apply (op_maps_placement (sg_family g) a b c cl s Habc (Hlin a Ha) Hfam).
Qed.

(* the symmetry matrices of the specification, as tf, are those of the hop form (translations are halves) *)
Theorem hops_defined : forallb (fun g => match hops g with Some hs => Nat.eqb (length hs) (sg_order g) | None => false end) ita = true.
Proof. vm_compute. reflexivity. Qed.

(* what goes wrong outside the family: for a mirror (x -> -x) in a cell with cos <> 0 the image of the
   point C(0, y) under the fractional mirror differs from the Cartesian mirror by 2 b cos y *)
Theorem mirror_defect_formula (cl : cellR) (y : R) :
  let p := to_cartesian NumR cl (0, y) in
  fst (to_cartesian NumR cl (- 0, y)) - (- fst p) = 2 * (c_len NumR cl * c_ratio NumR cl * c_cos NumR cl) * y.
Proof. cbv zeta. rewrite !to_cartesian_R. unfold vecA, vecB. cbn [fst snd]. ring. Qed.
