(* OriginShift.v - C03: the Lennard-Jones score is a property of the crystal, not of its description.
   Two descriptions whose placements have the same orientations and whose fractional positions differ by one
   common vector h modulo whole lattice vectors (the same crystal with the origin moved by h) have the same
   score - for a cut potential whose range fits inside three shells and a molecule of like particles.
   The in-cell / image split of the pairs differs between the descriptions (a pair that is "in the cell" in one is
   an image pair in the other); the proof goes through the total over ordered pairs and a re-indexing of the
   lattice window. *)
From Coq Require Import ZArith List Bool Reals Lra Lia Psatz Permutation.
From PV Require Import Num NumR model.Geom proofs.RealFacts proofs.LatticeFacts proofs.SiteFacts
  proofs.OverlapFacts proofs.PackingFacts proofs.LJFacts proofs.LatticeSumFacts.
Import ListNotations.
Local Open Scope R_scope.

(* ------------------------------------------------------------------ *)
(* windows                                                             *)

Lemma rsum_cons_perm (g : Z * Z -> R) (l m : list (Z * Z)) : Permutation l m -> rsum (map g l) = rsum (map g m).
Proof. intros H. apply rsum_perm. now apply Permutation_map. Qed.

(* the full window is the origin plus the punctured window *)
Lemma window_with_origin (g : Z * Z -> R) (k : Z) : (0 <= k)%Z ->
  rsum (map g (shell_indices k true)) = g (0, 0)%Z + rsum (map g (shell_indices k false)).
Proof.
  intros Hk.
  destruct (shell_indices_spec k true Hk) as (St & Nt & _).
  destruct (shell_indices_spec k false Hk) as (Sf & Nf & _).
  change (g (0, 0)%Z + rsum (map g (shell_indices k false))) with (rsum (map g ((0, 0)%Z :: shell_indices k false))).
  apply rsum_cons_perm. apply NoDup_Permutation; [exact Nt| |].
  - constructor; [|exact Nf]. intros H. apply Sf in H. destruct H as (_ & _ & [H|H]); [discriminate|now apply H].
  - intros [n m]. rewrite St. cbn [In]. rewrite Sf. split.
    + intros (H1 & H2 & _). destruct (Z.eq_dec n 0) as [->|Hn]; [destruct (Z.eq_dec m 0) as [->|Hm]|].
      * now left.
      * right. repeat split; try lia. right. intros E. injection E. lia.
      * right. repeat split; try lia. right. intros E. injection E. lia.
    + intros [E|(H1 & H2 & _)]; [injection E as <- <-; repeat split; try lia; try now left|].
      repeat split; try lia; try now left.
Qed.

Definition in3 (xy : Z * Z) : bool := ((-3 <=? fst xy) && (fst xy <=? 3) && (-3 <=? snd xy) && (snd xy <=? 3))%Z%bool.

(* a window of k >= 4 shells shifted by at most one cell still contains the three inner shells *)
Lemma shifted_window_sum (f : Z * Z -> R) (k dx dy : Z) : (4 <= k)%Z -> (-1 <= dx <= 1)%Z -> (-1 <= dy <= 1)%Z ->
  (forall n m, (3 < Z.abs n \/ 3 < Z.abs m)%Z -> f (n, m) = 0) ->
  rsum (map (fun nm => f (fst nm + dx, snd nm + dy)%Z) (shell_indices k true)) = rsum (map f (shell_indices 3 true)).
Proof.
  intros Hk Hdx Hdy Hz.
  destruct (shell_indices_spec k true) as (Sk & Nk & _); [lia|].
  destruct (shell_indices_spec 3 true) as (S3 & N3 & _); [lia|].
  set (sh := fun nm : Z * Z => (fst nm + dx, snd nm + dy)%Z).
  change (map (fun nm => f (fst nm + dx, snd nm + dy)%Z) (shell_indices k true)) with (map (fun nm => f (sh nm)) (shell_indices k true)).
  rewrite <- (map_map sh f).
  rewrite (rsum_filter_zero f in3).
  - apply rsum_cons_perm. apply NoDup_Permutation; [apply NoDup_filter| exact N3|].
    + apply FinFun.Injective_map_NoDup; [|exact Nk]. intros [a b] [c d] E. unfold sh in E. cbn [fst snd] in E.
      injection E as E1 E2. f_equal; lia.
    + intros [n m]. rewrite filter_In, in_map_iff, S3. unfold in3. cbn [fst snd].
      rewrite !andb_true_iff, !Z.leb_le. split.
      * intros [_ H]. repeat split; try lia; try now left.
      * intros (H1 & H2 & _). split; [|lia]. exists (n - dx, m - dy)%Z. unfold sh. cbn [fst snd]. split; [f_equal; lia|].
        apply Sk. repeat split; try lia; try now left.
  - intros [n m] _ Hf. apply Hz. unfold in3 in Hf. cbn [fst snd] in Hf. rewrite !andb_false_iff, !Z.leb_gt in Hf. lia.
Qed.

Lemma window_sum_true (g : Z * Z -> R) (k : Z) : (3 <= k)%Z ->
  (forall n m, (3 < Z.abs n \/ 3 < Z.abs m)%Z -> g (n, m) = 0) ->
  rsum (map g (shell_indices k true)) = rsum (map g (shell_indices 3 true)).
Proof.
  intros Hk Hz. rewrite !window_with_origin by lia. f_equal. apply window_sum; assumption.
Qed.

(* ------------------------------------------------------------------ *)
(* the pair energy under a change of description                       *)

Section Shift.
  Variable c : cellR.
  Variable S : list ljR.
  Let E : list ljR -> list ljR -> R := ljshape_energy NumR rpowi.

  Definition placedS (t : tfR) : list ljR := map (lj_transform NumR t) S.

  (* energy between copy p (in the cell) and image (n, m) of copy q *)
  Definition F (p q : tfR) (nm : Z * Z) : R :=
    E (placedS (to_cartesian_isometry NumR c p)) (placedS (to_cartesian_translate NumR c q (fst nm) (snd nm))).

  (* p' is the placement p with the origin moved by h, brought back into the cell by the lattice vector (dx, dy) *)
  Definition moved (h : R * R) (p p' : tfR) (dx dy : Z) : Prop :=
    affine_row p /\ affine_row p'
    /\ a00 NumR p' = a00 NumR p /\ a01 NumR p' = a01 NumR p /\ a10 NumR p' = a10 NumR p /\ a11 NumR p' = a11 NumR p
    /\ a02 NumR p' = a02 NumR p + fst h - IZR dx /\ a12 NumR p' = a12 NumR p + snd h - IZR dy.

  Lemma atom_iso (p : tfR) (a : ljR) : affine_row p ->
    lj_transform NumR (to_cartesian_isometry NumR c p) a
    = @mkLj NumR (a00 NumR p * lx NumR a + a01 NumR p * ly NumR a + (a02 NumR p * fst (vecA c) + a12 NumR p * fst (vecB c)))
                 (a10 NumR p * lx NumR a + a11 NumR p * ly NumR a + (a02 NumR p * snd (vecA c) + a12 NumR p * snd (vecB c)))
                 (lsigma NumR a) (leps NumR a) (lcut NumR a).
  Proof.
    intros Ha. unfold lj_transform, to_cartesian_isometry. rewrite (tf_position_affine p Ha), to_cartesian_R.
    rewrite tf_apply_affine by (apply set_position_affine; exact Ha). reflexivity.
  Qed.

  Lemma atom_img (q : tfR) (n m : Z) (b : ljR) : affine_row q ->
    lj_transform NumR (to_cartesian_translate NumR c q n m) b
    = @mkLj NumR (a00 NumR q * lx NumR b + a01 NumR q * ly NumR b
                  + ((a02 NumR q + IZR n) * fst (vecA c) + (a12 NumR q + IZR m) * fst (vecB c)))
                 (a10 NumR q * lx NumR b + a11 NumR q * ly NumR b
                  + ((a02 NumR q + IZR n) * snd (vecA c) + (a12 NumR q + IZR m) * snd (vecB c)))
                 (lsigma NumR b) (leps NumR b) (lcut NumR b).
  Proof.
    intros Ha. unfold lj_transform, to_cartesian_translate. rewrite (tf_position_affine q Ha).
    cbn [nadd nofZ NumR]. rewrite to_cartesian_R.
    rewrite tf_apply_affine by (apply set_position_affine; exact Ha). reflexivity.
  Qed.

  Lemma F_pairs (p q : tfR) (nm : Z * Z) :
    F p q nm = rsum (map (fun a => rsum (map (fun b =>
        energy (lj_transform NumR (to_cartesian_isometry NumR c p) a)
               (lj_transform NumR (to_cartesian_translate NumR c q (fst nm) (snd nm)) b)) S)) S).
  Proof. unfold F, E, placedS. rewrite molecule_energy_is_pair_sum, map_map. apply rsum_map_ext_in. intros a _. now rewrite map_map. Qed.

  Lemma F_moved (h : R * R) (p p' q q' : tfR) (dxp dyp dxq dyq n m : Z) :
    moved h p p' dxp dyp -> moved h q q' dxq dyq ->
    F p' q' (n, m) = F p q (n + dxp - dxq, m + dyp - dyq)%Z.
  Proof.
    intros (Ap & Ap' & P00 & P01 & P10 & P11 & P02 & P12) (Aq & Aq' & Q00 & Q01 & Q10 & Q11 & Q02 & Q12).
    rewrite !F_pairs. cbn [fst snd]. apply rsum_map_ext_in. intros a _. apply rsum_map_ext_in. intros b _.
    rewrite (atom_iso p' a Ap'), (atom_iso p a Ap), (atom_img q' n m b Aq'), (atom_img q _ _ b Aq).
    apply lj_distance_only; try reflexivity.
    unfold r2_of. cbn [lx ly]. rewrite P00, P01, P10, P11, P02, P12, Q00, Q01, Q10, Q11, Q02, Q12.
    rewrite !minus_IZR, !plus_IZR. f_equal; f_equal; ring.
  Qed.
End Shift.

(* ------------------------------------------------------------------ *)
(* the score through the total over ordered pairs                      *)

Definition like (S : list ljR) : Prop :=
  forall a b, In a S -> In b S -> lsigma NumR a = lsigma NumR b /\ leps NumR a = leps NumR b /\ lcut NumR a = lcut NumR b.

Lemma placed_symmetric (S : list ljR) (t1 t2 : tfR) : like S ->
  ljshape_energy NumR rpowi (placedS S t1) (placedS S t2) = ljshape_energy NumR rpowi (placedS S t2) (placedS S t1).
Proof.
  intros Hl. apply molecule_energy_symmetric_like. intros s o Hs Ho.
  unfold placedS in Hs, Ho. apply in_map_iff in Hs, Ho. destruct Hs as (a & <- & Ha), Ho as (b & <- & Hb).
  destruct (Hl a b Ha Hb) as (E1 & E2 & E3).
  apply lj_symmetric_like; unfold lj_transform; destruct (tf_apply NumR _ _), (tf_apply NumR _ _); cbn [lsigma leps lcut]; assumption.
Qed.

Lemma image_zero (c : cellR) (q : tfR) : affine_row q -> to_cartesian_translate NumR c q 0 0 = to_cartesian_isometry NumR c q.
Proof.
  intros Ha. rewrite (image_is_translate c q 0 0 Ha). unfold tf_translate, lattice_vec, tf_set_position.
  cbn [fst snd]. destruct (to_cartesian_isometry NumR c q) as [t00 t01 t02 t10 t11 t12 t20 t21 t22].
  cbn [a00 a01 a02 a10 a11 a12 a20 a21 a22]. f_equal; ring.
Qed.

Definition Tot (c : cellR) (S : list ljR) (Rs : list tfR) (k : Z) : R :=
  rsum (map (fun p => rsum (map (fun q => rsum (map (F c S p q) (shell_indices k true))) Rs)) Rs)
  - rsum (map (fun p => F c S p p (0, 0)%Z) Rs).

Lemma rsum_scale {A} (f : A -> R) (l : list A) (k : R) : rsum (map (fun x => k * f x) l) = k * rsum (map f l).
Proof. induction l as [|x l IH]; cbn [map rsum]; [ring|]. rewrite IH. ring. Qed.

Section Total.
  Variable st : ljstateR.
  Variables X rho : R.
  Hypothesis Hwf : lj_wf st X rho.
  Hypothesis Hlike : like (l_shape NumR st).
  Let c := l_cell NumR st.
  Let S := l_shape NumR st.
  Let Rl := lj_relative NumR st.

  Lemma affine_rel p : In p Rl -> affine_row p.
  Proof. intros H. now destruct (rel_spec st X rho Hwf p H). Qed.

  (* in-cell pairs once + half the image pairs = half the total over ordered pairs *)
  Theorem score_through_total (k : Z) : (3 <= k)%Z ->
    lj_score NumR rpowi st = Some (- (/ 2 * Tot c S Rl k) / INR (lj_copies st)).
  Proof.
    intros Hk. rewrite (lj_score_is_infinite_lattice_sum st X rho Hwf k Hk). do 2 f_equal. f_equal.
    (* the in-cell part *)
    set (shapes := map (fun p => map (lj_transform NumR p) S) (lj_cartesian NumR st)).
    assert (Hsym : forall x y, In x shapes -> In y shapes ->
               ljshape_energy NumR rpowi x y = ljshape_energy NumR rpowi y x).
    { intros x y Hx Hy. unfold shapes in Hx, Hy. apply in_map_iff in Hx, Hy.
      destruct Hx as (t1 & <- & _), Hy as (t2 & <- & _). apply (placed_symmetric S t1 t2 Hlike). }
    set (SS := rsum (map (fun x : list ljR => rsum (map (fun y : list ljR => ljshape_energy NumR rpowi x y) shapes)) shapes)).
    set (DD := rsum (map (fun x : list ljR => ljshape_energy NumR rpowi x x) shapes)).
    assert (H2 : 2 * incell_sum st = SS - DD) by exact (tails_sum_symmetric shapes Hsym).
    (* the double sum over the shapes is the double sum of F at the origin *)
    assert (Hin : SS = rsum (map (fun p => rsum (map (fun q => F c S p q (0, 0)%Z) Rl)) Rl)).
    { unfold SS, shapes, lj_cartesian. fold Rl c S. rewrite !map_map. apply rsum_map_ext_in. intros p Hp.
      rewrite !map_map. apply rsum_map_ext_in. intros q Hq. unfold F, placedS. cbn [fst snd].
      rewrite (image_zero c q (affine_rel q Hq)). reflexivity. }
    assert (Hdiag : DD = rsum (map (fun p => F c S p p (0, 0)%Z) Rl)).
    { unfold DD, shapes, lj_cartesian. fold Rl c S. rewrite !map_map. apply rsum_map_ext_in. intros p Hp.
      unfold F, placedS. cbn [fst snd]. rewrite (image_zero c p (affine_rel p Hp)). reflexivity. }
    (* the image part *)
    assert (Him : image_sum_k st k = rsum (map (fun p => rsum (map (fun q => rsum (map (F c S p q) (shell_indices k false))) Rl)) Rl)).
    { unfold image_sum_k, lj_cartesian. fold Rl c S. rewrite !map_map. apply rsum_map_ext_in. intros p Hp.
      unfold image_shapes_k. fold Rl c S. rewrite rsum_flat_map. apply rsum_map_ext_in. intros q Hq.
      unfold periodic_images. rewrite !map_map. apply rsum_map_ext_in. intros [n m] _. reflexivity. }
    (* assemble *)
    unfold Tot.
    assert (Hsplit : rsum (map (fun p => rsum (map (fun q => rsum (map (F c S p q) (shell_indices k true))) Rl)) Rl)
                     = rsum (map (fun p => rsum (map (fun q => F c S p q (0, 0)%Z) Rl)) Rl)
                       + rsum (map (fun p => rsum (map (fun q => rsum (map (F c S p q) (shell_indices k false))) Rl)) Rl)).
    { rewrite <- rsum_map_plus. apply rsum_map_ext_in. intros p _. rewrite <- rsum_map_plus.
      apply rsum_map_ext_in. intros q _. apply window_with_origin. lia. }
    rewrite Hsplit, <- Hin, <- Hdiag, <- Him. lra.
  Qed.
End Total.

(* ------------------------------------------------------------------ *)
(* two descriptions of one crystal                                     *)

Lemma rsum_Forall2 {A} (P : A -> A -> Prop) (f f' : A -> R) (l l' : list A) :
  Forall2 P l l' -> (forall x x', In x l -> In x' l' -> P x x' -> f' x' = f x) ->
  rsum (map f' l') = rsum (map f l).
Proof.
  induction 1 as [|x x' l l' Hxx' Hll' IH]; intros H; [reflexivity|].
  cbn [map rsum]. rewrite (H x x' (or_introl eq_refl) (or_introl eq_refl) Hxx').
  rewrite IH; [reflexivity|]. intros y y' Hy Hy' Hp. apply H; try now right. exact Hp.
Qed.

Lemma Forall2_len {A B} (P : A -> B -> Prop) l l' : Forall2 P l l' -> length l = length l'.
Proof. induction 1; cbn; auto. Qed.

Theorem lj_score_origin_shift (st st' : ljstateR) (h : R * R) (X rho : R) :
  l_cell NumR st' = l_cell NumR st -> l_shape NumR st' = l_shape NumR st -> like (l_shape NumR st) ->
  lj_wf st X rho -> lj_wf st' X rho ->
  Forall2 (fun p p' => exists dx dy, moved h p p' dx dy) (lj_relative NumR st) (lj_relative NumR st') ->
  lj_score NumR rpowi st' = lj_score NumR rpowi st.
Proof.
  intros Hc HS Hlike Hwf Hwf' Hrel.
  assert (Hlike' : like (l_shape NumR st')) by (rewrite HS; exact Hlike).
  rewrite (score_through_total st X rho Hwf Hlike 4) by lia.
  rewrite (score_through_total st' X rho Hwf' Hlike' 4) by lia.
  rewrite Hc, HS.
  assert (Hlen : lj_copies st' = lj_copies st).
  { pose proof (Forall2_len _ _ _ Hrel) as H. rewrite !lj_relative_length in H. now symmetry. }
  rewrite Hlen. do 2 f_equal. f_equal. f_equal.
  set (c := l_cell NumR st). set (S := l_shape NumR st).
  set (Rl := lj_relative NumR st) in *. set (Rl' := lj_relative NumR st') in *.
  unfold Tot. f_equal.
  - (* the double sum over the full window *)
    apply (rsum_Forall2 _ _ _ Rl Rl' Hrel). intros p p' Hp Hp' (dxp & dyp & Mp).
    apply (rsum_Forall2 _ _ _ Rl Rl' Hrel). intros q q' Hq Hq' (dxq & dyq & Mq).
    (* F p' q' (n, m) = F p q ((n, m) + delta), and the shifted window sums to the same *)
    assert (Hshift : forall nm, F c S p' q' nm = F c S p q (fst nm + (dxp - dxq), snd nm + (dyp - dyq))%Z).
    { intros [n m]. rewrite (F_moved c S h p p' q q' dxp dyp dxq dyq n m Mp Mq). cbn [fst snd]. f_equal. f_equal; lia. }
    rewrite (map_ext _ _ Hshift).
    destruct (rel_spec st X rho Hwf p Hp) as (_ & _ & Xp & Yp). destruct (rel_spec st X rho Hwf q Hq) as (_ & _ & Xq & Yq).
    destruct (rel_spec st' X rho Hwf' p' Hp') as (_ & _ & Xp' & Yp'). destruct (rel_spec st' X rho Hwf' q' Hq') as (_ & _ & Xq' & Yq').
    destruct Mp as (_ & _ & _ & _ & _ & _ & P02 & P12). destruct Mq as (_ & _ & _ & _ & _ & _ & Q02 & Q12).
    assert (Hdx : (-1 <= dxp - dxq <= 1)%Z).
    { assert (H1 : -2 < IZR (dxp - dxq) < 2) by (rewrite minus_IZR; lra).
      destruct H1 as [H1 H1']. apply lt_IZR in H1, H1'. lia. }
    assert (Hdy : (-1 <= dyp - dyq <= 1)%Z).
    { assert (H1 : -2 < IZR (dyp - dyq) < 2) by (rewrite minus_IZR; lra).
      destruct H1 as [H1 H1']. apply lt_IZR in H1, H1'. lia. }
    assert (Hzero : forall n m, (3 < Z.abs n \/ 3 < Z.abs m)%Z -> F c S p q (n, m) = 0).
    { intros n m Hout. unfold F, placedS. cbn [fst snd]. apply (outside_three_no_energy st X rho Hwf p q n m Hp Hq Hout). }
    rewrite (shifted_window_sum (F c S p q) 4 (dxp - dxq) (dyp - dyq)) by (try lia; assumption).
    symmetry. apply window_sum_true; [lia|exact Hzero].
  - (* the diagonal *)
    apply (rsum_Forall2 _ _ _ Rl Rl' Hrel). intros p p' Hp Hp' (dxp & dyp & Mp).
    rewrite (F_moved c S h p p' p p' dxp dyp dxp dyp 0 0 Mp Mp). f_equal. f_equal; lia.
Qed.

(* ------------------------------------------------------------------ *)
(* the origin moved by a vector every operation fixes modulo the lattice *)

Lemma Forall2_map_same {A B} (P : B -> B -> Prop) (f g : A -> B) (l : list A) :
  (forall x, In x l -> P (f x) (g x)) -> Forall2 P (map f l) (map g l).
Proof. induction l as [|x l IH]; intros H; cbn; constructor; [apply H; now left|apply IH; intros; apply H; now right]. Qed.

(* h is fixed by the operation modulo a lattice vector: (I - L) h is integral *)
Definition fixes_mod_lattice (sym : tfR) (h : R * R) : Prop :=
  exists zx zy : Z, a00 NumR sym * fst h + a01 NumR sym * snd h = fst h - IZR zx
                 /\ a10 NumR sym * fst h + a11 NumR sym * snd h = snd h - IZR zy.

Lemma placement_moved (sym : tfR) (s : siteR) (h : R * R) :
  sym_row sym -> fixes_mod_lattice sym h ->
  exists dx dy, moved h (placement sym s)
                  (placement sym (@mkSite NumR (s_x NumR s + fst h) (s_y NumR s + snd h) (s_cos NumR s) (s_sin NumR s))) dx dy.
Proof.
  intros Hrow (zx & zy & Hx & Hy).
  set (s' := @mkSite NumR (s_x NumR s + fst h) (s_y NumR s + snd h) (s_cos NumR s) (s_sin NumR s)).
  destruct (placement_spec sym s Hrow) as (E00 & E01 & E10 & E11 & E02 & E12 & (R0 & R1 & R2)).
  destruct (placement_spec sym s' Hrow) as (F00 & F01 & F10 & F11 & F02 & F12 & (Q0 & Q1 & Q2)).
  cbv zeta in *. cbn [s_x s_y s_cos s_sin s'] in F00, F01, F10, F11, F02, F12.
  set (qx := a00 NumR sym * s_x NumR s + a01 NumR sym * s_y NumR s + a02 NumR sym) in *.
  set (qy := a10 NumR sym * s_x NumR s + a11 NumR sym * s_y NumR s + a12 NumR sym) in *.
  (* the new fractional position is wrap (old position + h) *)
  assert (Wx : a02 NumR (placement sym s') = wrapR (wrapR qx + fst h)).
  { rewrite F02. destruct (wrap_spec qx) as [_ [e He]].
    replace (a00 NumR sym * (s_x NumR s + fst h) + a01 NumR sym * (s_y NumR s + snd h) + a02 NumR sym)
      with (wrapR qx + fst h + IZR (- zx - e)) by (rewrite minus_IZR, opp_IZR; unfold qx in *; lra).
    apply wrap_periodic. }
  assert (Wy : a12 NumR (placement sym s') = wrapR (wrapR qy + snd h)).
  { rewrite F12. destruct (wrap_spec qy) as [_ [e He]].
    replace (a10 NumR sym * (s_x NumR s + fst h) + a11 NumR sym * (s_y NumR s + snd h) + a12 NumR sym)
      with (wrapR qy + snd h + IZR (- zy - e)) by (rewrite minus_IZR, opp_IZR; unfold qy in *; lra).
    apply wrap_periodic. }
  destruct (wrap_spec (wrapR qx + fst h)) as [_ [dx Hdx]]. destruct (wrap_spec (wrapR qy + snd h)) as [_ [dy Hdy]].
  exists (- dx)%Z, (- dy)%Z. unfold moved.
  split; [repeat split; auto|]. split; [repeat split; auto|].
  rewrite F00, F01, F10, F11, E00, E01, E10, E11. repeat split; try reflexivity.
  - rewrite Wx, E02, opp_IZR. lra.
  - rewrite Wy, E12, opp_IZR. lra.
Qed.

(* C03: the same crystal described from an origin moved by h - same score *)
Definition move_site (h : R * R) (s : siteR) : siteR :=
  @mkSite NumR (s_x NumR s + fst h) (s_y NumR s + snd h) (s_cos NumR s) (s_sin NumR s).

Lemma Forall2_flat_map_map {A B} (P : B -> B -> Prop) (f : A -> list B) (phi : A -> A) (l : list A) :
  (forall x, In x l -> Forall2 P (f x) (f (phi x))) -> Forall2 P (flat_map f l) (flat_map f (map phi l)).
Proof.
  induction l as [|x l IH]; intros H; cbn [flat_map map]; [constructor|].
  apply Forall2_app; [apply H; now left|apply IH; intros; apply H; now right].
Qed.

Theorem lj_score_moved_origin (st : ljstateR) (h : R * R) (X rho : R) :
  let st' := mkLjstate (l_syms NumR st) (map (move_site h) (l_sites NumR st))
               (l_cell NumR st) (l_shape NumR st) in
  like (l_shape NumR st) -> lj_wf st X rho -> lj_wf st' X rho ->
  (forall sym, In sym (l_syms NumR st) -> fixes_mod_lattice sym h) ->
  lj_score NumR rpowi st' = lj_score NumR rpowi st.
Proof.
  intros st' Hlike Hwf Hwf' Hfix.
  apply (lj_score_origin_shift st st' h X rho); try reflexivity; try assumption.
  unfold lj_relative, st'. cbn [l_syms l_sites].
  apply Forall2_flat_map_map. intros site _. rewrite !positions_map.
  apply Forall2_map_same. intros sym Hs. apply placement_moved; [|now apply Hfix].
  pose proof (lw_syms _ _ _ Hwf) as Hrow. rewrite Forall_forall in Hrow. now apply Hrow.
Qed.

(* every operation whose linear part is diag(+-1, +-1) - all operations of the seven groups - fixes every half
   lattice vector modulo the lattice *)
Lemma half_vectors_are_fixed (sym : tfR) (u v : Z) :
  (a00 NumR sym = 1 \/ a00 NumR sym = -1) -> (a11 NumR sym = 1 \/ a11 NumR sym = -1) ->
  a01 NumR sym = 0 -> a10 NumR sym = 0 ->
  fixes_mod_lattice sym (IZR u / 2, IZR v / 2).
Proof.
  intros H00 H11 H01 H10. unfold fixes_mod_lattice. cbn [fst snd]. rewrite H01, H10.
  destruct H00 as [-> | ->], H11 as [-> | ->].
  - exists 0%Z, 0%Z. split; lra.
  - exists 0%Z, v. split; lra.
  - exists u, 0%Z. split; lra.
  - exists u, v. split; lra.
Qed.
