(* BoundsFacts.v - C08: which parameters the optimiser may move, and within which ranges - decided by
   vm_compute over the REGENERATED handle data (coq/gen/GenBounds.v: generate_basis() of the initial
   state of every group x state kind, probed through set_value(-inf/+inf) on the running code). *)
From Coq Require Import ZArith String Ascii List Bool Floats.
From PV Require Import model.Tables model.Spec gen.GenTables gen.GenBounds.
Import ListNotations.
Local Open Scope string_scope.

Definition feq (x y : float) : bool := PrimFloat.eqb x y.
Definition fle (x y : float) : bool := PrimFloat.leb x y.

Definition pi_6 : float := 0x1.0c152382d7365p-1%float.
Definition pi_2 : float := 0x1.921fb54442d18p0%float.
Definition two_pi : float := 0x1.921fb54442d18p2%float.

(* a handle moves exactly the leaf [path], has range [lo, hi] (hi = None: the current value) and its
   current value lies in the range; set/reset behaved (gh_ok) *)
Definition handle_is (h : gen_handle) (path : string) (lo : float) (hi : option float) : bool :=
  (match gh_moves h with [p] => String.eqb p path | _ => false end
   && feq (gh_min h) lo
   && match hi with Some x => feq (gh_max h) x | None => feq (gh_max h) (gh_value h) end
   && fle (gh_min h) (gh_value h) && fle (gh_value h) (gh_max h) && gh_ok h)%bool.

Definition site_handles_ok (hs : list gen_handle) : bool :=
  match hs with
  | [hx; hy; ha] =>
      (handle_is hx "/occupied_sites/0/x" (-0.5)%float (Some 0.5%float)
       && handle_is hy "/occupied_sites/0/y" (-0.5)%float (Some 0.5%float)
       && handle_is ha "/occupied_sites/0/angle" 0%float (Some two_pi))%bool
  | _ => false
  end.

Definition handles_ok (f : family) (hs : list gen_handle) : bool :=
  match f, hs with
  | Monoclinic, hl :: hr :: hang :: rest =>
      (handle_is hl "/cell/length" 0.01%float None && handle_is hr "/cell/ratio" 0.1%float None
       && handle_is hang "/cell/angle" pi_6 (Some pi_2) && site_handles_ok rest)%bool
  | Orthorhombic, hl :: hr :: rest =>
      (* no handle on the angle: a rectangular cell stays rectangular *)
      (handle_is hl "/cell/length" 0.01%float None && handle_is hr "/cell/ratio" 0.1%float None
       && site_handles_ok rest)%bool
  | _, _ => false
  end.

(* kinds "...@shrunk" are the same states after the cell length and ratio were reduced: the ranges a later
   stage of a chain declares; kinds "...@wide" are the same states loaded with side ratio 1.75 (the score of
   such a probe state need not be defined) *)
Fixpoint has_at (s : string) : bool :=
  match s with
  | EmptyString => false
  | String c r => orb (Ascii.eqb c "@") (has_at r)
  end.

(* kinds "...@hex" / "...@tet": the same states with the cell DECLARED hexagonal / tetragonal (a library or file
   state): only the cell length has a handle, ratio and angle are fixed *)
Fixpoint ends_with (suffix s : string) : bool :=
  orb (String.eqb s suffix) (match s with EmptyString => false | String _ r => ends_with suffix r end).

Definition length_only_ok (hs : list gen_handle) : bool :=
  match hs with
  | hl :: rest => (handle_is hl "/cell/length" 0.01%float None && site_handles_ok rest)%bool
  | _ => false
  end.

Definition state_ok (gs : list gen_group) (s : gen_state) : bool :=
  match find_group (gs_cli s) gs, find (fun g => String.eqb (sg_name g) (gs_cli s)) ita with
  | Some g, Some sp =>
      ((if orb (ends_with "@hex" (gs_kind s)) (ends_with "@tet" (gs_kind s)) then length_only_ok (gs_handles s)
        else handles_ok (gg_family g) (gs_handles s)) && (gs_scored s || has_at (gs_kind s))
       && Nat.eqb (gs_copies s) (sg_order sp))%bool
  | _, _ => false
  end.

(* every group x state kind: the expected handles with the declared ranges, current values inside
   them, a defined initial score and the group's number of copies *)
Theorem handles_are_declared_ranges : forallb (state_ok gen_groups) gen_bounds = true.
Proof. vm_compute. reflexivity. Qed.

(* all 7 groups x 5 state kinds were probed: initial, shrunk, with a side ratio above one; and 7 x 4 states with the
   cell declared hexagonal / tetragonal *)
Theorem all_states_probed : length gen_bounds = 161%nat.
Proof. vm_compute. reflexivity. Qed.
