(* LensModel.v - C02: the model's overlap_area / circle_overlap (MolecularShape2) ARE the segment areas of
   LensFacts: overlap_area(r, d) = G r d for -r <= d <= r, and for two discs that reach each other without one
   containing the other, circle_overlap = G ra d1 + G rb d2 with d1 + d2 = D the distance of the centres and the two
   chords equal (the common chord).  With LensFacts.segment_integral this makes the lens term the area of the
   intersection of the two discs (as the integral of the chord length over both segments). *)
From Coq Require Import ZArith List Bool Reals Lra Lia Psatz.
From PV Require Import Num NumR model.Geom proofs.RealFacts proofs.LatticeFacts proofs.OverlapFacts proofs.PackingFacts proofs.RadiusFacts proofs.LensFacts.
Import ListNotations.
Local Open Scope R_scope.

Theorem overlap_area_is_G (r d : R) : 0 < r -> - r <= d <= r -> overlap_area NumR acos r d = G r d.
Proof.
  intros Hr Hd. unfold overlap_area, G, sq.
  cbn [nadd nsub nmul ndiv nopp nsqrt NumR n0 n1 nofZ]. rewrite !R_nmax_Rmax, R_nmin_Rmin.
  change (IZR 1) with 1. change (IZR 0) with 0.
  assert (Hq : -1 <= d / r <= 1).
  { split; apply Rmult_le_reg_r with r; try lra; unfold Rdiv; rewrite Rmult_assoc, Rinv_l by lra; lra. }
  rewrite (Rmin_right 1 (d / r)) by lra. rewrite (Rmax_right _ (d / r)) by lra.
  rewrite (Rmax_right 0 (r * r - d * d)) by nra. reflexivity.
Qed.

Theorem circle_overlap_is_two_segments (a b : discR) :
  0 < dr NumR a -> 0 < dr NumR b ->
  let D := sqrt (dist2 (dx_ NumR a) (dy_ NumR a) (dx_ NumR b) (dy_ NumR b)) in
  Rabs (dr NumR a - dr NumR b) <= D -> D < dr NumR a + dr NumR b -> 0 < D ->
  let d1 := (D * D + dr NumR a * dr NumR a - dr NumR b * dr NumR b) / (2 * D) in
  let d2 := (D * D + dr NumR b * dr NumR b - dr NumR a * dr NumR a) / (2 * D) in
  circle_overlap NumR acos a b = G (dr NumR a) d1 + G (dr NumR b) d2
  /\ d1 + d2 = D
  /\ dr NumR a * dr NumR a - d1 * d1 = dr NumR b * dr NumR b - d2 * d2
  /\ - dr NumR a <= d1 <= dr NumR a /\ - dr NumR b <= d2 <= dr NumR b.
Proof.
  intros Ha Hb D Hlo Hhi HD d1 d2.
  set (ra := dr NumR a) in *. set (rb := dr NumR b) in *.
  assert (Hlo' : - D <= ra - rb <= D) by (unfold Rabs in Hlo; destruct (Rcase_abs (ra - rb)); lra). clear Hlo.
  assert (H1 : - ra <= d1 <= ra).
  { unfold d1. split.
    - apply Rmult_le_reg_r with (2 * D); [lra|]. unfold Rdiv. rewrite Rmult_assoc, Rinv_l by lra. nra.
    - apply Rmult_le_reg_r with (2 * D); [lra|]. unfold Rdiv. rewrite Rmult_assoc, Rinv_l by lra. nra. }
  assert (H2 : - rb <= d2 <= rb).
  { unfold d2. split.
    - apply Rmult_le_reg_r with (2 * D); [lra|]. unfold Rdiv. rewrite Rmult_assoc, Rinv_l by lra. nra.
    - apply Rmult_le_reg_r with (2 * D); [lra|]. unfold Rdiv. rewrite Rmult_assoc, Rinv_l by lra. nra. }
  split; [|split; [|split; [|split; assumption]]].
  - unfold circle_overlap. cbn [nsqrt nadd nsub nmul ndiv nltb NumR n2 nofZ].
    change (norm2 NumR (dx_ NumR a - dx_ NumR b) (dy_ NumR a - dy_ NumR b)) with (dist2 (dx_ NumR a) (dy_ NumR a) (dx_ NumR b) (dy_ NumR b)).
    fold D. fold ra rb.
    replace (Rltb D (ra + rb)) with true by (symmetry; apply Rltb_true; exact Hhi).
    unfold sq. cbn [nmul NumR]. change (IZR 2) with 2.
    rewrite (overlap_area_is_G ra _ Ha), (overlap_area_is_G rb _ Hb).
    + reflexivity.
    + exact H2.
    + exact H1.
  - unfold d1, d2. field. lra.
  - unfold d1, d2. field. lra.
Qed.
