(* SrcOrder.v - the order on states (PartialEq / PartialOrd / Ord of PackedState and PotentialState) as translated from the
   source on this run is the order of the model (Pipeline.v). *)
From Coq Require Import ZArith NArith String List Bool.
From PV Require Import Num model.Pipeline gen.GenFns.
Local Open Scope num_scope.

(* every function of the source this file is about was translated on this run *)
Theorem order_source_translated :
  translated_gen_state_eq = true /\
  translated_gen_state_partial_cmp = true /\
  translated_gen_state_cmp = true /\
  translated_gen_lj_state_eq = true /\
  translated_gen_lj_state_partial_cmp = true /\
  translated_gen_lj_state_cmp = true.
Proof. repeat split; reflexivity. Qed.

Section Source.
  Variable NN : Num.
  Notation T := (carrier NN).

  (* ---- src/state/packed.rs, src/state/potential.rs: the order on states is the order of the model (Pipeline.v) *)
  Theorem state_order_is_source : forall a b : option T,
    gen_state_eq NN a b = score_eq NN a b /\ gen_state_partial_cmp NN a b = score_cmp NN a b
    /\ gen_state_cmp NN a b = cmp_unwrap NN a b
    /\ gen_lj_state_eq NN a b = score_eq NN a b /\ gen_lj_state_partial_cmp NN a b = score_cmp NN a b
    /\ gen_lj_state_cmp NN a b = cmp_unwrap NN a b.
  Proof. intros [s|] [o|]; repeat split; reflexivity. Qed.
End Source.
