(* CliFacts.v - the command line driver (src/main.rs, analyse_state) as translated into
   gen/GenCli.v on this run: what each of a replica's three stages runs with, for EVERY user
   configuration; stages 1 and 3 are zero-temperature runs and therefore hill climbs (C05);
   the setters and the default settings are the model's. *)
From Coq Require Import ZArith NArith List Bool String Reals Floats Lra Lia.
From PV Require Import Num NumR model.Optimiser model.OptSpec model.Cli gen.GenCli
  proofs.OptStruct proofs.OptLoop proofs.FloatFacts proofs.FloatZero proofs.HillClimb proofs.RealFacts.
Import ListNotations.
Local Open Scope string_scope.

Theorem cli_translated : gen_cli_problem = "".
Proof. reflexivity. Qed.

(* three stages: the first starts from (a clone of) the given state, each later one from the
   result of the one before; replicas 0..start_configs; the best is taken with max *)
Theorem cli_stage_chain : forall NN,
  map (st_input NN) (gen_stages NN) = [FromStart; FromPrevious; FromPrevious]
  /\ gen_replica_range = "0..start_configs" /\ gen_reduce = "max".
Proof. intros NN. repeat split. Qed.

Section Stages.
  Variable NN : Num.
  Notation stage_b k i u := (sb NN (stage_settings NN (gen_stages NN) k i u)).
  Notation stage_seed k i u := (sb_seed NN (stage_settings NN (gen_stages NN) k i u)).

  (* stage 1: 1000 steps at temperature zero without a convergence threshold, everything else the
     user's *)
  Theorem cli_stage1_settings : forall (i : N) (u : sbuilder NN),
    stage_b 0%nat i u =
      mkBuilder 1000%N n0 (b_kt_finish NN (sb NN u)) (b_kt_ratio NN (sb NN u))
                (b_max_step NN (sb NN u)) (b_inner NN (sb NN u)) None
    /\ stage_seed 0%nat i u = Some i.
  Proof. intros i u. split; reflexivity. Qed.

  (* stage 2: the user's settings *)
  Theorem cli_stage2_settings : forall (i : N) (u : sbuilder NN),
    stage_b 1%nat i u = sb NN u /\ stage_seed 1%nat i u = Some i.
  Proof. intros i u. split; reflexivity. Qed.

  (* stage 3: the user's settings at temperature zero *)
  Theorem cli_stage3_settings : forall (i : N) (u : sbuilder NN),
    stage_b 2%nat i u =
      mkBuilder (b_steps NN (sb NN u)) n0 (b_kt_finish NN (sb NN u)) (b_kt_ratio NN (sb NN u))
                (b_max_step NN (sb NN u)) (b_inner NN (sb NN u)) (b_conv NN (sb NN u))
    /\ stage_seed 2%nat i u = Some i.
  Proof. intros i u. split; reflexivity. Qed.

  (* the three stages of a replica use the replica's index as their seed, whatever seed the
     user's settings carried *)
  Theorem cli_stage_seeds : forall (i : N) (u : sbuilder NN) (k : nat),
    (k < 3)%nat -> stage_seed k i u = Some i.
  Proof.
    intros i u k Hk. destruct k as [|[|[|k]]]; try reflexivity. lia.
  Qed.

  (* every stage of every replica moves with the user's maximum step size (C19) *)
  Theorem cli_stage_max_step : forall fpow (i : N) (u : sbuilder NN) (k : nat),
    (k < 3)%nat ->
    max_step NN (build NN fpow (stage_b k i u)) = b_max_step NN (sb NN u).
  Proof.
    intros fpow i u k Hk. destruct k as [|[|[|k]]]; try reflexivity. lia.
  Qed.

  (* stage 1 as built: exactly 1000 proposals' worth of loops, no early exit *)
  Theorem cli_stage1_built : forall fpow (i : N) (u : sbuilder NN),
    let c := build NN fpow (stage_b 0%nat i u) in
    steps NN c = 1000%N /\ inner NN c = N.min (b_inner NN (sb NN u)) 1000 /\ conv NN c = None.
  Proof. intros fpow i u. repeat split. Qed.

  (* a bare command line: 100 steps in one loop of 100 at the default cooling factor, no threshold *)
  Theorem cli_bare_command_line : forall fpow,
    let c := build NN fpow (sb NN (gen_builder_cli NN)) in
    steps NN c = 100%N /\ inner NN c = 100%N /\ factor NN c = tenth NN /\ conv NN c = None
    /\ loops_of (steps NN c) (inner NN c) = 1%N.
  Proof. intros fpow. repeat split. Qed.
End Stages.

(* ------------------------------------------------------------------ *)
(* binary64: stages 1 and 3 are hill climbs for every user configuration *)

Section StagesF.
  Variable fexp : F -> F.
  Variable fpow : F -> F -> F.
  Variable score : N -> list F -> option F.
  Hypothesis fexp_neg_inf : fexp neg_infinity = 0%float.

  Notation stage_b k i u := (sb NumF (stage_settings NumF (gen_stages NumF) k i u)).

  Theorem cli_first_and_last_stage_zero_start : forall (i : N) (u : sbuilder NumF),
    zero_start (stage_b 0%nat i u) /\ zero_start (stage_b 2%nat i u).
  Proof. intros i u. split; reflexivity. Qed.

  Theorem cli_first_and_last_stage_hill_climb :
    forall (k : nat) (i : N) (u : sbuilder NumF) ps hs (s0 : F) (draws1 draws2 : list (draw NumF)),
    k = 0%nat \/ k = 2%nat ->
    fnan s0 = false -> Forall thr_ok (draws1 ++ draws2) ->
    let c := build NumF fpow (stage_b k i u) in
    let mid := run NumF fexp score c (init NumF c ps hs s0) draws1 in
    let fin := run NumF fexp score c (init NumF c ps hs s0) (draws1 ++ draws2) in
    fleb s0 (score_cur NumF mid) = true
    /\ fleb (score_cur NumF mid) (score_cur NumF fin) = true.
  Proof.
    intros k i u ps hs s0 d1 d2 Hk Hn Hthr.
    apply (C05_zero_temperature_is_hill_climb fexp fpow score fexp_neg_inf); try assumption.
    destruct (cli_first_and_last_stage_zero_start i u) as [Z0 Z2].
    destruct Hk as [-> | ->]; assumption.
  Qed.
End StagesF.

(* ------------------------------------------------------------------ *)
(* the setters, probed on the library default, are the model's setters *)

Theorem cli_setters_are_model_setters :
  List.length (gen_setter_probes NumF) = 10%nat
  /\ forallb (fun p => sbuilder_eqb NumF (apply_setter NumF 0%N (gen_builder_default NumF) (fst p)) (snd p))
             (gen_setter_probes NumF) = true
  /\ map (fun p => match fst p with
                   | SetSteps _ _ => 1 | SetInner _ _ => 2 | SetKtStart _ _ => 3 | SetKtFinish _ _ => 4
                   | SetKtRatio _ None => 5 | SetKtRatio _ (Some _) => 6 | SetMaxStep _ _ => 7
                   | SetConv _ None => 8 | SetConv _ (Some _) => 9 | SetSeed _ _ => 10 end)%nat
         (gen_setter_probes NumF) = [8; 9; 2; 4; 5; 6; 3; 7; 10; 1]%nat.
Proof. vm_compute. repeat split. Qed.

(* ------------------------------------------------------------------ *)
(* the library default (kt 0.1 -> 0.001 over 1000 steps in loops of 1000) meets the premises of
   the schedule theorem: in exact arithmetic its run ends at the finishing temperature *)

Theorem lib_default_reaches_finish :
  let b := sb NumR (gen_builder_default NumR) in
  let c := build NumR Rpower b in
  cooled NumR (kt_start NumR c) (factor NumR c)
         (N.to_nat (loops_of (steps NumR c) (inner NumR c))) = (1 / 1000)%R.
Proof.
  intros b c.
  apply (R_build_cooled_finish b (1 / 1000)%R); try reflexivity.
  - cbn. lra.
  - lra.
Qed.
