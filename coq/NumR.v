(* NumR.v - the real-number instance of Num; comparisons decided classically. *)
From Coq Require Import ZArith Reals.
From PV Require Import Num.

Definition Rltb (x y : R) : bool := if Rlt_dec x y then true else false.
Definition Rleb (x y : R) : bool := if Rle_dec x y then true else false.
Definition Reqb (x y : R) : bool := if Req_EM_T x y then true else false.

(* truncated remainder modulo 1: the fractional part with the sign of x *)
Definition Rrem1 (x : R) : R :=
  if Rle_dec 0 x then frac_part x else Ropp (frac_part (Ropp x)).

Definition NumR : Num := {|
  carrier := R;
  nadd := Rplus; nsub := Rminus; nmul := Rmult; ndiv := Rdiv; nopp := Ropp;
  nltb := Rltb; nleb := Rleb; neqb := Reqb;
  nofZ := IZR;
  nrem1 := Rrem1;
  nsqrt := sqrt;
  nceilZ := fun x => (- Int_part (- x))%Z;
|}.

Lemma Rltb_true x y : Rltb x y = true <-> (x < y)%R.
Proof. unfold Rltb; destruct (Rlt_dec x y); split; intros; try easy. Qed.
Lemma Rltb_false x y : Rltb x y = false <-> (y <= x)%R.
Proof. unfold Rltb; destruct (Rlt_dec x y); split; intros; try easy.
  - exfalso; apply (Rlt_irrefl x); eapply Rlt_le_trans; eauto.
  - apply Rnot_lt_le; assumption. Qed.
Lemma Rleb_true x y : Rleb x y = true <-> (x <= y)%R.
Proof. unfold Rleb; destruct (Rle_dec x y); split; intros; try easy. Qed.
Lemma Rleb_false x y : Rleb x y = false <-> (y < x)%R.
Proof. unfold Rleb; destruct (Rle_dec x y); split; intros; try easy.
  - exfalso; apply (Rlt_irrefl x); eapply Rle_lt_trans; eauto.
  - apply Rnot_le_lt; assumption. Qed.
Lemma Reqb_true x y : Reqb x y = true <-> x = y.
Proof. unfold Reqb; destruct (Req_EM_T x y); split; intros; try easy. Qed.
Lemma Reqb_false x y : Reqb x y = false <-> x <> y.
Proof. unfold Reqb; destruct (Req_EM_T x y); split; intros; try easy. Qed.
Lemma Reqb_refl x : Reqb x x = true.
Proof. apply Reqb_true; reflexivity. Qed.
