(* Num.v - the numeric interface every numeric model function is written against.

   One Gallina term, two dictionaries:
     NumF  IEEE-754 binary64 (Coq primitive floats): executable, bit-exact; this is
           the instance run against the Rust code (extracted to OCaml);
     NumR  Coq's real numbers (see NumR.v): the instance theorems about exact
           arithmetic are proved on (every finite binary64 value is a real).
   Definitions only; no proofs here. *)
From Coq Require Import ZArith Floats.

Record Num : Type := mkNum {
  carrier : Type;
  nadd : carrier -> carrier -> carrier;
  nsub : carrier -> carrier -> carrier;
  nmul : carrier -> carrier -> carrier;
  ndiv : carrier -> carrier -> carrier;
  nopp : carrier -> carrier;
  nltb : carrier -> carrier -> bool;
  nleb : carrier -> carrier -> bool;
  neqb : carrier -> carrier -> bool;
  nofZ : Z -> carrier;
}.

Arguments nadd {_}. Arguments nsub {_}. Arguments nmul {_}. Arguments ndiv {_}.
Arguments nopp {_}. Arguments nltb {_}. Arguments nleb {_}. Arguments neqb {_}.
Arguments nofZ {_}.

Declare Scope num_scope.
Delimit Scope num_scope with num.
Infix "+" := nadd : num_scope.
Infix "-" := nsub : num_scope.
Infix "*" := nmul : num_scope.
Infix "/" := ndiv : num_scope.
Notation "- x" := (nopp x) : num_scope.
Infix "<?" := nltb : num_scope.
Infix "<=?" := nleb : num_scope.
Infix "=?" := neqb : num_scope.

(* Conversion of an integer to binary64, as Rust's `as f64` does for the integers
   that occur (|z| < 2^53: every partial result is exact; larger values are not used
   by the models and would round differently).  No primitive integers are involved. *)
Fixpoint float_ofpos (p : positive) : float :=
  match p with
  | xH => 1%float
  | xO q => (2 * float_ofpos q)%float
  | xI q => (2 * float_ofpos q + 1)%float
  end.

Definition float_ofZ (z : Z) : float :=
  match z with
  | Z0 => 0%float
  | Zpos p => float_ofpos p
  | Zneg p => PrimFloat.opp (float_ofpos p)
  end.

Definition NumF : Num := {|
  carrier := float;
  nadd := PrimFloat.add; nsub := PrimFloat.sub;
  nmul := PrimFloat.mul; ndiv := PrimFloat.div;
  nopp := PrimFloat.opp;
  nltb := PrimFloat.ltb; nleb := PrimFloat.leb; neqb := PrimFloat.eqb;
  nofZ := float_ofZ;
|}.

Section Derived.
  Variable NN : Num.
  Notation T := (carrier NN).
  Local Open Scope num_scope.

  Definition n0 : T := nofZ 0.
  Definition n1 : T := nofZ 1.
  Definition n2 : T := nofZ 2.
  Definition nhalf : T := nofZ 1 / nofZ 2.

  (* x is NaN: the only value that is not equal to itself *)
  Definition nis_nan (x : T) : bool := negb (x =? x).

  (* Rust's f64::min(x, 1.) and f64::max: a NaN operand is ignored *)
  Definition nmin (x y : T) : T :=
    if x <? y then x else if y <? x then y else if nis_nan x then y else x.
  Definition nmax (x y : T) : T :=
    if y <? x then x else if x <? y then y else if nis_nan x then y else x.

  Definition nabs (x : T) : T := if x <? n0 then - x else x.

  (* The clamp of StandardBasis::set_value *)
  Definition nclamp (lo hi x : T) : T :=
    if x <? lo then lo else if hi <? x then hi else x.
End Derived.

Arguments n0 {_}. Arguments n1 {_}. Arguments n2 {_}. Arguments nhalf {_}.
Arguments nis_nan {_}. Arguments nmin {_}. Arguments nmax {_}. Arguments nabs {_}.
Arguments nclamp {_}.
