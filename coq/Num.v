(* Num.v - the numeric interface every numeric model function is written against.

   One Gallina term, two dictionaries:
     NumF  IEEE-754 binary64 (Coq primitive floats): executable, bit-exact; this is
           the instance run against the Rust code (extracted to OCaml);
     NumR  Coq's real numbers (see NumR.v): the instance theorems about exact
           arithmetic are proved on (every finite binary64 value is a real).
   Definitions only; no proofs here. *)
From Coq Require Import ZArith Floats.

Record Num : Type := mkNum {
  carrier : Type;
  nadd : carrier -> carrier -> carrier;
  nsub : carrier -> carrier -> carrier;
  nmul : carrier -> carrier -> carrier;
  ndiv : carrier -> carrier -> carrier;
  nopp : carrier -> carrier;
  nltb : carrier -> carrier -> bool;
  nleb : carrier -> carrier -> bool;
  neqb : carrier -> carrier -> bool;
  nofZ : Z -> carrier;
  nrem1 : carrier -> carrier;      (* x % 1.0 with the sign of x (C fmod, Rust's % on f64) *)
  nsqrt : carrier -> carrier;
  nceilZ : carrier -> Z;           (* x.ceil() as i64 *)
}.

Arguments nadd {_}. Arguments nsub {_}. Arguments nmul {_}. Arguments ndiv {_}.
Arguments nopp {_}. Arguments nltb {_}. Arguments nleb {_}. Arguments neqb {_}.
Arguments nofZ {_}. Arguments nrem1 {_}. Arguments nsqrt {_}. Arguments nceilZ {_}.

Declare Scope num_scope.
Delimit Scope num_scope with num.
Infix "+" := nadd : num_scope.
Infix "-" := nsub : num_scope.
Infix "*" := nmul : num_scope.
Infix "/" := ndiv : num_scope.
Notation "- x" := (nopp x) : num_scope.
Infix "<?" := nltb : num_scope.
Infix "<=?" := nleb : num_scope.
Infix "=?" := neqb : num_scope.

(* Conversion of an integer to binary64, as Rust's `as f64` does for the integers
   that occur (|z| < 2^53: every partial result is exact; larger values are not used
   by the models and would round differently).  No primitive integers are involved. *)
Fixpoint float_ofpos (p : positive) : float :=
  match p with
  | xH => 1%float
  | xO q => (2 * float_ofpos q)%float
  | xI q => (2 * float_ofpos q + 1)%float
  end.

Definition float_ofZ (z : Z) : float :=
  match z with
  | Z0 => 0%float
  | Zpos p => float_ofpos p
  | Zneg p => PrimFloat.opp (float_ofpos p)
  end.

(* fmod(x, 1.0) on binary64, exactly: below 2^52 the nearest integer of |x| is (|x| + 2^52) - 2^52
   (ulp = 1 there), the floor is that or one less, and |x| - floor |x| is exact; from 2^52 on every
   value is an integer.  The result carries the sign of x, also when it is zero. *)
Definition two52 : float := 0x1p52%float.
Definition fsignbit (x : float) : bool :=
  orb (PrimFloat.ltb x 0%float) (andb (PrimFloat.eqb x 0%float) (PrimFloat.ltb (1 / x)%float 0%float)).
Definition ffmod1 (x : float) : float :=
  let a := PrimFloat.abs x in
  if PrimFloat.ltb a two52 then
    let t := ((a + two52) - two52)%float in
    let fl := if PrimFloat.ltb a t then (t - 1)%float else t in
    let r := (a - fl)%float in
    if fsignbit x then PrimFloat.opp r else r
  else if PrimFloat.ltb a infinity then (if fsignbit x then (-0)%float else 0%float)
  else nan.

(* x.ceil() as i64 (Rust: NaN -> 0, saturating at the ends of the i64 range), by bisection on the
   monotone map float_ofZ - no primitive integers and no float decoding are needed *)
Definition i64_max : Z := 9223372036854775807.
Definition i64_min : Z := (-9223372036854775808)%Z.

(* smallest n in [lo, hi] with p n (p monotone, p hi assumed; hi otherwise) *)
Fixpoint bsearch (fuel : nat) (lo hi : Z) (p : Z -> bool) : Z :=
  match fuel with
  | O => hi
  | S f =>
      if (hi <=? lo)%Z then hi
      else let mid := ((lo + hi) / 2)%Z in
           if p mid then bsearch f lo mid p else bsearch f (mid + 1) hi p
  end.

Definition fceilZ (x : float) : Z :=
  if PrimFloat.eqb x x then
    if PrimFloat.ltb 0%float x then
      bsearch 70 0 i64_max (fun n => PrimFloat.leb x (float_ofZ n))
    else
      (* x <= 0: ceil x = - floor (-x) = - (smallest n with -x < n + 1) *)
      let y := PrimFloat.opp x in
      Z.opp (bsearch 70 0 i64_max (fun n => PrimFloat.ltb y (float_ofZ (n + 1))))
  else 0%Z.

Definition NumF : Num := {|
  carrier := float;
  nadd := PrimFloat.add; nsub := PrimFloat.sub;
  nmul := PrimFloat.mul; ndiv := PrimFloat.div;
  nopp := PrimFloat.opp;
  nltb := PrimFloat.ltb; nleb := PrimFloat.leb; neqb := PrimFloat.eqb;
  nofZ := float_ofZ;
  nrem1 := ffmod1;
  nsqrt := PrimFloat.sqrt;
  nceilZ := fceilZ;
|}.

Section Derived.
  Variable NN : Num.
  Notation T := (carrier NN).
  Local Open Scope num_scope.

  Definition n0 : T := nofZ 0.
  Definition n1 : T := nofZ 1.
  Definition n2 : T := nofZ 2.
  Definition nhalf : T := nofZ 1 / nofZ 2.

  (* x is NaN: the only value that is not equal to itself *)
  Definition nis_nan (x : T) : bool := negb (x =? x).

  (* Rust's f64::min(x, 1.) and f64::max: a NaN operand is ignored *)
  Definition nmin (x y : T) : T :=
    if x <? y then x else if y <? x then y else if nis_nan x then y else x.
  Definition nmax (x y : T) : T :=
    if y <? x then x else if x <? y then y else if nis_nan x then y else x.

  Definition nabs (x : T) : T := if x <? n0 then - x else x.

  (* The clamp of StandardBasis::set_value *)
  Definition nclamp (lo hi x : T) : T :=
    if x <? lo then lo else if hi <? x then hi else x.
End Derived.

Arguments n0 {_}. Arguments n1 {_}. Arguments n2 {_}. Arguments nhalf {_}.
Arguments nis_nan {_}. Arguments nmin {_}. Arguments nmax {_}. Arguments nabs {_}.
Arguments nclamp {_}.
