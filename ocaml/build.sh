#!/bin/sh
# Build the OCaml driver from the extracted model (coq/extract/model.ml).
set -e
cd "$(dirname "$0")"
OUT=${1:-/verif/.cache/ocaml}
mkdir -p "$OUT"
cp float64.ml util.ml engine_*.ml driver.ml ../coq/extract/model.ml ../coq/extract/model.mli "$OUT"/
cd "$OUT"
ocamlfind ocamlopt -O2 -w -a -package str float64.ml model.mli model.ml util.ml $(ls engine_*.ml) driver.ml -o driver 2>&1 | grep -v "^ocamlfind: \[WARNING\]" || true
test -x driver
