(* engine_geom.ml - correspondence of the extracted geometry model (NumF instance of
   coq/model/Geom.v) with what the Rust harness recorded from the implementation: placements of a
   site, Cartesian placements, periodic images (count, order, values), hard score (defined or not,
   value), cell area, Lennard-Jones score, pair predicates.
   Numbers agree "bit" when their bit patterns are equal (a signed zero equals a zero), "tol" when
   they differ by rounding only (1e-12 relative to the scale of the case).  Booleans that disagree
   are a mismatch unless the harness's independent oracle puts the configuration within 1e-9 of
   touching (counted as tolerance band). *)
open Model
open Util

let h (s : string) : carrier = f2c (float_of_hex s)

type st = {
  mutable spec : string;
  mutable syms : tf list;
  mutable sites : site list;
  mutable cell : cell option;
  mutable kind : char;
  mutable segs : seg list;
  mutable discs : disc list;
  mutable ljs : lj list;
  mutable radius : float;
  mutable area : float;
  mutable rel : float array list;
  mutable cart : float array list;
  mutable img_hdr : (int * int * bool * int) option;
  mutable imgs : float array list;
  mutable score : float option option;
  mutable carea : float option;
  mutable minsep : float;
  mutable pair : (float array * float array * string * string * float) option;
  mutable muls : (float array * float array * float array) list;
  mutable lj2 : (lj * lj * float * float) option;
  mutable nomodel : bool;
  mutable ord : (float option array * string * string * string * string * string) option;
  mutable ljm : (float * float) option;
  mutable mola : lj list;
  mutable molb : lj list;
}

let fresh () = { spec = ""; syms = []; sites = []; cell = None; kind = '?'; segs = []; discs = []; ljs = [];
                 radius = 0.; area = 0.; rel = []; cart = []; img_hdr = None; imgs = []; score = None;
                 carea = None; minsep = nan; pair = None; muls = []; lj2 = None; nomodel = false; ord = None; ljm = None; mola = []; molb = [] }

let tf_of_arr (a : float array) : tf =
  { a00 = f2c a.(0); a01 = f2c a.(1); a02 = f2c a.(2); a10 = f2c a.(3); a11 = f2c a.(4); a12 = f2c a.(5);
    a20 = f2c a.(6); a21 = f2c a.(7); a22 = f2c a.(8) }
let arr_of_tf (t : tf) : float array =
  [| c2f t.a00; c2f t.a01; c2f t.a02; c2f t.a10; c2f t.a11; c2f t.a12; c2f t.a20; c2f t.a21; c2f t.a22 |]

let nine (toks : string list) : float array = Array.of_list (List.map float_of_hex toks)

(* LLVM expands powi with a constant exponent into multiplications by binary decomposition *)
let rec powi_f (x : float) (n : int) : float =
  if n = 0 then 1. else if n = 1 then x
  else let hf = powi_f x (n / 2) in if n mod 2 = 0 then hf *. hf else hf *. hf *. x
let powi (x : carrier) (n : z) : carrier = f2c (powi_f (c2f x) (int_of_z n))

let same x y = same_bits x y || (x = 0. && y = 0.)

(* compare two 3x3s: 0 = bit, 1 = tolerance, 2 = different *)
let cmp9 (scale : float) (a : float array) (b : float array) : int =
  let r = ref 0 in
  Array.iteri (fun i x ->
      let y = b.(i) in
      if same x y then ()
      else if Float.abs (x -. y) <= 1e-12 *. scale *. (1. +. Float.abs x) then r := max !r 1
      else r := 2) a;
  !r

let show9 a = String.concat " " (Array.to_list (Array.map (Printf.sprintf "%h") a))

let run_case (c : st) : string =
  let mism = ref [] in
  let note s = if List.length !mism < 3 then mism := s :: !mism in
  let strength = ref 0 in
  let band = ref 0 in
  let upd k = if k > !strength then strength := k in
  (* C13: the energy of two different molecules, both ways, against the model's ljshape_energy *)
  (match c.ljm with
   | Some (eab, eba) ->
       let terms (la : lj list) (lb : lj list) : float =
         List.fold_left (fun acc (p : lj) -> List.fold_left (fun acc2 (q : lj) ->
           let sg = c2f p.lsigma and ep = Float.abs (c2f p.leps) in
           let r2 = (c2f p.lx -. c2f q.lx) ** 2. +. (c2f p.ly -. c2f q.ly) ** 2. in
           let x = (sg *. sg /. r2) ** 3. in
           let sh = match p.lcut with Some cc -> (sg /. c2f cc) ** 12. +. (sg /. c2f cc) ** 6. | None -> 0. in
           acc2 +. 4. *. ep *. (x *. x +. x +. sh)) acc lb) 0. la in
       let chk name m i scale =
         let m = c2f m in
         if same m i || (Float.is_nan m && Float.is_nan i) then ()
         else if Float.abs (m -. i) <= 1e-12 *. (1. +. Float.abs i +. scale) then upd 1
         else note (Printf.sprintf "%s: model %h (%g) impl %h (%g)" name m m i i) in
       chk "molecule energy(a,b)" (ljshape_energy numF powi c.mola c.molb) eab (terms c.mola c.molb);
       chk "molecule energy(b,a)" (ljshape_energy numF powi c.molb c.mola) eba (terms c.molb c.mola)
   | None -> ());
  (* C09 / C10: the order on states against the model's score_cmp / score_eq / max (Pipeline.v) *)
  (match c.ord with
   | Some (sc, cmps, eqs, left, right, iter) ->
       let o i = Option.map f2c sc.(i) in
       let code i j = match score_cmp numF (o i) (o j) with Some Lt -> 'L' | Some Eq -> 'E' | Some Gt -> 'G' | None -> 'N' in
       let mc = String.init 9 (fun k -> code (k / 3) (k mod 3)) in
       let me = String.init 9 (fun k -> if score_eq numF (o (k / 3)) (o (k mod 3)) then '1' else '0') in
       if mc <> cmps then note (Printf.sprintf "partial_cmp of the states: model %s impl %s" mc cmps);
       if me <> eqs then note (Printf.sprintf "== of the states: model %s impl %s" me eqs);
       (* identical variants are interchangeable: the harness names the last one *)
       let field k = try List.find_map (fun t -> let p = k ^ "=" in let n = String.length p in
                         if String.length t > n && String.sub t 0 n = p then Some (String.sub t n (String.length t - n)) else None)
                         (String.split_on_char ' ' c.spec) with Not_found -> None in
       let three k = match field k with Some v -> Array.of_list (String.split_on_char ':' v) | None -> [| "0"; "0"; "0" |] in
       let dl = three "dlen" and dx = three "dx" in
       let canon i = let r = ref i in for j = 0 to 2 do if dl.(j) = dl.(i) && dx.(j) = dx.(i) then r := j done; !r in
       (* Ord::max: never panics; unordered keeps the second *)
       let mx i j = if max_keeps_first numF (o i) (o j) then i else j in
       let ml = string_of_int (canon (mx (mx 0 1) 2)) and mr = string_of_int (canon (mx 0 (mx 1 2))) in
       (* Iterator::max folds with Ord::cmp (unwrap): any unordered comparison is a panic; ties keep the later *)
       let step acc j = match acc with
         | None -> None
         | Some i -> (match score_cmp numF (o i) (o j) with Some Gt -> Some i | Some _ -> Some j | None -> None) in
       let mi = match step (step (Some 0) 1) 2 with Some i -> string_of_int (canon i) | None -> "P" in
       if ml <> left then note (Printf.sprintf "max(max(a,b),c): model %s impl %s" ml left);
       if mr <> right then note (Printf.sprintf "max(a,max(b,c)): model %s impl %s" mr right);
       if mi <> iter then note (Printf.sprintf "iter().max(): model %s impl %s" mi iter)
   | None -> ());
  (match c.lj2 with
   | Some (a, b, eab, eba) ->
       (* the shifted energy is a difference of terms that can be far larger than the result: the
          tolerance is relative to the magnitude of the terms (powi's multiplication order is not specified) *)
       let terms (p : lj) (q : lj) : float =
         let sg = c2f p.lsigma and ep = Float.abs (c2f p.leps) in
         let r2 = (c2f p.lx -. c2f q.lx) ** 2. +. (c2f p.ly -. c2f q.ly) ** 2. in
         let x = (sg *. sg /. r2) ** 3. in
         let sh = match p.lcut with Some c -> (sg /. c2f c) ** 12. +. (sg /. c2f c) ** 6. | None -> 0. in
         4. *. ep *. (x *. x +. x +. sh) in
       let chk name m i scale =
         let m = c2f m in
         if same m i || (Float.is_nan m && Float.is_nan i) then ()
         else if Float.abs (m -. i) <= 1e-12 *. (1. +. Float.abs i +. scale) then upd 1
         else note (Printf.sprintf "%s: model %h (%g) impl %h (%g)" name m m i i) in
       chk "energy(a,b)" (lj_energy numF powi a b) eab (terms a b); chk "energy(b,a)" (lj_energy numF powi b a) eba (terms b a)
   | None -> ());
  (match c.pair with
   | _ when c.lj2 <> None -> ()
   | Some (t1, t2, ab, ba, sep) ->
       (* the crate's Transform2 * Transform2 against the model's tf_mul, entry by entry *)
       List.iter (fun (l, r, p) ->
           let m = arr_of_tf (tf_mul numF (tf_of_arr l) (tf_of_arr r)) in
           let bad = ref false in
           Array.iteri (fun k x -> if not (same x p.(k) || (Float.is_nan x && Float.is_nan p.(k))) then bad := true) m;
           if !bad then note (Printf.sprintf "Transform2 * Transform2: model [%s] impl [%s]"
                                (String.concat " " (Array.to_list (Array.map (Printf.sprintf "%h") m)))
                                (String.concat " " (Array.to_list (Array.map (Printf.sprintf "%h") p))))) c.muls;
       let shape = if c.kind = 'P' then Poly c.segs else Mol c.discs in
       let s1 = shape_transform numF (tf_of_arr t1) shape in
       let s2 = shape_transform numF (tf_of_arr t2) shape in
       let m_ab = shape_intersects numF s1 s2 and m_ba = shape_intersects numF s2 s1 in
       let chk name m i =
         if i <> "-" && m <> (i = "1") then begin
           if Float.abs sep <= 1e-9 then incr band
           else note (Printf.sprintf "%s: model %b, implementation %s (oracle separation %e)" name m i sep)
         end in
       chk "intersects(a,b)" m_ab ab; chk "intersects(b,a)" m_ba ba
   | None when c.ord <> None || c.ljm <> None -> ()
   | None ->
       let sites = if c.sites = [] then failwith "no site" else c.sites in
       let cell = match c.cell with Some s -> s | None -> failwith "no cell" in
       let scale = Float.max 1. (Float.max (Float.abs (c2f cell.c_len)) (Float.abs (c2f cell.c_len *. c2f cell.c_ratio))) in
       let rel_m = List.concat_map (positions numF c.syms) sites in
       let rel_i = List.rev c.rel in
       if List.length rel_m <> List.length rel_i then
         note (Printf.sprintf "%d relative positions, model %d" (List.length rel_i) (List.length rel_m))
       else List.iteri (fun k m ->
           let i = List.nth rel_i k in
           let r = cmp9 1. (arr_of_tf m) i in
           if r = 2 then note (Printf.sprintf "relative position %d: model [%s] impl [%s]" k (show9 (arr_of_tf m)) (show9 i))
           else upd r) rel_m;
       let cart_m = List.map (to_cartesian_isometry numF cell) rel_m in
       let cart_i = List.rev c.cart in
       if List.length cart_m = List.length cart_i then
         List.iteri (fun k m ->
             let i = List.nth cart_i k in
             let r = cmp9 scale (arr_of_tf m) i in
             if r = 2 then note (Printf.sprintf "cartesian position %d: model [%s] impl [%s]" k (show9 (arr_of_tf m)) (show9 i))
             else upd r) cart_m
       else note "number of cartesian positions";
       (match c.img_hdr with
        | Some (idx, k, zero, count) when idx < List.length rel_m ->
            let im = periodic_images numF cell (List.nth rel_m idx) (z_of_int k) zero in
            let ii = List.rev c.imgs in
            if List.length im <> count || List.length ii <> count then
              note (Printf.sprintf "periodic images: implementation %d, model %d (k=%d zero=%b)" count (List.length im) k zero)
            else List.iteri (fun j m ->
                let i = List.nth ii j in
                let r = cmp9 (scale *. float_of_int (k + 1)) (arr_of_tf m) i in
                if r = 2 then note (Printf.sprintf "periodic image %d: model [%s] impl [%s]" j (show9 (arr_of_tf m)) (show9 i))
                else upd r) im
        | _ -> ());
       (* the area of the shape (C02) *)
       (if c.kind = 'P' && c.segs <> [] then begin
          let n = float_of_int (List.length c.segs) in
          let m = c2f (poly_area numF (f2c (sin (2. *. Float.pi /. n))) c.segs) in
          if same m c.area then () else if Float.abs (m -. c.area) <= 1e-12 *. (1. +. Float.abs c.area) then upd 1
          else note (Printf.sprintf "polygon area: model %h impl %h" m c.area)
        end else if c.kind = 'M' && c.discs <> [] then begin
          let m = c2f (mol_area numF (fun x -> f2c (acos (c2f x))) (f2c Float.pi) c.discs) in
          if same m c.area || (Float.is_nan m && Float.is_nan c.area) then ()
          else if Float.abs (m -. c.area) <= 1e-12 *. (1. +. Float.abs c.area) then upd 1
          else note (Printf.sprintf "molecule area: model %h impl %h" m c.area)
        end);
       (* the shape constructors (from_radial / polygon / from_trimer / circle) against the model's *)
       (let field k = List.find_map (fun t -> let p = k ^ "=" in let n = String.length p in
                        if String.length t > n && String.sub t 0 n = p then Some (String.sub t n (String.length t - n)) else None)
                        (String.split_on_char ' ' c.spec) in
        let fl s = if String.length s > 1 && s.[0] = 'x' then float_of_hex (String.sub s 1 (String.length s - 1)) else float_of_string s in
        let fsin x = f2c (sin (c2f x)) and fcos x = f2c (cos (c2f x)) and pi = f2c Float.pi in
        let close a b = same a b || Float.abs (a -. b) <= 1e-15 *. (1. +. Float.abs b) in
        let overridden = field "cuts" <> None || field "epss" <> None || field "sigs" <> None in
        match field "shape", field "kind" with
        | Some sh, kind when not overridden ->
            let parts = String.split_on_char ':' sh in
            (match parts, kind with
             | ("polygon" | "radial") :: rest, _ when c.kind = 'P' ->
                 let pts = if List.hd parts = "polygon" then List.init (int_of_string (List.hd rest)) (fun _ -> f2c 1.)
                           else List.map (fun t -> f2c (fl t)) rest in
                 let m = from_radial numF pi fsin fcos pts in
                 if List.length m <> List.length c.segs then note "shape constructor: number of edges"
                 else List.iteri (fun i (a : seg) ->
                     let b = List.nth c.segs i in
                     let l = [ (a.sx1, b.sx1); (a.sy1, b.sy1); (a.sx2, b.sx2); (a.sy2, b.sy2) ] in
                     if List.for_all (fun (x, y) -> same (c2f x) (c2f y)) l then ()
                     else if List.for_all (fun (x, y) -> close (c2f x) (c2f y)) l then upd 1
                     else note (Printf.sprintf "from_radial edge %d: model (%h,%h)-(%h,%h) impl (%h,%h)-(%h,%h)" i
                                  (c2f a.sx1) (c2f a.sy1) (c2f a.sx2) (c2f a.sy2) (c2f b.sx1) (c2f b.sy1) (c2f b.sx2) (c2f b.sy2))) m
             | [ "circle" ], _ when c.kind = 'M' ->
                 (match c.discs with
                  | [ d ] when same (c2f d.dx_) 0. && same (c2f d.dy_) 0. && same (c2f d.dr) 1. -> ()
                  | _ -> note "circle(): not one unit disc at the origin")
             | [ "trimer"; r; a; d ], _ when c.kind = 'M' ->
                 let m = mol_trimer numF pi fsin fcos (f2c (fl r)) (f2c (fl a)) (f2c (fl d)) in
                 if List.length m <> List.length c.discs then note "from_trimer: number of discs"
                 else List.iteri (fun i (x : disc) ->
                     let y = List.nth c.discs i in
                     let l = [ (x.dx_, y.dx_); (x.dy_, y.dy_); (x.dr, y.dr) ] in
                     if List.for_all (fun (p, q) -> same (c2f p) (c2f q)) l then ()
                     else if List.for_all (fun (p, q) -> close (c2f p) (c2f q)) l then upd 1
                     else note (Printf.sprintf "from_trimer disc %d: model (%h,%h,%h) impl (%h,%h,%h)" i
                                  (c2f x.dx_) (c2f x.dy_) (c2f x.dr) (c2f y.dx_) (c2f y.dy_) (c2f y.dr))) m
             | ([ "circle" ] | [ "trimer"; _; _; _ ]), _ when c.kind = 'J' ->
                 let m = (match parts with
                          | [ "trimer"; r; a; d ] -> lj_trimer numF pi fsin fcos (f2c 3.5) (f2c (fl r)) (f2c (fl a)) (f2c (fl d))
                          | _ -> lj_circle numF) in
                 let oeq p q = match p, q with None, None -> true | Some x, Some y -> same (c2f x) (c2f y) | _ -> false in
                 if List.length m <> List.length c.ljs then note "LJ shape constructor: number of particles"
                 else List.iteri (fun i (x : lj) ->
                     let y = List.nth c.ljs i in
                     let l = [ (x.lx, y.lx); (x.ly, y.ly); (x.lsigma, y.lsigma); (x.leps, y.leps) ] in
                     if not (oeq x.lcut y.lcut) then note (Printf.sprintf "LJ particle %d: cutoff differs from the constructor's" i)
                     else if List.for_all (fun (p, q) -> same (c2f p) (c2f q)) l then ()
                     else if List.for_all (fun (p, q) -> close (c2f p) (c2f q)) l then upd 1
                     else note (Printf.sprintf "LJ particle %d: model (%h,%h,s=%h,e=%h) impl (%h,%h,s=%h,e=%h)" i
                                  (c2f x.lx) (c2f x.ly) (c2f x.lsigma) (c2f x.leps) (c2f y.lx) (c2f y.ly) (c2f y.lsigma) (c2f y.leps))) m
             | _ -> ())
        | _ -> ());
       (* the enclosing radius of the shape (C01): Shape::enclosing_radius against the model's shape_radius *)
       (if (c.kind = 'P' && c.segs <> []) || (c.kind = 'M' && c.discs <> []) then begin
          let shape = if c.kind = 'P' then Poly c.segs else Mol c.discs in
          let m = c2f (shape_radius numF (f2c (-. Float.max_float)) shape) in
          if same m c.radius || (Float.is_nan m && Float.is_nan c.radius) then ()
          else if Float.abs (m -. c.radius) <= 1e-12 *. (1. +. Float.abs c.radius) then upd 1
          else note (Printf.sprintf "enclosing radius: model %h impl %h" m c.radius)
        end);
       (match c.carea with
        | Some a ->
            let m = c2f (cell_area numF cell) in
            if same m a then () else if Float.abs (m -. a) <= 1e-12 *. scale *. scale then upd 1
            else note (Printf.sprintf "cell area: model %h impl %h" m a)
        | None -> ());
       (match c.score with
        | None -> ()
        | Some impl_score ->
            if c.kind = 'J' then begin
              let stj = { l_syms = c.syms; l_sites = sites; l_cell = cell; l_shape = c.ljs } in
              match lj_score numF powi stj, impl_score with
              | Some m, Some i ->
                  let m = c2f m in
                  if same m i || (Float.is_nan m && Float.is_nan i) then ()
                  else if Float.abs (m -. i) <= 1e-9 *. (1. +. Float.abs i) then upd 1
                  else if Float.is_integer 0. && (Float.abs i > 1e12 || Float.abs m > 1e12) && Float.abs (m -. i) <= 1e-6 *. Float.abs i then upd 1
                  else note (Printf.sprintf "LJ score: model %h (%g) impl %h (%g)" m m i i)
              | _, None -> note "LJ score: implementation returned None"
              | None, _ -> note "LJ score: model returned None"
            end else begin
              let shape = if c.kind = 'P' then Poly c.segs else Mol c.discs in
              let stp = { p_syms = c.syms; p_sites = sites; p_cell = cell; p_shape = shape;
                          p_radius = f2c c.radius; p_area = f2c c.area } in
              match packed_score numF stp, impl_score with
              | Some m, Some i ->
                  let m = c2f m in
                  if same m i then () else if Float.abs (m -. i) <= 1e-12 *. (1. +. Float.abs i) then upd 1
                  else note (Printf.sprintf "hard score: model %h impl %h" m i)
              | None, None -> ()
              | Some _, None | None, Some _ ->
                  if (not (Float.is_nan c.minsep)) && Float.abs c.minsep <= 1e-9 then incr band
                  else note (Printf.sprintf "hard score defined: model %b, implementation %b (oracle separation %e)"
                               (packed_score numF stp <> None) (impl_score <> None) c.minsep)
            end));
  match !mism with
  | [] -> Printf.sprintf "OK strength=%s band=%d" (if !strength = 0 then "bit" else "tol") !band
  | l -> Printf.sprintf "MISMATCH %s" (String.concat " ;; " (List.rev l))

let main (path : string) : unit =
  let ic = open_in path in
  let cur = ref (fresh ()) in
  (try
     while true do
       let l = input_line ic in
       if String.length l = 0 then ()
       else begin
         let c = !cur in
         let toks = split l in
         match l.[0], toks with
         | 'K', _ -> cur := fresh (); (!cur).spec <- String.sub l 2 (String.length l - 2)
         | 'S', _ :: r -> c.syms <- c.syms @ [ tf_of_arr (nine r) ]
         | 'T', [_; x; y; cs; sn] -> c.sites <- c.sites @ [ { s_x = h x; s_y = h y; s_cos = h cs; s_sin = h sn } ]
         | 'L', [_; a; r; cs; sn] -> c.cell <- Some { c_len = h a; c_ratio = h r; c_cos = h cs; c_sin = h sn }
         | ('P' | 'M' | 'J'), _ -> c.kind <- l.[0]
         | 'I', [_; a; b; cc; d] when c.kind = 'P' -> c.segs <- c.segs @ [ { sx1 = h a; sy1 = h b; sx2 = h cc; sy2 = h d } ]
         | 'I', [_; a; b; r] when c.kind = 'M' -> c.discs <- c.discs @ [ { dx_ = h a; dy_ = h b; dr = h r } ]
         | 'I', [_; a; b; sg; ep; cut] when c.kind = 'J' ->
             c.ljs <- c.ljs @ [ { lx = h a; ly = h b; lsigma = h sg; leps = h ep;
                                  lcut = Option.map f2c (opt_float_of_tok cut) } ]
         | 'Q', [_; r; a] -> c.radius <- float_of_hex r; c.area <- float_of_hex a
         | 'r', _ :: r -> c.rel <- nine r :: c.rel
         | 'c', _ :: r -> c.cart <- nine r :: c.cart
         | 'g', [_; idx; k; zero; count] ->
             c.img_hdr <- Some (int_of_string idx, int_of_string k, zero = "1", int_of_string count)
         | 'i', _ :: r -> c.imgs <- nine r :: c.imgs
         | 's', [_; s] -> c.score <- Some (opt_float_of_tok s)
         | 'a', [_; a] -> c.carea <- Some (float_of_hex a)
         | 'm', [_; m] -> c.minsep <- float_of_hex m
         | 'X', _ :: r when List.length r = 21 ->
             let a = Array.of_list r in
             c.pair <- Some (nine (Array.to_list (Array.sub a 0 9)), nine (Array.to_list (Array.sub a 9 9)),
                             a.(18), a.(19), float_of_hex a.(20))
         | 'U', _ :: r when List.length r = 27 ->
             let a = Array.of_list r in
             c.muls <- (nine (Array.to_list (Array.sub a 0 9)), nine (Array.to_list (Array.sub a 9 9)),
                        nine (Array.to_list (Array.sub a 18 9))) :: c.muls
         | 'Z', [_; x1; y1; s1; e1; c1; x2; y2; s2; e2; c2; eab; eba] ->
             c.lj2 <- Some ({ lx = h x1; ly = h y1; lsigma = h s1; leps = h e1; lcut = Option.map f2c (opt_float_of_tok c1) },
                            { lx = h x2; ly = h y2; lsigma = h s2; leps = h e2; lcut = Option.map f2c (opt_float_of_tok c2) },
                            float_of_hex eab, float_of_hex eba)
         | 'O', [_; a; b; cc; cmps; eqs; left; right; iter] ->
             c.ord <- Some ([| opt_float_of_tok a; opt_float_of_tok b; opt_float_of_tok cc |], cmps, eqs, left, right, iter)
         | 'W', [_; _; _; eab; eba] -> c.ljm <- Some (float_of_hex eab, float_of_hex eba)
         | ('A' | 'B'), [_; x; y; sg; ep; cut] ->
             let p = { lx = h x; ly = h y; lsigma = h sg; leps = h ep; lcut = Option.map f2c (opt_float_of_tok cut) } in
             if l.[0] = 'A' then c.mola <- c.mola @ [ p ] else c.molb <- c.molb @ [ p ]
         | 'N', _ -> c.nomodel <- true
         | 'E', _ ->
             let r = if c.nomodel then "OK strength=bit band=0 nomodel" else (try run_case c with e -> "MISMATCH exception " ^ Printexc.to_string e) in
             Printf.printf "R %s | %s\n" c.spec r
         | _ -> ()
       end
     done
   with End_of_file -> close_in ic)
