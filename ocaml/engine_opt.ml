(* engine_opt.ml - correspondence of the extracted optimiser model with recorded runs of
   MCOptimiser::optimise_state.  For each case the harness recorded: the builder
   settings, the initial parameter cells and handles, the random draws the run consumed
   (replayed from the seed), and for every State::score() call the parameter vector and
   the score returned.  The model is run with the same settings and draws and with the
   recorded scores as its oracle; it must ask for the score of bit-identical parameter
   vectors at every call, make the same number of calls, and end in the same state. *)
open Model
open Util

type call = { sc : float option; vec : float array }

type case = {
  mutable spec : string;
  mutable b : builder option;
  mutable ps : float list;
  mutable hs : (int * float * float) list;
  mutable draws : draw list;        (* reversed while reading *)
  mutable calls : call list;        (* reversed while reading *)
  mutable final : float list option;
  mutable outcome : string;
}

let fresh () = { spec = ""; b = None; ps = []; hs = []; draws = []; calls = [];
                 final = None; outcome = "" }

(* libm's exp and pow; with VH_LIBM_LOG=1 every distinct call of a case is written out ("Q e x r" / "Q p x y r",
   before the case's R line) so that the same model can be evaluated INSIDE Coq with these values as its oracle *)
let logging = (try Sys.getenv "VH_LIBM_LOG" = "1" with Not_found -> false)
let seen : (string, unit) Hashtbl.t = Hashtbl.create 997
let logged : string list ref = ref []
let remember (key : string) = if logging && not (Hashtbl.mem seen key) then begin Hashtbl.add seen key (); logged := key :: !logged end
let libm_exp (x : carrier) : carrier =
  let r = exp (c2f x) in
  remember (Printf.sprintf "e %s %s" (hex_of_float (c2f x)) (hex_of_float r));
  f2c r
let libm_pow (x : carrier) (y : carrier) : carrier =
  let r = c2f x ** c2f y in
  remember (Printf.sprintf "p %s %s %s" (hex_of_float (c2f x)) (hex_of_float (c2f y)) (hex_of_float r));
  f2c r

let run_case (c : case) : string =
  let b = match c.b with Some b -> b | None -> failwith "case without B line" in
  let calls = Array.of_list (List.rev c.calls) in
  let mism = ref None in
  let note s = if !mism = None then mism := Some s in
  let asked = ref 0 in
  let oracle (k : n) (ps : carrier list) : carrier option =
    let ki = int_of_n k in
    incr asked;
    if ki >= Array.length calls then begin
      note (Printf.sprintf "model asks for score() call %d but the implementation made only %d" ki (Array.length calls));
      None end
    else begin
      let v = calls.(ki).vec in
      let psl = Array.of_list (List.map c2f ps) in
      if Array.length psl <> Array.length v then
        note (Printf.sprintf "call %d: vector length %d vs %d" ki (Array.length psl) (Array.length v))
      else
        Array.iteri (fun i x ->
          if not (same_bits x v.(i)) then
            note (Printf.sprintf "call %d param %d: model %s (%h) impl %s (%h)" ki i
                    (hex_of_float x) x (hex_of_float v.(i)) v.(i))) psl;
      (match calls.(ki).sc with None -> None | Some s -> Some (f2c s))
    end in
  let cfg = build numF libm_pow b in
  let hs = List.map (fun (cell, lo, hi) ->
      { h_cell = nat_of_int cell; h_min = f2c lo; h_max = f2c hi;
        h_old = f2c (List.nth c.ps cell) }) c.hs in
  let out = optimise numF libm_exp oracle cfg (List.map f2c c.ps) hs (List.rev c.draws) in
  let impl_ok = (c.outcome = "ok") in
  let describe = ref "" in
  (match out with
   | Returned st ->
       if not impl_ok then note ("model returns normally, implementation: " ^ c.outcome)
       else begin
         (match c.final with
          | Some f ->
              let mf = List.map c2f st.params in
              if List.length mf <> List.length f then note "final vector length"
              else List.iteri (fun i x ->
                  if not (same_bits x (List.nth f i)) then
                    note (Printf.sprintf "final param %d: model %s impl %s" i
                            (hex_of_float x) (hex_of_float (List.nth f i)))) mf
          | None -> note "no final vector recorded");
         if !asked <> Array.length calls then
           note (Printf.sprintf "model made %d score() calls, implementation %d" !asked (Array.length calls))
       end;
       describe := Printf.sprintf "calls=%d loops=%d converged=%b kt_end=%s ratio_end=%s"
           !asked (int_of_n st.loops_done) st.converged
           (hex_of_float (c2f st.kt)) (hex_of_float (c2f st.ratio))
   | PanicInvalidInput ->
       if impl_ok then note "model: panic (invalid input), implementation returned";
       describe := "panic_invalid_input"
   | PanicBadIndex ->
       if impl_ok then note "model: panic (bad index), implementation returned";
       describe := "panic_bad_index"
   | PanicFinalInvalid ->
       if impl_ok then note "model: panic (final state invalid), implementation returned";
       describe := "panic_final_invalid"
   | OutOfDraws -> note "model ran out of draws (harness supplied too few)");
  match !mism with
  | None -> Printf.sprintf "OK %s" !describe
  | Some m -> Printf.sprintf "MISMATCH %s" m

let main (path : string) : unit =
  let ic = open_in path in
  let cur = ref (fresh ()) in
  let nok = ref 0 and nbad = ref 0 in
  (try
     while true do
       let l = input_line ic in
       if String.length l = 0 then ()
       else begin
         let c = !cur in
         match l.[0] with
         | 'K' -> cur := fresh (); (!cur).spec <- String.sub l 2 (String.length l - 2)
         | 'B' ->
             (match split l with
              | [_; steps; kts; ktf; ktr; ms; inner; conv] ->
                  c.b <- Some { b_steps = n_of_int (int_of_string steps);
                                b_kt_start = f2c (float_of_hex kts);
                                b_kt_finish = Option.map f2c (opt_float_of_tok ktf);
                                b_kt_ratio = Option.map f2c (opt_float_of_tok ktr);
                                b_max_step = f2c (float_of_hex ms);
                                b_inner = n_of_int (int_of_string inner);
                                b_conv = Option.map f2c (opt_float_of_tok conv) }
              | _ -> failwith ("bad B line: " ^ l))
         | 'P' -> c.ps <- List.map float_of_hex (List.tl (split l))
         | 'H' ->
             (match split l with
              | [_; cell; lo; hi] -> c.hs <- c.hs @ [ (int_of_string cell, float_of_hex lo, float_of_hex hi) ]
              | _ -> failwith ("bad H line: " ^ l))
         | 'D' ->
             (match split l with
              | [_; i; g; t] -> c.draws <- { d_idx = nat_of_int (int_of_string i);
                                             d_g = f2c (float_of_hex g); d_thr = f2c (float_of_hex t) } :: c.draws
              | _ -> failwith ("bad D line: " ^ l))
         | 'C' ->
             (match split l with
              | _ :: sc :: vec ->
                  c.calls <- { sc = opt_float_of_tok sc;
                               vec = Array.of_list (List.map float_of_hex vec) } :: c.calls
              | _ -> failwith ("bad C line: " ^ l))
         | 'F' -> c.final <- Some (List.map float_of_hex (List.tl (split l)))
         | 'O' -> c.outcome <- String.sub l 2 (String.length l - 2)
         | 'E' ->
             Hashtbl.reset seen; logged := [];
             let r = run_case c in
             if logging && List.length !logged <= 4000 then List.iter (fun k -> Printf.printf "Q %s\n" k) (List.rev !logged);
             if String.length r >= 2 && String.sub r 0 2 = "OK" then incr nok else incr nbad;
             Printf.printf "R %s | %s\n" c.spec r
         | _ -> ()
       end
     done
   with End_of_file -> close_in ic);
  Printf.printf "SUMMARY ok=%d mismatch=%d\n" !nok !nbad
