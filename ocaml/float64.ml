(* float64.ml - the module name that Coq's ExtrOCamlFloats directives refer to,
   implemented with OCaml's native IEEE-754 binary64 operations (SSE2 on x86-64, no
   fused multiply-add, round-to-nearest-even).  Only the operations the extracted
   models use are provided. *)
type t = float
type float_comparison = FEq | FLt | FGt | FNotComparable
type float_class = PNormal | NNormal | PSubn | NSubn | PZero | NZero | PInf | NInf | NaN

let of_float (x : float) : t = x
let add (x : t) (y : t) : t = x +. y
let sub (x : t) (y : t) : t = x -. y
let mul (x : t) (y : t) : t = x *. y
let div (x : t) (y : t) : t = x /. y
let opp (x : t) : t = -. x
let abs (x : t) : t = Float.abs x
let sqrt (x : t) : t = Stdlib.sqrt x
(* IEEE comparisons: false whenever an operand is NaN; -0 = +0 *)
let eq (x : t) (y : t) : bool = (x = y)
let lt (x : t) (y : t) : bool = (x < y)
let le (x : t) (y : t) : bool = (x <= y)
let compare (x : t) (y : t) : float_comparison =
  if x < y then FLt else if x > y then FGt else if x = y then FEq else FNotComparable
(* Leibniz equality: same bit pattern up to NaN payload *)
let equal (x : t) (y : t) : bool =
  (Float.is_nan x && Float.is_nan y) || Int64.equal (Int64.bits_of_float x) (Int64.bits_of_float y)
let classify (x : t) : float_class =
  match classify_float x with
  | FP_normal -> if x < 0. then NNormal else PNormal
  | FP_subnormal -> if x < 0. then NSubn else PSubn
  | FP_zero -> if 1. /. x < 0. then NZero else PZero
  | FP_infinite -> if x < 0. then NInf else PInf
  | FP_nan -> NaN
