(* driver.ml - runs the extracted Coq models on case files written by the Rust harness. *)
let () =
  match Array.to_list Sys.argv with
  | [_; "opt"; path] -> Engine_opt.main path
  | [_; "parse"; path] -> Engine_parse.main path
  | [_; "geom"; path] -> Engine_geom.main path
  | [_; "libm"] ->
      (* the same values through the OCaml runtime (the oracle side of the correspondence) *)
      let mn x y = if Float.is_nan x then y else if Float.is_nan y then x else Float.min x y in
      let mx x y = if Float.is_nan x then y else if Float.is_nan y then x else Float.max x y in
      let v = [ exp neg_infinity; exp infinity; exp nan; exp 0.; exp (-0.); mn nan 1.; mn infinity 1.; mx 0. nan;
                infinity ** 0.5; 0. ** 0.5; acos 1.; acos (-1.); sin 0.; cos 0. ] in
      print_endline (String.concat " " (List.map Util.hex_of_float v))
  | _ -> prerr_endline "usage: driver <engine> <casefile>"; exit 2
