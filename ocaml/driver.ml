(* driver.ml - runs the extracted Coq models on case files written by the Rust harness. *)
let () =
  match Array.to_list Sys.argv with
  | [_; "opt"; path] -> Engine_opt.main path
  | [_; "parse"; path] -> Engine_parse.main path
  | [_; "geom"; path] -> Engine_geom.main path
  | _ -> prerr_endline "usage: driver <engine> <casefile>"; exit 2
