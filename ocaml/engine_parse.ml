(* engine_parse.ml - runs the extracted model of Transform2::from_operations (NumF instance) on
   the same strings the Rust harness parsed.  Input: one string per line as hex of its UTF-8
   bytes ("-" = empty).  Output: "Ok <9 hex floats row-major>" | "Err". *)
open Model
open Util

let ascii_of_byte (b : int) : ascii =
  Ascii (b land 1 <> 0, b land 2 <> 0, b land 4 <> 0, b land 8 <> 0,
         b land 16 <> 0, b land 32 <> 0, b land 64 <> 0, b land 128 <> 0)

let bytes_of_hex (s : string) : int list =
  if s = "-" then []
  else List.init (String.length s / 2) (fun i -> int_of_string ("0x" ^ String.sub s (2 * i) 2))

let main (path : string) : unit =
  let ic = open_in path in
  (try
     while true do
       let l = String.trim (input_line ic) in
       let cs = List.map ascii_of_byte (bytes_of_hex l) in
       match from_operations_l numF cs with
       | POk (((a, b), c), ((d, e), f)) ->
           let h x = hex_of_float (c2f x) in
           Printf.printf "Ok %s %s %s %s %s %s %s %s %s\n" (h a) (h b) (h c) (h d) (h e) (h f)
             (hex_of_float 0.) (hex_of_float 0.) (hex_of_float 0.)
       | PErr -> print_endline "Err"
     done
   with End_of_file -> close_in ic)
