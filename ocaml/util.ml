(* util.ml - conversions between OCaml values and the extracted Coq datatypes, and
   the bit-pattern text encoding of floats used on the harness/driver boundary. *)
open Model

let f2c (x : float) : carrier = Obj.magic x
let c2f (x : carrier) : float = Obj.magic x

(* 16 hex digits -> float.  Int64.of_string "0x..." accepts up to 0xFFFFFFFFFFFFFFFF. *)
let float_of_hex (s : string) : float = Int64.float_of_bits (Int64.of_string ("0x" ^ s))
let hex_of_float (x : float) : string = Printf.sprintf "%016Lx" (Int64.bits_of_float x)

let same_bits (x : float) (y : float) : bool =
  Int64.equal (Int64.bits_of_float x) (Int64.bits_of_float y)
  || (Float.is_nan x && Float.is_nan y)

let rec pos_of_int (i : int) : positive =
  if i <= 1 then XH
  else if i land 1 = 0 then XO (pos_of_int (i lsr 1))
  else XI (pos_of_int (i lsr 1))
let n_of_int (i : int) : n = if i <= 0 then N0 else Npos (pos_of_int i)
let z_of_int (i : int) : z =
  if i = 0 then Z0 else if i > 0 then Zpos (pos_of_int i) else Zneg (pos_of_int (- i))
let rec int_of_pos (p : positive) : int =
  match p with XH -> 1 | XO q -> 2 * int_of_pos q | XI q -> 2 * int_of_pos q + 1
let int_of_n (x : n) : int = match x with N0 -> 0 | Npos p -> int_of_pos p
let int_of_z (x : z) : int =
  match x with Z0 -> 0 | Zpos p -> int_of_pos p | Zneg p -> - (int_of_pos p)
let rec nat_of_int (i : int) : nat = if i <= 0 then O else S (nat_of_int (i - 1))
let rec int_of_nat (x : nat) : int = match x with O -> 0 | S y -> 1 + int_of_nat y

let opt_float_of_tok (s : string) : float option =
  if s = "-" || s = "N" then None else Some (float_of_hex s)

let split (s : string) : string list =
  List.filter (fun t -> t <> "") (String.split_on_char ' ' s)

(* read all lines of a file *)
let read_lines (path : string) : string list =
  let ic = open_in path in
  let rec go acc =
    match input_line ic with
    | l -> go (l :: acc)
    | exception End_of_file -> close_in ic; List.rev acc
  in
  go []
