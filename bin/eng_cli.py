# eng_cli.py - the `cli` engine (C09 C10 C11 C20): the built `packing` binary, its library path replayed
# replica by replica in the harness (`vharness pipeline`), and the written files read back
# (`vharness state-info`).
import json
import os
import random
import re
import shutil
import struct
import subprocess

from vlib import *  # noqa

GROUPS = ["p1", "p2", "p1m1", "p1g1", "p2mm", "p2mg", "p2gg"]
ORDER = {"p1": 1, "p2": 2, "p1m1": 2, "p1g1": 2, "p2mm": 4, "p2mg": 4, "p2gg": 4}
FAMILY = {"p1": "Monoclinic", "p2": "Monoclinic"}


def fbits(h):
    return struct.unpack(">d", bytes.fromhex(h))[0]


def shape_args(shape):
    parts = shape.split(":")
    if parts[0] == "polygon":
        return ["polygon", "--sides", parts[1]], "Polygon"
    if parts[0] == "circle":
        return ["circle"], "circle"
    return ["trimer", "--radius", parts[1], "--angle", parts[2], "--distance", parts[3]], "Trimer"


def run_cli(binary, wd, group, shape, kind, k, opt, threads, tag):
    out = os.path.join(wd, "out_%s" % tag)
    # the output files exist already, with longer content: they must be replaced, not overwritten in place
    for ext in (".json", ".svg"):
        with open(out + ext, "wb") as f:
            f.write(b"{\"stale\": \"" + b"x" * 60000 + b"\"}")
    stale = {ext: os.path.getmtime(out + ext) for ext in (".json", ".svg")}
    sub, _ = shape_args(shape)
    cmd = [binary, "--outfile", out, "--replications", str(k), "--potential", "LJ" if kind == "lj" else "Hard"] + opt.split() + [group] + sub
    env = dict(os.environ)
    env["RAYON_NUM_THREADS"] = str(threads)
    env["RUST_BACKTRACE"] = "0"
    try:
        p = subprocess.run(cmd, env=env, stdout=subprocess.PIPE, stderr=subprocess.PIPE, timeout=int(os.environ.get("VERIF_CLI_TIMEOUT", "180")))
        rc, err = p.returncode, p.stderr.decode("utf-8", "replace") + p.stdout.decode("utf-8", "replace")
    except subprocess.TimeoutExpired:
        rc, err = 124, "timeout"
    def fresh(ext):
        if not os.path.exists(out + ext):
            return None
        data = open(out + ext, "rb").read()
        return None if data.startswith(b"{\"stale\": \"xxxx") and len(data) > 60000 else data
    js = fresh(".json")
    sv = fresh(".svg")
    m = re.search(r"Final score: (\S+)", err)
    return dict(rc=rc, err=err, json=js, svg=sv, logged=m.group(1) if m else None, out=out, cmd=" ".join(cmd[1:]))


def state_info(kind, shape, out):
    rc, o = sh([HARNESS, "state-info", "--kind", kind, "--shape", shape, "--json", out + ".json", "--svg", out + ".svg"], timeout=300)
    d = {}
    for l in o.split("\n"):
        if " " in l:
            k, _, v = l.partition(" ")
            d[k] = v
    return d


def pipeline(kind, shape, group, k, opt, threads):
    rc, o = sh([HARNESS, "pipeline", "--group", group, "--kind", kind, "--shape", shape, "--replications", str(k),
                "--threads", ",".join(str(t) for t in threads), "--opt", opt], timeout=1200)
    d = dict(index={}, par=[], diff=[], raw=o[-400:] if rc != 0 else "")
    for l in o.split("\n"):
        t = l.split(" ")
        if t[0] == "I":
            d["index"][int(t[1])] = t[2]
        elif t[0] == "BEST":
            d["best"] = (t[1], t[2])
        elif t[0] == "BESTJSON":
            d["bestjson"] = l[len("BESTJSON "):]
        elif t[0] == "PAR":
            d["par"].append(l)
        elif t[0] == "DIFF":
            d["diff"].append(l)
        elif t[0] == "ORIG":
            d["orig"] = l
    d["rc"] = rc
    return d


def gen_cases(rng, n):
    shapes_h = ["polygon:3", "polygon:4", "polygon:5", "polygon:6", "circle", "trimer:0.637556:120:1", "trimer:0.7:90:1.2"]
    shapes_l = ["circle", "trimer:0.637556:120:1"]
    cases = []
    for _ in range(n):
        kind = "lj" if rng.random() < 0.3 else "hard"
        shape = rng.choice(shapes_l if kind == "lj" else shapes_h)
        group = rng.choice(GROUPS)
        steps = rng.choice([50, 100, 200, 400, 1000, 2000, 3000])
        opt = "--steps %d --inner-steps %d" % (steps, rng.choice([10, 50, 1000]))
        if rng.random() < 0.4:
            opt += " --kt-start %s" % rng.choice(["0.1", "0.5", "0.01"])
        if rng.random() < 0.3:
            opt += " --kt-finish %s" % rng.choice(["0.001", "0.01"])
        if rng.random() < 0.2:
            opt += " --convergence 1e-6"
        cases.append(dict(kind=kind, shape=shape, group=group, opt=opt, kmax=rng.choice([2, 3, 4, 5, 6])))
    return cases


def run(prop, conf, params, tier, seed, broken_gate):
    rng = random.Random(seed * 104729 + 7)
    rcb, outb, binary = build_cli()
    findings, mism, samples = [], [], []
    if rcb != 0:
        mism.append(dict(engine="cli", case="(build)", what="the packing binary does not build: " + outb[-400:]))
        return dict(evaluations=0, distinct_nontrivial=0, rule="", samples=[], findings=[], mismatches=mism, distribution={}, correspondence={}, searched=0, notes=[])
    wd = os.path.join(workdir(prop), "cli")
    shutil.rmtree(wd, ignore_errors=True)
    os.makedirs(wd)
    n = params[tier]
    cases = []
    cp = os.path.join(ROOT, "corpus", "cli.txt")
    if os.path.exists(cp):
        for l in open(cp):
            l = l.strip()
            if l and not l.startswith("#"):
                kv = dict(t.split("=", 1) for t in l.split(" ; "))
                kv["kmax"] = int(kv["kmax"])
                cases.append(kv)
    cases += gen_cases(rng, n)
    runs = 0
    dist = dict(groups={}, kinds={}, cli_runs=0, thread_counts=set(), error_cases=0)
    nontriv = set()

    def add(props, case, what):
        findings.append(dict(engine="cli", properties=props, case="cli " + case, what=what))

    for ci, c in enumerate(cases):
        kind, shape, group, opt, kmax = c["kind"], c["shape"], c["group"], c["opt"], c["kmax"]
        case = "group=%s kind=%s shape=%s opt=[%s] kmax=%d" % (group, kind, shape, opt, kmax)
        dist["groups"][group] = dist["groups"].get(group, 0) + 1
        dist["kinds"][kind] = dist["kinds"].get(kind, 0) + 1
        _, shape_name = shape_args(shape)
        prev_score = None
        lib = pipeline(kind, shape, group, kmax, opt, [1, 3, 8] if tier == "quick" else [1, 2, 3, 4, 8, 16])
        if lib["rc"] != 0:
            mism.append(dict(engine="cli", case="cli " + case, what="vharness pipeline failed: " + lib["raw"]))
            continue
        for l in lib["par"]:
            if "replicas_same=false" in l or "reduction_same=false" in l:
                add(["C09"], case, "library path: replicas run inside a rayon pool differ from the sequential run (%s; %s)" % (l, "; ".join(lib["diff"][:2])))
        if lib.get("orig") and "unchanged=false" in lib["orig"]:
            add(["C09"], case, "optimising clones changed the original state")
        for k in range(1, kmax + 1):
            threads = rng.choice([1, 2, 3, 4, 8, 16])
            dist["thread_counts"].add(threads)
            r = run_cli(binary, wd, group, shape, kind, k, opt, threads, "a")
            runs += 1
            kcase = case + " replications=%d threads=%d" % (k, threads)
            if "panicked" in r["err"]:
                add(["C20"], kcase, "the binary panicked: " + r["err"][-300:].replace("\n", " "))
                continue
            if r["rc"] != 0 or r["json"] is None or r["svg"] is None:
                add(["C20", "C10"], kcase, "exit status %d, json written=%s, svg written=%s: %s" % (
                    r["rc"], r["json"] is not None, r["svg"] is not None, r["err"][-200:].replace("\n", " ")))
                continue
            nontriv.add(kcase)
            info = state_info(kind, shape, r["out"])
            if info.get("LOAD") != "ok":
                # (the output path held OTHER, longer content before the run: what is there now is not a function of the
                #  arguments alone - C09 - and is not the structure the run found - C10, C11)
                add(["C11", "C09", "C10"], kcase, "the written JSON cannot be read back (the output path held other, longer content before the run): %s" % info.get("LOAD"))
                continue
            score = fbits(info["SCORE"]) if info.get("SCORE", "-") not in ("-", "") else None
            # C10: the logged score is the score of the written structure
            inexact = "class=serde-json-float-parse" in info.get("RESERIALISE", "")
            if r["logged"] is None or score is None or (float(r["logged"]) != score and not
                                                       (inexact and abs(float(r["logged"]) - score) <= 1e-9 * (1 + abs(score)))):
                add(["C10"], kcase, "logged final score %s, the written structure scores %r" % (r["logged"], score))
            # C10: labels and copies
            if info.get("NAME") != group:
                add(["C10"], kcase, "the structure written for %s is labelled %s" % (group, info.get("NAME")))
            fam = FAMILY.get(group, "Orthorhombic")
            if info.get("FAMILY") != "%s %s" % (fam, fam):
                add(["C10", "C04"], kcase, "crystal family recorded as %s, expected %s" % (info.get("FAMILY"), fam))
            if info.get("SHAPE") != shape_name:
                add(["C10"], kcase, "shape recorded as %s, expected %s" % (info.get("SHAPE"), shape_name))
            if info.get("COPIES") != str(ORDER[group]) or info.get("NSYM") != str(ORDER[group]):
                add(["C10", "C15"], kcase, "%s copies / %s operations, the group has order %d" % (info.get("COPIES"), info.get("NSYM"), ORDER[group]))
            # C10: the best replica, and monotone in the number of replications
            want = None
            for i in range(k):
                h = lib["index"].get(i)
                v = fbits(h) if h and h != "-" else None
                if v is not None and (want is None or v >= want):
                    want = v
            if score is not None and want is not None and score != want and not (inexact and abs(score - want) <= 1e-9 * (1 + abs(want))):
                add(["C10", "C09"], kcase, "the written structure scores %r, the best of replicas 0..%d scores %r" % (score, k - 1, want))
            if prev_score is not None and score is not None and score < prev_score:
                add(["C10"], kcase, "score %r with %d replications is lower than %r with %d" % (score, k, prev_score, k - 1))
            prev_score = score if score is not None else prev_score
            # C11: the files are the structure
            if not info.get("RESERIALISE", "").startswith("same=true"):
                cls = " [class=serde-json-float-parse]" if "class=serde-json-float-parse" in info.get("RESERIALISE", "") else ""
                add(["C11"], kcase, "re-serialising the written JSON gives a different text" + cls)
            if info.get("SVG") != "same=true":
                add(["C11"], kcase, "the SVG file is not the drawing of the structure in the JSON file")
            # C09: same arguments, other thread count, other process: same bytes
            if k == kmax or k == 2:
                t2 = rng.choice([t for t in [1, 2, 3, 5, 8, 16] if t != threads])
                r2 = run_cli(binary, wd, group, shape, kind, k, opt, t2, "b")
                runs += 1
                dist["thread_counts"].add(t2)
                if r2["json"] != r["json"] or r2["svg"] != r["svg"]:
                    add(["C09"], kcase, "the output files differ between %d and %d worker threads" % (threads, t2))
        if len(samples) < 4:
            samples.append(case)
    # C19: the command line's step size governs EVERY stage of a replica.  With --max-step-size 0 no parameter can move:
    # the written structure is the starting structure (the library path with a zero step returns it unchanged)
    if params.get("step_probe"):
        for (group, shape, kind) in [("p2", "polygon:4", "hard"), ("p2mg", "trimer:0.637556:120:1", "lj"), ("p1", "circle", "hard")]:
            for opt in ("--max-step-size 0 --steps 300 --inner-steps 100", "--max-step-size 0 --steps 40 --inner-steps 10 --kt-start 0.5"):
                lib = pipeline(kind, shape, group, 2, opt, [1])
                r = run_cli(binary, wd, group, shape, kind, 2, opt, 2, "s")
                runs += 1
                scase = "group=%s kind=%s shape=%s opt=[%s] replications=2" % (group, kind, shape, opt)
                if lib["rc"] != 0 or "bestjson" not in lib:
                    mism.append(dict(engine="cli", case="cli " + scase, what="vharness pipeline failed: " + lib["raw"]))
                    continue
                if r["json"] is None:
                    add(["C20"], scase, "no structure written: " + r["err"][-200:].replace("\n", " "))
                    continue
                nontriv.add(scase)
                try:
                    a = json.loads(r["json"].decode("utf-8"))
                    b = json.loads(lib["bestjson"])
                except ValueError:
                    add(["C11"], scase, "the written JSON cannot be parsed")
                    continue
                moved = []
                def walk(x, y, path):
                    if isinstance(x, dict) and isinstance(y, dict):
                        for k in x:
                            walk(x[k], y.get(k), path + "/" + k)
                    elif isinstance(x, list) and isinstance(y, list) and len(x) == len(y):
                        for i, (p, q) in enumerate(zip(x, y)):
                            walk(p, q, path + "/%d" % i)
                    elif x != y:
                        moved.append("%s: %r -> %r" % (path, y, x))
                walk(a, b, "")
                if moved:
                    add(["C19"], scase, "with --max-step-size 0 the written structure differs from the starting structure: " + "; ".join(moved[:3]))
    # C20: argument grid with zeros and errors
    errs = [
        ("--steps 0", "p2", "polygon:4", "hard", 2, 0), ("--steps 100 --inner-steps 0", "p1", "circle", "hard", 2, 0),
        ("--steps 0 --inner-steps 0", "p2mg", "circle", "lj", 1, 0), ("--steps 50", "p2", "polygon:4", "hard", 0, 1),
        ("--steps 50", "p2", "polygon:2", "hard", 1, 1), ("--steps 50", "p2", "polygon:4", "lj", 1, 1),
        ("--steps 50 --kt-start 0 --kt-finish 0.01", "p2gg", "trimer:0.637556:120:1", "lj", 2, 0),
        ("--steps 7 --inner-steps 1000 --convergence 0", "p1g1", "polygon:5", "hard", 2, 0),
    ]
    for opt, group, shape, kind, k, want_err in errs:
        r = run_cli(binary, wd, group, shape, kind, k, opt, 2, "e")
        runs += 1
        dist["error_cases"] += 1
        ecase = "group=%s kind=%s shape=%s opt=[%s] replications=%d" % (group, kind, shape, opt, k)
        if "panicked" in r["err"]:
            add(["C20"], ecase, "the binary panicked: " + r["err"][-300:].replace("\n", " "))
        elif want_err and (r["rc"] == 0):
            add(["C20"], ecase, "exit status 0 for arguments that cannot produce a structure")
        elif not want_err and (r["rc"] != 0 or r["json"] is None or r["svg"] is None):
            add(["C20"], ecase, "exit status %d / missing output files for valid arguments: %s" % (r["rc"], r["err"][-200:].replace("\n", " ")))
        else:
            nontriv.add(ecase)
    # a bad group name, an unwritable output file
    p = subprocess.run([binary, "--outfile", os.path.join(wd, "x"), "p3", "circle"], stdout=subprocess.PIPE, stderr=subprocess.PIPE)
    if p.returncode == 0 or b"panicked" in p.stderr:
        add(["C20"], "group=p3", "an unsupported group is not reported as an error")
    # (the parent of the output path is a regular FILE: no directory can be made there either, whoever runs this)
    plain = os.path.join(wd, "plainfile")
    with open(plain, "w") as f:
        f.write("x")
    p = subprocess.run([binary, "--outfile", os.path.join(plain, "x"), "--replications", "1", "--steps", "10", "p1", "circle"], stdout=subprocess.PIPE, stderr=subprocess.PIPE)
    if p.returncode == 0 or b"panicked" in p.stderr:
        add(["C20"], "outfile=<a regular file>/x", "an unwritable output file is not reported as an error (status %d)" % p.returncode)
    runs += 2
    dist["cli_runs"] = runs
    dist["thread_counts"] = sorted(dist["thread_counts"])
    return dict(
        evaluations=runs, distinct_nontrivial=len(nontriv),
        rule="corpus/cli.txt then random (group, shape subcommand, potential, optimiser options) cases; for each, the library path "
             "is replayed replica by replica in the harness (sequentially and inside rayon pools of several sizes, replicas in "
             "reversed order) and the binary is run for replications 1..kmax with random RAYON_NUM_THREADS, then again with another "
             "thread count; plus an argument grid with zero steps / inner steps / replications, polygon with 2 sides, polygon with "
             "LJ, bad group, unwritable outfile; non-trivial = distinct binary invocation that wrote both files (or a correctly "
             "reported error case)",
        samples=samples, findings=[f for f in findings if prop in f["properties"]], mismatches=mism, distribution=dist,
        correspondence=dict(engine="cli", strength="written JSON byte-identical across thread counts and processes; score of the "
                            "written structure equal (bit for bit) to the best replica score of the library replay"),
        searched=runs, notes=[])
