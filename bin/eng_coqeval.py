# eng_coqeval.py - the executable model evaluated INSIDE Coq (vm_compute) on recorded cases and compared there
# with the implementation's recorded values: a second route from the model to the verdict that does not go
# through extraction, the OCaml float64 shim or the OCaml driver.  A case where the two routes disagree points at
# the extraction path; a case where both disagree with the implementation is an ordinary correspondence failure.
import os
import re
import struct

from vlib import *  # noqa


def flit(h):
    """16 hex digits of an IEEE double -> an exact Coq float literal"""
    x = struct.unpack(">d", bytes.fromhex(h))[0]
    if x != x:
        return "nan"
    if x == float("inf"):
        return "infinity"
    if x == float("-inf"):
        return "neg_infinity"
    s = x.hex()  # e.g. -0x1.8000000000000p+1
    return "(%s)%%float" % s


def flit_or_nan(h):
    return "nan" if h in ("nan", "N", "-") else flit(h)


def tf9(hs):
    return "(@mkTf NumF %s)" % " ".join(flit(h) for h in hs)


def coqc_eval(prop, name, body):
    wd = workdir(prop)
    path = os.path.join(wd, name + ".v")
    with open(path, "w") as f:
        f.write(body)
    rc, out = sh(["coqc", "-noglob", "-Q", COQ, "PV", path], cwd=wd, timeout=1500)
    return rc, out


HEAD = ("From Coq Require Import ZArith List Bool Floats Ascii String.\nImport ListNotations.\n"
        "From PV Require Import Num model.Parse model.Geom eval.EvalLib.\nLocal Open Scope float_scope.\nSet Printing Width 1000000.\n")


def geom_cases(shard, limit):
    """parse hard-state cases (polygons / disc molecules) of a geom case file"""
    out, cur = [], None
    for l in open(shard):
        t = l.rstrip("\n").split(" ")
        k = t[0]
        if k == "K":
            cur = dict(spec=l[2:].rstrip("\n"), S=[], I=[], r=[], c=[], kind=None, ok=True)
        elif cur is None:
            continue
        elif k == "S":
            cur["S"].append(t[1:10])
        elif k == "T":
            cur.setdefault("T", []).append(t[1:5])
        elif k == "L":
            cur["L"] = t[1:5]
        elif k in ("P", "M", "J"):
            cur["kind"] = k
        elif k == "I":
            cur["I"].append(t[1:])
        elif k == "Q":
            cur["Q"] = t[1:3]
        elif k == "r":
            cur["r"].append(t[1:10])
        elif k == "c":
            cur["c"].append(t[1:10])
        elif k == "s":
            cur["s"] = t[1]
        elif k in ("X", "Z", "O", "N"):
            cur["ok"] = False
        elif k == "E":
            if cur["ok"] and cur["kind"] in ("P", "M") and "T" in cur and "L" in cur and "Q" in cur and "s" in cur and cur["I"]:
                out.append(cur)
                if len(out) >= limit:
                    break
            cur = None
    return out


def run_geom(prop, shard, limit, ocaml_verdicts):
    cases = geom_cases(shard, limit)
    if not cases:
        return dict(cases=0, agree=0, problems=[])
    body = [HEAD]
    for i, c in enumerate(cases):
        syms = "[" + "; ".join(tf9(s) for s in c["S"]) + "]"
        site = "[" + "; ".join("@mkSite NumF %s" % " ".join(flit(h) for h in t) for t in c["T"]) + "]"
        cell = "(@mkCell NumF %s)" % " ".join(flit(h) for h in c["L"])
        if c["kind"] == "P":
            shape = "(@Poly NumF [" + "; ".join("@mkSeg NumF %s" % " ".join(flit(h) for h in it[:4]) for it in c["I"]) + "])"
        else:
            shape = "(@Mol NumF [" + "; ".join("@mkDisc NumF %s" % " ".join(flit(h) for h in it[:3]) for it in c["I"]) + "])"
        rel = "[" + "; ".join(tf9(s) for s in reversed(c["r"])) + "]" if False else "[" + "; ".join(tf9(s) for s in c["r"]) + "]"
        cart = "[" + "; ".join(tf9(s) for s in c["c"]) + "]"
        score = "None" if c["s"] in ("N", "-") else "(Some %s)" % flit(c["s"])
        body.append("Definition ok_%d := geom_case_ok %s %s %s %s %s %s (-0x1.fffffffffffffp+1023)%%float %s %s %s.\n"
                    % (i, syms, site, cell, shape, flit(c["Q"][0]), flit(c["Q"][1]), rel, cart, score))
    body.append("Eval vm_compute in [%s].\n" % "; ".join("ok_%d" % i for i in range(len(cases))))
    rc, out = coqc_eval(prop, "coqeval_geom", "".join(body))
    problems = []
    if rc != 0:
        return dict(cases=len(cases), agree=0, problems=["coqc failed on the generated evaluation file: " + out[-600:]])
    flat = re.sub(r"\s+", " ", out)
    got = re.findall(r"\(\s*(true|false),\s*(true|false),\s*(true|false),\s*(true|false)\s*\)", flat)
    if len(got) != len(cases):
        return dict(cases=len(cases), agree=0, problems=["could not read %d results from coqc (%d found)" % (len(cases), len(got))])
    agree = 0
    names = ("relative positions", "Cartesian positions", "enclosing radius", "score")
    for c, g in zip(cases, got):
        bad = [names[k] for k in range(4) if g[k] != "true"]
        verdict = ocaml_verdicts.get(c["spec"], "?")
        # the OCaml route calls a case bit-exact or within-rounding; the in-Coq route only knows bit-exact
        if not bad:
            agree += 1
        elif "strength=bit" in verdict:
            problems.append("the model evaluated inside Coq differs from the implementation (%s) on a case the extracted "
                            "model matches bit for bit - the extraction path is suspect: %s" % (", ".join(bad), c["spec"][:200]))
        elif verdict.startswith("OK"):
            agree += 1  # within-rounding case (1e-12): both routes see the same rounding-level difference
        # a MISMATCH verdict is already reported by the geom engine
    return dict(cases=len(cases), agree=agree, problems=problems)


def pair_cases(shard, limit):
    """pair cases (C12: X records with their shape and product records) and particle pairs (C13: Z records)"""
    out, cur = [], None
    for l in open(shard):
        t = l.rstrip("\n").split(" ")
        k = t[0]
        if k == "K":
            cur = dict(spec=l[2:].rstrip("\n"), I=[], U=[], kind=None)
        elif cur is None:
            continue
        elif k in ("P", "M"):
            cur["kind"] = k
        elif k == "I":
            cur["I"].append(t[1:])
        elif k == "U" and len(t) == 28:
            cur["U"].append((t[1:10], t[10:19], t[19:28]))
        elif k == "X" and len(t) == 22:
            cur["X"] = t[1:]
        elif k == "Z" and len(t) == 13:
            cur["Z"] = t[1:]
        elif k == "E":
            if ("X" in cur and cur["kind"] in ("P", "M") and cur["I"]) or "Z" in cur:
                out.append(cur)
                if len(out) >= limit:
                    break
            cur = None
    return out


def run_pairs(prop, shard, limit, ocaml_verdicts):
    cases = pair_cases(shard, limit)
    if not cases:
        return dict(cases=0, agree=0, problems=[])
    body = [HEAD]
    fo = lambda h: "None" if h in ("-", "N") else "(Some %s)" % flit(h)  # noqa
    for i, c in enumerate(cases):
        if "Z" in c:
            z = c["Z"]
            a = "(@mkLj NumF %s %s %s %s %s)" % (flit(z[0]), flit(z[1]), flit(z[2]), flit(z[3]), fo(z[4]))
            b = "(@mkLj NumF %s %s %s %s %s)" % (flit(z[5]), flit(z[6]), flit(z[7]), flit(z[8]), fo(z[9]))
            body.append("Definition r_%d := let '(x, y) := lj2_case %s %s in (fsame x %s, fsame y %s, true).\n" % (i, a, b, flit(z[10]), flit(z[11])))
        else:
            x = c["X"]
            if c["kind"] == "P":
                shape = "(@Poly NumF [" + "; ".join("@mkSeg NumF %s" % " ".join(flit(h) for h in it[:4]) for it in c["I"]) + "])"
            else:
                shape = "(@Mol NumF [" + "; ".join("@mkDisc NumF %s" % " ".join(flit(h) for h in it[:3]) for it in c["I"]) + "])"
            want = lambda tok: "true" if tok == "1" else "false"  # noqa
            muls = " && ".join("mul_case_ok %s %s %s" % (tf9(l), tf9(r), tf9(p)) for l, r, p in c["U"]) or "true"
            body.append("Definition r_%d := let '(x, y) := pair_case %s %s %s in (Bool.eqb x %s, Bool.eqb y %s, %s).\n"
                        % (i, shape, tf9(x[0:9]), tf9(x[9:18]), want(x[18]), want(x[19]), muls))
    body.append("Eval vm_compute in [%s].\n" % "; ".join("r_%d" % i for i in range(len(cases))))
    rc, out = coqc_eval(prop, "coqeval_pairs", "".join(body))
    if rc != 0:
        return dict(cases=len(cases), agree=0, problems=["coqc failed on the generated evaluation file: " + out[-600:]])
    flat = re.sub(r"\s+", " ", out)
    got = re.findall(r"\(\s*(true|false),\s*(true|false),\s*(true|false)\s*\)", flat)
    if len(got) != len(cases):
        return dict(cases=len(cases), agree=0, problems=["could not read %d results from coqc (%d found)" % (len(cases), len(got))])
    agree, problems = 0, []
    for c, g in zip(cases, got):
        verdict = ocaml_verdicts.get(c["spec"], "?")
        if all(x == "true" for x in g):
            agree += 1
        elif verdict.startswith("OK") and "strength=bit" in verdict and "band=0" in verdict:
            problems.append("the model evaluated inside Coq differs from the implementation on a case the extracted model "
                            "matches exactly - the extraction path is suspect: %s" % c["spec"][:200])
        elif verdict.startswith("OK"):
            agree += 1   # a tolerance-band / rounding-level case: both routes see the same difference
    return dict(cases=len(cases), agree=agree, problems=problems)


def run_parse(prop, texts, impl_lines, limit):
    idx = [i for i in range(min(len(texts), len(impl_lines))) if impl_lines[i].split(" ")[0] in ("Ok", "Err")][:limit]
    if not idx:
        return dict(cases=0, agree=0, problems=[])
    body = [HEAD]
    for k, i in enumerate(idx):
        bs = list(texts[i].encode("utf-8"))
        lst = "[" + "; ".join("ascii_of_nat %d" % b for b in bs) + "]"
        im = impl_lines[i].split(" | ")[0].split(" ")
        if im[0] == "Ok":
            f = [flit(h) for h in im[1:7]]
            exp = "(@POk NumF (%s, %s, %s) (%s, %s, %s))" % tuple(f)
        else:
            exp = "(@PErr NumF)"
        body.append("Definition ok_%d := presult_same (from_operations_l NumF %s) %s.\n" % (k, lst, exp))
    body.append("Eval vm_compute in [%s].\n" % "; ".join("ok_%d" % k for k in range(len(idx))))
    rc, out = coqc_eval(prop, "coqeval_parse", "".join(body))
    if rc != 0:
        return dict(cases=len(idx), agree=0, problems=["coqc failed on the generated evaluation file: " + out[-600:]])
    got = re.findall(r"\b(true|false)\b", out.split("=", 1)[1] if "=" in out else out)
    if len(got) != len(idx):
        return dict(cases=len(idx), agree=0, problems=["could not read %d results from coqc (%d found)" % (len(idx), len(got))])
    problems = ["the parser model evaluated inside Coq differs from the implementation on %r" % texts[i]
                for i, g in zip(idx, got) if g != "true"]
    return dict(cases=len(idx), agree=len(idx) - len(problems), problems=problems[:5])


def opt_cases(shard, limit, max_calls=1200, libm=None):
    """runs short enough to replay inside Coq; without recorded libm values only zero-temperature cases (exp is then
    only applied to infinities / NaN, pow not at all)"""
    out, cur = [], None
    zero = "0000000000000000"
    for l in open(shard):
        t = l.rstrip("\n").split(" ")
        k = t[0]
        if k == "K":
            cur = dict(spec=l[2:].rstrip("\n"), H=[], D=[], C=[], F=None, O="", B=None, P=[])
        elif cur is None:
            continue
        elif k == "B":
            cur["B"] = t[1:8]
        elif k == "P":
            cur["P"] = t[1:]
        elif k == "H":
            cur["H"].append(t[1:4])
        elif k == "D":
            cur["D"].append(t[1:4])
        elif k == "C":
            cur["C"].append((t[1], t[2:]))
        elif k == "F":
            cur["F"] = t[1:]
        elif k == "O":
            cur["O"] = " ".join(t[1:])
        elif k == "E":
            b = cur["B"]
            # kt_start = +0: build never calls pow (its branch needs 0 < kt_start) and exp only sees infinities / NaN
            have_libm = libm is not None and cur["spec"] in libm and len(libm[cur["spec"]]) <= 1500
            if (b and (b[1] == zero or have_libm) and cur["O"] == "ok" and cur["F"] is not None
                    and 2 <= len(cur["C"]) <= max_calls and "reuse=1" not in cur["spec"]):
                out.append(cur)
                if len(out) >= limit:
                    break
            cur = None
    return out


def run_opt(prop, shard, limit, ocaml_verdicts, libm=None):
    cases = opt_cases(shard, limit, libm=libm)
    if not cases:
        return dict(cases=0, agree=0, problems=[])
    head = HEAD.replace("model.Parse model.Geom", "model.Parse model.Geom model.Optimiser")
    body = [head]
    fo = lambda h: "None" if h in ("-", "N") else "(Some %s)" % flit(h)  # noqa
    for i, c in enumerate(cases):
        b = c["B"]
        builder = "(@mkBuilder NumF %s%%N %s %s %s %s %s%%N %s)" % (b[0], flit(b[1]), fo(b[2]), fo(b[3]), flit(b[4]), b[5], fo(b[6]))
        ps = "[" + "; ".join(flit(h) for h in c["P"]) + "]"
        hs = "[" + "; ".join("@mkHandle NumF %s%%nat %s %s %s" % (h[0], flit(h[1]), flit(h[2]), flit(c["P"][int(h[0])])) for h in c["H"]) + "]"
        # the model consumes one draw per proposal; give it exactly the draws the run can use
        nd = max(0, len(c["C"]) + 4)
        draws = "[" + "; ".join("@mkDraw NumF %s%%nat %s %s" % (d[0], flit(d[1]), flit(d[2])) for d in c["D"][:nd]) + "]"
        rec = "[" + "; ".join("(%s, [%s])" % (fo(sc), "; ".join(flit(h) for h in vec)) for sc, vec in c["C"]) + "]"
        fin = "[" + "; ".join(flit(h) for h in c["F"]) + "]"
        tab = (libm or {}).get(c["spec"], [])
        etab = "[" + "; ".join("(%s, %s)" % (flit_or_nan(t[1]), flit_or_nan(t[2])) for t in tab if t[0] == "e") + "]"
        ptab = "[" + "; ".join("(%s, %s, %s)" % (flit_or_nan(t[1]), flit_or_nan(t[2]), flit_or_nan(t[3])) for t in tab if t[0] == "p") + "]"
        body.append("Definition ok_%d := opt_case_ok_tab %s %s %s %s %s %s %s %s.\n" % (i, etab, ptab, builder, ps, hs, draws, rec, fin))
    body.append("Eval vm_compute in [%s].\n" % "; ".join("ok_%d" % i for i in range(len(cases))))
    rc, out = coqc_eval(prop, "coqeval_opt", "".join(body))
    if rc != 0:
        return dict(cases=len(cases), agree=0, problems=["coqc failed on the generated evaluation file: " + out[-600:]])
    got = re.findall(r"\b(true|false)\b", out.split("=", 1)[1] if "=" in out else out)
    if len(got) != len(cases):
        return dict(cases=len(cases), agree=0, problems=["could not read %d results from coqc (%d found)" % (len(cases), len(got))])
    problems = []
    agree = 0
    for c, g in zip(cases, got):
        v = ocaml_verdicts.get(c["spec"], "?")
        if g == "true":
            agree += 1
        elif v.startswith("OK"):
            problems.append("the optimiser model evaluated inside Coq does not reproduce the recorded run although the "
                            "extracted model does - the extraction path is suspect: " + c["spec"][:200])
    return dict(cases=len(cases), agree=agree, problems=problems)
