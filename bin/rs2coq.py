# rs2coq.py - translator of small pure Rust functions and expressions (f64 arithmetic, comparisons, let, if, match on
# an Option, match with guards) into Gallina over the Num record.  Used by gen.py to regenerate coq/gen/GenFns.v from
# /repo's source text on every run; proofs/Src*.v prove each generated definition equal to the hand-written
# model's, so a change of the formula in the source breaks a proof obligation.
#
# What the translator does NOT understand it refuses (TranslateError): the generated file then carries a dummy body and a
# non-empty `gen_fns_problem`, and the theorems about it fail.
#
# Trusted: this file (about 300 lines), and the per-function tables in gen.py that say which model term a field access
# or a library call of the source stands for (e.g. `self.angle().sin()` is the cell record's `c_sin`).
import re
from fractions import Fraction
from decimal import Decimal, InvalidOperation


class TranslateError(Exception):
    pass


TOK = re.compile(r"""
   (?P<str>"(?:[^"\\]|\\.)*")
 | (?P<chr>'(?:[^'\\]|\\.)')
 | (?P<num>\d[\d_]*(?:\.(?!\.)\d*)?(?:[eE][+-]?\d+)?(?:f64|u64|i64|usize)?)
 | (?P<id>[A-Za-z_][A-Za-z0-9_]*(?:::[A-Za-z_][A-Za-z0-9_]*)*)
 | (?P<op>\.\.=|\.\.|=>|<=|>=|==|!=|&&|\|\||\*=|\+=|-=|/=|[-+*/%<>=!&.,;(){}\[\]|:])
 | (?P<ws>\s+)
""", re.X)


def tokenize(src):
    src = re.sub(r"//[^\n]*", "", src)
    out, i = [], 0
    while i < len(src):
        m = TOK.match(src, i)
        if not m:
            raise TranslateError("cannot tokenize at %r" % src[i:i + 20])
        i = m.end()
        if m.lastgroup == "ws":
            continue
        out.append((m.lastgroup, m.group(m.lastgroup)))
    return out


class Parser:
    def __init__(self, toks):
        self.t, self.i = toks, 0

    def peek(self, k=0):
        return self.t[self.i + k] if self.i + k < len(self.t) else ("eof", "")

    def next(self):
        tok = self.peek()
        self.i += 1
        return tok

    def expect(self, text):
        tok = self.next()
        if tok[1] != text:
            raise TranslateError("expected %r, found %r" % (text, tok[1]))

    def at(self, text):
        return self.peek()[1] == text

    # ---- statements / blocks
    def block_body(self):
        """statements up to the closing brace (not consumed): ('block', [stmts], final-or-None)"""
        stmts, final = [], None
        while not self.at("}") and self.peek()[0] != "eof":
            if self.at("return"):
                self.next()
                final = self.expr()
                if self.at(";"):
                    self.next()
                break
            if self.at("if"):
                # `if c { return e; }` (an early exit) or an if / else expression in tail position
                self.next()
                if self.at("let"):
                    # `if let PAT = e { .. }` (no else): a statement
                    self.next()
                    pat = self.pattern()
                    self.expect("=")
                    e = self.expr()
                    a = self.block()
                    if self.at("else"):
                        raise TranslateError("if let .. else is not supported")
                    stmts.append(("iflet", pat, e, a))
                    continue
                c = self.expr()
                a = self.block()
                if self.at("else"):
                    self.next()
                    b = self.block() if not self.at("if") else self.primary()
                    if self.at("}") or self.peek()[0] == "eof":
                        final = ("if", c, a, b)
                        break
                    stmts.append(("ifelse", c, a, b))
                    continue
                if a[0] == "block" and not a[1] and a[2] is not None:
                    stmts.append(("ifret", c, a[2]))
                    continue
                stmts.append(("ifblock", c, a))
                continue
            if self.at("for"):
                self.next()
                pat = self.pattern()
                self.expect("in")
                it = self.expr()
                body = self.block()
                stmts.append(("for", pat, it, body))
                continue
            if self.at("let"):
                self.next()
                if self.at("mut"):
                    self.next()
                name = self.next()
                if name[0] != "id":
                    raise TranslateError("unsupported let pattern %r" % name[1])
                ty = None
                if self.at(":"):
                    self.next()
                    ty = self.next()[1]      # a type annotation: a path, possibly with generic arguments
                    if self.at("<"):
                        depth = 0
                        while True:
                            t = self.next()[1]
                            depth += (t == "<") - (t == ">")
                            if depth == 0:
                                break
                self.expect("=")
                e = self.expr()
                self.expect(";")
                stmts.append(("let", name[1], e, ty))
                continue
            e = self.expr()
            if e[0] == "match" and not self.at("}") and not self.at(";") and self.peek()[0] != "eof":
                stmts.append(("effect", e))     # a match used as a statement
                continue
            if self.peek()[1] in ("*=", "+=", "-=", "/=", "="):
                op = self.next()[1]
                rhs = self.expr()
                if not self.at("}"):
                    self.expect(";")
                if e[0] == "var":
                    stmts.append(("assign", e[1], op, rhs))
                elif e[0] in ("index", "field") and key(e) is not None:
                    stmts.append(("assign", key(e), op, rhs))      # a place such as transform[(index,0)] or self.old
                else:
                    raise TranslateError("assignment to something other than a variable or an indexed place")
                continue
            if self.at(";"):
                self.next()
                if e[0] == "macro" and e[1] in ("debug", "trace", "info", "warn"):
                    continue          # logging has no effect on the values
                stmts.append(("effect", e))     # only emit_world can express it; the other emitters refuse
                continue
            final = e
            break
        return ("block", stmts, final)

    def block(self):
        self.expect("{")
        b = self.block_body()
        self.expect("}")
        return b

    # ---- expressions (Pratt)
    PREC = {"..=": 0.5, "..": 0.5, "||": 1, "&&": 2, "<": 3, ">": 3, "<=": 3, ">=": 3, "==": 3, "!=": 3, "+": 4, "-": 4, "*": 5, "/": 5, "%": 5}

    def expr(self, minprec=0):
        lhs = self.unary()
        while True:
            op = self.peek()[1]
            if self.peek()[0] == "op" and op in self.PREC and self.PREC[op] > minprec:
                self.next()
                rhs = self.expr(self.PREC[op])
                lhs = ("bin", op, lhs, rhs)
            else:
                return lhs

    def unary(self):
        if self.at("-"):
            self.next()
            return ("neg", self.unary())
        if self.at("!"):
            self.next()
            return ("not", self.unary())
        if self.at("&") or self.at("*"):
            self.next()
            if self.at("mut"):
                self.next()
            return self.unary()       # references and dereferences carry no arithmetic
        e = self.postfix()
        while self.at("as"):
            self.next()
            ty = self.next()[1]
            e = ("cast", e, ty)
        return e

    def args(self):
        self.expect("(")
        a = []
        while not self.at(")"):
            a.append(self.expr())
            if self.at(","):
                self.next()
        self.expect(")")
        return a

    def postfix(self):
        e = self.primary()
        while self.at(".") or self.at("["):
            if self.at("["):
                self.next()
                i = self.expr()
                self.expect("]")
                e = ("index", e, i)
                continue
            self.next()
            name = self.next()
            if name[0] not in ("id", "num"):
                raise TranslateError("unsupported postfix %r" % name[1])
            if self.at("("):
                e = ("method", e, name[1], self.args())
            else:
                e = ("field", e, name[1])
        return e

    def primary(self):
        kind, text = self.peek()
        if kind == "num":
            self.next()
            return ("num", text)
        if kind == "str":
            self.next()
            return ("str", text)
        if kind == "chr":
            self.next()
            return ("chr", text[1:-1])
        if text == "(" and self.peek(1)[1] == ")":
            self.next()
            self.next()
            return ("unit",)
        if text == "(":
            self.next()
            e = self.expr()
            if self.at(","):
                items = [e]
                while self.at(","):
                    self.next()
                    if self.at(")"):
                        break
                    items.append(self.expr())
                self.expect(")")
                return ("tuple", items)
            self.expect(")")
            return e
        if text == "{":
            return self.block()
        if text == "[":
            return self.array()
        if text == "move" or text == "|":
            # a closure: [move] |pattern, ...| body
            if text == "move":
                self.next()
            self.expect("|")
            pats = []
            while not self.at("|"):
                pats.append(self.pattern())
                if self.at(","):
                    self.next()
            self.expect("|")
            return ("closure", pats, self.expr())
        if text == "if":
            self.next()
            c = self.expr()
            a = self.block()
            self.expect("else")
            b = self.block() if not self.at("if") else self.primary()
            return ("if", c, a, b)
        if text == "match":
            self.next()
            scrut = self.expr()
            self.expect("{")
            arms = []
            while not self.at("}"):
                pat = self.pattern()
                if pat[0] == "chr" and self.at("..="):
                    self.next()
                    hi = self.pattern()
                    pat = ("crange", pat[1], hi[1])
                if self.at("|"):
                    alts = [pat]
                    while self.at("|"):
                        self.next()
                        alts.append(self.pattern())
                    pat = ("alt", alts)
                guard = None
                if self.at("if"):
                    self.next()
                    guard = self.expr()
                self.expect("=>")
                body = self.expr()
                if self.at(","):
                    self.next()
                arms.append((pat, guard, body))
            self.expect("}")
            return ("match", scrut, arms)
        if (kind == "id" and text[:1].isupper() and self.peek(1)[1] == "{" and self.peek(2)[0] == "id"
                and self.peek(3)[1] in (":", ",")):
            # a struct literal: Name { field: expr, shorthand, .. }
            self.next()
            self.expect("{")
            fields = []
            while not self.at("}"):
                if self.at(".."):
                    # struct update syntax: the remaining fields come from this value
                    self.next()
                    fields.append(("..", self.expr()))
                    continue
                fname = self.next()[1]
                if self.at(":"):
                    self.next()
                    fields.append((fname, self.expr()))
                else:
                    fields.append((fname, ("var", fname)))
                if self.at(","):
                    self.next()
            self.expect("}")
            return ("struct", text, fields)
        if kind == "id":
            self.next()
            if self.at("!") and self.peek(1)[1] == "(":
                self.next()
                return ("macro", text, self.args())
            if self.at("!") and self.peek(1)[1] == "[":
                self.next()
                return ("macro", text, self.array()[1])
            if self.at("("):
                return ("call", text, self.args())
            return ("var", text)
        raise TranslateError("unexpected token %r" % text)

    def array(self):
        self.expect("[")
        items = []
        while not self.at("]"):
            items.append(self.expr())
            if self.at(","):
                self.next()
        self.expect("]")
        return ("array", items)

    def pattern(self):
        while self.at("&") or self.at("mut"):
            self.next()
        kind, text = self.next()
        if kind == "chr":
            return ("chr", text[1:-1])
        if text == "Some":
            self.expect("(")
            v = self.next()
            self.expect(")")
            return ("some", v[1])
        if text == "None":
            return ("none",)
        if text == "_":
            return ("wild",)
        if text == "(":
            items = []
            while not self.at(")"):
                items.append(self.pattern())
                if self.at(","):
                    self.next()
            self.expect(")")
            return ("tuple", items)
        if kind == "id":
            return ("bind", text)
        raise TranslateError("unsupported pattern %r" % text)


def parse_expr(src):
    p = Parser(tokenize(src))
    e = p.expr()
    if p.peek()[0] != "eof":
        raise TranslateError("trailing input %r" % p.peek()[1])
    return e


def parse_body(src):
    p = Parser(tokenize(src))
    b = p.block_body()
    if p.peek()[0] != "eof":
        raise TranslateError("trailing input %r" % p.peek()[1])
    return b


# ---------------------------------------------------------------------------------------------------
def key(n):
    """canonical source text of a postfix chain / call, for the per-function tables; None when not a chain"""
    k = n[0]
    if k == "var":
        return n[1]
    if k == "num":
        return n[1]
    if k == "str":
        return n[1]
    if k == "field":
        r = key(n[1])
        return None if r is None else "%s.%s" % (r, n[2])
    if k == "method":
        r = key(n[1])
        a = [key(x) for x in n[3]]
        return None if r is None or any(x is None for x in a) else "%s.%s(%s)" % (r, n[2], ",".join(a))
    if k == "call":
        a = [key(x) for x in n[2]]
        return None if any(x is None for x in a) else "%s(%s)" % (n[1], ",".join(a))
    if k == "cast":
        r = key(n[1])
        return None if r is None else "%s as %s" % (r, n[2])
    if k == "neg":
        r = key(n[1])
        return None if r is None else "-%s" % r
    if k == "macro":
        a = [key(x) for x in n[2]]
        return None if any(x is None for x in a) else "%s!(%s)" % (n[1], ",".join(a))
    if k == "tuple":
        a = [key(x) for x in n[1]]
        return None if any(x is None for x in a) else "(%s)" % ",".join(a)
    if k == "index":
        l, r = key(n[1]), key(n[2])
        return None if l is None or r is None else "%s[%s]" % (l, r)
    if k == "bin":
        l, r = key(n[2]), key(n[3])
        return None if l is None or r is None else "(%s %s %s)" % (l, n[1], r)
    return None


def number(text):
    t = text.replace("_", "")
    for suf in ("f64", "u64", "i64", "usize"):
        if t.endswith(suf):
            t = t[: -len(suf)]
    try:
        fr = Fraction(Decimal(t))
    except (InvalidOperation, ValueError):
        raise TranslateError("not a numeric literal: %r" % text)
    if fr.denominator == 1:
        k = fr.numerator
        return "n0" if k == 0 else "n1" if k == 1 else "(nofZ %d)" % k
    if abs(fr.numerator) >= 2 ** 53 or fr.denominator >= 2 ** 53:
        raise TranslateError("literal outside the exactly translated range: %r" % text)
    # a decimal literal is the correctly rounded quotient of two exactly represented integers
    return "(nofZ %d / nofZ %d)" % (fr.numerator, fr.denominator)


class Ctx:
    def __init__(self, subst=None, calls=None, sq_for_powi2=True):
        self.subst = dict(subst or {})     # canonical source text -> Coq term
        self.calls = dict(calls or {})     # path or "self.method" -> Coq function (applied to the translated arguments)
        self.sq_for_powi2 = sq_for_powi2
        self.strings = False               # string literals are values (SVG attributes) rather than messages


FUNCS = {"f64::min": "nmin", "f64::max": "nmax", "f64::exp": "fexp", "f64::sqrt": "nsqrt", "f64::acos": "facos",
         "f64::powf": "fpow", "f64::sin": "fsin", "f64::cos": "fcos"}
CONSTS = {"f64::MAX": "(fmax_ NN)", "std::f64::MAX": "(fmax_ NN)", "PI": "pi_", "std::f64::consts::PI": "pi_"}


def emit(n, cx):
    k = key(n)
    if k is not None and k in cx.subst:
        return cx.subst[k]
    t = n[0]
    if t == "num":
        return number(n[1])
    if t == "raw":
        return n[1]
    if t == "str":
        if getattr(cx, "strings", False):
            return '%s%%string' % n[1]      # (no escapes are used in the attribute names and values this is for)
        return "tt"               # a message (of expect / panic!): no value
    if t == "chr":
        return coq_char(n[1])
    if t == "unit":
        return "tt"
    if t == "var":
        if n[1] in CONSTS:
            return CONSTS[n[1]]
        if n[1] in ("true", "false", "None"):
            return n[1]
        if "::" in n[1]:
            raise TranslateError("unknown path %s" % n[1])
        return n[1]
    if t == "neg":
        return "(- %s)" % emit(n[1], cx)
    if t == "not":
        return "(negb %s)" % emit(n[1], cx)
    if t == "bin":
        op, l, r = n[1], emit(n[2], cx), emit(n[3], cx)
        if op in "+-*/":
            return "(%s %s %s)" % (l, op, r)
        if op == "%":
            if r != "n1":
                raise TranslateError("remainder by something other than 1.")
            return "(nrem1 %s)" % l
        if op == "<":
            return "(%s <? %s)" % (l, r)
        if op == ">":
            return "(%s <? %s)" % (r, l)
        if op == "<=":
            return "(%s <=? %s)" % (l, r)
        if op == ">=":
            return "(%s <=? %s)" % (r, l)
        if op == "==" and (n[2][0] == "chr" or n[3][0] == "chr"):
            return "(Ascii.eqb %s %s)" % (l, r)
        if op == "==":
            return "(%s =? %s)" % (l, r)
        if op == "&&":
            return "(andb %s %s)" % (l, r)
        if op == "||":
            return "(orb %s %s)" % (l, r)
        raise TranslateError("unsupported operator %s" % op)
    if t == "call":
        path, args = n[1], [emit(a, cx) for a in n[2]]
        if path == "Some" and len(args) == 1:
            return "(Some %s)" % args[0]
        if path in ("u64::min", "usize::min") and len(args) == 2:
            return "(N.min %s %s)" % (args[0], args[1])
        f = cx.calls.get(path) or FUNCS.get(path)
        if f is None:
            raise TranslateError("unknown function %s" % path)
        return "(%s %s)" % (f, " ".join(args))
    if t == "method":
        recv, name, args = n[1], n[2], n[3]
        rk = key(recv)
        if rk is not None and ("%s.%s" % (rk, name)) in cx.calls:
            return "(%s %s)" % (cx.calls["%s.%s" % (rk, name)], " ".join(emit(a, cx) for a in args))
        if (name == "unwrap_or" and len(args) == 1 and args[0] == ("num", "0") and recv[0] == "method"
                and recv[2] == "checked_div" and len(recv[3]) == 1):
            # a.checked_div(b).unwrap_or(0) on unsigned integers
            num, den = emit(recv[1], cx), emit(recv[3][0], cx)
            return "(if N.eqb %s 0 then 0%%N else N.div %s %s)" % (den, num, den)
        if name in ("map", "flat_map") and len(args) == 1:
            f = emit(args[0], cx) if args[0][0] == "closure" else (cx.calls.get(key(args[0]) or "") or None)
            if f is None:
                raise TranslateError("unknown function value %s" % key(args[0]))
            return "(%s %s %s)" % ("map" if name == "map" else "flat_map", f, emit(recv, cx))
        if name == "filter" and len(args) == 1 and args[0][0] == "closure":
            return "(filter %s %s)" % (emit(args[0], cx), emit(recv, cx))
        if name == "as_svg" and not args and getattr(cx, "strings", False):
            return "(svg_use NN %s)" % emit(recv, cx)
        if name == "set" and len(args) == 2 and getattr(cx, "strings", False):
            return "(svg_set NN %s %s %s)" % (emit(recv, cx), emit(args[0], cx), emit(args[1], cx))
        if name == "sum" and not args:
            return "(fold_left (fun acc_ x_ => acc_ + x_) %s n0)" % emit(recv, cx)
        if name == "tuple_combinations" and not args:
            # itertools: the pairs (x_i, x_j), i < j, in lexicographic order
            return "(flat_map (fun xr_ => map (fun y_ => (fst xr_, y_)) (snd xr_)) (tails %s))" % emit(recv, cx)
        if name == "fold" and len(args) == 2 and args[1][0] == "closure" and args[0][0] == "num" and "." not in args[0][1]:
            # a count: fold(0, |acc, x| acc + ..) over unsigned integers
            pats = args[1][1]
            return "(fold_left (fun %s => %s) %s %s)" % (" ".join(pat_text(q) for q in pats), emit_int(args[1][2], cx), emit(recv, cx), emit_int(args[0], cx))
        if name == "fold" and len(args) == 2:
            fk = key(args[1])
            f = FUNCS.get(fk) or cx.calls.get(fk or "")
            if f is None:
                raise TranslateError("fold with an unknown function %s" % fk)
            return "(fold_left (fun acc_ x_ => %s acc_ x_) %s %s)" % (f, emit(recv, cx), emit(args[0], cx))
        if name == "any" and len(args) == 1 and args[0][0] == "closure":
            return "(existsb %s %s)" % (emit(args[0], cx), emit(recv, cx))
        if name == "enumerate" and not args:
            return "(enumerate %s)" % emit(recv, cx)
        if name == "skip" and len(args) == 1:
            return "(skipn %s %s)" % (emit(args[0], cx), emit(recv, cx))
        if name in ("iter", "into_iter", "collect") and not args:
            return emit(recv, cx)
        if name == "split_terminator" and len(args) == 1 and args[0][0] == "chr":
            return "(split_terminator %s %s)" % (coq_char(args[0][1]), emit(recv, cx))
        r = emit(recv, cx)
        a = [emit(x, cx) for x in args]
        if name == "powi":
            if n[3][0][0] != "num":
                raise TranslateError("powi with a non-literal exponent")
            e = int(n[3][0][1])
            if e == 2 and cx.sq_for_powi2:
                return "(sq NN %s)" % r
            return "(powi %s %d)" % (r, e)
        simple = {"sqrt": "nsqrt", "sin": "fsin", "cos": "fcos", "acos": "facos", "exp": "fexp", "abs": "nabs", "is_nan": "nis_nan"}
        if name in simple and not a:
            return "(%s %s)" % (simple[name], r)
        if name == "eq" and len(a) == 1:
            return "(%s =? %s)" % (r, a[0])
        if name == "partial_cmp" and len(a) == 1:
            return "(f64_partial_cmp NN %s %s)" % (r, a[0])
        if name == "unwrap" and not a:
            return "(unwrap_or_panic %s)" % r
        if name == "is_some" and not a:
            return "(match %s with Some _ => true | None => false end)" % r
        if name in ("min", "max") and len(a) == 1:
            return "(n%s %s %s)" % (name, r, a[0])
        if name in ("mul", "add", "sub", "div") and len(a) == 1:
            return "(%s %s %s)" % (r, {"mul": "*", "add": "+", "sub": "-", "div": "/"}[name], a[0])
        if name == "to_radians" and not a:
            return "(to_radians NN pi_ %s)" % r
        if name == "powf" and len(a) == 1:
            return "(fpow %s %s)" % (r, a[0])
        raise TranslateError("unknown method .%s/%d" % (name, len(a)))
    if t == "cast":
        inner = n[1]
        if n[2] in ("i64", "u64", "usize") and inner[0] == "method" and inner[2] == "ceil" and not inner[3]:
            return "(nceilZ %s)" % emit(inner[1], cx)
        raise TranslateError("unsupported cast `%s as %s`" % (key(inner), n[2]))
    if t == "field":
        raise TranslateError("unknown field access %s" % k)
    if t == "macro":
        if n[1] == "vec":
            return "[%s]" % "; ".join(emit(x, cx) for x in n[2])
        if n[1] == "iproduct" and len(n[2]) == 2:
            # iproduct!(a, b): the first iterator is the outer loop
            return "(flat_map (fun x_ => map (fun y_ => (x_, y_)) %s) %s)" % (emit(n[2][1], cx), emit(n[2][0], cx))
        raise TranslateError("unknown macro %s!" % n[1])
    if t == "closure":
        return "(fun %s => %s)" % (" ".join(pat_text(p) for p in n[1]), emit(n[2], cx))
    if t == "tuple":
        return "(%s)" % ", ".join(emit(x, cx) for x in n[1])
    if t == "struct":
        spec = cx.calls.get(n[1])
        if not isinstance(spec, tuple):
            raise TranslateError("unknown struct %s" % n[1])
        ctor, order, ignored = spec
        given = dict(n[2])
        if ".." in given:
            # the table says what the base value gives for the fields not written out
            base = key(given.pop(".."))
            dflt = cx.subst.get("%s{..%s}" % (n[1], base))
            if not isinstance(dflt, dict):
                raise TranslateError("struct %s: unknown base value %s" % (n[1], base))
            for f, v in dflt.items():
                given.setdefault(f, ("raw", v))
        extra = [f for f in given if f not in order and f not in ignored]
        missing = [f for f in order if f not in given]
        if extra or missing:
            raise TranslateError("struct %s: unexpected fields %s, missing fields %s" % (n[1], extra, missing))
        return "(%s %s)" % (ctor, " ".join(emit(given[f], cx) for f in order))
    if t == "array":
        return "[%s]" % "; ".join(emit(x, cx) for x in n[1])
    if t == "if":
        return "(if %s then %s else %s)" % (emit(n[1], cx), emit(n[2], cx), emit(n[3], cx))
    if t == "block":
        if n[2] is None:
            raise TranslateError("a block without a value")

        def rest(i):
            if i == len(n[1]):
                return emit(n[2], cx)
            s = n[1][i]
            if s[0] == "let":
                v = emit_int(s[2], cx) if s[3] in ("u64", "usize") and s[2][0] == "num" else emit(s[2], cx)
                return "(let %s := %s in %s)" % (s[1], v, rest(i + 1))
            if s[0] == "assign":
                rhs = emit(s[3], cx)
                if s[2] != "=":
                    rhs = "(%s %s %s)" % (s[1], s[2][0], rhs)
                return "(let %s := %s in %s)" % (s[1], rhs, rest(i + 1))
            if s[0] == "ifret":
                return "(if %s then %s else %s)" % (emit(s[1], cx), emit(s[2], cx), rest(i + 1))
            raise TranslateError("unsupported statement (%s) outside a search loop" % s[0])
        return rest(0)
    if t == "match":
        scrut, arms = n[1], n[2]
        pats = [a[0][0] for a in arms]
        if set(pats) <= {"some", "none"} and all(a[1] is None for a in arms):
            some = [a for a in arms if a[0][0] == "some"]
            none = [a for a in arms if a[0][0] == "none"]
            if len(some) != 1 or len(none) != 1:
                raise TranslateError("match on an Option needs exactly one Some and one None arm")
            return "(match %s with Some %s => %s | None => %s end)" % (emit(scrut, cx), some[0][0][1], emit(some[0][2], cx), emit(none[0][2], cx))
        if all(p == "bind" for p in pats) and arms[-1][1] is None and all(a[1] is not None for a in arms[:-1]):
            # match v { x if c1 => e1, x if c2 => e2, x => e3 }: the guards in order
            var = arms[0][0][1]
            if any(a[0][1] != var for a in arms):
                raise TranslateError("match arms bind different names")
            body = emit(arms[-1][2], cx)
            for a in reversed(arms[:-1]):
                body = "(if %s then %s else %s)" % (emit(a[1], cx), emit(a[2], cx), body)
            return "(let %s := %s in %s)" % (var, emit(scrut, cx), body)
        if all(p == "some" for p in pats[:-1]) and pats[-1] == "wild" and arms[-1][1] is None and all(a[1] is not None for a in arms[:-1]):
            # match o { Some(v) if g1 => e1, Some(v) if g2 => e2, _ => e3 }
            var = arms[0][0][1]
            if any(a[0][1] != var for a in arms[:-1]):
                raise TranslateError("match arms bind different names")
            dflt = emit(arms[-1][2], cx)
            body = dflt
            for a in reversed(arms[:-1]):
                body = "(if %s then %s else %s)" % (emit(a[1], cx), emit(a[2], cx), body)
            return "(match %s with Some %s => %s | None => %s end)" % (emit(scrut, cx), var, body, dflt)
        if (scrut[0] == "tuple" and len(scrut[1]) == 2 and len(arms) == 3
                and arms[0][0] == ("tuple", [("some", arms[0][0][1][0][1]), ("wild",)]) and arms[0][1] is None
                and arms[1][0][0] == "tuple" and arms[1][0][1][0] == ("none",) and arms[1][0][1][1][0] == "some"
                and arms[2][0] == ("tuple", [("none",), ("wild",)]) and arms[2][1] is None):
            # match (a, b) { (Some(x), _) => e1, (None, Some(y)) [if g] => e2, (None, _) => e3 }
            x, y = arms[0][0][1][0][1], arms[1][0][1][1][1]
            e3 = emit(arms[2][2], cx)
            e2 = emit(arms[1][2], cx)
            if arms[1][1] is not None:
                e2 = "(if %s then %s else %s)" % (emit(arms[1][1], cx), e2, e3)
            return "(match %s with Some %s => %s | None => match %s with Some %s => %s | None => %s end end)" % (
                emit(scrut[1][0], cx), x, emit(arms[0][2], cx), emit(scrut[1][1], cx), y, e2, e3)
        if (len(arms) >= 3 and all(p == "some" for p in pats[:-1]) and pats[-1] == "none" and arms[-1][1] is None
                and arms[-2][1] is None and arms[-2][0][1] == "_" and all(a[1] is not None for a in arms[:-2])):
            # match o { Some(v) if g1 => e1, .., Some(_) => d, None => e }
            var = arms[0][0][1]
            if any(a[0][1] != var for a in arms[:-2]):
                raise TranslateError("match arms bind different names")
            body = emit(arms[-2][2], cx)
            for a in reversed(arms[:-2]):
                body = "(if %s then %s else %s)" % (emit(a[1], cx), emit(a[2], cx), body)
            return "(match %s with Some %s => %s | None => %s end)" % (emit(scrut, cx), var, body, emit(arms[-1][2], cx))
        if (scrut[0] == "tuple" and len(scrut[1]) == 2 and len(arms) == 2 and all(a[1] is None for a in arms)
                and arms[0][0][0] == "tuple" and [q[0] for q in arms[0][0][1]] == ["some", "some"]
                and arms[1][0] == ("tuple", [("wild",), ("wild",)])):
            # match (a, b) { (Some(x), Some(y)) => e1, (_, _) => e2 }
            x, y = arms[0][0][1][0][1], arms[0][0][1][1][1]
            return "(match %s, %s with Some %s, Some %s => %s | _, _ => %s end)" % (
                emit(scrut[1][0], cx), emit(scrut[1][1], cx), x, y, emit(arms[0][2], cx), emit(arms[1][2], cx))
        if all(a[1] is None and (a[0][0] == "wild" or (a[0][0] == "bind" and a[0][1] in cx.subst)) for a in arms):
            # match over an enum whose constructors the table names
            return "(match %s with %s end)" % (emit(scrut, cx), " ".join(
                "| %s => %s" % ("_" if a[0][0] == "wild" else cx.subst[a[0][1]], emit(a[2], cx)) for a in arms))
        raise TranslateError("unsupported match shape")
    raise TranslateError("unsupported construct %s" % t)


def pat_text(p):
    if p[0] == "bind":
        return p[1]
    if p[0] == "wild":
        return "_"
    if p[0] == "tuple":
        return "'(%s)" % ", ".join(pat_text(q).lstrip("'") for q in p[1])
    raise TranslateError("unsupported closure / loop pattern")


def emit_search(block, cx):
    """a block whose only effect is `return true` under conditions, possibly inside `for` loops: the Boolean
    'does it return true?' as nested existsb / orb / andb"""
    if block[0] != "block":
        raise TranslateError("not a block")

    def rest(i):
        if i == len(block[1]):
            if block[2] is None:
                return "false"
            if block[2] == ("var", "true"):
                return "true"
            if block[2] == ("var", "false"):
                return "false"
            raise TranslateError("a search loop body may only end in true / false")
        s = block[1][i]
        if s[0] == "let":
            return "(let %s := %s in %s)" % (s[1], emit(s[2], cx), rest(i + 1))
        if s[0] == "ifret":
            if s[2] != ("var", "true"):
                raise TranslateError("a search loop may only `return true`")
            return "(orb %s %s)" % (emit(s[1], cx), rest(i + 1))
        if s[0] == "ifblock":
            return "(orb (andb %s %s) %s)" % (emit(s[1], cx), emit_search(s[2], cx), rest(i + 1))
        if s[0] == "for":
            return "(orb (existsb (fun %s => %s) %s) %s)" % (pat_text(s[1]), emit_search(s[3], cx), emit(s[2], cx), rest(i + 1))
        raise TranslateError("unsupported statement in a search loop")
    return rest(0)


def emit_accum(block, var, cx, top=True):
    """a block that accumulates into the mutable variable `var` (`let mut var = e;`, `var += e;`, `for` loops that do the
    same) and, at top level, ends in an expression using it: nested fold_left"""
    if block[0] != "block":
        raise TranslateError("not a block")

    def rest(i):
        if i == len(block[1]):
            if top:
                if block[2] is None:
                    raise TranslateError("an accumulating function must end in an expression")
                return emit(block[2], cx)
            if block[2] is not None:
                raise TranslateError("an accumulating loop body may not end in a value")
            return var
        s = block[1][i]
        if s[0] == "let":
            return "(let %s := %s in %s)" % (s[1], emit(s[2], cx), rest(i + 1))
        if s[0] == "assign":
            if s[1] != var:
                raise TranslateError("assignment to %s in a loop accumulating %s" % (s[1], var))
            rhs = emit(s[3], cx)
            if s[2] != "=":
                rhs = "(%s %s %s)" % (var, s[2][0], rhs)
            return "(let %s := %s in %s)" % (var, rhs, rest(i + 1))
        if s[0] == "for":
            body = emit_accum(s[3], var, cx, top=False)
            return "(let %s := fold_left (fun %s %s => %s) %s %s in %s)" % (var, var, pat_text(s[1]), body, emit(s[2], cx), var, rest(i + 1))
        raise TranslateError("unsupported statement in an accumulating loop")
    return rest(0)


def coq_char(c):
    if c.startswith("\\"):
        raise TranslateError("escaped character literal")
    return '"%s"%%char' % c


def emit_charstep(m, var, vars_, alias, cx):
    """`match c { 'x' => {..}, 'a' | 'b' => {..}, '0'..='9' => {..}, ' ' | '+' => (), x => bail!(..) }` over the character
    `var`, the arms updating the places of `alias` (source place -> variable of `vars_`): Some (the variables after the
    arm) or None (the arm that bails out), the arms tried in source order"""
    if m[0] != "match" or m[1] != ("var", var):
        raise TranslateError("not a match on the character %s" % var)
    tup = "(%s)" % ", ".join(vars_)

    def cond(p):
        if p[0] == "chr":
            return "(Ascii.eqb %s %s)" % (var, coq_char(p[1]))
        if p[0] == "alt":
            cs = [cond(q) for q in p[1]]
            out = cs[-1]
            for x in reversed(cs[:-1]):
                out = "(orb %s %s)" % (x, out)
            return out
        if p[0] == "crange":
            return "(andb (Z.leb (char_code %s) (char_code %s)) (Z.leb (char_code %s) (char_code %s)))" % (coq_char(p[1]), var, var, coq_char(p[2]))
        raise TranslateError("unsupported character pattern %r" % (p,))

    def arm(body):
        if body == ("unit",):
            return "(Some %s)" % tup
        if body[0] == "macro" and body[1] == "bail":
            return "None"
        if body[0] != "block" or body[2] is not None:
            raise TranslateError("a match arm that is not a block of assignments")

        def rest(i):
            if i == len(body[1]):
                return "(Some %s)" % tup
            s = body[1][i]
            if s[0] == "let":
                return "(let %s := %s in %s)" % (s[1], emit(s[2], cx), rest(i + 1))
            if s[0] == "assign" and s[2] == "=":
                name = alias.get(s[1], s[1])
                if name not in vars_:
                    raise TranslateError("assignment to %s, which is not one of the tracked places" % s[1])
                return "(let %s := %s in %s)" % (name, emit(s[3], cx), rest(i + 1))
            raise TranslateError("unsupported statement (%s) in a character arm" % s[0])
        return rest(0)

    arms = m[2]
    last = arms[-1]
    if last[0][0] not in ("bind", "wild") or last[1] is not None:
        raise TranslateError("the last arm must catch every other character")
    out = arm(last[2])
    for pat, guard, body in reversed(arms[:-1]):
        if guard is not None:
            raise TranslateError("a guard on a character arm")
        out = "(if %s then %s else %s)" % (cond(pat), arm(body), out)
    return out


def emit_places(block, vars_, alias, setters, cx):
    """a method body that only writes places: assignments to the places of `alias` (source place -> variable) and calls of
    the `setters` (method chain -> the variable its argument is stored in): the variables afterwards, as a tuple"""
    if block[0] != "block":
        raise TranslateError("not a block")
    stmts = list(block[1])
    if block[2] is not None:
        stmts.append(("effect", block[2]))

    def rest(i):
        if i == len(stmts):
            return "(%s)" % ", ".join(vars_)
        s = stmts[i]
        if s[0] == "let":
            return "(let %s := %s in %s)" % (s[1], emit(s[2], cx), rest(i + 1))
        if s[0] == "assign" and s[2] == "=":
            name = alias.get(s[1], s[1])
            if name not in vars_:
                raise TranslateError("assignment to %s, which is not one of the tracked places" % s[1])
            return "(let %s := %s in %s)" % (name, emit(s[3], cx), rest(i + 1))
        if s[0] == "effect" and s[1][0] == "method":
            names, args = chain(s[1])
            if names in setters and len(args) == 1:
                return "(let %s := %s in %s)" % (setters[names], emit(args[0], cx), rest(i + 1))
            if names in cx.calls:
                # a call of another translated method of the same object: it returns the places
                return "(let '(%s) := %s %s in %s)" % (", ".join(vars_), cx.calls[names], " ".join(emit(a, cx) for a in args), rest(i + 1))
            raise TranslateError("unknown effect %s" % names)
        raise TranslateError("unsupported statement (%s) in a method that writes places" % s[0])
    return rest(0)


def emit_guardcheck(m, cx):
    """`match n { x if g1 => bail!(..), x if g2 => bail!(..), _ => () }` over an unsigned count: does it pass?"""
    if m[0] != "match":
        raise TranslateError("not a match")
    arms = m[2]
    if arms[-1][0][0] != "wild" or arms[-1][1] is not None or arms[-1][2] != ("unit",):
        raise TranslateError("the last arm must be `_ => ()`")
    out = "true"
    for pat, guard, body in reversed(arms[:-1]):
        if pat[0] != "bind" or guard is None or body[0] != "macro" or body[1] != "bail":
            raise TranslateError("an arm that is not `x if cond => bail!(..)`")
        out = "(let %s := %s in if %s then false else %s)" % (pat[1], emit_int(m[1], cx), emit_cond(guard, cx, [pat[1]]), out)
    return out


def emit_int(n, cx):
    """an expression over unsigned integer counters (u64 / usize), as N"""
    k = key(n)
    if k is not None and k in cx.subst:
        return cx.subst[k]
    if n[0] == "num":
        return "%d%%N" % int(n[1].replace("_", "").rstrip("u64size"))
    if n[0] == "var":
        return n[1]
    if n[0] == "bin" and n[1] in ("+", "*"):
        return "(N.%s %s %s)" % ({"+": "add", "*": "mul"}[n[1]], emit_int(n[2], cx), emit_int(n[3], cx))
    raise TranslateError("unsupported integer expression")


def emit_cond(n, cx, ints):
    """a condition; comparisons in which a counter of `ints` takes part are comparisons of N"""
    if n[0] == "bin" and n[1] in ("<", ">", "<=", ">=", "==") and any(x[0] == "var" and x[1] in ints for x in (n[2], n[3])):
        l, r = emit_int(n[2], cx), emit_int(n[3], cx)
        return {"<": "(N.ltb %s %s)" % (l, r), ">": "(N.ltb %s %s)" % (r, l), "<=": "(N.leb %s %s)" % (l, r),
                ">=": "(N.leb %s %s)" % (r, l), "==": "(N.eqb %s %s)" % (l, r)}[n[1]]
    return emit(n, cx)


def emit_state(block, vars_, ints, ret, cx):
    """a block of statements that update the mutable variables `vars_` (those in `ints` are unsigned counters), possibly
    leaving the enclosing function by `return <ret>;`: the pair (returned early?, the variables afterwards).
    Statements after an if / if let are duplicated into both branches (continuation passing by copying)."""
    tup = "(%s)" % ", ".join(vars_)

    def seq(b, k):
        if b[0] != "block":
            raise TranslateError("not a block")
        stmts = list(b[1])
        if b[2] is not None:
            stmts.append(("final", b[2]))

        def rest(i):
            if i == len(stmts):
                return k()
            s = stmts[i]
            if s[0] == "let":
                return "(let %s := %s in %s)" % (s[1], emit(s[2], cx), rest(i + 1))
            if s[0] == "assign":
                if s[1] not in vars_:
                    raise TranslateError("assignment to %s, which is not one of the tracked variables" % s[1])
                if s[1] in ints:
                    rhs = emit_int(s[3], cx)
                    if s[2] != "=":
                        rhs = "(N.%s %s %s)" % ({"+": "add", "*": "mul"}[s[2][0]], s[1], rhs)
                else:
                    rhs = emit(s[3], cx)
                    if s[2] != "=":
                        rhs = "(%s %s %s)" % (s[1], s[2][0], rhs)
                return "(let %s := %s in %s)" % (s[1], rhs, rest(i + 1))
            if s[0] == "ifret":
                if s[2] != ("var", ret):
                    raise TranslateError("an early return of something other than `%s`" % ret)
                return "(if %s then (true, %s) else %s)" % (emit_cond(s[1], cx, ints), tup, rest(i + 1))
            if s[0] == "ifblock":
                return "(if %s then %s else %s)" % (emit_cond(s[1], cx, ints), seq(s[2], lambda: rest(i + 1)), rest(i + 1))
            if s[0] == "ifelse" or (s[0] == "final" and s[1][0] == "if"):
                n = s if s[0] == "ifelse" else s[1]
                if n[3][0] != "block":
                    raise TranslateError("else if in a statement position")
                return "(if %s then %s else %s)" % (emit_cond(n[1], cx, ints), seq(n[2], lambda: rest(i + 1)), seq(n[3], lambda: rest(i + 1)))
            if s[0] == "iflet":
                if s[1][0] != "some":
                    raise TranslateError("if let with a pattern other than Some(x)")
                return "(match %s with Some %s => %s | None => %s end)" % (emit(s[2], cx), s[1][1], seq(s[3], lambda: rest(i + 1)), rest(i + 1))
            if s[0] == "final" and s[1] == ("var", ret):
                return "(true, %s)" % tup
            raise TranslateError("unsupported statement (%s) in a state update" % s[0])
        return rest(0)
    return seq(block, lambda: "(false, %s)" % tup)


def emit_push(block, vec, cx):
    """a function that builds a Vec in the mutable variable `vec` (`let mut vec = vec![];`, `vec.push(e);`,
    `vec.append(&mut e);`, under `if`, `match` on an enum and `for`) and returns it: the list, built in the same order"""
    def seq(b, top):
        if b[0] != "block":
            raise TranslateError("not a block")

        def rest(i):
            if i == len(b[1]):
                if top and b[2] != ("var", vec):
                    raise TranslateError("the function does not end in `%s`" % vec)
                if not top and b[2] is not None:
                    raise TranslateError("a value in a statement block")
                return vec
            s = b[1][i]
            if s[0] == "let" and s[1] == vec:
                if s[2] != ("macro", "vec", []):
                    raise TranslateError("`%s` does not start as vec![]" % vec)
                return "(let %s := [] in %s)" % (vec, rest(i + 1))
            if s[0] == "let":
                return "(let %s := %s in %s)" % (s[1], emit(s[2], cx), rest(i + 1))
            if s[0] == "effect" and s[1][0] == "method" and s[1][1] == ("var", vec) and len(s[1][3]) == 1:
                arg = emit(s[1][3][0], cx)
                if s[1][2] == "push":
                    return "(let %s := %s ++ [%s] in %s)" % (vec, vec, arg, rest(i + 1))
                if s[1][2] == "append":
                    return "(let %s := %s ++ %s in %s)" % (vec, vec, arg, rest(i + 1))
                raise TranslateError("unknown Vec method %s" % s[1][2])
            if (s[0] == "assign" and s[1] == vec and s[2] == "=" and s[3][0] == "method" and s[3][1] == ("var", vec)
                    and s[3][2] == "add" and len(s[3][3]) == 1):
                # builder style: doc = doc.add(element)
                return "(let %s := %s ++ [%s] in %s)" % (vec, vec, emit(s[3][3][0], cx), rest(i + 1))
            if s[0] == "ifblock":
                return "(let %s := (if %s then %s else %s) in %s)" % (vec, emit(s[1], cx), seq(s[2], False), vec, rest(i + 1))
            if s[0] == "effect" and s[1][0] == "match":
                arms = []
                for pat, guard, body in s[1][2]:
                    if guard is not None:
                        raise TranslateError("a guard in a match over an enum")
                    if pat[0] == "wild":
                        p = "_"
                    elif pat[0] == "bind" and pat[1] in cx.subst:
                        p = cx.subst[pat[1]]
                    else:
                        raise TranslateError("unknown enum pattern %r" % (pat,))
                    arms.append("| %s => %s" % (p, seq(body, False)))
                return "(let %s := (match %s with %s end) in %s)" % (vec, emit(s[1][1], cx), " ".join(arms), rest(i + 1))
            if s[0] == "for":
                return "(let %s := fold_left (fun %s %s => %s) %s %s in %s)" % (vec, vec, pat_text(s[1]), seq(s[3], False), emit(s[2], cx), vec, rest(i + 1))
            raise TranslateError("unsupported statement (%s) while building a Vec" % s[0])
        return rest(0)
    return seq(block, True)


def chain(n):
    """(names joined by '.', all arguments in order) of a method chain rooted at a variable"""
    if n[0] == "var":
        return n[1], []
    if n[0] == "method":
        r, a = chain(n[1])
        return r + "." + n[2], a + list(n[3])
    if n[0] == "field":
        r, a = chain(n[1])
        return r + "." + n[2], a
    raise TranslateError("not a method chain")


def contains(n, k):
    if isinstance(n, tuple):
        if n and isinstance(n[0], str) and key(n) == k:
            return True
        return any(contains(x, k) for x in n)
    if isinstance(n, list):
        return any(contains(x, k) for x in n)
    return False


def emit_world(block, vars_, ints, cx, effects, reads):
    """statements that act on a world `w` through the method chains of `effects` (chain -> function from the translated
    arguments to a term of type `option world`, None being a panic), read it through `reads` (source key -> term of type
    `value * world`), and update the local variables `vars_`: Some (w, vars) or None (panic).  Continuations are copied."""
    tup = "(w, %s)" % ", ".join(vars_)

    def with_reads(n, body):
        """evaluate the world reads that occur in n first (one of each at most), then `body(cx')`"""
        hit = [k for k in reads if contains(n, k)]
        if not hit:
            return body(cx)
        if len(hit) > 1:
            raise TranslateError("several world reads in one statement")
        c2 = Ctx(subst=dict(cx.subst), calls=cx.calls, sq_for_powi2=cx.sq_for_powi2)
        c2.subst[hit[0]] = "read_"
        return "(let rw_ := %s in let read_ := fst rw_ in let w := snd rw_ in %s)" % (reads[hit[0]], body(c2))

    def assign(name, op, rhs_text):
        if name not in vars_:
            raise TranslateError("assignment to %s, which is not one of the tracked variables" % name)
        if op != "=":
            if name in ints:
                rhs_text = "(N.%s %s %s)" % ({"+": "add", "*": "mul"}[op[0]], name, rhs_text)
            else:
                rhs_text = "(%s %s %s)" % (name, op[0], rhs_text)
        return rhs_text

    def seq(b, k):
        """b's statements, then k(final value's AST or None)"""
        if b[0] != "block":
            return k(b)
        stmts = b[1]

        def rest(i):
            if i == len(stmts):
                return k(b[2])
            s = stmts[i]
            if s[0] == "let":
                return with_reads(s[2], lambda c: "(let %s := %s in %s)" % (s[1], emit(s[2], c), rest(i + 1)))
            if s[0] == "effect":
                names, args = chain(s[1])
                if names not in effects:
                    raise TranslateError("unknown effect %s" % names)
                return "(match %s with Some w => %s | None => None end)" % (effects[names]([emit(a, cx) for a in args]), rest(i + 1))
            if s[0] == "assign" and s[3][0] == "match":
                scrut, arms = s[3][1], s[3][2]
                pats = [a[0][0] for a in arms]
                if sorted(pats) != ["none", "some"] or any(a[1] is not None for a in arms):
                    raise TranslateError("assignment from a match that is not Some / None")
                some = [a for a in arms if a[0][0] == "some"][0]
                none = [a for a in arms if a[0][0] == "none"][0]

                def arm(a):
                    def fin(v):
                        if v is None:
                            raise TranslateError("a match arm without a value")
                        rhs = emit_int(v, cx) if s[1] in ints else emit(v, cx)
                        return "(let %s := %s in %s)" % (s[1], assign(s[1], s[2], rhs), rest(i + 1))
                    return seq(a[2], fin)
                return with_reads(scrut, lambda c: "(match %s with Some %s => %s | None => %s end)" % (emit(scrut, c), some[0][1], arm(some), arm(none)))
            if s[0] == "assign":
                rhs = emit_int(s[3], cx) if s[1] in ints else None
                if rhs is None:
                    return with_reads(s[3], lambda c: "(let %s := %s in %s)" % (s[1], assign(s[1], s[2], emit(s[3], c)), rest(i + 1)))
                return "(let %s := %s in %s)" % (s[1], assign(s[1], s[2], rhs), rest(i + 1))
            raise TranslateError("unsupported statement (%s) in a world update" % s[0])
        return rest(0)

    def top(v):
        if v is not None:
            raise TranslateError("a loop body with a value")
        return "(Some %s)" % tup
    return seq(block, top)


def fn_body(src, name, nth=0, after=None):
    """the text between the braces of the nth `fn name(` (searching from the text `after`, e.g. an impl header)"""
    if after is not None:
        if after not in src:
            raise TranslateError("anchor %r not found" % after)
        src = src[src.index(after):]
    ms = list(re.finditer(r"\bfn\s+%s\s*(?:<[^>{]*>)?\s*\(" % re.escape(name), src))
    if len(ms) <= nth:
        raise TranslateError("fn %s not found" % name)
    i = src.index("{", ms[nth].end())
    depth, j = 0, i
    while j < len(src):
        if src[j] == "{":
            depth += 1
        elif src[j] == "}":
            depth -= 1
            if depth == 0:
                return src[i + 1:j]
        j += 1
    raise TranslateError("unbalanced braces in fn %s" % name)
